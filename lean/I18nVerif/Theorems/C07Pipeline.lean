import I18nVerif.Proofs.PipeDiag
/-!
# C07 on the whole pipeline — key sets checked against the default locale, exact diagnostics

`Theorems/C07.lean` proves C07 for one call of `check_locales_inner` (one namespace), with the
builder keys of the default locale as an explicit intermediate object and `NDLoc` as a hypothesis.
Here the same is stated for `Pipeline.run` (decode → `merge_plurals` → `resolve_foreign_keys` →
`check_locales`), with a well-formed configuration as the only hypothesis, and everything on the
specification side computed from the **resolved world** `Pipeline.resolved inp` (the files as
decoded, plurals merged, foreign keys resolved): `Spec/PipeDiag.lean`.

* `keyTree dl.keys` — the key tree of the default locale (every value reduced, values forgotten);
* `worldW suppress inherits w.nss` — for every namespace in configuration order, for every
  non-default locale in configuration order, `Spec.Diagnostics.localeW`: per level, in the order of
  the default locale's keys, a `missing` for an absent key (only if the locale has no `inherits`
  entry and the build is not `suppress_key_warnings`), the recursion into a group present on both
  sides, nothing below an absent / `null` group; then the level's `surplus` keys in the order of
  the locale's keys (unless `suppress_key_warnings`).
-/
namespace I18nVerif.PipeDiag
open I18nVerif Check Reduce Spec.Diagnostics Spec.Fallback Datakey Occ Keys PipeInv

/-! ## The accessible keys and the diagnostics -/

/--
**C07 for `parse_locales`, end to end.**  Well-formed configuration (what `ConfigFile::new`
guarantees), any files.  If loading succeeds with output `out`, then the resolved world `w` (and the
warnings `ws` of the earlier stages) exist and

* `out.warnings = ws ++ worldW inp.suppress inp.cfg.inherits w.nss`: the earlier warnings, then
  **exactly** the specified key diagnostics, namespace after namespace, locale after locale, in the
  order described above — nothing else, nothing missing, no reordering;
* the namespaces of the output are those of `w`, in order (`Forall₂ NsTree`): same namespace key, and
  the builder keys have **exactly the key tree of the default (first) locale** (`SkL o.keys t` with
  `keyTree dl.keys = some t`): same key names in the same order at every depth, groups where the
  default locale has groups, value keys where it has plain values.
-/
theorem C07_pipeline (inp : Pipeline.Input) (hcfg : CfgWF inp.cfg) (out : Pipeline.Output)
    (h : Pipeline.run inp = .ok out) :
    ∃ w ws, Pipeline.resolved inp = .ok (w, ws) ∧
      out.warnings = ws ++ worldW inp.suppress inp.cfg.inherits w.nss ∧
      Forall₂ NsTree w.nss out.nss := by
  obtain ⟨w, ws, hr, hc⟩ := run_ok_parts inp out h
  obtain ⟨h1, h2⟩ := checkAll_diag inp w.nss ws out.nss out.warnings hc (resolved_nd inp hcfg w ws hr)
  exact ⟨w, ws, hr, h1, h2⟩

/-- the same for a configuration produced by `ConfigFile::new` -/
theorem C07_pipeline_of_config (table : List (Str × Config.TV)) (inp : Pipeline.Input)
    (hc : Config.new table = .ok inp.cfg) (out : Pipeline.Output) (h : Pipeline.run inp = .ok out) :
    ∃ w ws, Pipeline.resolved inp = .ok (w, ws) ∧
      out.warnings = ws ++ worldW inp.suppress inp.cfg.inherits w.nss ∧
      Forall₂ NsTree w.nss out.nss :=
  C07_pipeline inp (C09_cfgWF_of_config_new table inp.cfg hc) out h

/-- **the warnings of the earlier stages** are those `merge_plurals` returns (unused plural forms):
    decoding and foreign-key resolution add none -/
theorem C07_pipeline_earlier_warnings (inp : Pipeline.Input) (w : World) (ws : List Warning)
    (hr : Pipeline.resolved inp = .ok (w, ws)) :
    ∃ w0 paths nss, Pipeline.parseRaw inp = .ok (w0, paths) ∧
      Pipeline.mergePluralsAll inp.oracle w0.nss [] = .ok (nss, ws) :=
  resolved_warnings inp w ws hr

/-- the locales of every namespace of the resolved world are the configured ones, in configuration
    order: the default locale (`CfgOK`: listed first) is the first, the "other" locales follow -/
theorem C07_pipeline_locale_order (inp : Pipeline.Input) (hcfg : Render.CfgOK inp.cfg) (w : World) (ws : List Warning)
    (hr : Pipeline.resolved inp = .ok (w, ws)) :
    ∀ ns ∈ w.nss, ns.locales.map Loc.name = inp.cfg.locales ∧
      ∃ dl others, ns.locales = dl :: others ∧ dl.name = inp.cfg.default := by
  intro ns hns
  have hn := resolved_names inp w ws hr ns hns
  refine ⟨hn, ?_⟩
  have hd := hcfg.defaultFirst
  rw [← hn] at hd
  cases hloc : ns.locales with
  | nil => rw [hloc] at hd; simp at hd
  | cons dl others =>
    rw [hloc] at hd
    exact ⟨dl, others, rfl, by simpa using hd⟩

/--
**The key tree, read at key paths.**  For every namespace `o` of the output there is the namespace
`ns` of the resolved world with the same key and default locale `dl` such that: the top-level builder
keys are the default locale's keys (names and order); for every key path `p` (any depth) the builder
keys have a value key at `p` iff the default locale has a plain value at `p` (`leafValAt`), a group
at `p` iff the default locale has a group at `p`, and the keys of that group are the keys of the
default locale's group, in the same order.
-/
theorem C07_pipeline_key_tree_paths (inp : Pipeline.Input) (hcfg : CfgWF inp.cfg) (out : Pipeline.Output)
    (h : Pipeline.run inp = .ok out) :
    ∃ w ws, Pipeline.resolved inp = .ok (w, ws) ∧
      ∀ o ∈ out.nss, ∃ ns ∈ w.nss, ns.key = o.key ∧ ∃ dl others, ns.locales = dl :: others ∧
        o.keys.map Prod.fst = dl.keys.map Prod.fst ∧
        ∀ p, (leafAt o.keys p).isSome = leafValAt dl.keys p ∧
          ((nodeAt o.keys p).isSome = true ↔ ∃ g, valueAt dl.keys p = some (.subkeys (some g))) ∧
          (∀ ls ks, nodeAt o.keys p = some (ls, ks) →
            ∃ g, valueAt dl.keys p = some (.subkeys (some g)) ∧ ks.map Prod.fst = g.keys.map Prod.fst) := by
  obtain ⟨w, ws, hr, _, hf⟩ := C07_pipeline inp hcfg out h
  obtain ⟨_, _, hr', hc⟩ := run_ok_parts inp out h
  rw [hr] at hr'
  simp only [Res.ok.injEq, Prod.mk.injEq] at hr'
  obtain ⟨rfl, rfl⟩ := hr'
  refine ⟨w, ws, hr, ?_⟩
  intro o ho
  obtain ⟨ns, hns, ⟨hkey, dl, others, t, hloc, ht, hsk⟩⟩ := hf.mem_right o ho
  unfold keyTree at ht
  cases hrk : reduceKeys dl.keys with
  | err e => rw [hrk] at ht; cases ht
  | panic e => rw [hrk] at ht; cases ht
  | ok rk =>
    rw [hrk] at ht
    simp only [Option.some.injEq] at ht
    subst ht
    refine ⟨ns, hns, hkey.symm, dl, others, hloc, ?_, ?_⟩
    · rw [SkL_keys _ _ hsk, skelK_keys]
      exact reduceKeys_keys dl.keys rk hrk
    · intro p
      obtain ⟨hkind, hgrp⟩ := tree_valueAt p dl.keys rk o.keys hrk (SkL_symm _ _ hsk)
      refine ⟨?_, ?_, ?_⟩
      · -- leaves
        unfold leafValAt
        cases hl : leafAt o.keys p with
        | some r =>
          obtain ⟨iol, d⟩ := r
          rw [lvAt_of_leafAt p o.keys iol d hl] at hkind
          obtain ⟨v, hv, hlf⟩ := pvKind_false hkind.symm
          rw [hv]; simp [leafOpt, hlf]
        | none =>
          cases hv : valueAt dl.keys p with
          | none => rfl
          | some v =>
            cases hlf : isLeafVal v with
            | false => simp [leafOpt, hlf]
            | true =>
              exfalso
              rw [hv] at hkind
              have : pvKind (some v) = some false := by
                cases v <;> first | rfl | simp [isLeafVal] at hlf
              rw [this] at hkind
              obtain ⟨iol, d, hlv⟩ := lvKind_false hkind
              rw [leafAt_of_lvAt p o.keys iol d hlv] at hl
              cases hl
      · -- groups
        unfold nodeAt
        constructor
        · intro hn
          cases hlv : lvAt o.keys p with
          | none => rw [hlv] at hn; cases hn
          | some lv =>
            cases lv with
            | value _ _ => rw [hlv] at hn; cases hn
            | subkeys ls ks =>
              obtain ⟨g, hg, _⟩ := hgrp ls ks hlv
              exact ⟨g, hg⟩
        · rintro ⟨g, hg⟩
          rw [hg] at hkind
          obtain ⟨ls, sub, hlv⟩ := lvKind_true hkind
          rw [hlv]; rfl
      · intro ls ks hn
        unfold nodeAt at hn
        cases hlv : lvAt o.keys p with
        | none => rw [hlv] at hn; cases hn
        | some lv =>
          cases lv with
          | value _ _ => rw [hlv] at hn; cases hn
          | subkeys ls' ks' =>
            rw [hlv] at hn
            simp only [Option.some.injEq, Prod.mk.injEq] at hn
            obtain ⟨rfl, rfl⟩ := hn
            exact hgrp ls' ks' hlv

/-! ## The diagnostics as a set, read off the locales directly

`NsDiag suppress inherits ns w` (`Spec/PipeDiag.lean`, inductive `DiagAt`): for some non-default
locale `l` of the namespace, `w` is
* `missing l (ns/q/k)` — `k` is a key of the default locale's group at `q`, the locale has the group
  at `q` too (every key on the way is a group in both) but not the key `k`, the locale has no
  `inherits` entry and the build is not `suppress_key_warnings`; or
* `surplus l (ns/q/k)` — `k` is a key of the locale's group at `q` that the default locale's group at
  `q` does not have, and the build is not `suppress_key_warnings`.
-/

/--
**One diagnostic per (locale, key path) that deserves one, at every depth, and no other.**
Well-formed configuration; loading succeeds.  A warning is in the output iff it is a warning of the
earlier stages or `NsDiag` holds for it in some namespace of the resolved world.
-/
theorem C07_pipeline_diagnostics_set (inp : Pipeline.Input) (hcfg : CfgWF inp.cfg) (out : Pipeline.Output)
    (h : Pipeline.run inp = .ok out) :
    ∃ w ws, Pipeline.resolved inp = .ok (w, ws) ∧
      ∀ x, x ∈ out.warnings ↔ x ∈ ws ∨ ∃ ns ∈ w.nss, NsDiag inp.suppress inp.cfg.inherits ns x := by
  obtain ⟨w, ws, hr, hw, _⟩ := C07_pipeline inp hcfg out h
  refine ⟨w, ws, hr, ?_⟩
  have key : ∀ ns ∈ w.nss, ∀ x, x ∈ nsW inp.suppress inp.cfg.inherits ns ↔ NsDiag inp.suppress inp.cfg.inherits ns x := by
    intro ns hns x
    obtain ⟨hne, hall⟩ := C09_resolved_world_clean inp hcfg w ws hr ns hns
    cases hloc : ns.locales with
    | nil => exact absurd hloc hne
    | cons dl others =>
      have hdl : dl ∈ ns.locales := by rw [hloc]; simp
      obtain ⟨rk, hrk⟩ := reduceKeys_ok_of_clean dl.keys (hall dl hdl).1
      exact nsW_iff_diag _ _ ns dl others hloc (C11_resolved_distinct inp hcfg w ws hr ns hns dl hdl) rk hrk x
  intro x
  rw [hw, List.mem_append]
  simp only [worldW, List.mem_flatMap]
  constructor
  · rintro (hx | ⟨ns, hns, hx⟩)
    · exact Or.inl hx
    · exact Or.inr ⟨ns, hns, (key ns hns x).mp hx⟩
  · rintro (hx | ⟨ns, hns, hx⟩)
    · exact Or.inl hx
    · exact Or.inr ⟨ns, hns, (key ns hns x).mpr hx⟩

/--
**The same with key paths.**  `NsDiag` holds for `x` iff for some non-default locale `l` of the
namespace and some group path `q` (possibly empty) at which both the default locale and `l` have a
group (`groupAt`: keys `gd`, resp. `gl`), and some key `k`:
`x = missing l (ns/q/k)` with `k ∈ gd`, `k ∉ gl`, no `suppress_key_warnings`, no `inherits` entry for `l`; or
`x = surplus l (ns/q/k)` with `k ∈ gl`, `k ∉ gd`, no `suppress_key_warnings`.
-/
theorem C07_pipeline_diag_paths (suppress : Bool) (inherits : List (Str × Str)) (ns : NS) (x : Warning) :
    NsDiag suppress inherits ns x ↔
      ∃ dl others, ns.locales = dl :: others ∧ ∃ l ∈ others, ∃ q k gd gl,
        groupAt dl.keys q = some gd ∧ groupAt l.keys q = some gl ∧
        ((x = .missing l.name ⟨ns.key, q ++ [k]⟩ ∧ suppress = false ∧ AMap.get? l.name inherits = none ∧
            k ∈ gd.map Prod.fst ∧ k ∉ gl.map Prod.fst) ∨
         (x = .surplus l.name ⟨ns.key, q ++ [k]⟩ ∧ suppress = false ∧
            k ∈ gl.map Prod.fst ∧ k ∉ gd.map Prod.fst)) := by
  have himp : ∀ l : Loc, (!suppress && (AMap.get? l.name inherits).isNone) = true ↔
      suppress = false ∧ AMap.get? l.name inherits = none := by
    intro l
    cases suppress <;> cases AMap.get? l.name inherits <;> simp
  unfold NsDiag
  constructor
  · rintro ⟨dl, others, hloc, l, hl, hd⟩
    obtain ⟨q, k, gd, gl, h1, h2, hw⟩ := (diagAt_iff_path _ _ _ _ _ _ _).mp hd
    refine ⟨dl, others, hloc, l, hl, q, k, gd, gl, h1, h2, ?_⟩
    rcases hw with ⟨rfl, hi, a, b⟩ | ⟨rfl, hs, a, b⟩
    · exact Or.inl ⟨by simp, ((himp l).mp hi).1, ((himp l).mp hi).2, a, b⟩
    · exact Or.inr ⟨by simp, hs, a, b⟩
  · rintro ⟨dl, others, hloc, l, hl, q, k, gd, gl, h1, h2, hw⟩
    refine ⟨dl, others, hloc, l, hl, (diagAt_iff_path _ _ _ _ _ _ _).mpr ⟨q, k, gd, gl, h1, h2, ?_⟩⟩
    rcases hw with ⟨rfl, hs, hi, a, b⟩ | ⟨rfl, hs, a, b⟩
    · exact Or.inl ⟨by simp, (himp l).mpr ⟨hs, hi⟩, a, b⟩
    · exact Or.inr ⟨by simp, hs, a, b⟩

/-- no key diagnostic is about the default locale of its namespace … -/
theorem C07_pipeline_diag_locale (suppress : Bool) (inherits : List (Str × Str)) (ns : NS) (x : Warning)
    (h : NsDiag suppress inherits ns x) : ∃ l ∈ ns.locales.tail, warnLocale x = l.name := by
  obtain ⟨dl, others, hloc, l, hl, hd⟩ := h
  exact ⟨l, by rw [hloc]; exact hl, diagAt_locale hd⟩

/-- … an `inherits` entry or `suppress_key_warnings` silences `missing`, `suppress_key_warnings`
    silences `surplus` -/
theorem C07_pipeline_diag_silenced (suppress : Bool) (inherits : List (Str × Str)) (ns : NS) (x : Warning)
    (h : NsDiag suppress inherits ns x) :
    (∀ l p, x = .missing l p → suppress = false ∧ AMap.get? l inherits = none) ∧
    (∀ l p, x = .surplus l p → suppress = false) := by
  obtain ⟨dl, others, hloc, l, hl, hd⟩ := h
  obtain ⟨h1, h2⟩ := diagAt_silenced hd
  refine ⟨?_, h2⟩
  intro l' p e
  have := h1 l' p e
  have hl' : l' = l.name := by
    have := diagAt_locale hd
    rw [e] at this
    exact this
  subst hl'
  cases suppress <;> cases hg : AMap.get? l.name inherits <;> simp_all

/-! ## A group in one locale and a value in another is an error

`NsMismatch ns`: for some non-default locale `l` of the namespace and some key path `p`, the default
locale has a group at `p` and `l` a plain value other than `null`, or the default locale has a plain
value at `p` and `l` a group (`valueAt`: the values as the code looks at them, after `reduce`, on
the way down through groups only).
-/

/-- **soundness of the error.**  (Earlier stages succeed.)  If loading fails with `SubKeyMissmatch`,
    some non-default locale of some namespace really mismatches the default locale at some key path. -/
theorem C07_pipeline_mismatch_sound (inp : Pipeline.Input) (hcfg : CfgWF inp.cfg) (w : World) (ws : List Warning)
    (hr : Pipeline.resolved inp = .ok (w, ws)) (h : Pipeline.run inp = .err "SubKeyMissmatch") :
    ∃ ns ∈ w.nss, NsMismatch ns := by
  obtain ⟨ns, hns, he⟩ := run_err_witness inp hcfg w ws hr _ h
  rcases he with ⟨_, hm⟩ | ⟨e, _⟩ | ⟨e, _⟩ | ⟨e, _⟩
  · exact ⟨ns, hns, hm⟩
  · exact absurd e (by decide)
  · exact absurd e (by decide)
  · exact absurd e (by decide)

/-- **a mismatch never goes unnoticed**: if any non-default locale of any namespace mismatches the
    default locale at any key path (any depth), loading does not succeed -/
theorem C07_pipeline_mismatch_complete (inp : Pipeline.Input) (w : World) (ws : List Warning)
    (hr : Pipeline.resolved inp = .ok (w, ws)) (ns : NS) (hns : ns ∈ w.nss) (hm : NsMismatch ns)
    (out : Pipeline.Output) : Pipeline.run inp ≠ .ok out :=
  fun h => (run_ok_clean inp w ws hr out h ns hns).1 hm

/-- **every error of the check stage has its cause in the resolved world** (`NsErr`): the check fails
    only with `SubKeyMissmatch` (a mismatch), `ExplicitDefaultInDefault` (a `null` in the default
    locale), `RangeTypeMissmatch` or `RangeAndPluralsMix` (count conflicts, see C08) — each with a
    witness in some namespace -/
theorem C07_pipeline_check_errors (inp : Pipeline.Input) (hcfg : CfgWF inp.cfg) (w : World) (ws : List Warning)
    (hr : Pipeline.resolved inp = .ok (w, ws)) (e : String) (h : Pipeline.run inp = .err e) :
    ∃ ns ∈ w.nss, NsErr ns e :=
  run_err_witness inp hcfg w ws hr e h

theorem C07_pipeline_error_kinds (inp : Pipeline.Input) (hcfg : CfgWF inp.cfg) (w : World) (ws : List Warning)
    (hr : Pipeline.resolved inp = .ok (w, ws)) (e : String) (h : Pipeline.run inp = .err e) :
    e = "SubKeyMissmatch" ∨ e = "ExplicitDefaultInDefault" ∨ e = "RangeTypeMissmatch" ∨ e = "RangeAndPluralsMix" := by
  obtain ⟨ns, _, he⟩ := run_err_witness inp hcfg w ws hr e h
  rcases he with ⟨e, _⟩ | ⟨e, _⟩ | ⟨e, _⟩ | ⟨e, _⟩
  · exact Or.inl e
  · exact Or.inr (Or.inl e)
  · exact Or.inr (Or.inr (Or.inl e))
  · exact Or.inr (Or.inr (Or.inr e))

/-- a successful load: no mismatch, no `null` in a default locale, no count conflict, anywhere -/
theorem C07_pipeline_ok_clean (inp : Pipeline.Input) (w : World) (ws : List Warning)
    (hr : Pipeline.resolved inp = .ok (w, ws)) (out : Pipeline.Output) (h : Pipeline.run inp = .ok out) :
    ∀ ns ∈ w.nss, ¬ NsMismatch ns ∧ ¬ NsDefaultNull ns ∧ ¬ NsCountConflict ns :=
  run_ok_clean inp w ws hr out h

/--
**The error, exactly.**  Earlier stages succeed; no other cause of failure of the check is present
(no `null` in a default locale, no count conflict) and the model's recursion fuel is not exhausted
(by C09 the only possible panic).  Then loading fails with `SubKeyMissmatch` **iff** some
non-default locale mismatches the default locale somewhere.

Without the side conditions only the two directions above hold: which error is reported when several
causes are present depends on which the code visits first (namespaces, then locales, in
configuration order; within a locale the keys of the default locale in key order, depth first).
-/
theorem C07_pipeline_mismatch_iff (inp : Pipeline.Input) (hcfg : CfgWF inp.cfg) (w : World) (ws : List Warning)
    (hr : Pipeline.resolved inp = .ok (w, ws))
    (hq : ∀ ns ∈ w.nss, ¬ NsDefaultNull ns ∧ ¬ NsCountConflict ns)
    (hnp : ∀ s, Pipeline.run inp ≠ .panic s) :
    Pipeline.run inp = .err "SubKeyMissmatch" ↔ ∃ ns ∈ w.nss, NsMismatch ns := by
  constructor
  · exact C07_pipeline_mismatch_sound inp hcfg w ws hr
  · rintro ⟨ns, hns, hm⟩
    cases hrun : Pipeline.run inp with
    | ok out => exact absurd hrun (C07_pipeline_mismatch_complete inp w ws hr ns hns hm out)
    | panic s => exact absurd hrun (hnp s)
    | err e =>
      obtain ⟨ns', hns', he⟩ := run_err_witness inp hcfg w ws hr e hrun
      rcases he with ⟨e, _⟩ | ⟨_, hd⟩ | ⟨_, dl, others, hloc, p, hp, n, t, t', hc⟩ | ⟨_, dl, others, hloc, p, hp, n, t, hc⟩
      · rw [e]
      · exact absurd hd (hq ns' hns').1
      · exact absurd ⟨dl, others, hloc, p, hp, n, _, _, hc⟩ (hq ns' hns').2
      · exact absurd ⟨dl, others, hloc, p, hp, n, _, _, hc⟩ (hq ns' hns').2

/-- NOT proved (kept as a statement): the unconditional form — loading fails with `SubKeyMissmatch`
    iff a mismatch is the **first** cause of failure in the order the code visits (namespaces, then the
    default locale, then the other locales, each depth first in key order; `Pos.before`).  Proved
    instead: `C07_pipeline_mismatch_sound` (the error witnesses a mismatch),
    `C07_pipeline_mismatch_complete` (a mismatch makes the load fail), `C07_pipeline_check_errors`
    (every error of the check has a witnessed cause) and `C07_pipeline_mismatch_iff` (the equivalence
    when no other cause is present).  Missing for this form: the visiting order itself — the stage
    lemmas locate *a* failing place (`ErrAt`), they do not say that every place visited before it was
    fine, which needs the "everything before position `i` succeeded" invariant threaded through
    `mergeKeys` / `makeKeys` (sortedness of the key maps gives `pathBefore`). -/
def C07_pipeline_mismatch_full_statement : Prop :=
  ∀ (inp : Pipeline.Input), CfgWF inp.cfg → ∀ (w : World) (ws : List Warning),
    Pipeline.resolved inp = .ok (w, ws) → (∀ s, Pipeline.run inp ≠ .panic s) →
    (Pipeline.run inp = .err "SubKeyMissmatch" ↔
      ∃ pos, MismatchCause w.nss pos ∧ ∀ pos', pos'.before pos → ¬ CauseAt w.nss pos')

/-! ## Examples: a three-locale project with `inherits`, nested keys, a missing, two surplus keys

`locales = ["en", "fr", "fr-CA"]`, `default = "en"`, `inherits = { "fr-CA" = "fr" }`;

* `en.json    = {"hello": "Hello {{ name }}", "bye": "Bye", "g": {"t": "x"}}`
* `fr.json    = {"hello": "Bonjour {{ name }}", "bye": null, "g": {"u": "z"}}`
* `fr-CA.json = {"g": {"t": "<b>y</b>"}, "zzz": "w"}`

`#eval Pipeline.run` on it (the kernel cannot unfold the decoder) answers the warnings
`missing fr g.t`, `surplus fr g.u`, `surplus fr-CA zzz` — `bye: null` silences `bye` for `fr`,
`inherits` silences `bye` and `hello` for `fr-CA` — and `worldW` on `#eval Pipeline.resolved` the same list. -/

private def en : Str := ['e','n']
private def fr : Str := ['f','r']
private def ca : Str := ['f','r','-','C','A']
private def kHello : Str := ['h','e','l','l','o']
private def kBye : Str := ['b','y','e']
private def kG : Str := ['g']
private def kT : Str := ['t']
private def kU : Str := ['u']
private def kZ : Str := ['z','z','z']
private def vName : Str := ['v','a','r','_','n','a','m','e']
private def cB : Str := ['c','o','m','p','_','b']
private def tHello : Str := ['H','e','l','l','o',' ']
private def tBonjour : Str := ['B','o','n','j','o','u','r',' ']
private def tBye : Str := ['B','y','e']

private def exCfg : Config.Config :=
  { default := en, locales := [en, fr, ca], namespaces := none, localesDir := [], inherits := [(ca, fr)] }

/-- `CfgWF` (and `CfgOK`) are satisfiable by this configuration -/
private theorem exCfgWF : CfgWF exCfg :=
  ⟨by simp [exCfg], by decide, by intro l hl; simp [exCfg] at hl⟩
private theorem exCfgOK : Render.CfgOK exCfg := ⟨exCfgWF, rfl, by decide⟩

/-- the locales of the resolved world (values as the parser leaves them) -/
private def hello (t : Str) : PV := .bloc [.lit (.str t none), .var vName .none, .lit (.str [] none)]
private def enG : Loc := .mk kG en [(kT, .lit (.str ['x'] none))] [] 0
private def frG : Loc := .mk kG fr [(kU, .lit (.str ['z'] none))] [] 0
private def caG : Loc :=
  .mk kG ca [(kT, .bloc [.lit (.str [] none), .comp cB (.lit (.str ['y'] none)), .lit (.str [] none)])] [] 0
private def enL : Loc :=
  .mk en en [(kBye, .lit (.str tBye none)), (kG, .subkeys (some enG)), (kHello, hello tHello)] [] 0
private def frL : Loc := .mk fr fr [(kBye, .dflt), (kG, .subkeys (some frG)), (kHello, hello tBonjour)] [] 0
private def caL : Loc := .mk ca ca [(kG, .subkeys (some caG)), (kZ, .lit (.str ['w'] none))] [] 0
private def exNs : NS := ⟨none, [enL, frL, caL]⟩

/-- the key tree of the default locale: `bye`, `g: {t}`, `hello` -/
example : ∃ t, keyTree enL.keys = some t ∧ t.map Prod.fst = [kBye, kG, kHello] ∧
    (lvAt t [kG, kT]).isSome = true ∧ (nodeAt t [kG]).isSome = true ∧ (lvAt t [kG, kU]).isSome = false :=
  ⟨_, rfl, rfl, rfl, rfl, rfl⟩

/-- the specified diagnostics of the project, in order -/
example : worldW false exCfg.inherits [exNs]
    = [.missing fr ⟨none, [kG, kT]⟩, .surplus fr ⟨none, [kG, kU]⟩, .surplus ca ⟨none, [kZ]⟩] := rfl
/-- without the `inherits` entry `fr-CA` is reported for `bye` and `hello` as well -/
example : worldW false [] [exNs]
    = [.missing fr ⟨none, [kG, kT]⟩, .surplus fr ⟨none, [kG, kU]⟩,
       .missing ca ⟨none, [kBye]⟩, .missing ca ⟨none, [kHello]⟩, .surplus ca ⟨none, [kZ]⟩] := rfl
/-- `suppress_key_warnings`: nothing -/
example : worldW true exCfg.inherits [exNs] = [] := rfl

/-- the same as a set: `missing fr g.t` is a diagnostic because `t` is a key of `en`'s group `g`, `fr` has
    the group `g` but not `t`, and `fr` does not inherit -/
example : NsDiag false exCfg.inherits exNs (.missing fr ⟨none, [kG, kT]⟩) :=
  ⟨enL, [frL, caL], rfl, frL, by simp,
    DiagAt.inGroup (k := kG) (d1 := enG) (l1 := frG) rfl rfl rfl rfl
      (DiagAt.missing (k := kT) (by decide) (by decide) rfl)⟩
example : NsDiag false exCfg.inherits exNs (.surplus ca ⟨none, [kZ]⟩) :=
  ⟨enL, [frL, caL], rfl, caL, by simp, DiagAt.surplus (k := kZ) (by decide) (by decide) rfl⟩

/-- the builder keys `check_locales` returns for the project have the key tree of `en` -/
private def exKeys : BKI :=
  [(kBye, .value (.lit .string) ⟨en, [(fr, en), (ca, fr)]⟩),
   (kG, .subkeys
      [.mk kG en [(kT, .lit (.str ['x'] (some 1)))] [] 3,
       .mk kG fr [(kT, .dflt), (kU, .lit (.str ['z'] (some 1)))] [] 2,
       .mk kG ca [(kT, .comp cB (.lit (.str ['y'] (some 0))))] [] 2]
      [(kT, .value (.interpol { comps := [cB], vars := [] }) ⟨en, [(fr, en)]⟩)]),
   (kHello, .value (.interpol { comps := [], vars := [(vName, { fmts := [.none], count := none })] })
      ⟨en, [(ca, fr)]⟩)]

private def leaf : LV := .value (.lit .string) ⟨[], []⟩
private def enTree : BKI := [(kBye, leaf), (kG, .subkeys [] [(kT, leaf)]), (kHello, leaf)]
example : keyTree enL.keys = some enTree := rfl
example : NsTree exNs ⟨none, [], exKeys⟩ :=
  ⟨rfl, enL, [frL, caL], enTree, rfl, rfl, by simp [exKeys, enTree, leaf, SkL, LV.Sk]⟩

/-- a project with a mismatch: `fr` has a string where `en` has the group `g` -/
private def frBad : Loc := .mk fr fr [(kG, .lit (.str ['v'] none))] [] 0
private def badNs : NS := ⟨none, [enL, frBad]⟩
example : NsMismatch badNs :=
  ⟨enL, [frBad], rfl, frBad, by simp, [kG], Or.inl ⟨enG, _, rfl, rfl, rfl, by simp⟩⟩
/-- … and the other way round: `fr` has a group where `en` has the string `bye` -/
private def frBad2 : Loc := .mk fr fr [(kBye, .subkeys (some frG))] [] 0
example : NsMismatch ⟨none, [enL, frBad2]⟩ :=
  ⟨enL, [frBad2], rfl, frBad2, by simp, [kBye], Or.inr ⟨_, some frG, rfl, rfl, rfl⟩⟩

/-- the theorems instantiated on the project (files as decoded trees): every hypothesis but the
    outcome of the run is discharged -/
private def exFiles : List ((Option Str × Str) × J) :=
  [((none, en), .obj [(kHello, .str ['H','e','l','l','o',' ','{','{',' ','n','a','m','e',' ','}','}']),
      (kBye, .str tBye), (kG, .obj [(kT, .str ['x'])])]),
   ((none, fr), .obj [(kHello, .str ['B','o','n','j','o','u','r',' ','{','{',' ','n','a','m','e',' ','}','}']),
      (kBye, .null), (kG, .obj [(kU, .str ['z'])])]),
   ((none, ca), .obj [(kG, .obj [(kT, .str ['<','b','>','y','<','/','b','>'])]), (kZ, .str ['w'])])]
private def exInp : Pipeline.Input :=
  { cfg := exCfg, files := exFiles,
    oracle := { cats := fun _ _ => some [.one, .other], cat := fun _ _ _ => some .other } }

example (out : Pipeline.Output) (h : Pipeline.run exInp = .ok out) :
    ∃ w ws, Pipeline.resolved exInp = .ok (w, ws) ∧
      out.warnings = ws ++ worldW false [(ca, fr)] w.nss ∧ Forall₂ NsTree w.nss out.nss :=
  C07_pipeline exInp exCfgWF out h

example (w : World) (ws : List Warning) (hr : Pipeline.resolved exInp = .ok (w, ws)) :
    ∀ ns ∈ w.nss, ns.locales.map Loc.name = [en, fr, ca] ∧
      ∃ dl others, ns.locales = dl :: others ∧ dl.name = en :=
  C07_pipeline_locale_order exInp exCfgOK w ws hr

example (w : World) (ws : List Warning) (hr : Pipeline.resolved exInp = .ok (w, ws))
    (h : Pipeline.run exInp = .err "SubKeyMissmatch") : ∃ ns ∈ w.nss, NsMismatch ns :=
  C07_pipeline_mismatch_sound exInp exCfgWF w ws hr h

end I18nVerif.PipeDiag
