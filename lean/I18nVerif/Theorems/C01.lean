import I18nVerif.Proofs.ParsePrint
/-!
# C01 — Rendered text is exactly what the translation source says (parser level: parse ∘ print)

Model: `I18nVerif.Parse.new` (`ParsedValue::new`, `leptos_i18n_parser/src/parse_locales/parsed_value.rs:125-439`).
Spec: `I18nVerif.Src` (source items, `printL`, `evalSrc`, `WF`), denotation `Eval.eval`.
All theorems quantify over every well-formed list of source items: no bound on the number of items,
on nesting depth, on names (same-name nesting included) or on the text (any Unicode).
-/
namespace I18nVerif.Src
open I18nVerif Str Parse

/-- variables-only statement, for every fuel exceeding the length of the string -/
theorem C01_parse_print_vars_fuel : ∀ (fuel : Nat) (t : List Item), (∀ i ∈ t, isComp i = false) →
    WF t → (printL t).length < fuel →
    ∃ v, newF fuel (printL t) = .ok v ∧ ∀ ρ, Eval.eval ρ v = evalSrc ρ t := by
  intro fuel
  induction fuel with
  | zero => intro t _ _ hl; exact absurd hl (Nat.not_lt_zero _)
  | succ fuel ih =>
    intro t hc h hl
    rcases split_var t hc with ht | ⟨texts, n, w1, w2, post, rfl, ht⟩
    · exact ⟨_, newF_texts fuel t ht h, fun ρ => by simp [Eval.eval, Lit.display, texts_eval ρ t ht]⟩
    · have hlen : (printL texts).length < fuel ∧ (printL post).length < fuel := by
        rw [printL_var_split] at hl
        simp only [List.length_append, List.length_cons] at hl
        omega
      obtain ⟨b, hb, eb⟩ := ih texts (compFree_of_allText ht) (wfL_append_left _ _ h) hlen.1
      have hpost : WF post := (wfL_cons (wfL_append_right _ _ h)).2
      obtain ⟨a, ha, ea⟩ := ih post
        (fun i hi => compFree_append_right (a := texts) hc i (by simp [hi])) hpost hlen.2
      refine ⟨_, newF_var fuel texts post n w1 w2 ht hc h b a hb ha, fun ρ => ?_⟩
      simp [Eval.eval, Eval.evalL, evalSrc_append, evalSrc, evalI, eb ρ, ea ρ]

/-- **parse ∘ print, variables only.**  A well-formed list of text and `{{ var }}` items (any
whitespace inside the braces, any text): `ParsedValue::new` on the printed string succeeds — no
error, no panic — and the value denotes exactly the source: text verbatim and in order, each
variable replaced by the supplied value. -/
theorem C01_parse_print_vars (t : List Item) (hc : ∀ i ∈ t, isComp i = false) (h : WF t) :
    ∃ v, Parse.new (printL t) = .ok v ∧ ∀ ρ, Eval.eval ρ v = evalSrc ρ t :=
  C01_parse_print_vars_fuel _ t hc h (Nat.lt_succ_self _)

/-- full statement, for every fuel exceeding the length of the string -/
theorem C01_parse_print_fuel : ∀ (fuel : Nat) (t : List Item), WF t → (printL t).length < fuel →
    ∃ v, newF fuel (printL t) = .ok v ∧ ∀ ρ, Eval.eval ρ v = evalSrc ρ t := by
  intro fuel
  induction fuel with
  | zero => intro t _ hl; exact absurd hl (Nat.not_lt_zero _)
  | succ fuel ih =>
    intro t h hl
    rcases split_comp t with hc | ⟨pre, n, w1, w2, w3, w4, w5, kids, post, rfl, hpre⟩
    · -- no component: all text, or a first variable
      rcases split_var t hc with ht | ⟨texts, n, w1, w2, post, rfl, ht⟩
      · exact ⟨_, newF_texts fuel t ht h,
          fun ρ => by simp [Eval.eval, Lit.display, texts_eval ρ t ht]⟩
      · have hlen : (printL texts).length < fuel ∧ (printL post).length < fuel := by
          rw [printL_var_split] at hl
          simp only [List.length_append, List.length_cons] at hl
          omega
        obtain ⟨b, hb, eb⟩ := ih texts (wfL_append_left _ _ h) hlen.1
        obtain ⟨a, ha, ea⟩ := ih post (wfL_cons (wfL_append_right _ _ h)).2 hlen.2
        refine ⟨_, newF_var fuel texts post n w1 w2 ht hc h b a hb ha, fun ρ => ?_⟩
        simp [Eval.eval, Eval.evalL, evalSrc_append, evalSrc, evalI, eb ρ, ea ρ]
    · -- a first component: before / between / after
      have hlen : (printL pre).length < fuel ∧ (printL kids).length < fuel ∧
          (printL post).length < fuel := by
        rw [printL_comp_split] at hl
        simp only [List.length_append, List.length_cons] at hl
        omega
      obtain ⟨hcomp, hpost⟩ := wfL_cons (wfL_append_right _ _ h)
      have hkids : WF kids := (wfI_comp_spec hcomp).2.2.2.2.2.2
      obtain ⟨b, hb, eb⟩ := ih pre (wfL_append_left _ _ h) hlen.1
      obtain ⟨m, hm, em⟩ := ih kids hkids hlen.2.1
      obtain ⟨a, ha, ea⟩ := ih post hpost hlen.2.2
      refine ⟨_, newF_comp fuel pre post kids n w1 w2 w3 w4 w5 hpre h b m a hb hm ha, fun ρ => ?_⟩
      simp [Eval.eval, Eval.evalL, evalSrc_append, evalSrc, evalI, eb ρ, em ρ, ea ρ]

/-- **parse ∘ print.**  For every well-formed source — text, `{{ var }}` and `<tag>…</tag>` items,
components nested to any depth (same-name nesting included), any whitespace at the five positions
the tag grammar tolerates and inside `{{ }}`, any Unicode text — `ParsedValue::new` on the printed
string succeeds (no error, no panic, the fuel `|s| + 1` of the model is enough) and the value it
returns denotes exactly the source: literal text verbatim and in order, every variable replaced by
the supplied value, every component applied to its rendered children.  Nothing dropped,
duplicated or reordered. -/
theorem C01_parse_print (t : List Item) (h : WF t) :
    ∃ v, Parse.new (printL t) = .ok v ∧ ∀ ρ, Eval.eval ρ v = evalSrc ρ t :=
  C01_parse_print_fuel _ t h (Nat.lt_succ_self _)

/-- the result does not depend on the fuel once the fuel exceeds the length of the string (so the
    `|s| + 1` of `Parse.new` is enough and `panic "fuel"` is never reported on well-formed sources) -/
theorem C01_parse_print_fuel_irrelevant : ∀ (f1 f2 : Nat) (t : List Item), WF t →
    (printL t).length < f1 → (printL t).length < f2 → newF f1 (printL t) = newF f2 (printL t) := by
  intro f1
  induction f1 with
  | zero => intro f2 t _ hl; exact absurd hl (Nat.not_lt_zero _)
  | succ f1 ih =>
    intro f2 t h l1 l2
    cases f2 with
    | zero => exact absurd l2 (Nat.not_lt_zero _)
    | succ f2 =>
      rcases split_comp t with hc | ⟨pre, n, w1, w2, w3, w4, w5, kids, post, rfl, hpre⟩
      · rcases split_var t hc with ht | ⟨texts, n, w1, w2, post, rfl, ht⟩
        · rw [newF_texts f1 t ht h, newF_texts f2 t ht h]
        · have hlen : ((printL texts).length < f1 ∧ (printL post).length < f1) ∧
              ((printL texts).length < f2 ∧ (printL post).length < f2) := by
            rw [printL_var_split] at l1 l2
            simp only [List.length_append, List.length_cons] at l1 l2
            omega
          have wt := wfL_append_left _ _ h
          have wp := (wfL_cons (wfL_append_right _ _ h)).2
          obtain ⟨b, hb, _⟩ := C01_parse_print_fuel f1 texts wt hlen.1.1
          obtain ⟨a, ha, _⟩ := C01_parse_print_fuel f1 post wp hlen.1.2
          have hb' := ih f2 texts wt hlen.1.1 hlen.2.1
          have ha' := ih f2 post wp hlen.1.2 hlen.2.2
          rw [hb] at hb'; rw [ha] at ha'
          rw [newF_var f1 texts post n w1 w2 ht hc h b a hb ha,
            newF_var f2 texts post n w1 w2 ht hc h b a hb'.symm ha'.symm]
      · have hlen : ((printL pre).length < f1 ∧ (printL kids).length < f1 ∧
              (printL post).length < f1) ∧ ((printL pre).length < f2 ∧
              (printL kids).length < f2 ∧ (printL post).length < f2) := by
          rw [printL_comp_split] at l1 l2
          simp only [List.length_append, List.length_cons] at l1 l2
          omega
        obtain ⟨hcomp, wp⟩ := wfL_cons (wfL_append_right _ _ h)
        have wk : WF kids := (wfI_comp_spec hcomp).2.2.2.2.2.2
        have wpre := wfL_append_left _ _ h
        obtain ⟨b, hb, _⟩ := C01_parse_print_fuel f1 pre wpre hlen.1.1
        obtain ⟨m, hm, _⟩ := C01_parse_print_fuel f1 kids wk hlen.1.2.1
        obtain ⟨a, ha, _⟩ := C01_parse_print_fuel f1 post wp hlen.1.2.2
        have hb' := ih f2 pre wpre hlen.1.1 hlen.2.1
        have hm' := ih f2 kids wk hlen.1.2.1 hlen.2.2.1
        have ha' := ih f2 post wp hlen.1.2.2 hlen.2.2.2
        rw [hb] at hb'; rw [hm] at hm'; rw [ha] at ha'
        rw [newF_comp f1 pre post kids n w1 w2 w3 w4 w5 hpre h b m a hb hm ha,
          newF_comp f2 pre post kids n w1 w2 w3 w4 w5 hpre h b m a hb'.symm hm'.symm ha'.symm]

/-- **Dyck invariant of `find_closing_tag`'s loop.**  Printed well-formed items are transparent to
the scan for any key: depth and best candidate are the same after them as before (an inner closing
tag of the key is always met at depth ≥ 1, so it is never recorded; every opening tag has its
closing tag). -/
theorem C01_closing_scan_transparent (t : List Item) (h : WF t) (key x : Str) (p d : Nat)
    (f : Option (Nat × Nat)) :
    closingScan key (printL t ++ x) p d f = closingScan key x (p + (printL t).length) d f :=
  scan_L t key x p d f h

/-- **The matching closing tag is the one found.**  On `kids <w4/w3 n w5> post` (well-formed `kids`
and `post`, both possibly containing components named `n`) `find_closing_tag` returns exactly
`kids` as the inside and `post` as the remainder: later complete `<n>…</n>` in `post` do not
overwrite the candidate, inner `</n>` in `kids` are not taken. -/
theorem C01_closing_tag_found (n w3 w4 w5 : Str) (kids post : List Item)
    (hn : nameOk "comp_".toList n = true) (h3 : wsOk w3 = true) (h4 : wsOk w4 = true)
    (h5 : wsOk w5 = true) (hk : WF kids) (hp : WF post) :
    findClosingTag (printL kids ++ closeTag n w3 w4 w5 ++ printL post) n =
      some ("comp_".toList ++ n, printL kids, printL post) := by
  have := findClosingTag_found n w3 w4 w5 kids post hn h3 h4 h5 hk hp
  simpa [closeTag] using this

/-! ### Examples: the hypotheses are satisfiable by non-trivial sources; what `WF` excludes -/

/-- `Héllo < b⇥>ü{<b>{{ name  }}</b> } > $t< / b　> …{{count}}`: same-name nesting, whitespace at
    all five tag positions (a tab, an ideographic space U+3000) and inside `{{ }}`, non-ASCII text,
    text with a lone `{`, `}`, `>` and `$t` -/
def ex1 : List Item :=
  [ .text "Héllo ".toList,
    .comp "b".toList " ".toList "\t".toList " ".toList " ".toList "　".toList
      [ .text "ü{".toList,
        .comp "b".toList [] [] [] [] [] [ .var "name".toList " ".toList "  ".toList ],
        .text " } > $t".toList ],
    .text " …".toList,
    .var "count".toList [] [] ]

private def lit (s : String) : PV := .lit (.str s.toList none)

example : WF ex1 := by decide
example : printL ex1 = "Héllo < b\t>ü{<b>{{ name  }}</b> } > $t< / b　> …{{count}}".toList := by rfl
example : Parse.new (printL ex1) = .ok
    (.bloc [lit "Héllo ",
      .comp "comp_b".toList (.bloc [lit "ü{",
        .comp "comp_b".toList (.bloc [lit "", .var "var_name".toList .none, lit ""]),
        lit " } > $t"]),
      .bloc [lit " …", .var "var_count".toList .none, lit ""]]) := by rfl
example (ρ : Eval.Env) : evalSrc ρ ex1 =
    "Héllo ".toList ++ ρ.comp "comp_b".toList ("ü{".toList ++
      ρ.comp "comp_b".toList (ρ.var "var_name".toList .none) ++ " } > $t".toList) ++
      " …".toList ++ ρ.var "var_count".toList .none := by
  simp [evalSrc, evalI, ex1]

/-- `<b>x</b><b><b></b>y</b>{{v}}`: complete same-name components *after* the first one (the scan
    for the first closing tag walks over them: depth 1, 2, back to 0) and a variable after them -/
def ex2 : List Item :=
  [ .comp "b".toList [] [] [] [] [] [ .text "x".toList ],
    .comp "b".toList [] [] [] [] [] [ .comp "b".toList [] [] [] [] [] [], .text "y".toList ],
    .var "v".toList [] [] ]

example : WF ex2 := by decide
example : printL ex2 = "<b>x</b><b><b></b>y</b>{{v}}".toList := by rfl
example : Parse.new (printL ex2) = .ok
    (.bloc [lit "", .comp "comp_b".toList (lit "x"),
      .bloc [lit "", .comp "comp_b".toList
          (.bloc [lit "", .comp "comp_b".toList (lit ""), lit "y"]),
        .bloc [lit "", .var "var_v".toList .none, lit ""]]]) := by rfl

/-- adjacent text items are allowed as long as no `{{`, `$t(` or `<` is assembled -/
example : WF [.text "a$".toList, .text "t".toList, .text "{".toList, .text "}(".toList] := by decide

/-- excluded: a text ending in `{` right before a variable (`a{{{x}}` is read as one literal) … -/
example : ¬ WF [.text "a{".toList, .var "x".toList [] []] := by decide
example : Parse.new (printL [.text "a{".toList, .var "x".toList [] []]) = .ok (lit "a{{{x}}") := by rfl
/-- … `$t(` assembled from adjacent texts, a `<` in a text, a keyword or a non-identifier as a name,
    non-whitespace where whitespace is expected -/
example : ¬ WF [.text "$t".toList, .text "(".toList] := by decide
example : ¬ WF [.text "a<b".toList] := by decide
example : ¬ WF [.var "a b".toList [] []] := by decide
example : ¬ WF [.var "x".toList "_".toList []] := by decide

end I18nVerif.Src
