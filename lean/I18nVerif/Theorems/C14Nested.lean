import I18nVerif.Spec.RouterNested
/-!
# C14, route matching half — what the executable specification `Spec/RouterNested.lean` says, in the property's words

The judgement applied by the check to `I18nNestedRoute::match_nested` is `Spec.nestedRouteOk` (the result equals
`Spec.expectedMatch` over `Spec.routeCandidates`).  These theorems state, for every list of locale names, path, base
path and every way a plain route tree may serve segments (`serves`), that this expectation is the property text:
a locale is reported only when the first segment after the base path equals its name exactly; a URL without such a
segment is matched as it is with the default locale's segments and reports no locale; nothing outside the base path.
(There is no Lean model of `match_nested`: `leptos_router`'s matching is not modelled; the implementation is tied to
this specification by the check, with the real `leptos_router` on the plain tree as `serves`.)
-/
namespace I18nVerif.Router
open Spec

theorem mem_namedBy {names : List Str} {s : Str} {l : Nat} (h : l ∈ namedBy names s) :
    (names[l]? == some s) = true := by
  simp only [namedBy, List.mem_filter] at h
  exact h.2

theorem filter_range_singleton (p : Nat → Bool) (n l : Nat) (hl : l < n)
    (hp : ∀ k, k < n → (p k = true ↔ k = l)) : (List.range n).filter p = [l] := by
  induction n with
  | zero => omega
  | succ n ih =>
    rw [List.range_succ, List.filter_append]
    rcases Nat.lt_or_ge l n with h | h
    · have hn : p n = false := by
        cases hpn : p n with
        | false => rfl
        | true => have := (hp n (by omega)).mp hpn; omega
      rw [ih h (fun k hk => hp k (by omega))]
      simp [hn]
    · have hln : l = n := by omega
      subst hln
      have hnil : (List.range l).filter p = [] := by
        rw [List.filter_eq_nil_iff]
        intro k hk
        have hk' : k < l := List.mem_range.mp hk
        intro hpk
        have := (hp k (by omega)).mp hpk
        omega
      have hpl : p l = true := (hp l (by omega)).mpr rfl
      simp [hnil, hpl]

/-- **A locale is reported only when the first path segment after the base path equals its name exactly.** -/
theorem C14_nested_reports_only_named_locale {α : Type} (names : List Str) (path base : Str)
    (serves : Candidate → Option α) (l : Nat) (m : α)
    (h : expectedMatch (routeCandidates names path base) serves = some (some l, m)) :
    readsAs names path base l = true := by
  unfold routeCandidates at h
  unfold readsAs
  cases hab : afterBase path base with
  | none => simp [hab, expectedMatch] at h
  | some rest =>
    simp only [hab] at h
    cases rest with
    | nil =>
      simp only [expectedMatch, List.nil_append, List.findSome?_cons, List.findSome?_nil] at h
      cases hs : serves { reports := none, segmentsOf := 0, rest := [] } <;> simp [hs] at h
    | cons s tl =>
      simp only [expectedMatch, List.findSome?_append] at h
      cases hp : List.findSome? (fun c => Option.map (fun m => (c.reports, m)) (serves c))
          (List.map (fun l => ({ reports := some l, segmentsOf := l, rest := tl } : Candidate)) (namedBy names s)) with
      | none =>
        simp only [hp, Option.none_or, List.findSome?_cons, List.findSome?_nil] at h
        cases hs : serves { reports := none, segmentsOf := 0, rest := s :: tl } <;> simp [hs] at h
      | some r =>
        simp only [hp, Option.some_or, Option.some.injEq] at h
        subst h
        obtain ⟨c, hc, hr⟩ := List.exists_of_findSome?_eq_some hp
        obtain ⟨k, hk, rfl⟩ := List.mem_map.mp hc
        cases hs : serves { reports := some k, segmentsOf := k, rest := tl } with
        | none => simp [hs] at hr
        | some m' =>
          simp only [hs, Option.map_some, Option.some.injEq, Prod.mk.injEq] at hr
          obtain ⟨hk', _⟩ := hr
          have : k = l := by simpa using hk'
          subst this
          exact mem_namedBy hk

/-- **No locale prefix: the whole rest, the default locale's segments, no locale reported.**  When no locale's name
    equals the first segment after the base path, the expectation is exactly what the plain tree of the default locale
    (index 0) answers for all the remaining segments (in particular: a path only another locale's words would serve
    is not matched). -/
theorem C14_nested_unprefixed_uses_default {α : Type} (names : List Str) (path base : Str)
    (serves : Candidate → Option α) (rest : List Str) (hab : afterBase path base = some rest)
    (hno : ∀ l, readsAs names path base l = false) :
    expectedMatch (routeCandidates names path base) serves
      = (serves { reports := none, segmentsOf := 0, rest := rest }).map (fun m => (none, m)) := by
  unfold routeCandidates
  simp only [hab]
  cases rest with
  | nil => simp [expectedMatch]
  | cons s tl =>
    have hnil : namedBy names s = [] := by
      simp only [namedBy, List.filter_eq_nil_iff]
      intro l _
      have := hno l
      simp only [readsAs, hab] at this
      simp [this]
    simp [expectedMatch, hnil]

/-- **A locale prefix: that locale's segments on the rest, reporting it — first.**  When the first segment after the
    base path is the name of `l` (names distinct) and `l`'s plain tree serves the rest, that is the expectation. -/
theorem C14_nested_prefixed_uses_that_locale {α : Type} (names : List Str) (hd : names.Nodup) (path base : Str)
    (serves : Candidate → Option α) (s : Str) (tl : List Str) (l : Nat) (m : α)
    (hab : afterBase path base = some (s :: tl)) (hl : names[l]? = some s)
    (hs : serves { reports := some l, segmentsOf := l, rest := tl } = some m) :
    expectedMatch (routeCandidates names path base) serves = some (some l, m) := by
  have hlen : l < names.length := by
    rcases Nat.lt_or_ge l names.length with h | h
    · exact h
    · simp [List.getElem?_eq_none_iff.mpr h] at hl
  have hnb : namedBy names s = [l] := by
    simp only [namedBy]
    apply filter_range_singleton _ _ _ hlen
    intro k hk
    constructor
    · intro h
      have hk' : names[k]? = some s := by simpa using h
      rw [List.getElem?_eq_getElem hk] at hk'
      rw [List.getElem?_eq_getElem hlen] at hl
      have : names[k] = names[l] := by
        simp only [Option.some.injEq] at hk' hl
        rw [hk', hl]
      exact (List.getElem_inj hd).mp this
    · intro h
      subst h
      simp [hl]
  unfold routeCandidates
  simp [hab, expectedMatch, hnb, hs]

/-- **Nothing outside the base path.** -/
theorem C14_nested_not_under_base {α : Type} (names : List Str) (path base : Str) (serves : Candidate → Option α)
    (hab : afterBase path base = none) : expectedMatch (routeCandidates names path base) serves = none := by
  simp [routeCandidates, hab, expectedMatch]

end I18nVerif.Router

namespace I18nVerif.Router
open Spec

/-- the candidates of `/fr/x` over `en` (default), `fr`: the `fr` family on `x`, then the un-prefixed family on `fr/x` -/
example : routeCandidates [['e', 'n'], ['f', 'r']] ['/', 'f', 'r', '/', 'x'] [] =
    some [{ reports := some 1, segmentsOf := 1, rest := [['x']] }, { reports := none, segmentsOf := 0, rest := [['f', 'r'], ['x']] }] := by
  decide

/-- `/fra/x` carries no locale of `en`, `fr`: only the un-prefixed (default) family -/
example : routeCandidates [['e', 'n'], ['f', 'r']] ['/', 'f', 'r', 'a', '/', 'x'] [] =
    some [{ reports := none, segmentsOf := 0, rest := [['f', 'r', 'a'], ['x']] }] := by
  decide

/-- seeded change C14-m5 in the specification's terms: over `en` (default), `fr` with the localized segment
    about / a-propos, `/about` is expected to match without locale and `/a-propos` is expected not to match -/
example :
    let serves : Candidate → Option Nat := fun c =>
      if c.rest = [if c.segmentsOf = 0 then ['a', 'b', 'o', 'u', 't'] else ['a', '-', 'p', 'r', 'o', 'p', 'o', 's']] then some 0 else none
    expectedMatch (routeCandidates [['e', 'n'], ['f', 'r']] ['/', 'a', 'b', 'o', 'u', 't'] []) serves = some (none, 0)
      ∧ expectedMatch (routeCandidates [['e', 'n'], ['f', 'r']] ['/', 'a', '-', 'p', 'r', 'o', 'p', 'o', 's'] []) serves = none
      ∧ expectedMatch (routeCandidates [['e', 'n'], ['f', 'r']] ['/', 'f', 'r', '/', 'a', '-', 'p', 'r', 'o', 'p', 'o', 's'] []) serves
          = some (some 1, 0) := by
  decide

end I18nVerif.Router
