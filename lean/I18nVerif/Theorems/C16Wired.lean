import I18nVerif.Theorems.C16Ticks
/-!
# C16 — sub-contexts with a wired initial-locale signal

Property C16 ends with "A sub-context and its parent never change each other's locale once created, **unless the caller
wired an initial-locale signal**."  This file is about that exception: `init_i18n_subcontext(Some(signal))` /
`<I18nSubContextProvider initial_locale=signal>` with a signal `W` the caller keeps and writes later.

Model (`Model/Context.lean`): `Op.subWired parent w` creates the sub-context (it starts at `w`, not at its parent's locale)
together with a `Wire {ctx, val, seen}`; `Op.wireSet i x` is the caller's `W.set(x)` — it changes `val` only; `Op.tick`
(the executor runs: the `RenderEffect` of `init_context_inner` re-evaluates the listener memo) **delivers** every wire whose
value differs from what the memo last evaluated to (`val ≠ seen`): the sub-context's cell is overwritten by a tracked set,
its reactive accessors are notified, and `seen := val`.  A wire written with the value the memo already had delivers
nothing.  Spec (`Spec/Context.lean`): `wires`, `due`, `current (.tick :: h)`.

Theorems (every state / every operation sequence; nothing is bounded):

* `C16_wired_memo_runs` — the model's "every run of the listener memo yields the wire's value" is what the C15 model of
  that memo (`Resolve.subMemo`) computes, first run and re-runs, whatever the cookie signal holds;
* `C16_wired_creation` — a wired sub-context starts at its wire's value; creating it changes nothing else;
* **(a)** `C16_wired_isolation_step`, `C16_wired_isolation_seq`, `C16_wired_parent_child_isolated` — a context changes only
  through its own `set*` operations and the delivery of its own wire: whatever is done to a wired sub-context (sets, wire
  writes, deliveries) leaves its parent, its siblings, its own sub-contexts alone, and whatever is done elsewhere leaves it
  alone;
* **(b)** `C16_wired_tick_delivers`, `C16_wired_delivery`, `C16_wired_same_value_no_delivery` — after a wire was written
  with a value that differs from the last delivered one, the next tick makes `get_locale`, every scoped view, every closure
  and every reactive accessor of the sub-context show it (whatever was set in between); written with the same value,
  nothing changes;
* **(c)** `C16_wired_last_event` (what each operation does to what a context shows: the latest of "a `set*` on it" and "a
  delivery into it" wins), `C16_wired_shows_last_event` (the machine shows exactly that, after every sequence),
  `C16_wired_shows_set_or_delivered` (hence: the most recently set locale or the most recently delivered wire value),
  `C16_wired_one_wire_per_context`;
* **(d)** `C16_wired_agree`, `C16_wired_agree_after_tick`, `C16_wired_agree_run` — when the last `set*` on it and its wire
  agree on `l` and nothing is in flight (e.g. right after a tick), it shows `l`.
-/
namespace I18nVerif.Context
open Spec

/-! ### the listener memo -/

/-- **The listener memo of a wired sub-context always yields the wire's value.**  `initial_locale_listener`
    (`context.rs`, modelled in C15 as `Resolve.subMemo`): first run `cookie.or(Some w).unwrap_or(parent)` with the cookie
    signal still `None` (no cookie name), later runs `Some w.or(cookie).unwrap_or(parent)` whatever the cookie signal holds
    by then (the isomorphic effect of `init_context_inner` copies the locale into it).  This is why the model's `Wire`
    needs no cookie and no parent. -/
theorem C16_wired_memo_runs (w parent : Locale) (cookie : Option Locale) :
    Resolve.subMemo true (some w) none parent = w ∧ Resolve.subMemo false (some w) cookie parent = w := by
  simp [Resolve.subMemo]

/-! ### what an operation does to the wires -/

/-- the wires after one step: untouched, all evaluated (tick), one more (subWired), one written (wireSet) -/
theorem wires_step (s : State) (op : Op) :
    (step s op).1.wires = s.wires ∨
    (op = .tick ∧ (step s op).1.wires = s.wires.map (fun w => { w with seen := w.val })) ∨
    (∃ p x, op = .subWired p x ∧
      (step s op).1.wires = s.wires ++ [{ ctx := s.cells.length, val := x, seen := x }]) ∨
    (∃ i l w, op = .wireSet i l ∧ s.wires[i]? = some w ∧ (step s op).1.wires = s.wires.set i { w with val := l }) := by
  cases op with
  | newRoot init => exact Or.inl rfl
  | sub parent initial fallback =>
    refine Or.inl ?_
    cases parent with
    | none => rfl
    | some pv => cases hr : s.read pv <;> simp [step, hr]
  | scope v => refine Or.inl ?_; cases hv : s.views[v]? <;> simp [step, hv]
  | set v l =>
    refine Or.inl ?_
    simp only [step, State.write]
    cases s.views[v]? with
    | none => rfl
    | some c => by_cases hlt : c < s.cells.length <;> simp [hlt]
  | setUntracked v l =>
    refine Or.inl ?_
    simp only [step, State.write]
    cases s.views[v]? with
    | none => rfl
    | some c => by_cases hlt : c < s.cells.length <;> simp [hlt]
  | get v => refine Or.inl ?_; cases hr : s.read v <;> simp [step, hr]
  | getUntracked v => refine Or.inl ?_; cases hr : s.read v <;> simp [step, hr]
  | makeClosure v => refine Or.inl ?_; by_cases h : v < s.views.length <;> simp [step, h]
  | callClosure i =>
    refine Or.inl ?_
    cases hi : s.closures[i]? with
    | none => simp [step, hi]
    | some v => cases hr : s.read v <;> simp [step, hi, hr]
  | makeMemo v => refine Or.inl ?_; by_cases h : v < s.views.length <;> simp [step, h]
  | readMemo i =>
    refine Or.inl ?_
    cases hi : s.memos[i]? with
    | none => simp [step, hi]
    | some m =>
      cases hd : m.dirty with
      | true => cases hr : s.read m.view <;> simp [step, hi, hd, hr]
      | false => cases hcache : m.cache <;> simp [step, hi, hd, hcache]
  | provideRoot init => exact Or.inl rfl
  | childOwner o => refine Or.inl ?_; by_cases h : o < s.owners.length <;> simp [step, h]
  | provider o initial fallback => refine Or.inl ?_; by_cases h : o < s.owners.length <;> simp [step, h]
  | useCtx o =>
    refine Or.inl ?_
    by_cases h : o < s.owners.length
    · cases hl : s.lookup o <;> simp [step, h, hl]
    · simp [step, h]
  | tick => exact Or.inr (Or.inl ⟨rfl, rfl⟩)
  | subWired parent x =>
    cases parent with
    | none => exact Or.inr (Or.inr (Or.inl ⟨none, x, rfl, by simp [step]⟩))
    | some pv =>
      cases hr : s.read pv with
      | none => exact Or.inl (by simp [step, hr])
      | some y => exact Or.inr (Or.inr (Or.inl ⟨some pv, x, rfl, by simp [step, hr]⟩))
  | wireSet i l =>
    cases hi : s.wires[i]? with
    | none => exact Or.inl (by simp [step, hi])
    | some w => exact Or.inr (Or.inr (Or.inr ⟨i, l, w, rfl, hi, by simp [step, hi]⟩))

/-! ### creation -/

/-- **A wired sub-context starts at its wire's value** — not at its parent's locale — and creating it changes nothing
    else: the parent keeps its locale, the new wire is not due. -/
theorem C16_wired_creation (s : State) (pv pc : Nat) (w : Locale)
    (hpv : s.views[pv]? = some pc) (hpc : pc < s.cells.length) :
    let s1 := (step s (.subWired (some pv) w)).1
    (step s (.subWired (some pv) w)).2 = .wired s.views.length s.wires.length ∧
    s1.views[s.views.length]? = some s.cells.length ∧
    s1.read s.views.length = some w ∧ s1.read pv = s.read pv ∧
    s1.wires = s.wires ++ [{ ctx := s.cells.length, val := w, seen := w }] := by
  intro s1
  obtain ⟨x, hx⟩ : ∃ x, s.cells[pc]? = some x := ⟨s.cells[pc], List.getElem?_eq_getElem hpc⟩
  have hr : s.read pv = some x := by simp [State.read, hpv, hx]
  have hs1 : s1 = { s with cells := s.cells ++ [w], views := s.views ++ [s.cells.length], wires := s.wires ++ [{ ctx := s.cells.length, val := w, seen := w }] } := by
    simp [s1, step, hr]
  have hpvlt : pv < s.views.length := (List.getElem?_eq_some_iff.mp hpv).1
  refine ⟨by simp [step, hr], by simp [hs1], by simp [hs1, State.read], ?_, by simp [hs1]⟩
  simp [hs1, State.read, List.getElem?_append_left hpvlt, hpv, List.getElem?_append_left hpc]

/-! ### (a) isolation -/

/-- no wire feeding context `c` is due -/
def QuietAt (ws : List Wire) (c : Nat) : Prop := ∀ w ∈ ws, w.ctx = c → w.val = w.seen

instance (ws : List Wire) (c : Nat) : Decidable (QuietAt ws c) := by unfold QuietAt; infer_instance

theorem pending_quietAt {ws : List Wire} {c : Nat} (hq : QuietAt ws c) : pending ws c = none := by
  unfold pending
  rw [List.findSome?_eq_none_iff]
  intro w hw
  by_cases hc : w.ctx = c
  · simp [hq w hw hc]
  · simp [hc]

theorem quietAt_of_pending {ws : List Wire} {c : Nat} (hp : pending ws c = none) : QuietAt ws c := by
  intro w hw hc
  unfold pending at hp
  rw [List.findSome?_eq_none_iff] at hp
  have := hp w hw
  by_cases hv : w.val = w.seen
  · exact hv
  · simp [hc, hv] at this

/-- does the operation act on context `c`: a `set_locale` / `set_locale_untracked` through one of its views, or a write
    to a wire feeding it -/
def Op.actsOn (s : State) (c : Nat) : Op → Bool
  | .set v _ => s.views[v]? == some c
  | .setUntracked v _ => s.views[v]? == some c
  | .wireSet i _ => match s.wires[i]? with | some w => w.ctx == c | none => false
  | _ => false

/-- does some operation of the sequence act on context `c`? (views and wires created on the way are followed) -/
def actsOn (s : State) : List Op → Nat → Bool
  | [], _ => false
  | op :: ops, c => Op.actsOn s c op || actsOn (step s op).1 ops c

/-- **Isolation with wires (one step)**: an operation that does not act on context `c` — not a `set*` through a view of
    `c`, not a write to a wire of `c` — leaves the locale of `c` alone and leaves its wire quiet, whatever else it does:
    set any other context, write any other wire, create sub-contexts (wired or not) anywhere, run the executor (which
    delivers the *other* wires that are due). -/
theorem C16_wired_isolation_step (s : State) (op : Op) (c : Nat) (hc : c < s.cells.length)
    (hq : QuietAt s.wires c) (ha : Op.actsOn s c op = false) :
    (step s op).1.cells[c]? = s.cells[c]? ∧ QuietAt (step s op).1.wires c := by
  constructor
  · refine C16_isolation s op c hc ?_ (fun _ => pending_quietAt hq)
    cases op <;> simp_all [Op.target, Op.actsOn]
  · rcases wires_step s op with e | ⟨_, e⟩ | ⟨p, x, _, e⟩ | ⟨i, l, w, rfl, hi, e⟩
    · rw [e]; exact hq
    · rw [e]
      intro w hw _
      simp only [List.mem_map] at hw
      obtain ⟨w0, _, rfl⟩ := hw
      rfl
    · rw [e]
      intro w hw hwc
      simp only [List.mem_append, List.mem_singleton] at hw
      rcases hw with hw | rfl
      · exact hq w hw hwc
      · rfl
    · rw [e]
      intro w' hw' hwc
      rcases List.mem_or_eq_of_mem_set hw' with hw' | rfl
      · exact hq w' hw' hwc
      · simp [Op.actsOn, hi] at ha
        exact absurd hwc ha

/-- **Isolation with wires (whole sequences)** — a context changes only through its own `set*` operations and the
    delivery of its own wire.  From a state in which no wire of `c` is due, after any sequence that never acts on `c`
    (no `set*` through any of its views, no write to its wire) `c` shows what it showed, however many sets, wire
    writes and deliveries hit its parent, its siblings, its own sub-contexts or anything else. -/
theorem C16_wired_isolation_seq (s : State) (ops : List Op) (c : Nat) (hc : c < s.cells.length)
    (hq : QuietAt s.wires c) (ha : actsOn s ops c = false) :
    (run s ops).1.cells[c]? = s.cells[c]? ∧ QuietAt (run s ops).1.wires c := by
  induction ops generalizing s with
  | nil => exact ⟨rfl, hq⟩
  | cons op ops ih =>
    simp only [actsOn, Bool.or_eq_false_iff] at ha
    have ⟨h1, h2⟩ := C16_wired_isolation_step s op c hc hq ha.1
    have ⟨h3, h4⟩ := ih (step s op).1 (Nat.lt_of_lt_of_le hc (cells_length_mono s op)) h2 ha.2
    simp only [run]
    exact ⟨by rw [h3, h1], h4⟩

/-- **A wired sub-context and its parent never change each other** — apart from what the wire itself carries.  Right
    after a wired sub-context was created from (a view of) a parent context: setting the child leaves the parent
    unchanged and vice versa; writing the child's wire and running the executor leaves the parent unchanged (as long as
    no wire of the parent's own is due) and makes the child show the written value. -/
theorem C16_wired_parent_child_isolated (s : State) (pv pc : Nat) (w l x : Locale)
    (hpv : s.views[pv]? = some pc) (hpc : pc < s.cells.length)
    (hwf : ∀ w' ∈ s.wires, w'.ctx < s.cells.length) (hqp : QuietAt s.wires pc) :
    let s1 := (step s (.subWired (some pv) w)).1
    let child := s.views.length
    let wire := s.wires.length
    (step s1 (.set child l)).1.read pv = s1.read pv ∧ (step s1 (.setUntracked child l)).1.read pv = s1.read pv ∧
    (step s1 (.set pv l)).1.read child = s1.read child ∧ (step s1 (.setUntracked pv l)).1.read child = s1.read child ∧
    (step (step s1 (.wireSet wire x)).1 .tick).1.read pv = s1.read pv ∧
    (step (step s1 (.wireSet wire x)).1 .tick).1.read child = some x := by
  intro s1 child wire
  obtain ⟨hobs, hchild, hrc, hrp, hw1⟩ := C16_wired_creation s pv pc w hpv hpc
  obtain ⟨y, hy⟩ : ∃ y, s.cells[pc]? = some y := ⟨s.cells[pc], List.getElem?_eq_getElem hpc⟩
  have hr : s.read pv = some y := by simp [State.read, hpv, hy]
  have hs1 : s1 = { s with cells := s.cells ++ [w], views := s.views ++ [s.cells.length], wires := s.wires ++ [{ ctx := s.cells.length, val := w, seen := w }] } := by
    simp [s1, step, hr]
  have hpvlt : pv < s.views.length := (List.getElem?_eq_some_iff.mp hpv).1
  have hpv1 : s1.views[pv]? = some pc := by simp [hs1, List.getElem?_append_left hpvlt, hpv]
  have hch1 : s1.views[child]? = some s.cells.length := by simp [hs1, child]
  have hlen : s1.cells.length = s.cells.length + 1 := by simp [hs1]
  have hne : pc ≠ s.cells.length := by omega
  have hpc1 : pc < s1.cells.length := by omega
  refine ⟨?_, ?_, ?_, ?_, ?_, ?_⟩
  · simp [step, State.write, State.read, hch1, hpv1, hlen, hne.symm]
  · simp [step, State.write, State.read, hch1, hpv1, hlen, hne.symm]
  · simp [step, State.write, State.read, hch1, hpv1, hpc1, hne]
  · simp [step, State.write, State.read, hch1, hpv1, hpc1, hne]
  · -- the parent: no wire of its own is due, before or after the write to the child's wire
    obtain ⟨s2, hs2⟩ : ∃ s2, s2 = (step s1 (.wireSet wire x)).1 := ⟨_, rfl⟩
    have hw2 : s2 = { s1 with wires := s.wires ++ [{ ctx := s.cells.length, val := x, seen := w }] } := by
      rw [hs2]; simp [step, hs1, wire]
    rw [← hs2]
    have hq2 : QuietAt s2.wires pc := by
      rw [hw2]
      intro w' hw' hc'
      simp only [List.mem_append, List.mem_singleton] at hw'
      rcases hw' with hw' | rfl
      · exact hqp w' hw' hc'
      · exact absurd hc'.symm hne
    have hcell := C16_isolation s2 .tick pc (by rw [hw2]; exact hpc1) (by simp [Op.target]) (fun _ => pending_quietAt hq2)
    have hv2 : (step s2 .tick).1.views = s2.views := rfl
    have hv3 : s2.views = s1.views := by rw [hw2]
    have hc3 : s2.cells = s1.cells := by rw [hw2]
    simp only [State.read, hv2, hv3, hpv1, hcell, hc3]
  · -- the child: the only wire feeding it is the new one
    obtain ⟨s2, hs2⟩ : ∃ s2, s2 = (step s1 (.wireSet wire x)).1 := ⟨_, rfl⟩
    have hw2 : s2 = { s1 with wires := s.wires ++ [{ ctx := s.cells.length, val := x, seen := w }] } := by
      rw [hs2]; simp [step, hs1, wire]
    rw [← hs2]
    have hpend : pending s2.wires s.cells.length = if x = w then none else some x := by
      rw [hw2]
      unfold pending
      rw [List.findSome?_append]
      have : s.wires.findSome? (fun w' => if w'.ctx = s.cells.length ∧ w'.val ≠ w'.seen then some w'.val else none) = none := by
        rw [List.findSome?_eq_none_iff]
        intro w' hw'
        have := hwf w' hw'
        have hne' : w'.ctx ≠ s.cells.length := by omega
        simp [hne']
      rw [this]
      by_cases hxw : x = w <;> simp [hxw]
    have hv2 : (step s2 .tick).1.views = s2.views := rfl
    have hv3 : s2.views = s1.views := by rw [hw2]
    have hc3 : s2.cells = s1.cells := by rw [hw2]
    have hcells1 : s1.cells[s.cells.length]? = some w := by simp [hs1]
    have hc4 : (step s2 .tick).1.cells = s2.cells.mapIdx (fun c l => (pending s2.wires c).getD l) := rfl
    simp only [State.read, hv2, hv3, hch1, hc4, hc3, List.getElem?_mapIdx, hcells1, Option.map_some, hpend]
    by_cases hxw : x = w <;> simp [hxw]

/-! ### (b) delivery -/

theorem pending_eq_some_of_unique {ws : List Wire} {c : Nat} {w : Wire} (hw : w ∈ ws) (hc : w.ctx = c)
    (hd : w.val ≠ w.seen) (huniq : ∀ w' ∈ ws, w'.ctx = c → w' = w) : pending ws c = some w.val := by
  induction ws with
  | nil => cases hw
  | cons a ws ih =>
    unfold pending
    rw [List.findSome?_cons]
    by_cases hac : a.ctx = c
    · have : a = w := huniq a List.mem_cons_self hac
      subst this
      simp [hac, hd]
    · have hne : a ≠ w := fun e => hac (e ▸ hc)
      have hw' : w ∈ ws := by
        rcases List.mem_cons.mp hw with e | h
        · exact absurd e.symm hne
        · exact h
      simp only [hac, false_and, if_false]
      exact ih hw' (fun w' hw'' hc' => huniq w' (List.mem_cons_of_mem a hw'') hc')

/-- **A tick delivers a due wire to everything that observes the sub-context.**  In any state in which the wire of
    context `c` is due with value `x` (`pending s.wires c = some x`: its signal was written, possibly several times, and
    no longer holds what the listener memo last evaluated to — whatever `set_locale` calls happened on `c` since), after
    the tick `get_locale` / `get_locale_untracked` through every view of `c` (scoped views included), every closure and
    every reactive accessor created earlier on any view of `c` show `x`; and the wire is quiet again. -/
theorem C16_wired_tick_delivers (s : State) (c : Nat) (x : Locale) (hc : c < s.cells.length)
    (hp : pending s.wires c = some x) :
    let s1 := (step s .tick).1
    (∀ v, s.views[v]? = some c → (step s1 (.get v)).2 = .locale x ∧ (step s1 (.getUntracked v)).2 = .locale x) ∧
    (∀ k kv, s.closures[k]? = some kv → s.views[kv]? = some c → (step s1 (.callClosure k)).2 = .locale x) ∧
    (∀ i m, s.memos[i]? = some m → s.views[m.view]? = some c → (step s1 (.readMemo i)).2 = .locale x) ∧
    (∀ c', pending s1.wires c' = none) := by
  intro s1
  have hs1 : s1 = s.deliver := rfl
  have hread : ∀ v, s.views[v]? = some c → s1.read v = some x := by
    intro v hv
    simp [hs1, State.deliver, State.read, hv, hp, hc]
  refine ⟨fun v hv => ?_, fun k kv hk hkv => ?_, fun i m hm hmv => ?_, fun c' => ?_⟩
  · simp [step, hread v hv]
  · have : s1.closures[k]? = some kv := by simp [hs1, State.deliver, hk]
    simp [step, this, hread kv hkv]
  · have h1 : s1.memos[i]? = some { m with dirty := true } := by
      simp [hs1, State.deliver, hm, hmv, hp]
    simp [step, h1, hread m.view hmv]
  · apply pending_quiet
    rw [hs1]
    exact quiet_map_seen _

/-- **Write the wire, run the executor: the sub-context shows the written value** — provided it differs from the value
    last delivered (`w.seen`).  `i` is the only wire of context `c` (true in every reachable state:
    `C16_wired_one_wire_per_context`).  Holds whatever the sub-context was set to before. -/
theorem C16_wired_delivery (s : State) (i c : Nat) (w : Wire) (x : Locale)
    (hw : s.wires[i]? = some w) (hwc : w.ctx = c) (hc : c < s.cells.length)
    (huniq : ∀ j w', s.wires[j]? = some w' → w'.ctx = c → j = i) (hx : x ≠ w.seen) :
    let s2 := (step (step s (.wireSet i x)).1 .tick).1
    (∀ v, s.views[v]? = some c → (step s2 (.get v)).2 = .locale x ∧ (step s2 (.getUntracked v)).2 = .locale x) ∧
    (∀ k kv, s.closures[k]? = some kv → s.views[kv]? = some c → (step s2 (.callClosure k)).2 = .locale x) ∧
    (∀ j m, s.memos[j]? = some m → s.views[m.view]? = some c → (step s2 (.readMemo j)).2 = .locale x) := by
  intro s2
  have hs1 : (step s (.wireSet i x)).1 = { s with wires := s.wires.set i { w with val := x } } := by simp [step, hw]
  have hp : pending (step s (.wireSet i x)).1.wires c = some x := by
    rw [hs1]
    have hilt : i < s.wires.length := (List.getElem?_eq_some_iff.mp hw).1
    have hmem : ({ w with val := x } : Wire) ∈ s.wires.set i { w with val := x } :=
      List.mem_iff_getElem?.mpr ⟨i, by simp [hilt]⟩
    refine pending_eq_some_of_unique hmem hwc (by simpa using hx) ?_
    intro w'' hw'' hc''
    obtain ⟨j, hj⟩ := List.mem_iff_getElem?.mp hw''
    rw [List.getElem?_set] at hj
    by_cases e : i = j
    · simp only [e, if_true] at hj
      have hjlt : j < s.wires.length := by omega
      simp only [hjlt, if_true] at hj
      cases hj; rfl
    · simp only [e, if_false] at hj
      exact absurd (huniq j w'' hj hc'') (fun h => e h.symm)
  have h := C16_wired_tick_delivers (step s (.wireSet i x)).1 c x (by rw [hs1]; exact hc) hp
  have hv : (step s (.wireSet i x)).1.views = s.views := by rw [hs1]
  have hcl : (step s (.wireSet i x)).1.closures = s.closures := by rw [hs1]
  have hm : (step s (.wireSet i x)).1.memos = s.memos := by rw [hs1]
  rw [hv, hcl, hm] at h
  exact ⟨h.1, h.2.1, h.2.2.1⟩

/-- **Written with the value it already had, a wire delivers nothing**: if no wire of `c` is due and the wire `i` of `c`
    is written with the value the listener memo last saw, the next tick leaves `c` at whatever it shows — in particular
    at a locale set with `set_locale` since the last delivery. -/
theorem C16_wired_same_value_no_delivery (s : State) (i c : Nat) (w : Wire)
    (hw : s.wires[i]? = some w) (hc : c < s.cells.length) (hq : QuietAt s.wires c) :
    (step (step s (.wireSet i w.seen)).1 .tick).1.cells[c]? = s.cells[c]? := by
  have hs1 : (step s (.wireSet i w.seen)).1 = { s with wires := s.wires.set i { w with val := w.seen } } := by simp [step, hw]
  have hq1 : QuietAt (step s (.wireSet i w.seen)).1.wires c := by
    rw [hs1]
    intro w' hw' hc'
    rcases List.mem_or_eq_of_mem_set hw' with hw' | rfl
    · exact hq w' hw' hc'
    · rfl
  have := C16_isolation (step s (.wireSet i w.seen)).1 .tick c (by rw [hs1]; exact hc) (by simp [Op.target])
    (fun _ => pending_quietAt hq1)
  rw [this, hs1]

/-! ### (c) what a context shows: the latest of "set on it" and "delivered into it" -/

/-- what operation `op`, accepted after history `h`, makes the existing context `c` show: the locale of a `set*` through
    one of its views, the value a tick delivers into it; `none`: the operation leaves `c` alone -/
def event (h : Hist) (c : Nat) : Op → Option Locale
  | .set v l => if (Spec.views h)[v]? = some c then some l else none
  | .setUntracked v l => if (Spec.views h)[v]? = some c then some l else none
  | .tick => due h c
  | _ => none

/-- **Whichever happened last wins.**  For a context `c` that already exists, every operation either is an event for
    `c` — a `set_locale` / `set_locale_untracked` through one of its views, or a tick that delivers its wire — and then
    `c` shows the event's locale, or leaves what `c` shows untouched.  Unfolding this along a history: a context shows
    the locale of the most recent event, else the locale it was created with. -/
theorem C16_wired_last_event (h : Hist) (op : Op) (c : Nat) (hc : c < nCtx h) :
    current (op :: h) c = match event h c op with
      | some l => some l
      | none => current h c := by
  have hne : ¬ c = nCtx h := by omega
  cases op with
  | set v l => by_cases hv : (Spec.views h)[v]? = some c <;> simp [current, event, hv]
  | setUntracked v l => by_cases hv : (Spec.views h)[v]? = some c <;> simp [current, event, hv]
  | tick => simp only [current, event]; cases due h c <;> rfl
  | _ => simp [current, event, hne]

/-- the locale of the most recent `set_locale` / `set_locale_untracked` on context `c` (through any of its views), else
    the locale `c` was created with — deliveries are *not* counted -/
def lastSet : Hist → Nat → Option Locale
  | [], _ => none
  | .set v l :: h, c => if (Spec.views h)[v]? = some c then some l else lastSet h c
  | .setUntracked v l :: h, c => if (Spec.views h)[v]? = some c then some l else lastSet h c
  | op :: h, c => if c < nCtx h then lastSet h c else current (op :: h) c

/-- **The machine shows the latest event** (refinement, stated for the contexts and the wires): after every operation
    sequence run from scratch, every context of the machine shows `current` of the accepted history — by
    `C16_wired_last_event` the locale of the latest `set*` on it or delivery into it, else its creation value — and the
    machine's wires are the specification's (value = latest write, seen = value at the latest tick). -/
theorem C16_wired_shows_last_event (ops : List Op) :
    let s := (run State.empty ops).1
    let h := history [] ops
    (∀ c, s.cells[c]? = current h c) ∧ s.wires = Spec.wires h ∧ s.views = Spec.views h ∧ s.cells.length = nCtx h := by
  intro s h
  have a : Abs s h := run_abs abs_empty ops
  exact ⟨a.core.cells, a.core.wires, a.core.views, a.core.len⟩

theorem getElem?_set_ctx {ws : List Wire} {i : Nat} {w0 : Wire} {l : Locale} (hi : ws[i]? = some w0) {j : Nat} {w' : Wire}
    (hj : (ws.set i { w0 with val := l })[j]? = some w') :
    ∃ w'', ws[j]? = some w'' ∧ w''.ctx = w'.ctx ∧ w''.seen = w'.seen := by
  rw [List.getElem?_set] at hj
  by_cases e : i = j
  · subst e
    have hlt : i < ws.length := (List.getElem?_eq_some_iff.mp hi).1
    simp only [if_true, hlt] at hj
    cases hj
    exact ⟨w0, hi, rfl, rfl⟩
  · simp only [e, if_false] at hj
    exact ⟨w', hj, rfl, rfl⟩

theorem mem_set_ctx {ws : List Wire} {i : Nat} {w0 : Wire} {l : Locale} (hi : ws[i]? = some w0) {w : Wire} (hw : w ∈ ws) :
    ∃ w' ∈ ws.set i { w0 with val := l }, w'.ctx = w.ctx ∧ w'.seen = w.seen := by
  obtain ⟨j, hj⟩ := List.mem_iff_getElem?.mp hw
  by_cases e : i = j
  · subst e
    have hlt : i < ws.length := (List.getElem?_eq_some_iff.mp hi).1
    have : w = w0 := by rw [hi] at hj; cases hj; rfl
    subst this
    exact ⟨{ w with val := l }, List.mem_iff_getElem?.mpr ⟨i, by simp [hlt]⟩, rfl, rfl⟩
  · exact ⟨w, List.mem_iff_getElem?.mpr ⟨j, by simp [e, hj]⟩, rfl, rfl⟩

/-- **One wire per context**: the wires of a history feed pairwise different contexts, each of them existing.  Hence
    "the wire of a wired sub-context" is well defined in every reachable state. -/
theorem C16_wired_one_wire_per_context (h : Hist) :
    (∀ w ∈ Spec.wires h, w.ctx < nCtx h) ∧
    ∀ (i j : Nat) (wi wj : Wire), (Spec.wires h)[i]? = some wi → (Spec.wires h)[j]? = some wj → wi.ctx = wj.ctx → i = j := by
  refine ⟨wires_ctx_lt h, ?_⟩
  induction h with
  | nil => intro i j wi wj hi; simp [Spec.wires] at hi
  | cons op h ih =>
    intro i j wi wj hi hj hc
    cases op with
    | subWired p x =>
      simp only [Spec.wires, getElem?_append_one] at hi hj
      by_cases ei : i = (Spec.wires h).length <;> by_cases ej : j = (Spec.wires h).length
      · omega
      · simp only [ei, ej, if_true, if_false] at hi hj
        cases hi
        have := wires_ctx_lt h wj (List.mem_of_getElem? hj)
        simp only at hc
        omega
      · simp only [ei, ej, if_true, if_false] at hi hj
        cases hj
        have := wires_ctx_lt h wi (List.mem_of_getElem? hi)
        simp only at hc
        omega
      · simp only [ei, ej, if_false] at hi hj
        exact ih i j wi wj hi hj hc
    | wireSet k l =>
      simp only [Spec.wires] at hi hj
      cases hk : (Spec.wires h)[k]? with
      | none => rw [hk] at hi hj; exact ih i j wi wj hi hj hc
      | some w0 =>
        rw [hk] at hi hj
        obtain ⟨wi', hi', hci, _⟩ := getElem?_set_ctx hk hi
        obtain ⟨wj', hj', hcj, _⟩ := getElem?_set_ctx hk hj
        exact ih i j wi' wj' hi' hj' (by rw [hci, hcj, hc])
    | tick =>
      simp only [Spec.wires, List.getElem?_map] at hi hj
      cases hi' : (Spec.wires h)[i]? with
      | none => rw [hi'] at hi; cases hi
      | some wi' =>
        cases hj' : (Spec.wires h)[j]? with
        | none => rw [hj'] at hj; cases hj
        | some wj' =>
          rw [hi'] at hi; rw [hj'] at hj
          cases hi; cases hj
          exact ih i j wi' wj' hi' hj' hc
    | _ => simp only [Spec.wires] at hi hj; exact ih i j wi wj hi hj hc

/-- **A wired sub-context shows the most recently set locale or the most recently delivered wire value.**  After any
    history, for a context `c` fed by a wire: what `c` shows is the locale of the most recent `set*` on it (`lastSet`; its
    creation value — the wire's initial value — if there was none), or the value its wire had at the most recent tick
    (`seen`: the value last delivered).  Which of the two: `C16_wired_last_event` — whichever happened last. -/
theorem C16_wired_shows_set_or_delivered (h : Hist) (c : Nat) (hw : ∃ w ∈ Spec.wires h, w.ctx = c) :
    current h c = lastSet h c ∨ ∃ w ∈ Spec.wires h, w.ctx = c ∧ current h c = some w.seen := by
  induction h generalizing c with
  | nil => obtain ⟨w, hw, _⟩ := hw; simp [Spec.wires] at hw
  | cons op h ih =>
    -- an older wire of `c`: `c` existed before `op`
    have old : (∃ w ∈ Spec.wires h, w.ctx = c) → c < nCtx h := fun ⟨w, hw, hc⟩ => by
      rw [← hc]; exact wires_ctx_lt h w hw
    cases op with
    | subWired p x =>
      obtain ⟨w, hw, hc⟩ := hw
      simp only [Spec.wires, List.mem_append, List.mem_singleton] at hw
      by_cases e : c = nCtx h
      · refine Or.inr ⟨{ ctx := nCtx h, val := x, seen := x }, by simp [Spec.wires], e.symm, by simp [current, e]⟩
      · have hwo : w ∈ Spec.wires h := by
          rcases hw with hw | rfl
          · exact hw
          · exact absurd hc.symm e
        have hlt := old ⟨w, hwo, hc⟩
        have h1 : current (.subWired p x :: h) c = current h c := by simp [current, e]
        have h2 : lastSet (.subWired p x :: h) c = lastSet h c := by simp [lastSet, hlt]
        rw [h1, h2]
        rcases ih c ⟨w, hwo, hc⟩ with l | ⟨w', hw', hc', hs'⟩
        · exact Or.inl l
        · exact Or.inr ⟨w', by simp [Spec.wires, hw'], hc', hs'⟩
    | tick =>
      obtain ⟨w, hw, hc⟩ := hw
      simp only [Spec.wires, List.mem_map] at hw
      obtain ⟨w0, hw0, rfl⟩ := hw
      have hlt := old ⟨w0, hw0, hc⟩
      have h2 : lastSet (.tick :: h) c = lastSet h c := by simp [lastSet, hlt]
      cases hd : due h c with
      | some y =>
        obtain ⟨w2, hw2, hc2, hv2, _⟩ := pending_some hd
        refine Or.inr ⟨{ w2 with seen := w2.val }, ?_, hc2, by simp [current, hd, hv2]⟩
        simp only [Spec.wires, List.mem_map]
        exact ⟨w2, hw2, rfl⟩
      | none =>
        have h1 : current (.tick :: h) c = current h c := by simp [current, hd]
        rw [h1, h2]
        rcases ih c ⟨w0, hw0, hc⟩ with l | ⟨w', hw', hc', hs'⟩
        · exact Or.inl l
        · have hq := quietAt_of_pending hd w' hw' hc'
          refine Or.inr ⟨{ w' with seen := w'.val }, ?_, hc', by simp [hs', hq]⟩
          simp only [Spec.wires, List.mem_map]
          exact ⟨w', hw', rfl⟩
    | wireSet k l =>
      have h1 : current (.wireSet k l :: h) c = current h c := by simp [current]
      cases hk : (Spec.wires h)[k]? with
      | none =>
        have hws : Spec.wires (.wireSet k l :: h) = Spec.wires h := by simp [Spec.wires, hk]
        rw [hws] at hw ⊢
        have hlt := old hw
        have h2 : lastSet (.wireSet k l :: h) c = lastSet h c := by simp [lastSet, hlt]
        rw [h1, h2]; exact ih c hw
      | some w0 =>
        have hws : Spec.wires (.wireSet k l :: h) = (Spec.wires h).set k { w0 with val := l } := by simp [Spec.wires, hk]
        rw [hws] at hw ⊢
        obtain ⟨w, hwm, hc⟩ := hw
        obtain ⟨j, hj⟩ := List.mem_iff_getElem?.mp hwm
        obtain ⟨w'', hj'', hc'', _⟩ := getElem?_set_ctx hk hj
        have hwo : ∃ w ∈ Spec.wires h, w.ctx = c := ⟨w'', List.mem_of_getElem? hj'', by rw [hc'', hc]⟩
        have hlt := old hwo
        have h2 : lastSet (.wireSet k l :: h) c = lastSet h c := by simp [lastSet, hlt]
        rw [h1, h2]
        rcases ih c hwo with e | ⟨w', hw', hc', hs'⟩
        · exact Or.inl e
        · obtain ⟨w3, hw3, hc3, hs3⟩ := mem_set_ctx (l := l) hk hw'
          exact Or.inr ⟨w3, hw3, by rw [hc3, hc'], by rw [hs3, hs']⟩
    | set v l =>
      have hws : Spec.wires (.set v l :: h) = Spec.wires h := by simp [Spec.wires]
      rw [hws] at hw ⊢
      by_cases hv : (Spec.views h)[v]? = some c
      · exact Or.inl (by simp [current, lastSet, hv])
      · have h1 : current (.set v l :: h) c = current h c := by simp [current, hv]
        have h2 : lastSet (.set v l :: h) c = lastSet h c := by simp [lastSet, hv]
        rw [h1, h2]; exact ih c hw
    | setUntracked v l =>
      have hws : Spec.wires (.setUntracked v l :: h) = Spec.wires h := by simp [Spec.wires]
      rw [hws] at hw ⊢
      by_cases hv : (Spec.views h)[v]? = some c
      · exact Or.inl (by simp [current, lastSet, hv])
      · have h1 : current (.setUntracked v l :: h) c = current h c := by simp [current, hv]
        have h2 : lastSet (.setUntracked v l :: h) c = lastSet h c := by simp [lastSet, hv]
        rw [h1, h2]; exact ih c hw
    | _ =>
      simp only [Spec.wires] at hw ⊢
      have hlt := old hw
      have hne : ¬ c = nCtx h := by omega
      simp only [current, lastSet, hlt, hne, if_true, if_false]
      exact ih c hw

/-! ### (d) the last set and the wire agree -/

/-- **When the last `set*` and the wire agree, that is what the sub-context shows.**  After any history, for a context
    `c` fed by a wire: if the most recent `set*` on `c` set `l` and the wire of `c` holds `l` with nothing in flight (the
    listener memo has seen it: `seen = l`, e.g. a tick has run since the last write), then `c` shows `l`.
    (With a write still in flight the claim would be false: the sub-context may still show the previously delivered
    value — see the example below.) -/
theorem C16_wired_agree (h : Hist) (c : Nat) (l : Locale) (hw : ∃ w ∈ Spec.wires h, w.ctx = c)
    (hs : lastSet h c = some l) (hv : ∀ w ∈ Spec.wires h, w.ctx = c → w.val = l ∧ w.seen = l) :
    current h c = some l := by
  rcases C16_wired_shows_set_or_delivered h c hw with e | ⟨w, hwm, hc, e⟩
  · rw [e, hs]
  · rw [e, (hv w hwm hc).2]

/-- the same right after a tick: if the most recent `set*` on `c` set `l` and its wire holds `l` when the executor runs,
    then after that tick `c` shows `l` — whatever was delivered earlier, in whatever order set and write happened -/
theorem C16_wired_agree_after_tick (h : Hist) (c : Nat) (l : Locale) (hw : ∃ w ∈ Spec.wires h, w.ctx = c)
    (hs : lastSet h c = some l) (hv : ∀ w ∈ Spec.wires h, w.ctx = c → w.val = l) :
    current (.tick :: h) c = some l := by
  obtain ⟨w0, hw0, hc0⟩ := hw
  have hlt : c < nCtx h := by rw [← hc0]; exact wires_ctx_lt h w0 hw0
  apply C16_wired_agree (.tick :: h) c l
  · exact ⟨{ w0 with seen := w0.val }, by simp only [Spec.wires, List.mem_map]; exact ⟨w0, hw0, rfl⟩, hc0⟩
  · simp [lastSet, hlt, hs]
  · intro w hwm hc
    simp only [Spec.wires, List.mem_map] at hwm
    obtain ⟨w1, hw1, rfl⟩ := hwm
    exact ⟨hv w1 hw1 hc, hv w1 hw1 hc⟩

/-- the same for the machine: after any operation sequence run from scratch, if the most recent `set*` on the wired
    sub-context `c` set `l` and its wire holds `l` with nothing in flight, then `get_locale` / `get_locale_untracked`
    through every view of `c` and every closure on a view of `c` observe `l` -/
theorem C16_wired_agree_run (ops : List Op) (c : Nat) (l : Locale) :
    let s := (run State.empty ops).1
    let h := history [] ops
    (∃ w ∈ s.wires, w.ctx = c) → lastSet h c = some l → (∀ w ∈ s.wires, w.ctx = c → w.val = l ∧ w.seen = l) →
    (∀ v, s.views[v]? = some c → (step s (.get v)).2 = .locale l ∧ (step s (.getUntracked v)).2 = .locale l) ∧
    (∀ k kv, s.closures[k]? = some kv → s.views[kv]? = some c → (step s (.callClosure k)).2 = .locale l) := by
  intro s h hw hs hv
  obtain ⟨hcells, hwires, _, _⟩ := C16_wired_shows_last_event ops
  have hcur : s.cells[c]? = some l := by
    rw [hcells c]
    exact C16_wired_agree h c l (by rw [← hwires]; exact hw) hs (by rw [← hwires]; exact hv)
  have hread : ∀ v, s.views[v]? = some c → s.read v = some l := fun v hvw => by simp [State.read, hvw, hcur]
  exact ⟨fun v hvw => by simp [step, hread v hvw], fun k kv hk hkv => by simp [step, hk, hread kv hkv]⟩

/-! ### Concrete sequences (locales: 0 = en, 1 = en-US, 2 = fr, 3 = fr-CA, 4 = de) -/

/-- root(fr); wired sub-context on a signal holding de: it starts at de, the root stays fr; the signal is written en-US:
    nothing yet; tick: en-US; set(fr-CA); the signal written en-US again (what the listener last saw): the tick delivers
    nothing, fr-CA stays; signal written de and set(fr) in the same turn: the tick delivers de over fr; the parent set:
    the sub-context does not move; an ordinary sub-context below the wired one starts at de and does not follow a later
    delivery -/
private def demoWired : List Op :=
  [.newRoot 2, .subWired (some 0) 4, .get 1, .get 0, .wireSet 0 1, .get 1, .tick, .get 1, .set 1 3, .wireSet 0 1, .tick,
   .get 1, .wireSet 0 4, .set 1 2, .get 1, .tick, .get 1, .set 0 0, .tick, .get 1, .get 0, .sub (some 1) none 0, .get 2,
   .wireSet 0 3, .tick, .get 1, .get 2, .wireSet 7 0]

example : (run State.empty demoWired).2 =
    [.view 0, .wired 1 0, .locale 4, .locale 2, .none, .locale 4, .none, .locale 1, .none, .none, .none,
     .locale 3, .none, .none, .locale 2, .none, .locale 4, .none, .none, .locale 4, .locale 0, .view 2, .locale 4,
     .none, .none, .locale 3, .locale 4, .bad] := by decide

example : observations demoWired = (run State.empty demoWired).2 := by decide

/-- a memo over a wired sub-context is refreshed by a delivery (a tracked set), not by the write itself -/
example : (run State.empty [.subWired none 2, .makeMemo 0, .readMemo 0, .wireSet 0 4, .readMemo 0, .tick, .readMemo 0]).2 =
    [.wired 0 0, .memo 0, .locale 2, .none, .locale 2, .none, .locale 4] := by decide

/-- the hypotheses of `C16_wired_isolation_seq` are satisfiable by a non-trivial sequence: nothing below acts on the
    wired context 1 (sets and deliveries hit its parent, a sibling wired sub-context and a sub-context of its own) -/
example : let s := (run State.empty [.newRoot 2, .subWired (some 0) 4]).1
    1 < s.cells.length ∧ QuietAt s.wires 1 ∧
    actsOn s [.set 0 3, .subWired (some 0) 1, .wireSet 1 0, .tick, .sub (some 1) none 0, .set 3 2, .scope 2, .setUntracked 4 0, .tick] 1 = false := by
  decide

/-- the hypotheses of `C16_wired_delivery` are satisfiable in a reachable state (uniqueness from
    `C16_wired_one_wire_per_context`): root, wired sub-context (de), set(fr) on it; write en-US, tick: it shows en-US -/
example : let s := (run State.empty [.newRoot 2, .subWired (some 0) 4, .scope 1, .set 2 2]).1
    ∀ v, s.views[v]? = some 1 → (step (step (step s (.wireSet 0 1)).1 .tick).1 (.get v)).2 = .locale 1 := by
  intro s v hv
  have hs : s.wires = Spec.wires (history [] [.newRoot 2, .subWired (some 0) 4, .scope 1, .set 2 2]) :=
    (C16_wired_shows_last_event _).2.1
  have huniq : ∀ j w', s.wires[j]? = some w' → w'.ctx = 1 → j = 0 := by
    intro j w' hj hc
    rw [hs] at hj
    exact (C16_wired_one_wire_per_context _).2 j 0 w' { ctx := 1, val := 4, seen := 4 } hj (by decide) hc
  exact ((C16_wired_delivery s 0 1 { ctx := 1, val := 4, seen := 4 } 1 (by decide) rfl (by decide) huniq (by decide)).1 v hv).1

/-- the hypotheses of `C16_wired_agree` are satisfiable: set(fr), write fr, tick — and `C16_wired_agree` needs "nothing in
    flight": with the write fr still in flight after a delivered en-US, the sub-context shows en-US although the last set and
    the signal both say fr -/
example : let h := history [] [.subWired none 4, .wireSet 0 1, .tick, .set 0 2, .wireSet 0 2, .tick]
    (∃ w ∈ Spec.wires h, w.ctx = 0) ∧ lastSet h 0 = some 2 ∧ (∀ w ∈ Spec.wires h, w.ctx = 0 → w.val = 2 ∧ w.seen = 2) ∧
    current h 0 = some 2 := by decide

example : let h := history [] [.subWired none 4, .set 0 2, .wireSet 0 1, .tick, .wireSet 0 2]
    lastSet h 0 = some 2 ∧ Spec.wires h = [{ ctx := 0, val := 2, seen := 1 }] ∧ current h 0 = some 1 := by decide

end I18nVerif.Context
