import I18nVerif.Proofs.Codegen
/-!
# C02 — Every accessor flavour of a key denotes the same text

Model: `I18nVerif.Model.Codegen` (the two code-generator back-ends of `leptos_i18n_macro`, the
tuple / `Either` helpers, the per-key `match locale`, scoping, `LitWrapper`).
Specification: `I18nVerif.Spec.Eval` (the denotation of a value) and the predicates of
`I18nVerif.Spec.Codegen`.

All theorems quantify over every value (`PV`: any nesting depth, any width), every string table,
every environment (variables, components, counts, plural categories), every number of
locales/branches/items, every chain of scopes.
-/
namespace I18nVerif.Codegen
open I18nVerif

/-! ## 1. both back-ends denote `Eval.eval` -/

/-- **View back-end.**  Whenever `to_token_stream` produces an expression for a value whose string
literals are indexed into `tbl`, what that expression renders (tuples = concatenation, string
literals fetched from the table, `match`es on counts and plural categories) is exactly the
denotation of the value. -/
theorem C02_view_eq_denotation (tbl : List Str) (ρ : Eval.Env) (v : PV) (e : VExpr)
    (h : toTokenStream v = .ok e) (hi : indexed tbl v = true) :
    renderView tbl ρ e = Eval.eval ρ v := by
  obtain ⟨es, hes, hr⟩ := finishView_ok h
  rw [hr, flatten_sound tbl ρ v es hes hi]

/-- **Display back-end.**  The same for `as_string_impl` (the body of `Display::fmt` used by
`t_string!`/`t_display!`). -/
theorem C02_display_eq_denotation (tbl : List Str) (ρ : Eval.Env) (v : PV) (d : DExpr)
    (h : asStringImpl v = .ok d) (hi : indexed tbl v = true) :
    renderDisplay tbl ρ d = Eval.eval ρ v := by
  obtain ⟨es, hes, hr⟩ := finishDisplay_ok h
  rw [hr, flattenString_sound tbl ρ v es hes hi]

/-- **View = Display.**  The two separately written generators (and their two range and two
plural generators) agree on every value. -/
theorem C02_view_eq_display (tbl : List Str) (ρ : Eval.Env) (v : PV) (e : VExpr) (d : DExpr)
    (hv : toTokenStream v = .ok e) (hd : asStringImpl v = .ok d) (hi : indexed tbl v = true) :
    renderView tbl ρ e = renderDisplay tbl ρ d := by
  rw [C02_view_eq_denotation tbl ρ v e hv hi, C02_display_eq_denotation tbl ρ v d hd hi]

/-! ## 2. the generators are total on the values they are meant to receive -/

/-- On a value without `Default`, `Subkeys`, unresolved foreign key or empty `Ranges` anywhere,
both generators return an expression: none of their `unreachable!`s fires. -/
theorem C02_codegen_total (v : PV) (h : renderable v = true) :
    (∃ e, toTokenStream v = .ok e) ∧ (∃ d, asStringImpl v = .ok d) := by
  constructor
  · have := finishView_outcome (flatten_outcome v)
    unfold toTokenStream
    cases hf : finishView (flatten v) with
    | ok e => exact ⟨e, rfl⟩
    | err k => rw [hf] at this; exact this.elim
    | panic p => rw [hf] at this; simp [outcomeOk, h] at this
  · have := finishDisplay_outcome (flattenString_outcome v)
    unfold asStringImpl
    cases hf : finishDisplay (flattenString v) with
    | ok e => exact ⟨e, rfl⟩
    | err k => rw [hf] at this; exact this.elim
    | panic p => rw [hf] at this; simp [outcomeOk, renderable_D v h] at this

/-- Exact failure condition of the view generator: it never returns an error value; it returns
an expression iff the value is `renderable`, and panics otherwise. -/
theorem C02_view_outcome (v : PV) :
    (∀ k, toTokenStream v ≠ .err k) ∧
    ((∃ e, toTokenStream v = .ok e) ↔ renderable v = true) ∧
    ((∃ p, toTokenStream v = .panic p) ↔ renderable v = false) := by
  have := finishView_outcome (flatten_outcome v)
  unfold toTokenStream
  cases hf : finishView (flatten v) <;> rw [hf] at this <;> simp_all [outcomeOk]

/-- Exact failure condition of the Display generator (it builds no `Either`, so an empty `Ranges`
does not make it panic). -/
theorem C02_display_outcome (v : PV) :
    (∀ k, asStringImpl v ≠ .err k) ∧
    ((∃ e, asStringImpl v = .ok e) ↔ renderableD v = true) ∧
    ((∃ p, asStringImpl v = .panic p) ↔ renderableD v = false) := by
  have := finishDisplay_outcome (flattenString_outcome v)
  unfold asStringImpl
  cases hf : finishDisplay (flattenString v) <;> rw [hf] at this <;> simp_all [outcomeOk]

/-- All flavours at once: on a renderable, indexed value both generators succeed and what they
generate renders to the denotation of the value. -/
theorem C02_flavours_agree (tbl : List Str) (ρ : Eval.Env) (v : PV)
    (hr : renderable v = true) (hi : indexed tbl v = true) :
    ∃ e d, toTokenStream v = .ok e ∧ asStringImpl v = .ok d ∧
      renderView tbl ρ e = Eval.eval ρ v ∧ renderDisplay tbl ρ d = Eval.eval ρ v := by
  obtain ⟨⟨e, he⟩, ⟨d, hd⟩⟩ := C02_codegen_total v hr
  exact ⟨e, d, he, hd, C02_view_eq_denotation tbl ρ v e he hi,
    C02_display_eq_denotation tbl ρ v d hd hi⟩

/-! ## 3. `fit_in_leptos_tuple` -/

/-- The nested tuple built for any number of items renders the items once each, in order
(0, 1, 26, 27, 26², 26² + 1, … items alike). -/
theorem C02_tuple_flatten (tbl : List Str) (ρ : Eval.Env) (xs : List VExpr) :
    renderView tbl ρ (fitInLeptosTuple xs) = (xs.map (renderView tbl ρ)).flatten := by
  rw [fitInLeptosTuple, fitAux_render, renderViewL_eq_flatten]

/-- Every tuple of the result has at most 26 components (given that the items themselves are
well-formed), whatever the number of items. -/
theorem C02_tuple_width (xs : List VExpr) (h : ∀ x ∈ xs, x.tuplesOk = true) :
    (fitInLeptosTuple xs).tuplesOk = true :=
  fitAux_tuplesOk _ _ (Nat.le_refl _) ((tuplesOkL_iff xs).mpr h)

/-- The recursion of `fit_in_leptos_tuple` terminates: in the fuel-indexed model any fuel
`≥ length` gives the same result (every chunk is strictly shorter than the slice it came from). -/
theorem C02_tuple_fuel (fuel : Nat) (xs : List VExpr) (h : xs.length ≤ fuel) :
    fitAux fuel xs = fitInLeptosTuple xs :=
  fitAux_fuel _ _ xs h (Nat.le_refl _)

/-- Every expression the view generator produces — at every depth: inside components, range
branches, plural forms — only contains tuples of at most 26 components. -/
theorem C02_generated_tuples_ok (v : PV) (e : VExpr) (h : toTokenStream v = .ok e) :
    e.tuplesOk = true :=
  finishView_tuplesOk (fun es hes => flatten_tuplesOk v es hes) h

/-! ## 4. `EitherOfWrapper` -/

/-- `EitherOfWrapper::new(0)` is the `unreachable!`. -/
theorem C02_either_zero : eitherNew 0 = none := rfl

/-- For every `n ≥ 1` the wrapper exists; for every `i < n`, `wrap i` is defined (no `LETTERS`
index panic), names a variant path that exists in the nested `EitherOf…` type, and distinct
indices get distinct paths — also beyond 16 (the 16th variant nests the rest, to any depth). -/
theorem C02_either_wrap_total (n : Nat) (hn : 1 ≤ n) :
    ∃ w, eitherNew n = some w ∧ w.size = n ∧
      (∀ i, i < n → ∃ p, wrap w i = some p ∧ w.validPath p = true) ∧
      (∀ i j, i < n → j < n → wrap w i = wrap w j → i = j) := by
  obtain ⟨w, hw, hs, hwf⟩ := eitherNew_spec n hn
  refine ⟨w, hw, hs, ?_, ?_⟩
  · intro i hi; exact wrap_defined w i hwf (by omega)
  · intro i j hi hj h; exact wrap_injective w i j hwf (by omega) (by omega) h

/-- `new(size - 15)` terminates: any fuel `≥ size` gives the same wrapper. -/
theorem C02_either_fuel (fuel n : Nat) (h : n ≤ fuel) : eitherNewAux fuel n = eitherNew n :=
  eitherNewAux_fuel fuel n n h (Nat.le_refl _)

/-! ## 5. the per-key `match locale` -/

/-- If the lists of `compute` are pairwise disjoint, contain no locale that defines the key
itself, and together with the defining locales cover `all` (C03 proves these for the real
`DefaultedLocales::compute`), then for every locale exactly one arm of the generated `match`
matches, `dispatch` selects it, and it is the arm of the locale's effective locale. -/
theorem C02_dispatch_partition (compute : List (Str × List Str)) (defining all : List Str)
    (hdisj : ∀ d1 d2 s1 s2, AMap.get? d1 compute = some s1 → AMap.get? d2 compute = some s2 →
      d1 ≠ d2 → ∀ l ∈ s1, l ∉ s2)
    (hdef : ∀ d s, AMap.get? d compute = some s → ∀ l ∈ s, l ∉ defining)
    (hcover : ∀ l ∈ all, l ∈ defining ∨ ∃ d ∈ defining, ∃ s, AMap.get? d compute = some s ∧ l ∈ s)
    (l : Str) (hl : l ∈ all) :
    ∃ d, dispatch compute defining l = some d ∧ dispatchLit compute defining l = some d ∧
      d ∈ defining ∧ l ∈ armPats compute d ∧
      (∀ d' ∈ defining, l ∈ armPats compute d' → d' = d) ∧
      IsEffective compute defining l d ∧ (∀ d', IsEffective compute defining l d' → d' = d) := by
  -- the unique matching arm
  have key : ∃ d, d ∈ defining ∧ l ∈ armPats compute d ∧
      (∀ d' ∈ defining, l ∈ armPats compute d' → d' = d) ∧ IsEffective compute defining l d := by
    by_cases hmem : l ∈ defining
    · refine ⟨l, hmem, by simp [armPats], ?_, Or.inl ⟨hmem, rfl⟩⟩
      intro d' _ hp
      rcases (mem_armPats compute d' l).mp hp with h | ⟨s, hs, hls⟩
      · exact h.symm
      · exact absurd hmem (hdef d' s hs l hls)
    · rcases hcover l hl with h | ⟨d, hd, s, hs, hls⟩
      · exact absurd h hmem
      · refine ⟨d, hd, (mem_armPats compute d l).mpr (Or.inr ⟨s, hs, hls⟩), ?_, Or.inr ⟨hmem, s, hs, hls⟩⟩
        intro d' hd' hp
        rcases (mem_armPats compute d' l).mp hp with h | ⟨s', hs', hls'⟩
        · exact absurd (h ▸ hd') hmem
        · apply Classical.byContradiction
          intro hne
          exact hdisj d' d s' s hs' hs hne l hls' hls
  obtain ⟨d, hd, hp, hu, heff⟩ := key
  refine ⟨d, ?_, ?_, hd, hp, hu, heff, ?_⟩
  · unfold dispatch
    apply find?_unique
    · simpa using hd
    · simpa using hp
    · intro x hx hpx
      exact hu x (by simpa using hx) (by simpa using hpx)
  · unfold dispatchLit
    apply find?_unique
    · exact hd
    · simpa using hp
    · intro x hx hpx
      exact hu x hx (by simpa using hpx)
  · intro d' h'
    rcases heff with ⟨hm, rfl⟩ | ⟨hnm, s, hs, hls⟩
    · rcases h' with ⟨_, h⟩ | ⟨hnm', _⟩
      · exact h
      · exact absurd hm hnm'
    · rcases h' with ⟨hm', _⟩ | ⟨_, s', hs', hls'⟩
      · exact absurd hm' hnm
      · apply Classical.byContradiction
        intro hne
        exact hdisj d' d s' s hs' hs hne l hls' hls

/-! ## 6. scoping -/

/-- Looking a path up in a scoped keys struct is looking the concatenated path up in the
original one (`scope_i18n!(i18n, p)` then `t!(…, q)` reads key `p.q`; when the prefix does not
exist neither side is defined). -/
theorem C02_scope_assoc {α : Type} (t : KTree α) (p q : List Str) :
    (t.scope p).bind (fun t' => t'.lookup q) = t.lookup (p ++ q) := by
  rw [KTree.scope, lookup_append]

/-- Any chain of scopes `p₁, p₂, …, pₙ` equals one scope by `p₁ ++ p₂ ++ … ++ pₙ`. -/
theorem C02_scope_chain {α : Type} (t : KTree α) (ps : List (List Str)) :
    t.scopeChain ps = t.scope ps.flatten := by
  rw [KTree.scope, scopeChain_eq]

/-- Scoping a locale, to any depth, leaves the locale component unchanged and only advances the
key prefix. -/
theorem C02_scoped_locale_chain (sl : ScopedLocale) (ps : List (List Str)) :
    (sl.scopeChain ps).locale = sl.locale ∧ (sl.scopeChain ps).pfx = sl.pfx ++ ps.flatten := by
  rw [slScopeChain_eq]; exact ⟨rfl, rfl⟩

/-- Access through a scoped locale (chain of `scope_locale!`) reads, in the keys of the *same*
locale, the key at prefix ++ path: the same cell as the unscoped access with the full path. -/
theorem C02_scoped_access {α : Type} (world : Str → KTree α) (sl : ScopedLocale)
    (ps : List (List Str)) (q : List Str) :
    (sl.scopeChain ps).access world q = (world sl.locale).lookup (sl.pfx ++ ps.flatten ++ q) ∧
    (sl.scopeChain ps).access world q = sl.access world (ps.flatten ++ q) := by
  simp only [slScopeChain_eq, ScopedLocale.access, ← lookup_append, List.append_assoc, and_self]

/-! ## 7. literal accessors (thin: the four methods are one-liners over the same field) -/

/-- For a key that is a plain literal (`&str`, `u64`, `i64`, `f64`, `bool`) the view, the
`String`, the `Display` and the const flavour all show `Display` of the same value; the builder
methods are identities. -/
theorem C02_lit_wrappers_agree (tbl : List Str) (ρ : Eval.Env) (w : LitWrapper) :
    renderView tbl ρ w.builder.build.intoView = w.val.display ∧
    w.displayBuilder.buildString = w.val.display ∧
    w.displayBuilder.buildDisplay = w.val.display ∧
    w.inner.display = w.val.display := by
  refine ⟨by simp [LitWrapper.intoView, LitWrapper.builder, LitWrapper.build, renderView], ?_, rfl, rfl⟩
  cases w with
  | mk v => cases v <;> simp [LitWrapper.buildString, LitWrapper.displayBuilder, Lit.display]

/-- The literal accessor (`match locale { … => LitWrapper::new(#lit) }` arm) of a literal value:
whatever the flavour, its text is the denotation of the value. -/
theorem C02_lit_accessor (tbl : List Str) (ρ : Eval.Env) (l : Lit)
    (hi : indexed tbl (.lit l) = true) :
    ∃ w, litAccessor tbl (.lit l) = some w ∧
      renderView tbl ρ w.builder.build.intoView = Eval.eval ρ (.lit l) ∧
      w.displayBuilder.buildString = Eval.eval ρ (.lit l) ∧
      w.displayBuilder.buildDisplay = Eval.eval ρ (.lit l) ∧
      w.inner.display = Eval.eval ρ (.lit l) := by
  have hts : toTokenStream (.lit l) = .ok (litTok l) := by
    simp [toTokenStream, flatten, finishView]
  cases l with
  | str s i =>
    cases i with
    | none => simp [indexed] at hi
    | some i =>
      simp only [indexed, beq_iff_eq] at hi
      refine ⟨⟨.str s (some i)⟩, by simp [litAccessor, hts, litTok, idxOf, hi], ?_⟩
      have := C02_lit_wrappers_agree tbl ρ ⟨.str s (some i)⟩
      simpa [Eval.eval] using this
  | signed v =>
    refine ⟨⟨.signed v⟩, by simp [litAccessor, hts, litTok], ?_⟩
    simpa [Eval.eval] using C02_lit_wrappers_agree tbl ρ ⟨.signed v⟩
  | unsigned v =>
    refine ⟨⟨.unsigned v⟩, by simp [litAccessor, hts, litTok], ?_⟩
    simpa [Eval.eval] using C02_lit_wrappers_agree tbl ρ ⟨.unsigned v⟩
  | float v =>
    refine ⟨⟨.float v⟩, by simp [litAccessor, hts, litTok], ?_⟩
    simpa [Eval.eval] using C02_lit_wrappers_agree tbl ρ ⟨.float v⟩
  | bool v =>
    refine ⟨⟨.bool v⟩, by simp [litAccessor, hts, litTok], ?_⟩
    simpa [Eval.eval] using C02_lit_wrappers_agree tbl ρ ⟨.bool v⟩

/-! ## 7b. a whole key, all nine macro flavours, any scoping -/

/-- The accessor of a key at locale `l`: if the `match locale` selects the arm of `d` and `d`'s
value is renderable and indexed in `d`'s table, then the view, `String` and `Display` outputs are
all the denotation of `d`'s value. -/
theorem C02_key_text (k : KeyArms) (ρ : Eval.Env) (l d : Str)
    (hd : dispatch k.compute k.defining l = some d)
    (hr : renderable (k.value d) = true) (hi : indexed (k.table d) (k.value d) = true)
    (o : OutputType) : k.text ρ o l = some (Eval.eval ρ (k.value d)) := by
  obtain ⟨e, dd, he, hdd, h1, h2⟩ := C02_flavours_agree (k.table d) ρ (k.value d) hr hi
  cases o <;> simp [KeyArms.text, hd, he, hdd, h1, h2]

/-- **All flavours, any scoping.**  Two macro calls — any of `t!`/`tu!`/`td!`, any of the view /
`_string` / `_display` outputs, through a context or a locale, scoped by any chain of
`scope_i18n!`/`use_i18n_scoped!`/`scope_locale!` — that name the same locale and the same full key
path (scope prefix ++ written path) produce the same text. -/
theorem C02_all_flavours (root : KTree KeyArms) (ρ : Eval.Env)
    (i1 i2 : InputType) (o1 o2 : OutputType) (s1 s2 : Source) (q1 q2 : List Str)
    (sl1 sl2 : ScopedLocale) (h1 : s1.resolve i1 = some sl1) (h2 : s2.resolve i2 = some sl2)
    (hloc : sl1.locale = sl2.locale) (hpath : sl1.pfx ++ q1 = sl2.pfx ++ q2)
    (hwf : ∀ k, root.lookup (sl1.pfx ++ q1) = some (.leaf k) → ∀ d ∈ k.defining,
      renderable (k.value d) = true ∧ indexed (k.table d) (k.value d) = true) :
    flavourText root ρ i1 o1 s1 q1 = flavourText root ρ i2 o2 s2 q2 := by
  simp only [flavourText, h1, h2, ← lookup_append, ← hpath, ← hloc]
  cases hk : root.lookup (sl1.pfx ++ q1) with
  | none => rfl
  | some t =>
    cases t with
    | node kids => rfl
    | leaf k =>
      simp only
      cases hd : dispatch k.compute k.defining sl1.locale with
      | none => simp [KeyArms.text, hd]
      | some d =>
        have hmem : d ∈ k.defining := by
          have := List.mem_of_find?_eq_some hd
          simpa using this
        obtain ⟨hr, hi⟩ := hwf k hk d hmem
        rw [C02_key_text k ρ _ d hd hr hi o1, C02_key_text k ρ _ d hd hr hi o2]

/-- Scoping a source by a chain of prefixes and then writing `q` is the unscoped call with the
concatenated path, for every flavour — and it is the text of the effective locale's value. -/
theorem C02_scoped_flavour (root : KTree KeyArms) (ρ : Eval.Env) (o : OutputType)
    (sl : ScopedLocale) (ps : List (List Str)) (q : List Str) :
    flavourText root ρ .locale o (.locale (sl.scopeChain ps)) q =
      flavourText root ρ .locale o (.locale sl) (ps.flatten ++ q) := by
  simp only [flavourText, Source.resolve, slScopeChain_eq, ← lookup_append, List.append_assoc]

/-! ## 8. float ranges: the generated `if` conditions mean `do_match` -/

/-- The condition `range_to_condition` builds for a branch of a float range holds exactly when
`do_match` does, for every range without a `Fallback` inside a `|` list (`Range::flatten` removes
those).  (For integer ranges the `match` patterns are Rust's own range patterns.) -/
theorem C02_range_condition (r : Range) (c : Dec) (h : noInnerFallback r = true) :
    condTaken r c = Ranges.doMatch r c :=
  rangeCond_doMatch c r h

/-- Without that hypothesis the two differ: `filter_map` drops a fallback inside a `|` list. -/
example : condTaken (.multi [.fallback]) ⟨1, 0⟩ = false ∧
    Ranges.doMatch (.multi [.fallback]) ⟨1, 0⟩ = true := by decide

/-! ## Examples -/

section Examples

def exEnv : Eval.Env where
  var := fun k _ => '{' :: k ++ ['}']
  comp := fun k s => '<' :: k ++ '>' :: s ++ '<' :: '/' :: k ++ ['>']
  count := fun _ => ⟨3, 0⟩
  cat := fun _ _ => .few

/-- 30 items in one bloc -/
def ex30 : PV := .bloc (List.replicate 30 (.var ['x'] .none))

/-- 30 items: `chunk_size = ⌈30/26⌉ = 2`, so 15 pairs inside one 15-tuple (two tuple levels) -/
example : toTokenStream ex30 = .ok (.tuple (List.replicate 15 (.tuple [.var ['x'] .none, .var ['x'] .none]))) := by
  rfl

example : renderable ex30 = true ∧ indexed [] ex30 = true := by decide

/-- a range with three arms whose branches are indexed string literals, inside a component -/
def exTbl : List Str := [['n','o','n','e'], ['f','e','w'], ['m','a','n','y'], [' ','i','t','e','m','s']]

def exRange : PV :=
  .bloc [
    .comp ['b'] (.ranges ['n'] .i32 [
      (.exact ⟨0, 0⟩, .lit (.str ['n','o','n','e'] (some 0))),
      (.bounds (some ⟨1, 0⟩) (.incl ⟨5, 0⟩), .lit (.str ['f','e','w'] (some 1))),
      (.fallback, .lit (.str ['m','a','n','y'] (some 2)))]),
    .lit (.str [' ','i','t','e','m','s'] (some 3)),
    .plurals .cardinal ['n'] (.lit (.unsigned 7)) [(.one, .lit (.bool true)), (.few, .var ['n'] .none)]]

example : renderable exRange = true ∧ indexed exTbl exRange = true := by decide

example : Eval.eval exEnv exRange = "<b>few</b> items{n}".toList := by decide

example : ∃ e d, toTokenStream exRange = .ok e ∧ asStringImpl exRange = .ok d ∧
    renderView exTbl exEnv e = "<b>few</b> items{n}".toList ∧
    renderDisplay exTbl exEnv d = "<b>few</b> items{n}".toList :=
  ⟨_, _, rfl, rfl, by decide, by decide⟩

/-- 20 locales: `EitherOf16` whose variant `P` holds an `EitherOf5` -/
example : eitherNew 20 = some (.nested (.multiple 5)) := by decide

example : wrap (.nested (.multiple 5)) 3 = some [3] ∧ wrap (.nested (.multiple 5)) 15 = some [15, 0] ∧
    wrap (.nested (.multiple 5)) 19 = some [15, 4] := by decide

/-- 32 locales nest twice -/
example : eitherNew 32 = some (.nested (.nested .duo)) := by decide

/-- the hypotheses of `C02_dispatch_partition` are satisfiable: `fr-CA` defaults to `fr`,
    `de` and `it` default to `en` -/
example : dispatch [(['e','n'], [['d','e'], ['i','t']]), (['f','r'], [['f','r','-','C','A']])]
    [['e','n'], ['f','r']] ['i','t'] = some ['e','n'] := by decide

/-- scoping: `a.b` then `c` -/
example : ((KTree.node [(['a'], .node [(['b'], .node [(['c'], .leaf 7)])])]).scopeChain [[['a']], [['b']]]).bind
    (fun t => t.lookup [['c']]) = some (.leaf (7 : Nat)) := by
  simp [KTree.scopeChain, KTree.scope, KTree.lookup, AMap.get?]

/-- a key `a.b.k` defined by `en` and `fr`; `fr-CA` defaults to `fr` -/
def exKey : KeyArms where
  defining := [['e','n'], ['f','r']]
  compute := [(['f','r'], [['f','r','-','C','A']])]
  value := fun d => if d = ['f','r'] then .bloc [.lit (.str ['s','a','l','u','t',' '] (some 0)), .var ['x'] .none]
                    else .bloc [.lit (.str ['h','i',' '] (some 0)), .var ['x'] .none]
  table := fun d => if d = ['f','r'] then [['s','a','l','u','t',' ']] else [['h','i',' ']]

def exRoot : KTree KeyArms := .node [(['a'], .node [(['b'], .node [(['k'], .leaf exKey)])])]

/-- `t!(scope_i18n!(scope_i18n!(i18n, a), b), k)` with the context at `fr-CA`, and
    `td_string!(Locale::fr_CA, a.b.k)`: the French text -/
example :
    flavourText exRoot exEnv .context .view (.ctx ['f','r','-','C','A'] [['a'], ['b']]) [['k']]
      = some "salut {x}".toList ∧
    flavourText exRoot exEnv .locale .string (.locale ⟨['f','r','-','C','A'], []⟩) [['a'], ['b'], ['k']]
      = some "salut {x}".toList ∧
    flavourText exRoot exEnv .untracked .display (.ctx ['e','n'] [['a']]) [['b'], ['k']]
      = some "hi {x}".toList := by
  decide

/-- the literal accessor of an indexed string literal -/
example : (litAccessor exTbl (.lit (.str ['f','e','w'] (some 1)))).map (·.buildString) = some ['f','e','w'] := by
  decide

example : ∀ d ∈ exKey.defining,
    renderable (exKey.value d) = true ∧ indexed (exKey.table d) (exKey.value d) = true := by decide

/-- the hypotheses of `C02_dispatch_partition` hold for `exKey` over `[en, fr, fr-CA]` -/
example : ∀ l ∈ [['e','n'], ['f','r'], ['f','r','-','C','A']],
    ∃ d, dispatch exKey.compute exKey.defining l = some d ∧ IsEffective exKey.compute exKey.defining l d := by
  intro l hl
  have hget : ∀ d s, AMap.get? d exKey.compute = some s → d = ['f','r'] ∧ s = [['f','r','-','C','A']] := by
    intro d s h
    simp only [exKey, AMap.get?] at h
    split at h
    · rename_i hd
      simp only [beq_iff_eq] at hd
      exact ⟨hd.symm, by simpa using h.symm⟩
    · simp at h
  obtain ⟨d, h1, _, _, _, _, h5, _⟩ := C02_dispatch_partition exKey.compute exKey.defining
    [['e','n'], ['f','r'], ['f','r','-','C','A']]
    (by
      intro d1 d2 s1 s2 h1 h2 hne
      exact absurd ((hget d1 s1 h1).1.trans (hget d2 s2 h2).1.symm) hne)
    (by
      intro d s h l hl
      obtain ⟨_, rfl⟩ := hget d s h
      simp only [List.mem_singleton] at hl
      subst hl
      decide)
    (by decide)
    l hl
  exact ⟨d, h1, h5⟩

end Examples

end I18nVerif.Codegen
