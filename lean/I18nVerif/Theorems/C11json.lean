import I18nVerif.Proofs.Escape
import I18nVerif.Spec.Escape
/-!
# C11 (second sentence) — the file written by the build helper is valid JSON decoding to the same strings

Model: `I18nVerif.Escape.formatter` (`impl Display for TranslationsFormatter` + `write_json_str` in
`leptos_i18n_build/src/lib.rs`, after the fix of F15).  Specification: the strict JSON reader
`Spec.jsonDecodeStrings`.  The theorems quantify over *every* list of strings and *every* string of
Unicode scalar values (quotes, backslashes, C0/C1 controls, U+00A0, U+200B, U+2028, astral
characters … are just particular `Char`s); no bound on lengths.
-/
namespace I18nVerif.Escape

/-- **JSON round trip.**  What the formatter writes for the string table `strs` is a JSON text
    (accepted by the strict reader) that decodes to exactly `strs`. -/
theorem C11_json_roundtrip (strs : List (List Char)) :
    Spec.jsonDecodeStrings (formatter strs) = some strs :=
  jsonDecode_formatter strs

/-- the same, through the executable predicate used by the correspondence check -/
theorem C11_json_ok (strs : List (List Char)) : Spec.jsonOk (formatter strs) strs = true := by
  simp [Spec.jsonOk, C11_json_roundtrip]

/-- one string: the quoted form is read back as that string, whatever follows it -/
theorem C11_json_string (s rest : List Char) :
    Spec.parseStringTail false ((jsonQuote s).tail ++ rest) = some (s, rest) := by
  have := parseStringTail_esc goodEsc_json s rest
  simpa [jsonQuote] using this

/-- distinct tables are written as distinct files (the encoding loses nothing) -/
theorem C11_json_injective (a b : List (List Char)) (h : formatter a = formatter b) : a = b := by
  have ha := C11_json_roundtrip a
  rw [h, C11_json_roundtrip b] at ha
  exact (Option.some.inj ha).symm

/-! ### Non-vacuity and the regression witnesses (F15) -/

/-- a table with every kind of awkward character goes through -/
example : Spec.jsonDecodeStrings (formatter [['"', '\\', '\n', '\x00', '\x07', '\x1f', '\x7f'],
      [Char.ofNat 0xa0, Char.ofNat 0x200b, Char.ofNat 0x2028, Char.ofNat 0x1F600], [], ['<', '/', 's', '>']])
    = some [['"', '\\', '\n', '\x00', '\x07', '\x1f', '\x7f'],
      [Char.ofNat 0xa0, Char.ofNat 0x200b, Char.ofNat 0x2028, Char.ofNat 0x1F600], [], ['<', '/', 's', '>']] := by
  decide +kernel

/-- what the formatter writes for U+0007: the six characters `\u0007` between quotes -/
example : formatter [['\x07']] = ['[', '"', '\\', 'u', '0', '0', '0', '7', '"', ']'] := by decide

/-- F15 (fixed): with Rust's `{:?}`, a no-break space came out as `\u{a0}`, which is not JSON … -/
example : oldFormatter [[Char.ofNat 0xa0]] = ['[', '"', '\\', 'u', '{', 'a', '0', '}', '"', ']'] := by decide +kernel
example : Spec.jsonDecodeStrings (oldFormatter [[Char.ofNat 0xa0]]) = none := by decide +kernel
/-- … and so did U+200B (`\u{200b}`), NUL (`\0`) and BEL (`\u{7}`) -/
example : Spec.jsonDecodeStrings (oldFormatter [[Char.ofNat 0x200b]]) = none := by decide +kernel
example : Spec.jsonDecodeStrings (oldFormatter [['\x00']]) = none := by decide +kernel
example : Spec.jsonDecodeStrings (oldFormatter [['\x07']]) = none := by decide +kernel
/-- the reader is not trivially rejecting: the old output for plain text was fine -/
example : Spec.jsonDecodeStrings (oldFormatter [['a', '"'], ['b']]) = some [['a', '"'], ['b']] := by decide +kernel
/-- the reader follows the grammar, not the encoder: white space, `\/`, lower-case hex, surrogate pairs -/
example : Spec.jsonDecodeStrings " [ \"\\/\\u00e9\\ud83d\\ude00\" ,\n\"\" ] ".toList
    = some [['/', 'é', Char.ofNat 0x1F600], []] := by decide +kernel
example : Spec.jsonDecodeStrings "[\"\\ud83d\"]".toList = none := by decide +kernel
example : Spec.jsonDecodeStrings "[\"a\",]".toList = none := by decide +kernel
example : Spec.jsonDecodeStrings "[\"a\"] x".toList = none := by decide +kernel

end I18nVerif.Escape
