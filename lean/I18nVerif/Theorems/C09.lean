import I18nVerif.Proofs.NoPanic
/-!
# C09 — Loading translations never panics or hangs (parsing and decoding part)

Model: `Model/{Str,Key,Formatter,Json,Parse,Ranges,Decode}.lean`
(`leptos_i18n_parser/src/parse_locales/{parsed_value,ranges,locale}.rs`).
Every panic site of the Rust code is the explicit outcome `Res.panic site`; every model function is
total, so "terminates" holds by construction and what is proved here is

* the `.panic` outcome is unreachable (`C09_*_no_panic`, `C09_*_total`),
* the fuel the model passes to its recursive functions is sufficient and the result does not depend
  on it (`C09_parse_fuel_irrelevant`, `C09_findValidComponent_fuel_irrelevant`), i.e. the recursion
  depth of `ParsedValue::new` is at most `|s| + 1` (`C09_depth_linear`),
* the offsets computed for slicing are inside the string (`C09_slices_in_bounds_*`).

All theorems quantify over *every* string / decoded file tree: arbitrary Unicode scalar values,
unbalanced `{{`, `<`, `$t(`, any nesting depth.  `reduce` and foreign-key resolution are covered in
other files.
-/
namespace I18nVerif
open Str

/-- **`ParsedValue::new` never panics**, whatever the string: the only panic outcome of
`Model/Parse.lean` (running out of recursion fuel) is unreachable with the fuel `|s| + 1` that
`Parse.new` uses. -/
theorem C09_parse_no_panic (s : Str) : ¬ (Parse.new s).isPanic := by
  have := Parse.newF_np (s.length + 1) s (Nat.lt_succ_self _)
  unfold Parse.new
  rw [this]
  simp

/-- the same for any amount of fuel larger than the length of the string -/
theorem C09_parse_no_panic_fuel (fuel : Nat) (s : Str) (h : s.length < fuel) :
    ∀ site, Parse.newF fuel s ≠ .panic site := by
  intro site e
  have := Parse.newF_np fuel s h
  rw [e] at this
  simp at this

/-- **The result of parsing is a function of the string only**: any two amounts of fuel larger
than the length of the string give the same value. -/
theorem C09_parse_fuel_irrelevant (fuel fuel' : Nat) (s : Str) (h : s.length < fuel) (h' : s.length < fuel') :
    Parse.newF fuel s = Parse.newF fuel' s :=
  Parse.newF_fuel fuel fuel' s h h'

/-- **Recursion depth is linear**: `newF`'s fuel argument decreases by one at every nested call
(`Parse.newF (fuel+1)` only calls `Parse.newF fuel`), so a run that does not end in `panic "fuel"`
has nesting depth at most its initial fuel.  With `|s| + 1` the run never ends in `panic "fuel"` and
computes *the* value (the one every larger fuel computes): the depth of `ParsedValue::new s` is at
most `|s| + 1`.  (This does not exclude a stack overflow on a finite stack — finding F8.) -/
theorem C09_depth_linear (s : Str) :
    (∀ site, Parse.newF (s.length + 1) s ≠ .panic site) ∧
    (∀ fuel, s.length < fuel → Parse.newF fuel s = Parse.new s) :=
  ⟨C09_parse_no_panic_fuel _ s (Nat.lt_succ_self _),
   fun fuel h => Parse.newF_fuel fuel (s.length + 1) s h (Nat.lt_succ_self _)⟩

/-- every recursive call of the three `find_*` functions is on a strictly shorter string: if the
callee cannot panic on strings shorter than `value`, the caller cannot panic on `value`
(this is the induction step of `C09_parse_no_panic`, stated for an arbitrary callee) -/
theorem C09_find_calls_shorter (rec_ : Str → Res PV) (value : Str)
    (h : ∀ x : Str, x.length < value.length → (rec_ x).isPanic = false) :
    (∀ r, Parse.findForeignKey rec_ value = some r → r.isPanic = false) ∧
    (∀ r, Parse.findComponent rec_ value = some r → r.isPanic = false) ∧
    (∀ r, Parse.findVariable rec_ value = some r → r.isPanic = false) :=
  ⟨fun _ e => Parse.findForeignKey_np h e, fun _ e => Parse.findComponent_np h e,
   fun _ e => Parse.findVariable_np h e⟩

/-- the pieces `find_valid_component` hands to the recursive calls are strictly shorter than the
value: at least the four tag delimiters `<` `>` `<` `>` are gone -/
theorem C09_component_pieces_shorter (fuel : Nat) (value : Str) (k : Nat) (key before between after : Str)
    (h : Parse.findValidComponent fuel value k = some (key, before, between, after)) :
    before.length + between.length + after.length + 4 ≤ value.length :=
  Parse.findValidComponent_len fuel value k h

/-- the fuel `|value| + 1` of the `find_valid_component` loop is never the reason for giving up:
any two amounts of fuel larger than what is left of the string give the same answer
(every round skips at least the two characters `<` `>`) -/
theorem C09_findValidComponent_fuel_irrelevant (fuel fuel' : Nat) (value : Str) (k : Nat)
    (h : value.length < k + fuel) (h' : value.length < k + fuel') :
    Parse.findValidComponent fuel value k = Parse.findValidComponent fuel' value k :=
  Parse.findValidComponent_fuel fuel fuel' value k h h'

/-- a string argument of a foreign key (`$t(key, {"x": "..."})`), once JSON-decoded, is strictly
shorter than the JSON text it was read from — the reason the recursive `ParsedValue::new` on
decoded arguments terminates -/
theorem C09_fk_arg_shorter (s : Str) (ms : List (Str × Json.JLit)) (h : Json.parseObject s = some ms) :
    ∀ k t, (k, Json.JLit.str t) ∈ AMap.ofList ms → t.length < s.length :=
  fun k t hm => Json.parseObject_len h k t (AMap.mem_ofList hm)

/-- `Range::new` returns a range or an error, never a panic -/
theorem C09_range_new_total (t : RangeTy) (s : Str) :
    (∃ r, Ranges.new t s = .ok r) ∨ (∃ e, Ranges.new t s = .err e) := by
  have := Ranges.new_np t s
  cases h : Ranges.new t s with
  | ok r => exact .inl ⟨r, rfl⟩
  | err e => exact .inr ⟨e, rfl⟩
  | panic p => rw [h] at this; simp at this

/-- the count specification of a range branch (`RangeSeed`) never panics -/
theorem C09_rangeSpec_total (t : RangeTy) (j : J) : ∀ site, Decode.rangeSpec t j ≠ .panic site := by
  intro site e
  have := Decode.rangeSpec_np t j
  rw [e] at this; simp at this

/-- `parse_formatter` returns a formatter or `UnknownFormatter`, never a panic -/
theorem C09_parseFormatter_total (s : Str) :
    (∃ f, Formatter.parseFormatter s = .ok f) ∨ Formatter.parseFormatter s = .err "UnknownFormatter" := by
  unfold Formatter.parseFormatter
  simp only
  split
  · rename_i f _; exact .inl ⟨f, rfl⟩
  · exact .inr rfl

/-- `Key::new` is a total function into `Option` (it has no panic outcome at all): it returns
the trimmed name or nothing -/
theorem C09_key_new_total (name : Str) : Key.new name = some (trim name) ∨ Key.new name = none := by
  unfold Key.new
  simp only
  split
  · exact .inl rfl
  · exact .inr rfl

/-- **Decoding a value never panics** when the fuel exceeds the size of the tree
(`Decode.value`'s only own panic outcome is running out of fuel; `Parse.new` contributes none) -/
theorem C09_decode_no_panic (fuel : Nat) (top : Str) (inRange : Bool) (key : Str) (j : J)
    (h : Decode.J.size j < fuel) : ∀ site, Decode.value fuel top inRange key j ≠ .panic site := by
  intro site e
  have := Decode.value_np fuel top inRange key j h
  rw [e] at this; simp at this

/-- **Decoding a locale file never panics**: for every decoded tree — well-formed or not — the
outcome is a `Locale` or a descriptive error (this covers the fuel `size + 1` that `Decode.locale`
passes and the `panic "decode"` branch for a non-`Subkeys` result) -/
theorem C09_locale_no_panic (name : Str) (j : J) :
    (∃ l, Decode.locale name j = .ok l) ∨ (∃ e, Decode.locale name j = .err e) := by
  have := Decode.locale_np name j
  cases h : Decode.locale name j with
  | ok r => exact .inl ⟨r, rfl⟩
  | err e => exact .inr ⟨e, rfl⟩
  | panic p => rw [h] at this; simp at this

/-- **Slices of `find_closing_tag` are in bounds**: the scan over `s` (located at offset `i` of the
value) only ever reports `(start, end)` with `i ≤ start`, `start + 2 ≤ end` and
`end ≤ i + |s|`, provided the initial candidate satisfies the same -/
theorem C09_slices_in_bounds_closingScan (key s : Str) (i d : Nat) (f : Option (Nat × Nat)) (a b : Nat)
    (hf : ∀ a b, f = some (a, b) → i ≤ a ∧ a + 2 ≤ b ∧ b ≤ i + s.length)
    (h : Parse.closingScan key s i d f = some (a, b)) :
    i ≤ a ∧ a < b ∧ b ≤ i + s.length := by
  have := Parse.closingScan_bounds key i (i + s.length) s i d f a b (Nat.le_refl _) rfl hf h
  omega

/-- `find_closing_tag`: `value[..start]` and `value[end..]` are slices of `value`, and at least
two characters lie between them -/
theorem C09_slices_in_bounds_closingTag (value key keyIdent between after : Str)
    (h : Parse.findClosingTag value key = some (keyIdent, between, after)) :
    ∃ start stop, start + 2 ≤ stop ∧ stop ≤ value.length ∧
      between = value.take start ∧ after = value.drop stop := by
  unfold Parse.findClosingTag at h
  split at h
  · simp at h
  · split at h
    · simp at h
    · rename_i start stop hs
      simp only [Option.some.injEq, Prod.mk.injEq] at h
      have := Parse.closingScan_bounds key 0 value.length value 0 0 none start stop (Nat.le_refl _)
        (by simp) (by intro a b h; simp at h) hs
      exact ⟨start, stop, this.2.1, this.2.2, h.2.1.symm, h.2.2.symm⟩

/-- `find_valid_component`: the slice `value[..skip_sum + before.len()]` ends inside the string
(two characters before its end at the latest) -/
theorem C09_slices_in_bounds_component (fuel : Nat) (value : Str) (k : Nat) (key before between after : Str)
    (h : Parse.findValidComponent fuel value k = some (key, before, between, after)) :
    ∃ skipSum b, k ≤ skipSum ∧ skipSum + b + 2 ≤ value.length ∧ before = value.take (skipSum + b) := by
  obtain ⟨k', b, e, hk, hb⟩ := Parse.findValidComponent_before fuel value k h
  exact ⟨k', b, hk, hb, e⟩

/-- `find_opening_tag`: the number of characters skipped covers `before`, `<`, the tag and `>`,
and together with `after` makes up the whole value -/
theorem C09_slices_in_bounds_openingTag (v before key after : Str) (skip : Nat)
    (h : Parse.findOpeningTag v = some (before, key, after, skip)) :
    skip + after.length = v.length ∧ before.length + 2 ≤ skip :=
  Parse.findOpeningTag_len h

/-! ### The hypotheses are satisfiable / the statements are not vacuous -/

/-- unbalanced input: a value, never a panic (the stray `<b>` and `$t(` stay literal text) -/
example : Parse.new "<b>{{x}} $t(".toList =
    .ok (.bloc [.lit (.str "<b>".toList none), .var "var_x".toList .none, .lit (.str " $t(".toList none)]) := by rfl

/-- a foreign key whose decoded argument is parsed recursively -/
example : Parse.new "$t(k,{\"a\":\"{{y}}\"})".toList =
    .ok (.bloc [.lit (.str [] none), .fk (.notSet ⟨none, ["k".toList]⟩ [("var_a".toList,
      .bloc [.lit (.str [] none), .var "var_y".toList .none, .lit (.str [] none)])]), .lit (.str [] none)]) := by rfl

/-- the witness of the repaired defect F2: an error, not a panic -/
example : Parse.new "$t(b,".toList = .err "UnexpectedToken" := by rfl

/-- a decoded argument (3 characters) is shorter than its source text -/
example : Json.parseObject "{\"a\":\"x\\ny\"}".toList = some [("a".toList, .str "x\ny".toList)] := by rfl

/-- the witness of the repaired defect F1 (whitespace inside the closing tag): offsets in bounds -/
example : Parse.findClosingTag "x</b >t".toList "b".toList
    = some ("comp_b".toList, "x".toList, "t".toList) := by rfl

example : Ranges.new .u8 "1..=3|x".toList = .err "RangeParse" := by rfl

end I18nVerif
