import I18nVerif.Proofs.Config
/-!
# C19 — Configuration is validated and normalised as documented

Model: `I18nVerif.Model.Config` (`cfg_file.rs`: `ConfigFile::new`, `CfgFileVisitor::visit_map`), starting
from the decoded `[package.metadata.leptos-i18n]` table (the TOML parser, hence "the rest of
Cargo.toml is ignored", is outside the model and is covered by the correspondence check), and
`Model/Pipeline.lean` `decodeAll` for the files read.  Specification: `Spec/Config.lean`.
Every theorem holds for every table (any number of entries, any order, any values).
-/
namespace I18nVerif.Config
open I18nVerif I18nVerif.Config.Spec

/-- what an accepted configuration was built from: the declared fields of the table -/
theorem C19_ok_fields (table : List (Str × TV)) (c : Config) (h : Config.new table = .ok c) :
    ∃ listed,
      declared table "default".toList asKey = some c.default ∧
      declared table "locales".toList asKeys = some listed ∧
      c.locales = defaultFirst c.default listed ∧
      c.namespaces = declared table "namespaces".toList asKeys ∧
      c.inherits = (declared table "inherits".toList asKeyMap).getD [] ∧
      c.localesDir = (declared table "locales-dir".toList asStr).getD "locales".toList := by
  cases hf : fields table {} with
  | err e => simp [Config.new, hf] at h
  | panic p => simp [Config.new, hf] at h
  | ok r =>
    have ok := fields_ok table {} r hf
    cases hd : r.default with
    | none => rw [new_missing_default hf hd] at h; cases h
    | some d =>
      cases hl : r.locales with
      | none => rw [new_missing_locales hf hl] at h; cases h
      | some listed =>
        rw [new_of_fields hf hd hl] at h
        split at h; · cases h
        split at h; · cases h
        split at h; · cases h
        split at h; · cases h
        simp only [Res.ok.injEq] at h
        subst h
        refine ⟨listed, ?_, ?_, rfl, ?_, ?_, ?_⟩
        · rw [← ok.default.declared, hd]
        · rw [← ok.locales.declared, hl]
        · exact ok.namespaces.declared
        · simp only; rw [← ok.inherits.declared]
        · simp only; rw [← ok.localesDir.declared]

/-- **The default locale is always in the list, and first** — whether or not it was listed.  The
accepted locale list has the default at index 0, has no duplicates, and as a set is the listed
locales plus the default: a permutation of the listed ones when the default is among them, else
the default followed by a permutation of the listed ones. -/
theorem C19_default_first (table : List (Str × TV)) (c : Config) (h : Config.new table = .ok c) :
    ∃ listed, declared table "locales".toList asKeys = some listed ∧
      c.locales.head? = some c.default ∧ c.default ∈ c.locales ∧ c.locales.Nodup ∧
      (∀ l, l ∈ c.locales ↔ l ∈ listed ∨ l = c.default) ∧
      (c.default ∈ listed → c.locales.Perm listed) ∧
      (c.default ∉ listed → ∃ tl, c.locales = c.default :: tl ∧ tl.Perm listed) := by
  obtain ⟨listed, _, hl, hloc, _⟩ := C19_ok_fields table c h
  refine ⟨listed, hl, ?_, ?_, ?_, ?_, ?_, ?_⟩
  · rw [hloc]; exact defaultFirst_head _ _
  · rw [hloc, mem_defaultFirst]; exact Or.inr rfl
  · -- no duplicates: the duplicate check passed
    cases hf : fields table {} with
    | err e => simp [Config.new, hf] at h
    | panic p => simp [Config.new, hf] at h
    | ok r =>
      cases hd : r.default with
      | none => rw [new_missing_default hf hd] at h; cases h
      | some d =>
        cases hl' : r.locales with
        | none => rw [new_missing_locales hf hl'] at h; cases h
        | some listed' =>
          rw [new_of_fields hf hd hl'] at h
          split at h; · cases h
          split at h; · cases h
          split at h; · cases h
          rename_i hdup
          split at h; · cases h
          simp only [Res.ok.injEq] at h
          subst h
          simp only
          apply (duplicates_eq_false_iff _).mp
          simpa using hdup
  · intro l; rw [hloc]; exact mem_defaultFirst _ _ _
  · intro hm
    obtain ⟨tl, e, p⟩ := defaultFirst_listed _ _ hm
    rw [hloc, e]; exact p
  · intro hm
    obtain ⟨tl, e, p⟩ := defaultFirst_unlisted _ _ hm
    exact ⟨tl, by rw [hloc, e], p⟩

/-! ## duplicates -/

/-- an accepted configuration has no duplicate among the listed locales, the resulting locales or
the namespaces -/
theorem C19_no_duplicates_accepted (table : List (Str × TV)) (c : Config) (h : Config.new table = .ok c) :
    (∀ listed, declared table "locales".toList asKeys = some listed → listed.Nodup) ∧
    c.locales.Nodup ∧ (∀ nss, c.namespaces = some nss → nss.Nodup) := by
  obtain ⟨r, d, listed, hf, hd, hl, h1, h2, h3, h4, rfl⟩ := new_ok h
  have ok := fields_ok table {} r hf
  have hnd : (defaultFirst d listed).Nodup := (duplicates_eq_false_iff _).mp h3
  refine ⟨?_, hnd, ?_⟩
  · intro listed' hl'
    rw [← ok.locales.declared, hl] at hl'
    cases hl'
    exact (nodup_defaultFirst d listed).mp hnd
  · intro nss hn
    simp only at hn
    rw [hn] at h4
    exact (duplicates_eq_false_iff _).mp (by simpa using h4)

/-- **Duplicate locales are rejected**: if the listed locales (after `Key::new` normalisation:
trimmed names) contain a duplicate — in particular the default twice — the configuration is
rejected, with `DuplicateLocalesInConfig` unless an earlier check already failed (`ConfigFileDeser`) -/
theorem C19_duplicates_rejected (table : List (Str × TV)) (listed : List Str)
    (hl : declared table "locales".toList asKeys = some listed) (hdup : ¬ listed.Nodup) :
    Config.new table = .err "DuplicateLocalesInConfig" ∨ Config.new table = .err "ConfigFileDeser" := by
  cases hf : fields table {} with
  | err e => exact Or.inr (new_of_fields_not_ok (by simp [hf]))
  | panic p => exact Or.inr (new_of_fields_not_ok (by simp [hf]))
  | ok r =>
    have ok := fields_ok table {} r hf
    have hl' : r.locales = some listed := by rw [ok.locales.declared, hl]
    cases hd : r.default with
    | none => exact Or.inr (new_missing_default hf hd)
    | some d =>
      rw [new_of_fields hf hd hl']
      split; · exact Or.inr rfl
      split; · exact Or.inr rfl
      have : duplicates (defaultFirst d listed) = true := by
        rw [duplicates_eq_true_iff, nodup_defaultFirst]; exact hdup
      simp [this]

/-- **Duplicate namespaces are rejected** (`DuplicateNamespacesInConfig`, unless an earlier check failed) -/
theorem C19_duplicate_namespaces_rejected (table : List (Str × TV)) (nss : List Str)
    (hn : declared table "namespaces".toList asKeys = some nss) (hdup : ¬ nss.Nodup) :
    Config.new table = .err "DuplicateNamespacesInConfig" ∨
    Config.new table = .err "DuplicateLocalesInConfig" ∨ Config.new table = .err "ConfigFileDeser" := by
  cases hf : fields table {} with
  | err e => exact Or.inr (Or.inr (new_of_fields_not_ok (by simp [hf])))
  | panic p => exact Or.inr (Or.inr (new_of_fields_not_ok (by simp [hf])))
  | ok r =>
    have ok := fields_ok table {} r hf
    have hn' : r.namespaces = some nss := by rw [ok.namespaces.declared, hn]
    cases hd : r.default with
    | none => exact Or.inr (Or.inr (new_missing_default hf hd))
    | some d =>
      cases hl : r.locales with
      | none => exact Or.inr (Or.inr (new_missing_locales hf hl))
      | some listed =>
        rw [new_of_fields hf hd hl]
        split; · exact Or.inr (Or.inr rfl)
        split; · exact Or.inr (Or.inr rfl)
        split; · exact Or.inr (Or.inl rfl)
        have : duplicates nss = true := (duplicates_eq_true_iff _).mpr hdup
        simp [hn', this]

/-! ## `inherits` -/

/-- **An accepted `inherits` table is valid**: every locale it mentions (left or right) is one of the
configuration's locales, and the default locale does not inherit -/
theorem C19_inherits_valid (table : List (Str × TV)) (c : Config) (h : Config.new table = .ok c) :
    (∀ k v, (k, v) ∈ c.inherits → k ∈ c.locales ∧ v ∈ c.locales) ∧ (∀ v, (c.default, v) ∉ c.inherits) := by
  obtain ⟨r, d, listed, hf, hd, hl, h1, h2, h3, h4, rfl⟩ := new_ok h
  constructor
  · intro k v hm
    simp only at hm ⊢
    rw [List.any_eq_false] at h1
    have := h1 (k, v) hm
    simp only [Bool.or_eq_true, Bool.not_eq_true', not_or, Bool.not_eq_false, List.contains_eq_mem,
      decide_eq_true_eq, beq_iff_eq] at this
    rw [mem_defaultFirst, mem_defaultFirst]
    exact this
  · intro v hm
    simp only at hm
    have : AMap.contains d (r.inherits.getD []) = true := (contains_iff _ _).mpr ⟨v, hm⟩
    rw [this] at h2
    cases h2

/-- **An `inherits` entry naming an unknown locale is rejected**: a locale that is neither listed nor
the default, on either side of an entry -/
theorem C19_inherits_unknown_rejected (table : List (Str × TV)) (d : Str) (listed : List Str)
    (inh : List (Str × Str)) (k v : Str)
    (hd : declared table "default".toList asKey = some d)
    (hl : declared table "locales".toList asKeys = some listed)
    (hi : declared table "inherits".toList asKeyMap = some inh)
    (hm : (k, v) ∈ inh) (hu : (k ∉ listed ∧ k ≠ d) ∨ (v ∉ listed ∧ v ≠ d)) :
    Config.new table = .err "ConfigFileDeser" := by
  cases hf : fields table {} with
  | err e => exact new_of_fields_not_ok (by simp [hf])
  | panic p => exact new_of_fields_not_ok (by simp [hf])
  | ok r =>
    have ok := fields_ok table {} r hf
    have hd' : r.default = some d := by rw [ok.default.declared, hd]
    have hl' : r.locales = some listed := by rw [ok.locales.declared, hl]
    have hi' : r.inherits = some inh := by rw [ok.inherits.declared, hi]
    rw [new_of_fields hf hd' hl']
    have : (r.inherits.getD []).any (fun (k, v) => !(listed.contains k || k == d) || !(listed.contains v || v == d)) = true := by
      rw [hi', List.any_eq_true]
      refine ⟨(k, v), hm, ?_⟩
      rcases hu with ⟨a, b⟩ | ⟨a, b⟩ <;> simp [a, b]
    rw [if_pos this]

/-- **Making the default locale inherit is rejected** -/
theorem C19_default_inherits_rejected (table : List (Str × TV)) (d v : Str) (inh : List (Str × Str))
    (hd : declared table "default".toList asKey = some d)
    (hi : declared table "inherits".toList asKeyMap = some inh)
    (hm : (d, v) ∈ inh) :
    Config.new table = .err "ConfigFileDeser" := by
  cases hf : fields table {} with
  | err e => exact new_of_fields_not_ok (by simp [hf])
  | panic p => exact new_of_fields_not_ok (by simp [hf])
  | ok r =>
    have ok := fields_ok table {} r hf
    have hd' : r.default = some d := by rw [ok.default.declared, hd]
    have hi' : r.inherits = some inh := by rw [ok.inherits.declared, hi]
    cases hl : r.locales with
    | none => exact new_missing_locales hf hl
    | some listed =>
      rw [new_of_fields hf hd' hl]
      split; · rfl
      have : AMap.contains d (r.inherits.getD []) = true := by
        rw [hi']; exact (contains_iff _ _).mpr ⟨v, hm⟩
      rw [if_pos this]

/-! ## required and unknown fields -/

/-- **Missing required fields are rejected**: no (decodable) `default`, or no (decodable) `locales` -/
theorem C19_required_fields (table : List (Str × TV))
    (h : declared table "default".toList asKey = none ∨ declared table "locales".toList asKeys = none) :
    Config.new table = .err "ConfigFileDeser" := by
  cases hf : fields table {} with
  | err e => exact new_of_fields_not_ok (by simp [hf])
  | panic p => exact new_of_fields_not_ok (by simp [hf])
  | ok r =>
    have ok := fields_ok table {} r hf
    rcases h with h | h
    · exact new_missing_default hf (by rw [ok.default.declared, h])
    · exact new_missing_locales hf (by rw [ok.locales.declared, h])

/-- in particular when the table has no entry called `default`, or none called `locales` -/
theorem C19_required_fields_absent (table : List (Str × TV))
    (h : (∀ p ∈ table, p.1 ≠ "default".toList) ∨ (∀ p ∈ table, p.1 ≠ "locales".toList)) :
    Config.new table = .err "ConfigFileDeser" := by
  apply C19_required_fields
  have key : ∀ name, (∀ p ∈ table, p.1 ≠ name) → lookup table name = none := by
    intro name hn
    simp only [lookup, Option.map_eq_none_iff, List.find?_eq_none]
    intro p hp; simpa using hn p hp
  rcases h with h | h
  · left; unfold declared; rw [key _ h]
  · right; unfold declared; rw [key _ h]

theorem fields_insert_unknown (k : Str) (v : TV) (hk : k ∉ knownFields) (post : List (Str × TV)) :
    ∀ (pre : List (Str × TV)) (r : Raw), fields (pre ++ (k, v) :: post) r = fields (pre ++ post) r
  | [], r => fields_unknown k v post r hk
  | (k', v') :: pre, r => by
    have ih := fields_insert_unknown k v hk post pre
    simp only [List.cons_append]
    rw [fields_cons, fields_cons]
    simp only [ih]

/-- **Unknown fields are ignored**: an entry whose name is none of the six known field names,
anywhere in the table, does not change the outcome -/
theorem C19_unknown_ignored (pre post : List (Str × TV)) (k : Str) (v : TV) (hk : k ∉ knownFields) :
    Config.new (pre ++ (k, v) :: post) = Config.new (pre ++ post) := by
  simp only [Config.new, fields_insert_unknown k v hk post pre]

/-- `locales-dir` defaults to `locales` -/
theorem C19_locales_dir_default (table : List (Str × TV)) (c : Config) (h : Config.new table = .ok c) :
    c.localesDir = (declared table "locales-dir".toList asStr).getD "locales".toList := by
  obtain ⟨_, _, _, _, _, _, h6⟩ := C19_ok_fields table c h
  exact h6

/-! ## which files are read -/

theorem readSeq_append {α β} (read : α → Res β) (a b : List α) :
    readSeq read (a ++ b) =
      match readSeq read a with
      | .ok ys => mapRes (ys ++ ·) (readSeq read b)
      | .err e => .err e
      | .panic p => .panic p := by
  induction a with
  | nil => simp only [List.nil_append, readSeq]; cases readSeq read b <;> simp [mapRes]
  | cons x xs ih =>
    simp only [List.cons_append, readSeq, ih]
    cases read x with
    | err e => rfl
    | panic p => rfl
    | ok y =>
      simp only
      cases readSeq read xs with
      | err e => rfl
      | panic p => rfl
      | ok ys => simp only; cases readSeq read b <;> simp [mapRes]

theorem decodeNs_eq (inp : Pipeline.Input) (ns : Option Str) (ls : List Str) :
    Pipeline.decodeNs inp ns ls = readSeq (readOne inp) (ls.map (fun l => (ns, l))) := by
  induction ls with
  | nil => rfl
  | cons l ls ih =>
    simp only [Pipeline.decodeNs, List.map_cons, readSeq, readOne, ih]
    cases Pipeline.findFile inp.files ns l with
    | none => rfl
    | some j =>
      simp only
      cases Decode.locale l j with
      | err e => rfl
      | panic p => rfl
      | ok loc => simp only; cases readSeq (readOne inp) (ls.map (fun l => (ns, l))) <;> rfl

/-- **The files read.**  Loading opens, in this order and stopping at the first failure, exactly
the files of the pairs `pairsToRead`: for each namespace (in configuration order; one anonymous
namespace when there is none) each locale in the order of the accepted locale list (default
first).  The locales obtained, concatenated, are the results of these reads; a missing file gives
`LocaleFileNotFound` at the first missing pair. -/
theorem C19_files_read_order (inp : Pipeline.Input) (keys : List (Option Str)) :
    mapRes (fun nss => nss.flatMap (·.locales)) (Pipeline.decodeAll inp keys)
      = readSeq (readOne inp) (keys.flatMap (fun ns => inp.cfg.locales.map (fun l => (ns, l)))) := by
  induction keys with
  | nil => rfl
  | cons ns rest ih =>
    simp only [Pipeline.decodeAll, List.flatMap_cons, readSeq_append, decodeNs_eq]
    cases readSeq (readOne inp) (inp.cfg.locales.map (fun l => (ns, l))) with
    | err e => rfl
    | panic p => rfl
    | ok locs =>
      simp only
      rw [← ih]
      cases Pipeline.decodeAll inp rest <;> simp [mapRes]

/-- the namespaces come out in the order of the configuration, each with one locale per configured locale -/
theorem C19_files_read_shape (inp : Pipeline.Input) : ∀ (keys : List (Option Str)) (nss : List NS),
    Pipeline.decodeAll inp keys = .ok nss →
    nss.map (·.key) = keys ∧ ∀ ns ∈ nss, ns.locales.length = inp.cfg.locales.length := by
  have hlen : ∀ ns (ls : List Str) locs, Pipeline.decodeNs inp ns ls = .ok locs → locs.length = ls.length := by
    intro ns ls
    induction ls with
    | nil => intro locs h; simp only [Pipeline.decodeNs, Res.ok.injEq] at h; subst h; rfl
    | cons l ls ih =>
      intro locs h
      simp only [Pipeline.decodeNs] at h
      split at h; · cases h
      split at h; · cases h
      · cases h
      split at h
      · rename_i locs' hl; cases h; simp [ih _ hl]
      · cases h
      · cases h
  intro keys
  induction keys with
  | nil => intro nss h; simp only [Pipeline.decodeAll, Res.ok.injEq] at h; subst h; simp
  | cons k rest ih =>
    intro nss h
    simp only [Pipeline.decodeAll] at h
    split at h; · cases h
    · cases h
    rename_i locs hk
    split at h
    · rename_i nss' hr
      cases h
      have := ih nss' hr
      refine ⟨by simp [this.1], ?_⟩
      intro ns hm
      rcases List.mem_cons.mp hm with rfl | hm
      · exact hlen _ _ _ hk
      · exact this.2 ns hm
    · cases h
    · cases h

/-- the pairs `parse_locales_raw` iterates over are the pairs of the specification, whose paths
are `filesToRead`: `dir/locale/ns.ext` with namespaces, else `dir/locale.ext` -/
theorem C19_files_read (inp : Pipeline.Input) :
    mapRes (fun nss => nss.flatMap (·.locales)) (Pipeline.decodeAll inp (nsKeys inp.cfg))
      = readSeq (readOne inp) (pairsToRead inp.cfg) := by
  rw [C19_files_read_order]
  congr 1
  unfold nsKeys pairsToRead
  cases inp.cfg.namespaces with
  | none => simp
  | some l => simp [List.flatMap_map]

/-! ## examples -/

private def s (x : String) : Str := x.toList
private def tbl1 : List (Str × TV) :=
  [(s "default", .str (s "en")), (s "locales", .arr [.str (s "fr")]),
   (s "inherits", .table [(s "fr", .str (s "en"))])]

/-- F12 (fixed): `default = "en"`, `locales = ["fr"]`, `inherits = { fr = "en" }` is accepted, with
    the default added in front -/
example : Config.new tbl1 = .ok ⟨s "en", [s "en", s "fr"], none, s "locales", [(s "fr", s "en")]⟩ := by rfl

/-- a listed default is swapped to the front; unknown fields are skipped; names are trimmed -/
example : Config.new [(s "foo", .other), (s "locales", .arr [.str (s "fr"), .str (s " en "), .str (s "de")]),
      (s "default", .str (s "en")), (s "namespaces", .arr [.str (s "common"), .str (s "home")]),
      (s "locales-dir", .str (s "i18n"))]
    = .ok ⟨s "en", [s "en", s "fr", s "de"], some [s "common", s "home"], s "i18n", []⟩ := by rfl

/-- an unlisted default is pushed and swapped with the first -/
example : Config.new [(s "default", .str (s "en")), (s "locales", .arr [.str (s "fr"), .str (s "de")])]
    = .ok ⟨s "en", [s "en", s "de", s "fr"], none, s "locales", []⟩ := by rfl

example : Config.new [(s "default", .str (s "en")), (s "locales", .arr [.str (s "fr"), .str (s "fr ")])]
    = .err "DuplicateLocalesInConfig" := by rfl
example : Config.new [(s "default", .str (s "en")), (s "locales", .arr [.str (s "en"), .str (s "fr"), .str (s "en")])]
    = .err "DuplicateLocalesInConfig" := by rfl
example : Config.new [(s "default", .str (s "en")), (s "locales", .arr [.str (s "fr")]),
      (s "namespaces", .arr [.str (s "a"), .str (s "a")])] = .err "DuplicateNamespacesInConfig" := by rfl
example : Config.new [(s "default", .str (s "en")), (s "locales", .arr [.str (s "fr")]),
      (s "inherits", .table [(s "fr", .str (s "de"))])] = .err "ConfigFileDeser" := by rfl
example : Config.new [(s "default", .str (s "en")), (s "locales", .arr [.str (s "fr")]),
      (s "inherits", .table [(s "en", .str (s "fr"))])] = .err "ConfigFileDeser" := by rfl
example : Config.new [(s "locales", .arr [.str (s "fr")])] = .err "ConfigFileDeser" := by rfl
example : Config.new [(s "default", .str (s "en"))] = .err "ConfigFileDeser" := by rfl

/-- the hypotheses of the rejection theorems are satisfiable -/
example : declared tbl1 (s "inherits") asKeyMap = some [(s "fr", s "en")] ∧
    declared tbl1 (s "locales") asKeys = some [s "fr"] ∧ declared tbl1 (s "default") asKey = some (s "en") := by
  refine ⟨by rfl, by rfl, by rfl⟩

example : filesToRead ⟨s "en", [s "en", s "fr"], some [s "common", s "home"], s "locales", []⟩ [s "json"]
    = [[s "locales/en/common.json"], [s "locales/fr/common.json"], [s "locales/en/home.json"], [s "locales/fr/home.json"]] := by
  decide
example : filesToRead ⟨s "en", [s "en", s "fr"], none, s "i18n", []⟩ [s "yaml", s "yml"]
    = [[s "i18n/en.yaml", s "i18n/en.yml"], [s "i18n/fr.yaml", s "i18n/fr.yml"]] := by
  decide

end I18nVerif.Config
