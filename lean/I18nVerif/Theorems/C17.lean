import I18nVerif.Proofs.Escape
import I18nVerif.Spec.Escape
/-!
# C17 — Server-embedded translations survive embedding into the page

Model: `I18nVerif.Escape.{register, registered, toArray}` (`RegisterCtx::{register, to_array}` and
`push_js_str` in `leptos_i18n/src/fetch_translations.rs`, `dynamic_load` + `ssr`, after the fix of F16).
Specification: `Spec.jsDecodeEmbedded` (a strict reader of the script, written from the grammar),
`Spec.scriptSafe` (HTML embedding) and `Spec.embedOk` (C17 as one executable predicate).

All theorems quantify over *every* list of units, *every* number of strings per unit and *every*
string of Unicode scalar values; no bound.  The only hypothesis, `UnitNamesOk`, is about the two
*names* `to_array` pushes unescaped — `Locale::as_str()` (a language identifier) and
`TranslationUnitId::to_str()` (a namespace name, i.e. a Rust identifier): they contain no `"`, `\`, `<`,
control character, U+2028 or U+2029.  Nothing is assumed about the translation strings.
-/
namespace I18nVerif.Escape

/-- **The embedded script decodes to exactly the entries of the map**, in the order the map was
    iterated: valid script, every unit with exactly its strings, in order, nothing else. -/
theorem C17_embed_decode (units : List TUnit) (hn : ∀ u ∈ units, UnitNamesOk u) :
    Spec.jsDecodeEmbedded (toArray units) = some units :=
  jsDecode_toArray units hn

/-- **No `<` occurs in the script** … -/
theorem C17_embed_no_lt (units : List TUnit) (hn : ∀ u ∈ units, UnitNamesOk u) :
    '<' ∉ toArray units :=
  lt_not_mem_toArray units hn

/-- … hence neither `</script` (in any letter case) nor `<!--`: the HTML tokenizer hands the script
    text to the JavaScript engine exactly as `to_array` wrote it. -/
theorem C17_embed_script_safe (units : List TUnit) (hn : ∀ u ∈ units, UnitNamesOk u) :
    Spec.scriptSafe (toArray units) = true :=
  scriptSafe_of_no_lt _ (C17_embed_no_lt units hn)

/-- **The registered set is the set of units touched**, for any sequence of `register` calls
    (repetitions, any order): no key twice, every touched unit present with its strings, nothing else.
    `Consistent`: a unit type has one constant string table, so equal keys carry equal strings. -/
theorem C17_register_exact (hist : List TUnit) (hc : Consistent hist) :
    DistinctKeys (registered hist) ∧ ∀ u, u ∈ registered hist ↔ u ∈ hist :=
  registered_spec hist hc

/-- the registered set does not depend on the order or multiplicity of the registrations -/
theorem C17_register_order_insensitive (h1 h2 : List TUnit) (hc1 : Consistent h1) (hc2 : Consistent h2)
    (hs : ∀ u, u ∈ h1 ↔ u ∈ h2) : ∀ u, u ∈ registered h1 ↔ u ∈ registered h2 := by
  intro u
  rw [(C17_register_exact h1 hc1).2, (C17_register_exact h2 hc2).2, hs]

/-- a unit whose key was never touched is not in the map -/
theorem C17_register_untouched (hist : List TUnit) (hc : Consistent hist) (u : TUnit)
    (h : ∀ v ∈ hist, v.sameKey u = false) : ∀ w ∈ registered hist, w.sameKey u = false :=
  fun w hw => h w (((C17_register_exact hist hc).2 w).mp hw)

/-- without a context (`use_context` finds none) registering does nothing, however often -/
theorem C17_register_no_context (hist : List TUnit) : hist.foldl register none = none := by
  induction hist with
  | nil => rfl
  | cons u us ih => simpa [List.foldl_cons, register] using ih

/-- with a context, a render's registrations build exactly `registered` -/
theorem C17_register_with_context (hist : List TUnit) :
    hist.foldl register (some []) = some (registered hist) := by
  have : ∀ m, hist.foldl register (some m) = some (hist.foldl (fun m u => mapInsert u m) m) := by
    induction hist with
    | nil => intro m; rfl
    | cons u us ih => intro m; simp only [List.foldl_cons, register]; exact ih _
  exact this []

/-- **C17, as one statement.**  A render touches the units `hist` (any order, any repetitions); the
    `HashMap` is iterated in *some* order (`entries` is a permutation of the map); then the script
    `to_array` produces satisfies the specification `Spec.embedOk` for that render: it survives HTML
    embedding, is a valid script, and its value lists, once each, exactly the touched units with exactly
    their strings. -/
theorem C17_embed_ok (hist entries : List TUnit) (hc : Consistent hist)
    (hn : ∀ u ∈ hist, UnitNamesOk u) (hp : entries.Perm (registered hist)) :
    Spec.embedOk (toArray entries) hist = true := by
  obtain ⟨hd, hm⟩ := C17_register_exact hist hc
  have hmem : ∀ u, u ∈ entries ↔ u ∈ hist := fun u => (hp.mem_iff).trans (hm u)
  have hn' : ∀ u ∈ entries, UnitNamesOk u := fun u hu => hn u ((hmem u).mp hu)
  have hd' : DistinctKeys entries := by
    unfold DistinctKeys at hd ⊢
    refine (List.Perm.pairwise_iff ?_ hp).mpr hd
    intro a b hab
    cases h : b.sameKey a with
    | false => rfl
    | true => rw [sameKey_symm h] at hab; exact absurd hab (by decide)
  unfold Spec.embedOk
  rw [C17_embed_script_safe entries hn', C17_embed_decode entries hn']
  simp only [Bool.true_and, Bool.and_eq_true]
  exact ⟨⟨(keysDistinct_iff entries).mpr hd', (subsetOf_iff _ _).mpr (fun u hu => (hmem u).mp hu)⟩,
    (subsetOf_iff _ _).mpr (fun u hu => (hmem u).mpr hu)⟩

/-! ### Non-vacuity and the regression witnesses (F16) -/

private def uEn : TUnit := ⟨['e', 'n'], some ['c', 'o', 'm', 'm', 'o', 'n'],
  [['<', '/', 's', 'c', 'r', 'i', 'p', 't', '>'], ['"'], ['\\', '\n', Char.ofNat 0x2028, Char.ofNat 0x1F600]]⟩
private def uPt : TUnit := ⟨['p', 't', '-', 'B', 'R'], none, [['o', 'l', 'á'], []]⟩
private def uFr : TUnit := ⟨['f', 'r'], some ['h', 'o', 'm', 'e'], [['<', '!', '-', '-']]⟩

/-- the hypotheses are satisfiable by real names, and by a history with repetitions -/
example : UnitNamesOk uEn ∧ UnitNamesOk uPt ∧ UnitNamesOk uFr := by
  refine ⟨⟨?_, ?_⟩, ⟨?_, ?_⟩, ⟨?_, ?_⟩⟩ <;> simp [NameOk, uEn, uPt, uFr] <;> decide
example : Consistent [uEn, uPt, uEn, uPt] := by
  intro a ha b hb; revert a b; decide
example : registered [uEn, uPt, uEn, uPt] = [uEn, uPt] := by decide
example : Spec.embedOk (toArray [uPt, uEn]) [uEn, uPt, uEn, uPt] = true := by decide +kernel
/-- a unit the render did not use makes the predicate fail: `embedOk` is not vacuous -/
example : Spec.embedOk (toArray [uPt, uEn, uFr]) [uEn, uPt] = false := by decide +kernel
example : Spec.embedOk (toArray [uPt]) [uEn, uPt] = false := by decide +kernel

/-- what `to_array` now writes for `</script>`: `\u003C/script>` -/
example : toArray [⟨['e', 'n'], none, [['<', '/', 's', 'c', 'r', 'i', 'p', 't', '>']]⟩]
    = "window.__LEPTOS_I18N_TRANSLATIONS = [{\"locale\":\"en\",\"id\":null,\"values\":[\"\\u003C/script>\"]}];".toList := by
  decide +kernel

/-- F16 (fixed): the raw push let `</script>` end the script element … -/
example : Spec.scriptSafe (oldToArray [⟨['e', 'n'], none, [['<', '/', 's', 'c', 'r', 'i', 'p', 't', '>']]⟩]) = false := by
  decide +kernel
/-- … a quote end the string literal (the script is a syntax error) … -/
example : Spec.jsDecodeEmbedded (oldToArray [⟨['e', 'n'], none, [['"']]⟩]) = none := by decide +kernel
/-- … a backslash swallow the closing quote, a newline break the literal … -/
example : Spec.jsDecodeEmbedded (oldToArray [⟨['e', 'n'], none, [['\\']]⟩]) = none := by decide +kernel
example : Spec.jsDecodeEmbedded (oldToArray [⟨['e', 'n'], none, [['\n']]⟩]) = none := by decide +kernel
/-- … and `\u0041`-looking text silently decode to something else (`A`) -/
example : Spec.jsDecodeEmbedded (oldToArray [⟨['e', 'n'], none, [['\\', 'u', '0', '0', '4', '1']]⟩])
    = some [⟨['e', 'n'], none, [['A']]⟩] := by decide +kernel
example : Spec.embedOk (oldToArray [⟨['e', 'n'], none, [['\\', 'u', '0', '0', '4', '1']]⟩])
    [⟨['e', 'n'], none, [['\\', 'u', '0', '0', '4', '1']]⟩] = false := by decide +kernel
/-- the old output for plain text was fine (the reader is not trivially rejecting) -/
example : Spec.embedOk (oldToArray [uPt]) [uPt] = true := by decide +kernel

end I18nVerif.Escape
