import I18nVerif.Proofs.Resolve
import I18nVerif.Theorems.C12
/-!
# C15 — Initial locale resolution follows the documented precedence

Model: `I18nVerif.Model.Resolve` (`fetch_locale.rs`, `context.rs`, `locale.rs`, the generated `FromStr`).
Spec: `I18nVerif.Spec.Resolve` (the precedence as a `match`).

All theorems hold for every configuration (`cfg`: any number of locales, any names), every ICU parser
(`parse`), every cookie value, every list of accepted languages, every parent / initial locale, every
combination of the `cookie` feature / `enable_cookie` / cookie-name flags, and for the three build targets.
With `hydrate` the `<html lang>` attribute written by the server comes first (by design: the client must
agree with the server); the precedence theorems therefore assume it is absent for that target, and
`C15_hydrate_html_lang_first` states what happens when it is present.

These theorems are thin: the model is a handful of `Option` combinators, so the statements mostly certify
that the combinators are composed in the documented order, for all inputs.  What the *real* code does
(leptos-use's cookie jar and header reader, `Memo` first-run semantics, `RwSignal::new(memo.get_untracked())`)
is tied to this model by the correspondence check only.
-/
namespace I18nVerif.Resolve
open I18nVerif.Langid

/-- the cookie this configuration names, decoded as the specification says -/
abbrev specCookie (cfg : Cfg) (cookieInUse : Bool) (req : Request) : Option Loc :=
  Spec.cookieLocale (cfg.names.zip cfg.avail) cookieInUse req.jarValue

/-- **Main context**: valid cookie, else the best match for the accepted languages, else the default.
    Holds for `init_i18n_context_with_options` and for `resolve_locale_with_options`. -/
theorem C15_root_precedence (cfg : Cfg) (parse : Str → Option LangId) (target : Target)
    (featureCookie enableCookie : Bool) (req : Request)
    (hhtml : target = .hydrate → req.htmlLang = none) :
    initRoot cfg parse target featureCookie enableCookie req
        = Spec.rootLocale (specCookie cfg (featureCookie && enableCookie) req)
            (bestMatch cfg parse req.accepted) cfg.dflt
    ∧ resolveWithOptions cfg parse target featureCookie enableCookie req
        = Spec.rootLocale (specCookie cfg (featureCookie && enableCookie) req)
            (bestMatch cfg parse req.accepted) cfg.dflt := by
  simp only [initRoot, resolveWithOptions, langCookie_eq_spec, findLocale_eq, specCookie]
  generalize Spec.cookieLocale (cfg.names.zip cfg.avail) (featureCookie && enableCookie) req.jarValue = ck
  generalize bestMatch cfg parse req.accepted = bm
  cases target
  · cases ck <;> cases bm <;> simp [fetchLocale, resolveLocale, signalMaybeOnceThen, signalOnceThen, Spec.rootLocale]
  · rw [hhtml rfl]
    cases ck <;> cases bm <;> simp [fetchLocale, resolveLocale, signalMaybeOnceThen, signalOnceThen, Spec.rootLocale]
  · cases ck <;> cases bm <;> simp [fetchLocale, resolveLocale, signalMaybeOnceThen, signalOnceThen, Spec.rootLocale]

/-- **Sub-context** (first run of its memo, i.e. the locale it is created with):
    cookie, explicit initial locale, parent context's locale, then the same resolution. -/
theorem C15_sub_precedence (cfg : Cfg) (parse : Str → Option LangId) (target : Target)
    (featureCookie hasCookieName : Bool) (req : Request) (initial parentLocale : Option Loc)
    (hhtml : target = .hydrate → req.htmlLang = none) :
    initSub cfg parse target featureCookie hasCookieName req initial parentLocale
      = Spec.subLocale (specCookie cfg (hasCookieName && featureCookie) req) initial parentLocale
          (bestMatch cfg parse req.accepted) cfg.dflt := by
  simp only [initSub, subLangCookie_eq_spec, findLocale_eq, specCookie]
  generalize Spec.cookieLocale (cfg.names.zip cfg.avail) (hasCookieName && featureCookie) req.jarValue = ck
  generalize bestMatch cfg parse req.accepted = bm
  have hf : fetchLocale target req.htmlLang none (Spec.rootLocale none bm cfg.dflt) true
      = Spec.rootLocale none bm cfg.dflt := by
    cases target
    · simp [fetchLocale, signalMaybeOnceThen]
    · simp [fetchLocale, signalMaybeOnceThen, hhtml rfl]
    · simp [fetchLocale, signalMaybeOnceThen]
  rw [hf]
  cases ck <;> cases initial <;> cases parentLocale <;>
    simp [subMemo, signalMaybeOnceThen, signalOnceThen, Spec.subLocale]

/-- **An invalid cookie value is ignored**: a request whose cookie value is not a configured locale name
    (after removing surrounding white space) resolves exactly like the same request without the cookie —
    for a main context, for `resolve_locale_with_options`, and for a sub-context. -/
theorem C15_invalid_cookie_ignored (cfg : Cfg) (parse : Str → Option LangId) (target : Target)
    (featureCookie cookieFlag : Bool) (req : Request) (v : Str) (initial parentLocale : Option Loc)
    (hinv : ∀ n ∈ cfg.names, n ≠ Spec.strip v) :
    initRoot cfg parse target featureCookie cookieFlag { req with jarValue := some v }
        = initRoot cfg parse target featureCookie cookieFlag { req with jarValue := none }
    ∧ resolveWithOptions cfg parse target featureCookie cookieFlag { req with jarValue := some v }
        = resolveWithOptions cfg parse target featureCookie cookieFlag { req with jarValue := none }
    ∧ initSub cfg parse target featureCookie cookieFlag { req with jarValue := some v } initial parentLocale
        = initSub cfg parse target featureCookie cookieFlag { req with jarValue := none } initial parentLocale := by
  have hnamed : ∀ nl ∈ cfg.names.zip cfg.avail, nl.1 ≠ Spec.strip v := by
    intro nl hnl
    obtain ⟨n, l⟩ := nl
    exact hinv n (List.of_mem_zip hnl).1
  have h1 : ∀ b, Spec.cookieLocale (cfg.names.zip cfg.avail) b (some v)
      = Spec.cookieLocale (cfg.names.zip cfg.avail) b none := by
    intro b
    rw [cookieLocale_invalid _ _ _ hnamed]
    cases b <;> rfl
  simp only [initRoot, resolveWithOptions, initSub, langCookie_eq_spec, subLangCookie_eq_spec, h1, and_self]

/-- "never trusted": whatever the cookie says, the locale a main context starts with is a configured one
    (a member of `get_all()`), or the default -/
theorem C15_root_result_configured (cfg : Cfg) (parse : Str → Option LangId) (target : Target)
    (featureCookie enableCookie : Bool) (req : Request)
    (hhtml : target = .hydrate → req.htmlLang = none) :
    initRoot cfg parse target featureCookie enableCookie req ∈ cfg.avail
      ∨ initRoot cfg parse target featureCookie enableCookie req = cfg.dflt := by
  rw [(C15_root_precedence cfg parse target featureCookie enableCookie req hhtml).1]
  cases hc : specCookie cfg (featureCookie && enableCookie) req with
  | some c =>
    left
    have := cookieLocale_mem hc
    simp only [List.mem_map] at this
    obtain ⟨⟨n, l⟩, hm, rfl⟩ := this
    simpa [Spec.rootLocale] using (List.of_mem_zip hm).2
  | none =>
    rw [← findLocale_eq]
    exact C12_result_supported _ _ _

/-- without a valid cookie the main context's locale is an acceptable answer of the negotiation in the sense
    of property C12's specification (first served request wins, exact before range, most specific) -/
theorem C15_negotiated_acceptable (cfg : Cfg) (parse : Str → Option LangId) (target : Target)
    (featureCookie enableCookie : Bool) (req : Request)
    (hhtml : target = .hydrate → req.htmlLang = none)
    (hno : specCookie cfg (featureCookie && enableCookie) req = none) :
    Langid.Spec.acceptable (lossyLangids parse req.accepted) cfg.avail cfg.dflt
      (initRoot cfg parse target featureCookie enableCookie req) = true := by
  rw [(C15_root_precedence cfg parse target featureCookie enableCookie req hhtml).1, hno, ← findLocale_eq]
  exact C12_find_match_acceptable _ _ _

/-- with `hydrate`, the `<html lang>` attribute chosen by the server wins over everything (main context) -/
theorem C15_hydrate_html_lang_first (cfg : Cfg) (parse : Str → Option LangId)
    (featureCookie enableCookie : Bool) (req : Request) (l : Loc) (h : req.htmlLang = some l) :
    initRoot cfg parse .hydrate featureCookie enableCookie req = l
    ∧ resolveWithOptions cfg parse .hydrate featureCookie enableCookie req = l := by
  simp [initRoot, resolveWithOptions, fetchLocale, resolveLocale, signalMaybeOnceThen, signalOnceThen, h]

/-- when the caller's `initial_locale` signal changes later, the sub-context memo re-runs and the signal's
    value wins (the exception named in C16: "unless the caller wired an initial-locale signal") -/
theorem C15_sub_rerun_initial_first (cfg : Cfg) (parse : Str → Option LangId) (target : Target)
    (featureCookie hasCookieName : Bool) (req : Request) (i : Loc) (parentLocale : Option Loc) (inner : Bool) :
    subRerun cfg parse target featureCookie hasCookieName req (some i) parentLocale inner = i := by
  simp [subRerun, subMemo]

/-! ### Non-vacuity, concrete requests, and the regression witness (header entries after `", "`) -/

private def lEn : Loc := ⟨0, ⟨some 1, none, none, []⟩⟩
private def lEnUS : Loc := ⟨1, ⟨some 1, none, some 10, []⟩⟩
private def lFr : Loc := ⟨2, ⟨some 2, none, none, []⟩⟩
private def lDe : Loc := ⟨3, ⟨some 3, none, none, []⟩⟩
private def cfg0 : Cfg :=
  { names := [['e','n'], ['e','n','-','U','S'], ['f','r'], ['d','e']], avail := [lEn, lEnUS, lFr, lDe], dflt := lEn }
/-- a toy ICU: knows `fr`, `de`, `en`, `fr-FR`; anything else (in particular `" fr"`) is a syntax error -/
private def parse0 (s : Str) : Option LangId :=
  if s = ['f','r'] then some ⟨some 2, none, none, []⟩
  else if s = ['d','e'] then some ⟨some 3, none, none, []⟩
  else if s = ['e','n'] then some ⟨some 1, none, none, []⟩
  else if s = ['f','r','-','F','R'] then some ⟨some 2, none, some 11, []⟩
  else none
private def hdr (s : Str) : List Str := useLocalesSsr (some s)

-- `Cookie: i18n_pref_locale=de`, `Accept-Language: fr` → de
example : initRoot cfg0 parse0 .ssr true true { jarValue := some ['d','e'], accepted := hdr ['f','r'] } = lDe := by decide
-- same with cookies disabled → fr
example : initRoot cfg0 parse0 .ssr true false { jarValue := some ['d','e'], accepted := hdr ['f','r'] } = lFr := by decide
-- `DE` is not a configured name: ignored → fr;  ` de ` is (white space aside) → de
example : initRoot cfg0 parse0 .ssr true true { jarValue := some ['D','E'], accepted := hdr ['f','r'] } = lFr := by decide
example : initRoot cfg0 parse0 .ssr true true { jarValue := some [' ','d','e',' '], accepted := hdr ['f','r'] } = lDe := by decide
-- the hypothesis of `C15_invalid_cookie_ignored` is satisfiable (`dex`, a name plus one character)
example : ∀ n ∈ cfg0.names, n ≠ Spec.strip ['d','e','x'] := by decide
-- nothing matches → default
example : initRoot cfg0 parse0 .ssr true true { jarValue := none, accepted := hdr ['x','x'] } = lEn := by decide
-- sub-context: cookie > initial > parent > resolution
example : initSub cfg0 parse0 .ssr true true { jarValue := some ['d','e'], accepted := hdr ['f','r'] } (some lEnUS) (some lFr) = lDe := by decide
example : initSub cfg0 parse0 .ssr true true { jarValue := some ['d','e','x'], accepted := hdr ['f','r'] } (some lEnUS) (some lFr) = lEnUS := by decide
example : initSub cfg0 parse0 .ssr true false { jarValue := some ['d','e'], accepted := hdr ['d','e'] } none (some lFr) = lFr := by decide
example : initSub cfg0 parse0 .ssr true false { jarValue := some ['d','e'], accepted := hdr ['f','r'] } none none = lFr := by decide

/-- `Accept-Language: xx, fr`: leptos-use yields `["xx", " fr"]`; entries are trimmed before parsing → fr -/
example : hdr ['x','x',',',' ','f','r'] = [['x','x'], [' ','f','r']] := by decide
example : findLocale cfg0 parse0 (hdr ['x','x',',',' ','f','r']) = lFr := by decide
/-- fixed defect: parsing the entries as they come dropped every entry after a `", "` → default `en` -/
example : findLocaleNoTrim cfg0 parse0 (hdr ['x','x',',',' ','f','r']) = lEn := by decide
-- `fr-FR, en;q=0.5` → `["fr-FR", " en"]` → fr (range match on the first entry)
example : findLocale cfg0 parse0 (hdr ['f','r','-','F','R',',',' ','e','n',';','q','=','0','.','5']) = lFr := by decide

end I18nVerif.Resolve
