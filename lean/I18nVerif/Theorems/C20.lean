import I18nVerif.Spec.Datakey
import I18nVerif.Theorems.C08
/-!
# C20 — The build helper requests exactly the ICU data the translations use (model side)

Model: `I18nVerif.Model.Datakey` (`leptos_i18n_build/src/datakey.rs` `find_used_datakey`,
`lib.rs` `get_icu_keys_inner`, `get_locales`).  Specification: `Spec/Datakey.lean`.
-/
namespace I18nVerif.Datakey
open I18nVerif I18nVerif.Check I18nVerif.Datakey.Spec

/-! ### helper lemmas -/

theorem mem_insertOpt (o o' : Opt) (acc : List Opt) : o ∈ insertOpt o' acc ↔ o ∈ acc ∨ o = o' := by
  unfold insertOpt
  split
  · rename_i h
    have : o' ∈ acc := by simpa using h
    constructor
    · exact Or.inl
    · rintro (h | rfl)
      · exact h
      · exact this
  · simp

theorem nodup_insertOpt (o' : Opt) (acc : List Opt) (h : acc.Nodup) : (insertOpt o' acc).Nodup := by
  unfold insertOpt
  split
  · exact h
  · rename_i hc
    have : o' ∉ acc := by simpa using hc
    rw [List.nodup_append]
    exact ⟨h, by simp, by intro a ha b hb; simp at hb; subst hb; intro e; exact this (e ▸ ha)⟩

/-- membership in a fold whose step only ever adds elements described by `P` -/
theorem mem_foldl_iff {α β} (step : List β → α → List β) (P : α → β → Prop) (o : β)
    (hstep : ∀ a x, o ∈ step a x ↔ o ∈ a ∨ P x o) :
    ∀ (l : List α) (acc : List β), o ∈ l.foldl step acc ↔ o ∈ acc ∨ ∃ x ∈ l, P x o := by
  intro l
  induction l with
  | nil => intro acc; simp
  | cons x xs ih =>
    intro acc
    rw [List.foldl_cons, ih, hstep]
    constructor
    · rintro ((h | h) | ⟨y, hy, hp⟩)
      · exact Or.inl h
      · exact Or.inr ⟨x, by simp, h⟩
      · exact Or.inr ⟨y, by simp [hy], hp⟩
    · rintro (h | ⟨y, hy, hp⟩)
      · exact Or.inl (Or.inl h)
      · rcases List.mem_cons.mp hy with rfl | hy
        · exact Or.inl (Or.inr hp)
        · exact Or.inr ⟨y, hy, hp⟩

theorem mem_countStep (o : Opt) (acc : List Opt) (c : Option CountTy) :
    o ∈ countStep acc c ↔ o ∈ acc ∨ (o = .plurals ∧ c = some .plural) := by
  cases c with
  | none => simp [countStep]
  | some c => cases c <;> simp [countStep, mem_insertOpt]

theorem mem_fmtStep (o : Opt) (acc : List Opt) (f : Fmt) :
    o ∈ fmtStep acc f ↔ o ∈ acc ∨ fmtOpt f = some o := by
  unfold fmtStep
  cases hf : fmtOpt f with
  | none => simp
  | some o' =>
    simp only [mem_insertOpt, Option.some.injEq]
    constructor
    · rintro (h | h)
      · exact Or.inl h
      · exact Or.inr h.symm
    · rintro (h | h)
      · exact Or.inl h
      · exact Or.inr h.symm

theorem mem_varOpts (o : Opt) (acc : List Opt) (info : VarInfo) :
    o ∈ varOpts acc info ↔ o ∈ acc ∨ InfoUses info o := by
  unfold varOpts InfoUses
  rw [mem_foldl_iff fmtStep (fun f o => fmtOpt f = some o) o (fun a f => mem_fmtStep o a f),
    mem_countStep, or_assoc]

theorem mem_varsOpts (o : Opt) (acc : List Opt) (vars : List (Str × VarInfo)) :
    o ∈ varsOpts acc vars ↔ o ∈ acc ∨ ∃ p ∈ vars, InfoUses p.2 o := by
  unfold varsOpts
  exact mem_foldl_iff (fun a (p : Str × VarInfo) => varOpts a p.2) (fun p o => InfoUses p.2 o) o
    (fun a x => mem_varOpts o a x.2) vars acc

theorem nodup_varsOpts (acc : List Opt) (vars : List (Str × VarInfo)) (h : acc.Nodup) :
    (varsOpts acc vars).Nodup := by
  have hfold : ∀ (fs : List Fmt) (a : List Opt), a.Nodup → (fs.foldl fmtStep a).Nodup := by
    intro fs
    induction fs with
    | nil => intro a h; exact h
    | cons f fs ih =>
      intro a h
      rw [List.foldl_cons]
      apply ih
      unfold fmtStep
      cases fmtOpt f with
      | none => exact h
      | some o => exact nodup_insertOpt _ _ h
  have hvar : ∀ (info : VarInfo) (a : List Opt), a.Nodup → (varOpts a info).Nodup := by
    intro info a h
    unfold varOpts
    apply hfold
    cases hc : info.count with
    | none => exact h
    | some c => cases c <;> simp [countStep, nodup_insertOpt, h]
  unfold varsOpts
  induction vars generalizing acc with
  | nil => exact h
  | cons p ps ih => rw [List.foldl_cons]; exact ih _ (hvar _ _ h)

mutual
theorem mem_usedLV (o : Opt) : ∀ (lv : LV) (acc : List Opt),
    o ∈ usedLV lv acc ↔ o ∈ acc ∨ ∃ k ∈ leavesLV lv, ∃ p ∈ k.vars, InfoUses p.2 o
  | .subkeys _ keys, acc => by
    simp only [usedLV, leavesLV]
    exact mem_usedBKI o keys acc
  | .value (.lit _) _, acc => by simp [usedLV, leavesLV]
  | .value (.interpol k) _, acc => by
    simp only [usedLV, leavesLV]
    rw [mem_varsOpts]
    simp
theorem mem_usedBKI (o : Opt) : ∀ (b : List (Str × LV)) (acc : List Opt),
    o ∈ usedBKI b acc ↔ o ∈ acc ∨ ∃ k ∈ leaves b, ∃ p ∈ k.vars, InfoUses p.2 o
  | [], acc => by simp [usedBKI, leaves]
  | (_, lv) :: rest, acc => by
    simp only [usedBKI, leaves]
    rw [mem_usedBKI o rest, mem_usedLV o lv]
    simp only [List.mem_append]
    constructor
    · rintro ((h | ⟨k, hk, hp⟩) | ⟨k, hk, hp⟩)
      · exact Or.inl h
      · exact Or.inr ⟨k, Or.inl hk, hp⟩
      · exact Or.inr ⟨k, Or.inr hk, hp⟩
    · rintro (h | ⟨k, hk | hk, hp⟩)
      · exact Or.inl (Or.inl h)
      · exact Or.inl (Or.inr ⟨k, hk, hp⟩)
      · exact Or.inr ⟨k, hk, hp⟩
end

/-! ### the options derived from builder keys -/

/-- **Exactness of `find_used_datakey`**: an option is in the derived set iff some variable of
some interpolated key — at any subkey depth — asks for it -/
theorem C20_options_iff (b : BKI) (o : Opt) : o ∈ usedOptions b ↔ KeysUse b o := by
  unfold usedOptions KeysUse
  rw [mem_usedBKI]; simp

/-- **Plural data iff some key has a plural count**, at any subkey depth -/
theorem C20_plurals_iff (b : BKI) :
    Opt.plurals ∈ usedOptions b ↔ ∃ k ∈ leaves b, ∃ p ∈ k.vars, p.2.count = some .plural := by
  rw [C20_options_iff]
  unfold KeysUse InfoUses
  constructor
  · rintro ⟨k, hk, p, hp, h⟩
    refine ⟨k, hk, p, hp, ?_⟩
    rcases h with ⟨_, h⟩ | ⟨f, _, hf⟩
    · exact h
    · cases f <;> simp [fmtOpt] at hf
  · rintro ⟨k, hk, p, hp, h⟩
    exact ⟨k, hk, p, hp, Or.inl ⟨rfl, h⟩⟩

/-- **Each formatter family's data iff that formatter is used** by a variable of some key:
`number` ↦ `FormatNums`; `date`, `time`, `datetime` ↦ `FormatDateTime`; `list` ↦ `FormatList`;
`currency` ↦ `FormatCurrency`; the `None` formatter asks for nothing -/
theorem C20_formatter_iff (b : BKI) (o : Opt) (ho : o ≠ .plurals) :
    o ∈ usedOptions b ↔ ∃ k ∈ leaves b, ∃ p ∈ k.vars, ∃ f ∈ p.2.fmts, fmtOpt f = some o := by
  rw [C20_options_iff]
  unfold KeysUse InfoUses
  constructor
  · rintro ⟨k, hk, p, hp, h⟩
    refine ⟨k, hk, p, hp, ?_⟩
    rcases h with ⟨h, _⟩ | h
    · exact absurd h ho
    · exact h
  · rintro ⟨k, hk, p, hp, h⟩
    exact ⟨k, hk, p, hp, Or.inr h⟩

/-- the formatter families, spelled out -/
theorem C20_fmtOpt_families (f : Fmt) :
    (fmtOpt f = some .formatNums ↔ ∃ g, f = .number g) ∧
    (fmtOpt f = some .formatDateTime ↔ (∃ d, f = .date d) ∨ (∃ t, f = .time t) ∨ ∃ d t, f = .dateTime d t) ∧
    (fmtOpt f = some .formatList ↔ ∃ t s, f = .list t s) ∧
    (fmtOpt f = some .formatCurrency ↔ ∃ w c, f = .currency w c) ∧
    (fmtOpt f = none ↔ f = .none) ∧ fmtOpt f ≠ some .plurals := by
  cases f <;> simp [fmtOpt]

mutual
theorem nodup_usedLV : ∀ (lv : LV) (acc : List Opt), acc.Nodup → (usedLV lv acc).Nodup
  | .subkeys _ keys, acc, h => by simp only [usedLV]; exact nodup_usedBKI keys acc h
  | .value (.lit _) _, acc, h => by simpa [usedLV] using h
  | .value (.interpol k) _, acc, h => by simp only [usedLV]; exact nodup_varsOpts _ _ h
theorem nodup_usedBKI : ∀ (b : List (Str × LV)) (acc : List Opt), acc.Nodup → (usedBKI b acc).Nodup
  | [], acc, h => by simpa [usedBKI] using h
  | (_, lv) :: rest, acc, h => by
    simp only [usedBKI]
    exact nodup_usedBKI rest _ (nodup_usedLV lv acc h)
end

/-- the derived set is a set: no option twice -/
theorem C20_options_nodup (b : BKI) : (usedOptions b).Nodup :=
  nodup_usedBKI b [] List.nodup_nil

/-- **All namespaces.**  `get_icu_keys` walks the builder keys of every namespace: an option is
requested iff the keys of some namespace use it -/
theorem C20_icu_options_iff (out : Pipeline.Output) (o : Opt) :
    o ∈ icuOptions out ↔ ∃ ns ∈ out.nss, KeysUse ns.keys o := by
  unfold icuOptions
  rw [mem_foldl_iff (fun acc (ns : Pipeline.NsOut) => usedBKI ns.keys acc) (fun ns o => KeysUse ns.keys o) o
    (fun a ns => by unfold KeysUse; exact mem_usedBKI o ns.keys a)]
  simp

/-! ### from the signatures back to the translations (uses C08) -/

open I18nVerif.Occ I18nVerif.Keys in
/-- **One key, all locales.**  Take any key: the default locale's value `v0` creates it, the other
locales' values are merged into it (`Keys.mergeAll`).  Then the key's signature asks for option `o`
iff the value of *some locale* uses it: contains a plural node (for `Plurals`), or a variable with
a formatter of that family — at any depth inside the value (components, range branches, plural
forms, resolved foreign keys). -/
theorem C20_key_uses_iff (recMerge : MergeRec) (kp : KeyPath) (fuel f2 : Nat) (strs : List Str)
    (v0 : PV) (iol0 : IOL) (d : Defaults) (ls : List Contribution) (lv' : LV) (o : Opt)
    (h0 : getKeysInner fuel (indexStrings f2 v0 strs).1 (.lit .string) true = .ok iol0)
    (h : mergeAll recMerge kp ls (.value iol0 d) = .ok lv') :
    (∃ k ∈ leavesLV lv', ∃ p ∈ k.vars, InfoUses p.2 o) ↔ ∃ v ∈ v0 :: ls.map (·.cur), ValueUses v o := by
  obtain ⟨iol', d', rfl, a1, a2, a3, a4⟩ := C08_required_arguments recMerge kp fuel f2 strs v0 iol0 d ls lv' h0 h
  have hs := C08_signature_sorted recMerge kp fuel f2 strs v0 iol0 d h0 ls iol' d' h
  have hleaf : (∃ k ∈ leavesLV (.value iol' d'), ∃ p ∈ k.vars, InfoUses p.2 o) ↔
      ∃ p ∈ iol'.keysMut.vars, InfoUses p.2 o := by
    cases iol' with
    | interpol K => simp [leavesLV, IOL.keysMut]
    | lit t => simp [leavesLV, IOL.keysMut]
  rw [hleaf]
  constructor
  · rintro ⟨p, hp, hu⟩
    have hget := get?_of_mem_sorted _ hs p hp
    rcases hu with ⟨rfl, hc⟩ | ⟨f, hf, hfo⟩
    · have : countOf iol'.keysMut p.1 = some .plural := by simp [countOf, info, hget, hc]
      obtain ⟨v, hv, hm⟩ := (a4 _ _).mp this
      exact ⟨v, hv, Or.inl ⟨rfl, p.1, hm⟩⟩
    · have : f ∈ fmtsOf iol'.keysMut p.1 := by simp [fmtsOf, info, hget, hf]
      obtain ⟨v, hv, hm⟩ := (a3 _ _).mp this
      exact ⟨v, hv, Or.inr ⟨p.1, f, hm, hfo⟩⟩
  · rintro ⟨v, hv, hu⟩
    rcases hu with ⟨rfl, n, hm⟩ | ⟨n, f, hm, hfo⟩
    · have hc := (a4 n .plural).mpr ⟨v, hv, hm⟩
      simp only [countOf, info] at hc
      cases hg : AMap.get? n iol'.keysMut.vars with
      | none => rw [hg] at hc; cases hc
      | some i =>
        rw [hg] at hc
        exact ⟨(n, i), mem_of_get? hg, Or.inl ⟨rfl, hc⟩⟩
    · have hc := (a3 n f).mpr ⟨v, hv, hm⟩
      simp only [fmtsOf, info] at hc
      cases hg : AMap.get? n iol'.keysMut.vars with
      | none => rw [hg] at hc; simp at hc
      | some i =>
        rw [hg] at hc
        exact ⟨(n, i), mem_of_get? hg, Or.inr ⟨f, hc, hfo⟩⟩

/-- **The full statement of C20 on the pipeline** (not proved here: it needs the bookkeeping of
`make_builder_keys` / `Locale::merge` through every key and subkey level — which value of which
locale reaches which `merge` call — on top of `C20_icu_options_iff` (all keys, all depths, all
namespaces) and `C20_key_uses_iff` (one key, all locales)): the options requested are exactly
those used by the resolved value of some key of some locale of some namespace, at any depth. -/
def C20_full_statement : Prop :=
  ∀ (inp : Pipeline.Input) (w : World) (ws : List Warning) (out : Pipeline.Output),
    Pipeline.resolved inp = .ok (w, ws) → Pipeline.run inp = .ok out →
    ∀ o, o ∈ icuOptions out ↔
      ∃ ns ∈ w.nss, ∃ l ∈ ns.locales, ∃ v ∈ leafValuesK l.keys, ValueUses v o

/-- `get_locales` on the pipeline: the full statement (not proved: it needs "every stage keeps the
locales' names and order" through decoding, `merge_plurals`, foreign-key resolution and `check_locales`) -/
def C20_locales_full_statement : Prop :=
  ∀ (inp : Pipeline.Input) (out : Pipeline.Output), Pipeline.run inp = .ok out → out.nss ≠ [] →
    getLocales out = inp.cfg.locales

/-! ### the locales reported: the `check_locales` stage keeps names and order -/

theorem makeBuilderKeys_name (dflt : Str) (fuel : Nat) (path : KeyPath) (loc : Loc) (strs : List Str)
    (l' : Loc) (b : BKI) (s' : List Str) (h : makeBuilderKeys dflt fuel path loc strs = .ok (l', b, s')) :
    l'.name = loc.name := by
  cases fuel with
  | zero => simp [makeBuilderKeys] at h
  | succ fuel =>
    rw [makeBuilderKeys] at h
    split at h
    · simp only [Res.ok.injEq, Prod.mk.injEq] at h; rw [← h.1]; rfl
    · cases h
    · cases h

theorem mergeLocale_name (suppress : Bool) (top : Str) (dto : DefaultTo) (fuel : Nat) (path : KeyPath)
    (loc : Loc) (bki : BKI) (st : St) (l' : Loc) (b : BKI) (st' : St)
    (h : mergeLocale suppress top dto fuel path loc bki st = .ok (l', b, st')) : l'.name = loc.name := by
  cases fuel with
  | zero => simp [mergeLocale] at h
  | succ fuel =>
    rw [mergeLocale] at h
    split at h
    · cases h
    · cases h
    · simp only [Res.ok.injEq, Prod.mk.injEq] at h; rw [← h.1]; rfl

theorem checkGo_names (suppress : Bool) (fuel : Nat) (inherits : List (Str × Str)) (dl : Loc) (path : KeyPath) :
    ∀ (ls acc : List Loc) (bki : BKI) (ws : List Warning) (out : List Loc) (b : BKI) (ws' : List Warning),
    checkLocalesInner.go suppress fuel inherits dl path ls acc bki ws = .ok (out, b, ws') →
    out.map Loc.name = acc.map Loc.name ++ ls.map Loc.name := by
  intro ls
  induction ls with
  | nil =>
    intro acc bki ws out b ws' h
    simp only [checkLocalesInner.go, Res.ok.injEq, Prod.mk.injEq] at h
    simp [← h.1]
  | cons l rest ih =>
    intro acc bki ws out b ws' h
    rw [checkLocalesInner.go] at h
    split at h
    · cases h
    · cases h
    · rename_i l' bki' st hm
      have := ih _ _ _ _ _ _ h
      rw [this]
      have hn := mergeLocale_name _ _ _ _ _ _ _ _ _ _ _ hm
      simp [Loc.name] at hn ⊢
      exact hn

/-- **`check_locales` keeps the locales, by name and in order** (the part of "the locales reported
are exactly the configured ones" that lives in the checked stage; see `C20_locales_full_statement`) -/
theorem C20_locales_check_partial (suppress : Bool) (fuel : Nat) (inherits : List (Str × Str)) (ns : Option Str)
    (locs : List Loc) (ws : List Warning) (out : List Loc) (b : BKI) (ws' : List Warning)
    (h : checkLocalesInner suppress fuel inherits ns locs ws = .ok (out, b, ws')) :
    out.map Loc.name = locs.map Loc.name := by
  cases locs with
  | nil => simp [checkLocalesInner] at h
  | cons dl others =>
    simp only [checkLocalesInner] at h
    split at h
    · cases h
    · cases h
    · rename_i dl' bki strs hmk
      split at h
      · cases h
      · cases h
      · rename_i locales bki' ws'' hgo
        simp only [Res.ok.injEq, Prod.mk.injEq] at h
        rw [← h.1, checkGo_names _ _ _ _ _ _ _ _ _ _ _ _ hgo]
        have := makeBuilderKeys_name _ _ _ _ _ _ _ _ hmk
        simp [Loc.name] at this ⊢
        exact this

/-- hence `get_locales` of a checked namespace reports the names that went into the check -/
theorem C20_get_locales_partial (inp : Pipeline.Input) (ns : NS) (ws : List Warning)
    (locs : List Loc) (b : BKI) (ws' : List Warning) (rest : List Pipeline.NsOut) (nsd : Bool)
    (h : checkLocalesInner inp.suppress 1000000 inp.cfg.inherits ns.key ns.locales ws = .ok (locs, b, ws')) :
    getLocales ⟨inp.cfg.locales, nsd, ⟨ns.key, locs, b⟩ :: rest, ws'⟩ = ns.locales.map Loc.name := by
  simp only [getLocales]
  exact C20_locales_check_partial _ _ _ _ _ _ _ _ _ h

/-! ### examples -/

private def s (x : String) : Str := x.toList
private def ik (vars : List (Str × VarInfo)) : IOL := .interpol ⟨[], vars⟩
/-- a plural count two subkey levels down, a currency formatter at top level, a literal key -/
private def bki1 : BKI :=
  [(s "a", .value (.lit .string) ⟨s "en", []⟩),
   (s "b", .value (ik [(s "x", ⟨[.none, .currency .short (s "USD")], none⟩)]) ⟨s "en", []⟩),
   (s "c", .subkeys [] [(s "d", .subkeys [] [(s "e", .value (ik [(s "n", ⟨[.none], some .plural⟩),
      (s "m", ⟨[], some (.range .u8)⟩)]) ⟨s "en", []⟩)])])]
example : usedOptions bki1 = [.formatCurrency, .plurals] := by decide
example : usedOptions [(s "a", .value (ik [(s "x", ⟨[.date .long, .time .short, .dateTime .full .full, .list .and .wide,
    .number .auto], some (.range .i32)⟩)]) ⟨s "en", []⟩)] = [.formatDateTime, .formatList, .formatNums] := by decide
example : KeysUse bki1 .plurals :=
  ⟨_, by simp [bki1, leaves, leavesLV, ik]; exact Or.inr rfl, (s "n", ⟨[.none], some .plural⟩), by simp, Or.inl ⟨rfl, rfl⟩⟩

end I18nVerif.Datakey
