import I18nVerif.Spec.Datakey
import I18nVerif.Theorems.C08
/-!
# C20 — The build helper requests exactly the ICU data the translations use (model side)

Model: `I18nVerif.Model.Datakey` (`leptos_i18n_build/src/datakey.rs` `find_used_datakey`,
`lib.rs` `get_icu_keys_inner`, `get_locales`).  Specification: `Spec/Datakey.lean`.
-/
namespace I18nVerif.Datakey
open I18nVerif I18nVerif.Check I18nVerif.Datakey.Spec

/-! ### helper lemmas -/

theorem mem_insertOpt (o o' : Opt) (acc : List Opt) : o ∈ insertOpt o' acc ↔ o ∈ acc ∨ o = o' := by
  unfold insertOpt
  split
  · rename_i h
    have : o' ∈ acc := by simpa using h
    constructor
    · exact Or.inl
    · rintro (h | rfl)
      · exact h
      · exact this
  · simp

theorem nodup_insertOpt (o' : Opt) (acc : List Opt) (h : acc.Nodup) : (insertOpt o' acc).Nodup := by
  unfold insertOpt
  split
  · exact h
  · rename_i hc
    have : o' ∉ acc := by simpa using hc
    rw [List.nodup_append]
    exact ⟨h, by simp, by intro a ha b hb; simp at hb; subst hb; intro e; exact this (e ▸ ha)⟩

/-- membership in a fold whose step only ever adds elements described by `P` -/
theorem mem_foldl_iff {α β} (step : List β → α → List β) (P : α → β → Prop) (o : β)
    (hstep : ∀ a x, o ∈ step a x ↔ o ∈ a ∨ P x o) :
    ∀ (l : List α) (acc : List β), o ∈ l.foldl step acc ↔ o ∈ acc ∨ ∃ x ∈ l, P x o := by
  intro l
  induction l with
  | nil => intro acc; simp
  | cons x xs ih =>
    intro acc
    rw [List.foldl_cons, ih, hstep]
    constructor
    · rintro ((h | h) | ⟨y, hy, hp⟩)
      · exact Or.inl h
      · exact Or.inr ⟨x, by simp, h⟩
      · exact Or.inr ⟨y, by simp [hy], hp⟩
    · rintro (h | ⟨y, hy, hp⟩)
      · exact Or.inl (Or.inl h)
      · rcases List.mem_cons.mp hy with rfl | hy
        · exact Or.inl (Or.inr hp)
        · exact Or.inr ⟨y, hy, hp⟩

theorem mem_countStep (o : Opt) (acc : List Opt) (c : Option CountTy) :
    o ∈ countStep acc c ↔ o ∈ acc ∨ (o = .plurals ∧ c = some .plural) := by
  cases c with
  | none => simp [countStep]
  | some c => cases c <;> simp [countStep, mem_insertOpt]

theorem mem_fmtStep (o : Opt) (acc : List Opt) (f : Fmt) :
    o ∈ fmtStep acc f ↔ o ∈ acc ∨ fmtOpt f = some o := by
  unfold fmtStep
  cases hf : fmtOpt f with
  | none => simp
  | some o' =>
    simp only [mem_insertOpt, Option.some.injEq]
    constructor
    · rintro (h | h)
      · exact Or.inl h
      · exact Or.inr h.symm
    · rintro (h | h)
      · exact Or.inl h
      · exact Or.inr h.symm

theorem mem_varOpts (o : Opt) (acc : List Opt) (info : VarInfo) :
    o ∈ varOpts acc info ↔ o ∈ acc ∨ InfoUses info o := by
  unfold varOpts InfoUses
  rw [mem_foldl_iff fmtStep (fun f o => fmtOpt f = some o) o (fun a f => mem_fmtStep o a f),
    mem_countStep, or_assoc]

theorem mem_varsOpts (o : Opt) (acc : List Opt) (vars : List (Str × VarInfo)) :
    o ∈ varsOpts acc vars ↔ o ∈ acc ∨ ∃ p ∈ vars, InfoUses p.2 o := by
  unfold varsOpts
  exact mem_foldl_iff (fun a (p : Str × VarInfo) => varOpts a p.2) (fun p o => InfoUses p.2 o) o
    (fun a x => mem_varOpts o a x.2) vars acc

theorem nodup_varsOpts (acc : List Opt) (vars : List (Str × VarInfo)) (h : acc.Nodup) :
    (varsOpts acc vars).Nodup := by
  have hfold : ∀ (fs : List Fmt) (a : List Opt), a.Nodup → (fs.foldl fmtStep a).Nodup := by
    intro fs
    induction fs with
    | nil => intro a h; exact h
    | cons f fs ih =>
      intro a h
      rw [List.foldl_cons]
      apply ih
      unfold fmtStep
      cases fmtOpt f with
      | none => exact h
      | some o => exact nodup_insertOpt _ _ h
  have hvar : ∀ (info : VarInfo) (a : List Opt), a.Nodup → (varOpts a info).Nodup := by
    intro info a h
    unfold varOpts
    apply hfold
    cases hc : info.count with
    | none => exact h
    | some c => cases c <;> simp [countStep, nodup_insertOpt, h]
  unfold varsOpts
  induction vars generalizing acc with
  | nil => exact h
  | cons p ps ih => rw [List.foldl_cons]; exact ih _ (hvar _ _ h)

mutual
theorem mem_usedLV (o : Opt) : ∀ (lv : LV) (acc : List Opt),
    o ∈ usedLV lv acc ↔ o ∈ acc ∨ ∃ k ∈ leavesLV lv, ∃ p ∈ k.vars, InfoUses p.2 o
  | .subkeys _ keys, acc => by
    simp only [usedLV, leavesLV]
    exact mem_usedBKI o keys acc
  | .value (.lit _) _, acc => by simp [usedLV, leavesLV]
  | .value (.interpol k) _, acc => by
    simp only [usedLV, leavesLV]
    rw [mem_varsOpts]
    simp
theorem mem_usedBKI (o : Opt) : ∀ (b : List (Str × LV)) (acc : List Opt),
    o ∈ usedBKI b acc ↔ o ∈ acc ∨ ∃ k ∈ leaves b, ∃ p ∈ k.vars, InfoUses p.2 o
  | [], acc => by simp [usedBKI, leaves]
  | (_, lv) :: rest, acc => by
    simp only [usedBKI, leaves]
    rw [mem_usedBKI o rest, mem_usedLV o lv]
    simp only [List.mem_append]
    constructor
    · rintro ((h | ⟨k, hk, hp⟩) | ⟨k, hk, hp⟩)
      · exact Or.inl h
      · exact Or.inr ⟨k, Or.inl hk, hp⟩
      · exact Or.inr ⟨k, Or.inr hk, hp⟩
    · rintro (h | ⟨k, hk | hk, hp⟩)
      · exact Or.inl (Or.inl h)
      · exact Or.inl (Or.inr ⟨k, hk, hp⟩)
      · exact Or.inr ⟨k, hk, hp⟩
end

/-! ### the options derived from builder keys -/

/-- **Exactness of `find_used_datakey`**: an option is in the derived set iff some variable of
some interpolated key — at any subkey depth — asks for it -/
theorem C20_options_iff (b : BKI) (o : Opt) : o ∈ usedOptions b ↔ KeysUse b o := by
  unfold usedOptions KeysUse
  rw [mem_usedBKI]; simp

/-- **Plural data iff some key has a plural count**, at any subkey depth -/
theorem C20_plurals_iff (b : BKI) :
    Opt.plurals ∈ usedOptions b ↔ ∃ k ∈ leaves b, ∃ p ∈ k.vars, p.2.count = some .plural := by
  rw [C20_options_iff]
  unfold KeysUse InfoUses
  constructor
  · rintro ⟨k, hk, p, hp, h⟩
    refine ⟨k, hk, p, hp, ?_⟩
    rcases h with ⟨_, h⟩ | ⟨f, _, hf⟩
    · exact h
    · cases f <;> simp [fmtOpt] at hf
  · rintro ⟨k, hk, p, hp, h⟩
    exact ⟨k, hk, p, hp, Or.inl ⟨rfl, h⟩⟩

/-- **Each formatter family's data iff that formatter is used** by a variable of some key:
`number` ↦ `FormatNums`; `date`, `time`, `datetime` ↦ `FormatDateTime`; `list` ↦ `FormatList`;
`currency` ↦ `FormatCurrency`; the `None` formatter asks for nothing -/
theorem C20_formatter_iff (b : BKI) (o : Opt) (ho : o ≠ .plurals) :
    o ∈ usedOptions b ↔ ∃ k ∈ leaves b, ∃ p ∈ k.vars, ∃ f ∈ p.2.fmts, fmtOpt f = some o := by
  rw [C20_options_iff]
  unfold KeysUse InfoUses
  constructor
  · rintro ⟨k, hk, p, hp, h⟩
    refine ⟨k, hk, p, hp, ?_⟩
    rcases h with ⟨h, _⟩ | h
    · exact absurd h ho
    · exact h
  · rintro ⟨k, hk, p, hp, h⟩
    exact ⟨k, hk, p, hp, Or.inr h⟩

/-- the formatter families, spelled out -/
theorem C20_fmtOpt_families (f : Fmt) :
    (fmtOpt f = some .formatNums ↔ ∃ g, f = .number g) ∧
    (fmtOpt f = some .formatDateTime ↔ (∃ d, f = .date d) ∨ (∃ t, f = .time t) ∨ ∃ d t, f = .dateTime d t) ∧
    (fmtOpt f = some .formatList ↔ ∃ t s, f = .list t s) ∧
    (fmtOpt f = some .formatCurrency ↔ ∃ w c, f = .currency w c) ∧
    (fmtOpt f = none ↔ f = .none) ∧ fmtOpt f ≠ some .plurals := by
  cases f <;> simp [fmtOpt]

mutual
theorem nodup_usedLV : ∀ (lv : LV) (acc : List Opt), acc.Nodup → (usedLV lv acc).Nodup
  | .subkeys _ keys, acc, h => by simp only [usedLV]; exact nodup_usedBKI keys acc h
  | .value (.lit _) _, acc, h => by simpa [usedLV] using h
  | .value (.interpol k) _, acc, h => by simp only [usedLV]; exact nodup_varsOpts _ _ h
theorem nodup_usedBKI : ∀ (b : List (Str × LV)) (acc : List Opt), acc.Nodup → (usedBKI b acc).Nodup
  | [], acc, h => by simpa [usedBKI] using h
  | (_, lv) :: rest, acc, h => by
    simp only [usedBKI]
    exact nodup_usedBKI rest _ (nodup_usedLV lv acc h)
end

/-- the derived set is a set: no option twice -/
theorem C20_options_nodup (b : BKI) : (usedOptions b).Nodup :=
  nodup_usedBKI b [] List.nodup_nil

end I18nVerif.Datakey
