import I18nVerif.Proofs.Ranges
/-!
# C04 — Ranges render the first branch that contains the count

Model: `Model/Ranges.lean` (`Range::{new,flatten,do_match}`, `check_de_inner`), `Model/Decode.lean`
(`RangeSeed`, `RangeStructSeed`), `Model/Foreign.lean` (`populate_with_count_arg`, `find_value`),
denotation `Spec/Eval.lean`; specification `Spec/RangeSpec.lean`.
Every theorem quantifies over all ranges / strings / branch lists / counts (no bound on lengths).
Numbers are the exact decimals `Dec`; integer types carry their bounds `RangeTy.min/max`.
-/
namespace I18nVerif.Ranges
open I18nVerif Str RangeSpec Foreign Eval

/-! ## 1–2. What a `Range` means -/

/-- `do_match` is membership in the written specification: `a` is `n = a`, `a..b` is `a ≤ n < b`,
    `a..=b` is `a ≤ n ≤ b`, a missing bound is open, `|`/lists are "some alternative", `_`/`..` is
    everything — for every range (arbitrarily nested `multi`) and every count. -/
theorem C04_do_match_meaning (r : Range) (n : Dec) : doMatch r n = (specOf r).contains n :=
  doMatch_eq_contains r n

/-- the same, constructor by constructor (what `specOf`/`contains` unfold to) -/
theorem C04_do_match_cases (n v a b : Dec) (l : List Range) :
    doMatch (.exact v) n = Dec.eq v n ∧
    doMatch (.bounds (some a) (.incl b)) n = (Dec.le a n && Dec.le n b) ∧
    doMatch (.bounds (some a) (.excl b)) n = (Dec.le a n && Dec.lt n b) ∧
    doMatch (.bounds (some a) .unb) n = Dec.le a n ∧
    doMatch (.bounds none (.incl b)) n = Dec.le n b ∧
    doMatch (.bounds none (.excl b)) n = Dec.lt n b ∧
    doMatch (.bounds none .unb) n = true ∧
    doMatch (.multi l) n = l.any (fun r => doMatch r n) ∧
    doMatch .fallback n = true := by
  refine ⟨?_, ?_, ?_, ?_, ?_, ?_, ?_, ?_, ?_⟩ <;>
    simp [doMatch, dec_not_lt, doMatchAny_eq_any]

/-- `Dec.le`/`lt`/`eq` form a total order on exact decimals: `<` is the negation of the converse `≤`,
    `=` is `≤` both ways, `≤` is reflexive, total and transitive (all exponents, not only integers) -/
theorem C04_dec_order (a b c : Dec) :
    Dec.lt a b = (!Dec.le b a) ∧
    Dec.eq a b = (Dec.le a b && Dec.le b a) ∧
    Dec.le a a = true ∧
    (Dec.le a b = true ∨ Dec.le b a = true) ∧
    (Dec.le a b = true → Dec.le b c = true → Dec.le a c = true) :=
  ⟨dec_lt_eq_not_le a b, dec_eq_iff_le_le a b, dec_le_refl a, dec_le_total a b, dec_le_trans⟩

/-- on integers the comparisons are those of `Int` -/
theorem C04_dec_order_int (a b : Int) :
    Dec.le (Dec.ofInt a) (Dec.ofInt b) = decide (a ≤ b) ∧
    Dec.lt (Dec.ofInt a) (Dec.ofInt b) = decide (a < b) ∧
    Dec.eq (Dec.ofInt a) (Dec.ofInt b) = decide (a = b) :=
  ⟨dec_le_ofInt a b, dec_lt_ofInt a b, dec_eq_ofInt a b⟩

/-- an integer range, built from integer bounds -/
def intBounds (lo hi : Option Int) (inclusive : Bool) : Range :=
  .bounds (lo.map Dec.ofInt)
    (match hi with
      | none => .unb
      | some b => if inclusive then .incl (Dec.ofInt b) else .excl (Dec.ofInt b))

/-- on integers `do_match` is interval membership in `Int`, with no reference to `Dec`:
    `a..b` ↦ `a ≤ n ∧ n < b`, `a..=b` ↦ `a ≤ n ∧ n ≤ b`, open ends dropped -/
theorem C04_do_match_int (lo hi : Option Int) (inclusive : Bool) (n : Int) :
    doMatch (intBounds lo hi inclusive) (Dec.ofInt n) = intContains lo hi inclusive n := by
  cases lo <;> cases hi <;> cases inclusive <;>
    simp only [intBounds, doMatch, intContains, dec_le_ofInt, dec_lt_ofInt, Option.map,
      Bool.true_and, Bool.and_true, Bool.false_eq_true, if_false, if_true] <;>
    try (rw [Bool.eq_iff_iff]
         simp only [Bool.and_eq_true, Bool.not_eq_true', decide_eq_true_eq, decide_eq_false_iff_not]
         omega)

/-! ## 3. `Range::new` on integer types -/

/-- the exclusive end `b` of an integer range becomes the inclusive end `b - 1` exactly when
    `b - 1` is still a value of the type (`checked_sub(1)`), and `n < b ↔ n ≤ b - 1` on integers:
    the stored inclusive bound means exactly the written exclusive one -/
theorem C04_exclusive_end_int (t : RangeTy) (ht : t.isFloat = false) (v : Int) :
    (rangeEndBound t (Dec.ofInt v)
      = if t.min ≤ v - 1 then some (.incl (Dec.ofInt (v - 1))) else none) ∧
    ∀ n : Int, Dec.lt (Dec.ofInt n) (Dec.ofInt v) = Dec.le (Dec.ofInt n) (Dec.ofInt (v - 1)) := by
  refine ⟨rangeEndBound_int ht (Dec.ofInt v), fun n => ?_⟩
  rw [dec_lt_ofInt, dec_le_ofInt, Bool.eq_iff_iff]
  simp only [decide_eq_true_eq]
  omega

/-- floats keep the exclusive end as written -/
theorem C04_exclusive_end_float (t : RangeTy) (ht : t.isFloat = true) (v : Dec) :
    rangeEndBound t v = some (.excl v) := by simp [rangeEndBound, ht]

/-- `"a..b"` for an integer type, `a` and `b` numerals of the type with values `x`, `y`: the three
    outcomes.  `InvalidBoundEnd` exactly when `y` is the type's minimum, `ImpossibleRange` exactly
    when `y ≤ x` (empty range), otherwise the inclusive range `x ..= y-1`. -/
theorem C04_new_simple_int (t : RangeTy) (ht : t.isFloat = false) (a b : Str) (x y : Int)
    (ha : parseInt t a = some x) (hb : parseInt t b = some y) :
    newSimple t (a ++ "..".toList ++ b) =
      if y = t.min then .err "InvalidBoundEnd"
      else if y ≤ x then .err "ImpossibleRange"
      else .ok (.bounds (some (Dec.ofInt x)) (.incl (Dec.ofInt (y - 1)))) := by
  rw [List.append_assoc]; exact newSimple_int_excl t ht a b x y ha hb

/-- `"a..=b"`: `ImpossibleRange` exactly when `y < x`, otherwise `x ..= y` -/
theorem C04_new_simple_incl_int (t : RangeTy) (ht : t.isFloat = false) (a b : Str) (x y : Int)
    (ha : parseInt t a = some x) (hb : parseInt t b = some y) :
    newSimple t (a ++ "..=".toList ++ b) =
      if y < x then .err "ImpossibleRange"
      else .ok (.bounds (some (Dec.ofInt x)) (.incl (Dec.ofInt y))) := by
  rw [List.append_assoc]; exact newSimple_int_incl t ht a b x y ha hb

/-- the open-ended forms and a single numeral -/
theorem C04_new_simple_open_int (t : RangeTy) (ht : t.isFloat = false) (a : Str) (x : Int)
    (ha : parseInt t a = some x) :
    newSimple t (a ++ "..".toList) = .ok (.bounds (some (Dec.ofInt x)) .unb) ∧
    newSimple t ("..".toList ++ a) =
      (if x = t.min then .err "InvalidBoundEnd" else .ok (.bounds none (.incl (Dec.ofInt (x - 1))))) ∧
    newSimple t ("..=".toList ++ a) = .ok (.bounds none (.incl (Dec.ofInt x))) ∧
    newSimple t a = .ok (.exact (Dec.ofInt x)) :=
  ⟨newSimple_int_from t ht a x ha, newSimple_int_to_excl t ht a x ha,
   newSimple_int_to_incl t ht a x ha, newSimple_int_exact t ht a x ha⟩

/-- the meaning of the accepted `"a..b"` / `"a..=b"`: exactly `x ≤ n < y` / `x ≤ n ≤ y`, and the
    range is never empty (`x` itself is in it) -/
theorem C04_new_simple_int_meaning (t : RangeTy) (ht : t.isFloat = false) (a b : Str) (x y : Int)
    (ha : parseInt t a = some x) (hb : parseInt t b = some y) (r : Range) :
    (newSimple t (a ++ "..".toList ++ b) = .ok r →
      (∀ n : Int, doMatch r (Dec.ofInt n) = decide (x ≤ n ∧ n < y)) ∧ doMatch r (Dec.ofInt x) = true) ∧
    (newSimple t (a ++ "..=".toList ++ b) = .ok r →
      (∀ n : Int, doMatch r (Dec.ofInt n) = decide (x ≤ n ∧ n ≤ y)) ∧ doMatch r (Dec.ofInt x) = true) := by
  constructor
  · intro h
    rw [C04_new_simple_int t ht a b x y ha hb] at h
    by_cases h1 : y = t.min
    · simp [h1] at h
    · by_cases h2 : y ≤ x
      · simp [h1, h2] at h
      · simp only [h1, h2, if_false, Res.ok.injEq] at h
        subst h
        have hm : ∀ n : Int, doMatch (.bounds (some (Dec.ofInt x)) (.incl (Dec.ofInt (y - 1)))) (Dec.ofInt n)
            = decide (x ≤ n ∧ n < y) := by
          intro n
          rw [Bool.eq_iff_iff]
          simp only [doMatch, dec_not_lt, dec_le_ofInt, Bool.and_eq_true, decide_eq_true_eq]
          omega
        refine ⟨hm, ?_⟩
        rw [hm]; simp; omega
  · intro h
    rw [C04_new_simple_incl_int t ht a b x y ha hb] at h
    by_cases h2 : y < x
    · simp [h2] at h
    · simp only [h2, if_false, Res.ok.injEq] at h
      subst h
      have hm : ∀ n : Int, doMatch (.bounds (some (Dec.ofInt x)) (.incl (Dec.ofInt y))) (Dec.ofInt n)
          = decide (x ≤ n ∧ n ≤ y) := by
        intro n
        rw [Bool.eq_iff_iff]
        simp only [doMatch, dec_not_lt, dec_le_ofInt, Bool.and_eq_true, decide_eq_true_eq]
      refine ⟨hm, ?_⟩
      rw [hm]; simp; omega

/-- **a specification that parses is never empty**: every `Range` that `Range::new` returns — any
    type, floats included, any string (`|` lists, open ends, `_`) — contains some count -/
theorem C04_new_never_empty (t : RangeTy) (s : Str) (r : Range) (h : Ranges.new t s = .ok r) :
    ∃ n, doMatch r n = true := new_nonempty t s r h

/-- the shape of what the simple case returns: a single value, or bounds that passed the
    emptiness check (`end ≤ start` for an exclusive end, `end < start` for an inclusive one) -/
theorem C04_new_simple_shape (t : RangeTy) (s : Str) (r : Range) (h : newSimple t s = .ok r) :
    (∃ v, r = .exact v) ∨ ∃ lo b, r = .bounds lo b ∧ possible lo b := newSimple_ok_shape t s r h

/-- the split the theorems above rely on: when `.` does not occur before it, the first `..` is
    where `split_once("..")` cuts; with no `.` at all there is no cut -/
theorem C04_split_once_dotdot (a b : Str) (h : '.' ∉ a) :
    splitOnce "..".toList (a ++ "..".toList ++ b) = some (a, b) ∧
    splitOnce "..".toList a = none := by
  rw [List.append_assoc]
  exact ⟨splitOnce_append '.' ['.'] a b h, splitOnce_none '.' ['.'] a h⟩

/-- all types (floats included): for a string whose first `..` separates two accepted numerals
    `x`, `y`, the result of `Range::new`'s simple case in terms of `range_end_bound` — for floats
    `ImpossibleRange` iff `y ≤ x`, otherwise the exclusive range `x..y` -/
theorem C04_new_simple_float (t : RangeTy) (ht : t.isFloat = true) (s p q : Str) (x y : Dec)
    (hs : splitOnce "..".toList s = some (p, q))
    (hp : trim p ≠ []) (hx : parseNum t (trim p) = some x)
    (hq : trim q ≠ []) (hq' : stripPrefix ['='] (trim q) = none) (hy : parseNum t (trim q) = some y) :
    newSimple t s = if Dec.le y x then .err "ImpossibleRange" else .ok (.bounds (some x) (.excl y)) := by
  rw [newSimple_excl t s p q x y hs hp hx hq hq' hy, C04_exclusive_end_float t ht]

/-- `Range::new` of a string without blanks, `|` or `_` (other than `..`) is the simple case -/
theorem C04_new_no_alternatives (t : RangeTy) (s : Str)
    (h : ∀ c ∈ s, isWs c = false ∧ c ≠ '|' ∧ c ≠ '_') (hdd : s ≠ "..".toList) :
    Ranges.new t s = newSimple t s := new_eq_newSimple t s h hdd

/-- `s₁ | s₂ | …`: when every piece is accepted (piece `i` giving `rsᵢ`), `Range::new` gives the
    flattened list of the pieces in order, whose meaning is "some piece contains the count" -/
theorem C04_new_alternatives (t : RangeTy) (s : Str) (rs : List Range)
    (hbar : Str.contains '|' (trim s) = true)
    (hp : (splitC '|' (trim s)).mapM (fun p => match newPiece t p with | .ok r => some r | _ => none) = some rs) :
    Ranges.new t s = .ok (flatten (.multi rs)) ∧
    ∀ n, doMatch (flatten (.multi rs)) n = rs.any (fun r => doMatch r n) := by
  have h1 : (trim s == ['_']) = false := by
    cases h : trim s == ['_']
    · rfl
    · simp only [beq_iff_eq] at h; rw [h] at hbar; simp [Str.contains] at hbar
  have h2 : (trim s == "..".toList) = false := by
    cases h : trim s == "..".toList
    · rfl
    · simp only [beq_iff_eq] at h; rw [h] at hbar; simp [Str.contains] at hbar
  constructor
  · simp only [Ranges.new, h1, h2, hbar]
    have := new_go t _ [] rs hp
    simpa using this
  · intro n
    rw [doMatch_flatten]
    simp [doMatch, doMatchAny_eq_any]

/-! ## 4. First matching branch; parse time = run time -/

/-- `find_value` (count fixed in the translation file): the result is `populate` of the *first*
    branch whose range contains the count, whatever precedes does not contain it and whatever follows
    is ignored -/
theorem C04_match_first (orc : Oracle) (locale : Str) (args : List (Str × PV)) (c : Dec)
    (pre post : List (Range × PV)) (r : Range) (v : PV)
    (hpre : ∀ x ∈ pre, doMatch x.1 c = false) (hr : doMatch r c = true) :
    findValue orc locale args c (pre ++ (r, v) :: post) = populate orc locale args v ∧
    ∀ ρ, evalBranches ρ c (pre ++ (r, v) :: post) = eval ρ v := by
  constructor
  · rw [findValue_skip _ _ _ _ _ _ hpre, findValue_cons, if_pos hr]
  · intro ρ
    rw [evalBranches_skip _ _ _ _ hpre, evalBranches_cons, if_pos hr]

/-- no branch contains the count: `CountArgNoMatch` at parse time (no panic), nothing at run time -/
theorem C04_no_match (orc : Oracle) (locale : Str) (args : List (Str × PV)) (c : Dec)
    (bs : List (Range × PV)) (h : ∀ x ∈ bs, doMatch x.1 c = false) :
    findValue orc locale args c bs = .err "CountArgNoMatch" ∧ ∀ ρ, evalBranches ρ c bs = [] := by
  have e1 := findValue_skip orc locale args c bs [] h
  rw [List.append_nil, findValue_nil] at e1
  refine ⟨e1, fun ρ => ?_⟩
  have e2 := evalBranches_skip ρ c bs [] h
  rw [List.append_nil, evalBranches_nil] at e2
  exact e2

/-- conversely, `CountArgNoMatch` comes from nowhere else: either no branch contains the count, or
    the first branch that does produced that error itself (a nested range behind a foreign key) -/
theorem C04_no_match_iff (orc : Oracle) (locale : Str) (args : List (Str × PV)) (c : Dec)
    (bs : List (Range × PV)) :
    findValue orc locale args c bs = .err "CountArgNoMatch" ↔
      (∀ x ∈ bs, doMatch x.1 c = false) ∨
      ∃ r v pre post, bs = pre ++ (r, v) :: post ∧ (∀ x ∈ pre, doMatch x.1 c = false) ∧
        doMatch r c = true ∧ populate orc locale args v = .err "CountArgNoMatch" := by
  constructor
  · intro h
    rcases first_match_or_none c bs with hn | ⟨r, v, pre, post, h1, h2, h3⟩
    · exact Or.inl hn
    · right
      refine ⟨r, v, pre, post, h1, h2, h3, ?_⟩
      rw [← (C04_match_first orc locale args c pre post r v h2 h3).1, ← h1]; exact h
  · rintro (hn | ⟨r, v, pre, post, h1, h2, h3, h4⟩)
    · exact (C04_no_match orc locale args c bs hn).1
    · rw [h1, (C04_match_first orc locale args c pre post r v h2 h3).1]; exact h4

/-- **Parse time = run time.**  When the selection made in the translation file succeeds, it
    selected the first branch containing the count, and the run-time chain evaluates that very branch
    under every environment. -/
theorem C04_parse_time_eq_run_time (orc : Oracle) (locale : Str) (args : List (Str × PV)) (c : Dec)
    (bs : List (Range × PV)) (v' : PV) (h : findValue orc locale args c bs = .ok v') :
    ∃ r v pre post, bs = pre ++ (r, v) :: post ∧ (∀ x ∈ pre, doMatch x.1 c = false) ∧
      doMatch r c = true ∧ populate orc locale args v = .ok v' ∧
      ∀ ρ, evalBranches ρ c bs = eval ρ v := by
  rcases first_match_or_none c bs with hn | ⟨r, v, pre, post, h1, h2, h3⟩
  · rw [(C04_no_match orc locale args c bs hn).1] at h; cases h
  · have ⟨e1, e2⟩ := C04_match_first orc locale args c pre post r v h2 h3
    refine ⟨r, v, pre, post, h1, h2, h3, ?_, ?_⟩
    · rw [← e1, ← h1]; exact h
    · intro ρ; rw [h1]; exact e2 ρ

/-- the two selections agree with the specification's `select` (first specification containing the
    count), stated without `do_match` -/
theorem C04_select_spec (orc : Oracle) (locale : Str) (args : List (Str × PV)) (c : Dec)
    (bs : List (Range × PV)) :
    (findValue orc locale args c bs =
      match select c (bs.map (fun b => (specOf b.1, b.2))) with
      | some v => populate orc locale args v
      | none => .err "CountArgNoMatch") ∧
    ∀ ρ, evalBranches ρ c bs =
      match select c (bs.map (fun b => (specOf b.1, b.2))) with
      | some v => eval ρ v
      | none => [] := by
  induction bs with
  | nil => simp [findValue_nil, evalBranches_nil, select]
  | cons x xs ih =>
    obtain ⟨r, v⟩ := x
    simp only [List.map_cons, select, findValue_cons, evalBranches_cons, ← doMatch_eq_contains]
    cases hr : doMatch r c
    · simpa using ih
    · simp

/-- a key with a literal `count` argument accepted for the range's type: `populate` of the range is
    `find_value` at that count, and the accessor's rendering is the run-time chain at the supplied
    count — the same function of the count on both sides -/
theorem C04_populate_literal_count (orc : Oracle) (locale : Str) (args : List (Str × PV)) (ck : Str)
    (t : RangeTy) (bs : List (Range × PV)) (l : Lit) (c : Dec)
    (harg : AMap.get? countArgName args = some (.lit l)) (hc : countFor t l = some (.ok c)) :
    populate orc locale args (.ranges ck t bs) = findValue orc locale args c bs ∧
    ∀ ρ, eval ρ (.ranges ck t bs) = evalBranches ρ (ρ.count ck) bs := by
  constructor
  · simp [populate, harg, hc]
  · intro ρ; simp [eval]

/-- `{{ count }}` inside the selected branch: at parse time the variable `var_count` is replaced by
    the literal that was supplied, which renders as that literal; at run time it is the variable the
    accessor is given the count for -/
theorem C04_count_shown (orc : Oracle) (locale : Str) (args : List (Str × PV)) (l : Lit) (f : Fmt)
    (harg : AMap.get? countArgName args = some (.lit l)) :
    populate orc locale args (.var countArgName f) = .ok (.lit l) ∧
    ∀ ρ, eval ρ (.lit l) = l.display ∧ eval ρ (.var countArgName f) = ρ.var countArgName f := by
  constructor
  · simp [populate, harg]
  · intro ρ; simp [eval]

/-! ## 5. Literal count vs range type: the 30 cases -/

/-- the number a numeric literal denotes -/
def litNum : Lit → Option Dec
  | .float d => some d
  | .signed i => some (Dec.ofInt i)
  | .unsigned n => some (Dec.ofInt n)
  | _ => none

/-- float literal × float type: accepted unchanged; float literal × integer type and integer
    literal × float type: `InvalidCountArgType`; integer literal × integer type: accepted unchanged
    iff within the type's bounds, else `CountArgOutsideRange`; strings and booleans: not a count.
    (3 literal kinds × 10 types.) -/
theorem C04_count_for_cases (t : RangeTy) (d : Dec) (i : Int) (n : Nat) (s : Str) (idx : Option Nat) (b : Bool) :
    (t.isFloat = true →
      countFor t (.float d) = some (.ok d) ∧
      countFor t (.signed i) = some (.err "InvalidCountArgType") ∧
      countFor t (.unsigned n) = some (.err "InvalidCountArgType")) ∧
    (t.isFloat = false →
      countFor t (.float d) = some (.err "InvalidCountArgType") ∧
      countFor t (.signed i) = some (if t.min ≤ i ∧ i ≤ t.max then .ok (Dec.ofInt i) else .err "CountArgOutsideRange") ∧
      countFor t (.unsigned n) = some (if t.min ≤ (n : Int) ∧ (n : Int) ≤ t.max then .ok (Dec.ofInt n) else .err "CountArgOutsideRange")) ∧
    countFor t (.str s idx) = none ∧ countFor t (.bool b) = none := by
  refine ⟨fun h => ?_, fun h => ?_, rfl, rfl⟩
  · simp [countFor, h]
  · simp [countFor, h, RangeTy.inRange]

/-- an accepted count is the literal's own number (no wrap-around, no rounding), of the right kind
    and within the type's bounds -/
theorem C04_count_for_ok (t : RangeTy) (l : Lit) (c : Dec) (h : countFor t l = some (.ok c)) :
    litNum l = some c ∧
    (t.isFloat = true ↔ ∃ d, l = .float d) ∧
    (t.isFloat = false → ∃ i : Int, c = Dec.ofInt i ∧ t.min ≤ i ∧ i ≤ t.max) := by
  cases l with
  | float d =>
    cases ht : t.isFloat <;> simp [countFor, ht] at h
    subst h; simp [litNum]
  | signed i =>
    cases ht : t.isFloat <;> simp [countFor, ht] at h
    by_cases hr : t.inRange i = true
    · simp [hr] at h; subst h
      simp [RangeTy.inRange] at hr
      simp [litNum]; exact ⟨i, rfl, hr⟩
    · simp [hr] at h
  | unsigned n =>
    cases ht : t.isFloat <;> simp [countFor, ht] at h
    by_cases hr : t.inRange n = true
    · simp [hr] at h; subst h
      simp [RangeTy.inRange] at hr
      simp [litNum]; exact ⟨n, rfl, hr⟩
    · simp [hr] at h
  | str s idx => simp [countFor] at h
  | bool b => simp [countFor] at h

/-! ## 6. Fallback rules (`check_deserialization`) -/

/-- `check_de_inner`: the first component is "a fallback — or a `|`/list with a fallback among its
    alternatives — occurs at a position other than the last", the second the number of top-level
    fallbacks -/
theorem C04_fallback_rules (init : List Range) (last : Range) :
    checkDe [] = (false, 0) ∧
    (checkDe (init ++ [last])).1 = init.any containsFallback ∧
    ∀ rs, (checkDe rs).2 = rs.countP isFallback := by
  refine ⟨checkDe_nil, ?_, fun rs => ?_⟩
  · rw [checkDe_snoc]
  · simp [checkDe, List.countP_eq_length_filter]

/-- an accepted non-empty declaration has no fallback anywhere but in last position, hence at most
    one; a float declaration ends with the fallback, so every count is rendered by some branch -/
theorem C04_accepted_fallback_last (t : RangeTy) (rs : List Range) (hne : rs ≠ [])
    (h : declAccepted t rs = true) :
    ∃ init last, rs = init ++ [last] ∧ (∀ r ∈ init, containsFallback r = false) ∧
      rs.countP isFallback ≤ 1 ∧ (t.isFloat = true → last = .fallback) := by
  obtain ⟨init, last, rfl⟩ : ∃ init last, rs = init ++ [last] :=
    ⟨rs.dropLast, rs.getLast hne, (List.dropLast_concat_getLast hne).symm⟩
  simp only [declAccepted, checkDe_snoc, Bool.and_eq_true, Bool.not_eq_true', List.any_eq_false,
    decide_eq_false_iff_not, Bool.and_eq_false_iff, beq_eq_false_iff_ne] at h
  obtain ⟨⟨h1, h2⟩, h3⟩ := h
  have hinit : ∀ r ∈ init, containsFallback r = false := fun r hr => by simpa using h1 r hr
  have hz : (init.filter isFallback).length = 0 := by
    rw [List.length_eq_zero_iff, List.filter_eq_nil_iff]
    intro r hr hf
    rw [isFallback_iff] at hf
    subst hf
    have := hinit _ hr
    simp [containsFallback] at this
  refine ⟨init, last, rfl, hinit, ?_, ?_⟩
  · rw [List.countP_eq_length_filter, List.filter_append, List.length_append, hz]
    simp [List.filter]; split <;> simp
  · intro hf
    rcases h3 with h3 | h3
    · rw [hz] at h3
      cases hl : isFallback last
      · simp [hl] at h3
      · exact (isFallback_iff last).mp hl
    · rw [hf] at h3; cases h3

/-- so for an accepted float declaration the run-time chain always finds a branch -/
theorem C04_float_total (t : RangeTy) (bs : List (Range × PV)) (hne : bs ≠ []) (ht : t.isFloat = true)
    (h : declAccepted t (bs.map (·.1)) = true) (c : Dec) :
    ∃ x ∈ bs, doMatch x.1 c = true := by
  obtain ⟨init, last, h1, _, _, h4⟩ := C04_accepted_fallback_last t (bs.map (·.1)) (by simpa using hne) h
  have hl : last ∈ bs.map (·.1) := by rw [h1]; simp
  obtain ⟨x, hx, hx'⟩ := List.mem_map.mp hl
  refine ⟨x, hx, ?_⟩
  rw [hx', h4 ht]; simp [doMatch]

/-- **through the decoder**: whatever array the file contains (either syntax, any nesting budget),
    if `ParsedValueSeed` accepts it the result is a range value with at least one branch whose
    specifications pass the three checks `InvalidFallback`, `MultipleFallbacks`, `MissingFallback`
    (`declAccepted`), hence `C04_accepted_fallback_last` / `C04_float_total` apply to it -/
theorem C04_decoded_declaration (fuel : Nat) (top key : Str) (l : List J) (pv : PV)
    (h : Decode.value (fuel + 1) top false key (.arr l) = .ok pv) :
    ∃ t bs, pv = .ranges "var_count".toList t bs ∧ bs ≠ [] ∧ declAccepted t (bs.map (·.1)) = true ∧
      ∃ init last, bs.map (·.1) = init ++ [last] ∧ (∀ r ∈ init, containsFallback r = false) ∧
        (t.isFloat = true → last = .fallback) := by
  obtain ⟨t, bs, h1, h2, h3⟩ := value_arr_ok fuel top key l pv h
  obtain ⟨init, last, e1, e2, _, e4⟩ := C04_accepted_fallback_last t (bs.map (·.1)) (by simpa using h2) h3
  exact ⟨t, bs, h1, h2, h3, init, last, e1, e2, e4⟩

/-! ## 7. `flatten` -/

/-- a `|` list containing a fallback *is* the fallback, anything else is unchanged; the meaning
    is not affected -/
theorem C04_flatten (l : List Range) (r : Range) (n : Dec) :
    (flatten (.multi l) = .fallback ↔ ∃ x ∈ l, x = .fallback) ∧
    ((¬ ∃ x ∈ l, x = .fallback) → flatten (.multi l) = .multi l) ∧
    doMatch (flatten r) n = doMatch r n := by
  have hany : l.any isFallback = true ↔ ∃ x ∈ l, x = .fallback := by
    simp [List.any_eq_true, isFallback_iff]
  refine ⟨?_, ?_, doMatch_flatten r n⟩
  · rw [flatten_multi, ← hany]
    by_cases h : l.any isFallback = true <;> simp [h]
  · intro hno
    rw [flatten_multi, if_neg (fun h => hno (hany.mp h))]

/-! ## 8. The sequence and the `{count, value}` syntaxes -/
open Decode

/-- `RangeSeed::visit_seq`: no count ⇒ fallback; one count ⇒ that specification itself; several
    counts `c, c₁ … cₖ` ⇒ the alternatives `[r₁ … rₖ, r]` (first one moved last) -/
theorem C04_range_seq (t : RangeTy) (c c' : J) (cs : List J) (f : Range) (rs : List Range)
    (hf : rangeSpec t c = .ok f) (hrs : rangeSpec.rangeList t (c' :: cs) = .ok rs) :
    rangeSpec.rangeSeq t [] = .ok .fallback ∧
    rangeSpec.rangeSeq t [c] = rangeSpec t c ∧
    rangeSpec.rangeSeq t (c :: c' :: cs) = .ok (.multi (rs ++ [f])) ∧
    rs.length = (c' :: cs).length := by
  refine ⟨by simp [rangeSpec.rangeSeq], rangeSeq_single t c, rangeSeq_multi t c c' cs f rs hf hrs,
    rangeList_length t _ _ hrs⟩

/-- the meaning of a list of alternatives does not depend on their order (so the rotation done by
    `visit_seq` is harmless): it is the disjunction -/
theorem C04_multi_order_insensitive (l₁ l₂ : List Range) (hperm : l₁.Perm l₂) (n : Dec) :
    doMatch (.multi l₁) n = doMatch (.multi l₂) n ∧
    doMatch (.multi l₁) n = l₁.any (fun r => doMatch r n) := by
  simp only [doMatch, doMatchAny_eq_any]
  exact ⟨hperm.any_eq, trivial⟩

/-- `[value, c₁, …, cₖ]` and `{count: [c₁, …, cₖ], value}` decode the count specification by the
    same function, and `{count: c}` is `[value, c]`; in particular `[value, c, c₁ … cₖ]` means
    "`c` or some `cᵢ` contains the count" -/
theorem C04_seq_struct_agree (t : RangeTy) (counts : List J) (c c' : J) (cs : List J) (f : Range)
    (rs : List Range) (hf : rangeSpec t c = .ok f) (hrs : rangeSpec.rangeList t (c' :: cs) = .ok rs) (n : Dec) :
    rangeSpec t (.arr counts) = rangeSpec.rangeSeq t counts ∧
    rangeSpec t c = rangeSpec.rangeSeq t [c] ∧
    ∃ r, rangeSpec.rangeSeq t (c :: c' :: cs) = .ok r ∧
      doMatch r n = (doMatch f n || rs.any (fun r => doMatch r n)) := by
  refine ⟨by simp [rangeSpec], (rangeSeq_single t c).symm, .multi (rs ++ [f]),
    rangeSeq_multi t c c' cs f rs hf hrs, ?_⟩
  simp only [doMatch, doMatchAny_eq_any, List.any_append, List.any_cons, List.any_nil, Bool.or_false]
  exact Bool.or_comm _ _

/-! ## Examples: the hypotheses are satisfiable, the functions compute -/

example : Ranges.new .i8 "0..5 | 7 | 100..".toList
    = .ok (.multi [.bounds (some ⟨0, 0⟩) (.incl ⟨4, 0⟩), .exact ⟨7, 0⟩, .bounds (some ⟨100, 0⟩) .unb]) := by
  rfl
example : Ranges.new .i8 "0..5 | _".toList = .ok .fallback := by rfl
example : Ranges.new .i8 "..-128".toList = .err "InvalidBoundEnd" := by rfl
example : Ranges.new .u8 "3..0".toList = .err "InvalidBoundEnd" := by rfl
example : Ranges.new .u8 "3..3".toList = .err "ImpossibleRange" := by rfl
example : Ranges.new .u8 "3..=3".toList = .ok (.bounds (some ⟨3, 0⟩) (.incl ⟨3, 0⟩)) := by rfl
example : parseInt .i8 "-128".toList = some (-128) ∧ parseInt .i8 "5".toList = some 5 := by decide
/-- `C04_new_simple_int` at `"-128..5"` for `i8` -/
example : newSimple .i8 ("-128".toList ++ "..".toList ++ "5".toList)
    = .ok (.bounds (some (Dec.ofInt (-128))) (.incl (Dec.ofInt 4))) := by
  rw [C04_new_simple_int .i8 rfl _ _ (-128) 5 (by decide) (by decide)]; rfl
/-- overlapping branches: the first one wins, in both selections -/
example : findValue ⟨fun _ _ => none, fun _ _ _ => none⟩ [] [] ⟨3, 0⟩
    [(.exact ⟨1, 0⟩, .lit (.str ['a'] none)), (.bounds (some ⟨0, 0⟩) (.incl ⟨4, 0⟩), .lit (.str ['b'] none)),
     (.bounds (some ⟨3, 0⟩) .unb, .lit (.str ['c'] none)), (.fallback, .lit (.str ['d'] none))]
    = .ok (.lit (.str ['b'] none)) := by
  simp [findValue, doMatch, populate, Dec.lt, Dec.le, Dec.eq]
example : declAccepted .f32 [.exact ⟨1, 0⟩, .fallback] = true ∧ declAccepted .f32 [.exact ⟨1, 0⟩] = false ∧
    declAccepted .i8 [.fallback, .exact ⟨1, 0⟩] = false ∧ declAccepted .i8 [.multi [.exact ⟨1, 0⟩, .fallback], .fallback] = false := by
  decide
example : countFor .u8 (.signed (-1)) = some (.err "CountArgOutsideRange") ∧
    countFor .u8 (.unsigned 255) = some (.ok ⟨255, 0⟩) ∧ countFor .f32 (.unsigned 1) = some (.err "InvalidCountArgType") :=
  ⟨rfl, rfl, rfl⟩

/-- list syntax: the first count is moved last (`C04_range_seq`) -/
example : rangeSpec.rangeSeq .i8 [.unsigned 1, .str "3..5".toList, .unsigned 7]
    = .ok (.multi [.bounds (some ⟨3, 0⟩) (.incl ⟨4, 0⟩), .exact ⟨7, 0⟩, .exact ⟨1, 0⟩]) := by rfl
end I18nVerif.Ranges
