import I18nVerif.Proofs.Merge
import I18nVerif.Spec.Diagnostics
/-!
# C07 — Key sets are checked against the default locale, with exact diagnostics

Model: `I18nVerif.Model.Check` (`Locale::make_builder_keys` — `locale.rs:691-705`; `Locale::merge` —
`locale.rs:639-689`; `ParsedValue::merge` — `parsed_value.rs:582-670`; `check_locales_inner` —
`mod.rs:155-200`).  Spec: `Spec.Diagnostics` (`missingFlat`, `surplusW`, `keysW`/`belowW`/`localeW`).

Every theorem is about *every* locale, builder-key tree, key path, string table, previous warning
list and fuel; theorems about a successful merge have the form "if the model returns `.ok …` then …".
-/
namespace I18nVerif.Check
open I18nVerif Spec.Diagnostics

/-! ## The accessible keys are the keys of the default locale, the same for every locale -/

/-- the loop of `make_builder_keys` emits one builder key per key of the locale, same names, same order
    (whatever the recursive call one level down does) -/
theorem C07_make_keys_eq (recMake : MakeRec) (dflt : Str) (path : KeyPath) (l : List (Str × PV))
    (strs : List Str) (ks : List (Str × PV)) (b : BKI) (s : List Str)
    (h : makeKeys recMake dflt path l [] [] strs = .ok (ks, b, s)) :
    b.map Prod.fst = l.map Prod.fst ∧ ks.map Prod.fst = l.map Prod.fst := by
  simpa using makeKeys_keys recMake dflt path l [] [] strs ks b s h

/-- `make_builder_keys`: the builder keys have exactly the key names of the default locale (in the
    same order), and so has the rewritten default locale -/
theorem C07_builder_keys_eq_default (dflt : Str) (fuel : Nat) (path : KeyPath) (loc : Loc) (strs : List Str)
    (loc' : Loc) (bki : BKI) (strs' : List Str)
    (h : makeBuilderKeys dflt fuel path loc strs = .ok (loc', bki, strs')) :
    bki.map Prod.fst = loc.keys.map Prod.fst ∧ loc'.keys.map Prod.fst = loc.keys.map Prod.fst :=
  let ⟨a, b, _⟩ := makeBuilderKeys_keys dflt fuel path loc strs loc' bki strs' h
  ⟨a, b⟩

/-- merging any locale never adds, removes or reorders builder keys — every locale sees the same
    accessible keys (no hypothesis on the locale, the builder keys or the recursion) -/
theorem C07_merge_preserves_keys (suppress : Bool) (top : Str) (dto : DefaultTo) (fuel : Nat) (path : KeyPath)
    (loc : Loc) (bki : BKI) (st : St) (loc' : Loc) (bki' : BKI) (st' : St)
    (h : mergeLocale suppress top dto fuel path loc bki st = .ok (loc', bki', st')) :
    bki'.map Prod.fst = bki.map Prod.fst :=
  (mergeLocale_keys suppress top dto fuel path loc bki st loc' bki' st' h).1

/-- the same at every depth: the representation invariants of the builder-key tree (`BKI.WF`, which
    records the key names of every group) survive a merge, and the top-level key list is unchanged -/
theorem C07_merge_preserves_tree (suppress : Bool) (top : Str) (dto : DefaultTo) (fuel : Nat) (path : KeyPath)
    (loc : Loc) (bki : BKI) (st : St) (loc' : Loc) (bki' : BKI) (st' : St) (hwf : BKI.WF bki)
    (h : mergeLocale suppress top dto fuel path loc bki st = .ok (loc', bki', st')) :
    BKI.WF bki' := by
  obtain ⟨hk, hw, _⟩ := mergeLocale_spec suppress top dto fuel path loc bki st loc' bki' st' hwf h
  exact ⟨by rw [hk]; exact hwf.1, hw⟩

/-- nested: when the default locale's keys are distinct at every level (`NDLoc`), the builder-key
    tree made from it is well-formed (`BKI.WF`): at every level its keys are distinct and equal to
    the keys of the default locale's group recorded there, and the rewritten default locale has the
    same keys as the builder keys -/
theorem C07_builder_keys_tree (dflt : Str) (fuel : Nat) (path : KeyPath) (loc : Loc) (strs : List Str)
    (loc' : Loc) (bki : BKI) (strs' : List Str) (hnd : NDLoc fuel loc)
    (h : makeBuilderKeys dflt fuel path loc strs = .ok (loc', bki, strs')) :
    loc'.keys.map Prod.fst = bki.map Prod.fst ∧ BKI.WF bki :=
  let ⟨a, b, _⟩ := makeBuilderKeys_spec dflt fuel path loc strs loc' bki strs' h hnd
  ⟨a, b⟩

/-- after the whole of `check_locales_inner` (all locales merged, string counts propagated) the
    builder keys still have exactly the key names of the default locale -/
theorem C07_check_keys_eq_default (suppress : Bool) (fuel : Nat) (inherits : List (Str × Str)) (ns : Option Str)
    (dl : Loc) (others : List Loc) (ws : List Warning) (locales : List Loc) (bkiF : BKI) (ws' : List Warning)
    (hnd : NDLoc fuel dl)
    (h : checkLocalesInner suppress fuel inherits ns (dl :: others) ws = .ok (locales, bkiF, ws')) :
    bkiF.map Prod.fst = dl.keys.map Prod.fst := by
  obtain ⟨_, _, _, _, h2, _, _, _⟩ :=
    checkLocalesInner_spec suppress fuel inherits ns dl others ws locales bkiF ws' hnd h
  exact h2

/-! ## Exactly the specified diagnostics -/

/--
**Flat key sets.**  Builder keys that are all plain values (no groups), distinct; any locale.  If the
merge succeeds, the warnings it appends are exactly, in this order:
`missing top (path/k)` for the builder keys `k` the locale has no entry for — only if the locale
does not inherit (`dto` implicit); then `surplus top (path/k)` for the keys of the locale that are
not builder keys — unless `suppress_key_warnings`.  A key present with `null` is present.
-/
theorem C07_warnings_exact_flat (suppress : Bool) (top : Str) (dto : DefaultTo) (fuel : Nat) (path : KeyPath)
    (loc : Loc) (bki : BKI) (st : St) (loc' : Loc) (bki' : BKI) (st' : St)
    (hflat : isFlat bki) (hnd : (bki.map Prod.fst).Nodup)
    (h : mergeLocale suppress top dto fuel path loc bki st = .ok (loc', bki', st')) :
    st'.warnings = st.warnings
      ++ missingFlat top (isImplicit dto) path (loc.keys.map Prod.fst) (bki.map Prod.fst)
      ++ surplusW top suppress path (loc.keys.map Prod.fst) (bki.map Prod.fst) := by
  obtain ⟨_, _, hw⟩ := mergeLocale_spec suppress top dto fuel path loc bki st loc' bki' st'
    ⟨hnd, WFL_flat bki hflat⟩ h
  rw [hw, localeW, keysW_flat _ _ _ _ _ _ hflat, List.append_assoc]

/--
**Nested key sets.**  For every well-formed builder-key tree (`BKI.WF`: distinct keys at every level;
each group remembers the default locale's group, with the same keys), any locale and any fuel:
if the merge succeeds the appended warnings are exactly `localeW …` — per level: `missing` for
absent keys when not inheriting, then recursively the groups present on both sides, then `surplus`.
A group that is absent or `null` in the locale gives (at most) the one `missing` for the group key
and nothing below it.
-/
theorem C07_warnings_exact_nested (suppress : Bool) (top : Str) (dto : DefaultTo) (fuel : Nat) (path : KeyPath)
    (loc : Loc) (bki : BKI) (st : St) (loc' : Loc) (bki' : BKI) (st' : St) (hwf : BKI.WF bki)
    (h : mergeLocale suppress top dto fuel path loc bki st = .ok (loc', bki', st')) :
    st'.warnings = st.warnings ++ localeW top (isImplicit dto) suppress path loc.keys bki :=
  (mergeLocale_spec suppress top dto fuel path loc bki st loc' bki' st' hwf h).2.2

/-- every diagnostic of merging locale `top` names `top` -/
theorem C07_warnings_about_merged_locale (top : Str) (implicit suppress : Bool) (path : KeyPath)
    (ks : List (Str × PV)) (bki : BKI) (w : Warning) (h : w ∈ localeW top implicit suppress path ks bki) :
    warnLocale w = top :=
  localeW_locale top implicit suppress path ks bki w h

/-- **None for the default locale.**  `make_builder_keys` has no warning output at all, and every
    warning `check_locales_inner` adds is about one of the *other* locales; the previous warnings
    are kept as a prefix. -/
theorem C07_no_warning_for_default (suppress : Bool) (fuel : Nat) (inherits : List (Str × Str)) (ns : Option Str)
    (dl : Loc) (others : List Loc) (ws : List Warning) (locales : List Loc) (bkiF : BKI) (ws' : List Warning)
    (hnd : NDLoc fuel dl)
    (h : checkLocalesInner suppress fuel inherits ns (dl :: others) ws = .ok (locales, bkiF, ws')) :
    ∃ added, ws' = ws ++ added ∧ ∀ w ∈ added, warnLocale w ∈ others.map Loc.name := by
  obtain ⟨_, _, _, _, _, _, h3, _⟩ :=
    checkLocalesInner_spec suppress fuel inherits ns dl others ws locales bkiF ws' hnd h
  exact h3

/--
**The whole check.**  `dl` default locale (keys distinct at every level), `others` the other locales.
If `check_locales_inner` succeeds, its warnings are the previous ones followed by exactly
`checkW`: for each other locale in order, the diagnostics `localeW` of that locale against the
builder keys of the default locale — with `missing` reported only for a locale without `inherits`
entry in a build without `suppress_key_warnings`, and `surplus` only without `suppress_key_warnings`.
(The builder keys a later locale is merged into have been modified by the earlier merges; the key
tree, on which alone the diagnostics depend, has not.)
-/
theorem C07_check_warnings_exact (suppress : Bool) (fuel : Nat) (inherits : List (Str × Str)) (ns : Option Str)
    (dl : Loc) (others : List Loc) (ws : List Warning) (locales : List Loc) (bkiF : BKI) (ws' : List Warning)
    (hnd : NDLoc fuel dl)
    (h : checkLocalesInner suppress fuel inherits ns (dl :: others) ws = .ok (locales, bkiF, ws')) :
    ∃ dl' bki0 strs, makeBuilderKeys dl.top fuel ⟨ns, []⟩ dl [] = .ok (dl', bki0, strs)
      ∧ ws' = ws ++ checkW suppress inherits ⟨ns, []⟩ others bki0 := by
  obtain ⟨dl', bki0, strs, h1, _, h3, _, _⟩ :=
    checkLocalesInner_spec suppress fuel inherits ns dl others ws locales bkiF ws' hnd h
  exact ⟨dl', bki0, strs, h1, h3⟩

/-- a merge never changes the key tree of the builder keys (keys, order, group/value), at any depth;
    no hypothesis -/
theorem C07_merge_preserves_key_tree (suppress : Bool) (top : Str) (dto : DefaultTo) (fuel : Nat) (path : KeyPath)
    (loc : Loc) (bki : BKI) (st : St) (loc' : Loc) (bki' : BKI) (st' : St)
    (h : mergeLocale suppress top dto fuel path loc bki st = .ok (loc', bki', st')) : SkL bki bki' :=
  mergeLocale_sk suppress top dto fuel path loc bki st loc' bki' st' h

/-- with `suppress_key_warnings` and… nothing else: a flat level produces no diagnostics at all when
    the locale inherits -/
theorem C07_suppress_and_inherit_silent (top : Str) (path : KeyPath) (locKeys bkiKeys : List Str) :
    missingFlat top false path locKeys bkiKeys ++ surplusW top true path locKeys bkiKeys = [] := rfl

/-- **One per (locale, key path).**  The diagnostics of a flat level contain no duplicates (keys of
    maps are distinct): at most one `missing` and at most one `surplus` per key path, never both -/
theorem C07_warnings_nodup_flat (top : Str) (implicit suppress : Bool) (path : KeyPath)
    (locKeys bkiKeys : List Str) (h1 : bkiKeys.Nodup) (h2 : locKeys.Nodup) :
    (missingFlat top implicit path locKeys bkiKeys ++ surplusW top suppress path locKeys bkiKeys).Nodup :=
  warnings_nodup_flat top implicit suppress path locKeys bkiKeys h1 h2

/-- an `inherits` entry (explicit default) silences every `missing` of a flat level -/
theorem C07_inherits_silences_missing (top : Str) (path : KeyPath) (locKeys bkiKeys : List Str) :
    missingFlat top false path locKeys bkiKeys = [] := rfl

/-- with `suppress_key_warnings` there is no `surplus` -/
theorem C07_suppress_silences_surplus (top : Str) (path : KeyPath) (locKeys bkiKeys : List Str) :
    surplusW top true path locKeys bkiKeys = [] := rfl

/-- an explicit `null` counts as present: a builder key `k` the locale maps to anything (e.g. `null`)
    is not reported missing -/
theorem C07_present_not_missing (top : Str) (implicit : Bool) (path : KeyPath) (locKeys bkiKeys : List Str)
    (k : Str) (hk : k ∈ locKeys) :
    Warning.missing top (child path k) ∉ missingFlat top implicit path locKeys bkiKeys := by
  unfold missingFlat
  cases implicit with
  | false => simp
  | true =>
    simp only [if_true, List.mem_map, List.mem_filter, not_exists, not_and]
    intro k' ⟨_, hk'⟩ he
    have : k' = k := by
      have h1 : (child path k').path = (child path k).path := by
        injection he with _ h2; rw [h2]
      simp only [child] at h1
      simpa using h1
    subst this
    simp [hk] at hk'

/-! ## A group in one locale and a value in another is an error -/

/-- the default locale has a group, the locale has a value that is neither a group nor `null` -/
theorem C07_subkey_mismatch_error (recMerge : MergeRec) (top : Str) (dto : DefaultTo) (kp : KeyPath)
    (cur : PV) (locales : List Loc) (bkeys : BKI) (st : St)
    (h1 : cur ≠ .dflt) (h2 : ∀ l, cur ≠ .subkeys l) :
    mergeValue recMerge top dto kp cur (.subkeys locales bkeys) st = .err "SubKeyMissmatch" :=
  mergeValue_subkeys_mismatch recMerge top dto kp cur locales bkeys st h1 h2

/-- the default locale has a value, the locale has a group -/
theorem C07_subkey_mismatch_error' (recMerge : MergeRec) (top : Str) (dto : DefaultTo) (kp : KeyPath)
    (l : Option Loc) (iol : IOL) (d : Defaults) (st : St) :
    mergeValue recMerge top dto kp (.subkeys l) (.value iol d) st = .err "SubKeyMissmatch" :=
  mergeValue_value_mismatch recMerge top dto kp l iol d st

/-- conversely a merge that succeeds had no mismatch: for every builder key the locale has an entry
    for, the (reduced) value is a group or `null` where the default locale has a group, and is not
    a group where the default locale has a value.  (So a mismatch can only end in an error — the
    `SubKeyMissmatch` of the two theorems above, unless an earlier key already failed.) -/
theorem C07_ok_no_mismatch (suppress : Bool) (top : Str) (dto : DefaultTo) (fuel : Nat) (path : KeyPath)
    (loc : Loc) (bki : BKI) (st : St) (r : Loc × BKI × St)
    (h : mergeLocale suppress top dto fuel path loc bki st = .ok r)
    (k : Str) (lv : LV) (v cur : PV) (hk : AMap.get? k bki = some lv) (hv : AMap.get? k loc.keys = some v)
    (hr : Reduce.reduce v = .ok cur) : Fits cur lv := by
  cases fuel with
  | zero => simp [mergeLocale] at h
  | succ fuel =>
    simp only [mergeLocale] at h
    split at h
    · simp at h
    · simp at h
    · rename_i hmk
      exact mergeKeys_ok_fits _ top dto path bki loc.keys [] st _ hmk k lv v cur hk hv hr

/-! ## Examples: the hypotheses are satisfiable by non-trivial values -/

private def enSub : Loc := .mk ['e','n'] ['e','n'] [(['h'], .lit (.str ['z'] none))] [] 0
private def enLoc : Loc := .mk ['e','n'] ['e','n']
  [(['a'], .lit (.str ['x'] none)), (['b'], .lit (.str ['y'] none)), (['g'], .subkeys (some enSub))] [] 0
private def frLoc : Loc := .mk ['f','r'] ['f','r'] [(['a'], .dflt), (['c'], .lit (.str ['w'] none))] [] 0
private def caLoc : Loc := .mk ['c','a'] ['c','a'] [(['a'], .dflt), (['b'], .lit (.str ['v'] none))] [] 0
private def enSub' : Loc := .mk ['e','n'] ['e','n'] [(['h'], .lit (.str ['z'] (some 2)))] [] 0
private def enLoc' : Loc := .mk ['e','n'] ['e','n']
  [(['a'], .lit (.str ['x'] (some 0))), (['b'], .lit (.str ['y'] (some 1))), (['g'], .subkeys none)] [] 0
/-- builder keys of `en = {a: "x", b: "y", g: {h: "z"}}` -/
private def bki0 : BKI :=
  [(['a'], .value (.lit .string) ⟨['e','n'], []⟩), (['b'], .value (.lit .string) ⟨['e','n'], []⟩),
   (['g'], .subkeys [enSub'] [(['h'], .value (.lit .string) ⟨['e','n'], []⟩)])]

private theorem mk0 :
    makeBuilderKeys ['e','n'] 3 ⟨none, []⟩ enLoc [] = .ok (enLoc', bki0, [['x'], ['y'], ['z']]) := by
  simp [makeBuilderKeys, makeKeys, enLoc, enSub, Reduce.reduce, Reduce.reduceKeys, makeKeys.shapeOf',
    indexStrings, pushStr, getKeysInner, Loc.keys, List.idxOf?, enLoc', bki0, enSub',
    Loc.name, Loc.top, Loc.strings, Loc.count]
  decide

example : BKI.WF bki0 := by simp [BKI.WF, bki0, WFL, LV.WF, Loc.keys, enSub']

example : NDLoc 3 enLoc := by
  refine ⟨by decide, ?_⟩
  intro k v sub hm hr
  simp only [enLoc, Loc.keys, List.mem_cons, Prod.mk.injEq, List.not_mem_nil, or_false] at hm
  rcases hm with ⟨rfl, rfl⟩ | ⟨rfl, rfl⟩ | ⟨rfl, rfl⟩
  · simp [Reduce.reduce] at hr
  · simp [Reduce.reduce] at hr
  · simp only [enSub, Reduce.reduce, Reduce.reduceKeys, Res.ok.injEq, PV.subkeys.injEq, Option.some.injEq] at hr
    subst hr
    refine ⟨by decide, ?_⟩
    intro k v sub hm hr
    simp only [Loc.keys, List.mem_cons, Prod.mk.injEq, List.not_mem_nil, or_false] at hm
    obtain ⟨rfl, rfl⟩ := hm
    simp [Reduce.reduce] at hr

/-- `fr = {a: null, c: "w"}`, not inheriting: `b` and the group `g` are missing (nothing below `g`),
    `a` is silenced by `null`, `c` is surplus -/
example : ∃ l b st, mergeLocale false ['f','r'] (.implicit ['e','n']) 3 ⟨none, []⟩ frLoc bki0 {} = .ok (l, b, st)
    ∧ st.warnings = [.missing ['f','r'] ⟨none, [['b']]⟩, .missing ['f','r'] ⟨none, [['g']]⟩,
        .surplus ['f','r'] ⟨none, [['c']]⟩] := by
  refine ⟨_, _, _, rfl, ?_⟩; rfl

example : localeW ['f','r'] true false ⟨none, []⟩ frLoc.keys bki0
    = [.missing ['f','r'] ⟨none, [['b']]⟩, .missing ['f','r'] ⟨none, [['g']]⟩,
        .surplus ['f','r'] ⟨none, [['c']]⟩] := rfl

/-- the same locale with an `inherits` entry: only the surplus key remains -/
example : ∃ l b st, mergeLocale false ['f','r'] (.explicit ['e','n']) 3 ⟨none, []⟩ frLoc bki0 {} = .ok (l, b, st)
    ∧ st.warnings = [.surplus ['f','r'] ⟨none, [['c']]⟩] := by
  refine ⟨_, _, _, rfl, ?_⟩; rfl

/-- a value where the default locale has a group -/
example : ∃ e, mergeLocale false ['x'] (.implicit ['e','n']) 3 ⟨none, []⟩
    (.mk ['x'] ['x'] [(['g'], .lit (.str ['v'] none))] [] 0) bki0 {} = .err e ∧ e = "SubKeyMissmatch" :=
  ⟨_, rfl, rfl⟩

/-- whole check: `en` default, `fr`, `ca` with `inherits = {ca ↦ fr}`: `ca` is silent although `g` is absent -/
example : ∃ locales bki ws,
    checkLocalesInner false 3 [(['c','a'], ['f','r'])] none [enLoc, frLoc, caLoc] [] = .ok (locales, bki, ws)
    ∧ ws = [.missing ['f','r'] ⟨none, [['b']]⟩, .missing ['f','r'] ⟨none, [['g']]⟩,
        .surplus ['f','r'] ⟨none, [['c']]⟩] := by
  have h0 : makeBuilderKeys enLoc.top 3 ⟨none, []⟩ enLoc [] = .ok (enLoc', bki0, [['x'], ['y'], ['z']]) := mk0
  simp only [checkLocalesInner, h0]
  refine ⟨_, _, _, rfl, ?_⟩; rfl

end I18nVerif.Check
