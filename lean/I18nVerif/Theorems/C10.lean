import I18nVerif.Proofs.Perm
/-!
# C10 — Results depend only on content, not on key order (parser part)

Model: `AMap` (`BTreeMap` as a sorted association list, `Model/Value.lean`) and the `LocaleSeed`
loop of `Decode.value` (`Model/Decode.lean`, `locale.rs:721-775`): the entries of a JSON/YAML object
are inserted into a `BTreeMap` in document order, a later equal key replacing an earlier one.

Proved for all lists of entries, all keys, all values: if the keys (after `Key::new` trimmed them) are
pairwise distinct, any reordering of the entries of an object gives the same `Locale`.
The hypothesis cannot be dropped: `"a"` and `"a "` are different JSON keys that collide after
trimming, the later one wins (finding F13) — `C10_duplicate_key_order_dependent`.
Run-to-run determinism holds by construction: the model is a pure function.
-/
namespace I18nVerif
open Str

/-- the order of map keys (`str` ordering of Rust: by code points) is a strict total order -/
theorem C10_strLt_strict_total_order :
    (∀ a : Str, AMap.strLt a a = false) ∧
    (∀ a b c : Str, AMap.strLt a b = true → AMap.strLt b c = true → AMap.strLt a c = true) ∧
    (∀ a b : Str, AMap.strLt a b = true ∨ a = b ∨ AMap.strLt b a = true) := by
  refine ⟨AMap.strLt_irrefl, fun _ _ _ => AMap.strLt_trans, fun a b => ?_⟩
  cases h1 : AMap.strLt a b with
  | true => exact .inl rfl
  | false =>
    cases h2 : AMap.strLt b a with
    | true => exact .inr (.inr rfl)
    | false => exact .inr (.inl (AMap.strLt_total h1 h2))

/-- inserting into a sorted map keeps it sorted; afterwards it holds the new entry and the old
entries under other keys -/
theorem C10_insert_sorted {α} (k : Str) (v : α) (m : List (Str × α)) (hm : AMap.Sorted m) :
    AMap.Sorted (AMap.insert' k v m) ∧
    ∀ p, p ∈ AMap.insert' k v m ↔ p = (k, v) ∨ (p ∈ m ∧ p.1 ≠ k) :=
  AMap.insert'_spec k v hm

/-- a map built from entries with pairwise distinct keys is sorted by key (strictly increasing)
and contains exactly these entries -/
theorem C10_amap_sorted {α} (l : List (Str × α)) (hn : (l.map Prod.fst).Nodup) :
    (AMap.ofList l).Pairwise (fun a b => AMap.strLt a.1 b.1 = true) ∧ ∀ p, p ∈ AMap.ofList l ↔ p ∈ l :=
  AMap.ofList_spec l hn

/-- **The map does not depend on insertion order**: two permutations of a list of entries with
pairwise distinct keys build the same map -/
theorem C10_amap_perm {α} (l₁ l₂ : List (Str × α)) (hp : l₁.Perm l₂) (hn : (l₁.map Prod.fst).Nodup) :
    AMap.ofList l₁ = AMap.ofList l₂ :=
  AMap.ofList_perm hp hn

/-- two sorted maps with the same entries are the same list (the canonical-form fact behind
`C10_amap_perm`) -/
theorem C10_sorted_ext {α} (m₁ m₂ : List (Str × α)) (h₁ : AMap.Sorted m₁) (h₂ : AMap.Sorted m₂)
    (h : ∀ p, p ∈ m₁ ↔ p ∈ m₂) : m₁ = m₂ :=
  AMap.sorted_ext h₁ h₂ h

/-- **Entries are decoded independently of their position**: when the loop over the entries of an
object succeeds, its result is the fold of `insert'` over the entries, each decoded on its own by
`Decode.entry` (trimmed key ↦ `Decode.value` of the value) — no entry's value depends on the
accumulator or on the entries before it -/
theorem C10_locale_keys_fold (fuel : Nat) (top : Str) (l : List (Str × J)) (acc r : List (Str × PV))
    (h : Decode.value.localeKeys fuel top l acc = .ok r) :
    (∀ p, p ∈ l → (Decode.entry fuel top p).isSome) ∧
    r = AMap.insAll acc (l.filterMap (Decode.entry fuel top)) := by
  have h1 := Decode.localeKeys_ok_inv fuel top l acc r h
  refine ⟨h1, ?_⟩
  have h2 := Decode.localeKeys_ok fuel top l acc h1
  rw [h2] at h
  simp only [Res.ok.injEq] at h
  exact h.symm

/-- **Reordering the keys of an object changes nothing** (success case): if an object whose
trimmed keys are pairwise distinct decodes to a value, every permutation of its entries decodes to
the same value.  (When some key is invalid or some value fails to decode, *which* error is
reported may depend on the order — the first failing entry in document order wins; that both
orders fail is `C10_locale_keys_perm_fails`.) -/
theorem C10_locale_keys_perm (fuel : Nat) (top key : Str) (l₁ l₂ : List (Str × J)) (v : PV)
    (hp : l₁.Perm l₂) (hn : (l₁.map (fun p => trim p.1)).Nodup)
    (h : Decode.value (fuel + 1) top false key (.obj l₁) = .ok v) :
    Decode.value (fuel + 1) top false key (.obj l₂) = .ok v := by
  simp only [Decode.value, Bool.false_eq_true, if_false] at h ⊢
  cases hl : Decode.value.localeKeys fuel top l₁ [] with
  | err e => rw [hl] at h; simp at h
  | panic q => rw [hl] at h; simp at h
  | ok keys =>
    have ⟨hall, hk⟩ := C10_locale_keys_fold fuel top l₁ [] keys hl
    have hall₂ : ∀ p, p ∈ l₂ → (Decode.entry fuel top p).isSome := fun p hp' => hall p (hp.mem_iff.mpr hp')
    have hn' : ((l₁.filterMap (Decode.entry fuel top)).map Prod.fst).Nodup := by
      rw [Decode.entries_keys fuel top l₁ hall]; exact hn
    have := AMap.insAll_perm (m := []) (by simp [AMap.Sorted]) (hp.filterMap (Decode.entry fuel top)) hn'
    rw [Decode.localeKeys_ok fuel top l₂ [] hall₂, ← this, ← hk]
    rw [hl] at h
    exact h

/-- if decoding an object fails, decoding any permutation of it fails too (possibly with another
error kind) -/
theorem C10_locale_keys_perm_fails (fuel : Nat) (top key : Str) (l₁ l₂ : List (Str × J))
    (hp : l₁.Perm l₂) (hn : (l₁.map (fun p => trim p.1)).Nodup)
    (h : ∀ v, Decode.value (fuel + 1) top false key (.obj l₁) ≠ .ok v) :
    ∀ v, Decode.value (fuel + 1) top false key (.obj l₂) ≠ .ok v := by
  intro v hv
  have hn₂ : (l₂.map (fun p => trim p.1)).Nodup := (hp.map _).nodup_iff.mp hn
  exact h v (C10_locale_keys_perm fuel top key l₂ l₁ v hp.symm hn₂ hv)

/-! ### Non-vacuity, and why `Nodup` is needed (finding F13) -/

example : AMap.ofList [("b".toList, 1), ("a".toList, 2), ("c".toList, 3)]
    = AMap.ofList [("c".toList, 3), ("b".toList, 1), ("a".toList, 2)] := by decide

example : (["b".toList, "a".toList, "c".toList] : List Str).Nodup := by decide

/-- **F13**: `"a"` and `"a "` are distinct keys of the file that are equal after trimming; the one
that comes later in the file wins, so the result depends on the order -/
theorem C10_duplicate_key_order_dependent :
    AMap.ofList [(trim "a".toList, 1), (trim "a ".toList, 2)] = [("a".toList, 2)] ∧
    AMap.ofList [(trim "a ".toList, 2), (trim "a".toList, 1)] = [("a".toList, 1)] := by decide

/-- the same at the level of the decoder: the object `{"a": true, "a ": false}` and its
reordering `{"a ": false, "a": true}` decode to different locales -/
theorem C10_duplicate_key_order_dependent_decode :
    Decode.value 2 [] false [] (.obj [("a".toList, .bool true), ("a ".toList, .bool false)])
      = .ok (.subkeys (some (.mk [] [] [("a".toList, .lit (.bool false))] [] 0))) ∧
    Decode.value 2 [] false [] (.obj [("a ".toList, .bool false), ("a".toList, .bool true)])
      = .ok (.subkeys (some (.mk [] [] [("a".toList, .lit (.bool true))] [] 0))) := by
  have k1 : Key.new "a".toList = some "a".toList := by decide
  have k2 : Key.new "a ".toList = some "a".toList := by decide
  simp only [Decode.value, Decode.value.localeKeys, k1, k2, Bool.false_eq_true, if_false]
  constructor <;> rfl

/-- `C10_locale_keys_perm` applied: distinct keys, two orders, one result -/
example : Decode.value 2 [] false [] (.obj [("b".toList, .bool true), ("a".toList, .null)])
    = Decode.value 2 [] false [] (.obj [("a".toList, .null), ("b".toList, .bool true)]) := by
  have k1 : Key.new "a".toList = some "a".toList := by decide
  have k2 : Key.new "b".toList = some "b".toList := by decide
  simp only [Decode.value, Decode.value.localeKeys, k1, k2, Bool.false_eq_true, if_false]
  rfl

end I18nVerif
