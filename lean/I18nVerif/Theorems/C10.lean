import I18nVerif.Proofs.Perm
/-!
# C10 — Results depend only on content, not on key order (parser part)

Model: `AMap` (`BTreeMap` as a sorted association list, `Model/Value.lean`) and the `LocaleSeed`
loop of `Decode.value` (`Model/Decode.lean`, `locale.rs:721-775`): the entries of a JSON/YAML object
are inserted into a `BTreeMap` in document order; a key equal (after trimming) to an earlier one is an error.

Proved for all lists of entries, all keys, all values: if an object decodes, any reordering of its
entries decodes to the same `Locale` — no hypothesis on the keys is needed, because since the repair of
finding F13 a key that is already present after `Key::new` trimmed it (`"a"` and `"a "`) is rejected
with a `DuplicateKey` error in either order (`C10_ok_keys_distinct`, `C10_duplicate_key_rejected*`).
`C10_duplicate_key_order_dependent` keeps the witness of the old behaviour (a plain `insert`, the later
key silently winning) at the level of the map.
Run-to-run determinism holds by construction: the model is a pure function.
-/
namespace I18nVerif
open Str

/-- the order of map keys (`str` ordering of Rust: by code points) is a strict total order -/
theorem C10_strLt_strict_total_order :
    (∀ a : Str, AMap.strLt a a = false) ∧
    (∀ a b c : Str, AMap.strLt a b = true → AMap.strLt b c = true → AMap.strLt a c = true) ∧
    (∀ a b : Str, AMap.strLt a b = true ∨ a = b ∨ AMap.strLt b a = true) := by
  refine ⟨AMap.strLt_irrefl, fun _ _ _ => AMap.strLt_trans, fun a b => ?_⟩
  cases h1 : AMap.strLt a b with
  | true => exact .inl rfl
  | false =>
    cases h2 : AMap.strLt b a with
    | true => exact .inr (.inr rfl)
    | false => exact .inr (.inl (AMap.strLt_total h1 h2))

/-- inserting into a sorted map keeps it sorted; afterwards it holds the new entry and the old
entries under other keys -/
theorem C10_insert_sorted {α} (k : Str) (v : α) (m : List (Str × α)) (hm : AMap.Sorted m) :
    AMap.Sorted (AMap.insert' k v m) ∧
    ∀ p, p ∈ AMap.insert' k v m ↔ p = (k, v) ∨ (p ∈ m ∧ p.1 ≠ k) :=
  AMap.insert'_spec k v hm

/-- a map built from entries with pairwise distinct keys is sorted by key (strictly increasing)
and contains exactly these entries -/
theorem C10_amap_sorted {α} (l : List (Str × α)) (hn : (l.map Prod.fst).Nodup) :
    (AMap.ofList l).Pairwise (fun a b => AMap.strLt a.1 b.1 = true) ∧ ∀ p, p ∈ AMap.ofList l ↔ p ∈ l :=
  AMap.ofList_spec l hn

/-- **The map does not depend on insertion order**: two permutations of a list of entries with
pairwise distinct keys build the same map -/
theorem C10_amap_perm {α} (l₁ l₂ : List (Str × α)) (hp : l₁.Perm l₂) (hn : (l₁.map Prod.fst).Nodup) :
    AMap.ofList l₁ = AMap.ofList l₂ :=
  AMap.ofList_perm hp hn

/-- two sorted maps with the same entries are the same list (the canonical-form fact behind
`C10_amap_perm`) -/
theorem C10_sorted_ext {α} (m₁ m₂ : List (Str × α)) (h₁ : AMap.Sorted m₁) (h₂ : AMap.Sorted m₂)
    (h : ∀ p, p ∈ m₁ ↔ p ∈ m₂) : m₁ = m₂ :=
  AMap.sorted_ext h₁ h₂ h

/-- **Entries are decoded independently of their position**: when the loop over the entries of an
object succeeds, every entry decodes on its own (`Decode.entry`: trimmed key ↦ `Decode.value` of the
value — it depends neither on the accumulator nor on the entries before it), the trimmed keys are
pairwise distinct and new to the accumulator, and the result is the fold of `insert'` over the entries -/
theorem C10_locale_keys_fold (fuel : Nat) (top : Str) (l : List (Str × J)) (acc r : List (Str × PV))
    (h : Decode.value.localeKeys fuel top l acc = .ok r) :
    (∀ p, p ∈ l → (Decode.entry fuel top p).isSome) ∧
    ((l.filterMap (Decode.entry fuel top)).map Prod.fst).Nodup ∧
    (∀ k, k ∈ (l.filterMap (Decode.entry fuel top)).map Prod.fst → k ∉ acc.map Prod.fst) ∧
    r = AMap.insAll acc (l.filterMap (Decode.entry fuel top)) := by
  have ⟨h1, h2, h3⟩ := Decode.localeKeys_ok_inv fuel top l acc r h
  refine ⟨h1, h2, h3, ?_⟩
  have h4 := Decode.localeKeys_ok fuel top l acc h1 h2 h3
  rw [h4] at h
  simp only [Res.ok.injEq] at h
  exact h.symm

/-- the loop succeeds exactly when every entry decodes and the trimmed keys are pairwise distinct
(starting from the empty map) -/
theorem C10_locale_keys_ok_iff (fuel : Nat) (top : Str) (l : List (Str × J)) :
    (∃ r, Decode.value.localeKeys fuel top l [] = .ok r) ↔
    (∀ p, p ∈ l → (Decode.entry fuel top p).isSome) ∧ (l.map (fun p => trim p.1)).Nodup := by
  constructor
  · rintro ⟨r, h⟩
    have ⟨h1, h2, _⟩ := Decode.localeKeys_ok_inv fuel top l [] r h
    exact ⟨h1, by rw [← Decode.entries_keys fuel top l h1]; exact h2⟩
  · rintro ⟨h1, h2⟩
    exact ⟨_, Decode.localeKeys_ok fuel top l [] h1
      (by rw [Decode.entries_keys fuel top l h1]; exact h2) (by simp)⟩

/-- **Success implies distinct keys**: if an object decodes, its keys are pairwise distinct after
trimming (F13 repaired: a second occurrence is an error, not a silent overwrite) -/
theorem C10_ok_keys_distinct (fuel : Nat) (top key : Str) (l : List (Str × J)) (v : PV)
    (h : Decode.value (fuel + 1) top false key (.obj l) = .ok v) :
    (l.map (fun p => trim p.1)).Nodup := by
  simp only [Decode.value, Bool.false_eq_true, if_false] at h
  cases hl : Decode.value.localeKeys fuel top l [] with
  | err e => rw [hl] at h; simp at h
  | panic q => rw [hl] at h; simp at h
  | ok keys => exact ((C10_locale_keys_ok_iff fuel top l).mp ⟨keys, hl⟩).2

/-- **Reordering the keys of an object changes nothing**: if an object decodes to a value, every
permutation of its entries decodes to the same value — no hypothesis on the keys.
(When decoding fails, *which* error is reported may depend on the order — the first failing entry
in document order wins; that both orders fail is `C10_locale_keys_perm_fails`.) -/
theorem C10_locale_keys_perm (fuel : Nat) (top key : Str) (l₁ l₂ : List (Str × J)) (v : PV)
    (hp : l₁.Perm l₂)
    (h : Decode.value (fuel + 1) top false key (.obj l₁) = .ok v) :
    Decode.value (fuel + 1) top false key (.obj l₂) = .ok v := by
  simp only [Decode.value, Bool.false_eq_true, if_false] at h ⊢
  cases hl : Decode.value.localeKeys fuel top l₁ [] with
  | err e => rw [hl] at h; simp at h
  | panic q => rw [hl] at h; simp at h
  | ok keys =>
    have ⟨hall, hn, _, hk⟩ := C10_locale_keys_fold fuel top l₁ [] keys hl
    have hall₂ : ∀ p, p ∈ l₂ → (Decode.entry fuel top p).isSome := fun p hp' => hall p (hp.mem_iff.mpr hp')
    have hpe := hp.filterMap (Decode.entry fuel top)
    have hn₂ : ((l₂.filterMap (Decode.entry fuel top)).map Prod.fst).Nodup :=
      (hpe.map Prod.fst).nodup_iff.mp hn
    have := AMap.insAll_perm (m := []) (by simp [AMap.Sorted]) hpe hn
    rw [Decode.localeKeys_ok fuel top l₂ [] hall₂ hn₂ (by simp), ← this, ← hk]
    rw [hl] at h
    exact h

/-- if decoding an object fails, decoding any permutation of it fails too (possibly with another
error kind) -/
theorem C10_locale_keys_perm_fails (fuel : Nat) (top key : Str) (l₁ l₂ : List (Str × J))
    (hp : l₁.Perm l₂)
    (h : ∀ v, Decode.value (fuel + 1) top false key (.obj l₁) ≠ .ok v) :
    ∀ v, Decode.value (fuel + 1) top false key (.obj l₂) ≠ .ok v :=
  fun v hv => h v (C10_locale_keys_perm fuel top key l₂ l₁ v hp.symm hv)

/-- **Duplicate keys are rejected, whatever the order**: an object in which two entries have the
same key after trimming never decodes to a value -/
theorem C10_duplicate_key_rejected (fuel : Nat) (top key : Str) (l : List (Str × J))
    (hdup : ¬ (l.map (fun p => trim p.1)).Nodup) :
    ∀ v, Decode.value (fuel + 1) top false key (.obj l) ≠ .ok v :=
  fun v hv => hdup (C10_ok_keys_distinct fuel top key l v hv)

/-- the two-entry case with the exact error: two keys that `Key::new` maps to the same name
(`"a"` and `"a "`), both values decodable, give `DuplicateKey`.  The statement is symmetric in the
two entries, so it covers both orders. -/
theorem C10_duplicate_key_rejected_pair (fuel : Nat) (top key k₁ k₂ k : Str) (x₁ x₂ : J) (v₁ v₂ : PV)
    (hk₁ : Key.new k₁ = some k) (hk₂ : Key.new k₂ = some k)
    (hv₁ : Decode.value fuel top false k x₁ = .ok v₁) (hv₂ : Decode.value fuel top false k x₂ = .ok v₂) :
    Decode.value (fuel + 1) top false key (.obj [(k₁, x₁), (k₂, x₂)]) = .err "DuplicateKey" ∧
    Decode.value (fuel + 1) top false key (.obj [(k₂, x₂), (k₁, x₁)]) = .err "DuplicateKey" := by
  have hc : ∀ v : PV, AMap.contains k (AMap.insert' k v []) = true := by
    intro v; simp [AMap.contains, AMap.get?, AMap.insert', AMap.insert]
  have hc0 : AMap.contains k ([] : List (Str × PV)) = false := rfl
  constructor <;>
    simp [Decode.value, Decode.value.localeKeys, hk₁, hk₂, hv₁, hv₂, hc, hc0]

/-! ### Non-vacuity and regression witnesses (finding F13) -/

example : AMap.ofList [("b".toList, 1), ("a".toList, 2), ("c".toList, 3)]
    = AMap.ofList [("c".toList, 3), ("b".toList, 1), ("a".toList, 2)] := by decide

example : (["b".toList, "a".toList, "c".toList] : List Str).Nodup := by decide

/-- **Witness of the OLD behaviour (F13, repaired)**: at the level of the map, `insert'` overwrites, so
inserting the colliding keys `"a"` and `"a "` in the two orders gives different maps.  This is what
`LocaleSeed::visit_map` did before the repair and the reason `C10_amap_perm` needs `Nodup`; the decoder
now refuses such input (`C10_duplicate_key_rejected`). -/
theorem C10_duplicate_key_order_dependent :
    AMap.ofList [(trim "a".toList, 1), (trim "a ".toList, 2)] = [("a".toList, 2)] ∧
    AMap.ofList [(trim "a ".toList, 2), (trim "a".toList, 1)] = [("a".toList, 1)] := by decide

/-- F13 after the repair: `{"a": true, "a ": false}` is a `DuplicateKey` error in either order -/
example :
    Decode.value 2 [] false [] (.obj [("a".toList, .bool true), ("a ".toList, .bool false)])
      = .err "DuplicateKey" ∧
    Decode.value 2 [] false [] (.obj [("a ".toList, .bool false), ("a".toList, .bool true)])
      = .err "DuplicateKey" :=
  C10_duplicate_key_rejected_pair 1 [] [] "a".toList "a ".toList "a".toList (.bool true) (.bool false)
    (.lit (.bool true)) (.lit (.bool false)) (by decide) (by decide)
    (by simp [Decode.value]) (by simp [Decode.value])

/-- `C10_locale_keys_perm` on a concrete object: distinct keys, two orders, one result -/
example : Decode.value 2 [] false [] (.obj [("b".toList, .bool true), ("a".toList, .null)])
    = Decode.value 2 [] false [] (.obj [("a".toList, .null), ("b".toList, .bool true)]) := by
  have k1 : Key.new "a".toList = some "a".toList := by decide
  have k2 : Key.new "b".toList = some "b".toList := by decide
  simp only [Decode.value, Decode.value.localeKeys, k1, k2, Bool.false_eq_true, if_false]
  rfl

end I18nVerif
