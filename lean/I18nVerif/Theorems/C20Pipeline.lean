import I18nVerif.Theorems.C20Full
import I18nVerif.Theorems.C11Pipeline
/-!
# C20 on the whole pipeline, no hypothesis left but a well-formed configuration

`C20_pipeline_uses_iff` (`Theorems/C20Full.lean`) assumes that the default locale of every namespace
of the resolved world has distinct keys at every level; `C11_resolved_distinct`
(`Theorems/C11Pipeline.lean`, from the C09 pipeline invariant) discharges it.
-/
namespace I18nVerif.Datakey
open I18nVerif I18nVerif.Check I18nVerif.Datakey.Spec PipeInv

/-- **C20 for `parse_locales`, end to end.**  For every well-formed configuration and any files: if
    loading succeeds with resolved world `w`, the build helper requests option `o` iff in some
    namespace some locale's (reduced) value at an accessible key (a plain value of the default
    locale, any subkey depth) uses `o` — contains a `Plurals` node, resp. a variable with a formatter
    of the family of `o`, at any depth of the value. -/
theorem C20_pipeline (inp : Pipeline.Input) (hcfg : CfgWF inp.cfg) (w : World) (ws : List Warning)
    (out : Pipeline.Output) (hr : Pipeline.resolved inp = .ok (w, ws)) (h : Pipeline.run inp = .ok out) (o : Opt) :
    o ∈ icuOptions out ↔ ∃ ns ∈ w.nss, NsUses ns o :=
  C20_pipeline_uses_iff inp w ws out hr h
    (fun ns hns dl hdl => C11_resolved_distinct inp hcfg w ws hr ns hns dl (List.mem_of_mem_head? hdl)) o

/-- spelled out with the structural check, for plural data -/
theorem C20_pipeline_plurals (inp : Pipeline.Input) (hcfg : CfgWF inp.cfg) (w : World) (ws : List Warning)
    (out : Pipeline.Output) (hr : Pipeline.resolved inp = .ok (w, ws)) (h : Pipeline.run inp = .ok out) :
    Opt.plurals ∈ icuOptions out ↔
      ∃ ns ∈ w.nss, ∃ dl, ns.locales.head? = some dl ∧ ∃ p, leafValAt dl.keys p = true ∧
        ∃ l ∈ ns.locales, ∃ v, valueAt l.keys p = some v ∧ hasPlurals v = true := by
  rw [C20_pipeline inp hcfg w ws out hr h]
  have key : ∀ v, ValueUses v .plurals ↔ hasPlurals v = true := by
    intro v
    rw [← hasPlurals_iff]
    unfold ValueUses
    constructor
    · rintro (⟨_, h⟩ | ⟨n, f, _, hf⟩)
      · exact h
      · cases f <;> simp [fmtOpt] at hf
    · intro h; exact Or.inl ⟨rfl, h⟩
  unfold NsUses
  simp only [key]

/-- … and for a formatter family -/
theorem C20_pipeline_formatter (inp : Pipeline.Input) (hcfg : CfgWF inp.cfg) (w : World) (ws : List Warning)
    (out : Pipeline.Output) (hr : Pipeline.resolved inp = .ok (w, ws)) (h : Pipeline.run inp = .ok out)
    (o : Opt) (ho : o ≠ .plurals) :
    o ∈ icuOptions out ↔
      ∃ ns ∈ w.nss, ∃ dl, ns.locales.head? = some dl ∧ ∃ p, leafValAt dl.keys p = true ∧
        ∃ l ∈ ns.locales, ∃ v, valueAt l.keys p = some v ∧ hasFmt o v = true := by
  rw [C20_pipeline inp hcfg w ws out hr h]
  have key : ∀ v, ValueUses v o ↔ hasFmt o v = true := by
    intro v
    rw [← hasFmt_iff]
    unfold ValueUses FmtIn
    constructor
    · rintro (⟨h, _⟩ | h)
      · exact absurd h ho
      · exact h
    · intro h; exact Or.inr h
  unfold NsUses
  simp only [key]

/-- with a configuration produced by `ConfigFile::new`, `get_locales` and `get_icu_keys` together -/
theorem C20_pipeline_of_config (table : List (Str × Config.TV)) (inp : Pipeline.Input)
    (hc : Config.new table = .ok inp.cfg) (w : World) (ws : List Warning) (out : Pipeline.Output)
    (hr : Pipeline.resolved inp = .ok (w, ws)) (h : Pipeline.run inp = .ok out) :
    (out.nss ≠ [] → getLocales out = inp.cfg.locales) ∧
    ∀ o, o ∈ icuOptions out ↔ ∃ ns ∈ w.nss, NsUses ns o :=
  ⟨fun hne => C20_locales inp out h hne,
   fun o => C20_pipeline inp (C09_cfgWF_of_config_new table inp.cfg hc) w ws out hr h o⟩

end I18nVerif.Datakey
