import I18nVerif.Proofs.Foreign
import I18nVerif.Proofs.ForeignWalk
/-!
# C06 — Foreign keys are pure substitution

Model: `I18nVerif.Model.Foreign` (`parsed_value.rs:441-579`, `ranges.rs:455-748`, `plurals.rs:113-253`,
`mod.rs:115-127`).  Denotation: `I18nVerif.Spec.Eval`.  Specification: `I18nVerif.Spec.Subst`
(`substEnv`, `OracleAgrees`, the tree predicates).

All theorems quantify over every value tree, every argument map, every world and every amount of
fuel; nothing is bounded.

State of the model: after the repair of defects F11/F20 (`resolve_foreign_key_inner` follows the `inherits`
fallback walk: `findDefining`).  `dflt : Fallbacks` is the default locale + the `inherits` table.  Section 6 states
the repaired behaviour outright.
-/
namespace I18nVerif.Foreign
open I18nVerif I18nVerif.Subst

/-! ## 1. `populate` is substitution -/

/--
**Main theorem.**  If `populate` succeeds, the value it builds renders — in *every* environment
`ρ` whose plural oracle agrees with the parse-time one — exactly what the target renders in the
substituted environment `substEnv ρ args`: supplied arguments replace the variables of that
name (wherever they occur: below components, inside range branches and plural forms, inside
already resolved foreign keys); a literal `count` fixes the count of every range and plural;
a `{{ var }}` count renames their count variable.

Side condition `PluralsWf v`: no plural of the target lists `other` among its `forms` (the parser
keeps `other` in a separate field, `Model/Plurals.lean:54`).  It is needed: see the `example`
below the theorem.
-/
theorem C06_populate_subst (orc : Oracle) (locale : Str) (args : List (Str × PV)) (ρ : Eval.Env)
    (v v' : PV) (hO : OracleAgrees orc locale ρ) (hwf : PluralsWf v = true)
    (h : populate orc locale args v = .ok v') :
    Eval.eval ρ v' = Eval.eval (substEnv ρ args) v :=
  populate_subst orc locale args ρ hO v v' hwf h

/-- `PluralsWf` is preserved by `populate` (arguments well formed too), so the main theorem can be
    applied along a chain of references. -/
theorem C06_populate_preserves_pluralsWf (orc : Oracle) (locale : Str) (args : List (Str × PV))
    (v v' : PV) (hA : PluralsWfK args = true) (hwf : PluralsWf v = true)
    (h : populate orc locale args v = .ok v') : PluralsWf v' = true :=
  populate_PluralsWf orc locale args hA v v' hwf h

/-- the oracle hypothesis only looks at `ρ.cat`, which substitution does not touch -/
theorem C06_oracleAgrees_substEnv (orc : Oracle) (locale : Str) (args : List (Str × PV)) (ρ : Eval.Env)
    (hO : OracleAgrees orc locale ρ) : OracleAgrees orc locale (substEnv ρ args) :=
  fun rule l d f hd hc => hO rule l d f hd hc

/-- **Chains of references.**  Populating twice (a key that refers to a key that refers to `v`)
    is substitution twice: the inner arguments are read in the environment made by the outer ones. -/
theorem C06_populate_chain (orc : Oracle) (locale : Str) (args₁ args₂ : List (Str × PV)) (ρ : Eval.Env)
    (v v₁ v₂ : PV) (hO : OracleAgrees orc locale ρ) (hwf : PluralsWf v = true)
    (hA : PluralsWfK args₁ = true)
    (h₁ : populate orc locale args₁ v = .ok v₁) (h₂ : populate orc locale args₂ v₁ = .ok v₂) :
    Eval.eval ρ v₂ = Eval.eval (substEnv (substEnv ρ args₂) args₁) v := by
  rw [C06_populate_subst orc locale args₂ ρ v₁ v₂ hO
    (C06_populate_preserves_pluralsWf orc locale args₁ v v₁ hA hwf h₁) h₂]
  exact C06_populate_subst orc locale args₁ (substEnv ρ args₂) v v₁
    (C06_oracleAgrees_substEnv orc locale args₂ ρ hO) hwf h₁

/-- **A resolved reference renders what its target renders, arguments substituted.**
    Whatever the resolution of a `$t(target, args)` node returns is `Set r'` where `r'` renders, under
    every `ρ`, as the *resolved* target value under `substEnv ρ args'` (`args'` = the resolved
    arguments).  `(src, value)` is what the fallback walk of the node's locale found (`value` is stored at
    `(src, target)`, `C06_target_from_fallback_walk`); the target is resolved as a key of locale `src`, the arguments
    in the locale `top` of the reference, and the oracle that matters is the one of `top`.
    The statement does not mention the position of the keys in the file, nor the
    namespace part of `target`: resolution is a function of `getValueAt` only. -/
theorem C06_resolveNode_sound (orc : Oracle) (w : World) (dflt : Fallbacks) (fuel : Nat) (vis : List KeyId)
    (phys : KeyId) (top : Str) (target : KeyPath) (args : List (Str × PV)) (src : Str) (value r : PV)
    (hfd : findDefining w dflt (dflt.inherits.length + 2) [] top target = .ok (src, value))
    (hr : resolveNode orc w dflt (fuel + 1) vis phys top target args = .ok r) :
    ∃ value' args',
      resolvePV orc w dflt fuel (phys :: vis) (src, target) src value = .ok value' ∧
      resolveArgs orc w dflt fuel (phys :: vis) phys top args = .ok args' ∧
      ∀ ρ, OracleAgrees orc top ρ → PluralsWf value' = true →
        Eval.eval ρ r = Eval.eval (substEnv ρ args') value' := by
  obtain ⟨src', value0, value', args', v, hfd', _, hv, ha, hp, rfl⟩ :=
    resolveNode_ok_inv_walk orc w dflt fuel vis phys top target args hr
  rw [show nodeWalk w dflt top target = _ from hfd] at hfd'
  simp only [Res.ok.injEq, Prod.mk.injEq] at hfd'
  obtain ⟨rfl, rfl⟩ := hfd'
  refine ⟨value', args', hv, ha, fun ρ hO hwf => ?_⟩
  simp only [Eval.eval]
  exact C06_populate_subst orc top args' ρ value' v hO hwf hp

/-- the statement as it was before the repair — the locale of the reference itself defines the target (then
    `src = top`) -/
theorem C06_resolveNode_sound_here (orc : Oracle) (w : World) (dflt : Fallbacks) (fuel : Nat) (vis : List KeyId)
    (phys : KeyId) (top : Str) (target : KeyPath) (args : List (Str × PV)) (value r : PV)
    (hget : w.getValueAt top target = .ok (some value)) (hnd : value ≠ .dflt)
    (hr : resolveNode orc w dflt (fuel + 1) vis phys top target args = .ok r) :
    ∃ value' args',
      resolvePV orc w dflt fuel (phys :: vis) (top, target) top value = .ok value' ∧
      resolveArgs orc w dflt fuel (phys :: vis) phys top args = .ok args' ∧
      ∀ ρ, OracleAgrees orc top ρ → PluralsWf value' = true →
        Eval.eval ρ r = Eval.eval (substEnv ρ args') value' :=
  C06_resolveNode_sound orc w dflt fuel vis phys top target args top value r
    (nodeWalk_here w dflt top target hget hnd) hr

/-- the target is an explicit `null` (or absent) in the locale of the reference: in the default locale this is the
    error `ExplicitDefaultInDefault` (`MissingForeignKey`); in any other locale the reference is resolved with the
    value found by walking on from the next locale of the fallback walk (`top` marked visited) — the arguments and
    the population stay in `top` (`afterWalk`).  Before the repair: one jump straight to the default locale. -/
theorem C06_resolveNode_default_jump (orc : Oracle) (w : World) (dflt : Fallbacks) (fuel : Nat)
    (vis : List KeyId) (phys : KeyId) (top : Str) (target : KeyPath) (args : List (Str × PV))
    (hget : w.getValueAt top target = .ok (some .dflt) ∨ w.getValueAt top target = .ok none) :
    resolveNode orc w dflt (fuel + 1) vis phys top target args =
      if top == dflt.default then
        .err (match w.getValueAt top target with
          | .ok none => "MissingForeignKey"
          | _ => "ExplicitDefaultInDefault")
      else afterWalk orc w dflt fuel vis phys top target args
        (findDefining w dflt (dflt.inherits.length + 1) [top] (nextLocale dflt [top] top) target) := by
  rw [resolveNode_afterWalk]
  have hu : Undef w top target := hget.symm
  cases hd : top == dflt.default with
  | false =>
    rw [show nodeWalk w dflt top target = _ from findDefining_step w dflt _ [] top target hu hd]
    simp
  | true =>
    rcases hget with h | h
    · rw [show nodeWalk w dflt top target = _ from findDefining_default_null w dflt _ [] top target h hd]
      simp [afterWalk, h]
    · rw [show nodeWalk w dflt top target = _ from findDefining_default_none w dflt _ [] top target h hd]
      simp [afterWalk, h]

/-! ## 2. Rejections and the only panic -/

/-- the target is a subkey group: rejected -/
theorem C06_populate_subkeys_rejected (orc : Oracle) (locale : Str) (args : List (Str × PV))
    (l : Option Loc) : populate orc locale args (.subkeys l) = .err "InvalidForeignKey" := by
  simp only [populate]

/-- **`populate` never succeeds on a value containing a subkey group** at a place it visits: below
    components, blocs, resolved foreign keys — and, unless the count argument is a literal (then only
    the selected branch is looked at and the others are dropped), in any range branch or plural form.
    (The outcome is `InvalidForeignKey`, or an error/panic raised earlier in the traversal.) -/
theorem C06_populate_errors (orc : Oracle) (locale : Str) (args : List (Str × PV)) (v : PV)
    (hs : HasSubkeys (isLitCount args) v = true) : ∀ v', populate orc locale args v ≠ .ok v' :=
  fun v' => populate_hasSubkeys orc locale args v v' hs

/-- a reference whose target (what the fallback walk finds) is a subkey group is never resolved; when the
    arguments resolve and there is no cycle the error is `InvalidForeignKey` -/
theorem C06_resolveNode_subkeys_target (orc : Oracle) (w : World) (dflt : Fallbacks) (fuel : Nat)
    (vis : List KeyId) (phys : KeyId) (top : Str) (target : KeyPath) (args : List (Str × PV)) (src : Str)
    (l : Option Loc)
    (hfd : findDefining w dflt (dflt.inherits.length + 2) [] top target = .ok (src, .subkeys l)) :
    (∀ r, resolveNode orc w dflt (fuel + 2) vis phys top target args ≠ .ok r) ∧
    (∀ args', (src, target) ∉ phys :: vis →
      resolveArgs orc w dflt (fuel + 1) (phys :: vis) phys top args = .ok args' →
      resolveNode orc w dflt (fuel + 2) vis phys top target args = .err "InvalidForeignKey") := by
  have hv : resolvePV orc w dflt (fuel + 1) (phys :: vis) (src, target) src (.subkeys l) = .ok (.subkeys l) := by
    simp only [resolvePV]
  constructor
  · intro r hr
    obtain ⟨src', value0, value', args', v, hfd', _, hv', _, hp, _⟩ :=
      resolveNode_ok_inv_walk orc w dflt (fuel + 1) vis phys top target args hr
    rw [show nodeWalk w dflt top target = _ from hfd] at hfd'
    simp only [Res.ok.injEq, Prod.mk.injEq] at hfd'
    obtain ⟨rfl, rfl⟩ := hfd'
    rw [hv] at hv'
    simp only [Res.ok.injEq] at hv'
    subst hv'
    simp [populate] at hp
  · intro args' hin ha
    rw [resolveNode_succ, hfd]
    have hc : (phys :: vis).contains (src, target) = false := by
      simpa using hin
    simp only [hc, hv, ha, populate]
    rfl

/-- in particular when the subkey group is in the locale of the reference (the statement before the repair) -/
theorem C06_resolveNode_subkeys_target_here (orc : Oracle) (w : World) (dflt : Fallbacks) (fuel : Nat)
    (vis : List KeyId) (phys : KeyId) (top : Str) (target : KeyPath) (args : List (Str × PV))
    (l : Option Loc) (hget : w.getValueAt top target = .ok (some (.subkeys l))) :
    (∀ r, resolveNode orc w dflt (fuel + 2) vis phys top target args ≠ .ok r) ∧
    (∀ args', (top, target) ∉ phys :: vis →
      resolveArgs orc w dflt (fuel + 1) (phys :: vis) phys top args = .ok args' →
      resolveNode orc w dflt (fuel + 2) vis phys top target args = .err "InvalidForeignKey") :=
  C06_resolveNode_subkeys_target orc w dflt fuel vis phys top target args top l
    (nodeWalk_here w dflt top target hget (by simp))

/-- **The only panic.**  If `populate` panics, the site is `oracle: plural category missing`, the
    count argument is a literal number and the oracle table has no entry for it although the locale
    supports the rule type. -/
theorem C06_populate_panic_exact (orc : Oracle) (locale : Str) (args : List (Str × PV)) (v : PV)
    (p : String) (h : populate orc locale args v = .panic p) : PanicWitness orc locale args p :=
  populate_panic orc locale args v p h

/-- with a total oracle (what ICU4X is) `populate` never panics -/
theorem C06_populate_no_panic (orc : Oracle) (locale : Str) (args : List (Str × PV)) (v : PV)
    (hT : OracleTotal orc locale) : ∀ p, populate orc locale args v ≠ .panic p := by
  intro p h
  obtain ⟨_, l, d, rule, _, hd, hcs, hc⟩ := C06_populate_panic_exact orc locale args v p h
  exact hT rule l d hd hcs hc

/-- … and the characterisation is exact: such a gap in the table does make `populate` panic on a
    plural of that rule type -/
theorem C06_populate_panic_reached (orc : Oracle) (locale : Str) (args : List (Str × PV))
    (rule : RuleTy) (ck : Str) (other : PV) (forms : List (Form × PV)) (l : Lit) (d : Dec)
    (hg : AMap.get? countArgName args = some (.lit l)) (hd : litDec l = some d)
    (hcs : orc.cats locale rule ≠ none) (hc : orc.cat locale rule (operandKey l) = none) :
    populate orc locale args (.plurals rule ck other forms) = .panic "oracle: plural category missing" := by
  simp only [populate, hg]
  cases l with
  | str s i => simp [litDec] at hd
  | bool b => simp [litDec] at hd
  | signed i =>
    cases hcs' : orc.cats locale rule with
    | none => exact absurd hcs' hcs
    | some c => simp only [hc]
  | unsigned n =>
    cases hcs' : orc.cats locale rule with
    | none => exact absurd hcs' hcs
    | some c => simp only [hc]
  | float f =>
    cases hcs' : orc.cats locale rule with
    | none => exact absurd hcs' hcs
    | some c => simp only [hc]

/-! ## 3. After resolution no unresolved foreign key is left (bridge to C09) -/

/-- `populate` introduces no unresolved foreign key -/
theorem C06_populate_preserves_noNotSet (orc : Oracle) (locale : Str) (args : List (Str × PV))
    (v v' : PV) (hA : NoNotSetK args = true) (hv : NoNotSet v = true)
    (h : populate orc locale args v = .ok v') : NoNotSet v' = true :=
  populate_NoNotSet orc locale args hA v v' hv h

/-- a fully resolved value satisfies the input invariant of resolution -/
theorem C06_noNotSet_setClosed (v : PV) (h : NoNotSet v = true) : SetClosed v = true :=
  NoNotSet_SetClosed v h

/--
**Resolution is complete.**  In a world whose stored values are subkey groups or `SetClosed`
(true of every parser output: it has no `Set` node and no subkey group below a value; and
`NoNotSet → SetClosed`), a successful `resolvePV` returns a value with no `NotSet` node anywhere
`Reduce.reduce` goes — including inside the `Set` nodes it created and inside the arguments it
substituted.  For every fuel.
-/
theorem C06_resolved_no_notset (orc : Oracle) (w : World) (dflt : Fallbacks) (fuel : Nat)
    (visiting : List KeyId) (phys : KeyId) (top : Str) (v v' : PV)
    (hW : WorldClosed w) (hv : SetClosed v = true)
    (h : resolvePV orc w dflt fuel visiting phys top v = .ok v') : NoNotSet v' = true :=
  (resolve_noNotSet orc w dflt hW fuel).1 visiting phys top v v' hv h

/-- the same for one `$t(..)` node -/
theorem C06_resolved_no_notset_node (orc : Oracle) (w : World) (dflt : Fallbacks) (fuel : Nat)
    (visiting : List KeyId) (phys : KeyId) (top : Str) (target : KeyPath) (args : List (Str × PV))
    (v' : PV) (hW : WorldClosed w) (ha : SetClosedK args = true)
    (h : resolveNode orc w dflt fuel visiting phys top target args = .ok v') : NoNotSet v' = true :=
  (resolve_noNotSet orc w dflt hW fuel).2.1 visiting phys top target args v' ha h

/-! ## 4. Missing targets, cycles, termination -/

/-- (a) the referenced key does not exist — no locale defines it, the default locale does not have it:
    `MissingForeignKey`, from whichever locale the reference is made (before the repair this was the outcome as soon
    as the locale of the reference did not have the key, F20).  `hp`: no lookup panics (emptied subkey group). -/
theorem C06_resolve_missing (orc : Oracle) (w : World) (dflt : Fallbacks) (fuel : Nat) (vis : List KeyId)
    (phys : KeyId) (top : Str) (target : KeyPath) (args : List (Str × PV))
    (hu : ∀ x, definesAt w target x = false) (hp : ∀ x p, w.getValueAt x target ≠ .panic p)
    (h : w.getValueAt dflt.default target = .ok none) :
    resolvePV orc w dflt (fuel + 2) vis phys top (.fk (.notSet target args)) = .err "MissingForeignKey" := by
  rw [resolvePV_notSet]
  cases hw : nodeWalk w dflt top target with
  | ok r =>
    obtain ⟨src, v⟩ := r
    obtain ⟨hs, hv⟩ := findDefining_ok_stored w dflt _ _ _ _ _ _ hw
    have := hu src
    rw [definesAt_of_stored hs hv] at this
    cases this
  | panic p =>
    obtain ⟨x, hx⟩ := findDefining_fuel w dflt target _ [] top List.nodup_nil (by simp) (by simp) (by simp) p hw
    exact absurd hx (hp x p)
  | err e =>
    rcases findDefining_err_inv w dflt target _ _ _ e hw with ⟨rfl, _⟩ | ⟨_, h'⟩
    · exact resolveNode_walk_err orc w dflt (fuel) vis phys top target args hw
    · rw [h] at h'; simp at h'

/-- the key exists in no locale at all -/
theorem C06_resolve_missing_everywhere (orc : Oracle) (w : World) (dflt : Fallbacks) (fuel : Nat) (vis : List KeyId)
    (phys : KeyId) (top : Str) (target : KeyPath) (args : List (Str × PV))
    (h : ∀ x, w.getValueAt x target = .ok none) :
    resolvePV orc w dflt (fuel + 2) vis phys top (.fk (.notSet target args)) = .err "MissingForeignKey" :=
  C06_resolve_missing orc w dflt fuel vis phys top target args
    (fun x => definesAt_of_undef (.inl (h x))) (fun x p => by rw [h x]; simp) (h _)

/-- the statement before the repair (`getValueAt top target = ok none → MissingForeignKey`) now holds for a
    reference made in the default locale -/
theorem C06_resolve_missing_default (orc : Oracle) (w : World) (dflt : Fallbacks) (fuel : Nat) (vis : List KeyId)
    (phys : KeyId) (top : Str) (target : KeyPath) (args : List (Str × PV))
    (h : w.getValueAt top target = .ok none) (hd : top = dflt.default) :
    resolvePV orc w dflt (fuel + 2) vis phys top (.fk (.notSet target args)) = .err "MissingForeignKey" := by
  rw [resolvePV_notSet]
  exact resolveNode_missing orc w dflt fuel vis phys top target args h (by simp [hd])

/-- (b) the referenced key (the key `(src, target)` found by the fallback walk) is the key being resolved, or one
    whose resolution is in progress: `RecursiveForeignKey` -/
theorem C06_resolve_cycle (orc : Oracle) (w : World) (dflt : Fallbacks) (fuel : Nat) (vis : List KeyId)
    (phys : KeyId) (top : Str) (target : KeyPath) (args : List (Str × PV)) (src : Str) (value : PV)
    (h : findDefining w dflt (dflt.inherits.length + 2) [] top target = .ok (src, value))
    (hin : (src, target) ∈ phys :: vis) :
    resolvePV orc w dflt (fuel + 2) vis phys top (.fk (.notSet target args)) = .err "RecursiveForeignKey" := by
  rw [resolvePV_notSet]
  exact resolveNode_recursive_walk orc w dflt fuel vis phys top target args h hin

/-- the statement before the repair: the key is defined in the locale of the reference -/
theorem C06_resolve_cycle_here (orc : Oracle) (w : World) (dflt : Fallbacks) (fuel : Nat) (vis : List KeyId)
    (phys : KeyId) (top : Str) (target : KeyPath) (args : List (Str × PV)) (value : PV)
    (h : w.getValueAt top target = .ok (some value)) (hnd : value ≠ .dflt)
    (hin : (top, target) ∈ phys :: vis) :
    resolvePV orc w dflt (fuel + 2) vis phys top (.fk (.notSet target args)) = .err "RecursiveForeignKey" :=
  C06_resolve_cycle orc w dflt fuel vis phys top target args top value (nodeWalk_here w dflt top target h hnd) hin

/-- a key that refers to itself: rejected for every fuel ≥ 2 -/
theorem C06_resolve_self_reference (orc : Oracle) (w : World) (dflt : Fallbacks) (fuel : Nat) (top : Str)
    (p : KeyPath) (args : List (Str × PV)) (value : PV)
    (h : w.getValueAt top p = .ok (some value)) (hnd : value ≠ .dflt) (hf : 2 ≤ fuel) :
    resolvePV orc w dflt fuel [] (top, p) top (.fk (.notSet p args)) = .err "RecursiveForeignKey" := by
  obtain ⟨n, rfl⟩ : ∃ n, fuel = n + 2 := ⟨fuel - 2, by omega⟩
  exact C06_resolve_cycle_here orc w dflt n [] (top, p) top p args value h hnd (by simp)

/-- two keys that refer to each other (`a: "$t(b)"`, `b: "$t(a)"`): rejected for every fuel ≥ 4,
    whatever the arguments -/
theorem C06_resolve_two_cycle (orc : Oracle) (w : World) (dflt : Fallbacks) (fuel : Nat) (top : Str)
    (pa pb : KeyPath) (argsA argsB : List (Str × PV)) (hne : pa ≠ pb)
    (ha : w.getValueAt top pa = .ok (some (.fk (.notSet pb argsB))))
    (hb : w.getValueAt top pb = .ok (some (.fk (.notSet pa argsA)))) (hf : 4 ≤ fuel) :
    resolvePV orc w dflt fuel [] (top, pa) top (.fk (.notSet pb argsB)) = .err "RecursiveForeignKey" := by
  obtain ⟨n, rfl⟩ : ∃ n, fuel = n + 4 := ⟨fuel - 4, by omega⟩
  have inner : resolvePV orc w dflt (n + 2) [(top, pa)] (top, pb) top (.fk (.notSet pa argsA))
      = .err "RecursiveForeignKey" :=
    C06_resolve_cycle_here orc w dflt n [(top, pa)] (top, pb) top pa argsA _ ha (by simp) (by simp)
  rw [resolvePV_notSet, resolveNode_succ,
    show findDefining w dflt (dflt.inherits.length + 2) [] top pb = _ from nodeWalk_here w dflt top pb hb (by simp)]
  have hc : ([(top, pa)] : List KeyId).contains (top, pb) = false := by
    simp; intro h; exact hne h.symm
  simp only [hc, inner]
  rfl

/-- (c) **Fuel only distinguishes "not enough".**  If a run with `fuel` did not end in
    `panic "fuel"`, every run with more fuel gives the same outcome (value, error or other panic).
    `resolvePV`/`resolveNode` are structurally recursive on the fuel, so they cannot loop. -/
theorem C06_resolve_fuel_monotone (orc : Oracle) (w : World) (dflt : Fallbacks) (visiting : List KeyId)
    (phys : KeyId) (top : Str) (v : PV) (fuel fuel' : Nat) (hle : fuel ≤ fuel')
    (hne : resolvePV orc w dflt fuel visiting phys top v ≠ .panic "fuel") :
    resolvePV orc w dflt fuel' visiting phys top v = resolvePV orc w dflt fuel visiting phys top v := by
  rcases resolvePV_mono orc w dflt visiting phys top v hle with h | h
  · exact absurd h hne
  · exact h

theorem C06_resolve_fuel_monotone_ok (orc : Oracle) (w : World) (dflt : Fallbacks) (visiting : List KeyId)
    (phys : KeyId) (top : Str) (v v' : PV) (fuel fuel' : Nat) (hle : fuel ≤ fuel')
    (h : resolvePV orc w dflt fuel visiting phys top v = .ok v') :
    resolvePV orc w dflt fuel' visiting phys top v = .ok v' := by
  rw [C06_resolve_fuel_monotone orc w dflt visiting phys top v fuel fuel' hle (by rw [h]; simp), h]

theorem C06_resolve_fuel_monotone_err (orc : Oracle) (w : World) (dflt : Fallbacks) (visiting : List KeyId)
    (phys : KeyId) (top : Str) (v : PV) (e : String) (fuel fuel' : Nat) (hle : fuel ≤ fuel')
    (h : resolvePV orc w dflt fuel visiting phys top v = .err e) :
    resolvePV orc w dflt fuel' visiting phys top v = .err e := by
  rw [C06_resolve_fuel_monotone orc w dflt visiting phys top v fuel fuel' hle (by rw [h]; simp), h]

/-- the same for a `$t(..)` node -/
theorem C06_resolveNode_fuel_monotone (orc : Oracle) (w : World) (dflt : Fallbacks) (visiting : List KeyId)
    (phys : KeyId) (top : Str) (target : KeyPath) (args : List (Str × PV))
    (fuel fuel' : Nat) (hle : fuel ≤ fuel')
    (hne : resolveNode orc w dflt fuel visiting phys top target args ≠ .panic "fuel") :
    resolveNode orc w dflt fuel' visiting phys top target args =
      resolveNode orc w dflt fuel visiting phys top target args := by
  rcases resolveNode_mono orc w dflt visiting phys top target args hle with h | h
  · exact absurd h hne
  · exact h

/-! ## 5. Order independence (partial) -/

/-- **Memoisation lemma.**  Resolving a value that is already fully resolved is the identity
    (given the fuel to walk over it): when key `k₂` refers to a key `k₁` that was resolved earlier,
    it finds the stored result and uses it unchanged — the stored result being, by purity of
    `resolvePV`, what resolving `k₁` from scratch gives. -/
theorem C06_order_independent_partial (orc : Oracle) (w : World) (dflt : Fallbacks) (vis : List KeyId)
    (phys : KeyId) (top : Str) (v : PV) (fuel : Nat) (hv : NoNotSet v = true) (hf : fuelNeed v ≤ fuel) :
    resolvePV orc w dflt fuel vis phys top v = .ok v :=
  resolvePV_id orc w dflt vis phys top v fuel hv hf

/-- **The cycle guard only ever turns a success into an error.**  If a value resolves while the keys
    `V` are in progress, it resolves to the same result with fewer keys in progress — in particular
    on its own (`V' = []`). -/
theorem C06_resolve_visiting_independent (orc : Oracle) (w : World) (dflt : Fallbacks) (fuel : Nat)
    (V V' : List KeyId) (phys : KeyId) (top : Str) (v v' : PV) (hs : ∀ x ∈ V', x ∈ V)
    (h : resolvePV orc w dflt fuel V phys top v = .ok v') :
    resolvePV orc w dflt fuel V' phys top v = .ok v' :=
  (resolve_vis orc w dflt fuel).1 V V' phys top v v' hs h

/-- **Chains.**  A key resolved as the target of a reference (at any depth of a chain: any keys in
    progress, any remaining fuel) gets the value it gets when it is resolved on its own — which is what
    makes the in-place, memoising implementation and the order of `resolve_foreign_keys` irrelevant
    for the *values* (together with `C06_order_independent_partial`). -/
theorem C06_chain_independent (orc : Oracle) (w : World) (dflt : Fallbacks) (fuel₁ fuel₂ : Nat)
    (V : List KeyId) (phys : KeyId) (top : Str) (v v₁ v₂ : PV)
    (h₁ : resolvePV orc w dflt fuel₁ V phys top v = .ok v₁)
    (h₂ : resolvePV orc w dflt fuel₂ [] phys top v = .ok v₂) : v₁ = v₂ := by
  have h₁' := C06_resolve_visiting_independent orc w dflt fuel₁ V [] phys top v v₁ (by simp) h₁
  rcases Nat.le_total fuel₁ fuel₂ with hle | hle
  · have := C06_resolve_fuel_monotone_ok orc w dflt [] phys top v v₁ fuel₁ fuel₂ hle h₁'
    rw [h₂] at this; exact (Res.ok.inj this).symm
  · have := C06_resolve_fuel_monotone_ok orc w dflt [] phys top v v₂ fuel₂ fuel₁ hle h₂
    rw [h₁'] at this; exact Res.ok.inj this

/-- the full statement (not proved in this file; proved for well-formed worlds, `WorldWF w`, as
    `C06_order_independent_full_of_wf` in `Theorems/C06Order.lean`): two orders of the registered paths that both succeed
    produce worlds in which every key renders the same in every environment.  (Only successful runs
    are compared: which *error* is reported first does depend on the order.) -/
def C06_order_independent_full_statement : Prop :=
  ∀ (orc : Oracle) (dflt : Fallbacks) (fuel : Nat) (w w₁ w₂ : World) (paths paths' : List (Str × KeyPath)),
    paths.Perm paths' →
    resolveAll orc dflt fuel paths w = .ok w₁ → resolveAll orc dflt fuel paths' w = .ok w₂ →
    ∀ (top : Str) (p : KeyPath) (v₁ v₂ : PV),
      w₁.getValueAt top p = .ok (some v₁) → w₂.getValueAt top p = .ok (some v₂) →
      ∀ ρ, Eval.eval ρ v₁ = Eval.eval ρ v₂

/-! ## 6. The repaired behaviour (F11/F20): a reference reads its target along the fallback walk -/

/-- "locale `x` defines `t`" — the presence predicate handed to the specification walk: a value is stored at
    `(x, t)` and it is not an explicit `null` -/
theorem C06_definesAt_iff (w : World) (t : KeyPath) (x : Str) :
    definesAt w t x = true ↔ ∃ v, w.getValueAt x t = .ok (some v) ∧ v ≠ .dflt := definesAt_iff

/--
**A reference reads its target in the effective locale of the target.**  For every world, configuration and
locale `top` of the reference, the fallback walk made by `resolveNode` (fuel `inherits.length + 2`)

* never runs out of fuel;
* when it returns `(src, v)`: `v` is the value stored at `(src, target)`, it is not an explicit `null`, and `src`
  is *exactly* the locale designated by the specification walk of C03, `Spec.Fallback.effective inherits default
  defined top` with `defined x :=` "a non-null value is stored at `(x, target)`" — the locale in which the accessor
  of `target` renders it for `top`.

No hypothesis on the configuration is needed for this direction (not even that the keys of `inherits` are distinct
or that the default locale has no `inherits` entry): both walks follow `AMap.get?`, and wherever they could part
(the walk reaches an undefined default locale) `findDefining` fails instead of returning a pair.
-/
theorem C06_target_from_fallback_walk (w : World) (fb : Fallbacks) (top : Str) (target : KeyPath) :
    findDefining w fb (fb.inherits.length + 2) [] top target ≠ .panic "fuel" ∧
    ∀ src v, findDefining w fb (fb.inherits.length + 2) [] top target = .ok (src, v) →
      w.getValueAt src target = .ok (some v) ∧ v ≠ .dflt ∧
      src = Spec.Fallback.effective fb.inherits fb.default (definesAt w target) top := by
  refine ⟨nodeWalk_no_fuel_panic w fb top target, fun src v h => ?_⟩
  obtain ⟨hs, hv⟩ := findDefining_ok_stored w fb _ _ _ _ _ _ h
  refine ⟨hs, hv, ?_⟩
  unfold Spec.Fallback.effective
  exact (findDefining_ok_walk w fb target _ _ [] top src v List.nodup_nil (by simp) (by simp) (by simp)
    (by simp) h).symm

/-- the fuel is irrelevant from `inherits.length + 2` on (and a panic of the walk is a panic of `get_value_at`:
    an emptied subkey group on the way to the target) -/
theorem C06_walk_fuel_irrelevant (w : World) (fb : Fallbacks) (top : Str) (target : KeyPath) (fuel : Nat)
    (hf : fb.inherits.length + 2 ≤ fuel) :
    findDefining w fb fuel [] top target = findDefining w fb (fb.inherits.length + 2) [] top target ∧
    ∀ p, findDefining w fb fuel [] top target = .panic p →
      p = "get_value_at: empty subkeys" ∧ ∃ x, w.getValueAt x target = .panic p := by
  refine ⟨findDefining_fuel_irrel w fb top target fuel hf, fun p h => ?_⟩
  obtain ⟨x, hx⟩ := findDefining_fuel w fb target fuel [] top List.nodup_nil (by simp) (by simp)
    (by simpa using hf) p h
  exact ⟨getValueAt_panic_site w x target p hx, x, hx⟩

/--
**The errors of the walk come from the default locale only.**  At every point of the walk and for every fuel:
an error of `findDefining` is `MissingForeignKey` and the default locale does not have the target, or
`ExplicitDefaultInDefault` and the default locale has an explicit `null` there.  (`get_value_at` has no error of its
own: `getValueAt_not_err`.)  In both cases the default locale does not define the target.
-/
theorem C06_missing_only_at_default (w : World) (fb : Fallbacks) (fuel : Nat) (visited : List Str) (cur : Str)
    (target : KeyPath) (e : String) (h : findDefining w fb fuel visited cur target = .err e) :
    ((e = "MissingForeignKey" ∧ w.getValueAt fb.default target = .ok none) ∨
     (e = "ExplicitDefaultInDefault" ∧ w.getValueAt fb.default target = .ok (some .dflt))) ∧
    definesAt w target fb.default = false := by
  have := findDefining_err_inv w fb target fuel visited cur e h
  refine ⟨this, ?_⟩
  rcases this with ⟨_, h'⟩ | ⟨_, h'⟩
  · exact definesAt_of_undef (.inl h')
  · exact definesAt_of_undef (.inr h')

/--
**Converse: the walk is complete.**  When the default locale has no `inherits` entry (guaranteed by `Config.new`,
`Proofs/Config.lean` `new_ok`: `AMap.contains d inherits = false`) and no lookup of the target panics, the outcome of
the walk is determined by the effective locale `e` of the target for `top`: if `e` defines the target the walk
returns `(e, value stored at (e, target))`; otherwise `e` is the default locale and the walk fails with one of the
two errors.  The hypothesis on the default locale is needed: with `default = en`, `inherits = [(en, fr)]`, target
defined in `fr` only, a reference in `en` fails although `effective … en = fr`.
-/
theorem C06_fallback_walk_complete (w : World) (fb : Fallbacks) (top : Str) (target : KeyPath)
    (hD : AMap.get? fb.default fb.inherits = none) (hp : ∀ x p, w.getValueAt x target ≠ .panic p) :
    let e := Spec.Fallback.effective fb.inherits fb.default (definesAt w target) top
    (definesAt w target e = true →
      ∃ v, findDefining w fb (fb.inherits.length + 2) [] top target = .ok (e, v) ∧
        w.getValueAt e target = .ok (some v)) ∧
    (definesAt w target e = false → e = fb.default ∧
      (findDefining w fb (fb.inherits.length + 2) [] top target = .err "MissingForeignKey" ∨
       findDefining w fb (fb.inherits.length + 2) [] top target = .err "ExplicitDefaultInDefault")) := by
  intro e
  cases hw : findDefining w fb (fb.inherits.length + 2) [] top target with
  | ok r =>
    obtain ⟨src, v⟩ := r
    obtain ⟨hs, hv, he⟩ := (C06_target_from_fallback_walk w fb top target).2 src v hw
    have he' : src = e := he
    subst he'
    refine ⟨fun _ => ⟨v, rfl, hs⟩, fun hn => ?_⟩
    rw [definesAt_of_stored hs hv] at hn; cases hn
  | panic p =>
    obtain ⟨x, hx⟩ := findDefining_fuel w fb target _ [] top List.nodup_nil (by simp) (by simp) (by simp) p hw
    exact absurd hx (hp x p)
  | err x =>
    have he : e = fb.default :=
      findDefining_err_walk w fb target hD _ (fb.inherits.length + 1) [] top x (by simp) (by simp) hw
    obtain ⟨hx, hdn⟩ := C06_missing_only_at_default w fb _ _ _ _ _ hw
    refine ⟨fun hdef => ?_, fun _ => ⟨he, ?_⟩⟩
    · rw [he, hdn] at hdef; cases hdef
    · rcases hx with ⟨rfl, _⟩ | ⟨rfl, _⟩
      · exact .inl rfl
      · exact .inr rfl

/--
**Arguments and population belong to the locale of the reference.**  One step of `resolveNode`, unfolded: the
walk (`findDefining`, which depends on neither the oracle nor the keys in progress) yields `(src, value)`; the value
is resolved as the key `(src, target)` *of locale `src`* (its own references are looked up from `src`), guarded
against cycles by that key; the arguments are resolved with lookup locale `top`, in the key `phys` of the
reference; and the target is populated with locale `top` — so the plural category of a literal count is the one of
the reference's locale — whatever `src` is.
-/
theorem C06_args_in_reference_locale (orc : Oracle) (w : World) (dflt : Fallbacks) (fuel : Nat)
    (vis : List KeyId) (phys : KeyId) (top : Str) (target : KeyPath) (args : List (Str × PV)) :
    resolveNode orc w dflt (fuel + 1) vis phys top target args =
      match findDefining w dflt (dflt.inherits.length + 2) [] top target with
      | .err e => .err e
      | .panic p => .panic p
      | .ok (src, value) =>
        if (phys :: vis).contains (src, target) then .err "RecursiveForeignKey" else
        match resolvePV orc w dflt fuel (phys :: vis) (src, target) src value with
        | .err e => .err e
        | .panic p => .panic p
        | .ok value' =>
          match resolveArgs orc w dflt fuel (phys :: vis) phys top args with
          | .err e => .err e
          | .panic p => .panic p
          | .ok args' =>
            match populate orc top args' value' with
            | .ok v => .ok (.fk (.set v))
            | .err e => .err e
            | .panic p => .panic p :=
  resolveNode_succ orc w dflt fuel vis phys top target args

/-- the same as a characterisation of success -/
theorem C06_args_in_reference_locale_ok (orc : Oracle) (w : World) (dflt : Fallbacks) (fuel : Nat)
    (vis : List KeyId) (phys : KeyId) (top : Str) (target : KeyPath) (args : List (Str × PV)) (r : PV) :
    resolveNode orc w dflt (fuel + 1) vis phys top target args = .ok r ↔
      ∃ src value value' args' v,
        findDefining w dflt (dflt.inherits.length + 2) [] top target = .ok (src, value) ∧
        (src, target) ∉ phys :: vis ∧
        resolvePV orc w dflt fuel (phys :: vis) (src, target) src value = .ok value' ∧
        resolveArgs orc w dflt fuel (phys :: vis) phys top args = .ok args' ∧
        populate orc top args' value' = .ok v ∧ r = .fk (.set v) := by
  constructor
  · exact resolveNode_ok_inv_walk orc w dflt fuel vis phys top target args
  · rintro ⟨src, value, value', args', v, hfd, hin, hv, ha, hp, rfl⟩
    exact resolveNode_ok_eq_walk orc w dflt fuel vis phys top target args hfd (by simpa using hin) hv ha hp

/-- and the rendering: for every environment `ρ` agreeing with the oracle *of `top`*, the resolved reference shows
    what the resolved target shows with the resolved arguments substituted (`C06_resolveNode_sound` needs no
    relation between `ρ` and the oracle of `src`) -/
theorem C06_reference_renders_in_top (orc : Oracle) (w : World) (dflt : Fallbacks) (fuel : Nat)
    (vis : List KeyId) (phys : KeyId) (top : Str) (target : KeyPath) (args : List (Str × PV)) (r : PV)
    (hr : resolveNode orc w dflt (fuel + 1) vis phys top target args = .ok r) :
    ∃ src value value' args',
      findDefining w dflt (dflt.inherits.length + 2) [] top target = .ok (src, value) ∧
      src = Spec.Fallback.effective dflt.inherits dflt.default (definesAt w target) top ∧
      w.getValueAt src target = .ok (some value) ∧
      resolvePV orc w dflt fuel (phys :: vis) (src, target) src value = .ok value' ∧
      resolveArgs orc w dflt fuel (phys :: vis) phys top args = .ok args' ∧
      ∀ ρ, OracleAgrees orc top ρ → PluralsWf value' = true →
        Eval.eval ρ r = Eval.eval (substEnv ρ args') value' := by
  obtain ⟨src, value, value', args', v, hfd, _, hv, ha, hp, rfl⟩ :=
    resolveNode_ok_inv_walk orc w dflt fuel vis phys top target args hr
  obtain ⟨hs, _, he⟩ := (C06_target_from_fallback_walk w dflt top target).2 src value hfd
  refine ⟨src, value, value', args', hfd, he, hs, hv, ha, fun ρ hO hwf => ?_⟩
  simp only [Eval.eval]
  exact C06_populate_subst orc top args' ρ value' v hO hwf hp

/-! ## Examples -/

namespace Ex
def kp (k : String) : KeyPath := ⟨none, [k.toList]⟩
def s (x : String) : PV := .lit (.str x.toList none)
def en : Str := "en".toList
/-- one locale, which is the default one, no `inherits` -/
def fbEn : Fallbacks := ⟨en, []⟩
def mkWorld (keys : List (Str × PV)) : World := ⟨false, [⟨none, [Loc.mk en en keys [] 0]⟩]⟩
theorem mkWorld_get (keys : List (Str × PV)) (k : String) :
    (mkWorld keys).getValueAt en (kp k) = .ok (AMap.get? k.toList keys) :=
  getValueAt_flat _ _ _ _ _ _

/-- a parse-time oracle and a run-time environment that agree (and are not constant):
    integers are `one`, the table has no floats -/
def orc : Oracle :=
  ⟨fun _ _ => some [.one, .other], fun _ _ key => match key with | 'f' :: _ => none | _ => some .one⟩
def ρ : Eval.Env where
  var := fun k _ => '{' :: k ++ ['}']
  comp := fun k inner => '<' :: k ++ ['>'] ++ inner ++ ['<', '/'] ++ k ++ ['>']
  count := fun _ => ⟨7, 0⟩
  cat := fun _ d => if d.e == 0 then .one else .other

theorem orc_agrees : OracleAgrees orc en ρ := by
  intro rule l d f hd hc
  cases l with
  | str _ _ => simp [litDec] at hd
  | bool _ => simp [litDec] at hd
  | unsigned n =>
    simp only [litDec, Option.some.injEq] at hd; subst hd
    have : operandKey (.unsigned n) = 'u' :: ':' :: Str.natToStr n := rfl
    simp [orc, this] at hc
    subst hc; rfl
  | signed i =>
    simp only [litDec, Option.some.injEq] at hd; subst hd
    have : operandKey (.signed i) = 'i' :: ':' :: Str.intToStr i := rfl
    simp [orc, this] at hc
    subst hc; rfl
  | float x =>
    have : operandKey (.float x) = 'f' :: ':' :: x.display := rfl
    simp [orc, this] at hc

/-! chain `a → b → c`, the argument of `a` reaches `c` through `b`:
    `a: "$t(b, {"x": "Bob"})"`, `b: "<i>$t(c, {"y": "{{ x }}"})</i>"`, `c: "Hi {{ y }}"` -/
def vc : PV := .bloc [s "Hi ", .var "y".toList .none]
def vb : PV := .comp "i".toList (.fk (.notSet (kp "c") [("y".toList, .var "x".toList .none)]))
def va : PV := .fk (.notSet (kp "b") [("x".toList, s "Bob")])
def keys3 : List (Str × PV) := [("a".toList, va), ("b".toList, vb), ("c".toList, vc)]
def w3 : World := mkWorld keys3

example : resolvePV orc w3 fbEn 10 [] (en, kp "a") en va
    = .ok (.fk (.set (.comp "i".toList (.bloc [s "Hi ", s "Bob"])))) := by
  have hc : resolveNode orc w3 fbEn 6 [(en, kp "a")] (en, kp "b") en (kp "c")
      [("y".toList, .var "x".toList .none)] = .ok (.fk (.set (.bloc [s "Hi ", .var "x".toList .none]))) :=
    resolveNode_ok_eq (value := vc) (value' := vc) (args' := [("y".toList, .var "x".toList .none)])
      orc w3 fbEn 5 _ _ en (kp "c") _
      (mkWorld_get keys3 "c") (by simp [vc]) (by decide)
      (resolvePV_id _ _ _ _ _ _ _ _ (by decide) (by decide))
      (resolveArgs_id _ _ _ _ _ _ _ _ (by decide) (by decide)) rfl
  have hb : resolvePV orc w3 fbEn 8 [(en, kp "a")] (en, kp "b") en vb
      = .ok (.comp "i".toList (.fk (.set (.bloc [s "Hi ", .var "x".toList .none])))) := by
    rw [vb, resolvePV_comp, resolvePV_notSet, hc]; rfl
  rw [va, resolvePV_notSet]
  exact resolveNode_ok_eq (value := vb) (args' := [("x".toList, s "Bob")])
      orc w3 fbEn 8 _ _ en (kp "b") _
      (mkWorld_get keys3 "b") (by simp [vb]) (by decide) hb
      (resolveArgs_id _ _ _ _ _ _ _ _ (by decide) (by decide)) rfl

example : Eval.eval ρ (.fk (.set (.comp "i".toList (.bloc [s "Hi ", s "Bob"])))) = "<i>Hi Bob</i>".toList := by
  decide

/-- the hypotheses of `C06_resolved_no_notset` hold for this world and value … -/
example : WorldClosed w3 :=
  worldClosed_flat _ _ _ _ _
    (by
      intro k v h
      simp only [keys3, AMap.get?] at h
      repeat' split at h
      all_goals (first | (simp only [Option.some.injEq] at h; subst h; exact .inr (by decide)) | simp at h))
    (by
      intro k l h
      simp only [keys3, AMap.get?] at h
      repeat' split at h
      all_goals (first | (simp [va, vb, vc] at h; done) | simp at h))
example : SetClosed va = true := by decide
/-- … and its conclusion for the value computed above -/
example : NoNotSet (.fk (.set (.comp "i".toList (.bloc [s "Hi ", s "Bob"])))) = true := by decide

/-- what `a` shows = what (resolved) `b` shows with `x := "Bob"` -/
example : Eval.eval ρ (.fk (.set (.comp "i".toList (.bloc [s "Hi ", s "Bob"]))))
    = Eval.eval (substEnv ρ [("x".toList, s "Bob")])
        (.comp "i".toList (.fk (.set (.bloc [s "Hi ", .var "x".toList .none])))) := by decide

/-! a literal `count` selects the range branch (and replaces `{{ count }}` inside it) -/
def vr : PV := .ranges "var_count".toList .i32
  [(.exact ⟨0, 0⟩, s "none"),
   (.bounds (some ⟨1, 0⟩) (.incl ⟨5, 0⟩), .bloc [.var "var_count".toList .none, s " few"]),
   (.fallback, s "many")]
def count3 : List (Str × PV) := [("var_count".toList, .lit (.unsigned 3))]

example : populate orc en count3 vr = .ok (.bloc [.lit (.unsigned 3), s " few"]) := rfl
example : Eval.eval ρ (.bloc [.lit (.unsigned 3), s " few"]) = "3 few".toList := by decide
example : Eval.eval (substEnv ρ count3) vr = "3 few".toList := by decide
/-- out of the type's range / wrong kind of number: rejected -/
example : populate orc en [("var_count".toList, .lit (.signed (-1)))]
    (.ranges "var_count".toList .u8 [(.fallback, s "x")]) = .err "CountArgOutsideRange" := rfl
example : populate orc en [("var_count".toList, .lit (.float ⟨15, 1⟩))] vr = .err "InvalidCountArgType" := rfl

/-- the same through a reference in a world: `r: {range}`, `k: "$t(r, {"count": 3})"` -/
def keysR : List (Str × PV) := [("k".toList, .fk (.notSet (kp "r") count3)), ("r".toList, vr)]
example : resolvePV orc (mkWorld keysR) fbEn 9 [] (en, kp "k") en (.fk (.notSet (kp "r") count3))
    = .ok (.fk (.set (.bloc [.lit (.unsigned 3), s " few"]))) := by
  rw [resolvePV_notSet]
  exact resolveNode_ok_eq (value := vr) (args' := count3) orc _ fbEn 7 _ _ en (kp "r") _
    (mkWorld_get keysR "r") (by simp [vr]) (by decide)
    (resolvePV_id _ _ _ _ _ _ _ _ (by decide) (by decide))
    (resolveArgs_id _ _ _ _ _ _ _ _ (by decide) (by decide)) rfl

/-! a `{{ n }}` count renames the count variable; the branches keep being populated -/
def countN : List (Str × PV) := [("var_count".toList, .bloc [s " ", .var "var_n".toList .none])]
example : populate orc en countN vr = .ok (.ranges "var_n".toList .i32
    [(.exact ⟨0, 0⟩, s "none"),
     (.bounds (some ⟨1, 0⟩) (.incl ⟨5, 0⟩),
        .bloc [.bloc [s " ", .var "var_n".toList .none], s " few"]),
     (.fallback, s "many")]) := rfl
example : populate orc en [("var_count".toList, .bloc [s "n = ", .var "var_n".toList .none])] vr
    = .err "InvalidCountArg" := rfl

/-! a literal `count` selects the plural form through the oracle -/
def vp : PV := .plurals .cardinal "var_count".toList
  (.bloc [.var "var_count".toList .none, s " items"]) [(.one, s "one item")]
example : PluralsWf vp = true := by decide
example : populate orc en count3 vp = .ok (s "one item") := rfl
example : Eval.eval (substEnv ρ count3) vp = "one item".toList := by decide
/-- the oracle table of this example has no floats: the one panic of `populate` -/
example : populate orc en [("var_count".toList, .lit (.float ⟨15, 1⟩))] vp
    = .panic "oracle: plural category missing" := rfl

/-- `PluralsWf` is needed in `C06_populate_subst`: with `other` listed among the forms the target
    itself shows the *form* (the accessor matches the forms first) while `populate` takes the field -/
def orcOther : Oracle := ⟨fun _ _ => some [.other], fun _ _ _ => some .other⟩
def ρOther : Eval.Env := { ρ with cat := fun _ _ => .other }
def vBad : PV := .plurals .cardinal "var_count".toList (s "field") [(.other, s "form")]
example : OracleAgrees orcOther en ρOther := fun _ _ _ _ _ h => by
  simp only [orcOther, Option.some.injEq] at h; exact h.symm
example : PluralsWf vBad = false := by decide
example : populate orcOther en count3 vBad = .ok (s "field") := rfl
example : Eval.eval ρOther (s "field") ≠ Eval.eval (substEnv ρOther count3) vBad := by decide

/-! a subkey group as target, directly or below a component -/
example : HasSubkeys (isLitCount count3) (.comp "b".toList (.subkeys none)) = true := by decide
example : populate orc en count3 (.comp "b".toList (.subkeys none)) = .err "InvalidForeignKey" := rfl
/-- … but in a branch that a literal count does not select it is not seen -/
example : populate orc en count3 (.ranges "var_count".toList .i32 [(.exact ⟨0, 0⟩, .subkeys none), (.fallback, s "x")])
    = .ok (s "x") := rfl

/-! cycles: `a: "$t(a)"`; `a: "$t(b)"`, `b: "$t(a)"` — for every fuel ≥ 2 / ≥ 4 -/
def keysSelf : List (Str × PV) := [("a".toList, .fk (.notSet (kp "a") []))]
example (fuel : Nat) (h : 2 ≤ fuel) :
    resolvePV orc (mkWorld keysSelf) fbEn fuel [] (en, kp "a") en (.fk (.notSet (kp "a") []))
      = .err "RecursiveForeignKey" :=
  C06_resolve_self_reference orc _ fbEn fuel en (kp "a") [] _ (mkWorld_get keysSelf "a") (by simp) h

def keysCycle : List (Str × PV) :=
  [("a".toList, .fk (.notSet (kp "b") [])), ("b".toList, .fk (.notSet (kp "a") []))]
example (fuel : Nat) (h : 4 ≤ fuel) :
    resolvePV orc (mkWorld keysCycle) fbEn fuel [] (en, kp "a") en (.fk (.notSet (kp "b") []))
      = .err "RecursiveForeignKey" :=
  C06_resolve_two_cycle orc _ fbEn fuel en (kp "a") (kp "b") [] [] (by decide)
    (mkWorld_get keysCycle "a") (mkWorld_get keysCycle "b") h
/-- with too little fuel the answer is "not enough fuel", never a wrong value -/
example : resolvePV orc (mkWorld keysCycle) fbEn 3 [] (en, kp "a") en (.fk (.notSet (kp "b") []))
      = .panic "fuel" := by
  rw [resolvePV_notSet, resolveNode_succ,
    show findDefining (mkWorld keysCycle) fbEn (fbEn.inherits.length + 2) [] en (kp "b") = _ from
      nodeWalk_here _ fbEn en (kp "b") (mkWorld_get keysCycle "b") (by simp)]
  rfl
/-- a missing target -/
example (fuel : Nat) :
    resolvePV orc (mkWorld keysCycle) fbEn (fuel + 2) [] (en, kp "a") en (.fk (.notSet (kp "zz") []))
      = .err "MissingForeignKey" :=
  C06_resolve_missing_default orc _ fbEn fuel [] _ en (kp "zz") [] (mkWorld_get keysCycle "zz") rfl

/-! ### three locales: `fr-CA` inherits `fr`, default `en`; `greet` is `null` in `fr-CA`, defined in `fr`
    (the situation of defects F11/F20) -/
def fr : Str := "fr".toList
def frCA : Str := "fr-CA".toList
def fb3 : Fallbacks := ⟨en, [(frCA, fr)]⟩
def mkWorld3 (ken kfr kca : List (Str × PV)) : World :=
  ⟨false, [⟨none, [Loc.mk en en ken [] 0, Loc.mk fr fr kfr [] 0, Loc.mk frCA frCA kca [] 0]⟩]⟩
theorem mkWorld3_get_en (ken kfr kca : List (Str × PV)) (k : String) :
    (mkWorld3 ken kfr kca).getValueAt en (kp k) = .ok (AMap.get? k.toList ken) := by
  simp [mkWorld3, World.getValueAt, Loc.name, World.locGet, Loc.keys, kp, en, fr, frCA]
theorem mkWorld3_get_fr (ken kfr kca : List (Str × PV)) (k : String) :
    (mkWorld3 ken kfr kca).getValueAt fr (kp k) = .ok (AMap.get? k.toList kfr) := by
  simp [mkWorld3, World.getValueAt, Loc.name, World.locGet, Loc.keys, kp, en, fr, frCA]
theorem mkWorld3_get_ca (ken kfr kca : List (Str × PV)) (k : String) :
    (mkWorld3 ken kfr kca).getValueAt frCA (kp k) = .ok (AMap.get? k.toList kca) := by
  simp [mkWorld3, World.getValueAt, Loc.name, World.locGet, Loc.keys, kp, en, fr, frCA]

def greetEn : PV := .bloc [s "Hello ", .var "name".toList .none]
def greetFr : PV := .bloc [s "Bonjour ", .var "name".toList .none]
def argsLuc : List (Str × PV) := [("name".toList, s "Luc")]
def kEn : List (Str × PV) := [("greet".toList, greetEn)]
def kFr : List (Str × PV) := [("greet".toList, greetFr)]
def kCa : List (Str × PV) := [("greet".toList, .dflt), ("hi".toList, .fk (.notSet (kp "greet") argsLuc))]
def wL : World := mkWorld3 kEn kFr kCa

/-- `C06_target_from_fallback_walk`: from `fr-CA` the walk finds `greet` in `fr` (not in `en`, as before the repair) -/
theorem wL_walk : findDefining wL fb3 (fb3.inherits.length + 2) [] frCA (kp "greet") = .ok (fr, greetFr) := by
  have h1 : wL.getValueAt frCA (kp "greet") = .ok (some .dflt) := mkWorld3_get_ca kEn kFr kCa "greet"
  have h2 : wL.getValueAt fr (kp "greet") = .ok (some greetFr) := mkWorld3_get_fr kEn kFr kCa "greet"
  have hn : nextLocale fb3 [frCA] frCA = fr := by decide
  rw [show fb3.inherits.length + 2 = 2 + 1 from rfl,
    findDefining_step wL fb3 2 [] frCA (kp "greet") (.inr h1) (by decide), hn]
  exact findDefining_here wL fb3 1 [frCA] fr (kp "greet") h2 (by simp [greetFr])
/-- … which is the effective locale of `greet` for `fr-CA` (the instance of the theorem) -/
example : Spec.Fallback.effective fb3.inherits fb3.default (definesAt wL (kp "greet")) frCA = fr :=
  (((C06_target_from_fallback_walk wL fb3 frCA (kp "greet")).2 fr greetFr wL_walk).2.2).symm
example : wL.getValueAt fr (kp "greet") = .ok (some greetFr) ∧ greetFr ≠ .dflt :=
  let h := (C06_target_from_fallback_walk wL fb3 frCA (kp "greet")).2 fr greetFr wL_walk
  ⟨h.1, h.2.1⟩
/-- the hypotheses of `C06_fallback_walk_complete` hold here -/
example : AMap.get? fb3.default fb3.inherits = none := by decide

/-- the reference `hi` of `fr-CA` gets the French text -/
example : resolvePV orc wL fb3 9 [] (frCA, kp "hi") frCA (.fk (.notSet (kp "greet") argsLuc))
    = .ok (.fk (.set (.bloc [s "Bonjour ", s "Luc"]))) := by
  rw [resolvePV_notSet]
  exact resolveNode_ok_eq_walk (value := greetFr) (args' := argsLuc) orc wL fb3 7 _ _ frCA (kp "greet") _
    wL_walk (by decide)
    (resolvePV_id _ _ _ _ _ _ _ _ (by decide) (by decide))
    (resolveArgs_id _ _ _ _ _ _ _ _ (by decide) (by decide)) rfl
example : Eval.eval ρ (.fk (.set (.bloc [s "Bonjour ", s "Luc"]))) = "Bonjour Luc".toList := by decide

/-- `C06_missing_only_at_default`: a key that no locale has — the error comes from the default locale -/
example : findDefining wL fb3 (fb3.inherits.length + 2) [] frCA (kp "zz") = .err "MissingForeignKey" := by
  have h1 : wL.getValueAt frCA (kp "zz") = .ok none := mkWorld3_get_ca kEn kFr kCa "zz"
  have h2 : wL.getValueAt fr (kp "zz") = .ok none := mkWorld3_get_fr kEn kFr kCa "zz"
  have h3 : wL.getValueAt en (kp "zz") = .ok none := mkWorld3_get_en kEn kFr kCa "zz"
  have hn : nextLocale fb3 [frCA] frCA = fr := by decide
  have hn' : nextLocale fb3 [fr, frCA] fr = en := by decide
  rw [show fb3.inherits.length + 2 = 2 + 1 from rfl,
    findDefining_step wL fb3 2 [] frCA (kp "zz") (.inl h1) (by decide), hn,
    findDefining_step wL fb3 1 [frCA] fr (kp "zz") (.inl h2) (by decide), hn']
  exact findDefining_default_none wL fb3 0 _ en (kp "zz") h3 (by decide)

/-! `C06_args_in_reference_locale`: the plural category of a literal count is the one of the locale of the
    reference.  The oracle of this example puts `0` in category `one` for `fr-CA` and in `other` elsewhere; the
    plural lives in `fr`, the reference in `fr-CA`. -/
def orcL : Oracle :=
  ⟨fun _ _ => some [.one, .other], fun l _ _ => if l == frCA then some .one else some .other⟩
def nb : PV := .plurals .cardinal "var_count".toList (s "des pommes") [(.one, s "une pomme")]
def count0 : List (Str × PV) := [("var_count".toList, .lit (.unsigned 0))]
def kFrP : List (Str × PV) := [("nb".toList, nb)]
def kCaP : List (Str × PV) := [("k".toList, .fk (.notSet (kp "nb") count0))]
def wP : World := mkWorld3 [] kFrP kCaP
theorem wP_walk : findDefining wP fb3 (fb3.inherits.length + 2) [] frCA (kp "nb") = .ok (fr, nb) := by
  have h1 : wP.getValueAt frCA (kp "nb") = .ok none := mkWorld3_get_ca [] kFrP kCaP "nb"
  have h2 : wP.getValueAt fr (kp "nb") = .ok (some nb) := mkWorld3_get_fr [] kFrP kCaP "nb"
  have hn : nextLocale fb3 [frCA] frCA = fr := by decide
  rw [show fb3.inherits.length + 2 = 2 + 1 from rfl,
    findDefining_step wP fb3 2 [] frCA (kp "nb") (.inl h1) (by decide), hn]
  exact findDefining_here wP fb3 1 [frCA] fr (kp "nb") h2 (by simp [nb])
example : resolvePV orcL wP fb3 9 [] (frCA, kp "k") frCA (.fk (.notSet (kp "nb") count0))
    = .ok (.fk (.set (s "une pomme"))) := by
  rw [resolvePV_notSet, C06_args_in_reference_locale, wP_walk]
  have hv : resolvePV orcL wP fb3 7 [(frCA, kp "k")] (fr, kp "nb") fr nb = .ok nb :=
    resolvePV_id _ _ _ _ _ _ _ _ (by decide) (by decide)
  have ha : resolveArgs orcL wP fb3 7 [(frCA, kp "k")] (frCA, kp "k") frCA count0 = .ok count0 :=
    resolveArgs_id _ _ _ _ _ _ _ _ (by decide) (by decide)
  have hc : ([(frCA, kp "k")] : List KeyId).contains (fr, kp "nb") = false := by decide
  simp only [hc, hv, ha]
  rfl
/-- populated in the locale the value came from, the other form would have been chosen -/
example : populate orcL fr count0 nb = .ok (s "des pommes") := rfl
example : populate orcL frCA count0 nb = .ok (s "une pomme") := rfl

/-- the hypothesis of `C06_fallback_walk_complete` on the default locale is needed: here the default locale `en`
    has an `inherits` entry; a reference made in `en` fails although the specification walk goes on to `fr` -/
def fbBad : Fallbacks := ⟨en, [(en, fr)]⟩
def wB : World := mkWorld3 [] kFr []
example : findDefining wB fbBad (fbBad.inherits.length + 2) [] en (kp "greet") = .err "MissingForeignKey" :=
  findDefining_default_none wB fbBad 2 [] en (kp "greet") (mkWorld3_get_en [] kFr [] "greet") (by decide)
example : Spec.Fallback.effective fbBad.inherits fbBad.default (definesAt wB (kp "greet")) en = fr := by
  have h1 : definesAt wB (kp "greet") en = false :=
    definesAt_of_undef (.inl (mkWorld3_get_en [] kFr [] "greet"))
  have h2 : definesAt wB (kp "greet") fr = true :=
    definesAt_of_stored (mkWorld3_get_fr [] kFr [] "greet") (by simp [greetFr])
  have hg : AMap.get? en fbBad.inherits = some fr := by decide
  have hl : fbBad.inherits.length = 1 := rfl
  simp only [Spec.Fallback.effective, hl, Spec.Fallback.walk, h1, h2, hg, List.contains_nil, Bool.false_eq_true,
    if_false, if_true]
end Ex

end I18nVerif.Foreign
