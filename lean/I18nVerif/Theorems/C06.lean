import I18nVerif.Proofs.Foreign
/-!
# C06 — Foreign keys are pure substitution

Model: `I18nVerif.Model.Foreign` (`parsed_value.rs:441-579`, `ranges.rs:455-748`, `plurals.rs:113-253`,
`mod.rs:115-127`).  Denotation: `I18nVerif.Spec.Eval`.  Specification: `I18nVerif.Spec.Subst`
(`substEnv`, `OracleAgrees`, the tree predicates).

All theorems quantify over every value tree, every argument map, every world and every amount of
fuel; nothing is bounded.
-/
namespace I18nVerif.Foreign
open I18nVerif I18nVerif.Subst

/-! ## 1. `populate` is substitution -/

/--
**Main theorem.**  If `populate` succeeds, the value it builds renders — in *every* environment
`ρ` whose plural oracle agrees with the parse-time one — exactly what the target renders in the
substituted environment `substEnv ρ args`: supplied arguments replace the variables of that
name (wherever they occur: below components, inside range branches and plural forms, inside
already resolved foreign keys); a literal `count` fixes the count of every range and plural;
a `{{ var }}` count renames their count variable.

Side condition `PluralsWf v`: no plural of the target lists `other` among its `forms` (the parser
keeps `other` in a separate field, `Model/Plurals.lean:54`).  It is needed: see the `example`
below the theorem.
-/
theorem C06_populate_subst (orc : Oracle) (locale : Str) (args : List (Str × PV)) (ρ : Eval.Env)
    (v v' : PV) (hO : OracleAgrees orc locale ρ) (hwf : PluralsWf v = true)
    (h : populate orc locale args v = .ok v') :
    Eval.eval ρ v' = Eval.eval (substEnv ρ args) v :=
  populate_subst orc locale args ρ hO v v' hwf h

/-- `PluralsWf` is preserved by `populate` (arguments well formed too), so the main theorem can be
    applied along a chain of references. -/
theorem C06_populate_preserves_pluralsWf (orc : Oracle) (locale : Str) (args : List (Str × PV))
    (v v' : PV) (hA : PluralsWfK args = true) (hwf : PluralsWf v = true)
    (h : populate orc locale args v = .ok v') : PluralsWf v' = true :=
  populate_PluralsWf orc locale args hA v v' hwf h

/-- the oracle hypothesis only looks at `ρ.cat`, which substitution does not touch -/
theorem C06_oracleAgrees_substEnv (orc : Oracle) (locale : Str) (args : List (Str × PV)) (ρ : Eval.Env)
    (hO : OracleAgrees orc locale ρ) : OracleAgrees orc locale (substEnv ρ args) :=
  fun rule l d f hd hc => hO rule l d f hd hc

/-- **Chains of references.**  Populating twice (a key that refers to a key that refers to `v`)
    is substitution twice: the inner arguments are read in the environment made by the outer ones. -/
theorem C06_populate_chain (orc : Oracle) (locale : Str) (args₁ args₂ : List (Str × PV)) (ρ : Eval.Env)
    (v v₁ v₂ : PV) (hO : OracleAgrees orc locale ρ) (hwf : PluralsWf v = true)
    (hA : PluralsWfK args₁ = true)
    (h₁ : populate orc locale args₁ v = .ok v₁) (h₂ : populate orc locale args₂ v₁ = .ok v₂) :
    Eval.eval ρ v₂ = Eval.eval (substEnv (substEnv ρ args₂) args₁) v := by
  rw [C06_populate_subst orc locale args₂ ρ v₁ v₂ hO
    (C06_populate_preserves_pluralsWf orc locale args₁ v v₁ hA hwf h₁) h₂]
  exact C06_populate_subst orc locale args₁ (substEnv ρ args₂) v v₁
    (C06_oracleAgrees_substEnv orc locale args₂ ρ hO) hwf h₁

/-- **A resolved reference renders what its target renders, arguments substituted.**
    Whatever the resolution of a `$t(target, args)` node returns is `Set r'` where `r'` renders, under
    every `ρ`, as the *resolved* target value under `substEnv ρ args'` (`args'` = the resolved
    arguments).  The statement does not mention the position of the keys in the file, nor the
    namespace part of `target`: resolution is a function of `getValueAt` only. -/
theorem C06_resolveNode_sound (orc : Oracle) (w : World) (dflt : Str) (fuel : Nat) (vis : List KeyId)
    (phys : KeyId) (top : Str) (target : KeyPath) (args : List (Str × PV)) (mj : Bool) (value r : PV)
    (hget : w.getValueAt top target = .ok (some value)) (hnd : value ≠ .dflt)
    (hr : resolveNode orc w dflt (fuel + 1) vis phys top target args mj = .ok r) :
    ∃ value' args',
      resolvePV orc w dflt fuel (phys :: vis) (top, target) top value = .ok value' ∧
      resolveArgs orc w dflt fuel (phys :: vis) phys top args = .ok args' ∧
      ∀ ρ, OracleAgrees orc top ρ → PluralsWf value' = true →
        Eval.eval ρ r = Eval.eval (substEnv ρ args') value' := by
  obtain ⟨value', args', v, _, hv, ha, hp, rfl⟩ :=
    resolveNode_ok_inv orc w dflt fuel vis phys top target args mj hget hnd hr
  refine ⟨value', args', hv, ha, fun ρ hO hwf => ?_⟩
  simp only [Eval.eval]
  exact C06_populate_subst orc top args' ρ value' v hO hwf hp

/-- an explicit `null` target: the reference is resolved against the default locale instead
    (once: a `null` there is an error) -/
theorem C06_resolveNode_default_jump (orc : Oracle) (w : World) (dflt : Str) (fuel : Nat)
    (vis : List KeyId) (phys : KeyId) (top : Str) (target : KeyPath) (args : List (Str × PV)) (mj : Bool)
    (hget : w.getValueAt top target = .ok (some .dflt)) :
    resolveNode orc w dflt (fuel + 1) vis phys top target args mj =
      if top == dflt || !mj then .err "ExplicitDefaultInDefault"
      else resolveNode orc w dflt fuel vis phys dflt target args false := by
  rw [resolveNode_succ, hget]

/-! ## 2. Rejections and the only panic -/

/-- the target is a subkey group: rejected -/
theorem C06_populate_subkeys_rejected (orc : Oracle) (locale : Str) (args : List (Str × PV))
    (l : Option Loc) : populate orc locale args (.subkeys l) = .err "InvalidForeignKey" := by
  simp only [populate]

/-- **`populate` never succeeds on a value containing a subkey group** at a place it visits: below
    components, blocs, resolved foreign keys — and, unless the count argument is a literal (then only
    the selected branch is looked at and the others are dropped), in any range branch or plural form.
    (The outcome is `InvalidForeignKey`, or an error/panic raised earlier in the traversal.) -/
theorem C06_populate_errors (orc : Oracle) (locale : Str) (args : List (Str × PV)) (v : PV)
    (hs : HasSubkeys (isLitCount args) v = true) : ∀ v', populate orc locale args v ≠ .ok v' :=
  fun v' => populate_hasSubkeys orc locale args v v' hs

/-- a reference whose target is a subkey group is never resolved; when the arguments resolve and
    there is no cycle the error is `InvalidForeignKey` -/
theorem C06_resolveNode_subkeys_target (orc : Oracle) (w : World) (dflt : Str) (fuel : Nat)
    (vis : List KeyId) (phys : KeyId) (top : Str) (target : KeyPath) (args : List (Str × PV)) (mj : Bool)
    (l : Option Loc) (hget : w.getValueAt top target = .ok (some (.subkeys l))) :
    (∀ r, resolveNode orc w dflt (fuel + 2) vis phys top target args mj ≠ .ok r) ∧
    (∀ args', (top, target) ∉ phys :: vis →
      resolveArgs orc w dflt (fuel + 1) (phys :: vis) phys top args = .ok args' →
      resolveNode orc w dflt (fuel + 2) vis phys top target args mj = .err "InvalidForeignKey") := by
  have hv : resolvePV orc w dflt (fuel + 1) (phys :: vis) (top, target) top (.subkeys l) = .ok (.subkeys l) := by
    simp only [resolvePV]
  constructor
  · intro r hr
    obtain ⟨value', args', v, _, hv', _, hp, _⟩ :=
      resolveNode_ok_inv orc w dflt (fuel + 1) vis phys top target args mj hget (by simp) hr
    rw [hv] at hv'
    simp only [Res.ok.injEq] at hv'
    subst hv'
    simp [populate] at hp
  · intro args' hin ha
    rw [resolveNode_succ, hget]
    have hc : (phys :: vis).contains (top, target) = false := by
      simpa using hin
    simp only [hc, hv, ha, populate]
    rfl

/-- **The only panic.**  If `populate` panics, the site is `oracle: plural category missing`, the
    count argument is a literal number and the oracle table has no entry for it although the locale
    supports the rule type. -/
theorem C06_populate_panic_exact (orc : Oracle) (locale : Str) (args : List (Str × PV)) (v : PV)
    (p : String) (h : populate orc locale args v = .panic p) : PanicWitness orc locale args p :=
  populate_panic orc locale args v p h

/-- with a total oracle (what ICU4X is) `populate` never panics -/
theorem C06_populate_no_panic (orc : Oracle) (locale : Str) (args : List (Str × PV)) (v : PV)
    (hT : OracleTotal orc locale) : ∀ p, populate orc locale args v ≠ .panic p := by
  intro p h
  obtain ⟨_, l, d, rule, _, hd, hcs, hc⟩ := C06_populate_panic_exact orc locale args v p h
  exact hT rule l d hd hcs hc

/-- … and the characterisation is exact: such a gap in the table does make `populate` panic on a
    plural of that rule type -/
theorem C06_populate_panic_reached (orc : Oracle) (locale : Str) (args : List (Str × PV))
    (rule : RuleTy) (ck : Str) (other : PV) (forms : List (Form × PV)) (l : Lit) (d : Dec)
    (hg : AMap.get? countArgName args = some (.lit l)) (hd : litDec l = some d)
    (hcs : orc.cats locale rule ≠ none) (hc : orc.cat locale rule (operandKey l) = none) :
    populate orc locale args (.plurals rule ck other forms) = .panic "oracle: plural category missing" := by
  simp only [populate, hg]
  cases l with
  | str s i => simp [litDec] at hd
  | bool b => simp [litDec] at hd
  | signed i =>
    cases hcs' : orc.cats locale rule with
    | none => exact absurd hcs' hcs
    | some c => simp only [hc]
  | unsigned n =>
    cases hcs' : orc.cats locale rule with
    | none => exact absurd hcs' hcs
    | some c => simp only [hc]
  | float f =>
    cases hcs' : orc.cats locale rule with
    | none => exact absurd hcs' hcs
    | some c => simp only [hc]

/-! ## 3. After resolution no unresolved foreign key is left (bridge to C09) -/

/-- `populate` introduces no unresolved foreign key -/
theorem C06_populate_preserves_noNotSet (orc : Oracle) (locale : Str) (args : List (Str × PV))
    (v v' : PV) (hA : NoNotSetK args = true) (hv : NoNotSet v = true)
    (h : populate orc locale args v = .ok v') : NoNotSet v' = true :=
  populate_NoNotSet orc locale args hA v v' hv h

/-- a fully resolved value satisfies the input invariant of resolution -/
theorem C06_noNotSet_setClosed (v : PV) (h : NoNotSet v = true) : SetClosed v = true :=
  NoNotSet_SetClosed v h

/--
**Resolution is complete.**  In a world whose stored values are subkey groups or `SetClosed`
(true of every parser output: it has no `Set` node and no subkey group below a value; and
`NoNotSet → SetClosed`), a successful `resolvePV` returns a value with no `NotSet` node anywhere
`Reduce.reduce` goes — including inside the `Set` nodes it created and inside the arguments it
substituted.  For every fuel.
-/
theorem C06_resolved_no_notset (orc : Oracle) (w : World) (dflt : Str) (fuel : Nat)
    (visiting : List KeyId) (phys : KeyId) (top : Str) (v v' : PV)
    (hW : WorldClosed w) (hv : SetClosed v = true)
    (h : resolvePV orc w dflt fuel visiting phys top v = .ok v') : NoNotSet v' = true :=
  (resolve_noNotSet orc w dflt hW fuel).1 visiting phys top v v' hv h

/-- the same for one `$t(..)` node -/
theorem C06_resolved_no_notset_node (orc : Oracle) (w : World) (dflt : Str) (fuel : Nat)
    (visiting : List KeyId) (phys : KeyId) (top : Str) (target : KeyPath) (args : List (Str × PV))
    (mj : Bool) (v' : PV) (hW : WorldClosed w) (ha : SetClosedK args = true)
    (h : resolveNode orc w dflt fuel visiting phys top target args mj = .ok v') : NoNotSet v' = true :=
  (resolve_noNotSet orc w dflt hW fuel).2.1 visiting phys top target args mj v' ha h

/-! ## 4. Missing targets, cycles, termination -/

/-- (a) the referenced key does not exist: `MissingForeignKey` -/
theorem C06_resolve_missing (orc : Oracle) (w : World) (dflt : Str) (fuel : Nat) (vis : List KeyId)
    (phys : KeyId) (top : Str) (target : KeyPath) (args : List (Str × PV))
    (h : w.getValueAt top target = .ok none) :
    resolvePV orc w dflt (fuel + 2) vis phys top (.fk (.notSet target args)) = .err "MissingForeignKey" := by
  rw [resolvePV_notSet]
  exact resolveNode_missing orc w dflt fuel vis phys top target args true h

/-- (b) the referenced key is the key being resolved, or one whose resolution is in progress:
    `RecursiveForeignKey` -/
theorem C06_resolve_cycle (orc : Oracle) (w : World) (dflt : Str) (fuel : Nat) (vis : List KeyId)
    (phys : KeyId) (top : Str) (target : KeyPath) (args : List (Str × PV)) (value : PV)
    (h : w.getValueAt top target = .ok (some value)) (hnd : value ≠ .dflt)
    (hin : (top, target) ∈ phys :: vis) :
    resolvePV orc w dflt (fuel + 2) vis phys top (.fk (.notSet target args)) = .err "RecursiveForeignKey" := by
  rw [resolvePV_notSet]
  exact resolveNode_recursive orc w dflt fuel vis phys top target args true h hnd hin

/-- a key that refers to itself: rejected for every fuel ≥ 2 -/
theorem C06_resolve_self_reference (orc : Oracle) (w : World) (dflt : Str) (fuel : Nat) (top : Str)
    (p : KeyPath) (args : List (Str × PV)) (value : PV)
    (h : w.getValueAt top p = .ok (some value)) (hnd : value ≠ .dflt) (hf : 2 ≤ fuel) :
    resolvePV orc w dflt fuel [] (top, p) top (.fk (.notSet p args)) = .err "RecursiveForeignKey" := by
  obtain ⟨n, rfl⟩ : ∃ n, fuel = n + 2 := ⟨fuel - 2, by omega⟩
  exact C06_resolve_cycle orc w dflt n [] (top, p) top p args value h hnd (by simp)

/-- two keys that refer to each other (`a: "$t(b)"`, `b: "$t(a)"`): rejected for every fuel ≥ 4,
    whatever the arguments -/
theorem C06_resolve_two_cycle (orc : Oracle) (w : World) (dflt : Str) (fuel : Nat) (top : Str)
    (pa pb : KeyPath) (argsA argsB : List (Str × PV)) (hne : pa ≠ pb)
    (ha : w.getValueAt top pa = .ok (some (.fk (.notSet pb argsB))))
    (hb : w.getValueAt top pb = .ok (some (.fk (.notSet pa argsA)))) (hf : 4 ≤ fuel) :
    resolvePV orc w dflt fuel [] (top, pa) top (.fk (.notSet pb argsB)) = .err "RecursiveForeignKey" := by
  obtain ⟨n, rfl⟩ : ∃ n, fuel = n + 4 := ⟨fuel - 4, by omega⟩
  have inner : resolvePV orc w dflt (n + 2) [(top, pa)] (top, pb) top (.fk (.notSet pa argsA))
      = .err "RecursiveForeignKey" :=
    C06_resolve_cycle orc w dflt n [(top, pa)] (top, pb) top pa argsA _ ha (by simp) (by simp)
  rw [resolvePV_notSet, resolveNode_succ, hb]
  have hc : ([(top, pa)] : List KeyId).contains (top, pb) = false := by
    simp; intro h; exact hne h.symm
  simp only [hc, inner]
  rfl

/-- (c) **Fuel only distinguishes "not enough".**  If a run with `fuel` did not end in
    `panic "fuel"`, every run with more fuel gives the same outcome (value, error or other panic).
    `resolvePV`/`resolveNode` are structurally recursive on the fuel, so they cannot loop. -/
theorem C06_resolve_fuel_monotone (orc : Oracle) (w : World) (dflt : Str) (visiting : List KeyId)
    (phys : KeyId) (top : Str) (v : PV) (fuel fuel' : Nat) (hle : fuel ≤ fuel')
    (hne : resolvePV orc w dflt fuel visiting phys top v ≠ .panic "fuel") :
    resolvePV orc w dflt fuel' visiting phys top v = resolvePV orc w dflt fuel visiting phys top v := by
  rcases resolvePV_mono orc w dflt visiting phys top v hle with h | h
  · exact absurd h hne
  · exact h

theorem C06_resolve_fuel_monotone_ok (orc : Oracle) (w : World) (dflt : Str) (visiting : List KeyId)
    (phys : KeyId) (top : Str) (v v' : PV) (fuel fuel' : Nat) (hle : fuel ≤ fuel')
    (h : resolvePV orc w dflt fuel visiting phys top v = .ok v') :
    resolvePV orc w dflt fuel' visiting phys top v = .ok v' := by
  rw [C06_resolve_fuel_monotone orc w dflt visiting phys top v fuel fuel' hle (by rw [h]; simp), h]

theorem C06_resolve_fuel_monotone_err (orc : Oracle) (w : World) (dflt : Str) (visiting : List KeyId)
    (phys : KeyId) (top : Str) (v : PV) (e : String) (fuel fuel' : Nat) (hle : fuel ≤ fuel')
    (h : resolvePV orc w dflt fuel visiting phys top v = .err e) :
    resolvePV orc w dflt fuel' visiting phys top v = .err e := by
  rw [C06_resolve_fuel_monotone orc w dflt visiting phys top v fuel fuel' hle (by rw [h]; simp), h]

/-- the same for a `$t(..)` node -/
theorem C06_resolveNode_fuel_monotone (orc : Oracle) (w : World) (dflt : Str) (visiting : List KeyId)
    (phys : KeyId) (top : Str) (target : KeyPath) (args : List (Str × PV)) (mj : Bool)
    (fuel fuel' : Nat) (hle : fuel ≤ fuel')
    (hne : resolveNode orc w dflt fuel visiting phys top target args mj ≠ .panic "fuel") :
    resolveNode orc w dflt fuel' visiting phys top target args mj =
      resolveNode orc w dflt fuel visiting phys top target args mj := by
  rcases resolveNode_mono orc w dflt visiting phys top target args mj hle with h | h
  · exact absurd h hne
  · exact h

/-! ## 5. Order independence (partial) -/

/-- **Memoisation lemma.**  Resolving a value that is already fully resolved is the identity
    (given the fuel to walk over it): when key `k₂` refers to a key `k₁` that was resolved earlier,
    it finds the stored result and uses it unchanged — the stored result being, by purity of
    `resolvePV`, what resolving `k₁` from scratch gives. -/
theorem C06_order_independent_partial (orc : Oracle) (w : World) (dflt : Str) (vis : List KeyId)
    (phys : KeyId) (top : Str) (v : PV) (fuel : Nat) (hv : NoNotSet v = true) (hf : fuelNeed v ≤ fuel) :
    resolvePV orc w dflt fuel vis phys top v = .ok v :=
  resolvePV_id orc w dflt vis phys top v fuel hv hf

/-- **The cycle guard only ever turns a success into an error.**  If a value resolves while the keys
    `V` are in progress, it resolves to the same result with fewer keys in progress — in particular
    on its own (`V' = []`). -/
theorem C06_resolve_visiting_independent (orc : Oracle) (w : World) (dflt : Str) (fuel : Nat)
    (V V' : List KeyId) (phys : KeyId) (top : Str) (v v' : PV) (hs : ∀ x ∈ V', x ∈ V)
    (h : resolvePV orc w dflt fuel V phys top v = .ok v') :
    resolvePV orc w dflt fuel V' phys top v = .ok v' :=
  (resolve_vis orc w dflt fuel).1 V V' phys top v v' hs h

/-- **Chains.**  A key resolved as the target of a reference (at any depth of a chain: any keys in
    progress, any remaining fuel) gets the value it gets when it is resolved on its own — which is what
    makes the in-place, memoising implementation and the order of `resolve_foreign_keys` irrelevant
    for the *values* (together with `C06_order_independent_partial`). -/
theorem C06_chain_independent (orc : Oracle) (w : World) (dflt : Str) (fuel₁ fuel₂ : Nat)
    (V : List KeyId) (phys : KeyId) (top : Str) (v v₁ v₂ : PV)
    (h₁ : resolvePV orc w dflt fuel₁ V phys top v = .ok v₁)
    (h₂ : resolvePV orc w dflt fuel₂ [] phys top v = .ok v₂) : v₁ = v₂ := by
  have h₁' := C06_resolve_visiting_independent orc w dflt fuel₁ V [] phys top v v₁ (by simp) h₁
  rcases Nat.le_total fuel₁ fuel₂ with hle | hle
  · have := C06_resolve_fuel_monotone_ok orc w dflt [] phys top v v₁ fuel₁ fuel₂ hle h₁'
    rw [h₂] at this; exact (Res.ok.inj this).symm
  · have := C06_resolve_fuel_monotone_ok orc w dflt [] phys top v v₂ fuel₂ fuel₁ hle h₂
    rw [h₁'] at this; exact Res.ok.inj this

/-- the full statement (not proved in this file; proved for well-formed worlds, `WorldWF w`, as
    `C06_order_independent_full_of_wf` in `Theorems/C06Order.lean`): two orders of the registered paths that both succeed
    produce worlds in which every key renders the same in every environment.  (Only successful runs
    are compared: which *error* is reported first does depend on the order.) -/
def C06_order_independent_full_statement : Prop :=
  ∀ (orc : Oracle) (dflt : Str) (fuel : Nat) (w w₁ w₂ : World) (paths paths' : List (Str × KeyPath)),
    paths.Perm paths' →
    resolveAll orc dflt fuel paths w = .ok w₁ → resolveAll orc dflt fuel paths' w = .ok w₂ →
    ∀ (top : Str) (p : KeyPath) (v₁ v₂ : PV),
      w₁.getValueAt top p = .ok (some v₁) → w₂.getValueAt top p = .ok (some v₂) →
      ∀ ρ, Eval.eval ρ v₁ = Eval.eval ρ v₂

/-! ## Examples -/

namespace Ex
def kp (k : String) : KeyPath := ⟨none, [k.toList]⟩
def s (x : String) : PV := .lit (.str x.toList none)
def en : Str := "en".toList
def mkWorld (keys : List (Str × PV)) : World := ⟨false, [⟨none, [Loc.mk en en keys [] 0]⟩]⟩
theorem mkWorld_get (keys : List (Str × PV)) (k : String) :
    (mkWorld keys).getValueAt en (kp k) = .ok (AMap.get? k.toList keys) :=
  getValueAt_flat _ _ _ _ _ _

/-- a parse-time oracle and a run-time environment that agree (and are not constant):
    integers are `one`, the table has no floats -/
def orc : Oracle :=
  ⟨fun _ _ => some [.one, .other], fun _ _ key => match key with | 'f' :: _ => none | _ => some .one⟩
def ρ : Eval.Env where
  var := fun k _ => '{' :: k ++ ['}']
  comp := fun k inner => '<' :: k ++ ['>'] ++ inner ++ ['<', '/'] ++ k ++ ['>']
  count := fun _ => ⟨7, 0⟩
  cat := fun _ d => if d.e == 0 then .one else .other

theorem orc_agrees : OracleAgrees orc en ρ := by
  intro rule l d f hd hc
  cases l with
  | str _ _ => simp [litDec] at hd
  | bool _ => simp [litDec] at hd
  | unsigned n =>
    simp only [litDec, Option.some.injEq] at hd; subst hd
    have : operandKey (.unsigned n) = 'u' :: ':' :: Str.natToStr n := rfl
    simp [orc, this] at hc
    subst hc; rfl
  | signed i =>
    simp only [litDec, Option.some.injEq] at hd; subst hd
    have : operandKey (.signed i) = 'i' :: ':' :: Str.intToStr i := rfl
    simp [orc, this] at hc
    subst hc; rfl
  | float x =>
    have : operandKey (.float x) = 'f' :: ':' :: x.display := rfl
    simp [orc, this] at hc

/-! chain `a → b → c`, the argument of `a` reaches `c` through `b`:
    `a: "$t(b, {"x": "Bob"})"`, `b: "<i>$t(c, {"y": "{{ x }}"})</i>"`, `c: "Hi {{ y }}"` -/
def vc : PV := .bloc [s "Hi ", .var "y".toList .none]
def vb : PV := .comp "i".toList (.fk (.notSet (kp "c") [("y".toList, .var "x".toList .none)]))
def va : PV := .fk (.notSet (kp "b") [("x".toList, s "Bob")])
def keys3 : List (Str × PV) := [("a".toList, va), ("b".toList, vb), ("c".toList, vc)]
def w3 : World := mkWorld keys3

example : resolvePV orc w3 en 10 [] (en, kp "a") en va
    = .ok (.fk (.set (.comp "i".toList (.bloc [s "Hi ", s "Bob"])))) := by
  have hc : resolveNode orc w3 en 6 [(en, kp "a")] (en, kp "b") en (kp "c")
      [("y".toList, .var "x".toList .none)] true = .ok (.fk (.set (.bloc [s "Hi ", .var "x".toList .none]))) :=
    resolveNode_ok_eq (value := vc) (value' := vc) (args' := [("y".toList, .var "x".toList .none)])
      orc w3 en 5 _ _ en (kp "c") _ true
      (mkWorld_get keys3 "c") (by simp [vc]) (by decide)
      (resolvePV_id _ _ _ _ _ _ _ _ (by decide) (by decide))
      (resolveArgs_id _ _ _ _ _ _ _ _ (by decide) (by decide)) rfl
  have hb : resolvePV orc w3 en 8 [(en, kp "a")] (en, kp "b") en vb
      = .ok (.comp "i".toList (.fk (.set (.bloc [s "Hi ", .var "x".toList .none])))) := by
    rw [vb, resolvePV_comp, resolvePV_notSet, hc]; rfl
  rw [va, resolvePV_notSet]
  exact resolveNode_ok_eq (value := vb) (args' := [("x".toList, s "Bob")])
      orc w3 en 8 _ _ en (kp "b") _ true
      (mkWorld_get keys3 "b") (by simp [vb]) (by decide) hb
      (resolveArgs_id _ _ _ _ _ _ _ _ (by decide) (by decide)) rfl

example : Eval.eval ρ (.fk (.set (.comp "i".toList (.bloc [s "Hi ", s "Bob"])))) = "<i>Hi Bob</i>".toList := by
  decide

/-- the hypotheses of `C06_resolved_no_notset` hold for this world and value … -/
example : WorldClosed w3 :=
  worldClosed_flat _ _ _ _ _
    (by
      intro k v h
      simp only [keys3, AMap.get?] at h
      repeat' split at h
      all_goals (first | (simp only [Option.some.injEq] at h; subst h; exact .inr (by decide)) | simp at h))
    (by
      intro k l h
      simp only [keys3, AMap.get?] at h
      repeat' split at h
      all_goals (first | (simp [va, vb, vc] at h; done) | simp at h))
example : SetClosed va = true := by decide
/-- … and its conclusion for the value computed above -/
example : NoNotSet (.fk (.set (.comp "i".toList (.bloc [s "Hi ", s "Bob"])))) = true := by decide

/-- what `a` shows = what (resolved) `b` shows with `x := "Bob"` -/
example : Eval.eval ρ (.fk (.set (.comp "i".toList (.bloc [s "Hi ", s "Bob"]))))
    = Eval.eval (substEnv ρ [("x".toList, s "Bob")])
        (.comp "i".toList (.fk (.set (.bloc [s "Hi ", .var "x".toList .none])))) := by decide

/-! a literal `count` selects the range branch (and replaces `{{ count }}` inside it) -/
def vr : PV := .ranges "var_count".toList .i32
  [(.exact ⟨0, 0⟩, s "none"),
   (.bounds (some ⟨1, 0⟩) (.incl ⟨5, 0⟩), .bloc [.var "var_count".toList .none, s " few"]),
   (.fallback, s "many")]
def count3 : List (Str × PV) := [("var_count".toList, .lit (.unsigned 3))]

example : populate orc en count3 vr = .ok (.bloc [.lit (.unsigned 3), s " few"]) := rfl
example : Eval.eval ρ (.bloc [.lit (.unsigned 3), s " few"]) = "3 few".toList := by decide
example : Eval.eval (substEnv ρ count3) vr = "3 few".toList := by decide
/-- out of the type's range / wrong kind of number: rejected -/
example : populate orc en [("var_count".toList, .lit (.signed (-1)))]
    (.ranges "var_count".toList .u8 [(.fallback, s "x")]) = .err "CountArgOutsideRange" := rfl
example : populate orc en [("var_count".toList, .lit (.float ⟨15, 1⟩))] vr = .err "InvalidCountArgType" := rfl

/-- the same through a reference in a world: `r: {range}`, `k: "$t(r, {"count": 3})"` -/
def keysR : List (Str × PV) := [("k".toList, .fk (.notSet (kp "r") count3)), ("r".toList, vr)]
example : resolvePV orc (mkWorld keysR) en 9 [] (en, kp "k") en (.fk (.notSet (kp "r") count3))
    = .ok (.fk (.set (.bloc [.lit (.unsigned 3), s " few"]))) := by
  rw [resolvePV_notSet]
  exact resolveNode_ok_eq (value := vr) (args' := count3) orc _ en 7 _ _ en (kp "r") _ true
    (mkWorld_get keysR "r") (by simp [vr]) (by decide)
    (resolvePV_id _ _ _ _ _ _ _ _ (by decide) (by decide))
    (resolveArgs_id _ _ _ _ _ _ _ _ (by decide) (by decide)) rfl

/-! a `{{ n }}` count renames the count variable; the branches keep being populated -/
def countN : List (Str × PV) := [("var_count".toList, .bloc [s " ", .var "var_n".toList .none])]
example : populate orc en countN vr = .ok (.ranges "var_n".toList .i32
    [(.exact ⟨0, 0⟩, s "none"),
     (.bounds (some ⟨1, 0⟩) (.incl ⟨5, 0⟩),
        .bloc [.bloc [s " ", .var "var_n".toList .none], s " few"]),
     (.fallback, s "many")]) := rfl
example : populate orc en [("var_count".toList, .bloc [s "n = ", .var "var_n".toList .none])] vr
    = .err "InvalidCountArg" := rfl

/-! a literal `count` selects the plural form through the oracle -/
def vp : PV := .plurals .cardinal "var_count".toList
  (.bloc [.var "var_count".toList .none, s " items"]) [(.one, s "one item")]
example : PluralsWf vp = true := by decide
example : populate orc en count3 vp = .ok (s "one item") := rfl
example : Eval.eval (substEnv ρ count3) vp = "one item".toList := by decide
/-- the oracle table of this example has no floats: the one panic of `populate` -/
example : populate orc en [("var_count".toList, .lit (.float ⟨15, 1⟩))] vp
    = .panic "oracle: plural category missing" := rfl

/-- `PluralsWf` is needed in `C06_populate_subst`: with `other` listed among the forms the target
    itself shows the *form* (the accessor matches the forms first) while `populate` takes the field -/
def orcOther : Oracle := ⟨fun _ _ => some [.other], fun _ _ _ => some .other⟩
def ρOther : Eval.Env := { ρ with cat := fun _ _ => .other }
def vBad : PV := .plurals .cardinal "var_count".toList (s "field") [(.other, s "form")]
example : OracleAgrees orcOther en ρOther := fun _ _ _ _ _ h => by
  simp only [orcOther, Option.some.injEq] at h; exact h.symm
example : PluralsWf vBad = false := by decide
example : populate orcOther en count3 vBad = .ok (s "field") := rfl
example : Eval.eval ρOther (s "field") ≠ Eval.eval (substEnv ρOther count3) vBad := by decide

/-! a subkey group as target, directly or below a component -/
example : HasSubkeys (isLitCount count3) (.comp "b".toList (.subkeys none)) = true := by decide
example : populate orc en count3 (.comp "b".toList (.subkeys none)) = .err "InvalidForeignKey" := rfl
/-- … but in a branch that a literal count does not select it is not seen -/
example : populate orc en count3 (.ranges "var_count".toList .i32 [(.exact ⟨0, 0⟩, .subkeys none), (.fallback, s "x")])
    = .ok (s "x") := rfl

/-! cycles: `a: "$t(a)"`; `a: "$t(b)"`, `b: "$t(a)"` — for every fuel ≥ 2 / ≥ 4 -/
def keysSelf : List (Str × PV) := [("a".toList, .fk (.notSet (kp "a") []))]
example (fuel : Nat) (h : 2 ≤ fuel) :
    resolvePV orc (mkWorld keysSelf) en fuel [] (en, kp "a") en (.fk (.notSet (kp "a") []))
      = .err "RecursiveForeignKey" :=
  C06_resolve_self_reference orc _ en fuel en (kp "a") [] _ (mkWorld_get keysSelf "a") (by simp) h

def keysCycle : List (Str × PV) :=
  [("a".toList, .fk (.notSet (kp "b") [])), ("b".toList, .fk (.notSet (kp "a") []))]
example (fuel : Nat) (h : 4 ≤ fuel) :
    resolvePV orc (mkWorld keysCycle) en fuel [] (en, kp "a") en (.fk (.notSet (kp "b") []))
      = .err "RecursiveForeignKey" :=
  C06_resolve_two_cycle orc _ en fuel en (kp "a") (kp "b") [] [] (by decide)
    (mkWorld_get keysCycle "a") (mkWorld_get keysCycle "b") h
/-- with too little fuel the answer is "not enough fuel", never a wrong value -/
example : resolvePV orc (mkWorld keysCycle) en 3 [] (en, kp "a") en (.fk (.notSet (kp "b") []))
      = .panic "fuel" := by
  rw [resolvePV_notSet, resolveNode_succ, mkWorld_get keysCycle "b"]
  rfl
/-- a missing target -/
example (fuel : Nat) :
    resolvePV orc (mkWorld keysCycle) en (fuel + 2) [] (en, kp "a") en (.fk (.notSet (kp "zz") []))
      = .err "MissingForeignKey" :=
  C06_resolve_missing orc _ en fuel [] _ en (kp "zz") [] (mkWorld_get keysCycle "zz")
end Ex

end I18nVerif.Foreign
