import I18nVerif.Proofs.PipelineNoPanic
import I18nVerif.Proofs.Config
/-!
# C09 (whole pipeline) — loading translations never panics

Model: `I18nVerif.Model.Pipeline` (`parse_locales`, `mod.rs:40-153`):
`parseRaw` (decode every file, register the keys that contain `$t(..)`) → `mergePluralsAll`
(`merge_plurals`) → `Foreign.resolveAll` (`resolve_foreign_keys`) → `checkAll` (`check_locales`).
Every panic site of the Rust code (`unwrap_at`, `unreachable!`) is an explicit outcome
`Res.panic "<site>"` of the model.

Main theorem `C09_pipeline_no_panic`: for every well-formed configuration (`CfgWF`: what
`ConfigFile::new` guarantees — locale list not empty, no duplicate locale or namespace) and **every**
file content, the only `panic` outcomes of the model are its two artefacts: `"fuel"` (the model's
constant recursion fuel, 10^6) and `"oracle: plural category missing"` (the finite table standing for
ICU4X). (The fallback walk of a foreign key, `Foreign.findDefining`, has its own small fuel `inherits.length + 2`;
it is proved sufficient for every `inherits` table: `C09_fallback_walk_fuel_suffices`.) Every real panic site — `resolve_foreign_keys_1`, `get_value_at: empty subkeys`,
`reduce: unresolved foreign key`, `reduce_into: unresolved foreign key`, `reduce: empty subkeys`,
`get_keys_inner: unresolved foreign key`, `make_locale_value called twice`,
`merge called twice on Subkeys`, `merge_1`, `check_locales_inner_1`, `decode` — is unreachable.

Invariants: `I18nVerif.Spec.PipelineInv`; stage lemmas: `Proofs/PipeParse.lean`, `PipeMerge.lean`,
`PipeResolveV.lean`, `PipeWorld.lean`, `PipeResolve.lean`, `PipeCheck.lean`; assembly:
`Proofs/PipelineNoPanic.lean`.
-/
namespace I18nVerif.PipeInv
open I18nVerif

/-! ## The theorem -/

/-- **Loading never panics.** For a well-formed configuration and any files, if the pipeline model
    answers `panic s` then `s` is one of the two artefacts of the model (fuel, oracle table). -/
theorem C09_pipeline_no_panic (inp : Pipeline.Input) (hcfg : CfgWF inp.cfg) (s : String) :
    Pipeline.run inp = .panic s → s = "fuel" ∨ s = "oracle: plural category missing" :=
  run_panic inp hcfg s

/-- every configuration accepted by `ConfigFile::new` is well-formed in the sense of the theorem -/
theorem C09_cfgWF_of_config_new (table : List (Str × Config.TV)) (cfg : Config.Config)
    (h : Config.new table = .ok cfg) : CfgWF cfg := by
  obtain ⟨r, d, listed, _, _, _, _, _, hdup, hns, hc⟩ := Config.new_ok h
  subst hc
  have hnd : (Config.defaultFirst d listed).Nodup := (Config.duplicates_eq_false_iff _).mp hdup
  refine ⟨?_, hnd, ?_⟩
  · simp only
    intro e
    have : d ∈ Config.defaultFirst d listed := (Config.mem_defaultFirst d listed d).mpr (Or.inr rfl)
    rw [e] at this
    cases this
  · intro l hl
    simp only at hl
    rw [hl] at hns
    simp only [Option.map_some, Option.getD_some] at hns
    exact (Config.duplicates_eq_false_iff _).mp hns

/-- the same for the configuration the parser itself computes from the manifest table -/
theorem C09_pipeline_no_panic_of_config (table : List (Str × Config.TV)) (inp : Pipeline.Input)
    (h : Config.new table = .ok inp.cfg) (s : String) :
    Pipeline.run inp = .panic s → s = "fuel" ∨ s = "oracle: plural category missing" :=
  C09_pipeline_no_panic inp (C09_cfgWF_of_config_new table inp.cfg h) s

/-! ## Stage by stage -/

/-- stage 1, `parse_locales_raw`: decoding and parsing the files never panics -/
theorem C09_parseRaw_no_panic (inp : Pipeline.Input) (s : String) : Pipeline.parseRaw inp ≠ .panic s :=
  parseRaw_no_panic inp s

/-- stage 1, invariant: locales are named after the configuration, every key map is sorted (hence
    duplicate-free) at every depth, every leaf is a parser output (`Raw`: no subkeys and no resolved
    foreign key inside), every leaf containing a foreign key is registered, and every registered
    path is the path of a leaf -/
theorem C09_parseRaw_invariant (inp : Pipeline.Input) (w : World) (paths : List (Str × KeyPath))
    (h : Pipeline.parseRaw inp = .ok (w, paths)) : ParsedOK inp w paths :=
  parseRaw_ok inp w paths h

/-- stage 2, `merge_plurals`: the only `panic` is the model's fuel -/
theorem C09_mergePlurals_only_fuel (orc : Oracle) (nss : List NS) (ws : List Warning) (s : String) :
    Pipeline.mergePluralsAll orc nss ws = .panic s → s = "fuel" :=
  mergePluralsAll_panic orc nss ws s

/-- stage 2, the key lemma behind defects F4/F23: after `merge_plurals` every leaf that was stored at a
    path is still stored there, or something is stored at the path with its last key replaced by
    the plural base key (`mergedLast` = `get_merged_plural_at`) — subkey groups are never renamed -/
theorem C09_mergePlurals_registered_found (orc : Oracle) (locale : Str) (fuel : Nat) (path : KeyPath)
    (l l' : Loc) (ws : List Warning) (h : Plurals.mergePlurals orc locale fuel path l = .ok (l', ws))
    (hs : SortedTree l.keys) (q : List Str) (v : PV) (hq : World.locGet l.keys q = .ok (some v))
    (hv : isGroup v = false) :
    (∃ v', World.locGet l'.keys q = .ok (some v')) ∨
    (∃ q' v', mergedLast q = some q' ∧ World.locGet l'.keys q' = .ok (some v')) :=
  mergePlurals_find orc locale fuel path l l' ws h hs q v hq hv

/-- stages 1–3: up to and including `resolve_foreign_keys` the only panics are the two artefacts
    (in particular `resolve_foreign_keys_1` and `get_value_at: empty subkeys` are unreachable) -/
theorem C09_resolved_no_real_panic (inp : Pipeline.Input) (hcfg : CfgWF inp.cfg) (s : String) :
    Pipeline.resolved inp = .panic s → s = "fuel" ∨ s = "oracle: plural category missing" :=
  resolved_panic inp hcfg s

/-- stage 3, the fallback walk of a foreign key (the loop of `resolve_foreign_key_inner`, model
    `Foreign.findDefining`): the `inherits.length + 2` turns the model gives it always suffice, whatever the
    `inherits` table (cycles, repeated keys, unknown locales) — the walk panics only if a lookup panics.
    So the `"fuel"` of the main theorem is never the walk's. -/
theorem C09_fallback_walk_fuel_suffices (w : World) (fb : Foreign.Fallbacks) (top : Str) (t : KeyPath) (p : String)
    (h : Foreign.findDefining w fb (fb.inherits.length + 2) [] top t = .panic p) :
    ∃ c, w.getValueAt c t = .panic p :=
  nodeWalk_panic w fb top t p h

/-- … and on a world whose lookups never panic (every world the pipeline builds: `InvG.np`) the walk does not
    panic at all -/
theorem C09_fallback_walk_no_panic (w : World) (hw : ∀ top t s, w.getValueAt top t ≠ .panic s)
    (fb : Foreign.Fallbacks) (top : Str) (t : KeyPath) (p : String) :
    Foreign.findDefining w fb (fb.inherits.length + 2) [] top t ≠ .panic p :=
  nodeWalk_no_panic w hw fb top t p

/-- stage 3, invariant: after `resolve_foreign_keys` every locale list is non-empty, every stored value
    is `Clean` (no unresolved foreign key, no emptied subkeys — what `reduce` needs), every key map
    is sorted, and no leaf contains a group of subkeys -/
theorem C09_resolved_world_clean (inp : Pipeline.Input) (hcfg : CfgWF inp.cfg) (w : World) (ws : List Warning)
    (h : Pipeline.resolved inp = .ok (w, ws)) :
    ∀ ns ∈ w.nss, ns.locales ≠ [] ∧ ∀ l ∈ ns.locales, Reduce.CleanK l.keys = true ∧ SortedTree l.keys ∧
      TreeK (fun _ v => Flat v = true ∧ Subst.NoNotSet v = true) [] l.keys := by
  intro ns hns
  have hI := resolved_ok inp hcfg w ws h
  obtain ⟨hne, hl⟩ := invG_check hI ns hns
  refine ⟨hne, fun l hlm => ⟨(hl l hlm).1, (hl l hlm).2.1, ?_⟩⟩
  exact treeK_mono _ _ (fun k ext x hx => ⟨hx.1, hx.2.2.elim id False.elim⟩) (hI.tree ns hns l hlm)

/-- stage 4, `check_locales`: on such a world the only `panic` is the model's fuel -/
theorem C09_checkAll_no_panic (inp : Pipeline.Input) (nss : List NS) (ws : List Warning) (s : String)
    (hh : ∀ ns ∈ nss, ns.locales ≠ [] ∧ ∀ l ∈ ns.locales, Reduce.CleanK l.keys = true ∧ SortedTree l.keys ∧
      ∃ (P : List Str → PV → Prop) (pre : List Str), (∀ p v, P p v → Flat v = true) ∧ TreeK P pre l.keys)
    (h : Pipeline.checkAll inp nss ws = .panic s) : s = "fuel" :=
  checkAll_no_panic_of_flat inp nss ws s hh h

/-! ## The hypothesis is needed; examples -/

/-- the statement without any hypothesis on the configuration -/
def C09_pipeline_no_panic_unconditional_statement : Prop :=
  ∀ (inp : Pipeline.Input) (s : String),
    Pipeline.run inp = .panic s → s = "fuel" ∨ s = "oracle: plural category missing"

/-- NOT proved (kept as a statement): the theorem with `locales ≠ []` as the only hypothesis, i.e. also for
    configuration records that list a locale or a namespace twice.  `ConfigFile::new` rejects those
    (`C09_cfgWF_of_config_new`), so they never reach the pipeline; in the model the duplicates are
    identical copies that are resolved together, so the statement is expected to hold, but the proof
    identifies a locale by its (namespace, name) pair and needs the names to be distinct. -/
def C09_pipeline_no_panic_full_statement : Prop :=
  ∀ (inp : Pipeline.Input) (s : String), inp.cfg.locales ≠ [] →
    Pipeline.run inp = .panic s → s = "fuel" ∨ s = "oracle: plural category missing"

private def orcEn : Oracle := { cats := fun _ _ => some [.one, .other], cat := fun _ _ _ => some .other }
private def en : Str := ['e', 'n']

/-- a configuration record with an empty locale list (never produced by `ConfigFile::new`) -/
private def inpNoLocale : Pipeline.Input :=
  { cfg := { default := en, locales := [], namespaces := none, localesDir := [], inherits := [] },
    files := [], oracle := orcEn }

/-- … reaches `check_locales_inner_1`: `CfgWF` cannot be dropped -/
theorem C09_pipeline_needs_locales : ¬ C09_pipeline_no_panic_unconditional_statement := by
  intro h
  have hr : Pipeline.run inpNoLocale = .panic "check_locales_inner_1" := by rfl
  rcases h inpNoLocale _ hr with e | e <;> exact absurd e (by decide)

private def fr : Str := ['f', 'r']
private def nsA : Str := ['a']
private def nsB : Str := ['b']
private def cfgEx : Config.Config :=
  { default := en, locales := [en, fr], namespaces := some [nsA, nsB], localesDir := [], inherits := [] }

/-- `CfgWF` is satisfiable: `default = "en"`, `locales = ["en", "fr"]`, namespaces `["a", "b"]` -/
example : CfgWF cfgEx :=
  ⟨by simp [cfgEx], by decide, by intro l hl; simp only [cfgEx, Option.some.injEq] at hl; subst hl; decide⟩

/-! the witness of defect F23 (`x_one: "a $t(t)"` next to `x_one_one` / `x_one_other`; the code before
commit e843a5f and the model before `resolveAt`/`mergedPath` answered
`panic "reduce_into: unresolved foreign key"`): the theorem applies to it -/
private def f23File : J :=
  .obj [(['t'], .str ['T']), (['x','_','o','n','e'], .str ['a',' ','$','t','(','t',')']),
    (['x','_','o','t','h','e','r'], .str ['b']), (['x','_','o','n','e','_','o','n','e'], .str ['c']),
    (['x','_','o','n','e','_','o','t','h','e','r'], .str ['d'])]
private def f23Inp : Pipeline.Input :=
  { cfg := { default := en, locales := [en], namespaces := none, localesDir := [], inherits := [] },
    files := [((none, en), f23File)], oracle := orcEn }

example : ∀ s, Pipeline.run f23Inp = .panic s → s = "fuel" ∨ s = "oracle: plural category missing" :=
  C09_pipeline_no_panic f23Inp ⟨by simp [f23Inp], by decide, by intro l hl; simp [f23Inp] at hl⟩

/-! the fallback walk on a cyclic `inherits` table (`ca → fr → ca`) and on a chain: `inherits.length + 2` turns are
enough (and on the chain `fr → ca`, `ca` without entry, one turn less is not: the bound is tight) -/
private def ca : Str := ['c', 'a']
private def wEx : World := ⟨false, [⟨none, [.mk en en [(['k'], .lit (.str ['h', 'i'] none))] [] 0,
  .mk fr fr [] [] 0, .mk ca ca [] [] 0]⟩]⟩
private def fbCyc : Foreign.Fallbacks := ⟨en, [(ca, fr), (fr, ca)]⟩
private def fbLine : Foreign.Fallbacks := ⟨en, [(fr, ca)]⟩
private theorem getEn : wEx.getValueAt en ⟨none, [['k']]⟩ = .ok (some (.lit (.str ['h', 'i'] none))) := by
  simp [World.getValueAt, wEx, World.locGet, List.find?, Loc.name, Loc.keys, AMap.get?, en]
private theorem getFr : wEx.getValueAt fr ⟨none, [['k']]⟩ = .ok none := by
  simp [World.getValueAt, wEx, World.locGet, List.find?, Loc.name, Loc.keys, AMap.get?, en, fr]
private theorem getCa : wEx.getValueAt ca ⟨none, [['k']]⟩ = .ok none := by
  simp [World.getValueAt, wEx, World.locGet, List.find?, Loc.name, Loc.keys, AMap.get?, en, fr, ca]
private theorem nlCyc1 : Foreign.nextLocale fbCyc [fr] fr = ca := by simp [Foreign.nextLocale, fbCyc, AMap.get?, fr, ca]
private theorem nlCyc2 : Foreign.nextLocale fbCyc [ca, fr] ca = en := by simp [Foreign.nextLocale, fbCyc, AMap.get?, fr, ca]
private theorem nlLine1 : Foreign.nextLocale fbLine [fr] fr = ca := by simp [Foreign.nextLocale, fbLine, AMap.get?, fr, ca]
private theorem nlLine2 : Foreign.nextLocale fbLine [ca, fr] ca = en := by simp [Foreign.nextLocale, fbLine, AMap.get?, fr, ca]
private theorem frNe : (fr == en) = false := by decide
private theorem caNe : (ca == en) = false := by decide

example : Foreign.findDefining wEx fbCyc (fbCyc.inherits.length + 2) [] fr ⟨none, [['k']]⟩
    = .ok (en, .lit (.str ['h', 'i'] none)) := by
  simp [Foreign.findDefining, getEn, getFr, getCa, nlCyc1, nlCyc2, frNe, caNe, show fbCyc.default = en from rfl,
    show fbCyc.inherits.length = 2 from rfl]
example : Foreign.findDefining wEx fbLine (fbLine.inherits.length + 2) [] fr ⟨none, [['k']]⟩
    = .ok (en, .lit (.str ['h', 'i'] none)) := by
  simp [Foreign.findDefining, getEn, getFr, getCa, nlLine1, nlLine2, frNe, caNe, show fbLine.default = en from rfl,
    show fbLine.inherits.length = 1 from rfl]
example : Foreign.findDefining wEx fbLine (fbLine.inherits.length + 1) [] fr ⟨none, [['k']]⟩ = .panic "fuel" := by
  simp [Foreign.findDefining, getFr, getCa, nlLine1, frNe, caNe, show fbLine.default = en from rfl,
    show fbLine.inherits.length = 1 from rfl]

end I18nVerif.PipeInv
