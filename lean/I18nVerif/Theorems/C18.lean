import I18nVerif.Proofs.FormatSpec
import I18nVerif.Proofs.FormatCache
import I18nVerif.Proofs.FormatWs
import I18nVerif.Model.TFormat
/-!
# C18 — Formatters apply the declared options for the locale being rendered

Model of the option selection: `I18nVerif.Model.Formatter` (`parse_formatter_args`, `Formatter::from_name_and_args`,
`from_args_helper`; frozen, validated against the real parser). Documented semantics: `I18nVerif.Spec.FormatSpec`.
Model of the formatter cache: `I18nVerif.Model.FormatCache`.

The theorems quantify over *all* names, *all* argument lists (any length, any strings, repeated / unknown / bogus
arguments), *all* whitespace paddings and *all* request sequences. What ICU4X prints for a given (locale, options,
value) is not modelled: ICU4X is the oracle of the correspondence check (`vlib/c18.py`).
-/
namespace I18nVerif.FormatSpec
open I18nVerif Str Formatter

/-! ## Option selection -/

/-- **The parser selects the documented formatter and options**: for every name and every list of (trimmed)
arguments, `Formatter::from_name_and_args` = the documented reference. -/
theorem C18_formatter_args (name : Str) (args : List (Str × Str)) :
    fromNameAndArgs name (some args) = specFormatter name args := by
  by_cases h1 : name = "number".toList
  · subst h1; rw [m_number, s_number, grouping_spec]
  by_cases h2 : name = "currency".toList
  · subst h2; rw [m_currency, s_currency, curWidth_spec, curCode_spec]
  by_cases h3 : name = "date".toList
  · subst h3; rw [m_date, s_date, dateLen_spec _ (Or.inl rfl)]
  by_cases h4 : name = "time".toList
  · subst h4; rw [m_time, s_time, timeLen_spec _ (Or.inl rfl)]
  by_cases h5 : name = "datetime".toList
  · subst h5; rw [m_datetime, s_datetime, dateLen_spec _ (Or.inr rfl), timeLen_spec _ (Or.inr rfl)]
  by_cases h6 : name = "list".toList
  · subst h6; rw [m_list, s_list, listTy_spec, listStyle_spec]
  rw [m_other name _ h1 h2 h3 h4 h5 h6, s_other name _ h1 h2 h3 h4 h5 h6]

/-- a formatter written without parentheses (`{{ v, number }}`, `formatter: number`): all defaults -/
theorem C18_formatter_no_args (name : Str) :
    fromNameAndArgs name none = specFormatter name [] := by
  by_cases h1 : name = "number".toList
  · subst h1; rw [m_number, s_number]; rfl
  by_cases h2 : name = "currency".toList
  · subst h2; rw [m_currency, s_currency]; rfl
  by_cases h3 : name = "date".toList
  · subst h3; rw [m_date, s_date]; rfl
  by_cases h4 : name = "time".toList
  · subst h4; rw [m_time, s_time]; rfl
  by_cases h5 : name = "datetime".toList
  · subst h5; rw [m_datetime, s_datetime]; rfl
  by_cases h6 : name = "list".toList
  · subst h6; rw [m_list, s_list]; rfl
  rw [m_other name _ h1 h2 h3 h4 h5 h6, s_other name _ h1 h2 h3 h4 h5 h6]

/-- option names are unique within a formatter: looking an option up by name finds that option -/
theorem find_decl : ∀ e ∈ documented, ∀ d ∈ e.2, e.2.find? (fun d' => d'.name == d.name) = some d := by
  decide

theorem optionsOf_mem {name : Str} {ds : List OptDecl} (h : optionsOf name = some ds) :
    ∃ e ∈ documented, e.2 = ds := by
  unfold optionsOf at h
  cases hf : documented.find? (fun e => e.1.toList == name) with
  | none => simp [hf] at h
  | some e =>
    simp [hf] at h
    exact ⟨e, List.mem_of_find?_eq_some hf, h⟩

theorem select_first (d : OptDecl) (pre post : List (Str × Str)) (kv : Str × Str)
    (hv : d.setBy kv = true) (hpre : ∀ x ∈ pre, d.setBy x = false) :
    d.select (pre ++ kv :: post) = kv.2 := by
  unfold OptDecl.select
  have : pre.filter d.setBy = [] := by
    rw [List.filter_eq_nil_iff]; intro x hx; simp [hpre x hx]
  simp [List.filter_append, this, hv]

/-- **First recognised occurrence wins**: if option `d` of formatter `name` is set by an argument `(d.name, v)` with an
accepted value, and by no argument before it (earlier arguments may name other options, unknown options, or carry
values that are not accepted), the option takes the value `v` — whatever follows. -/
theorem C18_first_recognised_wins (name : Str) (ds : List OptDecl) (d : OptDecl)
    (hds : optionsOf name = some ds) (hd : d ∈ ds) (pre post : List (Str × Str)) (v : Str)
    (hv : d.allowed.ok v = true) (hpre : ∀ x ∈ pre, d.setBy x = false) :
    valueOf name d.name (pre ++ (d.name.toList, v) :: post) = v := by
  obtain ⟨e, he, rfl⟩ := optionsOf_mem hds
  unfold valueOf
  rw [hds]
  simp only [find_decl e he d hd]
  exact select_first d pre post (d.name.toList, v) (by simp [OptDecl.setBy, hv]) hpre

/-- **Defaults for omitted or unrecognised arguments**: an option set by no argument takes its documented default -/
theorem C18_default_when_unset (name : Str) (ds : List OptDecl) (d : OptDecl)
    (hds : optionsOf name = some ds) (hd : d ∈ ds) (args : List (Str × Str))
    (h : ∀ x ∈ args, d.setBy x = false) :
    valueOf name d.name args = d.dflt.toList := by
  obtain ⟨e, he, rfl⟩ := optionsOf_mem hds
  unfold valueOf
  rw [hds]
  simp only [find_decl e he d hd]
  unfold OptDecl.select
  have : args.filter d.setBy = [] := by
    rw [List.filter_eq_nil_iff]; intro x hx; simp [h x hx]
  rw [this]

theorem valueOf_ignore (name : Str) (pre post : List (Str × Str)) (kv : Str × Str)
    (h : ∀ ds, optionsOf name = some ds → ∀ d ∈ ds, d.setBy kv = false) (o : String) :
    valueOf name o (pre ++ kv :: post) = valueOf name o (pre ++ post) := by
  unfold valueOf
  cases hds : optionsOf name with
  | none => rfl
  | some ds =>
    simp only
    cases hf : ds.find? (fun d => d.name == o) with
    | none => rfl
    | some d =>
      have hd : d ∈ ds := List.mem_of_find?_eq_some hf
      simp only [OptDecl.select, List.filter_append, List.filter_cons, h ds hds d hd]
      simp

/-- **Unknown or unrecognised arguments change nothing** (documented semantics): an argument that sets no option of
the formatter — its name is not an option name, or its value is not an accepted one — can be dropped. -/
theorem C18_unknown_option_ignored_spec (name : Str) (pre post : List (Str × Str)) (kv : Str × Str)
    (h : ∀ ds, optionsOf name = some ds → ∀ d ∈ ds, d.setBy kv = false) :
    specFormatter name (pre ++ kv :: post) = specFormatter name (pre ++ post) := by
  unfold specFormatter
  simp only [valueOf_ignore name pre post kv h]

/-- the same for the implementation's `Formatter::from_name_and_args` -/
theorem C18_unknown_option_ignored (name : Str) (pre post : List (Str × Str)) (kv : Str × Str)
    (h : ∀ ds, optionsOf name = some ds → ∀ d ∈ ds, d.setBy kv = false) :
    fromNameAndArgs name (some (pre ++ kv :: post)) = fromNameAndArgs name (some (pre ++ post)) := by
  rw [C18_formatter_args, C18_formatter_args, C18_unknown_option_ignored_spec name pre post kv h]

/-- an argument whose name is not an option name of the formatter is ignored -/
theorem C18_unknown_option_name_ignored (name : Str) (pre post : List (Str × Str)) (k v : Str)
    (h : ∀ ds, optionsOf name = some ds → ∀ d ∈ ds, k ≠ d.name.toList) :
    fromNameAndArgs name (some (pre ++ (k, v) :: post)) = fromNameAndArgs name (some (pre ++ post)) :=
  C18_unknown_option_ignored name pre post (k, v) (fun ds hds d hd => by simp [OptDecl.setBy, h ds hds d hd])

/-- an argument whose value is not accepted by the option it names is ignored -/
theorem C18_unrecognised_value_ignored (name : Str) (pre post : List (Str × Str)) (k v : Str)
    (h : ∀ ds, optionsOf name = some ds → ∀ d ∈ ds, k = d.name.toList → d.allowed.ok v = false) :
    fromNameAndArgs name (some (pre ++ (k, v) :: post)) = fromNameAndArgs name (some (pre ++ post)) :=
  C18_unknown_option_ignored name pre post (k, v) (fun ds hds d hd => by
    by_cases hk : k = d.name.toList
    · simp [OptDecl.setBy, h ds hds d hd hk]
    · simp [OptDecl.setBy, hk])

/-! the hypotheses of the three theorems above are satisfiable (and the old book spelling `list_length` is an
unknown option: it changes nothing) -/
example (post : List (Str × Str)) :
    valueOf "list".toList "list_style"
      ([("list_length".toList, "short".toList), ("list_style".toList, "long".toList)] ++
        ("list_style".toList, "narrow".toList) :: post) = "narrow".toList :=
  C18_first_recognised_wins "list".toList _ ⟨"list_style", .oneOf ["wide", "short", "narrow"], "wide"⟩ rfl (by decide)
    _ post _ (by decide) (by decide)

example : valueOf "time".toList "time_length" [("date_length".toList, "full".toList), ("time_length".toList, "Full".toList)] =
    "short".toList :=
  C18_default_when_unset "time".toList _ ⟨"time_length", lengths, "short"⟩ rfl (by decide) _ (by decide)

example : fromNameAndArgs "list".toList (some ([("list_type".toList, "and".toList)] ++ ("list_length".toList, "short".toList) :: [])) =
    fromNameAndArgs "list".toList (some ([("list_type".toList, "and".toList)] ++ [])) :=
  C18_unknown_option_name_ignored _ _ _ _ _ (by
    intro ds h
    have e : ds = [⟨"list_type", .oneOf ["and", "or", "unit"], "unit"⟩, ⟨"list_style", .oneOf ["wide", "short", "narrow"], "wide"⟩] :=
      (Option.some.inj ((show optionsOf "list".toList = some _ from rfl).symm.trans h)).symm
    subst e; decide)

/-! ## Whitespace -/

/-- the outcome of `parse_formatter` announced by the documentation for `name(args)` -/
def specOutcome (name : Str) (args : List (Str × Str)) : Res Fmt :=
  match specFormatter name args with
  | some f => .ok f
  | none => .err "UnknownFormatter"

/-- **Whitespace around the name, the parentheses, `:` and `;`, option names and values is irrelevant — and the
clause means what the documentation says**: for every well-formed structured source (paddings made of any Unicode
whitespace, of any length), parsing the printed text gives the documented formatter for the bare name and the bare
(option, value) pairs. -/
theorem C18_whitespace_spec (s : Src) (h : s.wf = true) :
    parseFormatter s.print = specOutcome s.name s.pairs := by
  unfold parseFormatter specOutcome
  rw [parseArgs_print s h]
  simp only
  cases hargs : s.args with
  | none =>
    simp only [Option.map_none, Src.pairs, hargs]
    rw [C18_formatter_no_args]
    cases specFormatter s.name [] <;> rfl
  | some as =>
    simp only [Option.map_some, Src.pairs, hargs]
    rw [C18_formatter_args]
    cases specFormatter s.name (as.map (fun a => (a.key, a.val))) <;> rfl

/-- **Whitespace insensitivity**: two well-formed sources with the same name and the same (option, value) pairs —
differing only in their whitespace paddings — parse to the same result -/
theorem C18_whitespace_insensitive (s t : Src) (hs : s.wf = true) (ht : t.wf = true)
    (hname : s.name = t.name)
    (hargs : s.args.map (fun as => as.map (fun a => (a.key, a.val))) =
             t.args.map (fun as => as.map (fun a => (a.key, a.val)))) :
    parseArgs s.print = parseArgs t.print ∧ parseFormatter s.print = parseFormatter t.print := by
  have e : parseArgs s.print = parseArgs t.print := by
    rw [parseArgs_print s hs, parseArgs_print t ht, hname, hargs]
  exact ⟨e, by unfold parseFormatter; rw [e]⟩

theorem strip_wf (s : Src) (h : s.wf = true) : s.strip.wf = true := by
  obtain ⟨_, _, _, _, hn, hp, has⟩ := (Src.wf_iff s).mp h
  refine (Src.wf_iff s.strip).mpr ⟨rfl, rfl, rfl, rfl, hn, hp, ?_⟩
  intro as' has' a' ha'
  simp only [Src.strip, Option.map_eq_some_iff] at has'
  obtain ⟨as, hs, rfl⟩ := has'
  obtain ⟨a, ha, rfl⟩ := List.mem_map.mp ha'
  obtain ⟨_, _, _, _, h5, h6, h7, h8, h9⟩ := (ArgSrc.wf_iff a).mp (has as hs a ha)
  exact (ArgSrc.wf_iff _).mpr ⟨rfl, rfl, rfl, rfl, h5, h6, h7, h8, h9⟩

/-- removing every optional whitespace character does not change the result -/
theorem C18_whitespace_strip (s : Src) (h : s.wf = true) :
    parseFormatter s.print = parseFormatter s.strip.print := by
  refine (C18_whitespace_insensitive s s.strip h (strip_wf s h) rfl ?_).2
  cases hargs : s.args with
  | none => simp [Src.strip, hargs]
  | some as => simp [Src.strip, hargs, Function.comp_def]

/-- **The `t*_format!` macros agree with the file syntax**: a clause written in a translation (with any whitespace) and
the same name and arguments written as `formatter: name(arg: value; ...)` in a macro select the same formatter with
the same options, and one is rejected exactly when the other is. -/
theorem C18_t_format_agrees (s : Src) (h : s.wf = true) (f : Fmt) :
    (parseFormatter s.print = .ok f ↔
      TFormat.parse s.name (s.args.map (fun as => as.map (fun a => (a.key, a.val)))) = .ok f) ∧
    (parseFormatter s.print = .err "UnknownFormatter" ↔
      TFormat.parse s.name (s.args.map (fun as => as.map (fun a => (a.key, a.val)))) = .err "unknown formatter name.") := by
  unfold parseFormatter TFormat.parse
  rw [parseArgs_print s h]
  simp only
  cases fromNameAndArgs s.name (s.args.map (fun as => as.map (fun a => (a.key, a.val)))) <;> simp

/-- the hypotheses are satisfiable by a non-trivial source: `"\t number\u{a0}(  grouping_strategy\n:\u{3000}never ;
foo:bar; )"` — with a no-break space, an ideographic space and a trailing (empty-named) argument -/
def exampleSrc : Src :=
  { w0 := ['\t', ' '], name := "number".toList, w1 := ['\u00a0'], inner := [], w2 := [' '],
    args := some [
      { w1 := [' ', ' '], key := "grouping_strategy".toList, w2 := ['\n'], w3 := ['\u3000'], val := "never".toList, w4 := [' '] },
      { w1 := [' '], key := "foo".toList, w2 := [], w3 := [], val := "bar".toList, w4 := [] },
      { w1 := [' '], key := [], w2 := [], w3 := [], val := [], w4 := [' '] }] }

example : exampleSrc.wf = true := by decide
example : parseFormatter exampleSrc.print = .ok (.number .never) := by
  rw [C18_whitespace_spec exampleSrc (by decide)]; rfl
example : String.ofList exampleSrc.strip.print = "number(grouping_strategy:never;foo:bar;:)" := by decide

/-! ## Formatter name -/

theorem names_eq : names = ["number".toList, "currency".toList, "date".toList, "time".toList,
    "datetime".toList, "list".toList] := rfl

theorem fromNameAndArgs_none_iff (name : Str) (a : Args) : fromNameAndArgs name a = none ↔ name ∉ names := by
  rw [names_eq]
  by_cases h1 : name = "number".toList
  · subst h1; rw [m_number]; simp
  by_cases h2 : name = "currency".toList
  · subst h2; rw [m_currency]; simp
  by_cases h3 : name = "date".toList
  · subst h3; rw [m_date]; simp
  by_cases h4 : name = "time".toList
  · subst h4; rw [m_time]; simp
  by_cases h5 : name = "datetime".toList
  · subst h5; rw [m_datetime]; simp
  by_cases h6 : name = "list".toList
  · subst h6; rw [m_list]; simp
  rw [m_other name _ h1 h2 h3 h4 h5 h6]
  simp only [List.mem_cons, List.not_mem_nil, h1, h2, h3, h4, h5, h6, or_self, not_false_eq_true]

/-- **Unknown name ⇒ `UnknownFormatter`, and only then**: `parse_formatter` fails with `UnknownFormatter` exactly when the
trimmed name is none of the six documented names; otherwise it succeeds (all formatter features enabled). -/
theorem C18_unknown_name (s : Str) :
    (parseFormatter s = .err "UnknownFormatter" ↔ (parseArgs s).1 ∉ names) ∧
    ((∃ f, parseFormatter s = .ok f) ↔ (parseArgs s).1 ∈ names) := by
  unfold parseFormatter
  cases hp : parseArgs s with
  | mk name args =>
    simp only
    have hn := fromNameAndArgs_none_iff name args
    cases hf : fromNameAndArgs name args with
    | none =>
      have : name ∉ names := hn.mp hf
      simp [this]
    | some f =>
      have : name ∈ names := Decidable.byContradiction (fun h => by rw [hn.mpr h] at hf; simp at hf)
      simp [this]

/-- the name looked up is the trimmed text before the first `(` when the clause has a `(` with a `)` after it, else the
whole trimmed clause -/
theorem C18_name_is_trimmed (s : Str) :
    (parseArgs s).1 = trim (match splitOnceC '(' s with
      | some (n, rest) => if (rsplitOnceC ')' rest).isSome then n else s
      | none => s) := by
  unfold parseArgs
  cases h1 : splitOnceC '(' s with
  | none => rfl
  | some p =>
    obtain ⟨n, rest⟩ := p
    simp only
    cases h2 : rsplitOnceC ')' rest with
    | none => rfl
    | some q => rfl

end I18nVerif.FormatSpec

/-! ## The formatter cache -/
namespace I18nVerif.FormatCache

variable {κ ι : Type} [DecidableEq κ]

/-- **Memoisation, independent of history**: from the empty cache every request in every sequence gets the outcome
`make key` for the key it asks for — the formatter ICU4X builds for that (kind, locale, options), or the panic when
ICU4X refuses them — whatever was requested before, in whatever order, whether or not earlier requests panicked;
and the cache stays a duplicate-free map from keys to `make key` that contains every successfully requested key. -/
theorem C18_cache_memo (make : κ → Option ι) (ks : List κ) :
    (run make [] ks).2 = ks.map make ∧
    (∀ e ∈ (run make [] ks).1, make e.1 = some e.2) ∧
    ((run make [] ks).1.map (·.1)).Nodup ∧
    (∀ k ∈ ks, (make k).isSome → k ∈ (run make [] ks).1.map (·.1)) := by
  obtain ⟨h1, h2, h3⟩ := run_spec make ks [] (inv_nil make)
  exact ⟨h1, h2.1, h2.2, fun k hk hs => h3 k (Or.inr ⟨hk, hs⟩)⟩

/-- the same from any state satisfying the invariant (in particular any state reached by earlier requests) -/
theorem C18_cache_memo_from (make : κ → Option ι) (st : State κ ι) (h : Inv make st) (ks : List κ) :
    (run make st ks).2 = ks.map make ∧ Inv make (run make st ks).1 :=
  ⟨(run_spec make ks st h).1, (run_spec make ks st h).2.1⟩

/-- one request, any reachable state: the answer does not depend on the state -/
theorem C18_cache_step (make : κ → Option ι) (pre : List κ) (k : κ) :
    (step make (run make [] pre).1 k).2 = make k :=
  (step_spec make _ k (run_spec make pre [] (inv_nil make)).2.1).1

/-- **Order independence**: two orders of the same multiset of requests give the same outcome for each request -/
theorem C18_cache_commutes (make : κ → Option ι) (ks ks' : List κ) (h : ks.Perm ks') :
    (ks.zip (run make [] ks).2).Perm (ks'.zip (run make [] ks').2) := by
  rw [(C18_cache_memo make ks).1, (C18_cache_memo make ks').1]
  have e : ∀ l : List κ, l.zip (l.map make) = l.map (fun k => (k, make k)) := by
    intro l; induction l with
    | nil => rfl
    | cons a l ih => simp [ih]
  rw [e, e]
  exact h.map _

/-- **Threads**: a schedule is a sequence of `(thread, key)` steps (each `get_*_formatter` call is atomic under the
`RwLock`); whatever the schedule, every call of every thread gets `make key` -/
theorem C18_cache_threads (make : κ → Option ι) (sched : List (Nat × κ)) :
    (run make [] (sched.map (·.2))).2 = sched.map (fun e => make e.2) := by
  rw [(C18_cache_memo make _).1, List.map_map]; rfl

/-- the hypotheses are satisfiable, and the statement is not vacuous: key 0 is refused by ICU4X, keys 1 and 2 are not -/
example : (run (fun k : Nat => if k = 0 then none else some (k * 10)) [] [1, 0, 2, 1, 0]).2 =
    [some 10, none, some 20, some 10, none] := by decide

/-- **Witness of the repaired defect** (lock poisoning): with `mutex.write().unwrap()` a request ICU4X refuses made every
later request panic — the outcome of request `1` depended on whether `0` had been requested before it. -/
example : runPoisoning (fun k : Nat => if k = 0 then none else some (k * 10)) ([], false) [1, 0, 1] =
    [some 10, none, none] := by decide
example : ¬ (∀ ks : List Nat, runPoisoning (fun k : Nat => if k = 0 then none else some (k * 10)) ([], false) ks =
    ks.map (fun k : Nat => if k = 0 then none else some (k * 10))) := by
  intro h; exact absurd (h [0, 1]) (by decide)

end I18nVerif.FormatCache
