import I18nVerif.Spec.Src
/-
Helper lemmas for C01 (parse ∘ print): string primitives (`splitOnce`, `splitOnceC`, `trim`),
the tag scan `closingScan` on printed well-formed items (Dyck invariant), and the three parse
steps of `Parse.newF` (all text / first variable / first component).
-/
namespace I18nVerif.Src
open I18nVerif Str Parse

/-! ### characters -/

theorem nameChar_spec {c : Char} (h : nameChar c = true) :
    isWs c = false ∧ c ≠ '<' ∧ c ≠ '>' ∧ c ≠ '/' ∧ c ≠ '{' ∧ c ≠ '}' ∧ c ≠ ',' ∧ c ≠ '$' := by
  simp [nameChar] at h
  obtain ⟨⟨⟨⟨⟨⟨⟨a, b⟩, c'⟩, d⟩, e⟩, f⟩, g⟩, i⟩ := h
  exact ⟨a, b, c', d, e, f, g, i⟩

theorem ws_ne {c d : Char} (h : isWs c = true) (hd : isWs d = false) : c ≠ d := by
  intro e; subst e; rw [h] at hd; cases hd

theorem wsOk_mem {w : Str} (h : wsOk w = true) : ∀ c ∈ w, isWs c = true := by
  simpa [wsOk] using h

/-- a string of whitespace does not contain the non-whitespace character `d` -/
theorem ws_notin {w : Str} (h : wsOk w = true) {d : Char} (hd : isWs d = false) : d ∉ w := by
  intro hm
  have := wsOk_mem h d hm
  rw [this] at hd; cases hd

theorem name_mem {n : Str} (h : n.all nameChar = true) : ∀ c ∈ n, nameChar c = true := by
  simpa using h

/-! ### `isPrefixOf`, `occIn`, `splitOnce` -/

theorem isPrefixOf_cons_ne {p c : Char} (ps cs : Str) (h : c ≠ p) :
    (p :: ps).isPrefixOf (c :: cs) = false := by
  simp [List.isPrefixOf]
  intro e; exact absurd e.symm h

theorem isPrefixOf_append_right (pat a b : Str) (h : pat.isPrefixOf a = true) :
    pat.isPrefixOf (a ++ b) = true := by
  induction pat generalizing a with
  | nil => simp
  | cons p ps ih =>
    cases a with
    | nil => simp at h
    | cons c cs =>
      simp only [List.cons_append, List.isPrefixOf_cons_cons, Bool.and_eq_true] at h ⊢
      exact ⟨h.1, ih cs h.2⟩

/-- a pattern without `d` cannot use a `d` of the text -/
theorem isPrefixOf_stop (pat v y : Str) (d : Char) (hd : d ∉ pat) :
    pat.isPrefixOf (v ++ d :: y) = pat.isPrefixOf v := by
  induction pat generalizing v with
  | nil => simp
  | cons p ps ih =>
    have hp : p ≠ d := fun e => hd (by simp [e])
    have hps : d ∉ ps := fun e => hd (by simp [e])
    cases v with
    | nil => simp [List.isPrefixOf, hp]
    | cons c cs =>
      simp only [List.cons_append, List.isPrefixOf_cons_cons]
      rw [ih cs hps]

theorem occIn_nil (pat x : Str) : occIn pat [] x = false := rfl

theorem occIn_append (pat a b x : Str) :
    occIn pat (a ++ b) x = (occIn pat a (b ++ x) || occIn pat b x) := by
  induction a with
  | nil => simp [occIn]
  | cons c cs ih =>
    simp only [List.cons_append, occIn, ih, List.append_assoc, Bool.or_assoc]

/-- fewer characters after `s`: fewer occurrences -/
theorem occIn_mono (pat s x y : Str) (h : occIn pat s (x ++ y) = false) : occIn pat s x = false := by
  induction s with
  | nil => rfl
  | cons c cs ih =>
    simp only [occIn, Bool.or_eq_false_iff] at h ⊢
    refine ⟨?_, ih h.2⟩
    cases hp : pat.isPrefixOf (c :: cs ++ x) with
    | false => rfl
    | true =>
      have := isPrefixOf_append_right pat (c :: cs ++ x) y hp
      simp only [List.append_assoc] at this
      rw [this] at h; exact absurd h.1 (by simp)

/-- the continuation starts with a character the pattern does not contain (or is empty) -/
theorem occIn_stop (pat s x y : Str) (d : Char) (hd : d ∉ pat) :
    occIn pat s (x ++ d :: y) = occIn pat s x := by
  induction s with
  | nil => rfl
  | cons c cs ih =>
    simp only [occIn, ih]
    have := isPrefixOf_stop pat (c :: cs ++ x) y d hd
    simp only [List.append_assoc] at this
    rw [this]

/-- the first character of the pattern does not occur in `s` -/
theorem occIn_notin (p : Char) (ps s x : Str) (h : p ∉ s) : occIn (p :: ps) s x = false := by
  induction s with
  | nil => rfl
  | cons c cs ih =>
    have hc : c ≠ p := fun e => h (by simp [e])
    have hcs : p ∉ cs := fun e => h (by simp [e])
    simp only [occIn, List.cons_append, isPrefixOf_cons_ne _ _ hc, ih hcs, Bool.or_false]

theorem splitOnce_occIn_some (pat s x a b : Str) (h : occIn pat s x = false)
    (hx : splitOnce pat x = some (a, b)) : splitOnce pat (s ++ x) = some (s ++ a, b) := by
  induction s with
  | nil => simpa using hx
  | cons c cs ih =>
    simp only [occIn, Bool.or_eq_false_iff] at h
    simp only [List.cons_append] at h ⊢
    simp only [splitOnce, h.1, ih h.2]
    simp

theorem splitOnce_occIn_none (pat s x : Str) (h : occIn pat s x = false)
    (hx : splitOnce pat x = none) : splitOnce pat (s ++ x) = none := by
  induction s with
  | nil => simpa using hx
  | cons c cs ih =>
    simp only [occIn, Bool.or_eq_false_iff] at h
    simp only [List.cons_append] at h ⊢
    simp only [splitOnce, h.1, ih h.2]
    simp

theorem splitOnceC_notin (d : Char) (s r : Str) (h : d ∉ s) :
    splitOnceC d (s ++ d :: r) = some (s, r) := by
  induction s with
  | nil => simp [splitOnceC]
  | cons c cs ih =>
    have hc : c ≠ d := fun e => h (by simp [e])
    have hcs : d ∉ cs := fun e => h (by simp [e])
    simp [splitOnceC, hc, ih hcs]

theorem splitOnceC_none (d : Char) (s : Str) (h : d ∉ s) : splitOnceC d s = none := by
  induction s with
  | nil => simp [splitOnceC]
  | cons c cs ih =>
    have hc : c ≠ d := fun e => h (by simp [e])
    have hcs : d ∉ cs := fun e => h (by simp [e])
    simp [splitOnceC, hc, ih hcs]

/-! ### `trim` -/

theorem trimStart_ws_append (w x : Str) (h : wsOk w = true) : trimStart (w ++ x) = trimStart x := by
  induction w with
  | nil => rfl
  | cons c cs ih =>
    have hc : isWs c = true := wsOk_mem h c (by simp)
    have hcs : wsOk cs = true := by
      simp only [wsOk, List.all_cons, Bool.and_eq_true] at h ⊢; exact h.2
    have := ih hcs
    simp only [trimStart] at this ⊢
    simp [hc, this]

theorem trimStart_ws (w : Str) (h : wsOk w = true) : trimStart w = [] := by
  have := trimStart_ws_append w [] h
  simpa [trimStart] using this

theorem trimStart_cons (c : Char) (x : Str) (h : isWs c = false) : trimStart (c :: x) = c :: x := by
  simp [trimStart, List.dropWhile, h]

theorem trimEnd_append_ws (x w : Str) (h : wsOk w = true) : trimEnd (x ++ w) = trimEnd x := by
  have hr : wsOk w.reverse = true := by simpa [wsOk] using h
  have := trimStart_ws_append w.reverse x.reverse hr
  simp only [trimStart] at this
  simp [trimEnd, this]

theorem trimEnd_concat (x : Str) (c : Char) (h : isWs c = false) : trimEnd (x ++ [c]) = x ++ [c] := by
  simp [trimEnd, h]

theorem trimEnd_ws (w : Str) (h : wsOk w = true) : trimEnd w = [] := by
  have := trimEnd_append_ws [] w h
  simpa [trimEnd] using this

/-- `trimEnd` of a string without whitespace -/
theorem trimEnd_noWs (n : Str) (h : ∀ c ∈ n, isWs c = false) : trimEnd n = n := by
  rcases List.eq_nil_or_concat n with rfl | ⟨l, c, rfl⟩
  · rfl
  · rw [List.concat_eq_append] at h ⊢
    exact trimEnd_concat l c (h c (by simp))

/-- `x` non-empty prefix kept: `trimEnd (x ++ n)` when `n` has no whitespace and is non-empty -/
theorem trimEnd_append_noWs (x n : Str) (hn : n ≠ []) (h : ∀ c ∈ n, isWs c = false) :
    trimEnd (x ++ n) = x ++ n := by
  rcases List.eq_nil_or_concat n with rfl | ⟨l, c, rfl⟩
  · exact absurd rfl hn
  · rw [List.concat_eq_append] at h ⊢
    rw [← List.append_assoc]; exact trimEnd_concat (x ++ l) c (h c (by simp))

/-- whitespace around a name without whitespace is trimmed away, nothing else -/
theorem trim_pad (w1 n w2 : Str) (h1 : wsOk w1 = true) (h2 : wsOk w2 = true)
    (hn : ∀ c ∈ n, isWs c = false) : trim (w1 ++ (n ++ w2)) = n := by
  unfold trim
  rw [trimStart_ws_append _ _ h1]
  cases n with
  | nil => simp [trimStart_ws _ h2, trimEnd]
  | cons c cs =>
    rw [List.cons_append, trimStart_cons _ _ (hn c (by simp)), ← List.cons_append,
      trimEnd_append_ws _ _ h2, trimEnd_noWs _ hn]

end I18nVerif.Src
