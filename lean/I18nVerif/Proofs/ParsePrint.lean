import I18nVerif.Spec.Src
/-
Helper lemmas for C01 (parse ∘ print): string primitives (`splitOnce`, `splitOnceC`, `trim`),
the tag scan `closingScan` on printed well-formed items (Dyck invariant), and the three parse
steps of `Parse.newF` (all text / first variable / first component).
-/
namespace I18nVerif.Src
open I18nVerif Str Parse

/-! ### characters -/

theorem nameChar_spec {c : Char} (h : nameChar c = true) :
    isWs c = false ∧ c ≠ '<' ∧ c ≠ '>' ∧ c ≠ '/' ∧ c ≠ '{' ∧ c ≠ '}' ∧ c ≠ ',' ∧ c ≠ '$' := by
  simp [nameChar] at h
  obtain ⟨⟨⟨⟨⟨⟨⟨a, b⟩, c'⟩, d⟩, e⟩, f⟩, g⟩, i⟩ := h
  exact ⟨a, b, c', d, e, f, g, i⟩

theorem ws_ne {c d : Char} (h : isWs c = true) (hd : isWs d = false) : c ≠ d := by
  intro e; subst e; rw [h] at hd; cases hd

theorem wsOk_mem {w : Str} (h : wsOk w = true) : ∀ c ∈ w, isWs c = true := by
  simpa [wsOk] using h

/-- a string of whitespace does not contain the non-whitespace character `d` -/
theorem ws_notin {w : Str} (h : wsOk w = true) {d : Char} (hd : isWs d = false) : d ∉ w := by
  intro hm
  have := wsOk_mem h d hm
  rw [this] at hd; cases hd

theorem name_mem {n : Str} (h : n.all nameChar = true) : ∀ c ∈ n, nameChar c = true := by
  simpa using h

/-! ### `isPrefixOf`, `occIn`, `splitOnce` -/

theorem isPrefixOf_cons_ne {p c : Char} (ps cs : Str) (h : c ≠ p) :
    (p :: ps).isPrefixOf (c :: cs) = false := by
  simp [List.isPrefixOf]
  intro e; exact absurd e.symm h

theorem isPrefixOf_append_right (pat a b : Str) (h : pat.isPrefixOf a = true) :
    pat.isPrefixOf (a ++ b) = true := by
  induction pat generalizing a with
  | nil => simp
  | cons p ps ih =>
    cases a with
    | nil => simp at h
    | cons c cs =>
      simp only [List.cons_append, List.isPrefixOf_cons_cons, Bool.and_eq_true] at h ⊢
      exact ⟨h.1, ih cs h.2⟩

/-- a pattern without `d` cannot use a `d` of the text -/
theorem isPrefixOf_stop (pat v y : Str) (d : Char) (hd : d ∉ pat) :
    pat.isPrefixOf (v ++ d :: y) = pat.isPrefixOf v := by
  induction pat generalizing v with
  | nil => simp
  | cons p ps ih =>
    have hp : p ≠ d := fun e => hd (by simp [e])
    have hps : d ∉ ps := fun e => hd (by simp [e])
    cases v with
    | nil => simp [List.isPrefixOf, hp]
    | cons c cs =>
      simp only [List.cons_append, List.isPrefixOf_cons_cons]
      rw [ih cs hps]

theorem occIn_nil (pat x : Str) : occIn pat [] x = false := rfl

theorem occIn_append (pat a b x : Str) :
    occIn pat (a ++ b) x = (occIn pat a (b ++ x) || occIn pat b x) := by
  induction a with
  | nil => simp [occIn]
  | cons c cs ih =>
    simp only [List.cons_append, occIn, ih, List.append_assoc, Bool.or_assoc]

/-- fewer characters after `s`: fewer occurrences -/
theorem occIn_mono (pat s x y : Str) (h : occIn pat s (x ++ y) = false) : occIn pat s x = false := by
  induction s with
  | nil => rfl
  | cons c cs ih =>
    simp only [occIn, Bool.or_eq_false_iff] at h ⊢
    refine ⟨?_, ih h.2⟩
    cases hp : pat.isPrefixOf (c :: cs ++ x) with
    | false => rfl
    | true =>
      have := isPrefixOf_append_right pat (c :: cs ++ x) y hp
      simp only [List.append_assoc] at this
      rw [this] at h; exact absurd h.1 (by simp)

/-- the continuation starts with a character the pattern does not contain (or is empty) -/
theorem occIn_stop (pat s x y : Str) (d : Char) (hd : d ∉ pat) :
    occIn pat s (x ++ d :: y) = occIn pat s x := by
  induction s with
  | nil => rfl
  | cons c cs ih =>
    simp only [occIn, ih]
    have := isPrefixOf_stop pat (c :: cs ++ x) y d hd
    simp only [List.append_assoc] at this
    rw [this]

/-- the first character of the pattern does not occur in `s` -/
theorem occIn_notin (p : Char) (ps s x : Str) (h : p ∉ s) : occIn (p :: ps) s x = false := by
  induction s with
  | nil => rfl
  | cons c cs ih =>
    have hc : c ≠ p := fun e => h (by simp [e])
    have hcs : p ∉ cs := fun e => h (by simp [e])
    simp only [occIn, List.cons_append, isPrefixOf_cons_ne _ _ hc, ih hcs, Bool.or_false]

theorem splitOnce_occIn_some (pat s x a b : Str) (h : occIn pat s x = false)
    (hx : splitOnce pat x = some (a, b)) : splitOnce pat (s ++ x) = some (s ++ a, b) := by
  induction s with
  | nil => simpa using hx
  | cons c cs ih =>
    simp only [occIn, Bool.or_eq_false_iff] at h
    simp only [List.cons_append] at h ⊢
    simp only [splitOnce, h.1, ih h.2]
    simp

theorem splitOnce_occIn_none (pat s x : Str) (h : occIn pat s x = false)
    (hx : splitOnce pat x = none) : splitOnce pat (s ++ x) = none := by
  induction s with
  | nil => simpa using hx
  | cons c cs ih =>
    simp only [occIn, Bool.or_eq_false_iff] at h
    simp only [List.cons_append] at h ⊢
    simp only [splitOnce, h.1, ih h.2]
    simp

theorem splitOnceC_notin (d : Char) (s r : Str) (h : d ∉ s) :
    splitOnceC d (s ++ d :: r) = some (s, r) := by
  induction s with
  | nil => simp [splitOnceC]
  | cons c cs ih =>
    have hc : c ≠ d := fun e => h (by simp [e])
    have hcs : d ∉ cs := fun e => h (by simp [e])
    simp [splitOnceC, hc, ih hcs]

theorem splitOnceC_none (d : Char) (s : Str) (h : d ∉ s) : splitOnceC d s = none := by
  induction s with
  | nil => simp [splitOnceC]
  | cons c cs ih =>
    have hc : c ≠ d := fun e => h (by simp [e])
    have hcs : d ∉ cs := fun e => h (by simp [e])
    simp [splitOnceC, hc, ih hcs]

/-! ### `trim` -/

theorem trimStart_ws_append (w x : Str) (h : wsOk w = true) : trimStart (w ++ x) = trimStart x := by
  induction w with
  | nil => rfl
  | cons c cs ih =>
    have hc : isWs c = true := wsOk_mem h c (by simp)
    have hcs : wsOk cs = true := by
      simp only [wsOk, List.all_cons, Bool.and_eq_true] at h ⊢; exact h.2
    have := ih hcs
    simp only [trimStart] at this ⊢
    simp [hc, this]

theorem trimStart_ws (w : Str) (h : wsOk w = true) : trimStart w = [] := by
  have := trimStart_ws_append w [] h
  simpa [trimStart] using this

theorem trimStart_cons (c : Char) (x : Str) (h : isWs c = false) : trimStart (c :: x) = c :: x := by
  simp [trimStart, List.dropWhile, h]

theorem trimEnd_append_ws (x w : Str) (h : wsOk w = true) : trimEnd (x ++ w) = trimEnd x := by
  have hr : wsOk w.reverse = true := by simpa [wsOk] using h
  have := trimStart_ws_append w.reverse x.reverse hr
  simp only [trimStart] at this
  simp [trimEnd, this]

theorem trimEnd_concat (x : Str) (c : Char) (h : isWs c = false) : trimEnd (x ++ [c]) = x ++ [c] := by
  simp [trimEnd, h]

theorem trimEnd_ws (w : Str) (h : wsOk w = true) : trimEnd w = [] := by
  have := trimEnd_append_ws [] w h
  simpa [trimEnd] using this

/-- `trimEnd` of a string without whitespace -/
theorem trimEnd_noWs (n : Str) (h : ∀ c ∈ n, isWs c = false) : trimEnd n = n := by
  rcases List.eq_nil_or_concat n with rfl | ⟨l, c, rfl⟩
  · rfl
  · rw [List.concat_eq_append] at h ⊢
    exact trimEnd_concat l c (h c (by simp))

/-- `x` non-empty prefix kept: `trimEnd (x ++ n)` when `n` has no whitespace and is non-empty -/
theorem trimEnd_append_noWs (x n : Str) (hn : n ≠ []) (h : ∀ c ∈ n, isWs c = false) :
    trimEnd (x ++ n) = x ++ n := by
  rcases List.eq_nil_or_concat n with rfl | ⟨l, c, rfl⟩
  · exact absurd rfl hn
  · rw [List.concat_eq_append] at h ⊢
    rw [← List.append_assoc]; exact trimEnd_concat (x ++ l) c (h c (by simp))

/-- whitespace around a name without whitespace is trimmed away, nothing else -/
theorem trim_pad (w1 n w2 : Str) (h1 : wsOk w1 = true) (h2 : wsOk w2 = true)
    (hn : ∀ c ∈ n, isWs c = false) : trim (w1 ++ (n ++ w2)) = n := by
  unfold trim
  rw [trimStart_ws_append _ _ h1]
  cases n with
  | nil => simp [trimStart_ws _ h2, trimEnd]
  | cons c cs =>
    rw [List.cons_append, trimStart_cons _ _ (hn c (by simp)), ← List.cons_append,
      trimEnd_append_ws _ _ h2, trimEnd_noWs _ hn]

/-! ### printed lists -/

theorem printL_append (a b : List Item) : printL (a ++ b) = printL a ++ printL b := by
  induction a with
  | nil => simp [printL]
  | cons i is ih => simp [printL, ih]

theorem evalSrc_append (ρ : Eval.Env) (a b : List Item) :
    evalSrc ρ (a ++ b) = evalSrc ρ a ++ evalSrc ρ b := by
  induction a with
  | nil => simp [evalSrc]
  | cons i is ih => simp [evalSrc, ih]

theorem printI_var_append (n w1 w2 x : Str) :
    printI (.var n w1 w2) ++ x = '{' :: '{' :: (w1 ++ (n ++ (w2 ++ '}' :: '}' :: x))) := by
  simp [printI]

theorem printI_comp_append (n w1 w2 w3 w4 w5 : Str) (kids : List Item) (x : Str) :
    printI (.comp n w1 w2 w3 w4 w5 kids) ++ x =
      '<' :: (w1 ++ (n ++ (w2 ++ '>' :: (printL kids ++
        '<' :: (w4 ++ '/' :: (w3 ++ (n ++ (w5 ++ '>' :: x)))))))) := by
  simp [printI, openTag, closeTag]

theorem contains_false (d : Char) (s : Str) : Str.contains d s = false ↔ d ∉ s := by
  simp only [Str.contains, List.any_eq_false, beq_iff_eq]
  constructor
  · intro h hm; exact h d hm rfl
  · intro h x hx e; subst e; exact h hx

theorem textOk_spec {s x : Str} (h : textOk s x = true) :
    '<' ∉ s ∧ occIn ['{', '{'] s x = false ∧ occIn ['$', 't', '('] s x = false := by
  simp only [textOk, Bool.and_eq_true, Bool.not_eq_true', contains_false] at h
  exact ⟨h.1.1, h.1.2, h.2⟩

theorem wfI_mono (i : Item) (x y : Str) (h : wfI i (x ++ y) = true) : wfI i x = true := by
  cases i with
  | text s =>
    simp only [wfI] at h ⊢
    obtain ⟨a, b, c⟩ := textOk_spec h
    have a' : Str.contains '<' s = false := (contains_false _ _).2 a
    simp [textOk, a', occIn_mono _ _ _ _ b, occIn_mono _ _ _ _ c]
  | var n w1 w2 => simpa [wfI] using h
  | comp n w1 w2 w3 w4 w5 kids => simpa [wfI] using h

theorem wfL_append_right (a b : List Item) (h : wfL (a ++ b) = true) : wfL b = true := by
  induction a with
  | nil => simpa using h
  | cons i is ih =>
    simp only [List.cons_append, wfL, Bool.and_eq_true] at h
    exact ih h.2

theorem wfL_append_left (a b : List Item) (h : wfL (a ++ b) = true) : wfL a = true := by
  induction a with
  | nil => rfl
  | cons i is ih =>
    simp only [List.cons_append, wfL, Bool.and_eq_true, printL_append] at h ⊢
    exact ⟨wfI_mono _ _ _ h.1, ih h.2⟩

theorem wfL_cons {i : Item} {is : List Item} (h : wfL (i :: is) = true) :
    wfI i (printL is) = true ∧ wfL is = true := by
  simpa [wfL] using h

def AllText (t : List Item) : Prop := ∀ i ∈ t, isText i = true
def CompFree (t : List Item) : Prop := ∀ i ∈ t, isComp i = false

/-- for a run of text items followed by `rest`: no `<` in it, no `{{` and no `$t(` starts in it -/
theorem texts_spec (texts rest : List Item) (ht : AllText texts) (h : wfL (texts ++ rest) = true) :
    '<' ∉ printL texts ∧ occIn ['{', '{'] (printL texts) (printL rest) = false ∧
      occIn ['$', 't', '('] (printL texts) (printL rest) = false := by
  induction texts with
  | nil => simp [printL, occIn]
  | cons i is ih =>
    have hi := ht i (by simp)
    have his : AllText is := fun j hj => ht j (by simp [hj])
    cases i with
    | text s =>
      have h' : wfL (Item.text s :: (is ++ rest)) = true := h
      obtain ⟨h1, h2⟩ := wfL_cons h'
      obtain ⟨a, b, c⟩ := ih his h2
      simp only [wfI, printL_append] at h1
      obtain ⟨a', b', c'⟩ := textOk_spec h1
      simp only [printL, printI, occIn_append, b, b', c, c', Bool.or_false, List.mem_append]
      exact ⟨fun hm => hm.elim a' a, trivial, trivial⟩
    | var => simp [isText] at hi
    | comp => simp [isText] at hi

theorem texts_eval (ρ : Eval.Env) (texts : List Item) (ht : AllText texts) :
    evalSrc ρ texts = printL texts := by
  induction texts with
  | nil => rfl
  | cons i is ih =>
    have hi := ht i (by simp)
    have his : AllText is := fun j hj => ht j (by simp [hj])
    cases i with
    | text s => simp [evalSrc, evalI, printL, printI, ih his]
    | var => simp [isText] at hi
    | comp => simp [isText] at hi

/-! ### names and tags -/

theorem name_notin {n : Str} (h : n.all nameChar = true) {d : Char} (hd : nameChar d = false) :
    d ∉ n := by
  intro hm
  have := name_mem h d hm
  rw [this] at hd; cases hd

theorem name_noWs {n : Str} (h : n.all nameChar = true) : ∀ c ∈ n, isWs c = false :=
  fun c hc => (nameChar_spec (name_mem h c hc)).1

theorem nameOk_spec {pre n : Str} (h : nameOk pre n = true) :
    n.all nameChar = true ∧ Key.new (pre ++ n) = some (pre ++ n) := by
  simpa [nameOk] using h

/-- a character that is neither whitespace nor a name character is not in `w1 name w2` -/
theorem pad_notin {w1 n w2 : Str} (h1 : wsOk w1 = true) (hn : n.all nameChar = true)
    (h2 : wsOk w2 = true) {d : Char} (hd : isWs d = false) (hd' : nameChar d = false) :
    d ∉ w1 ++ (n ++ w2) := by
  simp only [List.mem_append, not_or]
  exact ⟨ws_notin h1 hd, name_notin hn hd', ws_notin h2 hd⟩

/-! ### no `$t(` in a printed well-formed list -/

/-- what follows a printed list: nothing, or a tag -/
def Stop (z : Str) : Prop := z = [] ∨ ∃ y, z = '<' :: y

theorem occIn_stop' (pat s x z : Str) (hp : '<' ∉ pat) (hz : Stop z) (h : occIn pat s x = false) :
    occIn pat s (x ++ z) = false := by
  rcases hz with rfl | ⟨y, rfl⟩
  · simpa using h
  · rw [occIn_stop _ _ _ _ _ hp]; exact h

theorem printI_comp_eq (n w1 w2 w3 w4 w5 : Str) (kids : List Item) :
    printI (.comp n w1 w2 w3 w4 w5 kids) =
      ('<' :: (w1 ++ (n ++ (w2 ++ ['>'])))) ++ (printL kids ++
        ('<' :: (w4 ++ '/' :: (w3 ++ (n ++ (w5 ++ ['>'])))))) := by
  simp [printI, openTag, closeTag]

theorem printI_var_eq (n w1 w2 : Str) :
    printI (.var n w1 w2) = '{' :: '{' :: (w1 ++ (n ++ (w2 ++ ['}', '}']))) := by
  simp [printI]

theorem isWs_dollar : isWs '$' = false := by decide
theorem isWs_lt : isWs '<' = false := by decide
theorem isWs_gt : isWs '>' = false := by decide
theorem isWs_slash : isWs '/' = false := by decide
theorem isWs_lb : isWs '{' = false := by decide
theorem isWs_rb : isWs '}' = false := by decide
theorem isWs_comma : isWs ',' = false := by decide
theorem nameChar_dollar : nameChar '$' = false := by decide
theorem nameChar_lt : nameChar '<' = false := by decide
theorem nameChar_gt : nameChar '>' = false := by decide
theorem nameChar_slash : nameChar '/' = false := by decide
theorem nameChar_lb : nameChar '{' = false := by decide
theorem nameChar_rb : nameChar '}' = false := by decide
theorem nameChar_comma : nameChar ',' = false := by decide

theorem wfI_var_spec {n w1 w2 x : Str} (h : wfI (.var n w1 w2) x = true) :
    nameOk "var_".toList n = true ∧ wsOk w1 = true ∧ wsOk w2 = true := by
  simp only [wfI, Bool.and_eq_true] at h
  exact ⟨h.1.1, h.1.2, h.2⟩

theorem wfI_comp_spec {n w1 w2 w3 w4 w5 x : Str} {kids : List Item}
    (h : wfI (.comp n w1 w2 w3 w4 w5 kids) x = true) :
    nameOk "comp_".toList n = true ∧ wsOk w1 = true ∧ wsOk w2 = true ∧ wsOk w3 = true ∧
      wsOk w4 = true ∧ wsOk w5 = true ∧ wfL kids = true := by
  simp only [wfI, Bool.and_eq_true] at h
  exact ⟨h.1.1.1.1.1.1, h.1.1.1.1.1.2, h.1.1.1.1.2, h.1.1.1.2, h.1.1.2, h.1.2, h.2⟩

mutual
theorem fk_I : ∀ (i : Item) (x z : Str), wfI i x = true → Stop z →
    occIn ['$', 't', '('] (printI i) (x ++ z) = false
  | .text s, x, z, h, hz => by
    have := (textOk_spec (by simpa [wfI] using h)).2.2
    simp only [printI]
    exact occIn_stop' _ _ _ _ (by decide) hz this
  | .var n w1 w2, x, z, h, _ => by
    obtain ⟨hn, h1, h2⟩ := wfI_var_spec h
    rw [printI_var_eq]
    apply occIn_notin
    have := pad_notin h1 (nameOk_spec hn).1 h2 isWs_dollar nameChar_dollar
    simp only [List.mem_cons, List.mem_append, not_or] at this ⊢
    refine ⟨by decide, by decide, this.1, this.2.1, this.2.2, by decide, by decide, ?_⟩
    exact List.not_mem_nil
  | .comp n w1 w2 w3 w4 w5 kids, x, z, h, _ => by
    obtain ⟨hn, h1, h2, h3, h4, h5, hk⟩ := wfI_comp_spec h
    have hn' := (nameOk_spec hn).1
    rw [printI_comp_eq, occIn_append, occIn_append]
    have a : occIn ['$', 't', '('] ('<' :: (w1 ++ (n ++ (w2 ++ ['>']))))
        (printL kids ++ '<' :: (w4 ++ '/' :: (w3 ++ (n ++ (w5 ++ ['>'])))) ++ (x ++ z)) = false := by
      apply occIn_notin
      have := pad_notin h1 hn' h2 isWs_dollar nameChar_dollar
      simp only [List.mem_cons, List.mem_append, not_or] at this ⊢
      exact ⟨by decide, this.1, this.2.1, this.2.2, by decide, List.not_mem_nil⟩
    have b := fk_L kids ('<' :: (w4 ++ '/' :: (w3 ++ (n ++ (w5 ++ ['>'])))) ++ (x ++ z)) hk
      (Or.inr ⟨_, rfl⟩)
    have c : occIn ['$', 't', '('] ('<' :: (w4 ++ '/' :: (w3 ++ (n ++ (w5 ++ ['>'])))))
        (x ++ z) = false := by
      apply occIn_notin
      have := pad_notin h3 hn' h5 isWs_dollar nameChar_dollar
      simp only [List.mem_cons, List.mem_append, not_or] at this ⊢
      exact ⟨by decide, ws_notin h4 isWs_dollar, by decide, this.1, this.2.1, this.2.2, by decide,
        List.not_mem_nil⟩
    rw [a, b, c]; rfl
theorem fk_L : ∀ (t : List Item) (z : Str), wfL t = true → Stop z →
    occIn ['$', 't', '('] (printL t) z = false
  | [], _, _, _ => rfl
  | i :: is, z, h, hz => by
    obtain ⟨h1, h2⟩ := wfL_cons h
    rw [printL, occIn_append, fk_I i (printL is) z h1 hz, fk_L is z h2 hz]; rfl
end

/-- a printed well-formed list contains no `$t(` -/
theorem splitOnce_fk_none (t : List Item) (h : wfL t = true) :
    splitOnce ['$', 't', '('] (printL t) = none := by
  have := splitOnce_occIn_none _ _ [] (fk_L t [] h (Or.inl rfl)) rfl
  simpa using this

/-! ### the finders of `Parse.newF` where they do not apply -/

theorem fkPat : "$t(".toList = ['$', 't', '('] := rfl
theorem brPat : "{{".toList = ['{', '{'] := rfl
theorem brPat' : "}}".toList = ['}', '}'] := rfl

theorem findForeignKey_none (rec_ : Str → Res PV) (v : Str)
    (h : splitOnce ['$', 't', '('] v = none) : findForeignKey rec_ v = none := by
  simp [findForeignKey, fkPat, h]

theorem findOpeningTag_none (v : Str) (h : '<' ∉ v) : findOpeningTag v = none := by
  simp [findOpeningTag, splitOnceC_none _ _ h]

theorem findComponent_none (rec_ : Str → Res PV) (v : Str) (h : '<' ∉ v) :
    findComponent rec_ v = none := by
  simp [findComponent, findValidComponent, findOpeningTag_none v h]

theorem findVariable_none (rec_ : Str → Res PV) (v : Str)
    (h : splitOnce ['{', '{'] v = none) : findVariable rec_ v = none := by
  simp [findVariable, brPat, h]

/-- `find_variable` on `T {{w1 n w2}} R` when no `{{` starts inside `T` -/
theorem findVariable_var (rec_ : Str → Res PV) (T n w1 w2 R : Str) (b a : PV)
    (hT : occIn ['{', '{'] T ('{' :: '{' :: (w1 ++ (n ++ (w2 ++ '}' :: '}' :: R)))) = false)
    (h1 : wsOk w1 = true) (h2 : wsOk w2 = true) (hn : nameOk "var_".toList n = true)
    (hb : rec_ T = .ok b) (ha : rec_ R = .ok a) :
    findVariable rec_ (T ++ '{' :: '{' :: (w1 ++ (n ++ (w2 ++ '}' :: '}' :: R)))) =
      some (.ok (.bloc [b, .var ("var_".toList ++ n) .none, a])) := by
  obtain ⟨hn', hk⟩ := nameOk_spec hn
  have s1 : splitOnce ['{', '{'] (T ++ '{' :: '{' :: (w1 ++ (n ++ (w2 ++ '}' :: '}' :: R)))) =
      some (T, w1 ++ (n ++ (w2 ++ '}' :: '}' :: R))) := by
    have := splitOnce_occIn_some ['{', '{'] T _ [] (w1 ++ (n ++ (w2 ++ '}' :: '}' :: R))) hT
      (by simp [splitOnce])
    simpa using this
  have s2 : splitOnce ['}', '}'] (w1 ++ (n ++ (w2 ++ '}' :: '}' :: R))) =
      some (w1 ++ (n ++ w2), R) := by
    have := splitOnce_occIn_some ['}', '}'] (w1 ++ (n ++ w2)) ('}' :: '}' :: R) [] R
      (occIn_notin _ _ _ _ (pad_notin h1 hn' h2 isWs_rb nameChar_rb)) (by simp [splitOnce])
    simpa using this
  simp only [findVariable, brPat, brPat', s1, s2, trim_pad _ _ _ h1 h2 (name_noWs hn'), hb, ha,
    splitOnceC_none ',' n (name_notin hn' nameChar_comma), hk]

/-! ### lists without components: all text, or a first variable -/

theorem split_var (t : List Item) (hc : CompFree t) :
    AllText t ∨ ∃ texts n w1 w2 post, t = texts ++ Item.var n w1 w2 :: post ∧ AllText texts := by
  induction t with
  | nil => left; intro i hi; cases hi
  | cons i is ih =>
    have hi := hc i (by simp)
    have his : CompFree is := fun j hj => hc j (by simp [hj])
    cases i with
    | text s =>
      rcases ih his with h | ⟨texts, n, w1, w2, post, rfl, ht⟩
      · left
        intro j hj
        rcases List.mem_cons.1 hj with rfl | hj
        · rfl
        · exact h j hj
      · right
        refine ⟨Item.text s :: texts, n, w1, w2, post, rfl, ?_⟩
        intro j hj
        rcases List.mem_cons.1 hj with rfl | hj
        · rfl
        · exact ht j hj
    | var n w1 w2 =>
      right
      exact ⟨[], n, w1, w2, is, rfl, fun j hj => by cases hj⟩
    | comp => simp [isComp] at hi

theorem compFree_noLt (t : List Item) (hc : CompFree t) (h : wfL t = true) : '<' ∉ printL t := by
  induction t with
  | nil => simp [printL]
  | cons i is ih =>
    have hi := hc i (by simp)
    have his : CompFree is := fun j hj => hc j (by simp [hj])
    obtain ⟨h1, h2⟩ := wfL_cons h
    have := ih his h2
    cases i with
    | text s =>
      have a := (textOk_spec (by simpa [wfI] using h1)).1
      simp only [printL, printI, List.mem_append, not_or]
      exact ⟨a, this⟩
    | var n w1 w2 =>
      obtain ⟨hn, hw1, hw2⟩ := wfI_var_spec h1
      have p := pad_notin hw1 (nameOk_spec hn).1 hw2 isWs_lt nameChar_lt
      rw [printL, printI_var_eq]
      simp only [List.mem_cons, List.mem_append, not_or] at p ⊢
      exact ⟨⟨by decide, by decide, p.1, p.2.1, p.2.2, by decide, by decide, List.not_mem_nil⟩, this⟩
    | comp => simp [isComp] at hi

theorem compFree_append_left {a b : List Item} (h : CompFree (a ++ b)) : CompFree a :=
  fun i hi => h i (by simp [hi])
theorem compFree_append_right {a b : List Item} (h : CompFree (a ++ b)) : CompFree b :=
  fun i hi => h i (by simp [hi])
theorem compFree_of_allText {a : List Item} (h : AllText a) : CompFree a := by
  intro i hi
  have := h i hi
  cases i <;> simp_all [isText, isComp]

/-- a run of text items is read as one literal -/
theorem newF_texts (fuel : Nat) (t : List Item) (ht : AllText t) (h : wfL t = true) :
    newF (fuel + 1) (printL t) = .ok (.lit (.str (printL t) none)) := by
  obtain ⟨a, b, _⟩ := texts_spec t [] ht (by simpa using h)
  have s : splitOnce ['{', '{'] (printL t) = none := by
    have := splitOnce_occIn_none _ _ [] b rfl
    simpa [printL] using this
  simp only [newF, findForeignKey_none _ _ (splitOnce_fk_none t h), findComponent_none _ _ a,
    findVariable_none _ _ s]

theorem printL_var_split (texts post : List Item) (n w1 w2 : Str) :
    printL (texts ++ Item.var n w1 w2 :: post) =
      printL texts ++ '{' :: '{' :: (w1 ++ (n ++ (w2 ++ '}' :: '}' :: printL post))) := by
  rw [printL_append, printL, printI_var_append]

/-- no component: the first variable splits the string, both sides are parsed on their own -/
theorem newF_var (fuel : Nat) (texts post : List Item) (n w1 w2 : Str) (ht : AllText texts)
    (hc : CompFree (texts ++ Item.var n w1 w2 :: post))
    (h : wfL (texts ++ Item.var n w1 w2 :: post) = true) (b a : PV)
    (hb : newF fuel (printL texts) = .ok b) (ha : newF fuel (printL post) = .ok a) :
    newF (fuel + 1) (printL (texts ++ Item.var n w1 w2 :: post)) =
      .ok (.bloc [b, .var ("var_".toList ++ n) .none, a]) := by
  obtain ⟨_, o, _⟩ := texts_spec texts _ ht h
  obtain ⟨hv, _⟩ := wfL_cons (wfL_append_right _ _ h)
  obtain ⟨hn, h1, h2⟩ := wfI_var_spec hv
  have hv : findVariable (newF fuel) (printL (texts ++ Item.var n w1 w2 :: post)) =
      some (.ok (.bloc [b, .var ("var_".toList ++ n) .none, a])) := by
    rw [printL_var_split]
    rw [printL, printI_var_append] at o
    exact findVariable_var (newF fuel) _ n w1 w2 _ b a o h1 h2 hn hb ha
  simp only [newF, findForeignKey_none _ _ (splitOnce_fk_none _ h),
    findComponent_none _ _ (compFree_noLt _ hc h), hv]

/-! ### `closingScan` on printed well-formed items (the Dyck invariant) -/

theorem closingScan_skip (key s x : Str) (p d : Nat) (f : Option (Nat × Nat)) (h : '<' ∉ s) :
    closingScan key (s ++ x) p d f = closingScan key x (p + s.length) d f := by
  induction s generalizing p with
  | nil => simp
  | cons c cs ih =>
    have hc : c ≠ '<' := fun e => h (by simp [e])
    have hcs : '<' ∉ cs := fun e => h (by simp [e])
    have hb : (c == '<') = false := by simpa using hc
    rw [List.cons_append, closingScan]
    simp only [hb, Bool.false_eq_true, if_false]
    rw [ih _ hcs]
    have : p + 1 + cs.length = p + (c :: cs).length := by simp; omega
    rw [this]

theorem stripPrefix_slash_none (n : Str) (h : '/' ∉ n) : stripPrefix ['/'] n = none := by
  cases n with
  | nil => simp [stripPrefix]
  | cons c cs =>
    have hc : c ≠ '/' := fun e => h (by simp [e])
    simp [stripPrefix, List.isPrefixOf, hc.symm]

/-- an opening tag `<w1 n w2>`: depth goes up iff its name is the key -/
theorem closingScan_open (key n w1 w2 x : Str) (p d : Nat) (f : Option (Nat × Nat))
    (hn : n.all nameChar = true) (h1 : wsOk w1 = true) (h2 : wsOk w2 = true) :
    closingScan key ('<' :: (w1 ++ (n ++ (w2 ++ '>' :: x)))) p d f =
      closingScan key x (p + (w1.length + n.length + w2.length + 2))
        (if n = key then d + 1 else d) f := by
  have hs : splitOnceC '>' (w1 ++ (n ++ (w2 ++ '>' :: x))) = some (w1 ++ (n ++ w2), x) := by
    have := splitOnceC_notin '>' (w1 ++ (n ++ w2)) x (pad_notin h1 hn h2 isWs_gt nameChar_gt)
    simpa using this
  have hlt : '<' ∉ w1 ++ (n ++ (w2 ++ ['>'])) := by
    have := pad_notin h1 hn h2 isWs_lt nameChar_lt
    simp only [List.mem_append, not_or, List.mem_cons] at this ⊢
    exact ⟨this.1, this.2.1, this.2.2, by decide, List.not_mem_nil⟩
  have hk : w1 ++ (n ++ (w2 ++ '>' :: x)) = (w1 ++ (n ++ (w2 ++ ['>']))) ++ x := by simp
  rw [closingScan]
  simp only [beq_self_eq_true, if_true, hs, trim_pad _ _ _ h1 h2 (name_noWs hn),
    stripPrefix_slash_none n (name_notin hn nameChar_slash)]
  have hl : ∀ q, q + 1 + (w1 ++ (n ++ (w2 ++ ['>']))).length =
      q + (w1.length + n.length + w2.length + 2) := by
    intro q; simp only [List.length_append, List.length_cons, List.length_nil]; omega
  by_cases e : n = key
  · simp only [e, beq_self_eq_true, if_true]
    rw [← e, hk, closingScan_skip _ _ _ _ _ _ hlt, hl]
  · have : (n == key) = false := by simpa using e
    simp only [this, Bool.false_eq_true, if_false, e]
    rw [hk, closingScan_skip _ _ _ _ _ _ hlt, hl]

/-- the text between `<` and `>` of a closing tag is read as `/` + (something trimming to) the name -/
theorem close_trim (n w3 w4 w5 : Str) (hn : n.all nameChar = true) (h3 : wsOk w3 = true)
    (h4 : wsOk w4 = true) (h5 : wsOk w5 = true) :
    ∃ r, trim (w4 ++ '/' :: (w3 ++ (n ++ w5))) = '/' :: r ∧ trimStart r = n := by
  have e1 : trim (w4 ++ '/' :: (w3 ++ (n ++ w5))) = trimEnd ('/' :: (w3 ++ n)) := by
    unfold trim
    rw [trimStart_ws_append _ _ h4, trimStart_cons _ _ isWs_slash]
    have : '/' :: (w3 ++ (n ++ w5)) = ('/' :: (w3 ++ n)) ++ w5 := by simp
    rw [this, trimEnd_append_ws _ _ h5]
  cases n with
  | nil =>
    refine ⟨[], ?_, rfl⟩
    rw [e1]
    have : '/' :: (w3 ++ []) = ['/'] ++ w3 := by simp
    rw [this, trimEnd_append_ws _ _ h3]
    exact trimEnd_concat [] '/' isWs_slash
  | cons c cs =>
    refine ⟨w3 ++ c :: cs, ?_, ?_⟩
    · rw [e1]
      have : '/' :: (w3 ++ c :: cs) = ('/' :: w3) ++ (c :: cs) := by simp
      rw [this, trimEnd_append_noWs _ _ (by simp) (name_noWs hn)]
    · rw [trimStart_ws_append _ _ h3, trimStart_cons _ _ (name_noWs hn c (by simp))]

/-- a closing tag `<w4/w3 n w5>` -/
theorem closingScan_close (key n w3 w4 w5 x : Str) (p d : Nat) (f : Option (Nat × Nat))
    (hn : n.all nameChar = true) (h3 : wsOk w3 = true) (h4 : wsOk w4 = true) (h5 : wsOk w5 = true) :
    closingScan key ('<' :: (w4 ++ '/' :: (w3 ++ (n ++ (w5 ++ '>' :: x))))) p d f =
      closingScan key x (p + (w4.length + 1 + w3.length + n.length + w5.length + 2))
        (if n = key then d - 1 else d)
        (if n = key ∧ d = 0 then
          some (p, p + (w4.length + 1 + w3.length + n.length + w5.length) + 2) else f) := by
  have hs : splitOnceC '>' (w4 ++ '/' :: (w3 ++ (n ++ (w5 ++ '>' :: x)))) =
      some (w4 ++ '/' :: (w3 ++ (n ++ w5)), x) := by
    have hnot : '>' ∉ w4 ++ '/' :: (w3 ++ (n ++ w5)) := by
      have := pad_notin h3 hn h5 isWs_gt nameChar_gt
      simp only [List.mem_append, not_or, List.mem_cons] at this ⊢
      exact ⟨ws_notin h4 isWs_gt, by decide, this.1, this.2.1, this.2.2⟩
    have := splitOnceC_notin '>' _ x hnot
    simpa using this
  have hlt : '<' ∉ w4 ++ '/' :: (w3 ++ (n ++ (w5 ++ ['>']))) := by
    have := pad_notin h3 hn h5 isWs_lt nameChar_lt
    simp only [List.mem_append, not_or, List.mem_cons] at this ⊢
    exact ⟨ws_notin h4 isWs_lt, by decide, this.1, this.2.1, this.2.2, by decide, List.not_mem_nil⟩
  have hk : w4 ++ '/' :: (w3 ++ (n ++ (w5 ++ '>' :: x))) =
      (w4 ++ '/' :: (w3 ++ (n ++ (w5 ++ ['>'])))) ++ x := by simp
  obtain ⟨r, hr1, hr2⟩ := close_trim n w3 w4 w5 hn h3 h4 h5
  have hsp : stripPrefix ['/'] ('/' :: r) = some r := by simp [stripPrefix]
  have hl : ∀ q, q + 1 + (w4 ++ '/' :: (w3 ++ (n ++ (w5 ++ ['>'])))).length =
      q + (w4.length + 1 + w3.length + n.length + w5.length + 2) := by
    intro q; simp only [List.length_append, List.length_cons, List.length_nil]; omega
  have hl2 : (w4 ++ '/' :: (w3 ++ (n ++ w5))).length =
      w4.length + 1 + w3.length + n.length + w5.length := by
    simp only [List.length_append, List.length_cons]; omega
  rw [closingScan]
  simp only [beq_self_eq_true, if_true, hs, hr1, hsp, hr2, hl2]
  by_cases e : n = key
  · subst e
    have e' : (n != n) = false := by simp
    simp only [e', Bool.false_eq_true, if_false, true_and, if_true]
    by_cases hd : d = 0
    · subst hd
      simp only [beq_self_eq_true, if_true]
      rw [hk, closingScan_skip _ _ _ _ _ _ hlt, hl]
    · have : (d == 0) = false := by simpa using hd
      simp only [this, Bool.false_eq_true, if_false, hd]
      rw [hk, closingScan_skip _ _ _ _ _ _ hlt, hl]
  · have e' : (n != key) = true := by simpa using e
    simp only [e', if_true, e, false_and, if_false]
    rw [hk, closingScan_skip _ _ _ _ _ _ hlt, hl]

theorem printI_comp_length (n w1 w2 w3 w4 w5 : Str) (kids : List Item) :
    (printI (.comp n w1 w2 w3 w4 w5 kids)).length =
      (w1.length + n.length + w2.length + 2) + (printL kids).length +
        (w4.length + 1 + w3.length + n.length + w5.length + 2) := by
  rw [printI_comp_eq]
  simp only [List.length_append, List.length_cons, List.length_nil]
  omega

mutual
/-- **Dyck invariant.**  Printed well-formed items are transparent to the tag scan: whatever the
    key, depth and best candidate are before, they are the same after (opening and closing tags of
    the key cancel; inner closing tags are met at depth ≥ 1, so they never become the candidate). -/
theorem scan_I : ∀ (i : Item) (x0 key x : Str) (p d : Nat) (f : Option (Nat × Nat)),
    wfI i x0 = true →
    closingScan key (printI i ++ x) p d f = closingScan key x (p + (printI i).length) d f
  | .text s, x0, key, x, p, d, f, h => by
    have := (textOk_spec (by simpa [wfI] using h)).1
    simp only [printI]
    exact closingScan_skip _ _ _ _ _ _ this
  | .var n w1 w2, x0, key, x, p, d, f, h => by
    obtain ⟨hn, h1, h2⟩ := wfI_var_spec h
    apply closingScan_skip
    have q := pad_notin h1 (nameOk_spec hn).1 h2 isWs_lt nameChar_lt
    rw [printI_var_eq]
    simp only [List.mem_cons, List.mem_append, not_or] at q ⊢
    exact ⟨by decide, by decide, q.1, q.2.1, q.2.2, by decide, by decide, List.not_mem_nil⟩
  | .comp n w1 w2 w3 w4 w5 kids, x0, key, x, p, d, f, h => by
    obtain ⟨hn, h1, h2, h3, h4, h5, hk⟩ := wfI_comp_spec h
    have hn' := (nameOk_spec hn).1
    rw [printI_comp_append, closingScan_open _ _ _ _ _ _ _ _ hn' h1 h2, scan_L kids _ _ _ _ _ hk,
      closingScan_close _ _ _ _ _ _ _ _ _ hn' h3 h4 h5, printI_comp_length]
    by_cases e : n = key
    · simp only [e, if_true, true_and, Nat.add_sub_cancel, Nat.succ_ne_zero, if_false,
        Nat.add_assoc]
    · simp only [e, if_false, false_and, Nat.add_assoc]
theorem scan_L : ∀ (t : List Item) (key x : Str) (p d : Nat) (f : Option (Nat × Nat)),
    wfL t = true →
    closingScan key (printL t ++ x) p d f = closingScan key x (p + (printL t).length) d f
  | [], _, _, _, _, _, _ => by simp [printL]
  | i :: is, key, x, p, d, f, h => by
    obtain ⟨h1, h2⟩ := wfL_cons h
    rw [printL, List.append_assoc, scan_I i _ _ _ _ _ _ h1, scan_L is _ _ _ _ _ h2,
      List.length_append, Nat.add_assoc]
end

/-- **The matching closing tag is the one found**: scanning `kids </n> post` for the key `n` from
    depth 0 returns the position of that closing tag — whatever well-formed `kids` (components named
    `n` included) and `post` (further complete `<n>…</n>` included) are. -/
theorem closingScan_found (n w3 w4 w5 : Str) (kids post : List Item)
    (hn : n.all nameChar = true) (h3 : wsOk w3 = true) (h4 : wsOk w4 = true) (h5 : wsOk w5 = true)
    (hk : wfL kids = true) (hp : wfL post = true) :
    closingScan n (printL kids ++ '<' :: (w4 ++ '/' :: (w3 ++ (n ++ (w5 ++ '>' :: printL post)))))
        0 0 none =
      some ((printL kids).length,
        (printL kids).length + (w4.length + 1 + w3.length + n.length + w5.length) + 2) := by
  rw [scan_L kids _ _ _ _ _ hk, closingScan_close _ _ _ _ _ _ _ _ _ hn h3 h4 h5]
  have := scan_L post n [] (0 + (printL kids).length +
      (w4.length + 1 + w3.length + n.length + w5.length + 2)) (0 - 1)
    (some (0 + (printL kids).length,
      0 + (printL kids).length + (w4.length + 1 + w3.length + n.length + w5.length) + 2)) hp
  simp only [List.append_nil] at this
  simp only [and_self, if_true]
  rw [this]
  simp [closingScan]

theorem drop_two (A B C : Str) (k : Nat) (hk : k = A.length + B.length) :
    (A ++ (B ++ C)).drop k = C := by
  subst hk
  rw [← List.append_assoc, ← List.length_append, List.drop_left]

/-- `find_closing_tag` on `kids </n> post` -/
theorem findClosingTag_found (n w3 w4 w5 : Str) (kids post : List Item)
    (hn : nameOk "comp_".toList n = true) (h3 : wsOk w3 = true) (h4 : wsOk w4 = true)
    (h5 : wsOk w5 = true) (hk : wfL kids = true) (hp : wfL post = true) :
    findClosingTag
        (printL kids ++ '<' :: (w4 ++ '/' :: (w3 ++ (n ++ (w5 ++ '>' :: printL post))))) n =
      some ("comp_".toList ++ n, printL kids, printL post) := by
  obtain ⟨hn', hkey⟩ := nameOk_spec hn
  simp only [findClosingTag, hkey, closingScan_found n w3 w4 w5 kids post hn' h3 h4 h5 hk hp,
    List.take_left]
  have : '<' :: (w4 ++ '/' :: (w3 ++ (n ++ (w5 ++ '>' :: printL post)))) =
      ('<' :: (w4 ++ '/' :: (w3 ++ (n ++ (w5 ++ ['>']))))) ++ printL post := by simp
  rw [this, drop_two]
  simp only [List.length_append, List.length_cons, List.length_nil]
  omega

theorem printL_comp_split (pre post kids : List Item) (n w1 w2 w3 w4 w5 : Str) :
    printL (pre ++ Item.comp n w1 w2 w3 w4 w5 kids :: post) =
      printL pre ++ '<' :: (w1 ++ (n ++ (w2 ++ '>' :: (printL kids ++
        '<' :: (w4 ++ '/' :: (w3 ++ (n ++ (w5 ++ '>' :: printL post)))))))) := by
  rw [printL_append, printL, printI_comp_append]

/-- `find_valid_component`: the first `<` of the printed string opens the first component item, its
    closing tag is found, nothing is skipped -/
theorem findValidComponent_found (fuel : Nat) (pre post kids : List Item) (n w1 w2 w3 w4 w5 : Str)
    (hpre : CompFree pre)
    (h : wfL (pre ++ Item.comp n w1 w2 w3 w4 w5 kids :: post) = true) :
    findValidComponent (fuel + 1) (printL (pre ++ Item.comp n w1 w2 w3 w4 w5 kids :: post)) 0 =
      some ("comp_".toList ++ n, printL pre, printL kids, printL post) := by
  obtain ⟨hc, hp⟩ := wfL_cons (wfL_append_right _ _ h)
  obtain ⟨hn, h1, h2, h3, h4, h5, hk⟩ := wfI_comp_spec hc
  have hn' := (nameOk_spec hn).1
  have hlt := compFree_noLt pre hpre (wfL_append_left _ _ h)
  rw [printL_comp_split]
  have ho : findOpeningTag (printL pre ++ '<' :: (w1 ++ (n ++ (w2 ++ '>' :: (printL kids ++
        '<' :: (w4 ++ '/' :: (w3 ++ (n ++ (w5 ++ '>' :: printL post))))))))) =
      some (printL pre, n, printL kids ++
        '<' :: (w4 ++ '/' :: (w3 ++ (n ++ (w5 ++ '>' :: printL post)))),
        (printL pre).length + (w1 ++ (n ++ w2)).length + 2) := by
    have hs : ∀ x, splitOnceC '>' (w1 ++ (n ++ (w2 ++ '>' :: x))) = some (w1 ++ (n ++ w2), x) := by
      intro x
      have := splitOnceC_notin '>' (w1 ++ (n ++ w2)) x (pad_notin h1 hn' h2 isWs_gt nameChar_gt)
      simpa using this
    simp only [findOpeningTag, splitOnceC_notin '<' _ _ hlt, hs,
      trim_pad _ _ _ h1 h2 (name_noWs hn')]
  simp only [findValidComponent, List.drop_zero, ho,
    findClosingTag_found n w3 w4 w5 kids post hn h3 h4 h5 hk hp, Nat.zero_add, List.take_left]

/-- a list of items: no component at top level, or a first component -/
theorem split_comp (t : List Item) :
    CompFree t ∨ ∃ pre n w1 w2 w3 w4 w5 kids post,
      t = pre ++ Item.comp n w1 w2 w3 w4 w5 kids :: post ∧ CompFree pre := by
  induction t with
  | nil => left; intro i hi; cases hi
  | cons i is ih =>
    cases i with
    | comp n w1 w2 w3 w4 w5 kids =>
      right
      exact ⟨[], n, w1, w2, w3, w4, w5, kids, is, rfl, fun j hj => by cases hj⟩
    | text s =>
      rcases ih with h | ⟨pre, n, w1, w2, w3, w4, w5, kids, post, rfl, hp⟩
      · left
        intro j hj
        rcases List.mem_cons.1 hj with rfl | hj
        · rfl
        · exact h j hj
      · right
        refine ⟨Item.text s :: pre, n, w1, w2, w3, w4, w5, kids, post, rfl, ?_⟩
        intro j hj
        rcases List.mem_cons.1 hj with rfl | hj
        · rfl
        · exact hp j hj
    | var m v1 v2 =>
      rcases ih with h | ⟨pre, n, w1, w2, w3, w4, w5, kids, post, rfl, hp⟩
      · left
        intro j hj
        rcases List.mem_cons.1 hj with rfl | hj
        · rfl
        · exact h j hj
      · right
        refine ⟨Item.var m v1 v2 :: pre, n, w1, w2, w3, w4, w5, kids, post, rfl, ?_⟩
        intro j hj
        rcases List.mem_cons.1 hj with rfl | hj
        · rfl
        · exact hp j hj

/-- the first component splits the string into before / between / after, each parsed on its own -/
theorem newF_comp (fuel : Nat) (pre post kids : List Item) (n w1 w2 w3 w4 w5 : Str)
    (hpre : CompFree pre)
    (h : wfL (pre ++ Item.comp n w1 w2 w3 w4 w5 kids :: post) = true) (b m a : PV)
    (hb : newF fuel (printL pre) = .ok b) (hm : newF fuel (printL kids) = .ok m)
    (ha : newF fuel (printL post) = .ok a) :
    newF (fuel + 1) (printL (pre ++ Item.comp n w1 w2 w3 w4 w5 kids :: post)) =
      .ok (.bloc [b, .comp ("comp_".toList ++ n) m, a]) := by
  simp only [newF, findForeignKey_none _ _ (splitOnce_fk_none _ h), findComponent,
    findValidComponent_found _ pre post kids n w1 w2 w3 w4 w5 hpre h, hb, hm, ha]

end I18nVerif.Src
