import I18nVerif.Model.Context
import I18nVerif.Spec.Context
/-! Helper lemmas for C16: the abstraction relation between the cell machine and the history specification. -/
namespace I18nVerif.Context
open Spec

/-! ### the owner chain -/

/-- parents are older owners -/
abbrev OwnersWF (owners : List OwnerNode) : Prop :=
  ∀ (o : Nat) (n : OwnerNode) (p : Nat), owners[o]? = some n → n.parent = some p → p < o

theorem lookupFuel_fuel {owners : List OwnerNode} (wf : OwnersWF owners) :
    ∀ o f, o + 1 ≤ f → lookupFuel owners f o = lookupFuel owners (o + 1) o := by
  intro o
  induction o using Nat.strongRecOn with
  | _ o ih =>
    intro f hf
    obtain ⟨f', rfl⟩ : ∃ f', f = f' + 1 := ⟨f - 1, by omega⟩
    simp only [lookupFuel]
    cases hn : owners[o]? with
    | none => rfl
    | some n =>
      cases hp : n.provided with
      | some c => simp [hp]
      | none =>
        cases hpar : n.parent with
        | none => simp [hp, hpar]
        | some p =>
          have hlt := wf o n p hn hpar
          simp only [hp, hpar]
          rw [ih p hlt f' (by omega), ih p hlt o (by omega)]

theorem lookup_unfold {owners : List OwnerNode} (wf : OwnersWF owners) {o : Nat} {n : OwnerNode}
    (hn : owners[o]? = some n) :
    lookupFuel owners (o + 1) o =
      match n.provided with
      | some c => some c
      | none => match n.parent with
        | some p => lookupFuel owners (p + 1) p
        | none => none := by
  simp only [lookupFuel, hn]
  cases hp : n.provided with
  | some c => rfl
  | none =>
    cases hpar : n.parent with
    | none => rfl
    | some p =>
      simp only []
      have hlt := wf o n p hn hpar
      exact lookupFuel_fuel wf p o (by omega)

theorem wf_append {owners : List OwnerNode} (wf : OwnersWF owners) (n : OwnerNode)
    (hp : ∀ p, n.parent = some p → p < owners.length) : OwnersWF (owners ++ [n]) := by
  intro o m p hm hpar
  by_cases ho : o < owners.length
  · rw [List.getElem?_append_left ho] at hm
    exact wf o m p hm hpar
  · by_cases ho' : o = owners.length
    · subst ho'
      simp at hm
      subst hm
      exact hp p hpar
    · have : (owners ++ [n])[o]? = none := by simp; omega
      rw [this] at hm; cases hm

theorem lookup_append {owners : List OwnerNode} (wf : OwnersWF owners) (n : OwnerNode)
    (hp : ∀ p, n.parent = some p → p < owners.length) :
    ∀ o, o < owners.length → lookupFuel (owners ++ [n]) (o + 1) o = lookupFuel owners (o + 1) o := by
  intro o
  induction o using Nat.strongRecOn with
  | _ o ih =>
    intro ho
    have wf' := wf_append wf n hp
    obtain ⟨m, hm⟩ : ∃ m, owners[o]? = some m := ⟨owners[o], List.getElem?_eq_getElem ho⟩
    have hm' : (owners ++ [n])[o]? = some m := by rw [List.getElem?_append_left ho]; exact hm
    rw [lookup_unfold wf' hm', lookup_unfold wf hm]
    cases hpv : m.provided with
    | some c => rfl
    | none =>
      cases hpar : m.parent with
      | none => rfl
      | some p =>
        have hlt := wf o m p hm hpar
        simp only []
        exact ih p hlt (by omega)

theorem lookup_new {owners : List OwnerNode} (wf : OwnersWF owners) (n : OwnerNode)
    (hp : ∀ p, n.parent = some p → p < owners.length) :
    lookupFuel (owners ++ [n]) (owners.length + 1) owners.length =
      match n.provided with
      | some c => some c
      | none => match n.parent with
        | some p => lookupFuel owners (p + 1) p
        | none => none := by
  have wf' := wf_append wf n hp
  have hm : (owners ++ [n])[owners.length]? = some n := by simp
  rw [lookup_unfold wf' hm]
  cases hpv : n.provided with
  | some c => rfl
  | none =>
    cases hpar : n.parent with
    | none => rfl
    | some p =>
      simp only []
      exact lookup_append wf n hp p (hp p hpar)

/-! ### abstraction relation -/

/-- contexts, views, closures -/
structure AbsCore (s : State) (h : Hist) : Prop where
  views : s.views = Spec.views h
  closures : s.closures = Spec.closures h
  len : s.cells.length = nCtx h
  cells : ∀ c, s.cells[c]? = current h c
  wires : s.wires = Spec.wires h

/-- memos: same view, cache = value at the last evaluation, dirty = stale -/
structure AbsMemo (ms : List Memo) (h : Hist) : Prop where
  len : ms.length = (memoViews h).length
  get : ∀ i, ms[i]? = ((memoViews h)[i]?).map (fun v => ({ view := v, cache := memoCache h i, dirty := memoStale h i } : Memo))

/-- owners: what the chain walk finds is what the specification says is visible -/
structure AbsOwn (owners : List OwnerNode) (h : Hist) : Prop where
  len : owners.length = nOwners h
  wf : OwnersWF owners
  lookup : ∀ o, o < owners.length → lookupFuel owners (o + 1) o = visible h o

/-- abstraction relation: state `s` represents history `h` -/
structure Abs (s : State) (h : Hist) : Prop where
  core : AbsCore s h
  memo : AbsMemo s.memos h
  own : AbsOwn s.owners h

theorem abs_empty : Abs State.empty [] :=
  ⟨⟨rfl, rfl, rfl, fun c => by simp [State.empty, current], rfl⟩,
   ⟨rfl, fun i => by simp [State.empty, memoViews]⟩,
   ⟨rfl, fun o n p hn _ => by simp [State.empty] at hn, fun o ho => by simp [State.empty] at ho⟩⟩

theorem AbsCore.read {s : State} {h : Hist} (a : AbsCore s h) (v : Nat) : s.read v = viewLocale h v := by
  unfold State.read viewLocale
  rw [a.views]
  cases (Spec.views h)[v]? <;> simp [a.cells]

/-- cells after appending a fresh context -/
theorem getElem?_append_one {α : Type} (cells : List α) (l : α) (c : Nat) :
    (cells ++ [l])[c]? = if c = cells.length then some l else cells[c]? := by
  by_cases h1 : c < cells.length
  · have : c ≠ cells.length := by omega
    simp [List.getElem?_append_left h1, this]
  · by_cases h2 : c = cells.length
    · subst h2; simp
    · have h3 : cells.length < c := by omega
      have : cells[c]? = none := by simp; omega
      rw [if_neg h2, this]
      simp; omega

/-! ### operations that leave a component alone -/

def memoNeutral : Op → Bool
  | .makeMemo _ => false
  | .readMemo _ => false
  | .set _ _ => false
  | .tick => false
  | _ => true

theorem AbsMemo.neutral {ms : List Memo} {h : Hist} (a : AbsMemo ms h) (op : Op) (hn : memoNeutral op = true) :
    AbsMemo ms (op :: h) := by
  cases op <;> simp [memoNeutral] at hn <;>
    exact ⟨by simpa [memoViews] using a.len, fun i => by simpa [memoViews, memoCache, memoStale] using a.get i⟩

def ownerNeutral : Op → Bool
  | .provideRoot _ => false
  | .childOwner _ => false
  | .provider _ _ _ => false
  | _ => true

theorem AbsOwn.neutral {owners : List OwnerNode} {h : Hist} (a : AbsOwn owners h) (op : Op)
    (hn : ownerNeutral op = true) : AbsOwn owners (op :: h) := by
  cases op <;> simp [ownerNeutral] at hn <;>
    exact ⟨by simpa [nOwners] using a.len, a.wf, fun o ho => by simpa [visible] using a.lookup o ho⟩

def coreNeutral : Op → Bool
  | .get _ => true
  | .getUntracked _ => true
  | .callClosure _ => true
  | .makeMemo _ => true
  | .readMemo _ => true
  | .childOwner _ => true
  | _ => false

theorem AbsCore.neutral {s s' : State} {h : Hist} (a : AbsCore s h) (op : Op) (hn : coreNeutral op = true)
    (h1 : s'.cells = s.cells) (h2 : s'.views = s.views) (h3 : s'.closures = s.closures) (h4 : s'.wires = s.wires) :
    AbsCore s' (op :: h) := by
  cases op <;> simp [coreNeutral] at hn <;>
    exact ⟨by simpa [Spec.views, h2] using a.views, by simpa [Spec.closures, h3] using a.closures,
      by simpa [nCtx, h1] using a.len, fun c => by simpa [current, h1] using a.cells c,
      by simpa [Spec.wires, h4] using a.wires⟩

/-! ### wires -/

/-- every wire feeds an existing context -/
theorem wires_ctx_lt (h : Hist) : ∀ w ∈ Spec.wires h, w.ctx < nCtx h := by
  induction h with
  | nil => intro w hw; simp [Spec.wires] at hw
  | cons op h ih =>
    intro w hw
    cases op with
    | subWired parent x =>
      simp only [Spec.wires, List.mem_append, List.mem_singleton] at hw
      simp only [nCtx]
      rcases hw with hw | rfl
      · exact Nat.lt_succ_of_lt (ih w hw)
      · exact Nat.lt_succ_self _
    | wireSet i l =>
      simp only [Spec.wires] at hw
      simp only [nCtx]
      cases hi : (Spec.wires h)[i]? with
      | none => rw [hi] at hw; exact ih w hw
      | some w0 =>
        rw [hi] at hw
        rcases List.mem_or_eq_of_mem_set hw with hw | rfl
        · exact ih w hw
        · exact ih w0 (List.mem_of_getElem? hi)
    | tick =>
      simp only [Spec.wires, List.mem_map] at hw
      obtain ⟨w0, hw0, rfl⟩ := hw
      exact ih w0 hw0
    | newRoot _ => simp only [Spec.wires] at hw; exact Nat.lt_succ_of_lt (ih w hw)
    | sub _ _ _ => simp only [Spec.wires] at hw; exact Nat.lt_succ_of_lt (ih w hw)
    | provideRoot _ => simp only [Spec.wires] at hw; exact Nat.lt_succ_of_lt (ih w hw)
    | provider _ _ _ => simp only [Spec.wires] at hw; exact Nat.lt_succ_of_lt (ih w hw)
    | _ => simp only [Spec.wires] at hw; exact ih w hw

/-- something is due for `c` only if a wire feeds `c` -/
theorem pending_some {ws : List Wire} {c : Nat} {l : Locale} (hp : pending ws c = some l) :
    ∃ w ∈ ws, w.ctx = c ∧ w.val = l ∧ w.val ≠ w.seen := by
  unfold pending at hp
  obtain ⟨w, hw, hf⟩ := List.exists_of_findSome?_eq_some hp
  by_cases hc : w.ctx = c ∧ w.val ≠ w.seen
  · rw [if_pos hc] at hf
    exact ⟨w, hw, hc.1, by simpa using hf, hc.2⟩
  · rw [if_neg hc] at hf; cases hf

theorem due_lt {h : Hist} {c : Nat} {l : Locale} (hd : due h c = some l) : c < nCtx h := by
  obtain ⟨w, hw, hc, _, _⟩ := pending_some hd
  rw [← hc]; exact wires_ctx_lt h w hw


/-! ### one step -/

theorem write_spec {s : State} {h : Hist} (a : AbsCore s h) (v : Nat) (l : Locale) (tracked : Bool) :
    match s.write v l tracked with
    | some s' => (viewLocale h v).isSome = true ∧ s'.views = s.views ∧ s'.closures = s.closures ∧
        s'.cells.length = s.cells.length ∧ s'.owners = s.owners ∧ s'.wires = s.wires ∧
        (∃ c, (Spec.views h)[v]? = some c ∧
          s'.memos = if tracked then markDirty s.views c s.memos else s.memos) ∧
        ∀ c, s'.cells[c]? = if (Spec.views h)[v]? = some c then some l else current h c
    | none => viewLocale h v = none := by
  unfold State.write viewLocale
  rw [a.views]
  cases hv : (Spec.views h)[v]? with
  | none => simp
  | some c =>
    by_cases hlt : c < s.cells.length
    · have hc : (current h c).isSome = true := by
        rw [← a.cells c]; simp [hlt]
      simp only [hlt, if_true, hc, List.length_set, true_and]
      refine ⟨⟨c, rfl, rfl⟩, ?_⟩
      intro c'
      rw [List.getElem?_set]
      by_cases e : c = c'
      · subst e; simp [hlt]
      · simp [e, a.cells]
    · have : current h c = none := by
        rw [← a.cells c]; simp; omega
      simp [hlt, this]

theorem markDirty_getElem? (views : List Nat) (c : Nat) (ms : List Memo) (i : Nat) :
    (markDirty views c ms)[i]? =
      (ms[i]?).map (fun m => if views[m.view]? = some c then { m with dirty := true } else m) := by
  simp [markDirty]

theorem step_refines {s : State} {h : Hist} (a : Abs s h) (op : Op) :
    (step s op).2 = obsAt h op ∧ Abs (step s op).1 (if obsAt h op = .bad then h else op :: h) := by
  obtain ⟨ac, am, ao⟩ := a
  cases op with
  | newRoot init =>
    refine ⟨by simp [step, obsAt, ac.views], ?_⟩
    simp only [obsAt, step, reduceCtorEq, if_false]
    refine ⟨⟨by simp [Spec.views, ac.views, ac.len], by simp [Spec.closures, ac.closures], by simp [nCtx, ac.len], ?_, by simp [Spec.wires, ac.wires]⟩,
      am.neutral _ rfl, ao.neutral _ rfl⟩
    intro c
    simp only [current, getElem?_append_one, ac.len, ac.cells]
  | sub parent initial fallback =>
    cases parent with
    | none =>
      refine ⟨by simp [step, obsAt, ac.views], ?_⟩
      simp only [obsAt, step, reduceCtorEq, if_false]
      refine ⟨⟨by simp [Spec.views, ac.views, ac.len], by simp [Spec.closures, ac.closures], by simp [nCtx, ac.len], ?_, by simp [Spec.wires, ac.wires]⟩,
        am.neutral _ rfl, ao.neutral _ rfl⟩
      intro c
      simp only [current, getElem?_append_one, ac.len, ac.cells]
      cases initial <;> simp [subInit, Resolve.subMemo, Resolve.signalMaybeOnceThen]
    | some pv =>
      have hr := ac.read pv
      cases hv : viewLocale h pv with
      | none =>
        rw [hv] at hr
        simp only [step, obsAt, hr, hv, Option.map_none, Option.isSome_none, Bool.false_eq_true, if_false, if_true, true_and]
        exact ⟨ac, am, ao⟩
      | some pl =>
        rw [hv] at hr
        refine ⟨by simp [step, obsAt, hr, hv, ac.views], ?_⟩
        simp only [obsAt, hv, Option.isSome_some, if_true, step, hr, Option.map_some, reduceCtorEq, if_false]
        refine ⟨⟨by simp [Spec.views, ac.views, ac.len], by simp [Spec.closures, ac.closures], by simp [nCtx, ac.len], ?_, by simp [Spec.wires, ac.wires]⟩,
          am.neutral _ rfl, ao.neutral _ rfl⟩
        intro c
        simp only [current, getElem?_append_one, ac.len, ac.cells]
        cases initial with
        | none =>
          simp only [subInit, Resolve.subMemo, Resolve.signalMaybeOnceThen, Resolve.signalOnceThen, if_true, Option.or_none,
            Option.getD_none]
          unfold viewLocale at hv
          cases hx : (Spec.views h)[pv]? with
          | none => simp [hx] at hv
          | some pc => simp only [hx] at hv; simp [hv]
        | some i => simp [subInit, Resolve.subMemo, Resolve.signalMaybeOnceThen, Resolve.signalOnceThen]
  | scope v =>
    cases hv : (Spec.views h)[v]? with
    | none =>
      have hlt : ¬ v < (Spec.views h).length := by
        intro hlt; simp [List.getElem?_eq_getElem hlt] at hv
      simp only [step, obsAt, ac.views, hv, hlt, if_false, if_true, true_and]
      exact ⟨ac, am, ao⟩
    | some c =>
      have hlt : v < (Spec.views h).length := (List.getElem?_eq_some_iff.mp hv).1
      refine ⟨by simp [step, obsAt, ac.views, hlt], ?_⟩
      simp only [obsAt, hlt, if_true, step, ac.views, hv, reduceCtorEq, if_false]
      exact ⟨⟨by simp [Spec.views, hv], by simp [Spec.closures, ac.closures], by simp [nCtx, ac.len],
        fun c' => by simp [current, ac.cells], by simp [Spec.wires, ac.wires]⟩, am.neutral _ rfl, ao.neutral _ rfl⟩
  | set v l =>
    have hw := write_spec ac v l true
    cases hwr : s.write v l true with
    | none =>
      rw [hwr] at hw
      simp only [step, obsAt, hwr, hw, Option.isSome_none, Bool.false_eq_true, if_false, if_true, true_and]
      exact ⟨ac, am, ao⟩
    | some s' =>
      rw [hwr] at hw
      obtain ⟨h1, h2, h3, h4, h5, h8, ⟨c, hc, h6⟩, h7⟩ := hw
      simp only [step, obsAt, hwr, h1, if_true, reduceCtorEq, if_false, true_and]
      refine ⟨⟨by simp [Spec.views, h2, ac.views], by simp [Spec.closures, h3, ac.closures], by simp [nCtx, h4, ac.len],
        fun c => by simp [current, h7], by simp [Spec.wires, h8, ac.wires]⟩, ?_, by rw [h5]; exact ao.neutral _ rfl⟩
      rw [h6]
      refine ⟨by simp [markDirty, memoViews, am.len], ?_⟩
      intro i
      simp only [if_true, markDirty_getElem?, am.get i, memoViews, memoCache, memoStale, memoCtx]
      obtain hm | ⟨mv, hm⟩ : (memoViews h)[i]? = none ∨ ∃ mv, (memoViews h)[i]? = some mv := by
        cases (memoViews h)[i]? <;> simp
      · simp [hm]
      · simp only [hm, Option.map_some, ac.views, hc]
        by_cases hx : (Spec.views h)[mv]? = some c <;> simp [hx]
  | setUntracked v l =>
    have hw := write_spec ac v l false
    cases hwr : s.write v l false with
    | none =>
      rw [hwr] at hw
      simp only [step, obsAt, hwr, hw, Option.isSome_none, Bool.false_eq_true, if_false, if_true, true_and]
      exact ⟨ac, am, ao⟩
    | some s' =>
      rw [hwr] at hw
      obtain ⟨h1, h2, h3, h4, h5, h8, ⟨c, hc, h6⟩, h7⟩ := hw
      simp only [step, obsAt, hwr, h1, if_true, reduceCtorEq, if_false, true_and]
      exact ⟨⟨by simp [Spec.views, h2, ac.views], by simp [Spec.closures, h3, ac.closures], by simp [nCtx, h4, ac.len],
        fun c => by simp [current, h7], by simp [Spec.wires, h8, ac.wires]⟩, by rw [h6]; exact am.neutral _ rfl, by rw [h5]; exact ao.neutral _ rfl⟩
  | get v =>
    have hr := ac.read v
    cases hv : viewLocale h v with
    | none =>
      rw [hv] at hr
      simp only [step, obsAt, hr, hv, if_true, true_and]
      exact ⟨ac, am, ao⟩
    | some l =>
      rw [hv] at hr
      simp only [step, obsAt, hr, hv, reduceCtorEq, if_false, true_and]
      exact ⟨ac.neutral _ rfl rfl rfl rfl rfl, am.neutral _ rfl, ao.neutral _ rfl⟩
  | getUntracked v =>
    have hr := ac.read v
    cases hv : viewLocale h v with
    | none =>
      rw [hv] at hr
      simp only [step, obsAt, hr, hv, if_true, true_and]
      exact ⟨ac, am, ao⟩
    | some l =>
      rw [hv] at hr
      simp only [step, obsAt, hr, hv, reduceCtorEq, if_false, true_and]
      exact ⟨ac.neutral _ rfl rfl rfl rfl rfl, am.neutral _ rfl, ao.neutral _ rfl⟩
  | makeClosure v =>
    by_cases hlt : v < (Spec.views h).length
    · simp only [step, obsAt, ac.views, hlt, if_true, ac.closures, reduceCtorEq, if_false, true_and]
      exact ⟨⟨by simp [Spec.views], by simp [Spec.closures], by simp [nCtx, ac.len],
        fun c => by simp [current, ac.cells], by simp [Spec.wires, ac.wires]⟩, am.neutral _ rfl, ao.neutral _ rfl⟩
    · simp only [step, obsAt, ac.views, hlt, if_false, if_true, true_and]
      exact ⟨ac, am, ao⟩
  | callClosure i =>
    cases hi : (Spec.closures h)[i]? with
    | none =>
      simp only [step, obsAt, ac.closures, hi, if_true, true_and]
      exact ⟨ac, am, ao⟩
    | some v =>
      have hr := ac.read v
      cases hv : viewLocale h v with
      | none =>
        rw [hv] at hr
        simp only [step, obsAt, ac.closures, hi, hr, hv, if_true, true_and]
        exact ⟨ac, am, ao⟩
      | some l =>
        rw [hv] at hr
        simp only [step, obsAt, ac.closures, hi, hr, hv, reduceCtorEq, if_false, true_and]
        exact ⟨ac.neutral _ rfl rfl rfl rfl rfl, am.neutral _ rfl, ao.neutral _ rfl⟩
  | makeMemo v =>
    by_cases hlt : v < (Spec.views h).length
    · have hlt' : v < s.views.length := by rw [ac.views]; exact hlt
      simp only [step, obsAt, hlt', hlt, if_true, am.len, reduceCtorEq, if_false, true_and]
      refine ⟨ac.neutral _ rfl rfl rfl rfl rfl, ⟨by simp [memoViews, am.len], ?_⟩, ao.neutral _ rfl⟩
      intro i
      simp only [memoViews, memoCache, memoStale, getElem?_append_one, am.len, am.get i]
      by_cases e : i = (memoViews h).length <;> simp [e]
    · simp only [step, obsAt, ac.views, hlt, if_false, if_true, true_and]
      exact ⟨ac, am, ao⟩
  | readMemo i =>
    have hg := am.get i
    cases hm : (memoViews h)[i]? with
    | none =>
      rw [hm] at hg
      simp only [Option.map_none] at hg
      simp only [step, obsAt, memoRead, hg, hm, if_true, true_and]
      exact ⟨ac, am, ao⟩
    | some mv =>
      rw [hm] at hg
      simp only [Option.map_some] at hg
      have hr := ac.read mv
      cases hst : memoStale h i with
      | true =>
        cases hv : viewLocale h mv with
        | none =>
          rw [hv] at hr
          simp only [step, obsAt, memoRead, hg, hm, hst, if_true, hr, hv, true_and]
          exact ⟨ac, am, ao⟩
        | some l =>
          rw [hv] at hr
          simp only [step, obsAt, memoRead, hg, hm, hst, if_true, hr, hv, reduceCtorEq, if_false, true_and]
          refine ⟨ac.neutral _ rfl rfl rfl rfl rfl, ⟨by simp [memoViews, am.len], ?_⟩, ao.neutral _ rfl⟩
          intro j
          simp only [memoViews, memoCache, memoStale, memoCtx, List.getElem?_set]
          by_cases e : i = j
          · subst e
            have hlt : i < s.memos.length := (List.getElem?_eq_some_iff.mp hg).1
            have hv' : (match (Spec.views h)[mv]? with | some c => current h c | none => none) = some l := hv
            simp only [hlt, if_true, hm, hst, and_self, Option.map_some]
            cases hx : (Spec.views h)[mv]? with
            | none => simp [viewLocale, hx] at hv
            | some c => simp [viewLocale, hx] at hv; simp [hv]
          · simp [e, am.get j]
      | false =>
        cases hc : memoCache h i with
        | none =>
          simp only [step, obsAt, memoRead, hg, hm, hst, hc, Bool.false_eq_true, if_false, if_true, true_and]
          exact ⟨ac, am, ao⟩
        | some l =>
          simp only [step, obsAt, memoRead, hg, hm, hst, hc, Bool.false_eq_true, if_false, reduceCtorEq, true_and]
          refine ⟨ac.neutral _ rfl rfl rfl rfl rfl, ⟨by simp [memoViews, am.len], ?_⟩, ao.neutral _ rfl⟩
          intro j
          simp only [memoViews, memoCache, memoStale]
          by_cases e : i = j
          · subst e; simp [am.get i, hm, hst, hc]
          · simp [e, am.get j]
  | provideRoot init =>
    refine ⟨by simp [step, obsAt, ac.views, ac.len, ao.len], ?_⟩
    simp only [obsAt, step, reduceCtorEq, if_false]
    have hp : ∀ p, ({ parent := none, provided := some s.cells.length } : OwnerNode).parent = some p → p < s.owners.length := by
      intro p hp; cases hp
    refine ⟨⟨by simp [Spec.views, ac.views, ac.len], by simp [Spec.closures, ac.closures], by simp [nCtx, ac.len], ?_, by simp [Spec.wires, ac.wires]⟩,
      am.neutral _ rfl, ⟨by simp [nOwners, ao.len], wf_append ao.wf _ hp, ?_⟩⟩
    · intro c
      simp only [current, getElem?_append_one, ac.len, ac.cells]
    · intro o ho
      simp only [List.length_append, List.length_singleton] at ho
      by_cases e : o = s.owners.length
      · subst e
        rw [lookup_new ao.wf _ hp]
        simp [visible, ao.len, ac.len]
      · have ho' : o < s.owners.length := by omega
        rw [lookup_append ao.wf _ hp o ho', ao.lookup o ho']
        have : ¬ o = nOwners h := by rw [← ao.len]; exact e
        simp [visible, this]
  | childOwner p =>
    by_cases hlt : p < nOwners h
    · have hlt' : p < s.owners.length := by rw [ao.len]; exact hlt
      simp only [step, obsAt, hlt, if_true, ao.len, reduceCtorEq, if_false, true_and]
      have hp : ∀ q, ({ parent := some p, provided := none } : OwnerNode).parent = some q → q < s.owners.length := by
        intro q hq; simp at hq; omega
      refine ⟨ac.neutral _ rfl rfl rfl rfl rfl, am.neutral _ rfl, ⟨by simp [nOwners, ao.len], wf_append ao.wf _ hp, ?_⟩⟩
      intro o ho
      simp only [List.length_append, List.length_singleton] at ho
      by_cases e : o = s.owners.length
      · subst e
        rw [lookup_new ao.wf _ hp]
        simp [visible, ao.len, ao.lookup p hlt']
      · have ho' : o < s.owners.length := by omega
        rw [lookup_append ao.wf _ hp o ho', ao.lookup o ho']
        have : ¬ o = nOwners h := by rw [← ao.len]; exact e
        simp [visible, this]
    · have hlt' : ¬ p < s.owners.length := by rw [ao.len]; exact hlt
      simp only [step, obsAt, hlt, hlt', if_false, if_true, true_and]
      exact ⟨ac, am, ao⟩
  | provider p initial fallback =>
    by_cases hlt : p < nOwners h
    · have hlt' : p < s.owners.length := by rw [ao.len]; exact hlt
      simp only [step, obsAt, hlt, if_true, ao.len, ac.views, ac.len, reduceCtorEq, if_false, true_and]
      have hp : ∀ q, ({ parent := some p, provided := some (nCtx h) } : OwnerNode).parent = some q → q < s.owners.length := by
        intro q hq; simp at hq; omega
      refine ⟨⟨by simp [Spec.views], by simp [Spec.closures, ac.closures], by simp [nCtx, ac.len], ?_, by simp [Spec.wires, ac.wires]⟩,
        am.neutral _ rfl, ⟨by simp [nOwners, ao.len], wf_append ao.wf _ hp, ?_⟩⟩
      · intro c
        simp only [current, getElem?_append_one, ac.len, State.lookup, ao.lookup p hlt']
        by_cases e : c = nCtx h
        · simp only [e, if_true]
          cases initial with
          | some i => simp [subInit, Resolve.subMemo, Resolve.signalMaybeOnceThen, Resolve.signalOnceThen]
          | none =>
            cases hvis : visible h p with
            | none => simp [subInit, Resolve.subMemo, Resolve.signalMaybeOnceThen]
            | some pc =>
              simp only [Option.bind_some, ac.cells]
              cases current h pc <;> simp [subInit, Resolve.subMemo, Resolve.signalMaybeOnceThen, Resolve.signalOnceThen]
        · simp [e, ac.cells]
      · intro o ho
        simp only [List.length_append, List.length_singleton] at ho
        by_cases e : o = s.owners.length
        · subst e
          rw [lookup_new ao.wf _ hp]
          simp [visible, ao.len]
        · have ho' : o < s.owners.length := by omega
          rw [lookup_append ao.wf _ hp o ho', ao.lookup o ho']
          have : ¬ o = nOwners h := by rw [← ao.len]; exact e
          simp [visible, this]
    · have hlt' : ¬ p < s.owners.length := by rw [ao.len]; exact hlt
      simp only [step, obsAt, hlt, hlt', if_false, if_true, true_and]
      exact ⟨ac, am, ao⟩
  | useCtx p =>
    by_cases hlt : p < nOwners h
    · have hlt' : p < s.owners.length := by rw [ao.len]; exact hlt
      have hl : s.lookup p = visible h p := ao.lookup p hlt'
      cases hvis : visible h p with
      | none =>
        rw [hvis] at hl
        simp only [step, obsAt, hlt, hlt', if_true, hl, hvis, reduceCtorEq, if_false, true_and]
        exact ⟨⟨by simp [Spec.views, hvis, ac.views], by simp [Spec.closures, ac.closures], by simp [nCtx, ac.len],
          fun c => by simp [current, ac.cells], by simp [Spec.wires, ac.wires]⟩, am.neutral _ rfl, ao.neutral _ rfl⟩
      | some c =>
        rw [hvis] at hl
        simp only [step, obsAt, hlt, hlt', if_true, hl, hvis, ac.views, reduceCtorEq, if_false, true_and]
        exact ⟨⟨by simp [Spec.views, hvis], by simp [Spec.closures, ac.closures], by simp [nCtx, ac.len],
          fun c => by simp [current, ac.cells], by simp [Spec.wires, ac.wires]⟩, am.neutral _ rfl, ao.neutral _ rfl⟩
    · have hlt' : ¬ p < s.owners.length := by rw [ao.len]; exact hlt
      simp only [step, obsAt, hlt, hlt', if_false, if_true, true_and]
      exact ⟨ac, am, ao⟩
  | tick =>
    simp only [step, obsAt, reduceCtorEq, if_false, true_and]
    refine ⟨⟨by simp [State.deliver, Spec.views, ac.views], by simp [State.deliver, Spec.closures, ac.closures],
      by simp [State.deliver, nCtx, ac.len], ?_, by simp [State.deliver, Spec.wires, ac.wires]⟩, ⟨?_, ?_⟩,
      ao.neutral _ rfl⟩
    · intro c
      simp only [State.deliver, current, due, List.getElem?_mapIdx, ac.cells, ← ac.wires]
      cases hp : pending s.wires c with
      | none => simp
      | some l =>
        have hlt : c < nCtx h := due_lt (by rw [due, ← ac.wires]; exact hp)
        obtain ⟨x, hx⟩ : ∃ x, current h c = some x := by
          rw [← ac.cells c, ← ac.len] at *
          exact ⟨s.cells[c], List.getElem?_eq_getElem hlt⟩
        simp [hx]
    · simp [State.deliver, memoViews, am.len]
    · intro i
      have hd : due h = pending s.wires := by funext c; simp [due, ac.wires]
      simp only [State.deliver, List.getElem?_map, am.get i, memoViews, memoCache, memoStale, memoCtx, hd]
      obtain hm | ⟨mv, hm⟩ : (memoViews h)[i]? = none ∨ ∃ mv, (memoViews h)[i]? = some mv := by
        cases (memoViews h)[i]? <;> simp
      · simp [hm]
      · simp only [hm, Option.map_some, ac.views]
        cases ((Spec.views h)[mv]?.bind (pending s.wires)).isSome <;> simp
  | subWired parent w =>
    have hcore : AbsCore { s with cells := s.cells ++ [w], views := s.views ++ [s.cells.length], wires := s.wires ++ [{ ctx := s.cells.length, val := w, seen := w }] }
        (.subWired parent w :: h) :=
      ⟨by simp [Spec.views, ac.views, ac.len], by simp [Spec.closures, ac.closures], by simp [nCtx, ac.len],
        fun c => by simp only [current, getElem?_append_one, ac.len, ac.cells], by simp [Spec.wires, ac.wires, ac.len]⟩
    cases parent with
    | none =>
      refine ⟨by simp [step, obsAt, ac.views, ac.wires], ?_⟩
      simp only [obsAt, step, reduceCtorEq, if_false, if_true]
      exact ⟨hcore, am.neutral _ rfl, ao.neutral _ rfl⟩
    | some pv =>
      have hr := ac.read pv
      cases hv : viewLocale h pv with
      | none =>
        rw [hv] at hr
        simp only [step, obsAt, hr, hv, Option.isSome_none, Bool.false_eq_true, if_false, if_true, true_and]
        exact ⟨ac, am, ao⟩
      | some pl =>
        rw [hv] at hr
        refine ⟨by simp [step, obsAt, hr, hv, ac.views, ac.wires], ?_⟩
        simp only [obsAt, hv, Option.isSome_some, if_true, step, hr, reduceCtorEq, if_false]
        exact ⟨hcore, am.neutral _ rfl, ao.neutral _ rfl⟩
  | wireSet i l =>
    cases hi : (Spec.wires h)[i]? with
    | none =>
      have hlt : ¬ i < (Spec.wires h).length := by
        intro hlt; simp [List.getElem?_eq_getElem hlt] at hi
      simp only [step, obsAt, ac.wires, hi, hlt, if_false, if_true, true_and]
      exact ⟨ac, am, ao⟩
    | some w =>
      have hlt : i < (Spec.wires h).length := (List.getElem?_eq_some_iff.mp hi).1
      simp only [step, obsAt, ac.wires, hi, hlt, if_true, reduceCtorEq, if_false, true_and]
      exact ⟨⟨by simp [Spec.views, ac.views], by simp [Spec.closures, ac.closures], by simp [nCtx, ac.len],
        fun c => by simp [current, ac.cells], by simp [Spec.wires, hi]⟩, am.neutral _ rfl, ao.neutral _ rfl⟩

end I18nVerif.Context
