import I18nVerif.Model.Context
import I18nVerif.Spec.Context
/-! Helper lemmas for C16: the abstraction relation between the cell machine and the history specification. -/
namespace I18nVerif.Context
open Spec

/-- abstraction relation: state `s` represents history `h` -/
structure Abs (s : State) (h : Hist) : Prop where
  views : s.views = Spec.views h
  closures : s.closures = Spec.closures h
  len : s.cells.length = nCtx h
  cells : ∀ c, s.cells[c]? = current h c

theorem abs_empty : Abs State.empty [] :=
  ⟨rfl, rfl, rfl, fun c => by simp [State.empty, current]⟩

theorem Abs.read {s : State} {h : Hist} (a : Abs s h) (v : Nat) : s.read v = viewLocale h v := by
  unfold State.read viewLocale
  rw [a.views]
  cases (Spec.views h)[v]? <;> simp [a.cells]

/-- cells after appending a fresh context -/
theorem getElem?_append_one (cells : List Locale) (l : Locale) (c : Nat) :
    (cells ++ [l])[c]? = if c = cells.length then some l else cells[c]? := by
  by_cases h1 : c < cells.length
  · have : c ≠ cells.length := by omega
    simp [List.getElem?_append_left h1, this]
  · by_cases h2 : c = cells.length
    · subst h2; simp
    · have h3 : cells.length < c := by omega
      have : cells[c]? = none := by simp; omega
      rw [if_neg h2, this]
      simp; omega

theorem write_spec {s : State} {h : Hist} (a : Abs s h) (v : Nat) (l : Locale) :
    match s.write v l with
    | some s' => (viewLocale h v).isSome = true ∧ s'.views = s.views ∧ s'.closures = s.closures ∧
        s'.cells.length = s.cells.length ∧
        ∀ c, s'.cells[c]? = if (Spec.views h)[v]? = some c then some l else current h c
    | none => viewLocale h v = none := by
  unfold State.write viewLocale
  rw [a.views]
  cases hv : (Spec.views h)[v]? with
  | none => simp
  | some c =>
    by_cases hlt : c < s.cells.length
    · have hc : (current h c).isSome = true := by
        rw [← a.cells c]; simp [hlt]
      simp only [hlt, if_true, hc, List.length_set, true_and]
      intro c'
      rw [List.getElem?_set]
      by_cases e : c = c'
      · subst e; simp [hlt]
      · simp [e, a.cells]
    · have : current h c = none := by
        rw [← a.cells c]; simp; omega
      simp [hlt, this]

theorem step_refines {s : State} {h : Hist} (a : Abs s h) (op : Op) :
    (step s op).2 = obsAt h op ∧ Abs (step s op).1 (if obsAt h op = .bad then h else op :: h) := by
  cases op with
  | newRoot init =>
    refine ⟨by simp [step, obsAt, a.views], ?_⟩
    simp only [obsAt, step, reduceCtorEq, if_false]
    refine ⟨by simp [Spec.views, a.views, a.len], by simp [Spec.closures, a.closures], by simp [nCtx, a.len], ?_⟩
    intro c
    simp only [current, getElem?_append_one, a.len, a.cells]
  | sub parent initial fallback =>
    cases parent with
    | none =>
      refine ⟨by simp [step, obsAt, a.views], ?_⟩
      simp only [obsAt, step, reduceCtorEq, if_false]
      refine ⟨by simp [Spec.views, a.views, a.len], by simp [Spec.closures, a.closures], by simp [nCtx, a.len], ?_⟩
      intro c
      simp only [current, getElem?_append_one, a.len, a.cells]
      cases initial <;> simp [Resolve.subMemo, Resolve.signalMaybeOnceThen]
    | some pv =>
      have hr := a.read pv
      cases hv : viewLocale h pv with
      | none =>
        rw [hv] at hr
        simp [step, obsAt, hr, hv, a]
      | some pl =>
        rw [hv] at hr
        refine ⟨by simp [step, obsAt, hr, hv, a.views], ?_⟩
        simp only [obsAt, hv, Option.isSome_some, if_true, step, hr, Option.map_some, reduceCtorEq, if_false]
        refine ⟨by simp [Spec.views, a.views, a.len], by simp [Spec.closures, a.closures], by simp [nCtx, a.len], ?_⟩
        intro c
        simp only [current, getElem?_append_one, a.len, a.cells]
        cases initial with
        | none =>
          simp only [Resolve.subMemo, Resolve.signalMaybeOnceThen, Resolve.signalOnceThen, if_true, Option.or_none,
            Option.getD_none]
          unfold viewLocale at hv
          cases hx : (Spec.views h)[pv]? with
          | none => simp [hx] at hv
          | some pc => simp only [hx] at hv; simp [hv]
        | some i => simp [Resolve.subMemo, Resolve.signalMaybeOnceThen, Resolve.signalOnceThen]
  | scope v =>
    cases hv : (Spec.views h)[v]? with
    | none =>
      have hlt : ¬ v < (Spec.views h).length := by
        intro hlt; simp [List.getElem?_eq_getElem hlt] at hv
      simp [step, obsAt, a.views, hlt, a]
    | some c =>
      have hlt : v < (Spec.views h).length := by
        have := List.getElem?_eq_some_iff.mp hv; exact this.1
      refine ⟨by simp [step, obsAt, a.views, hlt], ?_⟩
      simp only [obsAt, hlt, if_true, step, a.views, hv, reduceCtorEq, if_false]
      exact ⟨by simp [Spec.views, hv], by simp [Spec.closures, a.closures], by simp [nCtx, a.len],
        fun c' => by simp [current, a.cells]⟩
  | set v l =>
    have hw := write_spec a v l
    cases hwr : s.write v l with
    | none =>
      rw [hwr] at hw
      simp [step, obsAt, hwr, hw, a]
    | some s' =>
      rw [hwr] at hw
      obtain ⟨h1, h2, h3, h4, h5⟩ := hw
      simp only [step, obsAt, hwr, h1, if_true, reduceCtorEq, if_false, true_and]
      exact ⟨by simp [Spec.views, h2, a.views], by simp [Spec.closures, h3, a.closures], by simp [nCtx, h4, a.len],
        fun c => by simp [current, h5]⟩
  | setUntracked v l =>
    have hw := write_spec a v l
    cases hwr : s.write v l with
    | none =>
      rw [hwr] at hw
      simp [step, obsAt, hwr, hw, a]
    | some s' =>
      rw [hwr] at hw
      obtain ⟨h1, h2, h3, h4, h5⟩ := hw
      simp only [step, obsAt, hwr, h1, if_true, reduceCtorEq, if_false, true_and]
      exact ⟨by simp [Spec.views, h2, a.views], by simp [Spec.closures, h3, a.closures], by simp [nCtx, h4, a.len],
        fun c => by simp [current, h5]⟩
  | get v =>
    have hr := a.read v
    cases hv : viewLocale h v <;> rw [hv] at hr <;> simp [step, obsAt, hr, hv, a]
    exact ⟨a.views, a.closures, a.len, fun c => by simp [current, a.cells]⟩
  | getUntracked v =>
    have hr := a.read v
    cases hv : viewLocale h v <;> rw [hv] at hr <;> simp [step, obsAt, hr, hv, a]
    exact ⟨a.views, a.closures, a.len, fun c => by simp [current, a.cells]⟩
  | makeClosure v =>
    by_cases hlt : v < (Spec.views h).length
    · simp [step, obsAt, a.views, hlt, a.closures]
      exact ⟨by simp [Spec.views], by simp [Spec.closures], by simp [nCtx, a.len],
        fun c => by simp [current, a.cells]⟩
    · simp [step, obsAt, a.views, hlt, a]
  | callClosure i =>
    cases hi : (Spec.closures h)[i]? with
    | none => simp [step, obsAt, a.closures, hi, a]
    | some v =>
      have hr := a.read v
      cases hv : viewLocale h v <;> rw [hv] at hr <;> simp [step, obsAt, a.closures, hi, hr, hv, a]
      exact ⟨a.views, a.closures, a.len, fun c => by simp [current, a.cells]⟩

end I18nVerif.Context
