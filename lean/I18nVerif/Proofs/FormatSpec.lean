import I18nVerif.Model.Formatter
import I18nVerif.Spec.FormatSpec
/-! Lemmas relating the model of the option parser (`Model/Formatter.lean`) to the documented semantics
(`Spec/FormatSpec.lean`) — C18. -/
namespace I18nVerif.FormatSpec
open I18nVerif Str Formatter

/-- `from_args_helper` = "first argument that sets the option, else default", for any recogniser `f` whose domain is
the set of accepted values (`hok`) and whose results are read back by `dec` (`hdec`, `hd`) -/
theorem fromArgs_select {α : Type} (d : OptDecl) (f : Str → Option α) (dec : Str → α) (dflt : α)
    (hok : ∀ v, d.allowed.ok v = (f v).isSome) (hdec : ∀ v a, f v = some a → dec v = a)
    (hd : dec d.dflt.toList = dflt) (l : List (Str × Str)) :
    fromArgs (some l) d.name f dflt = dec (d.select l) := by
  unfold fromArgs OptDecl.select
  induction l with
  | nil => simp [hd]
  | cons kv rest ih =>
    obtain ⟨k, v⟩ := kv
    simp only [List.findSome?_cons, List.filter_cons, OptDecl.setBy]
    by_cases hk : k = d.name.toList
    · subst hk
      cases hf : f v with
      | some a => simp [hok, hf, hdec v a hf]
      | none => simpa [hok, hf] using ih
    · simpa [hk] using ih

theorem table_isSome {α : Type} (t : List (String × α)) (v : Str) :
    (table t v).isSome = (t.map (·.1)).any (fun x => x.toList == v) := by
  unfold table
  induction t with
  | nil => simp
  | cons e rest ih =>
    simp only [List.find?_cons, List.map_cons, List.any_cons]
    cases hb : (e.1.toList == v) with
    | true => simp
    | false => simpa using ih

/-- proves `table t v = some a → dec v = a` for a concrete table and an if-chain `dec` -/
macro "table_dec" h:ident : tactic => `(tactic| (
  simp only [table, List.find?_cons, List.find?_nil] at $h:ident
  repeat' split at $h:ident
  all_goals first
    | (simp at $h:ident; done)
    | (simp only [beq_iff_eq, Option.map_some, Option.some.injEq] at *; subst_vars; rfl)))

/-! each option of the model = the documented option, read through the documented words -/

theorem grouping_spec (l : List (Str × Str)) :
    grouping (some l) = toGrouping (valueOf "number".toList "grouping_strategy" l) := by
  show _ = toGrouping ((⟨"grouping_strategy", .oneOf ["auto", "never", "always", "min2"], "auto"⟩ : OptDecl).select l)
  exact fromArgs_select ⟨"grouping_strategy", .oneOf ["auto", "never", "always", "min2"], "auto"⟩
    (table [("auto", Grouping.auto), ("never", .never), ("always", .always), ("min2", .min2)]) toGrouping .auto
    (fun v => by rw [table_isSome]; rfl) (fun v a h => by table_dec h) rfl l

theorem dateLen_spec (name : Str) (hn : name = "date".toList ∨ name = "datetime".toList) (l : List (Str × Str)) :
    dateLen (some l) = toDateLen (valueOf name "date_length" l) := by
  have : valueOf name "date_length" l = (⟨"date_length", lengths, "medium"⟩ : OptDecl).select l := by
    rcases hn with rfl | rfl <;> rfl
  rw [this]
  exact fromArgs_select ⟨"date_length", lengths, "medium"⟩
    (table [("full", DateLen.full), ("long", .long), ("medium", .medium), ("short", .short)]) toDateLen .medium
    (fun v => by rw [table_isSome]; rfl) (fun v a h => by table_dec h) rfl l

theorem timeLen_spec (name : Str) (hn : name = "time".toList ∨ name = "datetime".toList) (l : List (Str × Str)) :
    timeLen (some l) = toTimeLen (valueOf name "time_length" l) := by
  have : valueOf name "time_length" l = (⟨"time_length", lengths, "short"⟩ : OptDecl).select l := by
    rcases hn with rfl | rfl <;> rfl
  rw [this]
  exact fromArgs_select ⟨"time_length", lengths, "short"⟩
    (table [("full", TimeLen.full), ("long", .long), ("medium", .medium), ("short", .short)]) toTimeLen .short
    (fun v => by rw [table_isSome]; rfl) (fun v a h => by table_dec h) rfl l

theorem listTy_spec (l : List (Str × Str)) :
    listTy (some l) = toListTy (valueOf "list".toList "list_type" l) := by
  show _ = toListTy ((⟨"list_type", .oneOf ["and", "or", "unit"], "unit"⟩ : OptDecl).select l)
  exact fromArgs_select ⟨"list_type", .oneOf ["and", "or", "unit"], "unit"⟩
    (table [("and", ListTy.and), ("or", .or), ("unit", .unit)]) toListTy .unit
    (fun v => by rw [table_isSome]; rfl) (fun v a h => by table_dec h) rfl l

theorem listStyle_spec (l : List (Str × Str)) :
    listStyle (some l) = toListStyle (valueOf "list".toList "list_style" l) := by
  show _ = toListStyle ((⟨"list_style", .oneOf ["wide", "short", "narrow"], "wide"⟩ : OptDecl).select l)
  exact fromArgs_select ⟨"list_style", .oneOf ["wide", "short", "narrow"], "wide"⟩
    (table [("wide", ListStyle.wide), ("short", .short), ("narrow", .narrow)]) toListStyle .wide
    (fun v => by rw [table_isSome]; rfl) (fun v a h => by table_dec h) rfl l

theorem curWidth_spec (l : List (Str × Str)) :
    curWidth (some l) = toCurWidth (valueOf "currency".toList "width" l) := by
  show _ = toCurWidth ((⟨"width", .oneOf ["short", "narrow"], "short"⟩ : OptDecl).select l)
  exact fromArgs_select ⟨"width", .oneOf ["short", "narrow"], "short"⟩
    (table [("short", CurWidth.short), ("narrow", .narrow)]) toCurWidth .short
    (fun v => by rw [table_isSome]; rfl) (fun v a h => by table_dec h) rfl l

theorem curCode_spec (l : List (Str × Str)) :
    curCode (some l) = valueOf "currency".toList "currency_code" l := by
  show _ = id ((⟨"currency_code", .code3, "USD"⟩ : OptDecl).select l)
  refine fromArgs_select ⟨"currency_code", .code3, "USD"⟩ tiny3 id "USD".toList (fun v => ?_) (fun v a h => ?_) rfl l
  · simp only [Allowed.ok, tiny3]; split <;> simp_all
  · simp only [tiny3] at h; split at h <;> simp_all

/-- without parentheses every option takes its default -/
theorem fromArgs_none {α : Type} (nm : String) (f : Str → Option α) (d : α) : fromArgs none nm f d = d := rfl

/-! the two `if` chains, name by name -/
theorem m_number (a : Args) : fromNameAndArgs "number".toList a = some (.number (grouping a)) := by
  simp [fromNameAndArgs]
theorem m_currency (a : Args) : fromNameAndArgs "currency".toList a = some (.currency (curWidth a) (curCode a)) := by
  simp [fromNameAndArgs]
theorem m_date (a : Args) : fromNameAndArgs "date".toList a = some (.date (dateLen a)) := by
  simp [fromNameAndArgs]
theorem m_time (a : Args) : fromNameAndArgs "time".toList a = some (.time (timeLen a)) := by
  simp [fromNameAndArgs]
theorem m_datetime (a : Args) : fromNameAndArgs "datetime".toList a = some (.dateTime (dateLen a) (timeLen a)) := by
  simp [fromNameAndArgs]
theorem m_list (a : Args) : fromNameAndArgs "list".toList a = some (.list (listTy a) (listStyle a)) := by
  simp [fromNameAndArgs]
theorem m_other (name : Str) (a : Args) (h1 : name ≠ "number".toList) (h2 : name ≠ "currency".toList)
    (h3 : name ≠ "date".toList) (h4 : name ≠ "time".toList) (h5 : name ≠ "datetime".toList)
    (h6 : name ≠ "list".toList) : fromNameAndArgs name a = none := by
  have e1 := beq_eq_false_iff_ne.mpr h1
  have e2 := beq_eq_false_iff_ne.mpr h2
  have e3 := beq_eq_false_iff_ne.mpr h3
  have e4 := beq_eq_false_iff_ne.mpr h4
  have e5 := beq_eq_false_iff_ne.mpr h5
  have e6 := beq_eq_false_iff_ne.mpr h6
  unfold fromNameAndArgs
  simp only [e1, e2, e3, e4, e5, e6, Bool.false_eq_true, if_false]

theorem s_number (l : List (Str × Str)) : specFormatter "number".toList l =
    some (.number (toGrouping (valueOf "number".toList "grouping_strategy" l))) := by
  simp [specFormatter]
theorem s_currency (l : List (Str × Str)) : specFormatter "currency".toList l =
    some (.currency (toCurWidth (valueOf "currency".toList "width" l)) (valueOf "currency".toList "currency_code" l)) := by
  simp [specFormatter]
theorem s_date (l : List (Str × Str)) : specFormatter "date".toList l =
    some (.date (toDateLen (valueOf "date".toList "date_length" l))) := by
  simp [specFormatter]
theorem s_time (l : List (Str × Str)) : specFormatter "time".toList l =
    some (.time (toTimeLen (valueOf "time".toList "time_length" l))) := by
  simp [specFormatter]
theorem s_datetime (l : List (Str × Str)) : specFormatter "datetime".toList l =
    some (.dateTime (toDateLen (valueOf "datetime".toList "date_length" l))
      (toTimeLen (valueOf "datetime".toList "time_length" l))) := by
  simp [specFormatter]
theorem s_list (l : List (Str × Str)) : specFormatter "list".toList l =
    some (.list (toListTy (valueOf "list".toList "list_type" l)) (toListStyle (valueOf "list".toList "list_style" l))) := by
  simp [specFormatter]
theorem s_other (name : Str) (l : List (Str × Str)) (h1 : name ≠ "number".toList) (h2 : name ≠ "currency".toList)
    (h3 : name ≠ "date".toList) (h4 : name ≠ "time".toList) (h5 : name ≠ "datetime".toList)
    (h6 : name ≠ "list".toList) : specFormatter name l = none := by
  unfold specFormatter
  simp only [if_neg h1, if_neg h2, if_neg h3, if_neg h4, if_neg h5, if_neg h6]

end I18nVerif.FormatSpec
