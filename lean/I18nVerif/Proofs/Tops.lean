import I18nVerif.Proofs.DatakeyAll
/-!
Every stage of `Pipeline.resolved` (decoding, `merge_plurals`, foreign-key resolution) keeps the `top`
field of the top-level locales: it stays the configured locale name, in order.  Hence `top = name` for
every top-level locale of the resolved world.  Same for the checked output (`Pipeline.run`).
-/
namespace I18nVerif.Render
open I18nVerif I18nVerif.Check I18nVerif.Pipeline

def TopsOK (L : List Str) (nss : List NS) : Prop := ∀ ns ∈ nss, ns.locales.map Loc.top = L

theorem Decode_locale_top (name : Str) (j : J) (loc : Loc) (h : Decode.locale name j = .ok loc) : loc.top = name := by
  unfold Decode.locale at h
  cases j with
  | obj l =>
    simp only at h
    rw [Decode.value] at h
    split at h
    · rename_i l' heq
      simp only [Bool.false_eq_true, if_false] at heq
      split at heq
      · simp only [Res.ok.injEq, PV.subkeys.injEq, Option.some.injEq] at heq h
        rw [← h, ← heq]; rfl
      · simp at heq
      · simp at heq
    · simp at h
    · simp at h
    · simp at h
  | _ => simp at h

theorem mergePlurals_top (orc : Oracle) (locale : Str) (fuel : Nat) (path : KeyPath) (l l' : Loc) (w : List Warning)
    (h : Plurals.mergePlurals orc locale fuel path l = .ok (l', w)) : l'.top = l.top := by
  cases fuel with
  | zero => simp [Plurals.mergePlurals] at h
  | succ fuel =>
    obtain ⟨n, t, keys, s, c⟩ := l
    rw [Plurals.mergePlurals] at h
    split at h
    · simp at h
    · simp at h
    · split at h
      · simp only [Res.ok.injEq, Prod.mk.injEq] at h
        rw [← h.1]; rfl
      · simp at h
      · simp at h


theorem decodeNs_tops (inp : Input) (ns : Option Str) : ∀ (ls : List Str) (locs : List Loc),
    decodeNs inp ns ls = .ok locs → locs.map Loc.top = ls
  | [], locs, h => by simp [decodeNs] at h; subst h; rfl
  | l :: ls, locs, h => by
    simp only [decodeNs] at h
    split at h
    · simp at h
    · split at h
      · simp at h
      · simp at h
      · rename_i loc hl
        split at h
        · rename_i locs' hr
          simp only [Res.ok.injEq] at h
          subst h
          simp [Decode_locale_top _ _ _ hl, decodeNs_tops inp ns ls locs' hr]
        · simp at h
        · simp at h

theorem decodeAll_tops (inp : Input) : ∀ (keys : List (Option Str)) (nss : List NS),
    decodeAll inp keys = .ok nss → TopsOK inp.cfg.locales nss
  | [], nss, h => by simp [decodeAll] at h; subst h; intro ns hn; simp at hn
  | k :: rest, nss, h => by
    simp only [decodeAll] at h
    split at h
    · simp at h
    · simp at h
    · rename_i locs hl
      split at h
      · rename_i nss' hr
        simp only [Res.ok.injEq] at h
        subst h
        intro ns hn
        rcases List.mem_cons.mp hn with rfl | hn
        · exact decodeNs_tops inp k _ _ hl
        · exact decodeAll_tops inp rest nss' hr ns hn
      · simp at h
      · simp at h

theorem mergePluralsNs_tops (orc : Oracle) (ns : Option Str) : ∀ (ls : List Loc) (ws : List Warning) ls' ws',
    mergePluralsNs orc ns ls ws = .ok (ls', ws') → ls'.map Loc.top = ls.map Loc.top
  | [], ws, ls', ws', h => by simp [mergePluralsNs] at h; rw [h.1]
  | l :: ls, ws, ls', ws', h => by
    simp only [mergePluralsNs] at h
    split at h
    · simp at h
    · simp at h
    · rename_i l' w hl
      split at h
      · rename_i ls1 ws1 hr
        simp only [Res.ok.injEq, Prod.mk.injEq] at h
        rw [← h.1]
        simp [mergePlurals_top _ _ _ _ _ _ _ hl, mergePluralsNs_tops orc ns ls _ _ _ hr]
      · simp at h
      · simp at h

theorem mergePluralsAll_tops (orc : Oracle) (L : List Str) : ∀ (nss : List NS) (ws : List Warning) nss' ws',
    mergePluralsAll orc nss ws = .ok (nss', ws') → TopsOK L nss → TopsOK L nss'
  | [], ws, nss', ws', h, _ => by
    simp [mergePluralsAll] at h; rw [h.1]; intro ns hn; simp at hn
  | n :: rest, ws, nss', ws', h, hok => by
    simp only [mergePluralsAll] at h
    split at h
    · simp at h
    · simp at h
    · rename_i locs ws1 hl
      split at h
      · rename_i nss1 ws2 hr
        simp only [Res.ok.injEq, Prod.mk.injEq] at h
        rw [← h.1]
        intro ns hn
        rcases List.mem_cons.mp hn with rfl | hn
        · simp only
          rw [mergePluralsNs_tops _ _ _ _ _ _ hl]
          exact hok n (by simp)
        · exact mergePluralsAll_tops orc L rest ws1 nss1 ws2 hr (fun x hx => hok x (by simp [hx])) ns hn
      · simp at h
      · simp at h

theorem setValueAt_tops (L : List Str) (w : World) (top : Str) (p : KeyPath) (v : PV)
    (h : TopsOK L w.nss) : TopsOK L (w.setValueAt top p v).nss := by
  intro ns hn
  simp only [World.setValueAt, List.mem_map] at hn
  obtain ⟨ns0, h0, rfl⟩ := hn
  have := h ns0 h0
  split
  · simp only [List.map_map]
    rw [← this]
    apply List.map_congr_left
    intro l _
    simp only [Function.comp]
    split
    · cases l; rfl
    · rfl
  · exact this

theorem resolveAt_tops (L : List Str) (orc : Oracle) (dflt : Foreign.Fallbacks) (fuel : Nat) (locale : Str) (p : KeyPath)
    (w w' : World) (b : Bool) (h : Foreign.resolveAt orc dflt fuel locale p w = .ok (w', b))
    (hok : TopsOK L w.nss) : TopsOK L w'.nss := by
  unfold Foreign.resolveAt at h
  split at h
  · simp at h
  · simp at h
  · simp only [Res.ok.injEq, Prod.mk.injEq] at h; rw [← h.1]; exact hok
  · split at h
    · simp at h
    · simp at h
    · simp only [Res.ok.injEq, Prod.mk.injEq] at h
      rw [← h.1]; exact setValueAt_tops L w _ _ _ hok

theorem resolveAll_tops (L : List Str) (orc : Oracle) (dflt : Foreign.Fallbacks) (fuel : Nat) :
    ∀ (paths : List (Str × KeyPath)) (w w' : World), Foreign.resolveAll orc dflt fuel paths w = .ok w' →
      TopsOK L w.nss → TopsOK L w'.nss
  | [], w, w', h, hok => by simp [Foreign.resolveAll] at h; rw [← h]; exact hok
  | (locale, p) :: rest, w, w', h, hok => by
    simp only [Foreign.resolveAll] at h
    split at h
    · simp at h
    · simp at h
    · rename_i w1 f1 h1
      have ok1 := resolveAt_tops L _ _ _ _ _ _ _ _ h1 hok
      split at h
      · simp at h
      · simp at h
      · rename_i w2 f2 h2
        have ok2 : TopsOK L w2.nss := by
          split at h2
          · simp only [Res.ok.injEq, Prod.mk.injEq] at h2; rw [← h2.1]; exact ok1
          · exact resolveAt_tops L _ _ _ _ _ _ _ _ h2 ok1
        split at h
        · exact resolveAll_tops L orc dflt fuel rest w2 w' h ok2
        · simp at h

theorem resolved_topsOK (inp : Input) (w : World) (ws : List Warning) (h : Pipeline.resolved inp = .ok (w, ws)) :
    TopsOK inp.cfg.locales w.nss := by
  unfold Pipeline.resolved at h
  split at h
  · simp at h
  · simp at h
  · rename_i w0 paths hp
    split at h
    · simp at h
    · simp at h
    · rename_i nss1 ws1 hm
      simp only at h
      split at h
      · simp at h
      · simp at h
      · rename_i w2 hr
        simp only [Res.ok.injEq, Prod.mk.injEq] at h
        rw [← h.1]
        refine resolveAll_tops _ _ _ _ _ _ _ hr ?_
        simp only
        refine mergePluralsAll_tops _ _ _ _ _ _ hm ?_
        unfold parseRaw at hp
        split at hp
        all_goals
          dsimp only at hp
          split at hp
          · simp at hp
          · simp at hp
          · rename_i nss0 hd
            simp only [Res.ok.injEq, Prod.mk.injEq] at hp
            rw [← hp.1]
            exact decodeAll_tops inp _ _ hd

/-- every top-level locale of the resolved world has the configured locale names as `top`, in order -/
theorem resolved_tops (inp : Pipeline.Input) (w : World) (ws : List Warning)
    (h : Pipeline.resolved inp = .ok (w, ws)) : ∀ ns ∈ w.nss, ns.locales.map Loc.top = inp.cfg.locales :=
  resolved_topsOK inp w ws h

theorem map_eq_pointwise {α β : Type} (f g : α → β) : ∀ (l : List α), l.map f = l.map g → ∀ x ∈ l, f x = g x
  | [], _, x, hx => by simp at hx
  | a :: l, h, x, hx => by
    simp only [List.map_cons, List.cons.injEq] at h
    rcases List.mem_cons.mp hx with rfl | hx
    · exact h.1
    · exact map_eq_pointwise f g l h.2 x hx

/-- in the resolved world, `top = name` for every top-level locale -/
theorem resolved_top_eq_name (inp : Pipeline.Input) (w : World) (ws : List Warning)
    (h : Pipeline.resolved inp = .ok (w, ws)) : ∀ ns ∈ w.nss, ∀ l ∈ ns.locales, l.top = l.name := by
  intro ns hn l hl
  have h1 := resolved_tops inp w ws h ns hn
  have h2 := I18nVerif.Datakey.resolved_names inp w ws h ns hn
  exact map_eq_pointwise Loc.top Loc.name ns.locales (h1.trans h2.symm) l hl

theorem makeBuilderKeys_top (dflt : Str) (fuel : Nat) (path : KeyPath) (loc : Loc) (strs : List Str)
    (l' : Loc) (b : BKI) (s' : List Str) (h : makeBuilderKeys dflt fuel path loc strs = .ok (l', b, s')) :
    l'.top = loc.top := by
  cases fuel with
  | zero => simp [makeBuilderKeys] at h
  | succ fuel =>
    rw [makeBuilderKeys] at h
    split at h
    · simp only [Res.ok.injEq, Prod.mk.injEq] at h; rw [← h.1]; rfl
    · cases h
    · cases h

theorem mergeLocale_top (suppress : Bool) (top : Str) (dto : DefaultTo) (fuel : Nat) (path : KeyPath)
    (loc : Loc) (bki : BKI) (st : St) (l' : Loc) (b : BKI) (st' : St)
    (h : mergeLocale suppress top dto fuel path loc bki st = .ok (l', b, st')) : l'.top = loc.top := by
  cases fuel with
  | zero => simp [mergeLocale] at h
  | succ fuel =>
    rw [mergeLocale] at h
    split at h
    · cases h
    · cases h
    · simp only [Res.ok.injEq, Prod.mk.injEq] at h; rw [← h.1]; rfl

theorem checkGo_tops (suppress : Bool) (fuel : Nat) (inherits : List (Str × Str)) (dl : Loc) (path : KeyPath) :
    ∀ (ls acc : List Loc) (bki : BKI) (ws : List Warning) (out : List Loc) (b : BKI) (ws' : List Warning),
    checkLocalesInner.go suppress fuel inherits dl path ls acc bki ws = .ok (out, b, ws') →
    out.map Loc.top = acc.map Loc.top ++ ls.map Loc.top := by
  intro ls
  induction ls with
  | nil =>
    intro acc bki ws out b ws' h
    simp only [checkLocalesInner.go, Res.ok.injEq, Prod.mk.injEq] at h
    simp [← h.1]
  | cons l rest ih =>
    intro acc bki ws out b ws' h
    rw [checkLocalesInner.go] at h
    split at h
    · cases h
    · cases h
    · rename_i l' bki' st hm
      have := ih _ _ _ _ _ _ h
      rw [this]
      have hn := mergeLocale_top _ _ _ _ _ _ _ _ _ _ _ hm
      simp [Loc.top] at hn ⊢
      exact hn

/-- `check_locales` keeps the `top` fields of the locales, in order -/
theorem checkLocalesInner_tops (suppress : Bool) (fuel : Nat) (inherits : List (Str × Str)) (ns : Option Str)
    (locs : List Loc) (ws : List Warning) (out : List Loc) (b : BKI) (ws' : List Warning)
    (h : checkLocalesInner suppress fuel inherits ns locs ws = .ok (out, b, ws')) :
    out.map Loc.top = locs.map Loc.top := by
  cases locs with
  | nil => simp [checkLocalesInner] at h
  | cons dl others =>
    simp only [checkLocalesInner] at h
    split at h
    · cases h
    · cases h
    · rename_i dl' bki strs hmk
      split at h
      · cases h
      · cases h
      · rename_i locales bki' ws'' hgo
        simp only [Res.ok.injEq, Prod.mk.injEq] at h
        rw [← h.1, checkGo_tops _ _ _ _ _ _ _ _ _ _ _ _ hgo]
        have := makeBuilderKeys_top _ _ _ _ _ _ _ _ hmk
        simp [Loc.top] at this ⊢
        exact this

theorem checkAll_tops (inp : Input) (L : List Str) : ∀ (nss : List NS) (ws : List Warning) outs ws',
    checkAll inp nss ws = .ok (outs, ws') → TopsOK L nss → ∀ o ∈ outs, o.locales.map Loc.top = L
  | [], ws, outs, ws', h, _, o, ho => by
    simp only [checkAll, Res.ok.injEq, Prod.mk.injEq] at h
    rw [← h.1] at ho; simp at ho
  | ns :: rest, ws, outs, ws', h, hok, o, ho => by
    simp only [checkAll] at h
    split at h
    · simp at h
    · simp at h
    · rename_i locs bki ws1 hc
      split at h
      · rename_i outs1 ws2 hr
        simp only [Res.ok.injEq, Prod.mk.injEq] at h
        rw [← h.1] at ho
        rcases List.mem_cons.mp ho with rfl | ho
        · simp only
          rw [checkLocalesInner_tops _ _ _ _ _ _ _ _ _ hc]
          exact hok ns (by simp)
        · exact checkAll_tops inp L rest ws1 outs1 ws2 hr (fun x hx => hok x (by simp [hx])) o ho
      · simp at h
      · simp at h

/-- the checked output's locales have the configured locale names as `top`, in order -/
theorem run_tops (inp : Pipeline.Input) (out : Pipeline.Output) (h : Pipeline.run inp = .ok out) :
    ∀ o ∈ out.nss, o.locales.map Loc.top = inp.cfg.locales := by
  obtain ⟨w, ws, ws', hr, hc⟩ := I18nVerif.Datakey.run_parts inp out h
  exact checkAll_tops inp _ _ _ _ _ hc (resolved_topsOK inp w ws hr)

/-- in the checked output, `top = name` for every top-level locale -/
theorem run_top_eq_name (inp : Pipeline.Input) (out : Pipeline.Output) (h : Pipeline.run inp = .ok out) :
    ∀ o ∈ out.nss, ∀ l ∈ o.locales, l.top = l.name := by
  intro o ho l hl
  obtain ⟨w, ws, ws', hr, hc⟩ := I18nVerif.Datakey.run_parts inp out h
  have h1 := run_tops inp out h o ho
  have h2 := I18nVerif.Datakey.checkAll_names inp _ _ _ _ _ hc (I18nVerif.Datakey.resolved_names inp w ws hr) o ho
  exact map_eq_pointwise Loc.top Loc.name o.locales (h1.trans h2.symm) l hl


end I18nVerif.Render
