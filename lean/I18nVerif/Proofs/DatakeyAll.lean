import I18nVerif.Theorems.C20
import I18nVerif.Proofs.Merge
import I18nVerif.Proofs.Index
import I18nVerif.Spec.BkiPath
import I18nVerif.Spec.Uses
/-!
C20 through `makeBuilderKeys` / `mergeLocale` / `checkLocalesInner`: the signature recorded at every
leaf of the builder-keys tree (any depth) is exactly the union, over all locales, of the occurrences
of the locale's (reduced) value at that key path.  Plus: `reduce` keeps the occurrence sets.
-/
namespace I18nVerif.Datakey
open I18nVerif I18nVerif.Check I18nVerif.Occ I18nVerif.Keys I18nVerif.Datakey.Spec
open Spec.Fallback Spec.Diagnostics

/-! ### values along a key path -/

/-- what is below a (reduced) value `cur` along a key path -/
def curAt : PV → List Str → Option PV
  | cur, [] => some cur
  | .subkeys (some l), k :: rest => valueAt l.keys (k :: rest)
  | _, _ :: _ => none

/-- a locale without value at a path contributes like an explicit default: nothing -/
def valD (o : Option PV) : PV := o.getD .dflt

theorem valueAt_cons (ks : List (Str × PV)) (k : Str) (rest : List Str) :
    valueAt ks (k :: rest) = match AMap.get? k ks with
      | none => none
      | some v => match Reduce.reduce v with
        | .ok cur => curAt cur rest
        | _ => none := by
  simp only [valueAt]
  cases AMap.get? k ks with
  | none => rfl
  | some v =>
    simp only
    cases Reduce.reduce v with
    | err e => rfl
    | panic e => rfl
    | ok cur =>
      cases rest with
      | nil => rfl
      | cons k2 r2 =>
        cases cur with
        | subkeys l => cases l <;> rfl
        | _ => rfl

theorem curAt_dflt (p : List Str) : valD (curAt .dflt p) = .dflt := by
  cases p <;> rfl

theorem get?_const_map {α β} (c : β) (k : Str) : ∀ (ks : List (Str × α)) (v : β),
    AMap.get? k (ks.map (fun x => (x.fst, c))) = some v → v = c
  | [], v, h => by simp [AMap.get?] at h
  | (k1, v1) :: rest, v, h => by
    simp only [List.map_cons, AMap.get?] at h
    split at h
    · simp at h; exact h.symm
    · exact get?_const_map c k rest v h

theorem valueAt_dummy (ks : List (Str × PV)) (p : List Str) :
    valD (valueAt (ks.map (fun (x : Str × PV) => (x.fst, PV.dflt))) p) = .dflt := by
  cases p with
  | nil => rfl
  | cons k rest =>
    rw [valueAt_cons]
    cases hg : AMap.get? k (ks.map (fun (x : Str × PV) => (x.fst, PV.dflt))) with
    | none => rfl
    | some v =>
      have := get?_const_map PV.dflt k ks v hg
      subst this
      simp only [Reduce.reduce]
      exact curAt_dflt rest

/-! ### "extended by exactly the occurrences of these values" -/

def ExtBy (K K' : IKeys) (vs : List PV) : Prop :=
  Extends K K' (vs.flatMap occVars) (vs.flatMap occComps) (vs.flatMap occCounts)

theorem ExtBy.refl (K : IKeys) : ExtBy K K [] := by
  simpa [ExtBy] using Extends.refl K

theorem ExtBy.trans {K K1 K2 : IKeys} {a b : List PV} (h1 : ExtBy K K1 a) (h2 : ExtBy K1 K2 b) :
    ExtBy K K2 (a ++ b) := by
  unfold ExtBy at *
  simp only [List.flatMap_append]
  exact Extends.trans h1 h2

theorem ExtBy.single {K K' : IKeys} {v : PV} (h : Extends K K' (occVars v) (occComps v) (occCounts v)) :
    ExtBy K K' [v] := by
  simpa [ExtBy] using h

theorem ExtBy.dflt_cons {K K' : IKeys} {vs : List PV} (h : ExtBy K K' vs) : ExtBy K K' (.dflt :: vs) := by
  simpa [ExtBy, occVars, occComps, occCounts] using h

/-- how the leaves below one builder key change when one locale is merged: each leaf's signature is
    extended by exactly the occurrences of `val p`, the locale's value at that leaf -/
def SigRel (val : List Str → PV) (lv lv' : LV) : Prop :=
  ∀ p iol d, leafLV lv p = some (iol, d) →
    ∃ iol' d', leafLV lv' p = some (iol', d') ∧ ExtBy iol.keysMut iol'.keysMut [val p]
      ∧ (Sorted iol.keysMut.vars → Sorted iol'.keysMut.vars)

def RecSig (recMerge : MergeRec) : Prop :=
  ∀ kp loc bki st loc' bki' st', recMerge kp loc bki st = .ok (loc', bki', st') →
    ∀ p iol d, leafAt bki p = some (iol, d) →
      ∃ iol' d', leafAt bki' p = some (iol', d') ∧ ExtBy iol.keysMut iol'.keysMut [valD (valueAt loc.keys p)]
        ∧ (Sorted iol.keysMut.vars → Sorted iol'.keysMut.vars)

theorem leafAt_nil (b : BKI) : leafAt b [] = none := by
  cases b <;> rfl

theorem mergeValue_sig (recMerge : MergeRec) (hrec : RecSig recMerge) (top : Str) (dto : DefaultTo)
    (kp : KeyPath) (cur : PV) (lv : LV) (st : St) (v' : PV) (lv' : LV) (st' : St)
    (h : mergeValue recMerge top dto kp cur lv st = .ok (v', lv', st')) :
    SigRel (fun p => valD (curAt cur p)) lv lv' := by
  intro p iol0 d0 hleaf
  cases lv with
  | value iol d =>
    cases p with
    | cons _ _ => simp [leafLV] at hleaf
    | nil =>
      simp only [leafLV, Option.some.injEq, Prod.mk.injEq] at hleaf
      obtain ⟨rfl, rfl⟩ := hleaf
      obtain ⟨iol', d', rfl, hstep⟩ := mergeValue_value _ _ _ _ _ _ _ _ _ _ _ h
      exact ⟨iol', d', rfl, ExtBy.single hstep.extends, hstep.sorted⟩
  | subkeys locales bkeys =>
    simp only [leafLV] at hleaf
    simp only [mergeValue] at h
    split at h
    · rename_i hs
      have hcur : cur = .dflt := shapeOf_dflt hs
      subst hcur
      split at h
      · simp at h
      · rename_i dl hdl
        split at h
        · simp at h
        · simp at h
        · rename_i dummy' bkeys' st1 hr
          simp only [Res.ok.injEq, Prod.mk.injEq] at h
          obtain ⟨-, rfl, -⟩ := h
          obtain ⟨iol', d', h1, h2, h3⟩ := hrec _ _ _ _ _ _ _ hr p iol0 d0 hleaf
          refine ⟨iol', d', by simpa [leafLV] using h1, ?_, h3⟩
          have e : (Loc.mk dl.name top (dl.keys.map (fun (x : Str × PV) => (x.fst, PV.dflt))) [] 0).keys
              = dl.keys.map (fun (x : Str × PV) => (x.fst, PV.dflt)) := rfl
          rw [e, valueAt_dummy] at h2
          show ExtBy iol0.keysMut iol'.keysMut [valD (curAt PV.dflt p)]
          rw [curAt_dflt]; exact h2
    · rename_i loc hs
      have hcur : cur = .subkeys (some loc) := shapeOf_subSome hs
      subst hcur
      split at h
      · simp at h
      · simp at h
      · rename_i loc' bkeys' st1 hr
        simp only [Res.ok.injEq, Prod.mk.injEq] at h
        obtain ⟨-, rfl, -⟩ := h
        obtain ⟨iol', d', h1, h2, h3⟩ := hrec _ _ _ _ _ _ _ hr p iol0 d0 hleaf
        refine ⟨iol', d', by simpa [leafLV] using h1, ?_, h3⟩
        cases p with
        | nil => rw [leafAt_nil] at hleaf; cases hleaf
        | cons k rest => exact h2
    · simp at h
    · simp at h

theorem mergeKeys_sig (recMerge : MergeRec) (hrec : RecSig recMerge) (top : Str) (dto : DefaultTo) (path : KeyPath) :
    ∀ (bki : BKI) (ks : List (Str × PV)) (accB : BKI) (st : St) ks' b' st',
      mergeKeys recMerge top dto path bki ks accB st = .ok (ks', b', st') →
      ∃ new, b' = accB ++ new ∧ ∀ k lv, AMap.get? k bki = some lv →
        ∃ lv', AMap.get? k new = some lv'
          ∧ SigRel (fun rest => valD (valueAt ks (k :: rest))) lv lv' := by
  intro bki
  induction bki with
  | nil =>
    intro ks accB st ks' b' st' h
    simp only [mergeKeys, Res.ok.injEq, Prod.mk.injEq] at h
    obtain ⟨rfl, rfl, rfl⟩ := h
    exact ⟨[], by simp, by simp [AMap.get?]⟩
  | cons e rest ih =>
    obtain ⟨k0, lv0⟩ := e
    intro ks accB st ks' b' st' h
    have tail : ∀ (cur : PV) (st1 : St) (v1 : PV) (lv1 : LV) (st2 : St),
        (∀ r, valD (valueAt ks (k0 :: r)) = valD (curAt cur r)) →
        mergeValue recMerge top dto (pushKey path k0) cur lv0 st1 = .ok (v1, lv1, st2) →
        mergeKeys recMerge top dto path rest (AMap.insert' k0 v1 ks) (accB ++ [(k0, lv1)]) st2 = .ok (ks', b', st') →
        ∃ new, b' = accB ++ new ∧ ∀ k lv, AMap.get? k ((k0, lv0) :: rest) = some lv →
          ∃ lv', AMap.get? k new = some lv'
            ∧ SigRel (fun rest => valD (valueAt ks (k :: rest))) lv lv' := by
      intro cur st1 v1 lv1 st2 hu hmv hmk
      have hl := mergeValue_sig recMerge hrec top dto _ _ _ _ _ _ _ hmv
      obtain ⟨new', hb, hall⟩ := ih _ _ _ _ _ _ hmk
      refine ⟨(k0, lv1) :: new', by simp [hb], ?_⟩
      intro k lv hg
      rw [AMap.get?_cons] at hg
      by_cases hk : k0 = k
      · subst hk
        simp only [if_true, Option.some.injEq] at hg
        subst hg
        refine ⟨lv1, by simp [AMap.get?], ?_⟩
        have : (fun rest => valD (valueAt ks (k0 :: rest))) = (fun p => valD (curAt cur p)) := funext hu
        rw [this]; exact hl
      · simp only [hk, if_false] at hg
        obtain ⟨lv', hg', hrel⟩ := hall k lv hg
        refine ⟨lv', by simp [AMap.get?, hk, hg'], ?_⟩
        have : (fun r => valD (valueAt (AMap.insert' k0 v1 ks) (k :: r)))
            = (fun r => valD (valueAt ks (k :: r))) := by
          funext r
          rw [valueAt_cons, valueAt_cons, AMap.get?_insert_ne (Ne.symm hk)]
        rw [← this]; exact hrel
    cases hg : AMap.get? k0 ks with
    | none =>
      simp only [mergeKeys, hg, Reduce.reduce] at h
      split at h
      · simp at h
      · simp at h
      · rename_i v1 lv1 st2 hmv
        exact tail _ _ _ _ _ (by intro r; rw [valueAt_cons, hg, curAt_dflt]; rfl) hmv h
    | some v =>
      simp only [mergeKeys, hg] at h
      split at h
      · simp at h
      · simp at h
      · rename_i cur hred
        split at h
        · simp at h
        · simp at h
        · rename_i v1 lv1 st2 hmv
          exact tail _ _ _ _ _ (by intro r; rw [valueAt_cons, hg]; simp [hred]) hmv h

theorem mergeLocale_sig (suppress : Bool) (top : Str) (dto : DefaultTo) :
    ∀ fuel, RecSig (mergeLocale suppress top dto fuel) := by
  intro fuel
  induction fuel with
  | zero =>
    intro kp loc bki st loc' bki' st' h
    simp [mergeLocale] at h
  | succ fuel ih =>
    intro kp loc bki st loc' bki' st' h p iol d hleaf
    simp only [mergeLocale] at h
    split at h
    · simp at h
    · simp at h
    · rename_i keys' b' st1 hmk
      simp only [Res.ok.injEq, Prod.mk.injEq] at h
      obtain ⟨-, rfl, -⟩ := h
      obtain ⟨new, hb, hall⟩ := mergeKeys_sig _ ih top dto kp bki loc.keys [] st _ _ _ hmk
      simp only [List.nil_append] at hb
      subst hb
      cases p with
      | nil => rw [leafAt_nil] at hleaf; cases hleaf
      | cons k rest =>
        rw [leafAt_cons] at hleaf
        cases hg : AMap.get? k bki with
        | none => simp [hg] at hleaf
        | some lv =>
          simp only [hg] at hleaf
          obtain ⟨lv', hg', hrel⟩ := hall k lv hg
          obtain ⟨iol', d', h1, h2, h3⟩ := hrel rest iol d hleaf
          exact ⟨iol', d', by rw [leafAt_cons, hg']; exact h1, h2, h3⟩

/-! ### the default locale creates the leaves -/

/-- the leaves below a builder key made from the (reduced) value `cur` of the default locale: each
    signature is exactly the occurrences of the default locale's value at that leaf -/
def MadeOK (cur : PV) (lv : LV) : Prop :=
  ∀ p iol d, leafLV lv p = some (iol, d) →
    ExtBy {} iol.keysMut [valD (curAt cur p)] ∧ Sorted iol.keysMut.vars

def RecMakeSig (recMake : MakeRec) : Prop :=
  ∀ path sub strs sub' bki strs', recMake path sub strs = .ok (sub', bki, strs') →
    ∀ p iol d, leafAt bki p = some (iol, d) →
      ExtBy {} iol.keysMut [valD (valueAt sub.keys p)] ∧ Sorted iol.keysMut.vars

theorem makeKeys_sig (recMake : MakeRec) (hrec : RecMakeSig recMake) (dflt : Str) (path : KeyPath) :
    ∀ (l accK : List (Str × PV)) (accB : BKI) (strs : List Str) ks b s,
      makeKeys recMake dflt path l accK accB strs = .ok (ks, b, s) →
      ∃ newB, b = accB ++ newB ∧ ∀ k lv, AMap.get? k newB = some lv →
        ∃ v cur, AMap.get? k l = some v ∧ Reduce.reduce v = .ok cur ∧ MadeOK cur lv := by
  intro l
  induction l with
  | nil =>
    intro accK accB strs ks b s h
    simp only [makeKeys, Res.ok.injEq, Prod.mk.injEq] at h
    obtain ⟨rfl, rfl, rfl⟩ := h
    exact ⟨[], by simp, by simp [AMap.get?]⟩
  | cons e l ih =>
    obtain ⟨k0, v0⟩ := e
    intro accK accB strs ks b s h
    have tail : ∀ (cur : PV) (lv0 : LV) accK1 s1, Reduce.reduce v0 = .ok cur → MadeOK cur lv0 →
        makeKeys recMake dflt path l accK1 (accB ++ [(k0, lv0)]) s1 = .ok (ks, b, s) →
        ∃ newB, b = accB ++ newB ∧ ∀ k lv, AMap.get? k newB = some lv →
          ∃ v cur, AMap.get? k ((k0, v0) :: l) = some v ∧ Reduce.reduce v = .ok cur ∧ MadeOK cur lv := by
      intro cur lv0 accK1 s1 hred hmade hmk
      obtain ⟨newB, hb, hall⟩ := ih _ _ _ _ _ _ hmk
      refine ⟨(k0, lv0) :: newB, by simp [hb], ?_⟩
      intro k lv hg
      rw [AMap.get?_cons] at hg
      by_cases hk : k0 = k
      · subst hk
        simp only [if_true, Option.some.injEq] at hg
        subst hg
        exact ⟨v0, cur, by simp [AMap.get?], hred, hmade⟩
      · simp only [hk, if_false] at hg
        obtain ⟨v, c, h1, h2, h3⟩ := hall k lv hg
        exact ⟨v, c, by simp [AMap.get?, hk, h1], h2, h3⟩
    simp only [makeKeys] at h
    split at h
    · simp at h
    · simp at h
    · rename_i v1 hred
      split at h
      · rename_i sub hsh
        have hv1 : v1 = .subkeys (some sub) := by
          cases v1 <;> simp [makeKeys.shapeOf'] at hsh
          subst hsh; rfl
        subst hv1
        split at h
        · simp at h
        · simp at h
        · rename_i sub' bki strs' hrm
          refine tail _ _ _ _ hred ?_ h
          intro p iol d hleaf
          simp only [leafLV] at hleaf
          cases p with
          | nil => rw [leafAt_nil] at hleaf; cases hleaf
          | cons k rest => exact hrec _ _ _ _ _ _ hrm _ iol d hleaf
      · simp at h
      · simp at h
      · split at h
        · simp at h
        · simp at h
        · rename_i iol0 hgk
          refine tail _ _ _ _ hred ?_ h
          intro p iol d hleaf
          cases p with
          | cons _ _ => simp [leafLV] at hleaf
          | nil =>
            simp only [leafLV, Option.some.injEq, Prod.mk.injEq] at hleaf
            obtain ⟨rfl, rfl⟩ := hleaf
            obtain ⟨hx, _⟩ := C08_default_locale_keys _ _ _ _ _ hgk
            refine ⟨ExtBy.single hx, ?_⟩
            exact C08_signature_sorted (fun _ _ _ _ => .panic "") ⟨none, []⟩ _ _ _ _ _ ⟨dflt, []⟩ hgk [] _ _ rfl

theorem makeBuilderKeys_sig (dflt : Str) : ∀ fuel, RecMakeSig (makeBuilderKeys dflt fuel) := by
  intro fuel
  induction fuel with
  | zero =>
    intro path sub strs sub' bki strs' h
    simp [makeBuilderKeys] at h
  | succ fuel ih =>
    intro path loc strs loc' bki strs' h p iol d hleaf
    simp only [makeBuilderKeys] at h
    split at h
    · rename_i keys' b s hk
      simp only [Res.ok.injEq, Prod.mk.injEq] at h
      obtain ⟨-, hbb, -⟩ := h
      obtain ⟨newB, hb, hall⟩ := makeKeys_sig _ ih dflt path _ _ _ _ _ _ _ hk
      simp only [List.nil_append] at hb
      rw [← hbb, hb] at hleaf
      cases p with
      | nil => rw [leafAt_nil] at hleaf; cases hleaf
      | cons k rest =>
        rw [leafAt_cons] at hleaf
        cases hg : AMap.get? k newB with
        | none => simp [hg] at hleaf
        | some lv =>
          simp only [hg] at hleaf
          obtain ⟨v, cur, h1, h2, h3⟩ := hall k lv hg
          have := h3 rest iol d hleaf
          rw [valueAt_cons, h1]
          simpa [h2] using this
    · simp at h
    · simp at h

/-! ### the loop over the non-default locales -/

theorem go_sig (suppress : Bool) (fuel : Nat) (inherits : List (Str × Str)) (dl : Loc) (path : KeyPath) :
    ∀ (others acc : List Loc) (bki : BKI) (ws : List Warning) locales bki' ws',
      checkLocalesInner.go suppress fuel inherits dl path others acc bki ws = .ok (locales, bki', ws') →
      ∀ p iol d, leafAt bki p = some (iol, d) →
        ∃ iol' d', leafAt bki' p = some (iol', d')
          ∧ ExtBy iol.keysMut iol'.keysMut (others.map (fun l => valD (valueAt l.keys p)))
          ∧ (Sorted iol.keysMut.vars → Sorted iol'.keysMut.vars) := by
  intro others
  induction others with
  | nil =>
    intro acc bki ws locales bki' ws' h p iol d hleaf
    simp only [checkLocalesInner.go, Res.ok.injEq, Prod.mk.injEq] at h
    obtain ⟨-, rfl, -⟩ := h
    exact ⟨iol, d, hleaf, ExtBy.refl _, id⟩
  | cons l rest ih =>
    intro acc bki ws locales bki' ws' h p iol d hleaf
    simp only [checkLocalesInner.go] at h
    split at h
    · simp at h
    · simp at h
    · rename_i l' bki1 st hml
      obtain ⟨iol1, d1, a1, a2, a3⟩ := mergeLocale_sig suppress _ _ fuel path l bki _ l' bki1 st hml p iol d hleaf
      obtain ⟨iol2, d2, b1, b2, b3⟩ := ih _ _ _ _ _ _ h p iol1 d1 a1
      exact ⟨iol2, d2, b1, by simpa using ExtBy.trans a2 b2, fun hs => b3 (a3 hs)⟩

/-! ### the key tree (which paths are leaves) never changes -/

theorem leafAt_cons_cons (k : Str) (lv : LV) (r : List (Str × LV)) (q : Str) (rest : List Str) :
    leafAt ((k, lv) :: r) (q :: rest) = if k = q then leafLV lv rest else leafAt r (q :: rest) := by
  rw [leafAt_cons, leafAt_cons, AMap.get?_cons]
  by_cases h : k = q <;> simp [h]

mutual
theorem Sk_leafLV : ∀ (lv lv' : LV), LV.Sk lv lv' → ∀ p, (leafLV lv p).isSome = (leafLV lv' p).isSome
  | .value _ _, .value _ _, _, p => by cases p <;> rfl
  | .subkeys _ ks, .subkeys _ ks', h, p => by
    simp only [LV.Sk] at h
    simp only [leafLV]
    exact SkL_leafAt ks ks' h p
  | .value _ _, .subkeys _ _, h, _ => by simp [LV.Sk] at h
  | .subkeys _ _, .value _ _, h, _ => by simp [LV.Sk] at h
theorem SkL_leafAt : ∀ (a b : List (Str × LV)), SkL a b → ∀ p, (leafAt a p).isSome = (leafAt b p).isSome
  | [], [], _, p => rfl
  | (k, lv) :: r, (k', lv') :: r', h, p => by
    simp only [SkL] at h
    obtain ⟨rfl, h1, h2⟩ := h
    cases p with
    | nil => rw [leafAt_nil, leafAt_nil]
    | cons q rest =>
      rw [leafAt_cons_cons, leafAt_cons_cons]
      by_cases hk : k = q
      · simp only [hk, if_true]; exact Sk_leafLV lv lv' h1 rest
      · simp only [hk, if_false]; exact SkL_leafAt r r' h2 (q :: rest)
  | [], _ :: _, h, _ => by simp [SkL] at h
  | _ :: _, [], h, _ => by simp [SkL] at h
end

theorem go_leaf_paths (suppress : Bool) (fuel : Nat) (inherits : List (Str × Str)) (dl : Loc) (path : KeyPath) :
    ∀ (others acc : List Loc) (bki : BKI) (ws : List Warning) locales bki' ws',
      checkLocalesInner.go suppress fuel inherits dl path others acc bki ws = .ok (locales, bki', ws') →
      ∀ p, (leafAt bki p).isSome = (leafAt bki' p).isSome := by
  intro others
  induction others with
  | nil =>
    intro acc bki ws locales bki' ws' h p
    simp only [checkLocalesInner.go, Res.ok.injEq, Prod.mk.injEq] at h
    obtain ⟨-, rfl, -⟩ := h
    rfl
  | cons l rest ih =>
    intro acc bki ws locales bki' ws' h p
    simp only [checkLocalesInner.go] at h
    split at h
    · simp at h
    · simp at h
    · rename_i l' bki1 st hml
      have hsk := mergeLocale_sk suppress _ _ fuel path l bki _ l' bki1 st hml
      rw [SkL_leafAt _ _ hsk p]
      exact ih _ _ _ _ _ _ h p

/-! ### positional leaves (what `find_used_datakey` walks) versus leaves at key paths -/

mutual
theorem leafLV_mem : ∀ (lv : LV) (p : List Str) (K : IKeys) (d : Defaults),
    leafLV lv p = some (.interpol K, d) → K ∈ leavesLV lv
  | .value iol d0, p, K, d, h => by
    cases p with
    | cons _ _ => simp [leafLV] at h
    | nil =>
      simp only [leafLV, Option.some.injEq, Prod.mk.injEq] at h
      obtain ⟨rfl, rfl⟩ := h
      simp [leavesLV]
  | .subkeys _ ks, p, K, d, h => by
    simp only [leafLV] at h
    simp only [leavesLV]
    exact leafAt_mem ks p K d h
theorem leafAt_mem : ∀ (b : List (Str × LV)) (p : List Str) (K : IKeys) (d : Defaults),
    leafAt b p = some (.interpol K, d) → K ∈ leaves b
  | [], p, K, d, h => by cases p <;> simp [leafAt, AMap.get?] at h
  | (k, lv) :: r, p, K, d, h => by
    cases p with
    | nil => rw [leafAt_nil] at h; cases h
    | cons q rest =>
      rw [leafAt_cons_cons] at h
      simp only [leaves, List.mem_append]
      by_cases hk : k = q
      · simp only [hk, if_true] at h; exact Or.inl (leafLV_mem lv rest K d h)
      · simp only [hk, if_false] at h; exact Or.inr (leafAt_mem r (q :: rest) K d h)
end

mutual
theorem leavesLV_path : ∀ (lv : LV), LV.WF lv → ∀ K ∈ leavesLV lv, ∃ p d, leafLV lv p = some (.interpol K, d)
  | .value (.lit _) _, _, K, hK => by simp [leavesLV] at hK
  | .value (.interpol K0) d0, _, K, hK => by
    simp only [leavesLV, List.mem_singleton] at hK
    subst hK
    exact ⟨[], d0, rfl⟩
  | .subkeys _ ks, hwf, K, hK => by
    simp only [LV.WF] at hwf
    simp only [leavesLV] at hK
    simp only [leafLV]
    exact leaves_path ks hwf.2.1 hwf.2.2 K hK
theorem leaves_path : ∀ (b : List (Str × LV)), (b.map Prod.fst).Nodup → WFL b →
    ∀ K ∈ leaves b, ∃ p d, leafAt b p = some (.interpol K, d)
  | [], _, _, K, hK => by simp [leaves] at hK
  | (k, lv) :: r, hnd, hwf, K, hK => by
    simp only [List.map_cons, List.nodup_cons] at hnd
    simp only [WFL] at hwf
    simp only [leaves, List.mem_append] at hK
    rcases hK with hK | hK
    · obtain ⟨p, d, hp⟩ := leavesLV_path lv hwf.1 K hK
      exact ⟨k :: p, d, by rw [leafAt_cons_cons]; simp [hp]⟩
    · obtain ⟨p, d, hp⟩ := leaves_path r hnd.2 hwf.2 K hK
      cases p with
      | nil => rw [leafAt_nil] at hp; cases hp
      | cons q rest =>
        refine ⟨q :: rest, d, ?_⟩
        rw [leafAt_cons_cons]
        have hq : q ∈ r.map Prod.fst := by
          rw [leafAt_cons] at hp
          cases hg : AMap.get? q r with
          | none => simp [hg] at hp
          | some x => exact AMap.mem_of_get?_eq_some hg
        have hne : k ≠ q := fun e => hnd.1 (e ▸ hq)
        simp [hne, hp]
end

/-! ### `propagate_string_count` does not touch the signatures -/

theorem leaves_propagate (counts : List Nat) : ∀ (fuel : Nat) (b : BKI), leaves (propagate fuel counts b) = leaves b
  | 0, b => by simp only [propagate]
  | fuel + 1, [] => by simp [propagate]
  | fuel + 1, (k, lv) :: rest => by
    rw [propagate_succ_cons]
    have ihr := leaves_propagate counts (fuel + 1) rest
    cases lv with
    | value v d => simp only [leaves, ihr]
    | subkeys locales keys =>
      simp only [leaves, leavesLV, ihr, leaves_propagate counts fuel keys]

/-! ### `check_locales_inner`, end to end -/

theorem checkLocalesInner_parts {suppress : Bool} {fuel : Nat} {inherits : List (Str × Str)} {ns : Option Str}
    {dl : Loc} {others : List Loc} {ws : List Warning} {locales : List Loc} {bkiF : BKI} {ws' : List Warning}
    (h : checkLocalesInner suppress fuel inherits ns (dl :: others) ws = .ok (locales, bkiF, ws')) :
    ∃ dl' bki0 strs dl'' bki1,
      makeBuilderKeys dl.top fuel ⟨ns, []⟩ dl [] = .ok (dl', bki0, strs) ∧
      checkLocalesInner.go suppress fuel inherits dl ⟨ns, []⟩ others [dl''] bki0 ws = .ok (locales, bki1, ws') ∧
      bkiF = propagate fuel (locales.map Loc.count) bki1 := by
  simp only [checkLocalesInner] at h
  split at h
  · simp at h
  · simp at h
  · rename_i dl' bki0 strs hmk
    split at h
    · simp at h
    · simp at h
    · rename_i locs bki1 ws1 hgo
      simp only [Res.ok.injEq, Prod.mk.injEq] at h
      obtain ⟨rfl, rfl, rfl⟩ := h
      exact ⟨dl', bki0, strs, _, bki1, hmk, hgo, rfl⟩

/-- every leaf of the final builder keys, at any depth: its signature is exactly the union over
    **all** locales of the occurrences of the locale's (reduced) value at that key path -/
theorem checkLocalesInner_sig {suppress : Bool} {fuel : Nat} {inherits : List (Str × Str)} {ns : Option Str}
    {dl : Loc} {others : List Loc} {ws : List Warning} {locales : List Loc} {bkiF : BKI} {ws' : List Warning}
    (h : checkLocalesInner suppress fuel inherits ns (dl :: others) ws = .ok (locales, bkiF, ws'))
    (p : List Str) (iol : IOL) (d : Defaults) (hleaf : leafAt bkiF p = some (iol, d)) :
    ExtBy {} iol.keysMut ((dl :: others).map (fun l => valD (valueAt l.keys p))) ∧ Sorted iol.keysMut.vars := by
  obtain ⟨dl', bki0, strs, dl'', bki1, hmk, hgo, rfl⟩ := checkLocalesInner_parts h
  rw [propagate_leafAt] at hleaf
  have hsome := go_leaf_paths _ _ _ _ _ _ _ _ _ _ _ _ hgo p
  rw [hleaf] at hsome
  cases h0 : leafAt bki0 p with
  | none => rw [h0] at hsome; cases hsome
  | some r =>
    obtain ⟨iol0, d0⟩ := r
    obtain ⟨m1, m2⟩ := makeBuilderKeys_sig dl.top fuel _ _ _ _ _ _ hmk p iol0 d0 h0
    obtain ⟨iol', d', g1, g2, g3⟩ := go_sig _ _ _ _ _ _ _ _ _ _ _ _ hgo p iol0 d0 h0
    rw [hleaf] at g1
    simp only [Option.some.injEq, Prod.mk.injEq] at g1
    obtain ⟨rfl, rfl⟩ := g1
    exact ⟨by simpa using ExtBy.trans m1 g2, g3 m2⟩

theorem ExtBy.exact {K : IKeys} {vs : List PV} (h : ExtBy {} K vs) :
    (∀ n f, f ∈ fmtsOf K n ↔ ∃ v ∈ vs, (n, f) ∈ occVars v) ∧
    (∀ n ty, countOf K n = some ty ↔ ∃ v ∈ vs, (n, ty) ∈ occCounts v) := by
  obtain ⟨_, _, e3, e4⟩ := Extends.exact_of_empty h rfl rfl
  exact ⟨fun n f => by rw [e3]; simp [List.mem_flatMap], fun n ty => by rw [e4]; simp [List.mem_flatMap]⟩

/-- a signature that is exactly the union of the occurrences of `vs` asks for option `o` iff one
    of the values uses it -/
theorem sig_uses {K : IKeys} {vs : List PV} (hx : ExtBy {} K vs) (hs : Sorted K.vars) (o : Opt) :
    (∃ p ∈ K.vars, InfoUses p.2 o) ↔ ∃ v ∈ vs, ValueUses v o := by
  obtain ⟨a3, a4⟩ := hx.exact
  constructor
  · rintro ⟨p, hp, hu⟩
    have hget := get?_of_mem_sorted _ hs p hp
    rcases hu with ⟨rfl, hc⟩ | ⟨f, hf, hfo⟩
    · have : countOf K p.1 = some .plural := by simp [countOf, info, hget, hc]
      obtain ⟨v, hv, hm⟩ := (a4 _ _).mp this
      exact ⟨v, hv, Or.inl ⟨rfl, p.1, hm⟩⟩
    · have : f ∈ fmtsOf K p.1 := by simp [fmtsOf, info, hget, hf]
      obtain ⟨v, hv, hm⟩ := (a3 _ _).mp this
      exact ⟨v, hv, Or.inr ⟨p.1, f, hm, hfo⟩⟩
  · rintro ⟨v, hv, hu⟩
    rcases hu with ⟨rfl, n, hm⟩ | ⟨n, f, hm, hfo⟩
    · have hc := (a4 n .plural).mpr ⟨v, hv, hm⟩
      simp only [countOf, info] at hc
      cases hg : AMap.get? n K.vars with
      | none => rw [hg] at hc; cases hc
      | some i =>
        rw [hg] at hc
        exact ⟨(n, i), mem_of_get? hg, Or.inl ⟨rfl, hc⟩⟩
    · have hc := (a3 n f).mpr ⟨v, hv, hm⟩
      simp only [fmtsOf, info] at hc
      cases hg : AMap.get? n K.vars with
      | none => rw [hg] at hc; simp at hc
      | some i =>
        rw [hg] at hc
        exact ⟨(n, i), mem_of_get? hg, Or.inr ⟨f, hc, hfo⟩⟩

theorem not_uses_dflt (o : Opt) : ¬ ValueUses .dflt o := by
  simp [ValueUses, occCounts, occVars]

theorem mem_vals_iff (all : List Loc) (p : List Str) (o : Opt) :
    (∃ v ∈ all.map (fun l => valD (valueAt l.keys p)), ValueUses v o) ↔
      ∃ l ∈ all, ∃ v, valueAt l.keys p = some v ∧ ValueUses v o := by
  constructor
  · rintro ⟨v, hv, hu⟩
    simp only [List.mem_map] at hv
    obtain ⟨l, hl, rfl⟩ := hv
    cases hva : valueAt l.keys p with
    | none => rw [hva] at hu; exact absurd hu (not_uses_dflt o)
    | some v => rw [hva] at hu; exact ⟨l, hl, v, hva, hu⟩
  · rintro ⟨l, hl, v, hva, hu⟩
    exact ⟨v, List.mem_map.mpr ⟨l, hl, by rw [hva]; rfl⟩, hu⟩

/-- **One namespace.**  The options derived from the builder keys of a successful
    `check_locales_inner` are exactly those used by the (reduced) value of *some locale* at *some
    leaf key path of the builder keys*, at any subkey depth. -/
theorem checkLocalesInner_uses {suppress : Bool} {fuel : Nat} {inherits : List (Str × Str)} {ns : Option Str}
    {dl : Loc} {others : List Loc} {ws : List Warning} {locales : List Loc} {bkiF : BKI} {ws' : List Warning}
    (h : checkLocalesInner suppress fuel inherits ns (dl :: others) ws = .ok (locales, bkiF, ws'))
    (hnd : NDLoc fuel dl) (o : Opt) :
    o ∈ usedOptions bkiF ↔
      ∃ p, (leafAt bkiF p).isSome ∧ ∃ l ∈ dl :: others, ∃ v, valueAt l.keys p = some v ∧ ValueUses v o := by
  rw [C20_options_iff]
  unfold KeysUse
  constructor
  · rintro ⟨K, hK, hu⟩
    obtain ⟨dl', bki0, strs, dl'', bki1, hmk, hgo, hF⟩ := checkLocalesInner_parts h
    obtain ⟨_, hwf0, _⟩ := makeBuilderKeys_spec dl.top fuel _ _ _ _ _ _ hmk hnd
    obtain ⟨hwf1, _⟩ := go_spec suppress fuel inherits dl ⟨ns, []⟩ others _ bki0 ws _ _ _ hwf0 hgo
    rw [hF, leaves_propagate] at hK
    obtain ⟨p, d, hp⟩ := leaves_path bki1 hwf1.1 hwf1.2 K hK
    have hpF : leafAt bkiF p = some (.interpol K, d) := by rw [hF, propagate_leafAt]; exact hp
    obtain ⟨s1, s2⟩ := checkLocalesInner_sig h p _ d hpF
    have := (sig_uses s1 s2 o).mp hu
    exact ⟨p, by rw [hpF]; rfl, (mem_vals_iff _ p o).mp this⟩
  · rintro ⟨p, hp, hl⟩
    cases hpF : leafAt bkiF p with
    | none => rw [hpF] at hp; cases hp
    | some r =>
      obtain ⟨iol, d⟩ := r
      obtain ⟨s1, s2⟩ := checkLocalesInner_sig h p iol d hpF
      obtain ⟨q, hq, hu⟩ := (sig_uses s1 s2 o).mpr ((mem_vals_iff _ p o).mpr hl)
      cases iol with
      | lit t => simp [IOL.keysMut] at hq
      | interpol K => exact ⟨K, leafAt_mem bkiF p K d hpF, q, hq, hu⟩

/-! ### which key paths are leaves of the builder keys: those where the default locale has a plain value -/

def RecMakeShape (recMake : MakeRec) : Prop :=
  ∀ path sub strs sub' bki strs', recMake path sub strs = .ok (sub', bki, strs') →
    ∀ p, (leafAt bki p).isSome = leafValAt sub.keys p

theorem makeKeys_shape (recMake : MakeRec) (hrec : RecMakeShape recMake) (dflt : Str) (path : KeyPath) :
    ∀ (l accK : List (Str × PV)) (accB : BKI) (strs : List Str) ks b s,
      makeKeys recMake dflt path l accK accB strs = .ok (ks, b, s) →
      ∃ newB, b = accB ++ newB ∧ ∀ k,
        (AMap.get? k l = none → AMap.get? k newB = none) ∧
        (∀ v, AMap.get? k l = some v → ∃ lv cur, AMap.get? k newB = some lv ∧ Reduce.reduce v = .ok cur ∧
          ∀ p, (leafLV lv p).isSome = leafOpt (curAt cur p)) := by
  intro l
  induction l with
  | nil =>
    intro accK accB strs ks b s h
    simp only [makeKeys, Res.ok.injEq, Prod.mk.injEq] at h
    obtain ⟨rfl, rfl, rfl⟩ := h
    exact ⟨[], by simp, by simp [AMap.get?]⟩
  | cons e l ih =>
    obtain ⟨k0, v0⟩ := e
    intro accK accB strs ks b s h
    have tail : ∀ (cur : PV) (lv0 : LV) accK1 s1, Reduce.reduce v0 = .ok cur →
        (∀ p, (leafLV lv0 p).isSome = leafOpt (curAt cur p)) →
        makeKeys recMake dflt path l accK1 (accB ++ [(k0, lv0)]) s1 = .ok (ks, b, s) →
        ∃ newB, b = accB ++ newB ∧ ∀ k,
          (AMap.get? k ((k0, v0) :: l) = none → AMap.get? k newB = none) ∧
          (∀ v, AMap.get? k ((k0, v0) :: l) = some v → ∃ lv cur, AMap.get? k newB = some lv ∧
            Reduce.reduce v = .ok cur ∧ ∀ p, (leafLV lv p).isSome = leafOpt (curAt cur p)) := by
      intro cur lv0 accK1 s1 hred hshape hmk
      obtain ⟨newB, hb, hall⟩ := ih _ _ _ _ _ _ hmk
      refine ⟨(k0, lv0) :: newB, by simp [hb], ?_⟩
      intro k
      rw [AMap.get?_cons, AMap.get?_cons]
      by_cases hk : k0 = k
      · subst hk
        simp only [if_true]
        refine ⟨by simp, ?_⟩
        intro v hv
        simp only [Option.some.injEq] at hv
        subst hv
        exact ⟨lv0, cur, rfl, hred, hshape⟩
      · simp only [hk, if_false]
        exact hall k
    simp only [makeKeys] at h
    split at h
    · simp at h
    · simp at h
    · rename_i v1 hred
      split at h
      · rename_i sub hsh
        have hv1 : v1 = .subkeys (some sub) := by
          cases v1 <;> simp [makeKeys.shapeOf'] at hsh
          subst hsh; rfl
        subst hv1
        split at h
        · simp at h
        · simp at h
        · rename_i sub' bki strs' hrm
          refine tail _ _ _ _ hred ?_ h
          intro p
          simp only [leafLV]
          cases p with
          | nil => rw [leafAt_nil]; rfl
          | cons k rest => exact hrec _ _ _ _ _ _ hrm _
      · simp at h
      · simp at h
      · rename_i hsh
        split at h
        · simp at h
        · simp at h
        · rename_i iol0 hgk
          refine tail _ _ _ _ hred ?_ h
          intro p
          cases p with
          | nil => cases v1 <;> simp [makeKeys.shapeOf'] at hsh <;> rfl
          | cons k rest => cases v1 <;> simp [makeKeys.shapeOf'] at hsh <;> rfl

theorem makeBuilderKeys_leafShape (dflt : Str) : ∀ fuel, RecMakeShape (makeBuilderKeys dflt fuel) := by
  intro fuel
  induction fuel with
  | zero =>
    intro path sub strs sub' bki strs' h
    simp [makeBuilderKeys] at h
  | succ fuel ih =>
    intro path loc strs loc' bki strs' h p
    simp only [makeBuilderKeys] at h
    split at h
    · rename_i keys' b s hk
      simp only [Res.ok.injEq, Prod.mk.injEq] at h
      obtain ⟨-, hbb, -⟩ := h
      obtain ⟨newB, hb, hall⟩ := makeKeys_shape _ ih dflt path _ _ _ _ _ _ _ hk
      simp only [List.nil_append] at hb
      rw [← hbb, hb]
      cases p with
      | nil => rw [leafAt_nil]; rfl
      | cons k rest =>
        unfold leafValAt
        rw [leafAt_cons, valueAt_cons]
        obtain ⟨h1, h2⟩ := hall k
        cases hg : AMap.get? k loc.keys with
        | none => rw [h1 hg]; rfl
        | some v =>
          obtain ⟨lv, cur, a1, a2, a3⟩ := h2 v hg
          rw [a1]
          simp only [a2]
          exact a3 rest
    · simp at h
    · simp at h

/-- the leaf key paths of the final builder keys are exactly the key paths at which the default
    locale has a plain value -/
theorem checkLocalesInner_leaf_paths {suppress : Bool} {fuel : Nat} {inherits : List (Str × Str)} {ns : Option Str}
    {dl : Loc} {others : List Loc} {ws : List Warning} {locales : List Loc} {bkiF : BKI} {ws' : List Warning}
    (h : checkLocalesInner suppress fuel inherits ns (dl :: others) ws = .ok (locales, bkiF, ws')) (p : List Str) :
    (leafAt bkiF p).isSome = leafValAt dl.keys p := by
  obtain ⟨dl', bki0, strs, dl'', bki1, hmk, hgo, rfl⟩ := checkLocalesInner_parts h
  rw [propagate_leafAt, ← go_leaf_paths _ _ _ _ _ _ _ _ _ _ _ _ hgo p]
  exact makeBuilderKeys_leafShape dl.top fuel _ _ _ _ _ _ hmk p

/-! ### `reduce` keeps the occurrences (even as lists, in order) -/

open Reduce in
theorem evsL_pushLit (l : Lit) (acc : List PV) : evsL (pushLit l acc) = evsL acc := by
  unfold pushLit
  split
  · rename_i last h
    have h' := (dropLast_append_of_getLast? h).symm
    conv => rhs; rw [h']
    simp [evsL_append, evsL, evs]
  · simp [evsL_append, evsL, evs]

open Reduce in
theorem evs_wrapBloc (l : List PV) : evs (wrapBloc l) = evsL l := by
  unfold wrapBloc
  split
  · simp [PV.empty, evs, evsL]
  · simp [evsL]
  · simp [evs]

open Reduce in
mutual
theorem reduce_evs : ∀ (v v' : PV), reduce v = .ok v' → evs v' = evs v
  | .lit l, v', h => by simp [reduce] at h; subst h; rfl
  | .var k f, v', h => by simp [reduce] at h; subst h; rfl
  | .dflt, v', h => by simp [reduce] at h; subst h; rfl
  | .fk (.set inner), v', h => by
    simp only [reduce] at h
    simp only [evs]
    exact reduce_evs inner v' h
  | .fk (.notSet _ _), v', h => by simp [reduce] at h
  | .ranges ck t bs, v', h => by
    simp only [reduce] at h
    split at h <;> try (simp at h; done)
    rename_i bs' hb
    simp at h; subst h
    simp only [evs, reduceBranches_evs bs bs' hb]
  | .comp k inner, v', h => by
    simp only [reduce] at h
    split at h <;> try (simp at h; done)
    rename_i i hi
    simp at h; subst h
    simp only [evs, reduce_evs inner i hi]
  | .subkeys (some (.mk n t keys s c)), v', h => by
    simp only [reduce] at h
    split at h <;> try (simp at h; done)
    simp at h; subst h
    simp only [evs]
  | .subkeys none, v', h => by simp [reduce] at h
  | .bloc items, v', h => by
    simp only [reduce] at h
    split at h <;> try (simp at h; done)
    rename_i acc hacc
    simp at h; subst h
    rw [evs_wrapBloc, reduceIntoL_evs items [] acc hacc]
    simp [evs, evsL]
  | .plurals r ck other forms, v', h => by
    simp only [reduce] at h
    split at h <;> try (simp at h; done)
    rename_i fs o hfs ho
    simp at h; subst h
    simp only [evs, reduce_evs other o ho, reduceForms_evs forms fs hfs]

theorem reduceInto_evs : ∀ (v : PV) (acc acc' : List PV), reduceInto v acc = .ok acc' → evsL acc' = evsL acc ++ evs v
  | .dflt, acc, acc', h => by simp [reduceInto] at h; subst h; simp [evs]
  | .subkeys _, acc, acc', h => by simp [reduceInto] at h; subst h; simp [evs]
  | .ranges ck t bs, acc, acc', h => by
    simp only [reduceInto] at h
    split at h <;> try (simp at h; done)
    rename_i bs' hb
    simp at h; subst h
    simp [evsL_append, evsL, evs, reduceBranches_evs bs bs' hb]
  | .plurals r ck other forms, acc, acc', h => by
    simp only [reduceInto] at h
    split at h <;> try (simp at h; done)
    rename_i fs o hfs ho
    simp at h; subst h
    simp [evsL_append, evsL, evs, reduce_evs other o ho, reduceForms_evs forms fs hfs]
  | .fk (.set inner), acc, acc', h => by
    simp only [reduceInto] at h
    simp only [evs]
    exact reduceInto_evs inner acc acc' h
  | .fk (.notSet _ _), acc, acc', h => by simp [reduceInto] at h
  | .lit l, acc, acc', h => by
    simp only [reduceInto] at h
    split at h
    · simp at h; subst h; simp [evs]
    · simp at h; subst h
      rw [evsL_pushLit]; simp [evs]
  | .var k f, acc, acc', h => by
    simp [reduceInto] at h; subst h
    simp [evsL_append, evsL, evs]
  | .comp k inner, acc, acc', h => by
    simp only [reduceInto] at h
    split at h <;> try (simp at h; done)
    rename_i i hi
    simp at h; subst h
    simp [evsL_append, evsL, evs, reduce_evs inner i hi]
  | .bloc items, acc, acc', h => by
    simp only [reduceInto] at h
    simp only [evs]
    exact reduceIntoL_evs items acc acc' h

theorem reduceIntoL_evs : ∀ (xs acc acc' : List PV), reduceIntoL xs acc = .ok acc' → evsL acc' = evsL acc ++ evsL xs
  | [], acc, acc', h => by simp [reduceIntoL] at h; subst h; simp [evsL]
  | x :: xs, acc, acc', h => by
    simp only [reduceIntoL] at h
    split at h <;> try (simp at h; done)
    rename_i a hx
    rw [reduceIntoL_evs xs a acc' h, reduceInto_evs x acc a hx]
    simp [evsL]

theorem reduceBranches_evs : ∀ (bs bs' : List (Range × PV)), reduceBranches bs = .ok bs' → evsB bs' = evsB bs
  | [], bs', h => by simp [reduceBranches] at h; subst h; rfl
  | (r, v) :: rest, bs', h => by
    simp only [reduceBranches] at h
    split at h <;> try (simp at h; done)
    rename_i v' rest' hv hr
    simp at h; subst h
    simp only [evsB, reduce_evs v v' hv, reduceBranches_evs rest rest' hr]

theorem reduceForms_evs : ∀ (fs fs' : List (Form × PV)), reduceForms fs = .ok fs' → evsF fs' = evsF fs
  | [], fs', h => by simp [reduceForms] at h; subst h; rfl
  | (g, v) :: rest, fs', h => by
    simp only [reduceForms] at h
    split at h <;> try (simp at h; done)
    rename_i v' rest' hv hr
    simp at h; subst h
    simp only [evsF, reduce_evs v v' hv, reduceForms_evs rest rest' hr]
end

/-- `reduce` keeps the occurrence lists (variables with formatter, components, counts) -/
theorem reduce_occ (v v' : PV) (h : Reduce.reduce v = .ok v') :
    occVars v' = occVars v ∧ occComps v' = occComps v ∧ occCounts v' = occCounts v := by
  obtain ⟨a1, a2, a3⟩ := occ_evs v
  obtain ⟨b1, b2, b3⟩ := occ_evs v'
  rw [a1, a2, a3, b1, b2, b3, reduce_evs v v' h]
  exact ⟨rfl, rfl, rfl⟩

theorem reduce_uses (v v' : PV) (h : Reduce.reduce v = .ok v') (o : Opt) : ValueUses v' o ↔ ValueUses v o := by
  obtain ⟨a1, _, a3⟩ := reduce_occ v v' h
  unfold ValueUses
  rw [a1, a3]

/-! ### the structural reading of `ValueUses` -/

theorem exists_or {α} {p q : α → Prop} : (∃ x, p x ∨ q x) ↔ (∃ x, p x) ∨ (∃ x, q x) :=
  ⟨fun ⟨x, h⟩ => h.elim (fun h => Or.inl ⟨x, h⟩) (fun h => Or.inr ⟨x, h⟩),
   fun h => h.elim (fun ⟨x, h⟩ => ⟨x, Or.inl h⟩) (fun ⟨x, h⟩ => ⟨x, Or.inr h⟩)⟩

mutual
theorem hasPlurals_iff : ∀ v : PV, (∃ n, (n, CountTy.plural) ∈ occCounts v) ↔ hasPlurals v = true
  | .plurals r ck o fs => by
    simp only [occCounts, hasPlurals, iff_true]
    exact ⟨ck, by simp⟩
  | .comp k inner => by simp only [occCounts, hasPlurals]; exact hasPlurals_iff inner
  | .bloc items => by simp only [occCounts, hasPlurals]; exact hasPluralsL_iff items
  | .ranges ck t bs => by
    simp only [occCounts, hasPlurals, List.mem_append, List.mem_singleton, Prod.mk.injEq, reduceCtorEq,
      and_false, or_false]
    exact hasPluralsB_iff bs
  | .fk (.set inner) => by simp only [occCounts, hasPlurals]; exact hasPlurals_iff inner
  | .fk (.notSet _ _) => by simp [occCounts, hasPlurals]
  | .var _ _ => by simp [occCounts, hasPlurals]
  | .lit _ => by simp [occCounts, hasPlurals]
  | .dflt => by simp [occCounts, hasPlurals]
  | .subkeys _ => by simp [occCounts, hasPlurals]
theorem hasPluralsL_iff : ∀ l : List PV, (∃ n, (n, CountTy.plural) ∈ occCountsL l) ↔ hasPluralsL l = true
  | [] => by simp [occCountsL, hasPluralsL]
  | x :: xs => by
    simp only [occCountsL, hasPluralsL, List.mem_append, Bool.or_eq_true, exists_or]
    rw [hasPlurals_iff x, hasPluralsL_iff xs]
theorem hasPluralsB_iff : ∀ l : List (Range × PV), (∃ n, (n, CountTy.plural) ∈ occCountsB l) ↔ hasPluralsB l = true
  | [] => by simp [occCountsB, hasPluralsB]
  | (_, x) :: xs => by
    simp only [occCountsB, hasPluralsB, List.mem_append, Bool.or_eq_true, exists_or]
    rw [hasPlurals_iff x, hasPluralsB_iff xs]
end

/-- `(n, f)` occurs with a formatter of the family of `o` -/
def FmtIn (o : Opt) (l : List (Str × Fmt)) : Prop := ∃ n f, (n, f) ∈ l ∧ fmtOpt f = some o

theorem FmtIn_append (o : Opt) (a b : List (Str × Fmt)) : FmtIn o (a ++ b) ↔ FmtIn o a ∨ FmtIn o b := by
  unfold FmtIn
  constructor
  · rintro ⟨n, f, h, hf⟩
    rcases List.mem_append.mp h with h | h
    · exact Or.inl ⟨n, f, h, hf⟩
    · exact Or.inr ⟨n, f, h, hf⟩
  · rintro (⟨n, f, h, hf⟩ | ⟨n, f, h, hf⟩)
    · exact ⟨n, f, List.mem_append.mpr (Or.inl h), hf⟩
    · exact ⟨n, f, List.mem_append.mpr (Or.inr h), hf⟩

theorem FmtIn_nil (o : Opt) : ¬ FmtIn o [] := by
  rintro ⟨n, f, h, _⟩; simp at h

mutual
theorem hasFmt_iff (o : Opt) : ∀ v : PV, FmtIn o (occVars v) ↔ hasFmt o v = true
  | .var k f => by
    simp only [occVars, hasFmt, beq_iff_eq, FmtIn, List.mem_singleton, Prod.mk.injEq]
    constructor
    · rintro ⟨n, g, ⟨rfl, rfl⟩, h⟩; exact h
    · intro h; exact ⟨k, f, ⟨rfl, rfl⟩, h⟩
  | .comp k inner => by simp only [occVars, hasFmt]; exact hasFmt_iff o inner
  | .bloc items => by simp only [occVars, hasFmt]; exact hasFmtL_iff o items
  | .ranges ck t bs => by simp only [occVars, hasFmt]; exact hasFmtB_iff o bs
  | .plurals r ck other fs => by
    simp only [occVars, hasFmt, Bool.or_eq_true, FmtIn_append]
    rw [hasFmtF_iff o fs, hasFmt_iff o other]
  | .fk (.set inner) => by simp only [occVars, hasFmt]; exact hasFmt_iff o inner
  | .fk (.notSet _ _) => by simp [occVars, hasFmt, FmtIn_nil]
  | .lit _ => by simp [occVars, hasFmt, FmtIn_nil]
  | .dflt => by simp [occVars, hasFmt, FmtIn_nil]
  | .subkeys _ => by simp [occVars, hasFmt, FmtIn_nil]
theorem hasFmtL_iff (o : Opt) : ∀ l : List PV, FmtIn o (occVarsL l) ↔ hasFmtL o l = true
  | [] => by simp [occVarsL, hasFmtL, FmtIn_nil]
  | x :: xs => by
    simp only [occVarsL, hasFmtL, Bool.or_eq_true, FmtIn_append]
    rw [hasFmt_iff o x, hasFmtL_iff o xs]
theorem hasFmtB_iff (o : Opt) : ∀ l : List (Range × PV), FmtIn o (occVarsB l) ↔ hasFmtB o l = true
  | [] => by simp [occVarsB, hasFmtB, FmtIn_nil]
  | (_, x) :: xs => by
    simp only [occVarsB, hasFmtB, Bool.or_eq_true, FmtIn_append]
    rw [hasFmt_iff o x, hasFmtB_iff o xs]
theorem hasFmtF_iff (o : Opt) : ∀ l : List (Form × PV), FmtIn o (occVarsF l) ↔ hasFmtF o l = true
  | [] => by simp [occVarsF, hasFmtF, FmtIn_nil]
  | (_, x) :: xs => by
    simp only [occVarsF, hasFmtF, Bool.or_eq_true, FmtIn_append]
    rw [hasFmt_iff o x, hasFmtF_iff o xs]
end

/-- `ValueUses` is decided by the structural check `usesB` -/
theorem usesB_iff (v : PV) (o : Opt) : ValueUses v o ↔ usesB v o = true := by
  unfold ValueUses usesB
  rw [hasPlurals_iff v]
  have := hasFmt_iff o v
  unfold FmtIn at this
  rw [this]
  simp [Bool.or_eq_true, Bool.and_eq_true]

/-! ### every stage of the pipeline keeps the locales' names and order -/

section names
open I18nVerif.Pipeline
def NamesOK (L : List Str) (nss : List NS) : Prop := ∀ ns ∈ nss, ns.locales.map Loc.name = L

theorem Decode_locale_name (name : Str) (j : J) (loc : Loc) (h : Decode.locale name j = .ok loc) : loc.name = name := by
  unfold Decode.locale at h
  cases j with
  | obj l =>
    simp only at h
    rw [Decode.value] at h
    split at h
    · rename_i l' heq
      simp only [Bool.false_eq_true, if_false] at heq
      split at heq
      · simp only [Res.ok.injEq, PV.subkeys.injEq, Option.some.injEq] at heq h
        rw [← h, ← heq]; rfl
      · simp at heq
      · simp at heq
    · simp at h
    · simp at h
    · simp at h
  | _ => simp at h

theorem mergePlurals_name (orc : Oracle) (locale : Str) (fuel : Nat) (path : KeyPath) (l l' : Loc) (w : List Warning)
    (h : Plurals.mergePlurals orc locale fuel path l = .ok (l', w)) : l'.name = l.name := by
  cases fuel with
  | zero => simp [Plurals.mergePlurals] at h
  | succ fuel =>
    obtain ⟨n, t, keys, s, c⟩ := l
    rw [Plurals.mergePlurals] at h
    split at h
    · simp at h
    · simp at h
    · split at h
      · simp only [Res.ok.injEq, Prod.mk.injEq] at h
        rw [← h.1]; rfl
      · simp at h
      · simp at h


theorem decodeNs_names (inp : Input) (ns : Option Str) : ∀ (ls : List Str) (locs : List Loc),
    decodeNs inp ns ls = .ok locs → locs.map Loc.name = ls
  | [], locs, h => by simp [decodeNs] at h; subst h; rfl
  | l :: ls, locs, h => by
    simp only [decodeNs] at h
    split at h
    · simp at h
    · split at h
      · simp at h
      · simp at h
      · rename_i loc hl
        split at h
        · rename_i locs' hr
          simp only [Res.ok.injEq] at h
          subst h
          simp [Decode_locale_name _ _ _ hl, decodeNs_names inp ns ls locs' hr]
        · simp at h
        · simp at h

theorem decodeAll_names (inp : Input) : ∀ (keys : List (Option Str)) (nss : List NS),
    decodeAll inp keys = .ok nss → NamesOK inp.cfg.locales nss
  | [], nss, h => by simp [decodeAll] at h; subst h; intro ns hn; simp at hn
  | k :: rest, nss, h => by
    simp only [decodeAll] at h
    split at h
    · simp at h
    · simp at h
    · rename_i locs hl
      split at h
      · rename_i nss' hr
        simp only [Res.ok.injEq] at h
        subst h
        intro ns hn
        rcases List.mem_cons.mp hn with rfl | hn
        · exact decodeNs_names inp k _ _ hl
        · exact decodeAll_names inp rest nss' hr ns hn
      · simp at h
      · simp at h

theorem mergePluralsNs_names (orc : Oracle) (ns : Option Str) : ∀ (ls : List Loc) (ws : List Warning) ls' ws',
    mergePluralsNs orc ns ls ws = .ok (ls', ws') → ls'.map Loc.name = ls.map Loc.name
  | [], ws, ls', ws', h => by simp [mergePluralsNs] at h; rw [h.1]
  | l :: ls, ws, ls', ws', h => by
    simp only [mergePluralsNs] at h
    split at h
    · simp at h
    · simp at h
    · rename_i l' w hl
      split at h
      · rename_i ls1 ws1 hr
        simp only [Res.ok.injEq, Prod.mk.injEq] at h
        rw [← h.1]
        simp [mergePlurals_name _ _ _ _ _ _ _ hl, mergePluralsNs_names orc ns ls _ _ _ hr]
      · simp at h
      · simp at h

theorem mergePluralsAll_names (orc : Oracle) (L : List Str) : ∀ (nss : List NS) (ws : List Warning) nss' ws',
    mergePluralsAll orc nss ws = .ok (nss', ws') → NamesOK L nss → NamesOK L nss'
  | [], ws, nss', ws', h, _ => by
    simp [mergePluralsAll] at h; rw [h.1]; intro ns hn; simp at hn
  | n :: rest, ws, nss', ws', h, hok => by
    simp only [mergePluralsAll] at h
    split at h
    · simp at h
    · simp at h
    · rename_i locs ws1 hl
      split at h
      · rename_i nss1 ws2 hr
        simp only [Res.ok.injEq, Prod.mk.injEq] at h
        rw [← h.1]
        intro ns hn
        rcases List.mem_cons.mp hn with rfl | hn
        · simp only
          rw [mergePluralsNs_names _ _ _ _ _ _ hl]
          exact hok n (by simp)
        · exact mergePluralsAll_names orc L rest ws1 nss1 ws2 hr (fun x hx => hok x (by simp [hx])) ns hn
      · simp at h
      · simp at h

theorem setValueAt_names (L : List Str) (w : World) (top : Str) (p : KeyPath) (v : PV)
    (h : NamesOK L w.nss) : NamesOK L (w.setValueAt top p v).nss := by
  intro ns hn
  simp only [World.setValueAt, List.mem_map] at hn
  obtain ⟨ns0, h0, rfl⟩ := hn
  have := h ns0 h0
  split
  · simp only [List.map_map]
    rw [← this]
    apply List.map_congr_left
    intro l _
    simp only [Function.comp]
    split
    · cases l; rfl
    · rfl
  · exact this

theorem resolveAt_names (L : List Str) (orc : Oracle) (dflt : Foreign.Fallbacks) (fuel : Nat) (locale : Str) (p : KeyPath)
    (w w' : World) (b : Bool) (h : Foreign.resolveAt orc dflt fuel locale p w = .ok (w', b))
    (hok : NamesOK L w.nss) : NamesOK L w'.nss := by
  unfold Foreign.resolveAt at h
  split at h
  · simp at h
  · simp at h
  · simp only [Res.ok.injEq, Prod.mk.injEq] at h; rw [← h.1]; exact hok
  · split at h
    · simp at h
    · simp at h
    · simp only [Res.ok.injEq, Prod.mk.injEq] at h
      rw [← h.1]; exact setValueAt_names L w _ _ _ hok

theorem resolveAll_names (L : List Str) (orc : Oracle) (dflt : Foreign.Fallbacks) (fuel : Nat) :
    ∀ (paths : List (Str × KeyPath)) (w w' : World), Foreign.resolveAll orc dflt fuel paths w = .ok w' →
      NamesOK L w.nss → NamesOK L w'.nss
  | [], w, w', h, hok => by simp [Foreign.resolveAll] at h; rw [← h]; exact hok
  | (locale, p) :: rest, w, w', h, hok => by
    simp only [Foreign.resolveAll] at h
    split at h
    · simp at h
    · simp at h
    · rename_i w1 f1 h1
      have ok1 := resolveAt_names L _ _ _ _ _ _ _ _ h1 hok
      split at h
      · simp at h
      · simp at h
      · rename_i w2 f2 h2
        have ok2 : NamesOK L w2.nss := by
          split at h2
          · simp only [Res.ok.injEq, Prod.mk.injEq] at h2; rw [← h2.1]; exact ok1
          · exact resolveAt_names L _ _ _ _ _ _ _ _ h2 ok1
        split at h
        · exact resolveAll_names L orc dflt fuel rest w2 w' h ok2
        · simp at h

theorem checkAll_names (inp : Input) (L : List Str) : ∀ (nss : List NS) (ws : List Warning) outs ws',
    checkAll inp nss ws = .ok (outs, ws') → NamesOK L nss → ∀ o ∈ outs, o.locales.map Loc.name = L
  | [], ws, outs, ws', h, _, o, ho => by
    simp only [checkAll, Res.ok.injEq, Prod.mk.injEq] at h
    rw [← h.1] at ho; simp at ho
  | ns :: rest, ws, outs, ws', h, hok, o, ho => by
    simp only [checkAll] at h
    split at h
    · simp at h
    · simp at h
    · rename_i locs bki ws1 hc
      split at h
      · rename_i outs1 ws2 hr
        simp only [Res.ok.injEq, Prod.mk.injEq] at h
        rw [← h.1] at ho
        rcases List.mem_cons.mp ho with rfl | ho
        · simp only
          rw [C20_locales_check_partial _ _ _ _ _ _ _ _ _ hc]
          exact hok ns (by simp)
        · exact checkAll_names inp L rest ws1 outs1 ws2 hr (fun x hx => hok x (by simp [hx])) o ho
      · simp at h
      · simp at h

theorem resolved_names (inp : Input) (w : World) (ws : List Warning) (h : Pipeline.resolved inp = .ok (w, ws)) :
    NamesOK inp.cfg.locales w.nss := by
  unfold Pipeline.resolved at h
  split at h
  · simp at h
  · simp at h
  · rename_i w0 paths hp
    split at h
    · simp at h
    · simp at h
    · rename_i nss1 ws1 hm
      simp only at h
      split at h
      · simp at h
      · simp at h
      · rename_i w2 hr
        simp only [Res.ok.injEq, Prod.mk.injEq] at h
        rw [← h.1]
        refine resolveAll_names _ _ _ _ _ _ _ hr ?_
        simp only
        refine mergePluralsAll_names _ _ _ _ _ _ hm ?_
        unfold parseRaw at hp
        split at hp
        all_goals
          dsimp only at hp
          split at hp
          · simp at hp
          · simp at hp
          · rename_i nss0 hd
            simp only [Res.ok.injEq, Prod.mk.injEq] at hp
            rw [← hp.1]
            exact decodeAll_names inp _ _ hd

theorem run_parts (inp : Input) (out : Output) (h : Pipeline.run inp = .ok out) :
    ∃ w ws ws', Pipeline.resolved inp = .ok (w, ws) ∧ checkAll inp w.nss ws = .ok (out.nss, ws') := by
  unfold Pipeline.run at h
  split at h
  · simp at h
  · simp at h
  · rename_i w ws hr
    split at h
    · simp at h
    · simp at h
    · rename_i outs ws' hc
      simp only [Res.ok.injEq] at h
      rw [← h]
      exact ⟨w, ws, ws', hr, hc⟩

theorem ns_uses (inp : Input) (ns : NS) (ws : List Warning) (locs : List Loc) (bki : BKI) (ws' : List Warning)
    (hc : checkLocalesInner inp.suppress 1000000 inp.cfg.inherits ns.key ns.locales ws = .ok (locs, bki, ws'))
    (hnd : ∀ dl, ns.locales.head? = some dl → NDLoc 1000000 dl) (o : Opt) :
    KeysUse bki o ↔ NsUses ns o := by
  rw [← C20_options_iff]
  cases hl : ns.locales with
  | nil => rw [hl] at hc; simp [checkLocalesInner] at hc
  | cons dl others =>
    rw [hl] at hc
    rw [checkLocalesInner_uses hc (hnd dl (by rw [hl]; rfl)) o]
    unfold NsUses
    rw [hl]
    constructor
    · rintro ⟨p, hp, hrest⟩
      exact ⟨dl, rfl, p, by rw [← checkLocalesInner_leaf_paths hc p]; exact hp, hrest⟩
    · rintro ⟨dl', hdl, p, hp, hrest⟩
      simp only [List.head?_cons, Option.some.injEq] at hdl
      subst hdl
      exact ⟨p, by rw [checkLocalesInner_leaf_paths hc p]; exact hp, hrest⟩

theorem checkAll_uses (inp : Input) : ∀ (nss : List NS) (ws : List Warning) outs ws',
    checkAll inp nss ws = .ok (outs, ws') →
    (∀ ns ∈ nss, ∀ dl, ns.locales.head? = some dl → NDLoc 1000000 dl) →
    ∀ o, (∃ out ∈ outs, KeysUse out.keys o) ↔ ∃ ns ∈ nss, NsUses ns o
  | [], ws, outs, ws', h, _, o => by
    simp only [checkAll, Res.ok.injEq, Prod.mk.injEq] at h
    rw [← h.1]; simp
  | ns :: rest, ws, outs, ws', h, hnd, o => by
    simp only [checkAll] at h
    split at h
    · simp at h
    · simp at h
    · rename_i locs bki ws1 hc
      split at h
      · rename_i outs1 ws2 hr
        simp only [Res.ok.injEq, Prod.mk.injEq] at h
        rw [← h.1]
        have h1 := ns_uses inp ns ws locs bki ws1 hc (hnd ns (by simp)) o
        have h2 := checkAll_uses inp rest ws1 outs1 ws2 hr (fun x hx => hnd x (by simp [hx])) o
        simp only [List.mem_cons, exists_eq_or_imp, h1, h2]
      · simp at h
      · simp at h

end names

end I18nVerif.Datakey
