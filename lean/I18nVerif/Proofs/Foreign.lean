import I18nVerif.Spec.Subst
namespace I18nVerif.Foreign
open I18nVerif I18nVerif.Subst
/-! Helper lemmas for C06 -/
theorem countFor_litDec {t l c} (h : countFor t l = some (.ok c)) : litDec l = some c := by
  cases l <;> simp only [countFor, litDec] at h ⊢
  all_goals (try split at h) <;> (try split at h) <;> simp_all

theorem populate_ranges_inv {orc locale args ck t bs v'}
    (h : populate orc locale args (.ranges ck t bs) = .ok v') :
    (∃ k' bs', populateB orc locale args bs = .ok bs' ∧ v' = .ranges k' t bs' ∧
        ∀ ρ : Eval.Env, substCount ρ args ck = ρ.count k') ∨
    (∃ c, findValue orc locale args c bs = .ok v' ∧ ∀ ρ : Eval.Env, substCount ρ args ck = c) := by
  simp only [populate] at h
  split at h
  · rename_i hg
    split at h <;> simp at h
    subst h
    exact .inl ⟨_, _, ‹_›, rfl, fun ρ => by simp [substCount, hg]⟩
  · rename_i ca hg
    split at h
    · rename_i l
      split at h <;> try (simp at h; done)
      rename_i c hc
      exact .inr ⟨c, h, fun ρ => by simp [substCount, hg, countFor_litDec hc]⟩
    · rename_i vs
      split at h <;> try (simp at h; done)
      rename_i key hk
      split at h <;> simp at h
      subst h
      exact .inl ⟨_, _, ‹_›, rfl, fun ρ => by simp [substCount, hg, hk]⟩
    · rename_i key f
      split at h <;> simp at h
      subst h
      exact .inl ⟨_, _, ‹_›, rfl, fun ρ => by simp [substCount, hg]⟩
    · simp at h
theorem withKey_inv {rule : RuleTy} {k : Str} {a : Res PV} {b : Res (List (Form × PV))} {v' : PV}
    (h : (match a, b with
      | .ok o, .ok fs => Res.ok (PV.plurals rule k o fs)
      | .panic p, _ => .panic p
      | _, .panic p => .panic p
      | .err e, _ => .err e
      | _, .err e => .err e) = .ok v') :
    ∃ o fs, a = .ok o ∧ b = .ok fs ∧ v' = .plurals rule k o fs := by
  split at h <;> simp at h
  exact ⟨_, _, rfl, rfl, h.symm⟩

theorem populate_plurals_inv {orc locale args rule ck other forms v'}
    (h : populate orc locale args (.plurals rule ck other forms) = .ok v') :
    (∃ k' o fs, populate orc locale args other = .ok o ∧ populateF orc locale args forms = .ok fs ∧
        v' = .plurals rule k' o fs ∧ ∀ ρ : Eval.Env, substCount ρ args ck = ρ.count k') ∨
    (∃ l d f, litDec l = some d ∧ (∀ ρ : Eval.Env, substCount ρ args ck = d) ∧
        orc.cat locale rule (operandKey l) = some f ∧
        ((f = .other ∧ populate orc locale args other = .ok v') ∨
         (match selectForm orc locale args f forms with
            | some r => r
            | none => populate orc locale args other) = .ok v')) := by
  simp only [populate] at h
  split at h
  · rename_i hg
    obtain ⟨o, fs, h1, h2, rfl⟩ := withKey_inv h
    exact .inl ⟨_, o, fs, h1, h2, rfl, fun ρ => by simp [substCount, hg]⟩
  · rename_i ca hg
    split at h
    · simp at h
    · simp at h
    · rename_i l hns hnb
      split at h
      · simp at h
      · have hd : ∃ d, litDec l = some d := by
          cases l with
          | str s i => exact absurd rfl (hns s i)
          | bool b => exact absurd rfl (hnb b)
          | signed v => exact ⟨_, rfl⟩
          | unsigned v => exact ⟨_, rfl⟩
          | float d => exact ⟨_, rfl⟩
        obtain ⟨d, hd⟩ := hd
        split at h
        · simp at h
        · rename_i hc
          exact .inr ⟨l, d, _, hd, fun ρ => by simp [substCount, hg, hd], hc, .inl ⟨rfl, h⟩⟩
        · rename_i f hno hc
          exact .inr ⟨l, d, f, hd, fun ρ => by simp [substCount, hg, hd], hc, .inr h⟩
    · rename_i vs
      split at h <;> try (simp at h; done)
      rename_i key hk
      obtain ⟨o, fs, h1, h2, rfl⟩ := withKey_inv h
      exact .inl ⟨_, o, fs, h1, h2, rfl, fun ρ => by simp [substCount, hg, hk]⟩
    · obtain ⟨o, fs, h1, h2, rfl⟩ := withKey_inv h
      exact .inl ⟨_, o, fs, h1, h2, rfl, fun ρ => by simp [substCount, hg]⟩
    · simp at h

/-! ### `populate` is substitution -/

theorem list_inv {α β : Type} {a : Res α} {b : Res (List β)} {g : α → β} {l' : List β}
    (h : (match a with
      | .err e => Res.err e
      | .panic p => .panic p
      | .ok x' =>
        match b with
        | .ok xs' => .ok (g x' :: xs')
        | .err e => .err e
        | .panic p => .panic p) = .ok l') :
    ∃ x' xs', a = .ok x' ∧ b = .ok xs' ∧ l' = g x' :: xs' := by
  split at h <;> try (simp at h; done)
  split at h <;> simp at h
  exact ⟨_, _, rfl, rfl, h.symm⟩

section
variable (orc : Oracle) (locale : Str) (args : List (Str × PV)) (ρ : Eval.Env)
  (hO : OracleAgrees orc locale ρ)
include hO

mutual
theorem populate_subst : ∀ (v v' : PV), PluralsWf v = true →
    populate orc locale args v = .ok v' → Eval.eval ρ v' = Eval.eval (substEnv ρ args) v
  | .dflt, v', _, h => by
    simp only [populate, Res.ok.injEq] at h; subst h; simp [Eval.eval]
  | .lit l, v', _, h => by
    simp only [populate, Res.ok.injEq] at h; subst h; simp [Eval.eval]
  | .fk (.set inner), v', hw, h => by
    simp only [populate] at h
    simp only [PluralsWf] at hw
    rw [populate_subst inner v' hw h]; simp [Eval.eval]
  | .fk (.notSet p a), v', _, h => by
    simp only [populate, Res.ok.injEq] at h; subst h; simp [Eval.eval]
  | .var key f, v', _, h => by
    simp only [populate] at h
    split at h <;> simp only [Res.ok.injEq] at h <;> subst h <;> simp [Eval.eval, substEnv, *]
  | .comp key inner, v', hw, h => by
    simp only [populate] at h
    simp only [PluralsWf] at hw
    split at h <;> simp at h
    subst h
    rename_i i hi
    simp only [Eval.eval, populate_subst inner i hw hi]
    rfl
  | .bloc items, v', hw, h => by
    simp only [populate] at h
    simp only [PluralsWf] at hw
    split at h <;> simp at h
    subst h
    rename_i l hl
    simp only [Eval.eval, populateL_subst items l hw hl]
  | .subkeys _, v', _, h => by simp [populate] at h
  | .ranges ck t bs, v', hw, h => by
    simp only [PluralsWf] at hw
    rcases populate_ranges_inv h with ⟨k', bs', hb, rfl, hc⟩ | ⟨c, hf, hc⟩
    · simp only [Eval.eval]
      rw [populateB_subst bs bs' hw hb]
      show _ = Eval.evalBranches _ (substCount ρ args ck) bs
      rw [hc]
    · simp only [Eval.eval]
      show _ = Eval.evalBranches _ (substCount ρ args ck) bs
      rw [hc]
      exact findValue_subst c bs v' hw hf
  | .plurals rule ck other forms, v', hw, h => by
    simp only [PluralsWf, Bool.and_eq_true] at hw
    rcases populate_plurals_inv h with ⟨k', o, fs, ho, hf, rfl, hc⟩ | ⟨l, d, f, hd, hc, hcat, hsel⟩
    · simp only [Eval.eval]
      show _ = match Eval.evalForm (substEnv ρ args) (ρ.cat rule (substCount ρ args ck)) forms with
        | some s => s
        | none => Eval.eval (substEnv ρ args) other
      rw [hc, populateF_subst forms fs hw.2 hf, populate_subst other o hw.1 ho]
    · have hf := hO rule l d f hd hcat
      simp only [Eval.eval]
      show _ = match Eval.evalForm (substEnv ρ args) (ρ.cat rule (substCount ρ args ck)) forms with
        | some s => s
        | none => Eval.eval (substEnv ρ args) other
      rw [hc, ← hf]
      have hsf := selectForm_subst f forms hw.2
      rcases hsel with ⟨rfl, ho⟩ | hsel
      · rw [hsf.2.2 rfl, populate_subst other v' hw.1 ho]
      · split at hsel
        · rename_i r hr
          subst hsel
          rw [hsf.2.1 v' hr]
        · rename_i hr
          rw [hsf.1 hr, populate_subst other v' hw.1 hsel]

theorem populateL_subst : ∀ (l l' : List PV), PluralsWfL l = true →
    populateL orc locale args l = .ok l' → Eval.evalL ρ l' = Eval.evalL (substEnv ρ args) l
  | [], l', _, h => by
    simp only [populateL, Res.ok.injEq] at h; subst h; simp [Eval.evalL]
  | x :: xs, l', hw, h => by
    simp only [populateL] at h
    simp only [PluralsWfL, Bool.and_eq_true] at hw
    obtain ⟨x', xs', hx, hxs, rfl⟩ := list_inv (g := id) h
    simp only [id, Eval.evalL, populate_subst x x' hw.1 hx, populateL_subst xs xs' hw.2 hxs]

theorem populateB_subst : ∀ (bs bs' : List (Range × PV)), PluralsWfB bs = true →
    populateB orc locale args bs = .ok bs' →
    ∀ {c}, Eval.evalBranches ρ c bs' = Eval.evalBranches (substEnv ρ args) c bs
  | [], l', _, h => by
    simp only [populateB, Res.ok.injEq] at h; subst h; simp [Eval.evalBranches]
  | (r, x) :: xs, l', hw, h => by
    simp only [populateB] at h
    simp only [PluralsWfB, Bool.and_eq_true] at hw
    obtain ⟨x', xs', hx, hxs, rfl⟩ := list_inv (g := fun y => (r, y)) h
    intro c
    simp only [Eval.evalBranches, populate_subst x x' hw.1 hx, populateB_subst xs xs' hw.2 hxs]

theorem populateF_subst : ∀ (fs fs' : List (Form × PV)), PluralsWfF fs = true →
    populateF orc locale args fs = .ok fs' →
    ∀ {f}, Eval.evalForm ρ f fs' = Eval.evalForm (substEnv ρ args) f fs
  | [], l', _, h => by
    simp only [populateF, Res.ok.injEq] at h; subst h; simp [Eval.evalForm]
  | (r, x) :: xs, l', hw, h => by
    simp only [populateF] at h
    simp only [PluralsWfF, Bool.and_eq_true] at hw
    obtain ⟨x', xs', hx, hxs, rfl⟩ := list_inv (g := fun y => (r, y)) h
    intro c
    simp only [Eval.evalForm, populate_subst x x' hw.1.2 hx, populateF_subst xs xs' hw.2 hxs]

theorem findValue_subst (c : Dec) : ∀ (bs : List (Range × PV)) (v' : PV), PluralsWfB bs = true →
    findValue orc locale args c bs = .ok v' →
    Eval.eval ρ v' = Eval.evalBranches (substEnv ρ args) c bs
  | [], v', _, h => by simp [findValue] at h
  | (r, x) :: xs, v', hw, h => by
    simp only [findValue] at h
    simp only [PluralsWfB, Bool.and_eq_true] at hw
    simp only [Eval.evalBranches]
    split at h
    · rename_i hm; rw [if_pos hm]; exact populate_subst x v' hw.1 h
    · rename_i hm; rw [if_neg hm]; exact findValue_subst c xs v' hw.2 h

theorem selectForm_subst (f : Form) : ∀ (fs : List (Form × PV)), PluralsWfF fs = true →
    (selectForm orc locale args f fs = none → Eval.evalForm (substEnv ρ args) f fs = none) ∧
    (∀ v', selectForm orc locale args f fs = some (.ok v') →
      Eval.evalForm (substEnv ρ args) f fs = some (Eval.eval ρ v')) ∧
    (f = .other → Eval.evalForm (substEnv ρ args) f fs = none)
  | [], _ => by simp [selectForm, Eval.evalForm]
  | (f', x) :: xs, hw => by
    simp only [PluralsWfF, Bool.and_eq_true] at hw
    have ih := selectForm_subst f xs hw.2
    simp only [selectForm, Eval.evalForm]
    by_cases hff : (f' == f) = true
    · simp only [hff, if_true]
      refine ⟨by simp, ?_, ?_⟩
      · intro v' hv
        simp only [Option.some.injEq] at hv
        rw [populate_subst x v' hw.1.2 hv]
      · intro hfo
        subst hfo
        have := hw.1.1
        cases f' <;> simp_all
    · simp only [hff]
      exact ih
end
end

end I18nVerif.Foreign
