import I18nVerif.Spec.Subst
namespace I18nVerif.Foreign
open I18nVerif I18nVerif.Subst
/-! Helper lemmas for C06 -/
set_option linter.unusedSectionVars false
theorem countFor_litDec {t l c} (h : countFor t l = some (.ok c)) : litDec l = some c := by
  cases l <;> simp only [countFor, litDec] at h ⊢
  all_goals (try split at h) <;> (try split at h) <;> simp_all

theorem populate_ranges_inv {orc locale args ck t bs v'}
    (h : populate orc locale args (.ranges ck t bs) = .ok v') :
    (∃ k' bs', populateB orc locale args bs = .ok bs' ∧ v' = .ranges k' t bs' ∧
        ∀ ρ : Eval.Env, substCount ρ args ck = ρ.count k') ∨
    (∃ c, findValue orc locale args c bs = .ok v' ∧ isLitCount args = true ∧
        ∀ ρ : Eval.Env, substCount ρ args ck = c) := by
  simp only [populate] at h
  split at h
  · rename_i hg
    split at h <;> simp at h
    subst h
    exact .inl ⟨_, _, ‹_›, rfl, fun ρ => by simp [substCount, hg]⟩
  · rename_i ca hg
    split at h
    · rename_i l
      split at h <;> try (simp at h; done)
      rename_i c hc
      exact .inr ⟨c, h, by simp [isLitCount, hg], fun ρ => by simp [substCount, hg, countFor_litDec hc]⟩
    · rename_i vs
      split at h <;> try (simp at h; done)
      rename_i key hk
      split at h <;> simp at h
      subst h
      exact .inl ⟨_, _, ‹_›, rfl, fun ρ => by simp [substCount, hg, hk]⟩
    · rename_i key f
      split at h <;> simp at h
      subst h
      exact .inl ⟨_, _, ‹_›, rfl, fun ρ => by simp [substCount, hg]⟩
    · simp at h
theorem withKey_inv {rule : RuleTy} {k : Str} {a : Res PV} {b : Res (List (Form × PV))} {v' : PV}
    (h : (match a, b with
      | .ok o, .ok fs => Res.ok (PV.plurals rule k o fs)
      | .panic p, _ => .panic p
      | _, .panic p => .panic p
      | .err e, _ => .err e
      | _, .err e => .err e) = .ok v') :
    ∃ o fs, a = .ok o ∧ b = .ok fs ∧ v' = .plurals rule k o fs := by
  split at h <;> simp at h
  exact ⟨_, _, rfl, rfl, h.symm⟩

theorem populate_plurals_inv {orc locale args rule ck other forms v'}
    (h : populate orc locale args (.plurals rule ck other forms) = .ok v') :
    (∃ k' o fs, populate orc locale args other = .ok o ∧ populateF orc locale args forms = .ok fs ∧
        v' = .plurals rule k' o fs ∧ ∀ ρ : Eval.Env, substCount ρ args ck = ρ.count k') ∨
    (∃ l d f, litDec l = some d ∧ isLitCount args = true ∧ (∀ ρ : Eval.Env, substCount ρ args ck = d) ∧
        orc.cat locale rule (operandKey l) = some f ∧
        ((f = .other ∧ populate orc locale args other = .ok v') ∨
         (match selectForm orc locale args f forms with
            | some r => r
            | none => populate orc locale args other) = .ok v')) := by
  simp only [populate] at h
  split at h
  · rename_i hg
    obtain ⟨o, fs, h1, h2, rfl⟩ := withKey_inv h
    exact .inl ⟨_, o, fs, h1, h2, rfl, fun ρ => by simp [substCount, hg]⟩
  · rename_i ca hg
    split at h
    · simp at h
    · simp at h
    · rename_i l hns hnb
      split at h
      · simp at h
      · have hd : ∃ d, litDec l = some d := by
          cases l with
          | str s i => exact absurd rfl (hns s i)
          | bool b => exact absurd rfl (hnb b)
          | signed v => exact ⟨_, rfl⟩
          | unsigned v => exact ⟨_, rfl⟩
          | float d => exact ⟨_, rfl⟩
        obtain ⟨d, hd⟩ := hd
        split at h
        · simp at h
        · rename_i hc
          exact .inr ⟨l, d, _, hd, by simp [isLitCount, hg], fun ρ => by simp [substCount, hg, hd], hc, .inl ⟨rfl, h⟩⟩
        · rename_i f hno hc
          exact .inr ⟨l, d, f, hd, by simp [isLitCount, hg], fun ρ => by simp [substCount, hg, hd], hc, .inr h⟩
    · rename_i vs
      split at h <;> try (simp at h; done)
      rename_i key hk
      obtain ⟨o, fs, h1, h2, rfl⟩ := withKey_inv h
      exact .inl ⟨_, o, fs, h1, h2, rfl, fun ρ => by simp [substCount, hg, hk]⟩
    · obtain ⟨o, fs, h1, h2, rfl⟩ := withKey_inv h
      exact .inl ⟨_, o, fs, h1, h2, rfl, fun ρ => by simp [substCount, hg]⟩
    · simp at h

/-! ### `populate` is substitution -/

theorem eval_plurals (ρ : Eval.Env) (rule ck other forms) :
    Eval.eval ρ (.plurals rule ck other forms) =
      (Eval.evalForm ρ (ρ.cat rule (ρ.count ck)) forms).getD (Eval.eval ρ other) := by
  simp only [Eval.eval]; split <;> simp [*]

theorem eval_plurals_subst (ρ : Eval.Env) (args rule ck other forms) :
    Eval.eval (substEnv ρ args) (.plurals rule ck other forms) =
      (Eval.evalForm (substEnv ρ args) (ρ.cat rule (substCount ρ args ck)) forms).getD
        (Eval.eval (substEnv ρ args) other) := eval_plurals _ _ _ _ _

theorem eval_ranges_subst (ρ : Eval.Env) (args ck t bs) :
    Eval.eval (substEnv ρ args) (.ranges ck t bs) =
      Eval.evalBranches (substEnv ρ args) (substCount ρ args ck) bs := by
  simp only [Eval.eval]; rfl

section
set_option linter.unusedSectionVars false
variable (orc : Oracle) (locale : Str) (args : List (Str × PV)) (ρ : Eval.Env)
  (hO : OracleAgrees orc locale ρ)
include hO

mutual
theorem populate_subst : ∀ (v v' : PV), PluralsWf v = true →
    populate orc locale args v = .ok v' → Eval.eval ρ v' = Eval.eval (substEnv ρ args) v
  | .dflt, v', _, h => by
    simp only [populate, Res.ok.injEq] at h; subst h; simp [Eval.eval]
  | .lit l, v', _, h => by
    simp only [populate, Res.ok.injEq] at h; subst h; simp [Eval.eval]
  | .fk (.set inner), v', hw, h => by
    simp only [populate] at h
    simp only [PluralsWf] at hw
    rw [populate_subst inner v' hw h]; simp [Eval.eval]
  | .fk (.notSet p a), v', _, h => by
    simp only [populate, Res.ok.injEq] at h; subst h; simp [Eval.eval]
  | .var key f, v', _, h => by
    simp only [populate] at h
    split at h <;> simp only [Res.ok.injEq] at h <;> subst h <;> simp [Eval.eval, substEnv, *]
  | .comp key inner, v', hw, h => by
    simp only [populate] at h
    simp only [PluralsWf] at hw
    split at h <;> simp at h
    subst h
    rename_i i hi
    simp only [Eval.eval, populate_subst inner i hw hi]
    rfl
  | .bloc items, v', hw, h => by
    simp only [populate] at h
    simp only [PluralsWf] at hw
    split at h <;> simp at h
    subst h
    rename_i l hl
    simp only [Eval.eval, populateL_subst items l hw hl]
  | .subkeys _, v', _, h => by simp [populate] at h
  | .ranges ck t bs, v', hw, h => by
    simp only [PluralsWf] at hw
    rcases populate_ranges_inv h with ⟨k', bs', hb, rfl, hc⟩ | ⟨c, hf, _, hc⟩
    · rw [eval_ranges_subst, hc]
      simp only [Eval.eval]
      rw [populateB_subst bs bs' hw hb]
    · rw [eval_ranges_subst, hc]
      exact findValue_subst c bs v' hw hf
  | .plurals rule ck other forms, v', hw, h => by
    simp only [PluralsWf, Bool.and_eq_true] at hw
    rcases populate_plurals_inv h with ⟨k', o, fs, ho, hf, rfl, hc⟩ | ⟨l, d, f, hd, _, hc, hcat, hsel⟩
    · rw [eval_plurals_subst, eval_plurals, hc, populateF_subst forms fs hw.2 hf,
        populate_subst other o hw.1 ho]
    · have hf := hO rule l d f hd hcat
      rw [eval_plurals_subst, hc, ← hf]
      have hsf := selectForm_subst f forms hw.2
      rcases hsel with ⟨rfl, ho⟩ | hsel
      · rw [hsf.2.2 rfl, populate_subst other v' hw.1 ho]; rfl
      · split at hsel
        · rename_i r hr
          subst hsel
          rw [hsf.2.1 v' hr]; rfl
        · rename_i hr
          rw [hsf.1 hr, populate_subst other v' hw.1 hsel]; rfl
termination_by structural x => x

theorem populateL_subst : ∀ (l l' : List PV), PluralsWfL l = true →
    populateL orc locale args l = .ok l' → Eval.evalL ρ l' = Eval.evalL (substEnv ρ args) l
  | [], l', _, h => by
    simp only [populateL, Res.ok.injEq] at h; subst h; simp [Eval.evalL]
  | x :: xs, l', hw, h => by
    simp only [populateL] at h
    simp only [PluralsWfL, Bool.and_eq_true] at hw
    split at h <;> try (simp at h; done)
    rename_i x' hx
    split at h <;> simp at h
    rename_i xs' hxs
    subst h
    simp only [Eval.evalL, populate_subst x x' hw.1 hx, populateL_subst xs xs' hw.2 hxs]
termination_by structural x => x

theorem populateB_subst : ∀ (bs bs' : List (Range × PV)), PluralsWfB bs = true →
    populateB orc locale args bs = .ok bs' →
    ∀ {c}, Eval.evalBranches ρ c bs' = Eval.evalBranches (substEnv ρ args) c bs
  | [], l', _, h => by
    simp only [populateB, Res.ok.injEq] at h; subst h; simp [Eval.evalBranches]
  | (r, x) :: xs, l', hw, h => by
    simp only [populateB] at h
    simp only [PluralsWfB, Bool.and_eq_true] at hw
    split at h <;> try (simp at h; done)
    rename_i x' hx
    split at h <;> simp at h
    rename_i xs' hxs
    subst h
    simp only [Eval.evalBranches, populate_subst x x' hw.1 hx, populateB_subst xs xs' hw.2 hxs]
termination_by structural x => x

theorem populateF_subst : ∀ (fs fs' : List (Form × PV)), PluralsWfF fs = true →
    populateF orc locale args fs = .ok fs' →
    ∀ {f}, Eval.evalForm ρ f fs' = Eval.evalForm (substEnv ρ args) f fs
  | [], l', _, h => by
    simp only [populateF, Res.ok.injEq] at h; subst h; simp [Eval.evalForm]
  | (r, x) :: xs, l', hw, h => by
    simp only [populateF] at h
    simp only [PluralsWfF, Bool.and_eq_true] at hw
    split at h <;> try (simp at h; done)
    rename_i x' hx
    split at h <;> simp at h
    rename_i xs' hxs
    subst h
    simp only [Eval.evalForm, populate_subst x x' hw.1.2 hx, populateF_subst xs xs' hw.2 hxs]
termination_by structural x => x

theorem findValue_subst (c : Dec) : ∀ (bs : List (Range × PV)) (v' : PV), PluralsWfB bs = true →
    findValue orc locale args c bs = .ok v' →
    Eval.eval ρ v' = Eval.evalBranches (substEnv ρ args) c bs
  | [], v', _, h => by simp [findValue] at h
  | (r, x) :: xs, v', hw, h => by
    simp only [findValue] at h
    simp only [PluralsWfB, Bool.and_eq_true] at hw
    simp only [Eval.evalBranches]
    split at h
    · rename_i hm; rw [if_pos hm]; exact populate_subst x v' hw.1 h
    · rename_i hm; rw [if_neg hm]; exact findValue_subst c xs v' hw.2 h
termination_by structural x => x

theorem selectForm_subst (f : Form) : ∀ (fs : List (Form × PV)), PluralsWfF fs = true →
    (selectForm orc locale args f fs = none → Eval.evalForm (substEnv ρ args) f fs = none) ∧
    (∀ v', selectForm orc locale args f fs = some (.ok v') →
      Eval.evalForm (substEnv ρ args) f fs = some (Eval.eval ρ v')) ∧
    (f = .other → Eval.evalForm (substEnv ρ args) f fs = none)
  | [], _ => by simp [selectForm, Eval.evalForm]
  | (f', x) :: xs, hw => by
    simp only [PluralsWfF, Bool.and_eq_true] at hw
    have ih := selectForm_subst f xs hw.2
    simp only [selectForm, Eval.evalForm]
    by_cases hff : (f' == f) = true
    · simp only [hff, if_true]
      refine ⟨by simp, ?_, ?_⟩
      · intro v' hv
        simp only [Option.some.injEq] at hv
        rw [populate_subst x v' hw.1.2 hv]
      · intro hfo
        subst hfo
        have := hw.1.1
        cases f' <;> simp_all
    · simp only [hff]
      exact ih
termination_by structural x => x
end
end

/-! ### `populate` preserves `NoNotSet` -/

theorem NoNotSetK_get {args : List (Str × PV)} {k a} (h : NoNotSetK args = true)
    (hg : AMap.get? k args = some a) : NoNotSet a = true := by
  induction args with
  | nil => simp [AMap.get?] at hg
  | cons x xs ih =>
    obtain ⟨k', v⟩ := x
    simp only [NoNotSetK, Bool.and_eq_true] at h
    simp only [AMap.get?] at hg
    split at hg
    · simp only [Option.some.injEq] at hg; subst hg; exact h.1
    · exact ih h.2 hg

section
variable (orc : Oracle) (locale : Str) (args : List (Str × PV)) (hA : NoNotSetK args = true)
include hA

mutual
theorem populate_NoNotSet : ∀ (v v' : PV), NoNotSet v = true →
    populate orc locale args v = .ok v' → NoNotSet v' = true
  | .dflt, v', _, h => by
    simp only [populate, Res.ok.injEq] at h; subst h; simp [NoNotSet]
  | .lit l, v', _, h => by
    simp only [populate, Res.ok.injEq] at h; subst h; simp [NoNotSet]
  | .fk (.set inner), v', hw, h => by
    simp only [populate] at h
    simp only [NoNotSet] at hw
    exact populate_NoNotSet inner v' hw h
  | .fk (.notSet p a), v', hw, h => by
    simp only [populate, Res.ok.injEq] at h; subst h; exact hw
  | .var key f, v', _, h => by
    simp only [populate] at h
    split at h <;> simp only [Res.ok.injEq] at h <;> subst h
    · exact NoNotSetK_get hA ‹_›
    · simp [NoNotSet]
  | .comp key inner, v', hw, h => by
    simp only [populate] at h
    simp only [NoNotSet] at hw
    split at h <;> simp at h
    subst h
    rename_i i hi
    simp only [NoNotSet]
    exact populate_NoNotSet inner i hw hi
  | .bloc items, v', hw, h => by
    simp only [populate] at h
    simp only [NoNotSet] at hw
    split at h <;> simp at h
    subst h
    rename_i l hl
    simp only [NoNotSet]
    exact populateL_NoNotSet items l hw hl
  | .subkeys _, v', _, h => by simp [populate] at h
  | .ranges ck t bs, v', hw, h => by
    simp only [NoNotSet] at hw
    rcases populate_ranges_inv h with ⟨k', bs', hb, rfl, _⟩ | ⟨c, hf, _, _⟩
    · simp only [NoNotSet]
      exact populateB_NoNotSet bs bs' hw hb
    · exact findValue_NoNotSet c bs v' hw hf
  | .plurals rule ck other forms, v', hw, h => by
    simp only [NoNotSet, Bool.and_eq_true] at hw
    rcases populate_plurals_inv h with ⟨k', o, fs, ho, hf, rfl, _⟩ | ⟨l, d, f, _, _, _, _, hsel⟩
    · simp only [NoNotSet, Bool.and_eq_true]
      exact ⟨populate_NoNotSet other o hw.1 ho, populateF_NoNotSet forms fs hw.2 hf⟩
    · rcases hsel with ⟨_, ho⟩ | hsel
      · exact populate_NoNotSet other v' hw.1 ho
      · split at hsel
        · rename_i r hr
          subst hsel
          exact selectForm_NoNotSet f forms v' hw.2 hr
        · exact populate_NoNotSet other v' hw.1 hsel
termination_by structural x => x

theorem populateL_NoNotSet : ∀ (l l' : List PV), NoNotSetL l = true →
    populateL orc locale args l = .ok l' → NoNotSetL l' = true
  | [], l', _, h => by
    simp only [populateL, Res.ok.injEq] at h; subst h; simp [NoNotSetL]
  | x :: xs, l', hw, h => by
    simp only [populateL] at h
    simp only [NoNotSetL, Bool.and_eq_true] at hw
    split at h <;> try (simp at h; done)
    rename_i x' hx
    split at h <;> simp at h
    rename_i xs' hxs
    subst h
    simp only [NoNotSetL, Bool.and_eq_true]
    exact ⟨populate_NoNotSet x x' hw.1 hx, populateL_NoNotSet xs xs' hw.2 hxs⟩
termination_by structural x => x

theorem populateB_NoNotSet : ∀ (bs bs' : List (Range × PV)), NoNotSetB bs = true →
    populateB orc locale args bs = .ok bs' → NoNotSetB bs' = true
  | [], l', _, h => by
    simp only [populateB, Res.ok.injEq] at h; subst h; simp [NoNotSetB]
  | (r, x) :: xs, l', hw, h => by
    simp only [populateB] at h
    simp only [NoNotSetB, Bool.and_eq_true] at hw
    split at h <;> try (simp at h; done)
    rename_i x' hx
    split at h <;> simp at h
    rename_i xs' hxs
    subst h
    simp only [NoNotSetB, Bool.and_eq_true]
    exact ⟨populate_NoNotSet x x' hw.1 hx, populateB_NoNotSet xs xs' hw.2 hxs⟩
termination_by structural x => x

theorem populateF_NoNotSet : ∀ (fs fs' : List (Form × PV)), NoNotSetF fs = true →
    populateF orc locale args fs = .ok fs' → NoNotSetF fs' = true
  | [], l', _, h => by
    simp only [populateF, Res.ok.injEq] at h; subst h; simp [NoNotSetF]
  | (r, x) :: xs, l', hw, h => by
    simp only [populateF] at h
    simp only [NoNotSetF, Bool.and_eq_true] at hw
    split at h <;> try (simp at h; done)
    rename_i x' hx
    split at h <;> simp at h
    rename_i xs' hxs
    subst h
    simp only [NoNotSetF, Bool.and_eq_true]
    exact ⟨populate_NoNotSet x x' hw.1 hx, populateF_NoNotSet xs xs' hw.2 hxs⟩
termination_by structural x => x

theorem findValue_NoNotSet (c : Dec) : ∀ (bs : List (Range × PV)) (v' : PV), NoNotSetB bs = true →
    findValue orc locale args c bs = .ok v' → NoNotSet v' = true
  | [], v', _, h => by simp [findValue] at h
  | (r, x) :: xs, v', hw, h => by
    simp only [findValue] at h
    simp only [NoNotSetB, Bool.and_eq_true] at hw
    split at h
    · exact populate_NoNotSet x v' hw.1 h
    · exact findValue_NoNotSet c xs v' hw.2 h
termination_by structural x => x

theorem selectForm_NoNotSet (f : Form) : ∀ (fs : List (Form × PV)) (v' : PV), NoNotSetF fs = true →
    selectForm orc locale args f fs = some (.ok v') → NoNotSet v' = true
  | [], v', _, h => by simp [selectForm] at h
  | (f', x) :: xs, v', hw, h => by
    simp only [NoNotSetF, Bool.and_eq_true] at hw
    simp only [selectForm] at h
    split at h
    · simp only [Option.some.injEq] at h
      exact populate_NoNotSet x v' hw.1 h
    · exact selectForm_NoNotSet f xs v' hw.2 h
termination_by structural x => x
end
end

/-! ### `populate` preserves `PluralsWf` -/

theorem PluralsWfK_get {args : List (Str × PV)} {k a} (h : PluralsWfK args = true)
    (hg : AMap.get? k args = some a) : PluralsWf a = true := by
  induction args with
  | nil => simp [AMap.get?] at hg
  | cons x xs ih =>
    obtain ⟨k', v⟩ := x
    simp only [PluralsWfK, Bool.and_eq_true] at h
    simp only [AMap.get?] at hg
    split at hg
    · simp only [Option.some.injEq] at hg; subst hg; exact h.1
    · exact ih h.2 hg

section
variable (orc : Oracle) (locale : Str) (args : List (Str × PV)) (hA : PluralsWfK args = true)
include hA

mutual
theorem populate_PluralsWf : ∀ (v v' : PV), PluralsWf v = true →
    populate orc locale args v = .ok v' → PluralsWf v' = true
  | .dflt, v', _, h => by
    simp only [populate, Res.ok.injEq] at h; subst h; simp [PluralsWf]
  | .lit l, v', _, h => by
    simp only [populate, Res.ok.injEq] at h; subst h; simp [PluralsWf]
  | .fk (.set inner), v', hw, h => by
    simp only [populate] at h
    simp only [PluralsWf] at hw
    exact populate_PluralsWf inner v' hw h
  | .fk (.notSet p a), v', hw, h => by
    simp only [populate, Res.ok.injEq] at h; subst h; exact hw
  | .var key f, v', _, h => by
    simp only [populate] at h
    split at h <;> simp only [Res.ok.injEq] at h <;> subst h
    · exact PluralsWfK_get hA ‹_›
    · simp [PluralsWf]
  | .comp key inner, v', hw, h => by
    simp only [populate] at h
    simp only [PluralsWf] at hw
    split at h <;> simp at h
    subst h
    rename_i i hi
    simp only [PluralsWf]
    exact populate_PluralsWf inner i hw hi
  | .bloc items, v', hw, h => by
    simp only [populate] at h
    simp only [PluralsWf] at hw
    split at h <;> simp at h
    subst h
    rename_i l hl
    simp only [PluralsWf]
    exact populateL_PluralsWf items l hw hl
  | .subkeys _, v', _, h => by simp [populate] at h
  | .ranges ck t bs, v', hw, h => by
    simp only [PluralsWf] at hw
    rcases populate_ranges_inv h with ⟨k', bs', hb, rfl, _⟩ | ⟨c, hf, _, _⟩
    · simp only [PluralsWf]
      exact populateB_PluralsWf bs bs' hw hb
    · exact findValue_PluralsWf c bs v' hw hf
  | .plurals rule ck other forms, v', hw, h => by
    simp only [PluralsWf, Bool.and_eq_true] at hw
    rcases populate_plurals_inv h with ⟨k', o, fs, ho, hf, rfl, _⟩ | ⟨l, d, f, _, _, _, _, hsel⟩
    · simp only [PluralsWf, Bool.and_eq_true]
      exact ⟨populate_PluralsWf other o hw.1 ho, populateF_PluralsWf forms fs hw.2 hf⟩
    · rcases hsel with ⟨_, ho⟩ | hsel
      · exact populate_PluralsWf other v' hw.1 ho
      · split at hsel
        · rename_i r hr
          subst hsel
          exact selectForm_PluralsWf f forms v' hw.2 hr
        · exact populate_PluralsWf other v' hw.1 hsel
termination_by structural x => x

theorem populateL_PluralsWf : ∀ (l l' : List PV), PluralsWfL l = true →
    populateL orc locale args l = .ok l' → PluralsWfL l' = true
  | [], l', _, h => by
    simp only [populateL, Res.ok.injEq] at h; subst h; simp [PluralsWfL]
  | x :: xs, l', hw, h => by
    simp only [populateL] at h
    simp only [PluralsWfL, Bool.and_eq_true] at hw
    split at h <;> try (simp at h; done)
    rename_i x' hx
    split at h <;> simp at h
    rename_i xs' hxs
    subst h
    simp only [PluralsWfL, Bool.and_eq_true]
    exact ⟨populate_PluralsWf x x' hw.1 hx, populateL_PluralsWf xs xs' hw.2 hxs⟩
termination_by structural x => x

theorem populateB_PluralsWf : ∀ (bs bs' : List (Range × PV)), PluralsWfB bs = true →
    populateB orc locale args bs = .ok bs' → PluralsWfB bs' = true
  | [], l', _, h => by
    simp only [populateB, Res.ok.injEq] at h; subst h; simp [PluralsWfB]
  | (r, x) :: xs, l', hw, h => by
    simp only [populateB] at h
    simp only [PluralsWfB, Bool.and_eq_true] at hw
    split at h <;> try (simp at h; done)
    rename_i x' hx
    split at h <;> simp at h
    rename_i xs' hxs
    subst h
    simp only [PluralsWfB, Bool.and_eq_true]
    exact ⟨populate_PluralsWf x x' hw.1 hx, populateB_PluralsWf xs xs' hw.2 hxs⟩
termination_by structural x => x

theorem populateF_PluralsWf : ∀ (fs fs' : List (Form × PV)), PluralsWfF fs = true →
    populateF orc locale args fs = .ok fs' → PluralsWfF fs' = true
  | [], l', _, h => by
    simp only [populateF, Res.ok.injEq] at h; subst h; simp [PluralsWfF]
  | (r, x) :: xs, l', hw, h => by
    simp only [populateF] at h
    simp only [PluralsWfF, Bool.and_eq_true] at hw
    split at h <;> try (simp at h; done)
    rename_i x' hx
    split at h <;> simp at h
    rename_i xs' hxs
    subst h
    simp only [PluralsWfF, Bool.and_eq_true]
    exact ⟨⟨hw.1.1, populate_PluralsWf x x' hw.1.2 hx⟩, populateF_PluralsWf xs xs' hw.2 hxs⟩
termination_by structural x => x

theorem findValue_PluralsWf (c : Dec) : ∀ (bs : List (Range × PV)) (v' : PV), PluralsWfB bs = true →
    findValue orc locale args c bs = .ok v' → PluralsWf v' = true
  | [], v', _, h => by simp [findValue] at h
  | (r, x) :: xs, v', hw, h => by
    simp only [findValue] at h
    simp only [PluralsWfB, Bool.and_eq_true] at hw
    split at h
    · exact populate_PluralsWf x v' hw.1 h
    · exact findValue_PluralsWf c xs v' hw.2 h
termination_by structural x => x

theorem selectForm_PluralsWf (f : Form) : ∀ (fs : List (Form × PV)) (v' : PV), PluralsWfF fs = true →
    selectForm orc locale args f fs = some (.ok v') → PluralsWf v' = true
  | [], v', _, h => by simp [selectForm] at h
  | (f', x) :: xs, v', hw, h => by
    simp only [PluralsWfF, Bool.and_eq_true] at hw
    simp only [selectForm] at h
    split at h
    · simp only [Option.some.injEq] at h
      exact populate_PluralsWf x v' hw.1.2 h
    · exact selectForm_PluralsWf f xs v' hw.2 h
termination_by structural x => x
end
end

/-! ### subkey groups are rejected -/
section
variable (orc : Oracle) (locale : Str) (args : List (Str × PV))

mutual
theorem populate_hasSubkeys : ∀ (v v' : PV), HasSubkeys (isLitCount args) v = true →
    populate orc locale args v ≠ .ok v'
  | .dflt, v', hs, h => by simp [HasSubkeys] at hs
  | .lit l, v', hs, h => by simp [HasSubkeys] at hs
  | .var k f, v', hs, h => by simp [HasSubkeys] at hs
  | .fk (.notSet p a), v', hs, h => by simp [HasSubkeys] at hs
  | .subkeys _, v', _, h => by simp [populate] at h
  | .fk (.set inner), v', hs, h => by
    simp only [populate] at h
    simp only [HasSubkeys] at hs
    exact populate_hasSubkeys inner v' hs h
  | .comp key inner, v', hs, h => by
    simp only [populate] at h
    simp only [HasSubkeys] at hs
    split at h <;> simp at h
    rename_i i hi
    exact populate_hasSubkeys inner i hs hi
  | .bloc items, v', hs, h => by
    simp only [populate] at h
    simp only [HasSubkeys] at hs
    split at h <;> simp at h
    rename_i l hl
    exact populateL_hasSubkeys items l hs hl
  | .ranges ck t bs, v', hs, h => by
    simp only [HasSubkeys, Bool.and_eq_true, Bool.not_eq_true'] at hs
    rcases populate_ranges_inv h with ⟨k', bs', hb, _, _⟩ | ⟨c, _, hl, _⟩
    · exact populateB_hasSubkeys bs bs' hs.2 hb
    · rw [hl] at hs; simp at hs
  | .plurals rule ck other forms, v', hs, h => by
    simp only [HasSubkeys, Bool.and_eq_true, Bool.not_eq_true', Bool.or_eq_true] at hs
    rcases populate_plurals_inv h with ⟨k', o, fs, ho, hf, _, _⟩ | ⟨l, d, f, _, hl, _⟩
    · rcases hs.2 with h1 | h1
      · exact populate_hasSubkeys other o h1 ho
      · exact populateF_hasSubkeys forms fs h1 hf
    · rw [hl] at hs; simp at hs
termination_by structural x => x

theorem populateL_hasSubkeys : ∀ (l l' : List PV), HasSubkeysL (isLitCount args) l = true →
    populateL orc locale args l ≠ .ok l'
  | [], l', hs, h => by simp [HasSubkeysL] at hs
  | x :: xs, l', hs, h => by
    simp only [populateL] at h
    simp only [HasSubkeysL, Bool.or_eq_true] at hs
    split at h <;> try (simp at h; done)
    rename_i x' hx
    split at h <;> simp at h
    rename_i xs' hxs
    rcases hs with h1 | h1
    · exact populate_hasSubkeys x x' h1 hx
    · exact populateL_hasSubkeys xs xs' h1 hxs
termination_by structural x => x

theorem populateB_hasSubkeys : ∀ (l l' : List (Range × PV)), HasSubkeysB (isLitCount args) l = true →
    populateB orc locale args l ≠ .ok l'
  | [], l', hs, h => by simp [HasSubkeysB] at hs
  | (r, x) :: xs, l', hs, h => by
    simp only [populateB] at h
    simp only [HasSubkeysB, Bool.or_eq_true] at hs
    split at h <;> try (simp at h; done)
    rename_i x' hx
    split at h <;> simp at h
    rename_i xs' hxs
    rcases hs with h1 | h1
    · exact populate_hasSubkeys x x' h1 hx
    · exact populateB_hasSubkeys xs xs' h1 hxs
termination_by structural x => x

theorem populateF_hasSubkeys : ∀ (l l' : List (Form × PV)), HasSubkeysF (isLitCount args) l = true →
    populateF orc locale args l ≠ .ok l'
  | [], l', hs, h => by simp [HasSubkeysF] at hs
  | (r, x) :: xs, l', hs, h => by
    simp only [populateF] at h
    simp only [HasSubkeysF, Bool.or_eq_true] at hs
    split at h <;> try (simp at h; done)
    rename_i x' hx
    split at h <;> simp at h
    rename_i xs' hxs
    rcases hs with h1 | h1
    · exact populate_hasSubkeys x x' h1 hx
    · exact populateF_hasSubkeys xs xs' h1 hxs
termination_by structural x => x
end

/-! ### the only panic of `populate` -/

theorem countFor_not_panic (t : RangeTy) (l : Lit) (p : String) : countFor t l ≠ some (.panic p) := by
  cases l <;> simp only [countFor] <;> (try split) <;> (try split) <;> simp

theorem findVariable_not_panic (vs : List PV) (p : String) : findVariable vs ≠ .panic p := by
  simp only [findVariable]
  split
  · split <;> simp
  · simp


theorem withKey_panic {rule : RuleTy} {k : Str} {a : Res PV} {b : Res (List (Form × PV))} {p : String}
    (h : (match a, b with
      | .ok o, .ok fs => Res.ok (PV.plurals rule k o fs)
      | .panic p, _ => .panic p
      | _, .panic p => .panic p
      | .err e, _ => .err e
      | _, .err e => .err e) = .panic p) :
    a = .panic p ∨ b = .panic p := by
  split at h <;> simp at h
  · subst h; exact .inl rfl
  · subst h; exact .inr rfl

mutual
theorem populate_panic : ∀ (v : PV) (p : String),
    populate orc locale args v = .panic p → PanicWitness orc locale args p
  | .dflt, p, h => by simp [populate] at h
  | .lit l, p, h => by simp [populate] at h
  | .var k f, p, h => by simp only [populate] at h; split at h <;> simp at h
  | .fk (.notSet _ _), p, h => by simp [populate] at h
  | .subkeys _, p, h => by simp [populate] at h
  | .fk (.set inner), p, h => by
    simp only [populate] at h
    exact populate_panic inner p h
  | .comp key inner, p, h => by
    simp only [populate] at h
    split at h <;> simp at h
    subst h
    exact populate_panic inner _ ‹_›
  | .bloc items, p, h => by
    simp only [populate] at h
    split at h <;> simp at h
    subst h
    exact populateL_panic items _ ‹_›
  | .ranges ck t bs, p, h => by
    simp only [populate] at h
    split at h
    · split at h <;> simp at h
      subst h
      exact populateB_panic bs _ ‹_›
    · split at h
      · rename_i l
        split at h <;> try (simp at h; done)
        · rename_i p' hc
          exact absurd hc (countFor_not_panic _ _ _)
        · exact findValue_panic _ bs p h
      · split at h <;> try (simp at h; done)
        · rename_i hfv; exact absurd hfv (findVariable_not_panic _ _)
        · split at h <;> simp at h
          subst h
          exact populateB_panic bs _ ‹_›
      · split at h <;> simp at h
        subst h
        exact populateB_panic bs _ ‹_›
      · simp at h
  | .plurals rule ck other forms, p, h => by
    simp only [populate] at h
    have hwk : ∀ k, (match populate orc locale args other, populateF orc locale args forms with
      | .ok o, .ok fs => Res.ok (PV.plurals rule k o fs)
      | .panic p, _ => .panic p
      | _, .panic p => .panic p
      | .err e, _ => .err e
      | _, .err e => .err e) = .panic p → PanicWitness orc locale args p := by
      intro k hk
      rcases withKey_panic hk with h1 | h1
      · exact populate_panic other p h1
      · exact populateF_panic forms p h1
    split at h
    · exact hwk _ h
    · rename_i ca hg
      split at h
      · simp at h
      · simp at h
      · rename_i l hns hnb
        split at h
        · simp at h
        · rename_i cs hcs
          split at h
          · rename_i hcat
            simp only [Res.panic.injEq] at h
            have hd : ∃ d, litDec l = some d := by
              cases l with
              | str s i => exact absurd rfl (hns s i)
              | bool b => exact absurd rfl (hnb b)
              | signed v => exact ⟨_, rfl⟩
              | unsigned v => exact ⟨_, rfl⟩
              | float d => exact ⟨_, rfl⟩
            obtain ⟨d, hd⟩ := hd
            exact ⟨h.symm, l, d, rule, hg, hd, by simp [hcs], hcat⟩
          · exact populate_panic other p h
          · split at h
            · rename_i r hr
              subst h
              exact selectForm_panic _ forms p hr
            · exact populate_panic other p h
      · split at h <;> try (simp at h; done)
        · exact hwk _ h
        · rename_i hfv; exact absurd hfv (findVariable_not_panic _ _)
      · exact hwk _ h
      · simp at h
termination_by structural x => x

theorem populateL_panic : ∀ (l : List PV) (p : String),
    populateL orc locale args l = .panic p → PanicWitness orc locale args p
  | [], p, h => by simp [populateL] at h
  | x :: xs, p, h => by
    simp only [populateL] at h
    split at h <;> try (simp at h; done)
    · simp only [Res.panic.injEq] at h; subst h
      exact populate_panic x _ ‹_›
    · split at h <;> simp at h
      subst h
      exact populateL_panic xs _ ‹_›
termination_by structural x => x

theorem populateB_panic : ∀ (l : List (Range × PV)) (p : String),
    populateB orc locale args l = .panic p → PanicWitness orc locale args p
  | [], p, h => by simp [populateB] at h
  | (r, x) :: xs, p, h => by
    simp only [populateB] at h
    split at h <;> try (simp at h; done)
    · simp only [Res.panic.injEq] at h; subst h
      exact populate_panic x _ ‹_›
    · split at h <;> simp at h
      subst h
      exact populateB_panic xs _ ‹_›
termination_by structural x => x

theorem populateF_panic : ∀ (l : List (Form × PV)) (p : String),
    populateF orc locale args l = .panic p → PanicWitness orc locale args p
  | [], p, h => by simp [populateF] at h
  | (r, x) :: xs, p, h => by
    simp only [populateF] at h
    split at h <;> try (simp at h; done)
    · simp only [Res.panic.injEq] at h; subst h
      exact populate_panic x _ ‹_›
    · split at h <;> simp at h
      subst h
      exact populateF_panic xs _ ‹_›
termination_by structural x => x

theorem findValue_panic (c : Dec) : ∀ (l : List (Range × PV)) (p : String),
    findValue orc locale args c l = .panic p → PanicWitness orc locale args p
  | [], p, h => by simp [findValue] at h
  | (r, x) :: xs, p, h => by
    simp only [findValue] at h
    split at h
    · exact populate_panic x p h
    · exact findValue_panic c xs p h
termination_by structural x => x

theorem selectForm_panic (f : Form) : ∀ (l : List (Form × PV)) (p : String),
    selectForm orc locale args f l = some (.panic p) → PanicWitness orc locale args p
  | [], p, h => by simp [selectForm] at h
  | (r, x) :: xs, p, h => by
    simp only [selectForm] at h
    split at h
    · simp only [Option.some.injEq] at h
      exact populate_panic x p h
    · exact selectForm_panic f xs p h
termination_by structural x => x
end
end

/-! ### the fallback walk `findDefining` (repaired `resolve_foreign_key_inner`, F11/F20) -/

/-- the fallback walk only reads the world: what it returns is the value stored at `(src, target)`,
    and that value is not an explicit `null` -/
theorem findDefining_ok_stored (w : World) (fb : Fallbacks) : ∀ (fuel : Nat) (vis : List Str) (cur : Str)
    (t : KeyPath) (src : Str) (v : PV), findDefining w fb fuel vis cur t = .ok (src, v) →
      w.getValueAt src t = .ok (some v) ∧ v ≠ .dflt
  | 0, vis, cur, t, src, v, h => by simp [findDefining] at h
  | fuel + 1, vis, cur, t, src, v, h => by
    rw [findDefining] at h
    split at h
    · simp at h
    · simp at h
    · split at h
      · simp at h
      · exact findDefining_ok_stored w fb fuel _ _ t src v h
    · rename_i v0 hne hval
      simp only [Res.ok.injEq, Prod.mk.injEq] at h
      obtain ⟨rfl, rfl⟩ := h
      exact ⟨hval, fun e => hne e⟩
    · split at h
      · simp at h
      · exact findDefining_ok_stored w fb fuel _ _ t src v h

/-- the locale of the reference defines the target: the walk stops at once -/
theorem findDefining_here (w : World) (fb : Fallbacks) (fuel : Nat) (vis : List Str) (cur : Str) (t : KeyPath)
    {v : PV} (h : w.getValueAt cur t = .ok (some v)) (hnd : v ≠ .dflt) :
    findDefining w fb (fuel + 1) vis cur t = .ok (cur, v) := by
  rw [findDefining, h]
  split
  · rename_i heq; simp at heq
  · rename_i heq; simp at heq
  · rename_i heq; simp at heq; exact absurd heq hnd
  · rename_i v' _ heq
    simp only [Res.ok.injEq, Option.some.injEq] at heq
    subst heq; rfl
  · rename_i heq; simp at heq

/-- "does not define": absent or an explicit `null` -/
def Undef (w : World) (cur : Str) (t : KeyPath) : Prop :=
  w.getValueAt cur t = .ok none ∨ w.getValueAt cur t = .ok (some .dflt)

/-- a locale (other than the default one) that does not define the target: one step of the walk -/
theorem findDefining_step (w : World) (fb : Fallbacks) (fuel : Nat) (vis : List Str) (cur : Str) (t : KeyPath)
    (hu : Undef w cur t) (hd : (cur == fb.default) = false) :
    findDefining w fb (fuel + 1) vis cur t =
      findDefining w fb fuel (cur :: vis) (nextLocale fb (cur :: vis) cur) t := by
  rw [findDefining]
  rcases hu with h | h <;> rw [h] <;> simp [hd]

/-- at the default locale, not defined: the two errors -/
theorem findDefining_default_none (w : World) (fb : Fallbacks) (fuel : Nat) (vis : List Str) (cur : Str)
    (t : KeyPath) (h : w.getValueAt cur t = .ok none) (hd : (cur == fb.default) = true) :
    findDefining w fb (fuel + 1) vis cur t = .err "MissingForeignKey" := by
  rw [findDefining, h]; simp [hd]

theorem findDefining_default_null (w : World) (fb : Fallbacks) (fuel : Nat) (vis : List Str) (cur : Str)
    (t : KeyPath) (h : w.getValueAt cur t = .ok (some .dflt)) (hd : (cur == fb.default) = true) :
    findDefining w fb (fuel + 1) vis cur t = .err "ExplicitDefaultInDefault" := by
  rw [findDefining, h]; simp [hd]

/-- errors and panics of `getValueAt` pass through -/
theorem findDefining_get_err (w : World) (fb : Fallbacks) (fuel : Nat) (vis : List Str) (cur : Str)
    (t : KeyPath) {e : String} (h : w.getValueAt cur t = .err e) :
    findDefining w fb (fuel + 1) vis cur t = .err e := by
  rw [findDefining, h]

theorem findDefining_get_panic (w : World) (fb : Fallbacks) (fuel : Nat) (vis : List Str) (cur : Str)
    (t : KeyPath) {p : String} (h : w.getValueAt cur t = .panic p) :
    findDefining w fb (fuel + 1) vis cur t = .panic p := by
  rw [findDefining, h]

/-- every outcome of `getValueAt`, as a case split usable in proofs about the walk -/
theorem getValueAt_trichotomy (w : World) (cur : Str) (t : KeyPath) :
    (∃ e, w.getValueAt cur t = .err e) ∨ (∃ p, w.getValueAt cur t = .panic p) ∨ Undef w cur t ∨
      (∃ v, w.getValueAt cur t = .ok (some v) ∧ v ≠ .dflt) := by
  cases h : w.getValueAt cur t with
  | err e => exact .inl ⟨e, rfl⟩
  | panic p => exact .inr (.inl ⟨p, rfl⟩)
  | ok o =>
    cases o with
    | none => exact .inr (.inr (.inl (.inl h)))
    | some v =>
      by_cases hv : v = .dflt
      · subst hv; exact .inr (.inr (.inl (.inr h)))
      · exact .inr (.inr (.inr ⟨v, rfl, hv⟩))

/-- at the default locale the walk always stops (any positive fuel) -/
theorem findDefining_default_stops (w : World) (fb : Fallbacks) (fuel : Nat) (vis : List Str) (cur : Str)
    (t : KeyPath) (hd : (cur == fb.default) = true) :
    findDefining w fb (fuel + 1) vis cur t = .err "MissingForeignKey" ∨
    findDefining w fb (fuel + 1) vis cur t = .err "ExplicitDefaultInDefault" ∨
    (∃ e, w.getValueAt cur t = .err e ∧ findDefining w fb (fuel + 1) vis cur t = .err e) ∨
    (∃ p, w.getValueAt cur t = .panic p ∧ findDefining w fb (fuel + 1) vis cur t = .panic p) ∨
    (∃ v, w.getValueAt cur t = .ok (some v) ∧ v ≠ .dflt ∧ findDefining w fb (fuel + 1) vis cur t = .ok (cur, v)) := by
  rcases getValueAt_trichotomy w cur t with ⟨e, h⟩ | ⟨p, h⟩ | (h | h) | ⟨v, h, hv⟩
  · exact .inr (.inr (.inl ⟨e, h, findDefining_get_err w fb fuel vis cur t h⟩))
  · exact .inr (.inr (.inr (.inl ⟨p, h, findDefining_get_panic w fb fuel vis cur t h⟩)))
  · exact .inl (findDefining_default_none w fb fuel vis cur t h hd)
  · exact .inr (.inl (findDefining_default_null w fb fuel vis cur t h hd))
  · exact .inr (.inr (.inr (.inr ⟨v, h, hv, findDefining_here w fb fuel vis cur t h hv⟩)))

/-- more fuel does not change a result that is not the fuel panic -/
theorem findDefining_mono_step (w : World) (fb : Fallbacks) (t : KeyPath) : ∀ (fuel : Nat) (vis : List Str) (cur : Str),
    FuelLe (findDefining w fb fuel vis cur t) (findDefining w fb (fuel + 1) vis cur t)
  | 0, vis, cur => .inl (by simp only [findDefining])
  | fuel + 1, vis, cur => by
    rcases getValueAt_trichotomy w cur t with ⟨e, h⟩ | ⟨p, h⟩ | h | ⟨v, h, hv⟩
    · rw [findDefining_get_err w fb _ vis cur t h, findDefining_get_err w fb _ vis cur t h]; exact .inr rfl
    · rw [findDefining_get_panic w fb _ vis cur t h, findDefining_get_panic w fb _ vis cur t h]; exact .inr rfl
    · cases hd : cur == fb.default with
      | false =>
        rw [findDefining_step w fb _ vis cur t h hd, findDefining_step w fb _ vis cur t h hd]
        exact findDefining_mono_step w fb t fuel _ _
      | true =>
        rcases h with h | h
        · rw [findDefining_default_none w fb _ vis cur t h hd, findDefining_default_none w fb _ vis cur t h hd]
          exact .inr rfl
        · rw [findDefining_default_null w fb _ vis cur t h hd, findDefining_default_null w fb _ vis cur t h hd]
          exact .inr rfl
    · rw [findDefining_here w fb _ vis cur t h hv, findDefining_here w fb _ vis cur t h hv]; exact .inr rfl

/-! ### resolution leaves no unresolved foreign key -/

def ResolveNoNotSet (orc : Oracle) (w : World) (dflt : Fallbacks) (fuel : Nat) : Prop :=
  (∀ visiting phys top v v', SetClosed v = true →
    resolvePV orc w dflt fuel visiting phys top v = .ok v' → NoNotSet v' = true) ∧
  (∀ visiting phys top target args v', SetClosedK args = true →
    resolveNode orc w dflt fuel visiting phys top target args = .ok v' → NoNotSet v' = true) ∧
  (∀ visiting phys top l l', SetClosedL l = true →
    resolveL orc w dflt fuel visiting phys top l = .ok l' → NoNotSetL l' = true) ∧
  (∀ visiting phys top l l', SetClosedB l = true →
    resolveB orc w dflt fuel visiting phys top l = .ok l' → NoNotSetB l' = true) ∧
  (∀ visiting phys top l l', SetClosedF l = true →
    resolveF orc w dflt fuel visiting phys top l = .ok l' → NoNotSetF l' = true) ∧
  (∀ visiting phys top l l', SetClosedK l = true →
    resolveArgs orc w dflt fuel visiting phys top l = .ok l' → NoNotSetK l' = true)

theorem resolve_noNotSet (orc : Oracle) (w : World) (dflt : Fallbacks) (hW : WorldClosed w) :
    ∀ fuel, ResolveNoNotSet orc w dflt fuel := by
  intro fuel
  induction fuel with
  | zero =>
    refine ⟨?_, ?_, ?_, ?_, ?_, ?_⟩ <;> intros <;> simp_all [resolvePV, resolveNode, resolveL, resolveB, resolveF, resolveArgs]
  | succ fuel ih =>
    obtain ⟨ihPV, ihNode, ihL, ihB, ihF, ihA⟩ := ih
    refine ⟨?_, ?_, ?_, ?_, ?_, ?_⟩
    · intro visiting phys top v v' hc h
      cases v with
      | dflt => simp only [resolvePV, Res.ok.injEq] at h; subst h; rfl
      | lit l => simp only [resolvePV, Res.ok.injEq] at h; subst h; rfl
      | var k f => simp only [resolvePV, Res.ok.injEq] at h; subst h; rfl
      | subkeys l => simp only [resolvePV, Res.ok.injEq] at h; subst h; simpa [SetClosed] using hc
      | fk f =>
        cases f with
        | set i => simp only [resolvePV, Res.ok.injEq] at h; subst h; simpa [SetClosed, NoNotSet] using hc
        | notSet p a =>
          simp only [resolvePV] at h
          simp only [SetClosed] at hc
          exact ihNode _ _ _ _ _ _ hc h
      | comp k i =>
        simp only [resolvePV] at h
        simp only [SetClosed] at hc
        split at h <;> simp at h
        subst h
        simp only [NoNotSet]
        exact ihPV _ _ _ _ _ hc ‹_›
      | bloc l =>
        simp only [resolvePV] at h
        simp only [SetClosed] at hc
        split at h <;> simp at h
        subst h
        simp only [NoNotSet]
        exact ihL _ _ _ _ _ hc ‹_›
      | ranges ck t bs =>
        simp only [resolvePV] at h
        simp only [SetClosed] at hc
        split at h <;> simp at h
        subst h
        simp only [NoNotSet]
        exact ihB _ _ _ _ _ hc ‹_›
      | plurals r ck o fs =>
        simp only [resolvePV] at h
        simp only [SetClosed, Bool.and_eq_true] at hc
        split at h <;> try (simp at h; done)
        rename_i fs' hfs
        split at h <;> simp at h
        rename_i o' ho
        subst h
        simp only [NoNotSet, Bool.and_eq_true]
        exact ⟨ihPV _ _ _ _ _ hc.1 ho, ihF _ _ _ _ _ hc.2 hfs⟩
    · intro visiting phys top target args v' hc h
      simp only [resolveNode] at h
      split at h <;> try (simp at h; done)
      · rename_i src value hfd
        obtain ⟨hval, hnd⟩ := findDefining_ok_stored _ _ _ _ _ _ _ _ hfd
        split at h
        · simp at h
        · split at h <;> try (simp at h; done)
          rename_i value' hv'
          split at h <;> try (simp at h; done)
          rename_i args' ha'
          split at h <;> simp at h
          rename_i pv hp
          subst h
          simp only [NoNotSet]
          rcases hW _ _ _ hval with ⟨l, rfl⟩ | hcl
          · -- a subkey group is returned unchanged and then rejected by `populate`
            cases fuel with
            | zero => simp [resolvePV] at hv'
            | succ m =>
              simp only [resolvePV, Res.ok.injEq] at hv'
              subst hv'
              simp [populate] at hp
          have h1 := ihPV _ _ _ _ _ hcl hv'
          have h2 := ihA _ _ _ _ _ hc ha'
          exact populate_NoNotSet orc top args' h2 value' pv h1 hp
    · intro visiting phys top l l' hc h
      cases l with
      | nil => simp only [resolveL, Res.ok.injEq] at h; subst h; rfl
      | cons x xs =>
        simp only [resolveL] at h
        simp only [SetClosedL, Bool.and_eq_true] at hc
        split at h <;> try (simp at h; done)
        rename_i x' hx
        split at h <;> simp at h
        rename_i xs' hxs
        subst h
        simp only [NoNotSetL, Bool.and_eq_true]
        exact ⟨ihPV _ _ _ _ _ hc.1 hx, ihL _ _ _ _ _ hc.2 hxs⟩
    · intro visiting phys top l l' hc h
      cases l with
      | nil => simp only [resolveB, Res.ok.injEq] at h; subst h; rfl
      | cons x xs =>
        obtain ⟨r, x⟩ := x
        simp only [resolveB] at h
        simp only [SetClosedB, Bool.and_eq_true] at hc
        split at h <;> try (simp at h; done)
        rename_i x' hx
        split at h <;> simp at h
        rename_i xs' hxs
        subst h
        simp only [NoNotSetB, Bool.and_eq_true]
        exact ⟨ihPV _ _ _ _ _ hc.1 hx, ihB _ _ _ _ _ hc.2 hxs⟩
    · intro visiting phys top l l' hc h
      cases l with
      | nil => simp only [resolveF, Res.ok.injEq] at h; subst h; rfl
      | cons x xs =>
        obtain ⟨r, x⟩ := x
        simp only [resolveF] at h
        simp only [SetClosedF, Bool.and_eq_true] at hc
        split at h <;> try (simp at h; done)
        rename_i x' hx
        split at h <;> simp at h
        rename_i xs' hxs
        subst h
        simp only [NoNotSetF, Bool.and_eq_true]
        exact ⟨ihPV _ _ _ _ _ hc.1 hx, ihF _ _ _ _ _ hc.2 hxs⟩
    · intro visiting phys top l l' hc h
      cases l with
      | nil => simp only [resolveArgs, Res.ok.injEq] at h; subst h; rfl
      | cons x xs =>
        obtain ⟨r, x⟩ := x
        simp only [resolveArgs] at h
        simp only [SetClosedK, Bool.and_eq_true] at hc
        split at h <;> try (simp at h; done)
        rename_i x' hx
        split at h <;> simp at h
        rename_i xs' hxs
        subst h
        simp only [NoNotSetK, Bool.and_eq_true]
        exact ⟨ihPV _ _ _ _ _ hc.1 hx, ihA _ _ _ _ _ hc.2 hxs⟩

/-! ### fuel monotonicity -/

theorem FuelLe.refl {α : Type} (r : Res α) : FuelLe r r := .inr rfl

/-- `match a with | ok i => ok (g i) | err e => err e | panic p => panic p` -/
def mapOk {α β : Type} (g : α → β) : Res α → Res β
  | .ok i => .ok (g i)
  | .err e => .err e
  | .panic p => .panic p

/-- two calls in sequence, results combined -/
def seq2 {α β γ : Type} (g : α → β → γ) (a : Res α) (b : Res β) : Res γ :=
  match a with
  | .err e => .err e
  | .panic p => .panic p
  | .ok x =>
    match b with
    | .ok y => .ok (g x y)
    | .err e => .err e
    | .panic p => .panic p

theorem FuelLe.map1 {α β : Type} {a a' : Res α} (g : α → β) (h : FuelLe a a') :
    FuelLe (mapOk g a) (mapOk g a') := by
  rcases h with h | h
  · subst h; exact .inl rfl
  · subst h; exact .inr rfl

theorem FuelLe.map2 {α β γ : Type} {a a' : Res α} {b b' : Res β} (g : α → β → γ)
    (ha : FuelLe a a') (hb : FuelLe b b') : FuelLe (seq2 g a b) (seq2 g a' b') := by
  rcases ha with ha | ha
  · subst ha; exact .inl rfl
  · subst ha
    cases a' with
    | err e => exact .inr rfl
    | panic p => exact .inr rfl
    | ok x =>
      rcases hb with hb | hb
      · subst hb; exact .inl rfl
      · subst hb; exact .inr rfl


section unfold
variable (orc : Oracle) (w : World) (dflt : Fallbacks) (n : Nat) (vis : List KeyId) (phys : KeyId) (top : Str)

theorem resolvePV_comp (k : Str) (i : PV) :
    resolvePV orc w dflt (n + 1) vis phys top (.comp k i) =
      mapOk (PV.comp k) (resolvePV orc w dflt n vis phys top i) := by
  simp only [resolvePV]; cases resolvePV orc w dflt n vis phys top i <;> rfl
theorem resolvePV_bloc (l : List PV) :
    resolvePV orc w dflt (n + 1) vis phys top (.bloc l) =
      mapOk PV.bloc (resolveL orc w dflt n vis phys top l) := by
  simp only [resolvePV]; cases resolveL orc w dflt n vis phys top l <;> rfl
theorem resolvePV_ranges (ck : Str) (t : RangeTy) (bs : List (Range × PV)) :
    resolvePV orc w dflt (n + 1) vis phys top (.ranges ck t bs) =
      mapOk (PV.ranges ck t) (resolveB orc w dflt n vis phys top bs) := by
  simp only [resolvePV]; cases resolveB orc w dflt n vis phys top bs <;> rfl
theorem resolvePV_plurals (r : RuleTy) (ck : Str) (o : PV) (fs : List (Form × PV)) :
    resolvePV orc w dflt (n + 1) vis phys top (.plurals r ck o fs) =
      seq2 (fun fs o => PV.plurals r ck o fs) (resolveF orc w dflt n vis phys top fs)
        (resolvePV orc w dflt n vis phys top o) := by
  simp only [resolvePV]
  cases resolveF orc w dflt n vis phys top fs <;> try rfl
  cases resolvePV orc w dflt n vis phys top o <;> rfl
theorem resolvePV_notSet (target : KeyPath) (args : List (Str × PV)) :
    resolvePV orc w dflt (n + 1) vis phys top (.fk (.notSet target args)) =
      resolveNode orc w dflt n vis phys top target args := by simp only [resolvePV]
theorem resolveL_cons (x : PV) (xs : List PV) :
    resolveL orc w dflt (n + 1) vis phys top (x :: xs) =
      seq2 (fun x' xs' => x' :: xs') (resolvePV orc w dflt n vis phys top x)
        (resolveL orc w dflt n vis phys top xs) := by
  simp only [resolveL]
  cases resolvePV orc w dflt n vis phys top x <;> try rfl
  cases resolveL orc w dflt n vis phys top xs <;> rfl
theorem resolveB_cons (r : Range) (x : PV) (xs : List (Range × PV)) :
    resolveB orc w dflt (n + 1) vis phys top ((r, x) :: xs) =
      seq2 (fun x' xs' => (r, x') :: xs') (resolvePV orc w dflt n vis phys top x)
        (resolveB orc w dflt n vis phys top xs) := by
  simp only [resolveB]
  cases resolvePV orc w dflt n vis phys top x <;> try rfl
  cases resolveB orc w dflt n vis phys top xs <;> rfl
theorem resolveF_cons (r : Form) (x : PV) (xs : List (Form × PV)) :
    resolveF orc w dflt (n + 1) vis phys top ((r, x) :: xs) =
      seq2 (fun x' xs' => (r, x') :: xs') (resolvePV orc w dflt n vis phys top x)
        (resolveF orc w dflt n vis phys top xs) := by
  simp only [resolveF]
  cases resolvePV orc w dflt n vis phys top x <;> try rfl
  cases resolveF orc w dflt n vis phys top xs <;> rfl
theorem resolveArgs_cons (r : Str) (x : PV) (xs : List (Str × PV)) :
    resolveArgs orc w dflt (n + 1) vis phys top ((r, x) :: xs) =
      seq2 (fun x' xs' => (r, x') :: xs') (resolvePV orc w dflt n vis phys top x)
        (resolveArgs orc w dflt n vis phys top xs) := by
  simp only [resolveArgs]
  cases resolvePV orc w dflt n vis phys top x <;> try rfl
  cases resolveArgs orc w dflt n vis phys top xs <;> rfl
theorem resolveNode_succ (target : KeyPath) (args : List (Str × PV)) :
    resolveNode orc w dflt (n + 1) vis phys top target args =
      match findDefining w dflt (dflt.inherits.length + 2) [] top target with
      | .err e => .err e
      | .panic p => .panic p
      | .ok (src, value) =>
        if (phys :: vis).contains (src, target) then .err "RecursiveForeignKey" else
        match resolvePV orc w dflt n (phys :: vis) (src, target) src value with
        | .err e => .err e
        | .panic p => .panic p
        | .ok value' =>
          match resolveArgs orc w dflt n (phys :: vis) phys top args with
          | .err e => .err e
          | .panic p => .panic p
          | .ok args' =>
            match populate orc top args' value' with
            | .ok v => .ok (.fk (.set v))
            | .err e => .err e
            | .panic p => .panic p := by simp only [resolveNode]; rfl
end unfold

def ResolveMono (orc : Oracle) (w : World) (dflt : Fallbacks) (fuel : Nat) : Prop :=
  (∀ visiting phys top v,
    FuelLe (resolvePV orc w dflt fuel visiting phys top v) (resolvePV orc w dflt (fuel + 1) visiting phys top v)) ∧
  (∀ visiting phys top target args,
    FuelLe (resolveNode orc w dflt fuel visiting phys top target args)
      (resolveNode orc w dflt (fuel + 1) visiting phys top target args)) ∧
  (∀ visiting phys top l,
    FuelLe (resolveL orc w dflt fuel visiting phys top l) (resolveL orc w dflt (fuel + 1) visiting phys top l)) ∧
  (∀ visiting phys top l,
    FuelLe (resolveB orc w dflt fuel visiting phys top l) (resolveB orc w dflt (fuel + 1) visiting phys top l)) ∧
  (∀ visiting phys top l,
    FuelLe (resolveF orc w dflt fuel visiting phys top l) (resolveF orc w dflt (fuel + 1) visiting phys top l)) ∧
  (∀ visiting phys top l,
    FuelLe (resolveArgs orc w dflt fuel visiting phys top l) (resolveArgs orc w dflt (fuel + 1) visiting phys top l))

theorem resolve_mono_step (orc : Oracle) (w : World) (dflt : Fallbacks) :
    ∀ fuel, ResolveMono orc w dflt fuel := by
  intro fuel
  induction fuel with
  | zero =>
    refine ⟨?_, ?_, ?_, ?_, ?_, ?_⟩ <;> intros <;> left <;>
      simp only [resolvePV, resolveNode, resolveL, resolveB, resolveF, resolveArgs]
  | succ fuel ih =>
    obtain ⟨ihPV, ihNode, ihL, ihB, ihF, ihA⟩ := ih
    refine ⟨?_, ?_, ?_, ?_, ?_, ?_⟩
    · intro visiting phys top v
      cases v with
      | dflt => exact .inr (by simp only [resolvePV])
      | lit l => exact .inr (by simp only [resolvePV])
      | var k f => exact .inr (by simp only [resolvePV])
      | subkeys l => exact .inr (by simp only [resolvePV])
      | fk f =>
        cases f with
        | set i => exact .inr (by simp only [resolvePV])
        | notSet p a =>
          rw [resolvePV_notSet, resolvePV_notSet]
          exact ihNode _ _ _ _ _
      | comp k i =>
        rw [resolvePV_comp, resolvePV_comp]
        exact FuelLe.map1 _ (ihPV _ _ _ _)
      | bloc l =>
        rw [resolvePV_bloc, resolvePV_bloc]
        exact FuelLe.map1 _ (ihL _ _ _ _)
      | ranges ck t bs =>
        rw [resolvePV_ranges, resolvePV_ranges]
        exact FuelLe.map1 _ (ihB _ _ _ _)
      | plurals r ck o fs =>
        rw [resolvePV_plurals, resolvePV_plurals]
        exact FuelLe.map2 _ (ihF _ _ _ _) (ihPV _ _ _ _)
    · intro visiting phys top target args
      rw [resolveNode_succ, resolveNode_succ]
      split
      · exact .inr rfl
      · exact .inr rfl
      · split
        · exact .inr rfl
        · rename_i src value _ _
          have h1 := ihPV (phys :: visiting) (src, target) src value
          have h2 := ihA (phys :: visiting) phys top args
          rcases h1 with h1 | h1
          · rw [h1]; exact .inl rfl
          · rw [h1]
            cases resolvePV orc w dflt fuel (phys :: visiting) (src, target) src value with
            | err e => exact .inr rfl
            | panic p => exact .inr rfl
            | ok value' =>
              rcases h2 with h2 | h2
              · rw [h2]; exact .inl rfl
              · rw [h2]; exact .inr rfl
    · intro visiting phys top l
      cases l with
      | nil => exact .inr (by simp only [resolveL])
      | cons x xs =>
        rw [resolveL_cons, resolveL_cons]
        exact FuelLe.map2 _ (ihPV _ _ _ _) (ihL _ _ _ _)
    · intro visiting phys top l
      cases l with
      | nil => exact .inr (by simp only [resolveB])
      | cons x xs =>
        obtain ⟨r, x⟩ := x
        rw [resolveB_cons, resolveB_cons]
        exact FuelLe.map2 _ (ihPV _ _ _ _) (ihB _ _ _ _)
    · intro visiting phys top l
      cases l with
      | nil => exact .inr (by simp only [resolveF])
      | cons x xs =>
        obtain ⟨r, x⟩ := x
        rw [resolveF_cons, resolveF_cons]
        exact FuelLe.map2 _ (ihPV _ _ _ _) (ihF _ _ _ _)
    · intro visiting phys top l
      cases l with
      | nil => exact .inr (by simp only [resolveArgs])
      | cons x xs =>
        obtain ⟨r, x⟩ := x
        rw [resolveArgs_cons, resolveArgs_cons]
        exact FuelLe.map2 _ (ihPV _ _ _ _) (ihA _ _ _ _)

theorem FuelLe.trans {α : Type} {a b c : Res α} (h1 : FuelLe a b) (h2 : FuelLe b c) : FuelLe a c := by
  rcases h1 with h1 | h1
  · exact .inl h1
  · rcases h2 with h2 | h2
    · exact .inl (by rw [← h1, h2])
    · exact .inr (by rw [h2, h1])

theorem resolvePV_mono (orc : Oracle) (w : World) (dflt : Fallbacks) (visiting phys top v) :
    ∀ {fuel fuel'}, fuel ≤ fuel' →
    FuelLe (resolvePV orc w dflt fuel visiting phys top v) (resolvePV orc w dflt fuel' visiting phys top v) := by
  intro fuel fuel' h
  induction h with
  | refl => exact FuelLe.refl _
  | step _ ih => exact FuelLe.trans ih ((resolve_mono_step orc w dflt _).1 _ _ _ _)

theorem resolveNode_mono (orc : Oracle) (w : World) (dflt : Fallbacks) (visiting phys top target args) :
    ∀ {fuel fuel'}, fuel ≤ fuel' →
    FuelLe (resolveNode orc w dflt fuel visiting phys top target args)
      (resolveNode orc w dflt fuel' visiting phys top target args) := by
  intro fuel fuel' h
  induction h with
  | refl => exact FuelLe.refl _
  | step _ ih => exact FuelLe.trans ih ((resolve_mono_step orc w dflt _).2.1 _ _ _ _ _)

/-! ### NoNotSet implies SetClosed -/
mutual
theorem NoNotSet_SetClosed : ∀ v : PV, NoNotSet v = true → SetClosed v = true
  | .dflt, _ => rfl
  | .lit _, _ => rfl
  | .var _ _, _ => rfl
  | .subkeys _, h => by simpa [SetClosed] using h
  | .fk (.set i), h => by simpa [SetClosed, NoNotSet] using h
  | .fk (.notSet _ _), h => by simp [NoNotSet] at h
  | .comp _ i, h => by
    simp only [NoNotSet] at h; simp only [SetClosed]; exact NoNotSet_SetClosed i h
  | .bloc l, h => by
    simp only [NoNotSet] at h; simp only [SetClosed]; exact NoNotSetL_SetClosed l h
  | .ranges _ _ bs, h => by
    simp only [NoNotSet] at h; simp only [SetClosed]; exact NoNotSetB_SetClosed bs h
  | .plurals _ _ o fs, h => by
    simp only [NoNotSet, Bool.and_eq_true] at h; simp only [SetClosed, Bool.and_eq_true]
    exact ⟨NoNotSet_SetClosed o h.1, NoNotSetF_SetClosed fs h.2⟩
theorem NoNotSetL_SetClosed : ∀ l : List PV, NoNotSetL l = true → SetClosedL l = true
  | [], _ => rfl
  | x :: xs, h => by
    simp only [NoNotSetL, Bool.and_eq_true] at h; simp only [SetClosedL, Bool.and_eq_true]
    exact ⟨NoNotSet_SetClosed x h.1, NoNotSetL_SetClosed xs h.2⟩
theorem NoNotSetB_SetClosed : ∀ l : List (Range × PV), NoNotSetB l = true → SetClosedB l = true
  | [], _ => rfl
  | (_, x) :: xs, h => by
    simp only [NoNotSetB, Bool.and_eq_true] at h; simp only [SetClosedB, Bool.and_eq_true]
    exact ⟨NoNotSet_SetClosed x h.1, NoNotSetB_SetClosed xs h.2⟩
theorem NoNotSetF_SetClosed : ∀ l : List (Form × PV), NoNotSetF l = true → SetClosedF l = true
  | [], _ => rfl
  | (_, x) :: xs, h => by
    simp only [NoNotSetF, Bool.and_eq_true] at h; simp only [SetClosedF, Bool.and_eq_true]
    exact ⟨NoNotSet_SetClosed x h.1, NoNotSetF_SetClosed xs h.2⟩
end

/-! ### resolving a resolved value is the identity -/
section
variable (orc : Oracle) (w : World) (dflt : Fallbacks) (vis : List KeyId) (phys : KeyId) (top : Str)
mutual
theorem resolvePV_id : ∀ (v : PV) (fuel : Nat), NoNotSet v = true → fuelNeed v ≤ fuel →
    resolvePV orc w dflt fuel vis phys top v = .ok v
  | .dflt, fuel + 1, _, _ => by simp only [resolvePV]
  | .lit _, fuel + 1, _, _ => by simp only [resolvePV]
  | .var _ _, fuel + 1, _, _ => by simp only [resolvePV]
  | .subkeys _, fuel + 1, _, _ => by simp only [resolvePV]
  | .fk (.set _), fuel + 1, _, _ => by simp only [resolvePV]
  | .fk (.notSet _ _), _, h, _ => by simp [NoNotSet] at h
  | .comp k i, fuel + 1, h, hf => by
    simp only [NoNotSet] at h; simp only [fuelNeed] at hf
    rw [resolvePV_comp, resolvePV_id i fuel h (by omega)]; rfl
  | .bloc l, fuel + 1, h, hf => by
    simp only [NoNotSet] at h; simp only [fuelNeed] at hf
    rw [resolvePV_bloc, resolveL_id l fuel h (by omega)]; rfl
  | .ranges ck t bs, fuel + 1, h, hf => by
    simp only [NoNotSet] at h; simp only [fuelNeed] at hf
    rw [resolvePV_ranges, resolveB_id bs fuel h (by omega)]; rfl
  | .plurals r ck o fs, fuel + 1, h, hf => by
    simp only [NoNotSet, Bool.and_eq_true] at h; simp only [fuelNeed] at hf
    rw [resolvePV_plurals, resolveF_id fs fuel h.2 (by omega), resolvePV_id o fuel h.1 (by omega)]; rfl
  | .dflt, 0, _, hf => by simp [fuelNeed] at hf
  | .lit _, 0, _, hf => by simp [fuelNeed] at hf
  | .var _ _, 0, _, hf => by simp [fuelNeed] at hf
  | .subkeys _, 0, _, hf => by simp [fuelNeed] at hf
  | .fk (.set _), 0, _, hf => by simp [fuelNeed] at hf
  | .comp _ _, 0, _, hf => by simp [fuelNeed] at hf
  | .bloc _, 0, _, hf => by simp [fuelNeed] at hf
  | .ranges _ _ _, 0, _, hf => by simp [fuelNeed] at hf
  | .plurals _ _ _ _, 0, _, hf => by simp [fuelNeed] at hf
termination_by structural x => x
theorem resolveL_id : ∀ (l : List PV) (fuel : Nat), NoNotSetL l = true → fuelNeedL l ≤ fuel →
    resolveL orc w dflt fuel vis phys top l = .ok l
  | [], fuel + 1, _, _ => by simp only [resolveL]
  | [], 0, _, hf => by simp [fuelNeedL] at hf
  | _ :: _, 0, _, hf => by simp [fuelNeedL] at hf
  | x :: xs, fuel + 1, h, hf => by
    simp only [NoNotSetL, Bool.and_eq_true] at h; simp only [fuelNeedL] at hf
    rw [resolveL_cons, resolvePV_id x fuel h.1 (by omega), resolveL_id xs fuel h.2 (by omega)]; rfl
termination_by structural x => x
theorem resolveB_id : ∀ (l : List (Range × PV)) (fuel : Nat), NoNotSetB l = true → fuelNeedB l ≤ fuel →
    resolveB orc w dflt fuel vis phys top l = .ok l
  | [], fuel + 1, _, _ => by simp only [resolveB]
  | [], 0, _, hf => by simp [fuelNeedB] at hf
  | _ :: _, 0, _, hf => by simp [fuelNeedB] at hf
  | (r, x) :: xs, fuel + 1, h, hf => by
    simp only [NoNotSetB, Bool.and_eq_true] at h; simp only [fuelNeedB] at hf
    rw [resolveB_cons, resolvePV_id x fuel h.1 (by omega), resolveB_id xs fuel h.2 (by omega)]; rfl
termination_by structural x => x
theorem resolveF_id : ∀ (l : List (Form × PV)) (fuel : Nat), NoNotSetF l = true → fuelNeedF l ≤ fuel →
    resolveF orc w dflt fuel vis phys top l = .ok l
  | [], fuel + 1, _, _ => by simp only [resolveF]
  | [], 0, _, hf => by simp [fuelNeedF] at hf
  | _ :: _, 0, _, hf => by simp [fuelNeedF] at hf
  | (r, x) :: xs, fuel + 1, h, hf => by
    simp only [NoNotSetF, Bool.and_eq_true] at h; simp only [fuelNeedF] at hf
    rw [resolveF_cons, resolvePV_id x fuel h.1 (by omega), resolveF_id xs fuel h.2 (by omega)]; rfl
termination_by structural x => x
end
end

/-! ### node-level facts -/

section node
variable (orc : Oracle) (w : World) (dflt : Fallbacks) (fuel : Nat) (vis : List KeyId) (phys : KeyId) (top : Str)
  (target : KeyPath) (args : List (Str × PV))

/-- the fallback walk made by a node (the fuel `resolveNode` gives it) -/
abbrev nodeWalk (w : World) (dflt : Fallbacks) (top : Str) (target : KeyPath) : Res (Str × PV) :=
  findDefining w dflt (dflt.inherits.length + 2) [] top target

/-- the walk ends in an error (`MissingForeignKey` / `ExplicitDefaultInDefault` at the default locale): so does the node -/
theorem resolveNode_walk_err {e : String} (h : nodeWalk w dflt top target = .err e) :
    resolveNode orc w dflt (fuel + 1) vis phys top target args = .err e := by
  rw [resolveNode_succ, show findDefining w dflt (dflt.inherits.length + 2) [] top target = _ from h]

theorem resolveNode_walk_panic {p : String} (h : nodeWalk w dflt top target = .panic p) :
    resolveNode orc w dflt (fuel + 1) vis phys top target args = .panic p := by
  rw [resolveNode_succ, show findDefining w dflt (dflt.inherits.length + 2) [] top target = _ from h]

/-- the walk stops at `top` itself when `top` defines the target -/
theorem nodeWalk_here {value : PV} (h : w.getValueAt top target = .ok (some value)) (hnd : value ≠ .dflt) :
    nodeWalk w dflt top target = .ok (top, value) :=
  findDefining_here w dflt _ [] top target h hnd

/-- the default locale itself does not have the target: `MissingForeignKey` -/
theorem resolveNode_missing (h : w.getValueAt top target = .ok none) (hd : (top == dflt.default) = true) :
    resolveNode orc w dflt (fuel + 1) vis phys top target args = .err "MissingForeignKey" :=
  resolveNode_walk_err orc w dflt fuel vis phys top target args
    (findDefining_default_none w dflt _ [] top target h hd)

/-- cycle guard, in terms of the walk: the key found by the walk is being resolved -/
theorem resolveNode_recursive_walk {src : Str} {value : PV} (h : nodeWalk w dflt top target = .ok (src, value))
    (hin : (src, target) ∈ phys :: vis) :
    resolveNode orc w dflt (fuel + 1) vis phys top target args = .err "RecursiveForeignKey" := by
  rw [resolveNode_succ, show findDefining w dflt (dflt.inherits.length + 2) [] top target = _ from h]
  have hc : (phys :: vis).contains (src, target) = true := by simpa using hin
  simp only [hc, if_true]

theorem resolveNode_recursive {value : PV} (h : w.getValueAt top target = .ok (some value))
    (hnd : value ≠ .dflt) (hin : (top, target) ∈ phys :: vis) :
    resolveNode orc w dflt (fuel + 1) vis phys top target args = .err "RecursiveForeignKey" :=
  resolveNode_recursive_walk orc w dflt fuel vis phys top target args (nodeWalk_here w dflt top target h hnd) hin

theorem resolveNode_ok_eq_walk {src : Str} {value value' v : PV} {args' : List (Str × PV)}
    (h : nodeWalk w dflt top target = .ok (src, value))
    (hin : (phys :: vis).contains (src, target) = false)
    (hv : resolvePV orc w dflt fuel (phys :: vis) (src, target) src value = .ok value')
    (ha : resolveArgs orc w dflt fuel (phys :: vis) phys top args = .ok args')
    (hp : populate orc top args' value' = .ok v) :
    resolveNode orc w dflt (fuel + 1) vis phys top target args = .ok (.fk (.set v)) := by
  rw [resolveNode_succ, show findDefining w dflt (dflt.inherits.length + 2) [] top target = _ from h]
  simp only [hin, Bool.false_eq_true, if_false, hv, ha, hp]

theorem resolveNode_ok_eq {value value' v : PV} {args' : List (Str × PV)}
    (h : w.getValueAt top target = .ok (some value)) (hnd : value ≠ .dflt)
    (hin : (phys :: vis).contains (top, target) = false)
    (hv : resolvePV orc w dflt fuel (phys :: vis) (top, target) top value = .ok value')
    (ha : resolveArgs orc w dflt fuel (phys :: vis) phys top args = .ok args')
    (hp : populate orc top args' value' = .ok v) :
    resolveNode orc w dflt (fuel + 1) vis phys top target args = .ok (.fk (.set v)) :=
  resolveNode_ok_eq_walk orc w dflt fuel vis phys top target args (nodeWalk_here w dflt top target h hnd) hin hv ha hp

/-- what a successful node resolution is made of (`src`, `value`: what the fallback walk found) -/
theorem resolveNode_ok_inv_walk {r : PV}
    (hr : resolveNode orc w dflt (fuel + 1) vis phys top target args = .ok r) :
    ∃ src value value' args' v, nodeWalk w dflt top target = .ok (src, value) ∧
      (src, target) ∉ phys :: vis ∧
      resolvePV orc w dflt fuel (phys :: vis) (src, target) src value = .ok value' ∧
      resolveArgs orc w dflt fuel (phys :: vis) phys top args = .ok args' ∧
      populate orc top args' value' = .ok v ∧ r = .fk (.set v) := by
  rw [resolveNode_succ] at hr
  split at hr
  · simp at hr
  · simp at hr
  · rename_i src value hfd
    split at hr
    · simp at hr
    · rename_i hc
      split at hr <;> try (simp at hr; done)
      rename_i value' hv
      split at hr <;> try (simp at hr; done)
      rename_i args' ha
      split at hr <;> simp at hr
      rename_i pv hp
      exact ⟨src, value, value', args', pv, hfd, by simpa using hc, hv, ha, hp, hr.symm⟩

/-- the same when the locale of the reference defines the target -/
theorem resolveNode_ok_inv {value r : PV}
    (h : w.getValueAt top target = .ok (some value)) (hnd : value ≠ .dflt)
    (hr : resolveNode orc w dflt (fuel + 1) vis phys top target args = .ok r) :
    ∃ value' args' v, (top, target) ∉ phys :: vis ∧
      resolvePV orc w dflt fuel (phys :: vis) (top, target) top value = .ok value' ∧
      resolveArgs orc w dflt fuel (phys :: vis) phys top args = .ok args' ∧
      populate orc top args' value' = .ok v ∧ r = .fk (.set v) := by
  obtain ⟨src, value0, value', args', v, hfd, hin, hv, ha, hp, hr⟩ :=
    resolveNode_ok_inv_walk orc w dflt fuel vis phys top target args hr
  rw [nodeWalk_here w dflt top target h hnd] at hfd
  simp only [Res.ok.injEq, Prod.mk.injEq] at hfd
  obtain ⟨rfl, rfl⟩ := hfd
  exact ⟨value', args', v, hin, hv, ha, hp, hr⟩
end node

theorem resolveArgs_id (orc : Oracle) (w : World) (dflt : Fallbacks) (vis : List KeyId) (phys : KeyId) (top : Str) :
    ∀ (l : List (Str × PV)) (fuel : Nat), NoNotSetK l = true → fuelNeedK l ≤ fuel →
    resolveArgs orc w dflt fuel vis phys top l = .ok l
  | [], fuel + 1, _, _ => by simp only [resolveArgs]
  | [], 0, _, hf => by simp [fuelNeedK] at hf
  | _ :: _, 0, _, hf => by simp [fuelNeedK] at hf
  | (r, x) :: xs, fuel + 1, h, hf => by
    simp only [NoNotSetK, Bool.and_eq_true] at h; simp only [fuelNeedK] at hf
    rw [resolveArgs_cons, resolvePV_id orc w dflt vis phys top x fuel h.1 (by omega),
      resolveArgs_id orc w dflt vis phys top xs fuel h.2 (by omega)]; rfl

theorem getValueAt_flat (name t : Str) (keys : List (Str × PV)) (ss : List Str) (c : Nat) (k : Str) :
    World.getValueAt ⟨false, [⟨none, [Loc.mk name t keys ss c]⟩]⟩ name ⟨none, [k]⟩ = .ok (AMap.get? k keys) := by
  simp [World.getValueAt, Loc.name, World.locGet, Loc.keys]


/-! ### `WorldClosed` for flat worlds -/

theorem locGet_noNotSet : ∀ (path : List Str) (keys : List (Str × PV)) (value : PV),
    NoNotSetK keys = true → World.locGet keys path = .ok (some value) → NoNotSet value = true
  | [], keys, value, _, h => by simp [World.locGet] at h
  | [k], keys, value, hk, h => by
    simp only [World.locGet, Res.ok.injEq] at h
    exact NoNotSetK_get hk h
  | k :: k2 :: rest, keys, value, hk, h => by
    rw [World.locGet] at h
    · split at h
      · simp at h
      · rename_i l hg
        have h1 := NoNotSetK_get hk hg
        obtain ⟨n, t, ks, s, c⟩ := l
        simp only [NoNotSet] at h1
        exact locGet_noNotSet (k2 :: rest) ks value h1 h
      · simp at h
      · simp at h
    · simp

theorem locGet_closed (keys : List (Str × PV))
    (hk : ∀ k v, AMap.get? k keys = some v → (∃ l, v = .subkeys l) ∨ SetClosed v = true)
    (hs : ∀ k l, AMap.get? k keys = some (.subkeys l) → NoNotSet (.subkeys l) = true) :
    ∀ path value, World.locGet keys path = .ok (some value) →
      (∃ l, value = .subkeys l) ∨ SetClosed value = true := by
  intro path value h
  match path with
  | [] => simp [World.locGet] at h
  | [k] =>
    simp only [World.locGet, Res.ok.injEq] at h
    exact hk k value h
  | k :: k2 :: rest =>
    rw [World.locGet] at h
    · split at h
      · simp at h
      · rename_i l hg
        have h1 := hs k _ hg
        obtain ⟨n, t, ks, s, c⟩ := l
        simp only [NoNotSet] at h1
        exact .inr (NoNotSet_SetClosed _ (locGet_noNotSet (k2 :: rest) ks value h1 h))
      · simp at h
      · simp at h
    · simp

/-- a one-namespace, one-locale world is `WorldClosed` as soon as its top-level values are -/
theorem worldClosed_flat (name t : Str) (keys : List (Str × PV)) (ss : List Str) (c : Nat)
    (hk : ∀ k v, AMap.get? k keys = some v → (∃ l, v = .subkeys l) ∨ SetClosed v = true)
    (hs : ∀ k l, AMap.get? k keys = some (.subkeys l) → NoNotSet (.subkeys l) = true) :
    WorldClosed ⟨false, [⟨none, [Loc.mk name t keys ss c]⟩]⟩ := by
  intro top target value h
  simp only [World.getValueAt] at h
  split at h
  · simp at h
  · simp at h
  · simp only [List.find?] at h
    split at h
    · rename_i l hl
      split at hl
      · simp only [Option.some.injEq] at hl
        subst hl
        exact locGet_closed keys hk hs _ _ h
      · simp at hl
    · simp at h
  · rename_i heq; simp at heq

/-! ### successful results do not depend on `visiting` -/

theorem mapOk_ok {α β : Type} {g : α → β} {a : Res α} {r : β} (h : mapOk g a = .ok r) :
    ∃ x, a = .ok x ∧ r = g x := by
  cases a with
  | ok x => exact ⟨x, rfl, by simpa [mapOk] using h.symm⟩
  | err e => simp [mapOk] at h
  | panic p => simp [mapOk] at h

theorem seq2_ok {α β γ : Type} {g : α → β → γ} {a : Res α} {b : Res β} {r : γ}
    (h : seq2 g a b = .ok r) : ∃ x y, a = .ok x ∧ b = .ok y ∧ r = g x y := by
  cases a with
  | err e => simp [seq2] at h
  | panic p => simp [seq2] at h
  | ok x =>
    cases b with
    | err e => simp [seq2] at h
    | panic p => simp [seq2] at h
    | ok y => exact ⟨x, y, rfl, rfl, by simpa [seq2] using h.symm⟩

/-- successful results do not depend on the keys "in progress": a smaller `visiting` list gives the same -/
def ResolveVis (orc : Oracle) (w : World) (dflt : Fallbacks) (fuel : Nat) : Prop :=
  (∀ V V' phys top v v', (∀ x ∈ V', x ∈ V) →
    resolvePV orc w dflt fuel V phys top v = .ok v' → resolvePV orc w dflt fuel V' phys top v = .ok v') ∧
  (∀ V V' phys top target args v', (∀ x ∈ V', x ∈ V) →
    resolveNode orc w dflt fuel V phys top target args = .ok v' →
    resolveNode orc w dflt fuel V' phys top target args = .ok v') ∧
  (∀ V V' phys top l l', (∀ x ∈ V', x ∈ V) →
    resolveL orc w dflt fuel V phys top l = .ok l' → resolveL orc w dflt fuel V' phys top l = .ok l') ∧
  (∀ V V' phys top l l', (∀ x ∈ V', x ∈ V) →
    resolveB orc w dflt fuel V phys top l = .ok l' → resolveB orc w dflt fuel V' phys top l = .ok l') ∧
  (∀ V V' phys top l l', (∀ x ∈ V', x ∈ V) →
    resolveF orc w dflt fuel V phys top l = .ok l' → resolveF orc w dflt fuel V' phys top l = .ok l') ∧
  (∀ V V' phys top l l', (∀ x ∈ V', x ∈ V) →
    resolveArgs orc w dflt fuel V phys top l = .ok l' → resolveArgs orc w dflt fuel V' phys top l = .ok l')

theorem resolve_vis (orc : Oracle) (w : World) (dflt : Fallbacks) : ∀ fuel, ResolveVis orc w dflt fuel := by
  intro fuel
  induction fuel with
  | zero =>
    refine ⟨?_, ?_, ?_, ?_, ?_, ?_⟩ <;> intros <;>
      simp_all [resolvePV, resolveNode, resolveL, resolveB, resolveF, resolveArgs]
  | succ fuel ih =>
    obtain ⟨ihPV, ihNode, ihL, ihB, ihF, ihA⟩ := ih
    refine ⟨?_, ?_, ?_, ?_, ?_, ?_⟩
    · intro V V' phys top v v' hs h
      cases v with
      | dflt => simpa only [resolvePV] using h
      | lit l => simpa only [resolvePV] using h
      | var k f => simpa only [resolvePV] using h
      | subkeys l => simpa only [resolvePV] using h
      | fk f =>
        cases f with
        | set i => simpa only [resolvePV] using h
        | notSet p a =>
          rw [resolvePV_notSet] at h ⊢
          exact ihNode _ _ _ _ _ _ _ hs h
      | comp k i =>
        rw [resolvePV_comp] at h ⊢
        obtain ⟨x, hx, rfl⟩ := mapOk_ok h
        rw [ihPV _ _ _ _ _ _ hs hx]; rfl
      | bloc l =>
        rw [resolvePV_bloc] at h ⊢
        obtain ⟨x, hx, rfl⟩ := mapOk_ok h
        rw [ihL _ _ _ _ _ _ hs hx]; rfl
      | ranges ck t bs =>
        rw [resolvePV_ranges] at h ⊢
        obtain ⟨x, hx, rfl⟩ := mapOk_ok h
        rw [ihB _ _ _ _ _ _ hs hx]; rfl
      | plurals r ck o fs =>
        rw [resolvePV_plurals] at h ⊢
        obtain ⟨x, y, hx, hy, rfl⟩ := seq2_ok h
        rw [ihF _ _ _ _ _ _ hs hx, ihPV _ _ _ _ _ _ hs hy]; rfl
    · intro V V' phys top target args v' hs h
      rw [resolveNode_succ] at h ⊢
      have hs' : ∀ x ∈ phys :: V', x ∈ phys :: V := by
        intro x hx
        rcases List.mem_cons.mp hx with rfl | hx
        · exact List.mem_cons_self
        · exact List.mem_cons_of_mem _ (hs x hx)
      split <;> rename_i hget <;> rw [hget] at h <;> simp only at h
      · exact h
      · exact h
      · rename_i src value
        split at h
        · simp at h
        · rename_i hc
          have hc' : ¬ (phys :: V').contains (src, target) = true := by
            intro hcon
            apply hc
            have := List.contains_iff_mem.mp hcon
            exact List.contains_iff_mem.mpr (hs' _ this)
          rw [if_neg hc']
          split at h <;> try (simp at h; done)
          rename_i value' hv
          split at h <;> try (simp at h; done)
          rename_i args' ha
          rw [ihPV _ _ _ _ _ _ hs' hv, ihA _ _ _ _ _ _ hs' ha]
          exact h
    · intro V V' phys top l l' hs h
      cases l with
      | nil => simpa only [resolveL] using h
      | cons x xs =>
        rw [resolveL_cons] at h ⊢
        obtain ⟨a, b, ha, hb, rfl⟩ := seq2_ok h
        rw [ihPV _ _ _ _ _ _ hs ha, ihL _ _ _ _ _ _ hs hb]; rfl
    · intro V V' phys top l l' hs h
      cases l with
      | nil => simpa only [resolveB] using h
      | cons x xs =>
        obtain ⟨r, x⟩ := x
        rw [resolveB_cons] at h ⊢
        obtain ⟨a, b, ha, hb, rfl⟩ := seq2_ok h
        rw [ihPV _ _ _ _ _ _ hs ha, ihB _ _ _ _ _ _ hs hb]; rfl
    · intro V V' phys top l l' hs h
      cases l with
      | nil => simpa only [resolveF] using h
      | cons x xs =>
        obtain ⟨r, x⟩ := x
        rw [resolveF_cons] at h ⊢
        obtain ⟨a, b, ha, hb, rfl⟩ := seq2_ok h
        rw [ihPV _ _ _ _ _ _ hs ha, ihF _ _ _ _ _ _ hs hb]; rfl
    · intro V V' phys top l l' hs h
      cases l with
      | nil => simpa only [resolveArgs] using h
      | cons x xs =>
        obtain ⟨r, x⟩ := x
        rw [resolveArgs_cons] at h ⊢
        obtain ⟨a, b, ha, hb, rfl⟩ := seq2_ok h
        rw [ihPV _ _ _ _ _ _ hs ha, ihA _ _ _ _ _ _ hs hb]; rfl

end I18nVerif.Foreign
