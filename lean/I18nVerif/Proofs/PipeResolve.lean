import I18nVerif.Proofs.PipeWorld
import I18nVerif.Proofs.PipeResolveV
/-!
Stage 3 of the whole-pipeline no-panic theorem (C09): `Foreign.resolveAll`.

Invariant `InvG w C`: the world is well formed, every key map is sorted, every leaf is `Flat`,
`SetClosed`, and has no unresolved foreign key unless its position is *covered* (`C`) by a
registered path that is still to be processed.
-/
namespace I18nVerif.PipeInv
open I18nVerif World Foreign Subst

/-- what is known about a leaf during resolution -/
def MidLeaf (C : Str → Option Str → List Str → Prop) (name : Str) (nsk : Option Str) : List Str → PV → Prop :=
  fun q x => Flat x = true ∧ SetClosed x = true ∧ (NoNotSet x = true ∨ C name nsk q)

structure InvG (w : World) (C : Str → Option Str → List Str → Prop) : Prop where
  wf : WorldWF w
  sorted : ∀ ns ∈ w.nss, ∀ l ∈ ns.locales, SortedTree l.keys
  tree : ∀ ns ∈ w.nss, ∀ l ∈ ns.locales, TreeK (MidLeaf C l.name ns.key) [] l.keys

theorem InvG.mono {w : World} {C C' : Str → Option Str → List Str → Prop} (h : InvG w C)
    (hC : ∀ name nsk q, C name nsk q → C' name nsk q) : InvG w C' :=
  ⟨h.wf, h.sorted, fun ns hns l hl =>
    treeK_mono _ _ (fun k ext x hp => ⟨hp.1, hp.2.1, hp.2.2.imp id (hC _ _ _)⟩) (h.tree ns hns l hl)⟩

theorem InvG.np {w : World} {C} (h : InvG w C) : WorldNP w := by
  intro top t s
  rcases getValueAt_cases h.wf top t with h0 | ⟨ns, hns, l, hl, _, _, he⟩
  · rw [h0]; simp
  · rw [he]; exact treeK_locGet_np _ _ _ _ (h.tree ns hns l hl)

theorem InvG.get {w : World} {C} (h : InvG w C) {top : Str} {p : KeyPath} {v : PV}
    (hg : w.getValueAt top p = .ok (some v)) :
    ∃ ns ∈ w.nss, ∃ l ∈ ns.locales, ns.key = p.ns ∧ l.name = top ∧ locGet l.keys p.path = .ok (some v) ∧
      TreeV (MidLeaf C top p.ns) p.path v := by
  rcases getValueAt_cases h.wf top p with h0 | ⟨ns, hns, l, hl, hk, hn, he⟩
  · rw [h0] at hg; simp at hg
  · rw [he] at hg
    refine ⟨ns, hns, l, hl, hk, hn, hg, ?_⟩
    have := treeK_get _ _ _ _ (h.tree ns hns l hl) hg
    rw [hk, hn] at this
    simpa using this

theorem isGroup_true {v : PV} (h : isGroup v = true) : ∃ o, v = .subkeys o := by
  cases v <;> simp_all [isGroup]

theorem InvG.flat {w : World} {C} (h : InvG w C) : WorldFlat w := by
  intro top t v hg
  obtain ⟨_, _, _, _, _, _, _, htv⟩ := h.get hg
  rcases treeV_cases htv with ⟨_, hp⟩ | ⟨n, t', ks, s, c, rfl, _⟩
  · exact .inr hp.1
  · exact .inl rfl

theorem InvG.closed {w : World} {C} (h : InvG w C) : WorldClosed w := by
  intro top t v hg
  obtain ⟨_, _, _, _, _, _, _, htv⟩ := h.get hg
  rcases treeV_cases htv with ⟨_, hp⟩ | ⟨n, t', ks, s, c, rfl, _⟩
  · exact .inr hp.2.1
  · exact .inl ⟨_, rfl⟩

theorem sortedV_leaf {v : PV} (h : isGroup v = false) : SortedV v := by
  cases v <;> simp_all [isGroup, SortedV]

theorem sortedTree_get : ∀ (q : List Str) (keys : List (Str × PV)) (v : PV),
    SortedTree keys → locGet keys q = .ok (some v) → SortedV v
  | [], keys, v, _, h => by simp [locGet_nil] at h
  | [k], keys, v, hs, h => by
    rw [locGet_one] at h
    simp only [Res.ok.injEq] at h
    exact sortedK_iff_mem.mp hs.2 (k, v) (get?_mem' h)
  | k :: k2 :: rest, keys, v, hs, h => by
    rw [locGet_cons2] at h
    split at h
    · simp at h
    · rename_i l hg
      have h1 := sortedK_iff_mem.mp hs.2 _ (get?_mem' hg)
      obtain ⟨n, t, ks, s, c⟩ := l
      simp only [SortedV] at h1
      exact sortedTree_get (k2 :: rest) ks v h1 h
    · simp at h
    · simp at h

theorem resolveAt_of_err {orc : Oracle} {dflt : Fallbacks} {fuel : Nat} {locale : Str} {p : KeyPath} {w : World} {e : String}
    (h : w.getValueAt locale p = .err e) : resolveAt orc dflt fuel locale p w = .err e := by
  simp [resolveAt, h]
theorem resolveAt_of_none {orc : Oracle} {dflt : Fallbacks} {fuel : Nat} {locale : Str} {p : KeyPath} {w : World}
    (h : w.getValueAt locale p = .ok none) : resolveAt orc dflt fuel locale p w = .ok (w, false) := by
  simp [resolveAt, h]
theorem resolveAt_of_some {orc : Oracle} {dflt : Fallbacks} {fuel : Nat} {locale : Str} {p : KeyPath} {w : World} {v : PV}
    (h : w.getValueAt locale p = .ok (some v)) : resolveAt orc dflt fuel locale p w =
      match resolvePV orc w dflt fuel [] (locale, p) locale v with
      | .err e => .err e
      | .panic s => .panic s
      | .ok v' => .ok (w.setValueAt locale p v', true) := by
  simp only [resolveAt, h]
  cases resolvePV orc w dflt fuel [] (locale, p) locale v <;> rfl

/-- one `resolveAt`: the position `(locale, p)` is no longer needed as a cover afterwards -/
theorem resolveAt_step (orc : Oracle) (dflt : Fallbacks) (fuel : Nat) (locale : Str) (p : KeyPath) (w : World)
    (C C' : Str → Option Str → List Str → Prop) (hI : InvG w C)
    (hC : ∀ name nsk q, C name nsk q → (name = locale ∧ nsk = p.ns ∧ q = p.path) ∨ C' name nsk q) :
    (∀ s, resolveAt orc dflt fuel locale p w = .panic s → Benign s) ∧
    (∀ w1 found, resolveAt orc dflt fuel locale p w = .ok (w1, found) → InvG w1 C' ∧
      (found = true ↔ ∃ v, w.getValueAt locale p = .ok (some v)) ∧
      (∀ top2 p2 x, w.getValueAt top2 p2 = .ok (some x) → ∃ x', w1.getValueAt top2 p2 = .ok (some x'))) := by
  cases hget : w.getValueAt locale p with
  | err e => rw [resolveAt_of_err hget]; simp
  | panic s => exact absurd hget (hI.np locale p s)
  | ok o =>
    cases o with
    | none =>
      rw [resolveAt_of_none hget]
      refine ⟨by simp, ?_⟩
      intro w1 found h
      simp only [Res.ok.injEq, Prod.mk.injEq] at h
      obtain ⟨rfl, rfl⟩ := h
      refine ⟨⟨hI.wf, hI.sorted, ?_⟩, by simp, fun _ _ x hx => ⟨x, hx⟩⟩
      intro ns hns l hl
      have ht := hI.tree ns hns l hl
      by_cases hm : l.name = locale ∧ ns.key = p.ns
      · have hlg : locGet l.keys p.path = .ok none := by
          have := getValueAt_mem hI.wf hns hl p.path
          rw [hm.1, hm.2] at this
          rw [← this]; exact hget
        by_cases hp : p.path = []
        · refine treeK_mono _ _ (fun k ext x hx => ⟨hx.1, hx.2.1, hx.2.2.imp id (fun hc => ?_)⟩) ht
          rcases hC _ _ _ hc with ⟨_, _, hq⟩ | hc'
          · rw [hp] at hq; simp at hq
          · exact hc'
        · have := treeK_not_found p.path l.keys [] (hI.sorted ns hns l hl) ht hlg hp
          refine treeK_mono _ _ (fun k ext x hx => ?_) this
          obtain ⟨hx, hne⟩ := hx
          refine ⟨hx.1, hx.2.1, hx.2.2.imp id (fun hc => ?_)⟩
          rcases hC _ _ _ hc with ⟨_, _, hq⟩ | hc'
          · exact absurd hq (by simpa using hne)
          · exact hc'
      · refine treeK_mono _ _ (fun k ext x hx => ⟨hx.1, hx.2.1, hx.2.2.imp id (fun hc => ?_)⟩) ht
        rcases hC _ _ _ hc with ⟨h1, h2, _⟩ | hc'
        · exact absurd ⟨h1, h2⟩ hm
        · exact hc'
    | some v =>
      obtain ⟨ns0, hns0, l0, hl0, hk0, hn0, hlg0, htv⟩ := hI.get hget
      have hpath : p.path ≠ [] := by
        intro e; rw [e, locGet_nil] at hlg0; simp at hlg0
      rw [resolveAt_of_some hget]
      cases hres : resolvePV orc w dflt fuel [] (locale, p) locale v with
      | err e => simp
      | panic s =>
        refine ⟨?_, by simp⟩
        intro s' h
        simp only [Res.panic.injEq] at h
        subst h
        exact resolvePV_panic orc w dflt hI.np _ _ _ _ _ _ hres
      | ok v' =>
        refine ⟨by simp, ?_⟩
        intro w1 found h
        simp only [Res.ok.injEq, Prod.mk.injEq] at h
        obtain ⟨rfl, rfl⟩ := h
        -- facts about `v'`
        have hgrp : isGroup v = true → v' = v := by
          intro hg
          obtain ⟨o, rfl⟩ := isGroup_true hg
          exact resolvePV_group orc w dflt fuel [] (locale, p) locale o v' hres
        have hv'tree : TreeV (MidLeaf C' locale p.ns) p.path v' := by
          rcases treeV_cases htv with ⟨hleaf, hp⟩ | ⟨n, t, ks, s, c, hv, hks⟩
          · have hl' := resolvePV_leaf orc w dflt fuel [] (locale, p) locale v v' hleaf hres
            rw [treeV_leaf hl']
            have hnn : NoNotSet v' = true :=
              (resolve_noNotSet orc w dflt hI.closed fuel).1 [] (locale, p) locale v v' hp.2.1 hres
            exact ⟨resolvePV_flat orc w dflt hI.flat _ _ _ _ _ _ hp.1 hres, NoNotSet_SetClosed _ hnn, .inl hnn⟩
          · have : v' = v := hgrp (by rw [hv]; rfl)
            rw [this, hv, treeV_group]
            refine treeK_mono _ _ (fun k ext x hx => ⟨hx.1, hx.2.1, hx.2.2.imp id (fun hc => ?_)⟩) hks
            rcases hC _ _ _ hc with ⟨_, _, hq⟩ | hc'
            · have := congrArg List.length hq
              simp at this
            · exact hc'
        have hv'sorted : SortedV v' := by
          cases hg : isGroup v with
          | true => rw [hgrp hg]; exact sortedTree_get _ _ _ (hI.sorted ns0 hns0 l0 hl0) hlg0
          | false => exact sortedV_leaf (resolvePV_leaf orc w dflt fuel [] (locale, p) locale v v' hg hres)
        -- the value found in any matching locale is `v`
        have hmatch : ∀ ns ∈ w.nss, ∀ l ∈ ns.locales, ns.key = p.ns → l.name = locale →
            locGet l.keys p.path = .ok (some v) := by
          intro ns hns l hl hk hn
          have := getValueAt_mem hI.wf hns hl p.path
          rw [hn, hk] at this
          rw [← this]; exact hget
        refine ⟨⟨setValueAt_wf hI.wf _ _ _, ?_, ?_⟩, ⟨fun _ => ⟨v, rfl⟩, fun _ => rfl⟩, ?_⟩
        · intro ns' hns' l' hl'
          obtain ⟨ns, hns, l, hl, _, _, hkeys⟩ := setValueAt_mem_inv hns' hl'
          rw [hkeys]
          split
          · exact sortedTree_locSet _ _ _ (hI.sorted ns hns l hl) hv'sorted
          · exact hI.sorted ns hns l hl
        · intro ns' hns' l' hl'
          obtain ⟨ns, hns, l, hl, hk', hn', hkeys⟩ := setValueAt_mem_inv hns' hl'
          rw [hkeys, hk', hn']
          have ht := hI.tree ns hns l hl
          split
          · rename_i hm
            rw [hm.1, hm.2]
            rw [hm.1, hm.2] at ht
            refine treeK_locSet p.path l.keys [] v' hpath ht (by simpa using hv'tree) ?_
            intro q x hx hq
            refine ⟨hx.1, hx.2.1, hx.2.2.imp id (fun hc => ?_)⟩
            rcases hC _ _ _ hc with ⟨_, _, hq'⟩ | hc'
            · exact absurd hq' (by simpa using hq)
            · exact hc'
          · rename_i hm
            refine treeK_mono _ _ (fun k ext x hx => ⟨hx.1, hx.2.1, hx.2.2.imp id (fun hc => ?_)⟩) ht
            rcases hC _ _ _ hc with ⟨h1, h2, _⟩ | hc'
            · exact absurd ⟨h2, h1⟩ hm
            · exact hc'
        · intro top2 p2 x hx
          rcases getValueAt_cases hI.wf top2 p2 with h0 | ⟨ns, hns, l, hl, hk, hn, he⟩
          · rw [h0] at hx; simp at hx
          · rw [he] at hx
            obtain ⟨ns', hns', l', hl', hk', hn', hkeys⟩ := setValueAt_mem locale p v' hns hl
            have hg' := getValueAt_mem (setValueAt_wf hI.wf locale p v') hns' hl' p2.path
            rw [hn', hk', hn, hk] at hg'
            have hp2 : (⟨p2.ns, p2.path⟩ : KeyPath) = p2 := rfl
            rw [hp2] at hg'
            rw [hg', hkeys]
            split
            · rename_i hm
              exact locGet_locSet_found p.path l.keys [] v v' (hI.tree ns hns l hl)
                (hmatch ns hns l hl hm.1 hm.2) hgrp p2.path x hx
            · exact ⟨x, hx⟩

/-- a registered path is found, itself or its plural base -/
def Findable (w : World) (x : Str × KeyPath) : Prop :=
  (∃ v, w.getValueAt x.1 x.2 = .ok (some v)) ∨
  (∃ p' v, mergedPath x.2 = some p' ∧ w.getValueAt x.1 p' = .ok (some v))

theorem mergedPath_eq (p : KeyPath) :
    mergedPath p = (mergedLast p.path).map (fun q => ({ p with path := q } : KeyPath)) := by
  unfold mergedPath mergedLast
  cases p.path.getLast? with
  | none => rfl
  | some last =>
    simp only
    cases Str.rsplitOnceC '_' last with
    | none => rfl
    | some r =>
      obtain ⟨base, sfx⟩ := r
      simp only
      cases Key.new ((Str.stripSuffix "_ordinal".toList base).getD base) <;> rfl

theorem resolveAll_stage (orc : Oracle) (dflt : Fallbacks) (fuel : Nat) :
    ∀ (items : List (Str × KeyPath)) (w : World), InvG w (Cov items) → (∀ x ∈ items, Findable w x) →
      (∀ s, resolveAll orc dflt fuel items w = .panic s → Benign s) ∧
      (∀ w', resolveAll orc dflt fuel items w = .ok w' → InvG w' (fun _ _ _ => False))
  | [], w, hI, _ => by
    refine ⟨by simp [resolveAll], ?_⟩
    intro w' h
    simp only [resolveAll, Res.ok.injEq] at h
    subst h
    exact hI.mono (fun name nsk q hc => by obtain ⟨p, hp, _⟩ := hc; simp at hp)
  | (locale, p) :: rest, w, hI, hF => by
    -- covers after the first / second `resolveAt`
    let C1 : Str → Option Str → List Str → Prop := fun name nsk q =>
      Cov rest name nsk q ∨ (name = locale ∧ nsk = p.ns ∧ mergedLast p.path = some q)
    have hC01 : ∀ name nsk q, Cov ((locale, p) :: rest) name nsk q →
        (name = locale ∧ nsk = p.ns ∧ q = p.path) ∨ C1 name nsk q := by
      intro name nsk q ⟨p0, hp0, hns0, hq0⟩
      rcases List.mem_cons.mp hp0 with e | hm
      · simp only [Prod.mk.injEq] at e
        obtain ⟨rfl, rfl⟩ := e
        rcases hq0 with hq | hq
        · exact .inl ⟨rfl, hns0.symm, hq.symm⟩
        · exact .inr (.inr ⟨rfl, hns0.symm, hq⟩)
      · exact .inr (.inl ⟨p0, hm, hns0, hq0⟩)
    obtain ⟨hpan1, hok1⟩ := resolveAt_step orc dflt fuel locale p w _ C1 hI hC01
    have hFx := hF (locale, p) List.mem_cons_self
    rw [resolveAll]
    cases h1 : resolveAt orc dflt fuel locale p w with
    | err e => simp
    | panic s => exact ⟨fun s' h => by simp only [Res.panic.injEq] at h; subst h; exact hpan1 s h1, by simp⟩
    | ok r1 =>
      obtain ⟨w1, found1⟩ := r1
      obtain ⟨hI1, hfound1, hpres1⟩ := hok1 w1 found1 h1
      simp only
      cases hm : mergedPath p with
      | none =>
        simp only [Bool.or_false]
        have hml : mergedLast p.path = none := by
          have := mergedPath_eq p
          rw [hm] at this
          cases hx : mergedLast p.path with
          | none => rfl
          | some q => rw [hx] at this; simp at this
        have hI1' : InvG w1 (Cov rest) := hI1.mono (fun name nsk q hc => by
          rcases hc with hc | ⟨_, _, hq⟩
          · exact hc
          · rw [hml] at hq; simp at hq)
        cases found1 with
        | true =>
          simp only [if_true]
          refine resolveAll_stage orc dflt fuel rest w1 hI1' ?_
          intro x hx
          rcases hF x (List.mem_cons_of_mem _ hx) with ⟨v, hv⟩ | ⟨p', v, hp', hv⟩
          · exact .inl (hpres1 _ _ _ hv)
          · exact .inr ⟨p', _, hp', (hpres1 _ _ _ hv).choose_spec⟩
        | false =>
          exfalso
          rcases hFx with ⟨v, hv⟩ | ⟨p', v, hp', _⟩
          · have := hfound1.mpr ⟨v, hv⟩
            simp at this
          · simp only at hp'; rw [hm] at hp'; simp at hp'
      | some p' =>
        simp only
        have hml : mergedLast p.path = some p'.path ∧ p'.ns = p.ns := by
          have := mergedPath_eq p
          rw [hm] at this
          cases hx : mergedLast p.path with
          | none => rw [hx] at this; simp at this
          | some q =>
            rw [hx] at this
            simp only [Option.map_some, Option.some.injEq] at this
            subst this
            exact ⟨rfl, rfl⟩
        have hC12 : ∀ name nsk q, C1 name nsk q →
            (name = locale ∧ nsk = p'.ns ∧ q = p'.path) ∨ Cov rest name nsk q := by
          intro name nsk q hc
          rcases hc with hc | ⟨h1, h2, hq⟩
          · exact .inr hc
          · rw [hml.1] at hq
            simp only [Option.some.injEq] at hq
            exact .inl ⟨h1, by rw [hml.2]; exact h2, hq.symm⟩
        obtain ⟨hpan2, hok2⟩ := resolveAt_step orc dflt fuel locale p' w1 C1 (Cov rest) hI1 hC12
        cases h2 : resolveAt orc dflt fuel locale p' w1 with
        | err e => simp
        | panic s => exact ⟨fun s' h => by simp only [Res.panic.injEq] at h; subst h; exact hpan2 s h2, by simp⟩
        | ok r2 =>
          obtain ⟨w2, found2⟩ := r2
          obtain ⟨hI2, hfound2, hpres2⟩ := hok2 w2 found2 h2
          simp only
          cases hff : found1 || found2 with
          | true =>
            simp only [if_true]
            refine resolveAll_stage orc dflt fuel rest w2 hI2 ?_
            intro x hx
            rcases hF x (List.mem_cons_of_mem _ hx) with ⟨v, hv⟩ | ⟨q', v, hq', hv⟩
            · obtain ⟨v1, hv1⟩ := hpres1 _ _ _ hv
              exact .inl (hpres2 _ _ _ hv1)
            · obtain ⟨v1, hv1⟩ := hpres1 _ _ _ hv
              obtain ⟨v2, hv2⟩ := hpres2 _ _ _ hv1
              exact .inr ⟨q', v2, hq', hv2⟩
          | false =>
            exfalso
            simp only [Bool.or_eq_false_iff] at hff
            rcases hFx with ⟨v, hv⟩ | ⟨q', v, hq', hv⟩
            · have := hfound1.mpr ⟨v, hv⟩
              rw [hff.1] at this; simp at this
            · simp only at hq' hv
              rw [hm] at hq'
              simp only [Option.some.injEq] at hq'
              subst hq'
              obtain ⟨v1, hv1⟩ := hpres1 _ _ _ hv
              have := hfound2.mpr ⟨v1, hv1⟩
              rw [hff.2] at this; simp at this

end I18nVerif.PipeInv
