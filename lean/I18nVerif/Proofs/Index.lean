import I18nVerif.Spec.Index
import I18nVerif.Spec.Eval
/-!
Helper lemmas about `pushStr` / `indexStrings` / `propagate` for C11.
-/
namespace I18nVerif.Check
open I18nVerif Eval

/-! ### `pushStr` -/

theorem pushStr_spec (s : Str) (acc : List Str) :
    (pushStr s acc).2[(pushStr s acc).1]? = some s ∧
    (acc.Nodup → (pushStr s acc).2.Nodup) ∧
    acc <+: (pushStr s acc).2 ∧
    (pushStr s acc).1 < (pushStr s acc).2.length := by
  unfold pushStr
  cases h : acc.idxOf? s with
  | some i =>
    obtain ⟨hi, hs, _⟩ := List.idxOf?_eq_some_iff.mp h
    simp only
    refine ⟨?_, id, List.prefix_refl _, hi⟩
    rw [List.getElem?_eq_getElem hi, hs]
  | none =>
    have hn : s ∉ acc := List.idxOf?_eq_none_iff.mp h
    simp only
    refine ⟨by simp, ?_, List.prefix_append _ _, by simp⟩
    intro hd
    rw [List.nodup_append]
    refine ⟨hd, by simp, ?_⟩
    intro a ha b hb
    simp at hb
    subst hb
    intro e; subst e; exact hn ha

/-- a string already in the table keeps the table unchanged and gets its first index -/
theorem pushStr_mem {s : Str} {acc : List Str} (h : s ∈ acc) :
    (pushStr s acc).2 = acc ∧ ∀ j, j < (pushStr s acc).1 → acc[j]? ≠ some s := by
  unfold pushStr
  cases hi : acc.idxOf? s with
  | none => exact absurd h (List.idxOf?_eq_none_iff.mp hi)
  | some i =>
    obtain ⟨hlt, _, hmin⟩ := List.idxOf?_eq_some_iff.mp hi
    refine ⟨rfl, ?_⟩
    intro j hj
    simp only at hj
    have hjl : j < acc.length := Nat.lt_trans hj hlt
    rw [List.getElem?_eq_getElem hjl]
    intro e
    exact hmin j hj (by simpa using e)

/-- a new string is appended at the end -/
theorem pushStr_not_mem {s : Str} {acc : List Str} (h : s ∉ acc) :
    pushStr s acc = (acc.length, acc ++ [s]) := by
  unfold pushStr
  rw [List.idxOf?_eq_none_iff.mpr h]

/-! ### tables and prefixes -/

theorem getElem?_of_prefix {α} {a b : List α} (h : a <+: b) {i : Nat} {x : α} (hx : a[i]? = some x) :
    b[i]? = some x := by
  obtain ⟨t, rfl⟩ := h
  have hi : i < a.length := by
    rcases Nat.lt_or_ge i a.length with h | h
    · exact h
    · rw [List.getElem?_eq_none h] at hx; simp at hx
  rw [List.getElem?_append_left hi]; exact hx

theorem Valid.mono {t t' : List Str} {l} (h : Valid t l) (hp : t <+: t') : Valid t' l :=
  fun s i hm => getElem?_of_prefix hp (h s i hm)

theorem Full.mono {t t' : List Str} {l} (h : Full t l) (hp : t <+: t') : Full t' l := by
  intro s oi hm
  obtain ⟨i, rfl, hi⟩ := h s oi hm
  exact ⟨i, rfl, getElem?_of_prefix hp hi⟩

theorem Full.valid {t : List Str} {l} (h : Full t l) : Valid t l := by
  intro s i hm
  obtain ⟨j, hj, hv⟩ := h s _ hm
  cases hj
  exact hv

theorem Valid.append {t : List Str} {l1 l2} (h1 : Valid t l1) (h2 : Valid t l2) : Valid t (l1 ++ l2) := by
  intro s i hm
  rcases List.mem_append.mp hm with h | h
  · exact h1 s i h
  · exact h2 s i h

theorem Full.append {t : List Str} {l1 l2} (h1 : Full t l1) (h2 : Full t l2) : Full t (l1 ++ l2) := by
  intro s i hm
  rcases List.mem_append.mp hm with h | h
  · exact h1 s i h
  · exact h2 s i h

theorem Valid.left {t : List Str} {l1 l2} (h : Valid t (l1 ++ l2)) : Valid t l1 :=
  fun s i hm => h s i (List.mem_append.mpr (Or.inl hm))

theorem Valid.right {t : List Str} {l1 l2} (h : Valid t (l1 ++ l2)) : Valid t l2 :=
  fun s i hm => h s i (List.mem_append.mpr (Or.inr hm))

theorem Valid.nil (t : List Str) : Valid t [] := fun _ _ h => by simp at h
theorem Full.nil (t : List Str) : Full t [] := fun _ _ h => by simp at h

theorem validB_iff (t : List Str) (l) : validB t l = true ↔ Valid t l := by
  unfold validB Valid
  simp only [List.all_eq_true]
  constructor
  · intro h s i hm
    have := h (s, some i) hm
    simpa using this
  · intro h p hp
    obtain ⟨s, oi⟩ := p
    cases oi with
    | none => rfl
    | some i => simpa using h s i hp

theorem fullB_iff (t : List Str) (l) : fullB t l = true ↔ Full t l := by
  unfold fullB Full
  simp only [List.all_eq_true]
  constructor
  · intro h s oi hm
    have := h (s, oi) hm
    cases oi with
    | none => simp at this
    | some i => exact ⟨i, rfl, by simpa using this⟩
  · intro h p hp
    obtain ⟨s, oi⟩ := p
    obtain ⟨i, rfl, hi⟩ := h s oi hp
    simpa using hi

/-- what one indexing step guarantees: `lits`/`tbl` before, `lits'`/`tbl'` after;
    `full` is the condition under which every literal is known to have been visited -/
structure Ok (tbl : List Str) (lits lits' : List (Str × Option Nat)) (tbl' : List Str) (full : Prop) : Prop where
  pre : tbl <+: tbl'
  nodup : tbl.Nodup → tbl'.Nodup
  valid : Valid tbl lits → Valid tbl' lits'
  full : full → Full tbl' lits'

theorem Ok.skip (t : List Str) (p : Prop) : Ok t [] [] t p :=
  ⟨List.prefix_refl _, id, id, fun _ => Full.nil t⟩

theorem Ok.noFuel (t : List Str) (l) : Ok t l l t False :=
  ⟨List.prefix_refl _, id, id, fun h => h.elim⟩

theorem Ok.weaken {t l l' t'} {p q : Prop} (h : Ok t l l' t' p) (hq : q → p) : Ok t l l' t' q :=
  ⟨h.pre, h.nodup, h.valid, fun x => h.full (hq x)⟩

theorem Ok.comp {t t' t'' : List Str} {l1 l1' l2 l2'} {p1 p2 p : Prop}
    (h1 : Ok t l1 l1' t' p1) (h2 : Ok t' l2 l2' t'' p2) (hp1 : p → p1) (hp2 : p → p2) :
    Ok t (l1 ++ l2) (l1' ++ l2') t'' p where
  pre := List.IsPrefix.trans h1.pre h2.pre
  nodup := fun h => h2.nodup (h1.nodup h)
  valid := fun h =>
    Valid.append ((h1.valid h.left).mono h2.pre) (h2.valid (h.right.mono h1.pre))
  full := fun h => Full.append ((h1.full (hp1 h)).mono h2.pre) (h2.full (hp2 h))

/-! ### the three `foldl`s of `indexStrings` as plain recursions -/

def indexL (f : PV → List Str → PV × List Str) : List PV → List Str → List PV × List Str
  | [], acc => ([], acc)
  | x :: xs, acc => ((f x acc).1 :: (indexL f xs (f x acc).2).1, (indexL f xs (f x acc).2).2)

def indexP {κ : Type} (f : PV → List Str → PV × List Str) : List (κ × PV) → List Str → List (κ × PV) × List Str
  | [], acc => ([], acc)
  | (k, x) :: xs, acc => ((k, (f x acc).1) :: (indexP f xs (f x acc).2).1, (indexP f xs (f x acc).2).2)

theorem foldl_indexL (f : PV → List Str → PV × List Str) : ∀ (items : List PV) (l0 : List PV) (acc : List Str),
    items.foldl (fun (p : List PV × List Str) x => ((p.1 ++ [(f x p.2).1], (f x p.2).2) : List PV × List Str)) (l0, acc)
      = (l0 ++ (indexL f items acc).1, (indexL f items acc).2)
  | [], l0, acc => by simp [indexL]
  | x :: xs, l0, acc => by
    simp only [List.foldl_cons, indexL]
    rw [foldl_indexL f xs]
    simp

theorem foldl_indexP {κ : Type} (f : PV → List Str → PV × List Str) :
    ∀ (items : List (κ × PV)) (l0 : List (κ × PV)) (acc : List Str),
    items.foldl (fun (p : List (κ × PV) × List Str) (kx : κ × PV) =>
        ((p.1 ++ [(kx.1, (f kx.2 p.2).1)], (f kx.2 p.2).2) : List (κ × PV) × List Str)) (l0, acc)
      = (l0 ++ (indexP f items acc).1, (indexP f items acc).2)
  | [], l0, acc => by simp [indexP]
  | (k, x) :: xs, l0, acc => by
    simp only [List.foldl_cons, indexP]
    rw [foldl_indexP f xs]
    simp

/-- `indexStrings` with its folds replaced by `indexL` / `indexP` -/
theorem indexStrings_succ (fuel : Nat) (pv : PV) (acc : List Str) :
    indexStrings (fuel + 1) pv acc =
      match pv with
      | .lit (.str s _) => (.lit (.str s (some (pushStr s acc).1)), (pushStr s acc).2)
      | .comp k inner => (.comp k (indexStrings fuel inner acc).1, (indexStrings fuel inner acc).2)
      | .bloc items => (.bloc (indexL (indexStrings fuel) items acc).1, (indexL (indexStrings fuel) items acc).2)
      | .ranges ck t bs =>
        (.ranges ck t (indexP (indexStrings fuel) bs acc).1, (indexP (indexStrings fuel) bs acc).2)
      | .plurals r ck other forms =>
        (.plurals r ck (indexStrings fuel other (indexP (indexStrings fuel) forms acc).2).1
            (indexP (indexStrings fuel) forms acc).1,
          (indexStrings fuel other (indexP (indexStrings fuel) forms acc).2).2)
      | other => (other, acc) := by
  have hL := foldl_indexL (indexStrings fuel)
  have hP := fun κ => @foldl_indexP κ (indexStrings fuel)
  cases pv with
  | lit l => cases l <;> simp [indexStrings]
  | comp k inner => simp [indexStrings]
  | bloc items =>
    simp only [indexStrings]
    have := hL items [] acc
    simp only [List.nil_append] at this
    exact congrArg (fun p : List PV × List Str => (PV.bloc p.1, p.2)) this
  | ranges ck t bs =>
    simp only [indexStrings]
    have := hP _ bs [] acc
    simp only [List.nil_append] at this
    exact congrArg (fun p : List (Range × PV) × List Str => (PV.ranges ck t p.1, p.2)) this
  | plurals r ck other forms =>
    simp only [indexStrings]
    have := hP _ forms [] acc
    simp only [List.nil_append] at this
    exact congrArg (fun p : List (Form × PV) × List Str =>
      (PV.plurals r ck (indexStrings fuel other p.2).1 p.1, (indexStrings fuel other p.2).2)) this
  | _ => simp [indexStrings]


/-! ### table invariants of `indexStrings` -/

section
variable (f : PV → List Str → PV × List Str) (d : Nat)
  (hf : ∀ v acc, Ok acc (strLits v) (strLits (f v acc).1) (f v acc).2 (depth v < d))
include hf

theorem indexL_ok : ∀ (items : List PV) (acc : List Str),
    Ok acc (strLitsL items) (strLitsL (indexL f items acc).1) (indexL f items acc).2 (depthL items < d)
  | [], acc => by simp only [indexL, strLitsL]; exact Ok.skip _ _
  | x :: xs, acc => by
    simp only [indexL, strLitsL, depthL]
    exact (hf x acc).comp (indexL_ok xs _) (by omega) (by omega)

theorem indexP_okB : ∀ (items : List (Range × PV)) (acc : List Str),
    Ok acc (strLitsB items) (strLitsB (indexP f items acc).1) (indexP f items acc).2 (depthB items < d)
  | [], acc => by simp only [indexP, strLitsB]; exact Ok.skip _ _
  | (k, x) :: xs, acc => by
    simp only [indexP, strLitsB, depthB]
    exact (hf x acc).comp (indexP_okB xs _) (by omega) (by omega)

theorem indexP_okF : ∀ (items : List (Form × PV)) (acc : List Str),
    Ok acc (strLitsF items) (strLitsF (indexP f items acc).1) (indexP f items acc).2 (depthF items < d)
  | [], acc => by simp only [indexP, strLitsF]; exact Ok.skip _ _
  | (k, x) :: xs, acc => by
    simp only [indexP, strLitsF, depthF]
    exact (hf x acc).comp (indexP_okF xs _) (by omega) (by omega)
end

theorem indexStrings_ok : ∀ (fuel : Nat) (v : PV) (acc : List Str),
    Ok acc (strLits v) (strLits (indexStrings fuel v acc).1) (indexStrings fuel v acc).2 (depth v < fuel)
  | 0, v, acc => by
    simp only [indexStrings]
    exact (Ok.noFuel _ _).weaken (by omega)
  | fuel + 1, v, acc => by
    rw [indexStrings_succ]
    have ih := indexStrings_ok fuel
    cases v with
    | lit l =>
      cases l with
      | str s i =>
        simp only [strLits]
        obtain ⟨h1, h2, h3, _⟩ := pushStr_spec s acc
        refine ⟨h3, h2, fun _ => ?_, fun _ => ?_⟩
        · intro s' i' hm
          simp at hm
          obtain ⟨rfl, rfl⟩ := hm
          exact h1
        · intro s' oi hm
          simp at hm
          obtain ⟨rfl, rfl⟩ := hm
          exact ⟨_, rfl, h1⟩
      | _ => simp only [strLits]; exact Ok.skip _ _
    | comp k inner =>
      simp only [strLits, depth]
      exact (ih inner acc).weaken (by omega)
    | bloc items =>
      simp only [strLits, depth]
      exact (indexL_ok _ fuel ih items acc).weaken (by omega)
    | ranges ck t bs =>
      simp only [strLits, depth]
      exact (indexP_okB _ fuel ih bs acc).weaken (by omega)
    | plurals r ck other forms =>
      simp only [strLits, depth]
      exact (indexP_okF _ fuel ih forms acc).comp (ih other _) (by omega) (by omega)
    | _ => simp only [strLits]; exact Ok.skip _ _

/-! ### indexing does not change the meaning, nor the texts -/

section
variable (ρ : Env) (f : PV → List Str → PV × List Str)
  (hf : ∀ v acc, eval ρ (f v acc).1 = eval ρ v)
include hf

theorem indexL_eval : ∀ (items : List PV) (acc : List Str), evalL ρ (indexL f items acc).1 = evalL ρ items
  | [], acc => by simp [indexL]
  | x :: xs, acc => by simp only [indexL, evalL, hf, indexL_eval xs]

theorem indexP_evalB : ∀ (items : List (Range × PV)) (acc : List Str) (c : Dec),
    evalBranches ρ c (indexP f items acc).1 = evalBranches ρ c items
  | [], acc, c => by simp [indexP]
  | (k, x) :: xs, acc, c => by simp only [indexP, evalBranches, hf, indexP_evalB xs]

theorem indexP_evalF : ∀ (items : List (Form × PV)) (acc : List Str) (c : Form),
    evalForm ρ c (indexP f items acc).1 = evalForm ρ c items
  | [], acc, c => by simp [indexP]
  | (k, x) :: xs, acc, c => by simp only [indexP, evalForm, hf, indexP_evalF xs]
end

theorem indexStrings_eval (ρ : Env) : ∀ (fuel : Nat) (v : PV) (acc : List Str),
    eval ρ (indexStrings fuel v acc).1 = eval ρ v
  | 0, v, acc => by simp only [indexStrings]
  | fuel + 1, v, acc => by
    rw [indexStrings_succ]
    have ih := indexStrings_eval ρ fuel
    cases v with
    | lit l => cases l <;> simp [eval, Lit.display]
    | comp k inner => simp only [eval, ih]
    | bloc items => simp only [eval, indexL_eval ρ _ ih]
    | ranges ck t bs => simp only [eval, indexP_evalB ρ _ ih]
    | plurals r ck other forms => simp only [eval, indexP_evalF ρ _ ih, ih]
    | _ => rfl

section
variable (f : PV → List Str → PV × List Str)
  (hf : ∀ v acc, (strLits (f v acc).1).map Prod.fst = (strLits v).map Prod.fst)
include hf

theorem indexL_texts : ∀ (items : List PV) (acc : List Str),
    (strLitsL (indexL f items acc).1).map Prod.fst = (strLitsL items).map Prod.fst
  | [], acc => by simp [indexL]
  | x :: xs, acc => by simp only [indexL, strLitsL, List.map_append, hf, indexL_texts xs]

theorem indexP_textsB : ∀ (items : List (Range × PV)) (acc : List Str),
    (strLitsB (indexP f items acc).1).map Prod.fst = (strLitsB items).map Prod.fst
  | [], acc => by simp [indexP]
  | (k, x) :: xs, acc => by simp only [indexP, strLitsB, List.map_append, hf, indexP_textsB xs]

theorem indexP_textsF : ∀ (items : List (Form × PV)) (acc : List Str),
    (strLitsF (indexP f items acc).1).map Prod.fst = (strLitsF items).map Prod.fst
  | [], acc => by simp [indexP]
  | (k, x) :: xs, acc => by simp only [indexP, strLitsF, List.map_append, hf, indexP_textsF xs]
end

theorem indexStrings_texts : ∀ (fuel : Nat) (v : PV) (acc : List Str),
    (strLits (indexStrings fuel v acc).1).map Prod.fst = (strLits v).map Prod.fst
  | 0, v, acc => by simp only [indexStrings]
  | fuel + 1, v, acc => by
    rw [indexStrings_succ]
    have ih := indexStrings_texts fuel
    cases v with
    | lit l => cases l <;> simp [strLits]
    | comp k inner => simp only [strLits, ih]
    | bloc items => simp only [strLits, indexL_texts _ ih]
    | ranges ck t bs => simp only [strLits, indexP_textsB _ ih]
    | plurals r ck other forms => simp only [strLits, List.map_append, indexP_textsF _ ih, ih]
    | _ => rfl


/-! ### `propagate` -/

/-- the locale list `propagate` writes into a `Subkeys` node -/
def setCounts (locales : List Loc) (counts : List Nat) : List Loc :=
  (locales.zip counts).map (fun (l, c) => Loc.mk l.name l.top l.keys l.strings c)
    ++ locales.drop counts.length

theorem setCounts_cons (l : Loc) (ls : List Loc) (c : Nat) (cs : List Nat) :
    setCounts (l :: ls) (c :: cs) = Loc.mk l.name l.top l.keys l.strings c :: setCounts ls cs := by
  simp [setCounts]

theorem setCounts_agree : ∀ (locales : List Loc) (counts : List Nat),
    ((setCounts locales counts).zip counts).all (fun p => p.1.count == p.2) = true
  | [], counts => by simp [setCounts]
  | l :: ls, [] => by simp [setCounts]
  | l :: ls, c :: cs => by
    rw [setCounts_cons, List.zip_cons_cons, List.all_cons, setCounts_agree ls cs]
    simp [Loc.count]

theorem setCounts_eq : ∀ (locales : List Loc) (counts : List Nat), locales.length = counts.length →
    (setCounts locales counts).map Loc.count = counts
  | [], [], _ => by simp [setCounts]
  | [], _ :: _, h => by simp at h
  | _ :: _, [], h => by simp at h
  | l :: ls, c :: cs, h => by
    rw [setCounts_cons, List.map_cons, setCounts_eq ls cs (by simpa using h)]
    simp [Loc.count]

theorem setCounts_length (locales : List Loc) (counts : List Nat) :
    (setCounts locales counts).length = locales.length := by
  simp [setCounts]
  omega

theorem propagate_succ_cons (fuel : Nat) (counts : List Nat) (k : Str) (lv : LV) (rest : BKI) :
    propagate (fuel + 1) counts ((k, lv) :: rest) =
      (match lv with
        | .subkeys locales keys => (k, LV.subkeys (setCounts locales counts) (propagate fuel counts keys))
        | v => (k, v)) :: propagate (fuel + 1) counts rest := by
  simp only [propagate, List.map_cons, setCounts]
  cases lv <;> rfl

theorem propagate_nil (fuel : Nat) (counts : List Nat) : propagate fuel counts [] = [] := by
  cases fuel <;> simp [propagate]

theorem countsAgree_of_depth_zero (counts : List Nat) : ∀ (b : BKI), depthBKI b = 0 → countsAgree counts b = true
  | [], _ => rfl
  | (k, lv) :: rest, h => by
    simp only [depthBKI] at h
    cases lv with
    | value v d => simp [countsAgree, countsAgreeLV, countsAgree_of_depth_zero counts rest (by omega)]
    | subkeys l ks => simp only [depthLV] at h; omega

theorem countsEq_of_depth_zero (counts : List Nat) : ∀ (b : BKI), depthBKI b = 0 → countsEq counts b = true
  | [], _ => rfl
  | (k, lv) :: rest, h => by
    simp only [depthBKI] at h
    cases lv with
    | value v d => simp [countsEq, countsEqLV, countsEq_of_depth_zero counts rest (by omega)]
    | subkeys l ks => simp only [depthLV] at h; omega

theorem propagate_agree (counts : List Nat) : ∀ (fuel : Nat) (b : BKI), depthBKI b ≤ fuel →
    countsAgree counts (propagate fuel counts b) = true
  | 0, b, h => by
    simp only [propagate]
    exact countsAgree_of_depth_zero counts b (by omega)
  | fuel + 1, [], _ => by simp [propagate, countsAgree]
  | fuel + 1, (k, lv) :: rest, h => by
    rw [propagate_succ_cons]
    simp only [depthBKI] at h
    have ihr := propagate_agree counts (fuel + 1) rest (by omega)
    cases lv with
    | value v d => simp [countsAgree, countsAgreeLV, ihr]
    | subkeys locales keys =>
      simp only [depthLV] at h
      have ihk := propagate_agree counts fuel keys (by omega)
      simp only [countsAgree, countsAgreeLV, setCounts_agree, ihk, ihr, Bool.and_self]

theorem propagate_eq (counts : List Nat) : ∀ (fuel : Nat) (b : BKI), depthBKI b ≤ fuel →
    lensBKI counts.length b = true → countsEq counts (propagate fuel counts b) = true
  | 0, b, h, _ => by
    simp only [propagate]
    exact countsEq_of_depth_zero counts b (by omega)
  | fuel + 1, [], _, _ => by simp [propagate, countsEq]
  | fuel + 1, (k, lv) :: rest, h, hl => by
    rw [propagate_succ_cons]
    simp only [depthBKI] at h
    simp only [lensBKI, Bool.and_eq_true] at hl
    have ihr := propagate_eq counts (fuel + 1) rest (by omega) hl.2
    cases lv with
    | value v d => simp [countsEq, countsEqLV, ihr]
    | subkeys locales keys =>
      simp only [depthLV] at h
      simp only [lensLV, Bool.and_eq_true, beq_iff_eq] at hl
      have ihk := propagate_eq counts fuel keys (by omega) hl.1.2
      simp only [countsEq, countsEqLV, setCounts_eq locales counts hl.1.1, ihk, ihr, Bool.and_self, beq_self_eq_true]

/-- `propagate` changes nothing but counts: the number of locales in every node stays -/
theorem propagate_lens (counts : List Nat) (n : Nat) : ∀ (fuel : Nat) (b : BKI),
    lensBKI n (propagate fuel counts b) = lensBKI n b
  | 0, b => by simp only [propagate]
  | fuel + 1, [] => by simp [propagate]
  | fuel + 1, (k, lv) :: rest => by
    rw [propagate_succ_cons]
    have ihr := propagate_lens counts n (fuel + 1) rest
    cases lv with
    | value v d => simp only [lensBKI, ihr]
    | subkeys locales keys =>
      simp only [lensBKI, lensLV, setCounts_length, propagate_lens counts n fuel keys, ihr]

end I18nVerif.Check
