import I18nVerif.Spec.Codegen
/-
Helper lemmas for C02 (code-generator back-ends).
-/
namespace I18nVerif.Codegen
open I18nVerif

/-! ### rendering of lists -/

theorem renderViewL_append (tbl : List Str) (ρ : Eval.Env) (a b : List VExpr) :
    renderViewL tbl ρ (a ++ b) = renderViewL tbl ρ a ++ renderViewL tbl ρ b := by
  induction a with
  | nil => simp [renderViewL]
  | cons x xs ih => simp [renderViewL, ih]

theorem renderViewL_eq_flatten (tbl : List Str) (ρ : Eval.Env) (xs : List VExpr) :
    renderViewL tbl ρ xs = (xs.map (renderView tbl ρ)).flatten := by
  induction xs with
  | nil => simp [renderViewL]
  | cons x xs ih => simp [renderViewL, ih]

theorem renderViewL_flatten (tbl : List Str) (ρ : Eval.Env) (ys : List (List VExpr)) :
    renderViewL tbl ρ ys.flatten = (ys.map (renderViewL tbl ρ)).flatten := by
  induction ys with
  | nil => simp [renderViewL]
  | cons y ys ih => simp [renderViewL_append, ih]

theorem renderDisplayL_append (tbl : List Str) (ρ : Eval.Env) (a b : List DExpr) :
    renderDisplayL tbl ρ (a ++ b) = renderDisplayL tbl ρ a ++ renderDisplayL tbl ρ b := by
  induction a with
  | nil => simp [renderDisplayL]
  | cons x xs ih => simp [renderDisplayL, ih]

/-! ### `chunks` -/

theorem chunksAux_flatten {α : Type} (n : Nat) (hn : 0 < n) :
    ∀ (fuel : Nat) (xs : List α), xs.length ≤ fuel → (chunksAux n fuel xs).flatten = xs := by
  intro fuel
  induction fuel with
  | zero => intro xs h; cases xs <;> simp_all [chunksAux]
  | succ f ih =>
    intro xs h
    simp only [chunksAux]
    cases xs with
    | nil => simp
    | cons x xs =>
      simp only [List.isEmpty_cons, Bool.false_eq_true, if_false, List.flatten_cons]
      rw [ih]
      · simp
      · simp only [List.length_drop, List.length_cons] at *; omega

theorem chunks_flatten {α : Type} (n : Nat) (hn : 0 < n) (xs : List α) : (chunks n xs).flatten = xs :=
  chunksAux_flatten n hn _ _ (Nat.le_refl _)

/-- every chunk is non-empty and has at most `n` elements -/
theorem chunksAux_mem {α : Type} (n : Nat) :
    ∀ (fuel : Nat) (xs c : List α), c ∈ chunksAux n fuel xs → c.length ≤ n ∧ c.length ≤ xs.length := by
  intro fuel
  induction fuel with
  | zero => intro xs c h; simp [chunksAux] at h
  | succ f ih =>
    intro xs c h
    simp only [chunksAux] at h
    split at h
    · simp at h
    · simp only [List.mem_cons] at h
      cases h with
      | inl h => subst h; simp [List.length_take]; omega
      | inr h =>
        have := ih _ _ h
        simp only [List.length_drop] at this
        omega

/-- the number of chunks is `⌈len / n⌉` -/
theorem chunksAux_length {α : Type} (n : Nat) (hn : 0 < n) :
    ∀ (fuel : Nat) (xs : List α), xs.length ≤ fuel → (chunksAux n fuel xs).length * n < xs.length + n ∧
      xs.length ≤ (chunksAux n fuel xs).length * n := by
  intro fuel
  induction fuel with
  | zero => intro xs h; cases xs <;> simp_all [chunksAux]
  | succ f ih =>
    intro xs h
    simp only [chunksAux]
    cases xs with
    | nil => simp; exact hn
    | cons x xs =>
      simp only [List.isEmpty_cons, Bool.false_eq_true, if_false, List.length_cons]
      have hd : ((x :: xs).drop n).length ≤ f := by
        simp only [List.length_drop, List.length_cons] at *; omega
      have := ih _ hd
      simp only [List.length_drop, List.length_cons] at this
      rw [Nat.add_mul]
      by_cases hle : n ≤ xs.length + 1
      · omega
      · have h0 : xs.length + 1 - n = 0 := by omega
        rw [h0] at this
        have hz : (chunksAux n f (List.drop n (x :: xs))).length = 0 := by
          cases hlen : (chunksAux n f (List.drop n (x :: xs))).length with
          | zero => rfl
          | succ k =>
            rw [hlen] at this
            rw [Nat.add_mul] at this
            omega
        rw [hz]; omega

/-! ### `fit_in_leptos_tuple` -/

theorem chunkSize_pos {len : Nat} (h : ¬ len ≤ tupleMaxSize) :
    0 < (len + (tupleMaxSize - 1)) / tupleMaxSize := by
  simp only [tupleMaxSize] at *
  omega

theorem chunkSize_lt {len : Nat} (h : ¬ len ≤ tupleMaxSize) :
    (len + (tupleMaxSize - 1)) / tupleMaxSize < len := by
  simp only [tupleMaxSize] at *
  omega

/-- the chunking neither drops, duplicates nor reorders anything — for every fuel -/
theorem fitAux_render (tbl : List Str) (ρ : Eval.Env) :
    ∀ (fuel : Nat) (xs : List VExpr), renderView tbl ρ (fitAux fuel xs) = renderViewL tbl ρ xs := by
  intro fuel
  induction fuel with
  | zero => intro xs; simp [fitAux, renderView]
  | succ f ih =>
    intro xs
    simp only [fitAux]
    split
    · simp [renderView]
    · rename_i h
      simp only [renderView]
      rw [renderViewL_eq_flatten, List.map_map]
      have : (renderView tbl ρ ∘ fitAux f) = renderViewL tbl ρ := by
        funext c; simp [ih]
      rw [this, ← renderViewL_flatten, chunks_flatten _ (chunkSize_pos h)]

/-- `fuel = length` is enough: more fuel does not change the result -/
theorem fitAux_fuel : ∀ (f1 f2 : Nat) (xs : List VExpr), xs.length ≤ f1 → xs.length ≤ f2 →
    fitAux f1 xs = fitAux f2 xs := by
  intro f1
  induction f1 with
  | zero =>
    intro f2 xs h1 _
    have : xs = [] := by cases xs <;> simp_all
    subst this
    cases f2 <;> simp [fitAux, tupleMaxSize]
  | succ f ih =>
    intro f2 xs h1 h2
    cases f2 with
    | zero =>
      have : xs = [] := by cases xs <;> simp_all
      subst this
      simp [fitAux, tupleMaxSize]
    | succ g =>
      simp only [fitAux]
      split
      · rfl
      · rename_i h
        congr 1
        apply List.map_congr_left
        intro c hc
        have hc' := chunksAux_mem _ _ _ _ hc
        have := chunkSize_lt h
        exact ih g c (by omega) (by omega)

theorem tuplesOkL_iff (xs : List VExpr) : tuplesOkL xs = true ↔ ∀ x ∈ xs, x.tuplesOk = true := by
  induction xs with
  | nil => simp [tuplesOkL]
  | cons x xs ih => simp [tuplesOkL, ih]

theorem chunks_count_le {α : Type} (xs : List α) (h : ¬ xs.length ≤ tupleMaxSize) :
    (chunks ((xs.length + (tupleMaxSize - 1)) / tupleMaxSize) xs).length ≤ tupleMaxSize := by
  have hpos := chunkSize_pos h
  have := (chunksAux_length _ hpos xs.length xs (Nat.le_refl _)).1
  unfold chunks
  generalize (chunksAux ((xs.length + (tupleMaxSize - 1)) / tupleMaxSize) xs.length xs).length = L at *
  generalize hcs : (xs.length + (tupleMaxSize - 1)) / tupleMaxSize = cs at *
  have hcov : xs.length ≤ cs * tupleMaxSize := by
    simp only [tupleMaxSize] at *; omega
  have h27 : L * cs < (tupleMaxSize + 1) * cs := by
    rw [Nat.add_mul, Nat.mul_comm tupleMaxSize cs]; omega
  have := Nat.lt_of_mul_lt_mul_right h27
  omega

theorem fitAux_tuplesOk : ∀ (fuel : Nat) (xs : List VExpr), xs.length ≤ fuel →
    tuplesOkL xs = true → (fitAux fuel xs).tuplesOk = true := by
  intro fuel
  induction fuel with
  | zero =>
    intro xs h hok
    have : xs = [] := by cases xs <;> simp_all
    subst this
    simp [fitAux, VExpr.tuplesOk, tuplesOkL]
  | succ f ih =>
    intro xs h hok
    simp only [fitAux]
    split
    · rename_i hle
      simp [VExpr.tuplesOk, hle, hok]
    · rename_i hgt
      have hcs := chunkSize_lt hgt
      have hpos := chunkSize_pos hgt
      simp only [VExpr.tuplesOk, Bool.and_eq_true, decide_eq_true_eq, List.length_map]
      refine ⟨chunks_count_le xs hgt, ?_⟩
      rw [tuplesOkL_iff]
      intro e he
      simp only [List.mem_map] at he
      obtain ⟨c, hc, rfl⟩ := he
      have hlen := chunksAux_mem _ _ _ _ hc
      apply ih c (by omega)
      rw [tuplesOkL_iff] at hok ⊢
      intro x hx
      apply hok
      have : x ∈ (chunks ((xs.length + (tupleMaxSize - 1)) / tupleMaxSize) xs).flatten :=
        List.mem_flatten.mpr ⟨c, hc, hx⟩
      rwa [chunks_flatten _ hpos] at this

/-! ### view back-end = denotation -/

theorem finishView_ok {r : Res (List VExpr)} {e : VExpr} (h : finishView r = .ok e) :
    ∃ es, r = .ok es ∧ ∀ tbl ρ, renderView tbl ρ e = renderViewL tbl ρ es := by
  cases r with
  | err k => simp [finishView] at h
  | panic p => simp [finishView] at h
  | ok es =>
    refine ⟨es, rfl, ?_⟩
    intro tbl ρ
    match es, h with
    | [], h => simp [finishView] at h; subst h; simp [renderView, renderViewL]
    | [x], h => simp [finishView] at h; subst h; simp [renderViewL]
    | x :: y :: zs, h =>
      simp [finishView] at h; subst h
      exact fitAux_render tbl ρ _ _

theorem litTok_render (tbl : List Str) (ρ : Eval.Env) (l : Lit) (h : indexed tbl (.lit l) = true) :
    renderView tbl ρ (litTok l) = l.display := by
  cases l with
  | str s i =>
    cases i with
    | none => simp [indexed] at h
    | some i =>
      simp only [indexed, beq_iff_eq] at h
      simp [litTok, idxOf, renderView, Lit.display, List.getD, h]
  | signed v => simp [litTok, renderView]
  | unsigned v => simp [litTok, renderView]
  | float d => simp [litTok, renderView]
  | bool b => simp [litTok, renderView]

mutual
theorem flatten_sound (tbl : List Str) (ρ : Eval.Env) : ∀ (v : PV) (es : List VExpr),
    flatten v = .ok es → indexed tbl v = true → renderViewL tbl ρ es = Eval.eval ρ v
  | .dflt, es, h, _ => by simp [flatten] at h
  | .subkeys _, es, h, _ => by simp [flatten] at h
  | .fk (.notSet _ _), es, h, _ => by simp [flatten] at h
  | .lit l, es, h, hi => by
    simp only [flatten, Res.ok.injEq] at h; subst h
    simp [renderViewL, Eval.eval, litTok_render tbl ρ l hi]
  | .var k f, es, h, _ => by
    simp only [flatten, Res.ok.injEq] at h; subst h
    simp [renderViewL, renderView, Eval.eval]
  | .comp k inner, es, h, hi => by
    simp only [flatten] at h
    cases hf : finishView (flatten inner) with
    | err e => rw [hf] at h; simp at h
    | panic p => rw [hf] at h; simp at h
    | ok e =>
      rw [hf] at h
      simp only [Res.ok.injEq] at h; subst h
      obtain ⟨es', hes', hr⟩ := finishView_ok hf
      simp only [indexed] at hi
      have ih := flatten_sound tbl ρ inner es' hes' hi
      simp [renderViewL, renderView, Eval.eval, hr, ih]
  | .bloc items, es, h, hi => by
    simp only [flatten] at h
    simp only [indexed] at hi
    simp only [Eval.eval]
    exact flattenL_sound tbl ρ items es h hi
  | .fk (.set inner), es, h, hi => by
    simp only [flatten] at h
    simp only [indexed] at hi
    simp only [Eval.eval]
    exact flatten_sound tbl ρ inner es h hi
  | .ranges ck ty bs, es, h, hi => by
    simp only [flatten] at h
    split at h
    · simp at h
    · cases ha : armsView bs with
      | err e => rw [ha] at h; simp at h
      | panic p => rw [ha] at h; simp at h
      | ok arms =>
        rw [ha] at h
        simp only [Res.ok.injEq] at h; subst h
        simp only [indexed] at hi
        simp [renderViewL, renderView, Eval.eval, armsView_sound tbl ρ bs arms ha hi]
  | .plurals rule ck other forms, es, h, hi => by
    simp only [flatten] at h
    simp only [indexed, Bool.and_eq_true] at hi
    cases ho : finishView (flatten other) with
    | err e => rw [ho] at h; simp at h
    | panic p => rw [ho] at h; simp at h
    | ok o =>
      rw [ho] at h
      simp only at h
      cases hf : formsView forms with
      | err e => rw [hf] at h; simp at h
      | panic p => rw [hf] at h; simp at h
      | ok arms =>
        rw [hf] at h
        simp only [Res.ok.injEq] at h; subst h
        obtain ⟨es', hes', hr⟩ := finishView_ok ho
        have iho := flatten_sound tbl ρ other es' hes' hi.1
        simp only [renderViewL, renderView, Eval.eval, formsView_sound tbl ρ forms arms hf hi.2, hr,
          iho, List.append_nil]
        cases Eval.evalForm ρ (ρ.cat rule (ρ.count ck)) forms <;> rfl
theorem flattenL_sound (tbl : List Str) (ρ : Eval.Env) : ∀ (items : List PV) (es : List VExpr),
    flattenL items = .ok es → indexedL tbl items = true → renderViewL tbl ρ es = Eval.evalL ρ items
  | [], es, h, _ => by
    simp only [flattenL, Res.ok.injEq] at h; subst h
    simp [renderViewL, Eval.evalL]
  | x :: xs, es, h, hi => by
    simp only [flattenL] at h
    simp only [indexedL, Bool.and_eq_true] at hi
    cases hx : flatten x with
    | err e => rw [hx] at h; simp at h
    | panic p => rw [hx] at h; simp at h
    | ok a =>
      rw [hx] at h
      simp only at h
      cases hxs : flattenL xs with
      | err e => rw [hxs] at h; simp at h
      | panic p => rw [hxs] at h; simp at h
      | ok b =>
        rw [hxs] at h
        simp only [Res.ok.injEq] at h; subst h
        rw [renderViewL_append, flatten_sound tbl ρ x a hx hi.1, flattenL_sound tbl ρ xs b hxs hi.2]
        simp [Eval.evalL]
theorem armsView_sound (tbl : List Str) (ρ : Eval.Env) : ∀ (bs : List (Range × PV))
    (arms : List (Range × VExpr)), armsView bs = .ok arms → indexedB tbl bs = true →
    ∀ c, renderArms tbl ρ c arms = Eval.evalBranches ρ c bs
  | [], arms, h, _, c => by
    simp only [armsView, Res.ok.injEq] at h; subst h
    simp [renderArms, Eval.evalBranches]
  | (r, v) :: rest, arms, h, hi, c => by
    simp only [armsView] at h
    simp only [indexedB, Bool.and_eq_true] at hi
    cases hv : finishView (flatten v) with
    | err e => rw [hv] at h; simp at h
    | panic p => rw [hv] at h; simp at h
    | ok e =>
      rw [hv] at h
      simp only at h
      cases hr : armsView rest with
      | err e => rw [hr] at h; simp at h
      | panic p => rw [hr] at h; simp at h
      | ok arms' =>
        rw [hr] at h
        simp only [Res.ok.injEq] at h; subst h
        obtain ⟨es', hes', hrd⟩ := finishView_ok hv
        simp only [renderArms, Eval.evalBranches, hrd, flatten_sound tbl ρ v es' hes' hi.1,
          armsView_sound tbl ρ rest arms' hr hi.2 c]
theorem formsView_sound (tbl : List Str) (ρ : Eval.Env) : ∀ (forms : List (Form × PV))
    (arms : List (Form × VExpr)), formsView forms = .ok arms → indexedF tbl forms = true →
    ∀ f, renderForms tbl ρ f arms = Eval.evalForm ρ f forms
  | [], arms, h, _, f => by
    simp only [formsView, Res.ok.injEq] at h; subst h
    simp [renderForms, Eval.evalForm]
  | (f', v) :: rest, arms, h, hi, f => by
    simp only [formsView] at h
    simp only [indexedF, Bool.and_eq_true] at hi
    cases hv : finishView (flatten v) with
    | err e => rw [hv] at h; simp at h
    | panic p => rw [hv] at h; simp at h
    | ok e =>
      rw [hv] at h
      simp only at h
      cases hr : formsView rest with
      | err e => rw [hr] at h; simp at h
      | panic p => rw [hr] at h; simp at h
      | ok arms' =>
        rw [hr] at h
        simp only [Res.ok.injEq] at h; subst h
        obtain ⟨es', hes', hrd⟩ := finishView_ok hv
        simp only [renderForms, Eval.evalForm, hrd, flatten_sound tbl ρ v es' hes' hi.1,
          formsView_sound tbl ρ rest arms' hr hi.2 f]
end

/-! ### Display back-end = denotation -/

theorem finishDisplay_ok {r : Res (List DExpr)} {e : DExpr} (h : finishDisplay r = .ok e) :
    ∃ es, r = .ok es ∧ ∀ tbl ρ, renderDisplay tbl ρ e = renderDisplayL tbl ρ es := by
  cases r with
  | err k => simp [finishDisplay] at h
  | panic p => simp [finishDisplay] at h
  | ok es =>
    refine ⟨es, rfl, ?_⟩
    intro tbl ρ
    match es, h with
    | [], h => simp [finishDisplay] at h; subst h; simp [renderDisplay, renderDisplayL]
    | [x], h => simp [finishDisplay] at h; subst h; simp [renderDisplayL]
    | x :: y :: zs, h =>
      simp [finishDisplay] at h; subst h
      simp [renderDisplay]

theorem litWrite_render (tbl : List Str) (ρ : Eval.Env) (l : Lit) (h : indexed tbl (.lit l) = true) :
    renderDisplay tbl ρ (litWrite l) = l.display := by
  cases l with
  | str s i =>
    cases i with
    | none => simp [indexed] at h
    | some i =>
      simp only [indexed, beq_iff_eq] at h
      simp [litWrite, idxOf, renderDisplay, Lit.display, List.getD, h]
  | signed v => simp [litWrite, renderDisplay]
  | unsigned v => simp [litWrite, renderDisplay]
  | float d => simp [litWrite, renderDisplay]
  | bool b => simp [litWrite, renderDisplay]

mutual
theorem flattenString_sound (tbl : List Str) (ρ : Eval.Env) : ∀ (v : PV) (es : List DExpr),
    flattenString v = .ok es → indexed tbl v = true → renderDisplayL tbl ρ es = Eval.eval ρ v
  | .dflt, es, h, _ => by simp [flattenString] at h
  | .subkeys _, es, h, _ => by simp [flattenString] at h
  | .fk (.notSet _ _), es, h, _ => by simp [flattenString] at h
  | .lit l, es, h, hi => by
    simp only [flattenString, Res.ok.injEq] at h; subst h
    simp [renderDisplayL, Eval.eval, litWrite_render tbl ρ l hi]
  | .var k f, es, h, _ => by
    simp only [flattenString, Res.ok.injEq] at h; subst h
    simp [renderDisplayL, renderDisplay, Eval.eval]
  | .comp k inner, es, h, hi => by
    simp only [flattenString] at h
    cases hf : finishDisplay (flattenString inner) with
    | err e => rw [hf] at h; simp at h
    | panic p => rw [hf] at h; simp at h
    | ok e =>
      rw [hf] at h
      simp only [Res.ok.injEq] at h; subst h
      obtain ⟨es', hes', hr⟩ := finishDisplay_ok hf
      simp only [indexed] at hi
      have ih := flattenString_sound tbl ρ inner es' hes' hi
      simp [renderDisplayL, renderDisplay, Eval.eval, hr, ih]
  | .bloc items, es, h, hi => by
    simp only [flattenString] at h
    simp only [indexed] at hi
    simp only [Eval.eval]
    exact flattenStringL_sound tbl ρ items es h hi
  | .fk (.set inner), es, h, hi => by
    simp only [flattenString] at h
    simp only [indexed] at hi
    simp only [Eval.eval]
    exact flattenString_sound tbl ρ inner es h hi
  | .ranges ck ty bs, es, h, hi => by
    simp only [flattenString] at h
    cases ha : armsDisplay bs with
    | err e => rw [ha] at h; simp at h
    | panic p => rw [ha] at h; simp at h
    | ok arms =>
      rw [ha] at h
      simp only [Res.ok.injEq] at h; subst h
      simp only [indexed] at hi
      simp [renderDisplayL, renderDisplay, Eval.eval, armsDisplay_sound tbl ρ bs arms ha hi]
  | .plurals rule ck other forms, es, h, hi => by
    simp only [flattenString] at h
    simp only [indexed, Bool.and_eq_true] at hi
    cases ho : finishDisplay (flattenString other) with
    | err e => rw [ho] at h; simp at h
    | panic p => rw [ho] at h; simp at h
    | ok o =>
      rw [ho] at h
      simp only at h
      cases hf : formsDisplay forms with
      | err e => rw [hf] at h; simp at h
      | panic p => rw [hf] at h; simp at h
      | ok arms =>
        rw [hf] at h
        simp only [Res.ok.injEq] at h; subst h
        obtain ⟨es', hes', hr⟩ := finishDisplay_ok ho
        have iho := flattenString_sound tbl ρ other es' hes' hi.1
        simp only [renderDisplayL, renderDisplay, Eval.eval, formsDisplay_sound tbl ρ forms arms hf hi.2, hr,
          iho, List.append_nil]
        cases Eval.evalForm ρ (ρ.cat rule (ρ.count ck)) forms <;> rfl
theorem flattenStringL_sound (tbl : List Str) (ρ : Eval.Env) : ∀ (items : List PV) (es : List DExpr),
    flattenStringL items = .ok es → indexedL tbl items = true → renderDisplayL tbl ρ es = Eval.evalL ρ items
  | [], es, h, _ => by
    simp only [flattenStringL, Res.ok.injEq] at h; subst h
    simp [renderDisplayL, Eval.evalL]
  | x :: xs, es, h, hi => by
    simp only [flattenStringL] at h
    simp only [indexedL, Bool.and_eq_true] at hi
    cases hx : flattenString x with
    | err e => rw [hx] at h; simp at h
    | panic p => rw [hx] at h; simp at h
    | ok a =>
      rw [hx] at h
      simp only at h
      cases hxs : flattenStringL xs with
      | err e => rw [hxs] at h; simp at h
      | panic p => rw [hxs] at h; simp at h
      | ok b =>
        rw [hxs] at h
        simp only [Res.ok.injEq] at h; subst h
        rw [renderDisplayL_append, flattenString_sound tbl ρ x a hx hi.1, flattenStringL_sound tbl ρ xs b hxs hi.2]
        simp [Eval.evalL]
theorem armsDisplay_sound (tbl : List Str) (ρ : Eval.Env) : ∀ (bs : List (Range × PV))
    (arms : List (Range × DExpr)), armsDisplay bs = .ok arms → indexedB tbl bs = true →
    ∀ c, renderDArms tbl ρ c arms = Eval.evalBranches ρ c bs
  | [], arms, h, _, c => by
    simp only [armsDisplay, Res.ok.injEq] at h; subst h
    simp [renderDArms, Eval.evalBranches]
  | (r, v) :: rest, arms, h, hi, c => by
    simp only [armsDisplay] at h
    simp only [indexedB, Bool.and_eq_true] at hi
    cases hv : finishDisplay (flattenString v) with
    | err e => rw [hv] at h; simp at h
    | panic p => rw [hv] at h; simp at h
    | ok e =>
      rw [hv] at h
      simp only at h
      cases hr : armsDisplay rest with
      | err e => rw [hr] at h; simp at h
      | panic p => rw [hr] at h; simp at h
      | ok arms' =>
        rw [hr] at h
        simp only [Res.ok.injEq] at h; subst h
        obtain ⟨es', hes', hrd⟩ := finishDisplay_ok hv
        simp only [renderDArms, Eval.evalBranches, hrd, flattenString_sound tbl ρ v es' hes' hi.1,
          armsDisplay_sound tbl ρ rest arms' hr hi.2 c]
theorem formsDisplay_sound (tbl : List Str) (ρ : Eval.Env) : ∀ (forms : List (Form × PV))
    (arms : List (Form × DExpr)), formsDisplay forms = .ok arms → indexedF tbl forms = true →
    ∀ f, renderDForms tbl ρ f arms = Eval.evalForm ρ f forms
  | [], arms, h, _, f => by
    simp only [formsDisplay, Res.ok.injEq] at h; subst h
    simp [renderDForms, Eval.evalForm]
  | (f', v) :: rest, arms, h, hi, f => by
    simp only [formsDisplay] at h
    simp only [indexedF, Bool.and_eq_true] at hi
    cases hv : finishDisplay (flattenString v) with
    | err e => rw [hv] at h; simp at h
    | panic p => rw [hv] at h; simp at h
    | ok e =>
      rw [hv] at h
      simp only at h
      cases hr : formsDisplay rest with
      | err e => rw [hr] at h; simp at h
      | panic p => rw [hr] at h; simp at h
      | ok arms' =>
        rw [hr] at h
        simp only [Res.ok.injEq] at h; subst h
        obtain ⟨es', hes', hrd⟩ := finishDisplay_ok hv
        simp only [renderDForms, Eval.evalForm, hrd, flattenString_sound tbl ρ v es' hes' hi.1,
          formsDisplay_sound tbl ρ rest arms' hr hi.2 f]
end

/-! ### totality on renderable values; the only failures are the named panics -/

/-- `.ok` exactly when `b`, `.panic` exactly when `¬ b`, never `.err` -/
def outcomeOk {α : Type} (r : Res α) (b : Bool) : Prop :=
  match r with
  | .ok _ => b = true
  | .panic _ => b = false
  | .err _ => False

def finOk : List VExpr → VExpr
  | [] => .empty
  | [x] => x
  | xs => fitInLeptosTuple xs

theorem finishView_okEq (es : List VExpr) : finishView (.ok es) = .ok (finOk es) := by
  match es with
  | [] => rfl
  | [x] => rfl
  | x :: y :: zs => rfl

theorem finishView_outcome {r : Res (List VExpr)} {b : Bool} (h : outcomeOk r b) :
    outcomeOk (finishView r) b := by
  cases r with
  | ok es => rw [finishView_okEq]; exact h
  | err k => exact h
  | panic p => exact h

mutual
theorem flatten_outcome : ∀ (v : PV), outcomeOk (flatten v) (renderable v)
  | .dflt => by simp [flatten, renderable, outcomeOk]
  | .subkeys _ => by simp [flatten, renderable, outcomeOk]
  | .fk (.notSet _ _) => by simp [flatten, renderable, outcomeOk]
  | .lit l => by simp [flatten, renderable, outcomeOk]
  | .var k f => by simp [flatten, renderable, outcomeOk]
  | .comp k inner => by
    have ih := finishView_outcome (flatten_outcome inner)
    simp only [flatten, renderable]
    cases hf : finishView (flatten inner) <;> simp_all [outcomeOk]
  | .bloc items => by
    simp only [flatten, renderable]
    exact flattenL_outcome items
  | .fk (.set inner) => by
    simp only [flatten, renderable]
    exact flatten_outcome inner
  | .ranges ck ty bs => by
    have ih := armsView_outcome bs
    simp only [flatten, renderable]
    by_cases hb : bs.isEmpty = true
    · simp [hb, outcomeOk]
    · simp only [hb]
      cases ha : armsView bs <;> simp_all [outcomeOk]
  | .plurals rule ck other forms => by
    have iho := finishView_outcome (flatten_outcome other)
    have ihf := formsView_outcome forms
    simp only [flatten, renderable]
    cases ho : finishView (flatten other) with
    | err e => simp_all [outcomeOk]
    | panic p => simp_all [outcomeOk]
    | ok o =>
      cases hf : formsView forms <;> simp_all [outcomeOk]
theorem flattenL_outcome : ∀ (items : List PV), outcomeOk (flattenL items) (renderableL items)
  | [] => by simp [flattenL, renderableL, outcomeOk]
  | x :: xs => by
    have ihx := flatten_outcome x
    have ihs := flattenL_outcome xs
    simp only [flattenL, renderableL]
    cases hx : flatten x with
    | err e => simp_all [outcomeOk]
    | panic p => simp_all [outcomeOk]
    | ok a =>
      cases hs : flattenL xs <;> simp_all [outcomeOk]
theorem armsView_outcome : ∀ (bs : List (Range × PV)), outcomeOk (armsView bs) (renderableB bs)
  | [] => by simp [armsView, renderableB, outcomeOk]
  | (r, v) :: rest => by
    have ihv := finishView_outcome (flatten_outcome v)
    have ihs := armsView_outcome rest
    simp only [armsView, renderableB]
    cases hv : finishView (flatten v) with
    | err e => simp_all [outcomeOk]
    | panic p => simp_all [outcomeOk]
    | ok a =>
      cases hs : armsView rest <;> simp_all [outcomeOk]
theorem formsView_outcome : ∀ (fs : List (Form × PV)), outcomeOk (formsView fs) (renderableF fs)
  | [] => by simp [formsView, renderableF, outcomeOk]
  | (f, v) :: rest => by
    have ihv := finishView_outcome (flatten_outcome v)
    have ihs := formsView_outcome rest
    simp only [formsView, renderableF]
    cases hv : finishView (flatten v) with
    | err e => simp_all [outcomeOk]
    | panic p => simp_all [outcomeOk]
    | ok a =>
      cases hs : formsView rest <;> simp_all [outcomeOk]
end

def finOkD : List DExpr → DExpr
  | [] => .ok
  | [x] => x
  | xs => .seq xs

theorem finishDisplay_okEq (es : List DExpr) : finishDisplay (.ok es) = .ok (finOkD es) := by
  match es with
  | [] => rfl
  | [x] => rfl
  | x :: y :: zs => rfl

theorem finishDisplay_outcome {r : Res (List DExpr)} {b : Bool} (h : outcomeOk r b) :
    outcomeOk (finishDisplay r) b := by
  cases r with
  | ok es => rw [finishDisplay_okEq]; exact h
  | err k => exact h
  | panic p => exact h

mutual
theorem flattenString_outcome : ∀ (v : PV), outcomeOk (flattenString v) (renderableD v)
  | .dflt => by simp [flattenString, renderableD, outcomeOk]
  | .subkeys _ => by simp [flattenString, renderableD, outcomeOk]
  | .fk (.notSet _ _) => by simp [flattenString, renderableD, outcomeOk]
  | .lit l => by simp [flattenString, renderableD, outcomeOk]
  | .var k f => by simp [flattenString, renderableD, outcomeOk]
  | .comp k inner => by
    have ih := finishDisplay_outcome (flattenString_outcome inner)
    simp only [flattenString, renderableD]
    cases hf : finishDisplay (flattenString inner) <;> simp_all [outcomeOk]
  | .bloc items => by
    simp only [flattenString, renderableD]
    exact flattenStringL_outcome items
  | .fk (.set inner) => by
    simp only [flattenString, renderableD]
    exact flattenString_outcome inner
  | .ranges ck ty bs => by
    have ih := armsDisplay_outcome bs
    simp only [flattenString, renderableD]
    cases ha : armsDisplay bs <;> simp_all [outcomeOk]
  | .plurals rule ck other forms => by
    have iho := finishDisplay_outcome (flattenString_outcome other)
    have ihf := formsDisplay_outcome forms
    simp only [flattenString, renderableD]
    cases ho : finishDisplay (flattenString other) with
    | err e => simp_all [outcomeOk]
    | panic p => simp_all [outcomeOk]
    | ok o =>
      cases hf : formsDisplay forms <;> simp_all [outcomeOk]
theorem flattenStringL_outcome : ∀ (items : List PV), outcomeOk (flattenStringL items) (renderableDL items)
  | [] => by simp [flattenStringL, renderableDL, outcomeOk]
  | x :: xs => by
    have ihx := flattenString_outcome x
    have ihs := flattenStringL_outcome xs
    simp only [flattenStringL, renderableDL]
    cases hx : flattenString x with
    | err e => simp_all [outcomeOk]
    | panic p => simp_all [outcomeOk]
    | ok a =>
      cases hs : flattenStringL xs <;> simp_all [outcomeOk]
theorem armsDisplay_outcome : ∀ (bs : List (Range × PV)), outcomeOk (armsDisplay bs) (renderableDB bs)
  | [] => by simp [armsDisplay, renderableDB, outcomeOk]
  | (r, v) :: rest => by
    have ihv := finishDisplay_outcome (flattenString_outcome v)
    have ihs := armsDisplay_outcome rest
    simp only [armsDisplay, renderableDB]
    cases hv : finishDisplay (flattenString v) with
    | err e => simp_all [outcomeOk]
    | panic p => simp_all [outcomeOk]
    | ok a =>
      cases hs : armsDisplay rest <;> simp_all [outcomeOk]
theorem formsDisplay_outcome : ∀ (fs : List (Form × PV)), outcomeOk (formsDisplay fs) (renderableDF fs)
  | [] => by simp [formsDisplay, renderableDF, outcomeOk]
  | (f, v) :: rest => by
    have ihv := finishDisplay_outcome (flattenString_outcome v)
    have ihs := formsDisplay_outcome rest
    simp only [formsDisplay, renderableDF]
    cases hv : finishDisplay (flattenString v) with
    | err e => simp_all [outcomeOk]
    | panic p => simp_all [outcomeOk]
    | ok a =>
      cases hs : formsDisplay rest <;> simp_all [outcomeOk]
end


mutual
theorem renderable_D : ∀ (v : PV), renderable v = true → renderableD v = true
  | .dflt, h => by simp [renderable] at h
  | .subkeys _, h => by simp [renderable] at h
  | .fk (.notSet _ _), h => by simp [renderable] at h
  | .lit l, _ => by simp [renderableD]
  | .var k f, _ => by simp [renderableD]
  | .comp k inner, h => by
    simp only [renderable] at h; simp only [renderableD]; exact renderable_D inner h
  | .bloc items, h => by
    simp only [renderable] at h; simp only [renderableD]; exact renderableL_D items h
  | .fk (.set inner), h => by
    simp only [renderable] at h; simp only [renderableD]; exact renderable_D inner h
  | .ranges ck ty bs, h => by
    simp only [renderable, Bool.and_eq_true] at h; simp only [renderableD]
    exact renderableB_D bs h.2
  | .plurals rule ck other forms, h => by
    simp only [renderable, Bool.and_eq_true] at h
    simp only [renderableD, Bool.and_eq_true]
    exact ⟨renderable_D other h.1, renderableF_D forms h.2⟩
theorem renderableL_D : ∀ (l : List PV), renderableL l = true → renderableDL l = true
  | [], _ => by simp [renderableDL]
  | x :: xs, h => by
    simp only [renderableL, Bool.and_eq_true] at h
    simp only [renderableDL, Bool.and_eq_true]
    exact ⟨renderable_D x h.1, renderableL_D xs h.2⟩
theorem renderableB_D : ∀ (l : List (Range × PV)), renderableB l = true → renderableDB l = true
  | [], _ => by simp [renderableDB]
  | (r, x) :: xs, h => by
    simp only [renderableB, Bool.and_eq_true] at h
    simp only [renderableDB, Bool.and_eq_true]
    exact ⟨renderable_D x h.1, renderableB_D xs h.2⟩
theorem renderableF_D : ∀ (l : List (Form × PV)), renderableF l = true → renderableDF l = true
  | [], _ => by simp [renderableDF]
  | (r, x) :: xs, h => by
    simp only [renderableF, Bool.and_eq_true] at h
    simp only [renderableDF, Bool.and_eq_true]
    exact ⟨renderable_D x h.1, renderableF_D xs h.2⟩
end

/-! ### every generated tuple has at most 26 components -/

theorem finOk_tuplesOk (es : List VExpr) (h : tuplesOkL es = true) : (finOk es).tuplesOk = true := by
  match es, h with
  | [], _ => simp [finOk, VExpr.tuplesOk]
  | [x], h => simpa [finOk, tuplesOkL] using h
  | x :: y :: zs, h => exact fitAux_tuplesOk _ _ (Nat.le_refl _) h

theorem tuplesOkL_append (a b : List VExpr) :
    tuplesOkL (a ++ b) = (tuplesOkL a && tuplesOkL b) := by
  induction a with
  | nil => simp [tuplesOkL]
  | cons x xs ih => simp [tuplesOkL, ih, Bool.and_assoc]

theorem finishView_tuplesOk {r : Res (List VExpr)} {e : VExpr}
    (hr : ∀ es, r = .ok es → tuplesOkL es = true) (h : finishView r = .ok e) : e.tuplesOk = true := by
  cases r with
  | err k => simp [finishView] at h
  | panic p => simp [finishView] at h
  | ok es =>
    rw [finishView_okEq] at h
    simp only [Res.ok.injEq] at h; subst h
    exact finOk_tuplesOk es (hr es rfl)

mutual
theorem flatten_tuplesOk : ∀ (v : PV) (es : List VExpr), flatten v = .ok es → tuplesOkL es = true
  | .dflt, es, h => by simp [flatten] at h
  | .subkeys _, es, h => by simp [flatten] at h
  | .fk (.notSet _ _), es, h => by simp [flatten] at h
  | .lit l, es, h => by
    simp only [flatten, Res.ok.injEq] at h; subst h
    cases l <;> simp [tuplesOkL, litTok, VExpr.tuplesOk]
  | .var k f, es, h => by
    simp only [flatten, Res.ok.injEq] at h; subst h
    simp [tuplesOkL, VExpr.tuplesOk]
  | .comp k inner, es, h => by
    simp only [flatten] at h
    cases hf : finishView (flatten inner) with
    | err e => rw [hf] at h; simp at h
    | panic p => rw [hf] at h; simp at h
    | ok e =>
      rw [hf] at h
      simp only [Res.ok.injEq] at h; subst h
      have := finishView_tuplesOk (fun es hes => flatten_tuplesOk inner es hes) hf
      simp [tuplesOkL, VExpr.tuplesOk, this]
  | .bloc items, es, h => by
    simp only [flatten] at h
    exact flattenL_tuplesOk items es h
  | .fk (.set inner), es, h => by
    simp only [flatten] at h
    exact flatten_tuplesOk inner es h
  | .ranges ck ty bs, es, h => by
    simp only [flatten] at h
    split at h
    · simp at h
    · cases ha : armsView bs with
      | err e => rw [ha] at h; simp at h
      | panic p => rw [ha] at h; simp at h
      | ok arms =>
        rw [ha] at h
        simp only [Res.ok.injEq] at h; subst h
        simp [tuplesOkL, VExpr.tuplesOk, armsView_tuplesOk bs arms ha]
  | .plurals rule ck other forms, es, h => by
    simp only [flatten] at h
    cases ho : finishView (flatten other) with
    | err e => rw [ho] at h; simp at h
    | panic p => rw [ho] at h; simp at h
    | ok o =>
      rw [ho] at h
      simp only at h
      cases hf : formsView forms with
      | err e => rw [hf] at h; simp at h
      | panic p => rw [hf] at h; simp at h
      | ok arms =>
        rw [hf] at h
        simp only [Res.ok.injEq] at h; subst h
        have := finishView_tuplesOk (fun es hes => flatten_tuplesOk other es hes) ho
        simp [tuplesOkL, VExpr.tuplesOk, formsView_tuplesOk forms arms hf, this]
theorem flattenL_tuplesOk : ∀ (items : List PV) (es : List VExpr),
    flattenL items = .ok es → tuplesOkL es = true
  | [], es, h => by
    simp only [flattenL, Res.ok.injEq] at h; subst h; simp [tuplesOkL]
  | x :: xs, es, h => by
    simp only [flattenL] at h
    cases hx : flatten x with
    | err e => rw [hx] at h; simp at h
    | panic p => rw [hx] at h; simp at h
    | ok a =>
      rw [hx] at h
      simp only at h
      cases hxs : flattenL xs with
      | err e => rw [hxs] at h; simp at h
      | panic p => rw [hxs] at h; simp at h
      | ok b =>
        rw [hxs] at h
        simp only [Res.ok.injEq] at h; subst h
        simp [tuplesOkL_append, flatten_tuplesOk x a hx, flattenL_tuplesOk xs b hxs]
theorem armsView_tuplesOk : ∀ (bs : List (Range × PV)) (arms : List (Range × VExpr)),
    armsView bs = .ok arms → tuplesOkA arms = true
  | [], arms, h => by
    simp only [armsView, Res.ok.injEq] at h; subst h; simp [tuplesOkA]
  | (r, v) :: rest, arms, h => by
    simp only [armsView] at h
    cases hv : finishView (flatten v) with
    | err e => rw [hv] at h; simp at h
    | panic p => rw [hv] at h; simp at h
    | ok e =>
      rw [hv] at h
      simp only at h
      cases hr : armsView rest with
      | err e => rw [hr] at h; simp at h
      | panic p => rw [hr] at h; simp at h
      | ok arms' =>
        rw [hr] at h
        simp only [Res.ok.injEq] at h; subst h
        have := finishView_tuplesOk (fun es hes => flatten_tuplesOk v es hes) hv
        simp [tuplesOkA, this, armsView_tuplesOk rest arms' hr]
theorem formsView_tuplesOk : ∀ (fs : List (Form × PV)) (arms : List (Form × VExpr)),
    formsView fs = .ok arms → tuplesOkF arms = true
  | [], arms, h => by
    simp only [formsView, Res.ok.injEq] at h; subst h; simp [tuplesOkF]
  | (f, v) :: rest, arms, h => by
    simp only [formsView] at h
    cases hv : finishView (flatten v) with
    | err e => rw [hv] at h; simp at h
    | panic p => rw [hv] at h; simp at h
    | ok e =>
      rw [hv] at h
      simp only at h
      cases hr : formsView rest with
      | err e => rw [hr] at h; simp at h
      | panic p => rw [hr] at h; simp at h
      | ok arms' =>
        rw [hr] at h
        simp only [Res.ok.injEq] at h; subst h
        have := finishView_tuplesOk (fun es hes => flatten_tuplesOk v es hes) hv
        simp [tuplesOkF, this, formsView_tuplesOk rest arms' hr]
end

/-! ### `EitherOfWrapper` -/

theorem eitherNewAux_spec : ∀ (fuel n : Nat), n ≤ fuel → 1 ≤ n →
    ∃ w, eitherNewAux fuel n = some w ∧ w.size = n ∧ w.wf = true := by
  intro fuel
  induction fuel with
  | zero => intro n h1 h2; omega
  | succ f ih =>
    intro n h1 h2
    match n, h1, h2 with
    | 1, _, _ => exact ⟨.single, by simp [eitherNewAux], rfl, rfl⟩
    | 2, _, _ => exact ⟨.duo, by simp [eitherNewAux], rfl, rfl⟩
    | m + 3, h1, _ =>
      simp only [eitherNewAux]
      by_cases hm : m + 3 ≤ 16
      · refine ⟨.multiple (m + 3), by simp [hm], rfl, ?_⟩
        simp [Wrapper.wf, hm]
      · obtain ⟨w, hw, hs, hwf⟩ := ih (m - 12) (by omega) (by omega)
        refine ⟨.nested w, by simp [hm, hw], ?_, ?_⟩
        · simp only [Wrapper.size, hs]; omega
        · simpa [Wrapper.wf] using hwf

theorem eitherNew_spec (n : Nat) (h : 1 ≤ n) :
    ∃ w, eitherNew n = some w ∧ w.size = n ∧ w.wf = true :=
  eitherNewAux_spec n n (Nat.le_refl _) h

/-- more fuel than `size` changes nothing -/
theorem eitherNewAux_fuel : ∀ (f1 f2 n : Nat), n ≤ f1 → n ≤ f2 →
    eitherNewAux f1 n = eitherNewAux f2 n := by
  intro f1
  induction f1 with
  | zero =>
    intro f2 n h1 _
    have : n = 0 := by omega
    subst this
    cases f2 <;> simp [eitherNewAux]
  | succ f ih =>
    intro f2 n h1 h2
    match n, h1, h2 with
    | 0, _, _ => cases f2 <;> simp [eitherNewAux]
    | 1, _, _ => cases f2 <;> simp [eitherNewAux]
    | 2, _, _ => cases f2 <;> simp [eitherNewAux]
    | m + 3, h1, h2 =>
      cases f2 with
      | zero => omega
      | succ g =>
        simp only [eitherNewAux]
        by_cases hm : m + 3 ≤ 16
        · simp [hm]
        · simp only [hm, if_false]
          rw [ih g (m + 3 - 15) (by omega) (by omega)]

theorem wrap_defined : ∀ (w : Wrapper) (i : Nat), w.wf = true → i < w.size →
    ∃ p, wrap w i = some p ∧ w.validPath p = true
  | .single, i, _, _ => ⟨[], by simp [wrap], by simp [Wrapper.validPath]⟩
  | .duo, i, _, hi => by
    refine ⟨[if i = 0 then 0 else 1], by simp [wrap], ?_⟩
    simp only [Wrapper.validPath]
    split <;> simp
  | .multiple n, i, hwf, hi => by
    simp only [Wrapper.wf, Bool.and_eq_true, decide_eq_true_eq] at hwf
    simp only [Wrapper.size] at hi
    refine ⟨[i], ?_, ?_⟩
    · have : i < 16 := by omega
      simp [wrap, this]
    · simp [Wrapper.validPath, hi]
  | .nested last, i, hwf, hi => by
    simp only [Wrapper.wf] at hwf
    simp only [Wrapper.size] at hi
    by_cases h14 : i ≤ 14
    · refine ⟨[i], by simp [wrap, h14], ?_⟩
      have : i < 15 := by omega
      simp [Wrapper.validPath, this]
    · obtain ⟨p, hp, hv⟩ := wrap_defined last (i - 15) hwf (by omega)
      refine ⟨15 :: p, by simp [wrap, h14, hp], ?_⟩
      simp [Wrapper.validPath, hv]

theorem wrap_injective : ∀ (w : Wrapper) (i j : Nat), w.wf = true → i < w.size → j < w.size →
    wrap w i = wrap w j → i = j
  | .single, i, j, _, hi, hj, _ => by simp only [Wrapper.size] at hi hj; omega
  | .duo, i, j, _, hi, hj, h => by
    simp only [Wrapper.size] at hi hj
    simp only [wrap, Option.some.injEq, List.cons.injEq, and_true] at h
    by_cases h0 : i = 0 <;> by_cases h1 : j = 0 <;> simp [h0, h1] at h <;> omega
  | .multiple n, i, j, hwf, hi, hj, h => by
    simp only [Wrapper.wf, Bool.and_eq_true, decide_eq_true_eq] at hwf
    simp only [Wrapper.size] at hi hj
    have h1 : i < 16 := by omega
    have h2 : j < 16 := by omega
    simpa [wrap, h1, h2] using h
  | .nested last, i, j, hwf, hi, hj, h => by
    simp only [Wrapper.wf] at hwf
    simp only [Wrapper.size] at hi hj
    simp only [wrap] at h
    by_cases hi14 : i ≤ 14 <;> by_cases hj14 : j ≤ 14
    · simpa [hi14, hj14] using h
    · simp only [hi14, hj14, if_true, if_false] at h
      cases hw : wrap last (j - 15) with
      | none => rw [hw] at h; simp at h
      | some p => rw [hw] at h; simp at h; omega
    · simp only [hi14, hj14, if_true, if_false] at h
      cases hw : wrap last (i - 15) with
      | none => rw [hw] at h; simp at h
      | some p => rw [hw] at h; simp at h; omega
    · simp only [hi14, hj14, if_false] at h
      have hh : wrap last (i - 15) = wrap last (j - 15) := by
        cases h1 : wrap last (i - 15) <;> cases h2 : wrap last (j - 15) <;> simp_all
      have := wrap_injective last (i - 15) (j - 15) hwf (by omega) (by omega) hh
      omega

/-! ### scoping -/

theorem lookup_nil {α : Type} (t : KTree α) : t.lookup [] = some t := by
  cases t <;> simp [KTree.lookup]

theorem lookup_append {α : Type} : ∀ (p q : List Str) (t : KTree α),
    t.lookup (p ++ q) = (t.lookup p).bind (fun t' => t'.lookup q)
  | [], q, t => by simp [lookup_nil]
  | k :: ks, q, .leaf a => by
    cases q <;> simp [KTree.lookup]
  | k :: ks, q, .node kids => by
    simp only [List.cons_append, KTree.lookup]
    cases AMap.get? k kids with
    | none => simp
    | some c => simp only; exact lookup_append ks q c

theorem scopeChain_eq {α : Type} : ∀ (ps : List (List Str)) (t : KTree α),
    t.scopeChain ps = t.lookup ps.flatten
  | [], t => by simp [KTree.scopeChain, lookup_nil]
  | p :: ps, t => by
    simp only [KTree.scopeChain, KTree.scope, List.flatten_cons, lookup_append]
    congr 1
    funext t'
    exact scopeChain_eq ps t'

theorem slScopeChain_eq : ∀ (ps : List (List Str)) (sl : ScopedLocale),
    sl.scopeChain ps = { locale := sl.locale, pfx := sl.pfx ++ ps.flatten }
  | [], sl => by simp [ScopedLocale.scopeChain]
  | p :: ps, sl => by
    simp [ScopedLocale.scopeChain, slScopeChain_eq ps, ScopedLocale.scope, List.append_assoc]

/-! ### per-key locale dispatch -/

theorem find?_unique {α : Type} (l : List α) (p : α → Bool) (d : α) (hd : d ∈ l) (hp : p d = true)
    (hu : ∀ x ∈ l, p x = true → x = d) : l.find? p = some d := by
  cases h : l.find? p with
  | none =>
    rw [List.find?_eq_none] at h
    exact absurd hp (by simpa using h d hd)
  | some x =>
    have h1 := List.find?_some h
    have h2 := List.mem_of_find?_eq_some h
    rw [hu x h2 h1]

theorem mem_armPats (compute : List (Str × List Str)) (d l : Str) :
    l ∈ armPats compute d ↔ l = d ∨ ∃ s, AMap.get? d compute = some s ∧ l ∈ s := by
  simp only [armPats, List.mem_cons]
  cases AMap.get? d compute with
  | none => simp
  | some s => simp

/-! ### `range_to_condition` agrees with `do_match` -/

theorem Dec.eq_comm (a b : Dec) : Dec.eq a b = Dec.eq b a := by
  simp only [Dec.eq]
  exact Bool.eq_iff_iff.mpr (by simp only [beq_iff_eq]; exact _root_.eq_comm)

mutual
theorem rangeCond_doMatch (c : Dec) : ∀ (r : Range), noInnerFallback r = true →
    condTaken r c = Ranges.doMatch r c
  | .exact v, _ => by simp [condTaken, rangeCond, Ranges.doMatch, Dec.eq_comm c v]
  | .bounds start stop, _ => by
    cases start <;> cases stop <;> simp [condTaken, rangeCond, Ranges.doMatch]
  | .fallback, _ => by simp [condTaken, rangeCond, Ranges.doMatch]
  | .multi l, h => by
    simp only [noInnerFallback] at h
    simp [condTaken, rangeCond, Ranges.doMatch, rangeCondAny_doMatch c l h]
theorem rangeCondAny_doMatch (c : Dec) : ∀ (l : List Range), noInnerFallbackL l = true →
    rangeCondAny l c = Ranges.doMatch.doMatchAny l c
  | [], _ => by simp [rangeCondAny, Ranges.doMatch.doMatchAny]
  | r :: rs, h => by
    simp only [noInnerFallbackL, Bool.and_eq_true, Bool.not_eq_true'] at h
    have ih1 := rangeCond_doMatch c r h.1.2
    have ih2 := rangeCondAny_doMatch c rs h.2
    simp only [rangeCondAny, Ranges.doMatch.doMatchAny, ← ih1, ← ih2, condTaken]
    cases r with
    | fallback => simp [Ranges.isFallback] at h
    | exact v => simp [rangeCond]
    | bounds a b => simp [rangeCond]
    | multi l' => simp [rangeCond]
end

end I18nVerif.Codegen
