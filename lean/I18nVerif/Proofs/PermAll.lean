import I18nVerif.Spec.JPerm
import I18nVerif.Proofs.Perm
import I18nVerif.Proofs.NoPanic
/-!
Helper lemmas for `Theorems/C10Pipeline.lean` (key order does not matter — whole files, whole pipeline):

* `JPerm.induct`: single-motive induction principle for the nested inductive `JPerm`; `JPerm` is an
  equivalence relation; `EPerm JPerm` = a permutation followed by the entry-wise relation `ERel`
  (`EPerm.decompose`, `EPerm.compose`);
* `Res.SameOutcome`: equal, or two failures;
* below an array nothing depends on object-entry order, failures included: `rangeSpec_perm`,
  `value_inRange_perm`, `structFields_perm`/`structFields_rel`, `pairF_perm` (`pairF` of `Proofs/NoPanic.lean`
  is the `pair` closure of `Decode.value`), `value_arr_perm`;
* the loop over the entries of a group: `localeKeys_rel` (entry-wise), `localeKeys_perm` (permutation, from
  `Proofs/Perm.lean`), `value_perm` (induction on the fuel), `locale_perm`;
* the pipeline: `findFile_perm`, `decodeNs_perm`, `decodeAll_perm`, `parseRaw_perm`, `run_congr`;
* candidate failures: `value_cand` (soundness), `cand_perm` (order independence), `value_perm_unique`.
-/
namespace I18nVerif
open Str

theorem LRel.mono {R S : J → J → Prop} (h : ∀ a b, R a b → S a b) {l l' : List J} (hl : LRel R l l') :
    LRel S l l' := by
  induction hl with
  | nil => exact .nil
  | cons hx _ ih => exact .cons (h _ _ hx) ih

theorem EPerm.mono {R S : J → J → Prop} (h : ∀ a b, R a b → S a b) {l l' : List (Str × J)}
    (hl : EPerm R l l') : EPerm S l l' := by
  induction hl with
  | nil => exact .nil
  | cons k hx _ ih => exact .cons k (h _ _ hx) ih
  | swap a b l => exact .swap a b l
  | trans _ _ ih1 ih2 => exact .trans ih1 ih2

theorem JPerm.induct {P : J → J → Prop}
    (null : P .null .null) (bool : ∀ b, P (.bool b) (.bool b)) (unsigned : ∀ n, P (.unsigned n) (.unsigned n))
    (signed : ∀ i, P (.signed i) (.signed i)) (float : ∀ d, P (.float d) (.float d))
    (str : ∀ s, P (.str s) (.str s))
    (arr : ∀ l l', LRel (fun a b => JPerm a b ∧ P a b) l l' → P (.arr l) (.arr l'))
    (obj : ∀ l l', EPerm (fun a b => JPerm a b ∧ P a b) l l' → P (.obj l) (.obj l'))
    {j j' : J} (h : JPerm j j') : P j j' :=
  JPerm.rec (motive_1 := fun a b _ => P a b)
    (motive_2 := fun l l' _ => LRel (fun a b => JPerm a b ∧ P a b) l l')
    (motive_3 := fun l l' _ => EPerm (fun a b => JPerm a b ∧ P a b) l l')
    null bool unsigned signed float str
    (fun _ ih => arr _ _ ih) (fun _ ih => obj _ _ ih)
    .nil (fun hx _ ihx ihl => .cons ⟨hx, ihx⟩ ihl)
    .nil (fun k _ _ _ _ hx _ ihx ihl => .cons k ⟨hx, ihx⟩ ihl)
    (fun a b l => .swap a b l) (fun _ _ ih1 ih2 => .trans ih1 ih2) h

/-! ### `JPerm` is an equivalence relation -/

mutual
theorem JPerm.refl : (j : J) → JPerm j j
  | .null => .null
  | .bool b => .bool b
  | .unsigned n => .unsigned n
  | .signed i => .signed i
  | .float d => .float d
  | .str s => .str s
  | .arr l => .arr (JPerm.reflL l)
  | .obj l => .obj (JPerm.reflO l)
theorem JPerm.reflL : (l : List J) → LRel JPerm l l
  | [] => .nil
  | x :: xs => .cons (JPerm.refl x) (JPerm.reflL xs)
theorem JPerm.reflO : (l : List (Str × J)) → EPerm JPerm l l
  | [] => .nil
  | (k, x) :: xs => .cons k (JPerm.refl x) (JPerm.reflO xs)
end

theorem JPerm.symm {j j' : J} (h : JPerm j j') : JPerm j' j := by
  refine JPerm.induct (P := fun a b => JPerm b a) .null .bool .unsigned .signed .float .str ?_ ?_ h
  · intro l l' hl
    refine .arr ?_
    induction hl with
    | nil => exact .nil
    | cons hx _ ih => exact .cons hx.2 ih
  · intro l l' hl
    refine .obj ?_
    induction hl with
    | nil => exact .nil
    | cons k hx _ ih => exact .cons k hx.2 ih
    | swap a b l => exact .swap b a l
    | trans _ _ ih1 ih2 => exact .trans ih2 ih1

theorem JPerm.trans {j j' j'' : J} (h : JPerm j j') : JPerm j' j'' → JPerm j j'' := by
  refine JPerm.induct (P := fun a b => ∀ c, JPerm b c → JPerm a c)
    (fun _ h => h) (fun _ _ h => h) (fun _ _ h => h) (fun _ _ h => h) (fun _ _ h => h) (fun _ _ h => h) ?_ ?_ h j''
  · intro l l' hl c hc
    cases hc with
    | arr h2 =>
      refine .arr ?_
      rename_i l''
      induction hl generalizing l'' with
      | nil => exact h2
      | cons hx _ ih =>
        cases h2 with
        | cons hy h2' => exact .cons (hx.2 _ hy) (ih h2')
  · intro l l' hl c hc
    cases hc with
    | obj h2 => exact .obj (.trans (hl.mono (fun _ _ h => h.1)) h2)

/-- every permutation of the entries of an object (values untouched) is `JPerm`-related to it -/
theorem EPerm.of_perm {l l' : List (Str × J)} (h : l.Perm l') : EPerm JPerm l l' := by
  induction h with
  | nil => exact .nil
  | cons a _ ih => exact .cons a.1 (JPerm.refl a.2) ih
  | swap a b l => exact .swap b a l
  | trans _ _ ih1 ih2 => exact .trans ih1 ih2

theorem JPerm.obj_of_perm {l l' : List (Str × J)} (h : l.Perm l') : JPerm (.obj l) (.obj l') :=
  .obj (EPerm.of_perm h)

/-! ### `EPerm JPerm` = a permutation followed by an entry-wise relation -/


theorem ERel.refl : (l : List (Str × J)) → ERel l l
  | [] => .nil
  | (k, x) :: xs => .cons k (JPerm.refl x) (ERel.refl xs)

theorem ERel.trans {l₁ l₂ l₃ : List (Str × J)} (h1 : ERel l₁ l₂) (h2 : ERel l₂ l₃) : ERel l₁ l₃ := by
  induction h1 generalizing l₃ with
  | nil => exact h2
  | cons k hx _ ih =>
    cases h2 with
    | cons _ hy h2' => exact .cons k (hx.trans hy) (ih h2')

/-- an entry-wise relation followed by a permutation is a permutation followed by an entry-wise relation -/
theorem ERel.perm_comm {l l₂ : List (Str × J)} (hp : l.Perm l₂) :
    ∀ {m : List (Str × J)}, ERel m l → ∃ m', m.Perm m' ∧ ERel m' l₂ := by
  induction hp with
  | nil => intro m h; exact ⟨m, .refl _, h⟩
  | cons a _ ih =>
    intro m h
    cases h with
    | cons k hx h' =>
      obtain ⟨m', hp', hr'⟩ := ih h'
      exact ⟨_ :: m', hp'.cons _, .cons k hx hr'⟩
  | swap a b l =>
    intro m h
    cases h with
    | cons k hx h' =>
      cases h' with
      | cons k' hy h'' => exact ⟨_, List.Perm.swap _ _ _, .cons k' hy (.cons k hx h'')⟩
  | trans _ _ ih1 ih2 =>
    intro m h
    obtain ⟨m₁, hp₁, hr₁⟩ := ih1 h
    obtain ⟨m₂, hp₂, hr₂⟩ := ih2 hr₁
    exact ⟨m₂, hp₁.trans hp₂, hr₂⟩

theorem EPerm.decompose {l l' : List (Str × J)} (h : EPerm JPerm l l') :
    ∃ m, l.Perm m ∧ ERel m l' := by
  induction h with
  | nil => exact ⟨[], .refl _, .nil⟩
  | cons k hx _ ih =>
    obtain ⟨m, hp, hr⟩ := ih
    exact ⟨_ :: m, hp.cons _, .cons k hx hr⟩
  | swap a b l => exact ⟨b :: a :: l, List.Perm.swap _ _ _, ERel.refl _⟩
  | trans _ _ ih1 ih2 =>
    obtain ⟨m₁, hp₁, hr₁⟩ := ih1
    obtain ⟨m₂, hp₂, hr₂⟩ := ih2
    obtain ⟨m', hp', hr'⟩ := ERel.perm_comm hp₂ hr₁
    exact ⟨m', hp₁.trans hp', hr'.trans hr₂⟩

/-- conversely -/
theorem EPerm.compose {l m l' : List (Str × J)} (hp : l.Perm m) (hr : ERel m l') : EPerm JPerm l l' := by
  refine .trans (EPerm.of_perm hp) ?_
  clear hp
  induction hr with
  | nil => exact .nil
  | cons k hx _ ih => exact .cons k hx ih


/-! ### Outcomes up to the choice of the failure -/

namespace Res

theorem SameOutcome.rfl' {r : Res α} : SameOutcome r r := .inl rfl

theorem SameOutcome.symm {r r' : Res α} (h : SameOutcome r r') : SameOutcome r' r :=
  h.elim (fun e => .inl e.symm) (fun ⟨a, b⟩ => .inr ⟨b, a⟩)

theorem SameOutcome.trans {r₁ r₂ r₃ : Res α} (h1 : SameOutcome r₁ r₂) (h2 : SameOutcome r₂ r₃) :
    SameOutcome r₁ r₃ := by
  rcases h1 with e | ⟨a, b⟩
  · subst e; exact h2
  · rcases h2 with e | ⟨c, d⟩
    · subst e; exact .inr ⟨a, b⟩
    · exact .inr ⟨a, d⟩

theorem SameOutcome.ok_iff {r r' : Res α} (h : SameOutcome r r') (a : α) : r = .ok a ↔ r' = .ok a := by
  rcases h with e | ⟨h1, h2⟩
  · subst e; exact Iff.rfl
  · constructor <;> intro e
    · rw [e] at h1; cases h1
    · rw [e] at h2; cases h2

theorem SameOutcome.isOk_eq {r r' : Res α} (h : SameOutcome r r') : r.isOk = r'.isOk := by
  rcases h with e | ⟨h1, h2⟩
  · subst e; rfl
  · rw [h1, h2]

/-- equal as soon as one side succeeds -/
theorem SameOutcome.eq_of_isOk {r r' : Res α} (h : SameOutcome r r') (hok : r.isOk = true ∨ r'.isOk = true) :
    r = r' := by
  rcases h with e | ⟨h1, h2⟩
  · exact e
  · rcases hok with h | h
    · rw [h1] at h; cases h
    · rw [h2] at h; cases h

/-- a stage that passes failures through -/
def Strict (f : Res α → Res β) : Prop := ∀ r, r.isOk = false → (f r).isOk = false

theorem SameOutcome.map {f : Res α → Res β} (hf : Strict f) {r r' : Res α} (h : SameOutcome r r') :
    SameOutcome (f r) (f r') := by
  rcases h with e | ⟨h1, h2⟩
  · subst e; exact .inl rfl
  · exact .inr ⟨hf _ h1, hf _ h2⟩

theorem isOk_false_iff {r : Res α} : r.isOk = false ↔ ∀ a, r ≠ .ok a := by
  cases r <;> simp [isOk]

end Res

/-! ### The decoder below one object level -/

namespace Decode
open Ranges

theorem size_perm {j j' : J} (h : JPerm j j') : J.size j = J.size j' := by
  refine JPerm.induct (P := fun a b => J.size a = J.size b) rfl (fun _ => rfl) (fun _ => rfl) (fun _ => rfl)
    (fun _ => rfl) (fun _ => rfl) ?_ ?_ h
  · intro l l' hl
    have : J.sizeL l = J.sizeL l' := by
      induction hl with
      | nil => rfl
      | cons hx _ ih => simp only [J.sizeL, hx.2, ih]
    simp only [J.size, this]
  · intro l l' hl
    have : J.sizeO l = J.sizeO l' := by
      induction hl with
      | nil => rfl
      | cons k hx _ ih => simp only [J.sizeO, hx.2, ih]
      | swap a b l =>
        obtain ⟨ka, xa⟩ := a
        obtain ⟨kb, xb⟩ := b
        simp only [J.sizeO]; omega
      | trans _ _ ih1 ih2 => exact ih1.trans ih2
    simp only [J.size, this]

theorem rangeList_rel (t : RangeTy) {l l' : List J}
    (hl : LRel (fun a b => JPerm a b ∧ ∀ t, rangeSpec t a = rangeSpec t b) l l') :
    rangeSpec.rangeList t l = rangeSpec.rangeList t l' := by
  induction hl with
  | nil => rfl
  | cons hx _ ih => simp only [rangeSpec.rangeList, hx.2 t, ih]

theorem rangeSpec_perm {j j' : J} (h : JPerm j j') : ∀ t, rangeSpec t j = rangeSpec t j' := by
  refine JPerm.induct (P := fun a b => ∀ t, rangeSpec t a = rangeSpec t b) (fun _ => rfl) (fun _ _ => rfl)
    (fun _ _ => rfl) (fun _ _ => rfl) (fun _ _ => rfl) (fun _ _ => rfl) ?_ ?_ h
  · intro l l' hl t
    simp only [rangeSpec]
    cases hl with
    | nil => rfl
    | cons hx hl' => simp only [rangeSpec.rangeSeq, hx.2 t, rangeList_rel t hl']
  · intro l l' _ t
    simp only [rangeSpec]

theorem rangeSeq_perm (t : RangeTy) {l l' : List J} (hl : LRel JPerm l l') :
    rangeSpec.rangeSeq t l = rangeSpec.rangeSeq t l' := by
  have := rangeSpec_perm (JPerm.arr hl) t
  simpa only [rangeSpec] using this

theorem value_arr_inRange (fuel : Nat) (top key : Str) (l : List J) :
    value (fuel + 1) top true key (.arr l) = .err "NestedRanges" := by
  cases l with
  | nil => simp only [value, if_true]
  | cons f r => cases f <;> simp only [value, if_true]

/-- inside a range entry (`inRange`), nothing below a value is looked at -/
theorem value_inRange_perm (fuel : Nat) (top key : Str) {j j' : J} (h : JPerm j j') :
    value fuel top true key j = value fuel top true key j' := by
  cases fuel with
  | zero => rw [value, value]
  | succ fuel =>
    cases h with
    | arr _ => rw [value_arr_inRange, value_arr_inRange]
    | obj _ => simp only [value, if_true]
    | _ => rfl

/-! ### `{count, value}` entries: the order of the two fields is irrelevant, failures included -/

theorem structFields_swap (a b : Str × J) (l : List (Str × J)) (c v : Option J) :
    structFields (a :: b :: l) c v = structFields (b :: a :: l) c v := by
  obtain ⟨ka, xa⟩ := a
  obtain ⟨kb, xb⟩ := b
  simp only [structFields]
  generalize (ka == "count".toList) = a1
  generalize (ka == "value".toList) = a2
  generalize (kb == "count".toList) = b1
  generalize (kb == "value".toList) = b2
  cases a1 <;> cases a2 <;> cases b1 <;> cases b2 <;> cases c <;> cases v <;> simp

theorem structFields_perm {l m : List (Str × J)} (h : l.Perm m) :
    ∀ c v, structFields l c v = structFields m c v := by
  induction h with
  | nil => intro c v; rfl
  | cons a _ ih =>
    intro c v
    obtain ⟨k, x⟩ := a
    simp only [structFields, ih]
  | swap a b l => intro c v; exact structFields_swap b a l c v
  | trans _ _ ih1 ih2 => intro c v; rw [ih1, ih2]

inductive ORel : Option J → Option J → Prop
  | none : ORel none none
  | some {a b : J} : JPerm a b → ORel (some a) (some b)

/-- outcomes of `structFields` on related field lists -/
def SRel (r r' : Res (Option J × Option J)) : Prop :=
  (r = .err "Serde" ∧ r' = .err "Serde") ∨
  ∃ c v c' v', r = .ok (c, v) ∧ r' = .ok (c', v') ∧ ORel c c' ∧ ORel v v'

theorem structFields_rel {m l' : List (Str × J)} (h : ERel m l') :
    ∀ {c c' v v'}, ORel c c' → ORel v v' → SRel (structFields m c v) (structFields l' c' v') := by
  induction h with
  | nil => intro c c' v v' hc hv; exact .inr ⟨c, v, c', v', rfl, rfl, hc, hv⟩
  | cons k hx _ ih =>
    intro c c' v v' hc hv
    simp only [structFields]
    split
    · cases hc with
      | none => exact ih (.some hx) hv
      | some _ => exact .inl ⟨rfl, rfl⟩
    · split
      · cases hv with
        | none => exact ih hc (.some hx)
        | some _ => exact .inl ⟨rfl, rfl⟩
      · exact .inl ⟨rfl, rfl⟩

theorem pairF_perm (fuel : Nat) (top : Str) (t : RangeTy) {x x' : J} (h : JPerm x x') :
    pairF fuel top t x = pairF fuel top t x' := by
  cases h with
  | arr hl =>
    cases hl with
    | nil => rfl
    | cons hx hl' =>
      simp only [pairF, value_inRange_perm fuel top [] hx, rangeSeq_perm t hl']
  | obj he =>
    obtain ⟨m, hp, hr⟩ := he.decompose
    have hs := structFields_rel hr ORel.none ORel.none
    rw [← structFields_perm hp] at hs
    rcases hs with ⟨h1, h2⟩ | ⟨c, v, c', v', h1, h2, hc, hv⟩
    · simp only [pairF, h1, h2]
    · simp only [pairF, h1, h2]
      cases hc with
      | none =>
        cases hv with
        | none => rfl
        | some hv => simp only [value_inRange_perm fuel top [] hv]
      | some hc =>
        cases hv with
        | none => simp only [rangeSpec_perm hc t]
        | some hv => simp only [rangeSpec_perm hc t, value_inRange_perm fuel top [] hv]
  | _ => rfl

theorem pairs_congr (pair : RangeTy → J → Res (Range × PV)) (t : RangeTy)
    (hp : ∀ x x', JPerm x x' → pair t x = pair t x') {l l' : List J} (hl : LRel JPerm l l') :
    value.pairs pair t l = value.pairs pair t l' := by
  induction hl with
  | nil => rfl
  | cons hx _ ih => simp only [value.pairs, hp _ _ hx, ih]

def arrStart (P : RangeTy → List J → Res (List (Range × PV))) (first : J) (rest : List J) :
    Res (RangeTy × List (Range × PV)) :=
  match first with
  | .str s => match Ranges.tyOfStr s with
    | some t => match P t rest with
      | .ok bs => .ok (t, bs)
      | .err e => .err e
      | .panic p => .panic p
    | none => .err "InvalidRangeType"
  | .obj _ | .arr _ => match P .i32 (first :: rest) with
      | .ok bs => .ok (.i32, bs)
      | .err e => .err e
      | .panic p => .panic p
  | _ => .err "Serde"

def arrFinish (start : Res (RangeTy × List (Range × PV))) : Res PV :=
  match start with
  | .err e => .err e
  | .panic p => .panic p
  | .ok (t, bs) =>
    if bs.isEmpty then .err "EmptyRange" else
    let (invalid, count) := Ranges.checkDe (bs.map (·.1))
    if invalid then .err "InvalidFallback"
    else if count > 1 then .err "MultipleFallbacks"
    else if count == 0 && t.isFloat then .err "MissingFallback"
    else .ok (.ranges "var_count".toList t bs)

theorem value_arr (fuel : Nat) (top key : Str) (first : J) (rest : List J) :
    value (fuel + 1) top false key (.arr (first :: rest)) =
      arrFinish (arrStart (value.pairs (pairF fuel top)) first rest) := by
  cases first <;> simp only [value, Bool.false_eq_true, if_false] <;> rfl

/-- **arrays of range entries**: the outcome, failures included, does not depend on the order of the
fields of any object below -/
theorem value_arr_perm (fuel : Nat) (top : Str) (inRange : Bool) (key : Str) {l l' : List J}
    (hl : LRel JPerm l l') :
    value (fuel + 1) top inRange key (.arr l) = value (fuel + 1) top inRange key (.arr l') := by
  cases inRange with
  | true => rw [value_arr_inRange, value_arr_inRange]
  | false =>
    cases hl with
    | nil => rfl
    | cons hx hl' =>
      rw [value_arr, value_arr]
      congr 1
      have hP : ∀ t {m m' : List J}, LRel JPerm m m' →
          value.pairs (pairF fuel top) t m = value.pairs (pairF fuel top) t m' :=
        fun t _ _ h => pairs_congr _ t (fun _ _ h => pairF_perm fuel top t h) h
      cases hx with
      | str s => simp only [arrStart, hP _ hl']
      | arr h => simp only [arrStart, hP _ (LRel.cons (JPerm.arr h) hl')]
      | obj h => simp only [arrStart, hP _ (LRel.cons (JPerm.obj h) hl')]
      | _ => rfl

/-! ### The whole tree -/

open Res


/-- the induction hypothesis of the main theorem, at one fuel -/
def PermIH (fuel : Nat) : Prop :=
  ∀ (top : Str) (inRange : Bool) (key : Str) (j j' : J), JPerm j j' →
    SameOutcome (value fuel top inRange key j) (value fuel top inRange key j')

theorem localeKeys_rel (fuel : Nat) (top : Str) (ih : PermIH fuel) {m l' : List (Str × J)} (h : ERel m l') :
    ∀ acc, SameOutcome (value.localeKeys fuel top m acc) (value.localeKeys fuel top l' acc) := by
  induction h with
  | nil => intro acc; exact .inl rfl
  | @cons k x x' l l' hx _ ihl =>
    intro acc
    rw [value.localeKeys, value.localeKeys]
    cases hk : Key.new k with
    | none => exact .inl rfl
    | some key' =>
      simp only
      rcases ih top false key' _ _ hx with e | ⟨h1, h2⟩
      · simp only [e]
        cases value fuel top false key' x' with
        | err e => exact .inl rfl
        | panic p => exact .inl rfl
        | ok pv =>
          simp only
          split
          · exact .inl rfl
          · exact ihl _
      · refine .inr ⟨?_, ?_⟩
        · cases hv : value fuel top false key' x with
          | ok pv => rw [hv] at h1; cases h1
          | err e => rfl
          | panic p => rfl
        · cases hv : value fuel top false key' x' with
          | ok pv => rw [hv] at h2; cases h2
          | err e => rfl
          | panic p => rfl

theorem localeKeys_perm_ok (fuel : Nat) (top : Str) {l m : List (Str × J)} (hp : l.Perm m)
    (r : List (Str × PV)) (h : value.localeKeys fuel top l [] = .ok r) :
    value.localeKeys fuel top m [] = .ok r := by
  have ⟨hall, hn, _⟩ := localeKeys_ok_inv fuel top l [] r h
  have hk := localeKeys_ok fuel top l [] hall hn (by simp)
  have hall₂ : ∀ p, p ∈ m → (entry fuel top p).isSome := fun p hp' => hall p (hp.mem_iff.mpr hp')
  have hpe := hp.filterMap (entry fuel top)
  have hn₂ : ((m.filterMap (entry fuel top)).map Prod.fst).Nodup := (hpe.map Prod.fst).nodup_iff.mp hn
  have := AMap.insAll_perm (m := []) (by simp [AMap.Sorted]) hpe hn
  rw [localeKeys_ok fuel top m [] hall₂ hn₂ (by simp), ← this, ← hk, h]

theorem localeKeys_perm (fuel : Nat) (top : Str) {l m : List (Str × J)} (hp : l.Perm m) :
    SameOutcome (value.localeKeys fuel top l []) (value.localeKeys fuel top m []) := by
  cases h1 : value.localeKeys fuel top l [] with
  | ok r => exact .inl (localeKeys_perm_ok fuel top hp r h1).symm
  | err e =>
    refine .inr ⟨rfl, ?_⟩
    cases h2 : value.localeKeys fuel top m [] with
    | ok r => rw [localeKeys_perm_ok fuel top hp.symm r h2] at h1; cases h1
    | _ => rfl
  | panic p =>
    refine .inr ⟨rfl, ?_⟩
    cases h2 : value.localeKeys fuel top m [] with
    | ok r => rw [localeKeys_perm_ok fuel top hp.symm r h2] at h1; cases h1
    | _ => rfl

/-- the loop over the entries of an object, on two `EPerm`-related entry lists -/
theorem localeKeys_eperm (fuel : Nat) (top : Str) (ih : PermIH fuel) {l l' : List (Str × J)}
    (h : EPerm JPerm l l') :
    SameOutcome (value.localeKeys fuel top l []) (value.localeKeys fuel top l' []) := by
  obtain ⟨m, hp, hr⟩ := h.decompose
  exact (localeKeys_perm fuel top hp).trans (localeKeys_rel fuel top ih hr [])

/-- **the decoder on two trees with the same logical content**: equal outcomes, or two failures -/
theorem value_perm : ∀ fuel, PermIH fuel := by
  intro fuel
  induction fuel with
  | zero => intro top inRange key j j' _; rw [value, value]; exact .inl rfl
  | succ fuel ih =>
    intro top inRange key j j' h
    cases h with
    | arr hl => exact .inl (value_arr_perm fuel top inRange key hl)
    | obj he =>
      simp only [value]
      cases inRange with
      | true => exact .inl rfl
      | false =>
        simp only [Bool.false_eq_true, if_false]
        rcases localeKeys_eperm fuel top ih he with e | ⟨h1, h2⟩
        · rw [e]; exact .inl rfl
        · refine .inr ⟨?_, ?_⟩
          · cases hv : value.localeKeys fuel top _ [] with
            | ok r => rw [hv] at h1; cases h1
            | _ => rfl
          · cases hv : value.localeKeys fuel top _ [] with
            | ok r => rw [hv] at h2; cases h2
            | _ => rfl
    | _ => exact .inl rfl

theorem locale_perm (name : Str) {j j' : J} (h : JPerm j j') :
    SameOutcome (locale name j) (locale name j') := by
  cases h with
  | obj he =>
    have hs := size_perm (JPerm.obj he)
    simp only [locale, hs]
    rcases value_perm _ name false name _ _ (JPerm.obj he) with e | ⟨h1, h2⟩
    · rw [e]; exact .inl rfl
    · refine .inr ⟨?_, ?_⟩
      · cases hv : value _ name false name _ with
        | ok r => rw [hv] at h1; cases h1
        | _ => rfl
      · cases hv : value _ name false name _ with
        | ok r => rw [hv] at h2; cases h2
        | _ => rfl
  | _ => exact .inl rfl

end Decode

/-! ### The pipeline -/

namespace Pipeline
open Res

/-- what the pipeline reads of the files of two inputs with the same logical content -/
def LookupRel (R : Str → J → J → Prop) (a b : Input) : Prop :=
  ∀ ns l,
    (findFile a.files ns l = none ∧ findFile b.files ns l = none) ∨
    (∃ j j', findFile a.files ns l = some j ∧ findFile b.files ns l = some j' ∧ R l j j')

theorem findFile_perm {f f' : List ((Option Str × Str) × J)} (h : FilesPerm f f') (ns : Option Str) (l : Str) :
    (findFile f ns l = none ∧ findFile f' ns l = none) ∨
    (∃ j j', findFile f ns l = some j ∧ findFile f' ns l = some j' ∧ JPerm j j') := by
  induction h with
  | nil => exact .inl ⟨rfl, rfl⟩
  | cons k hj _ ih =>
    simp only [findFile, List.find?_cons] at ih ⊢
    split
    · exact .inr ⟨_, _, rfl, rfl, hj⟩
    · exact ih

theorem _root_.I18nVerif.InputPerm.lookup {a b : Input} (h : InputPerm a b) : InputPermLookup a b :=
  ⟨h.cfg, h.oracle, h.suppress, findFile_perm h.files⟩

theorem fail_of_isOk_false {r : Res α} (h : r.isOk = false) : ∀ a, r ≠ .ok a :=
  Res.isOk_false_iff.mp h

theorem decodeNs_perm {a b : Input} (h : LookupRel (fun _ j j' => JPerm j j') a b) (ns : Option Str) :
    ∀ ls, SameOutcome (decodeNs a ns ls) (decodeNs b ns ls) := by
  intro ls
  induction ls with
  | nil => exact .inl rfl
  | cons l ls ih =>
    simp only [decodeNs]
    rcases h ns l with ⟨h1, h2⟩ | ⟨j, j', h1, h2, hj⟩
    · rw [h1, h2]; exact .inl rfl
    · rw [h1, h2]
      simp only
      rcases Decode.locale_perm l hj with e | ⟨e1, e2⟩
      · rw [e]
        cases Decode.locale l j' with
        | err e => exact .inl rfl
        | panic p => exact .inl rfl
        | ok loc =>
          simp only
          rcases ih with e' | ⟨e1, e2⟩
          · rw [e']; exact .inl rfl
          · refine .inr ⟨?_, ?_⟩
            · cases hv : decodeNs a ns ls with
              | ok r => rw [hv] at e1; cases e1
              | _ => rfl
            · cases hv : decodeNs b ns ls with
              | ok r => rw [hv] at e2; cases e2
              | _ => rfl
      · refine .inr ⟨?_, ?_⟩
        · cases hv : Decode.locale l j with
          | ok r => rw [hv] at e1; cases e1
          | _ => rfl
        · cases hv : Decode.locale l j' with
          | ok r => rw [hv] at e2; cases e2
          | _ => rfl

theorem decodeAll_perm {a b : Input} (hc : a.cfg = b.cfg) (h : LookupRel (fun _ j j' => JPerm j j') a b) :
    ∀ nss, SameOutcome (decodeAll a nss) (decodeAll b nss) := by
  intro nss
  induction nss with
  | nil => exact .inl rfl
  | cons ns rest ih =>
    simp only [decodeAll, ← hc]
    rcases decodeNs_perm h ns a.cfg.locales with e | ⟨e1, e2⟩
    · rw [e]
      cases decodeNs b ns a.cfg.locales with
      | err e => exact .inl rfl
      | panic p => exact .inl rfl
      | ok locs =>
        simp only
        rcases ih with e' | ⟨e1, e2⟩
        · rw [e']; exact .inl rfl
        · refine .inr ⟨?_, ?_⟩
          · cases hv : decodeAll a rest with
            | ok r => rw [hv] at e1; cases e1
            | _ => rfl
          · cases hv : decodeAll b rest with
            | ok r => rw [hv] at e2; cases e2
            | _ => rfl
    · refine .inr ⟨?_, ?_⟩
      · cases hv : decodeNs a ns a.cfg.locales with
        | ok r => rw [hv] at e1; cases e1
        | _ => rfl
      · cases hv : decodeNs b ns a.cfg.locales with
        | ok r => rw [hv] at e2; cases e2
        | _ => rfl

def nsKeysOf (cfg : Config.Config) : List (Option Str) :=
  match cfg.namespaces with
  | some l => l.map some
  | none => [none]

def pathsOf (nss : List NS) : List (Str × KeyPath) :=
  nss.foldl (fun acc ns =>
    ns.locales.foldl (fun acc l =>
      (fkPathsOf l.name 1000000 ⟨ns.key, []⟩ l.keys).foldl (fun a p => insertSorted p a) acc) acc) []

theorem parseRaw_eq (inp : Input) : parseRaw inp =
    match decodeAll inp (nsKeysOf inp.cfg) with
    | .err e => .err e
    | .panic p => .panic p
    | .ok nss => .ok (⟨inp.cfg.namespaces.isSome, nss⟩, pathsOf nss) := rfl

theorem parseRaw_perm {a b : Input} (h : InputPermLookup a b) : SameOutcome (parseRaw a) (parseRaw b) := by
  rw [parseRaw_eq, parseRaw_eq, ← h.cfg]
  rcases decodeAll_perm h.cfg h.files (nsKeysOf a.cfg) with e | ⟨e1, e2⟩
  · rw [e]; exact .inl rfl
  · refine .inr ⟨?_, ?_⟩
    · cases hv : decodeAll a (nsKeysOf a.cfg) with
      | ok r => rw [hv] at e1; cases e1
      | _ => rfl
    · cases hv : decodeAll b (nsKeysOf a.cfg) with
      | ok r => rw [hv] at e2; cases e2
      | _ => rfl

/-- `check_locales` does not look at the files -/
theorem checkAll_files {a b : Input} (hc : a.cfg = b.cfg) (hs : a.suppress = b.suppress) :
    ∀ nss ws, checkAll a nss ws = checkAll b nss ws := by
  intro nss
  induction nss with
  | nil => intro ws; rfl
  | cons ns rest ih => intro ws; simp only [checkAll, hc, hs, ih]

/-- the stages after decoding, as a function of the decoded world -/
theorem resolved_congr {a b : Input} (hc : a.cfg = b.cfg) (ho : a.oracle = b.oracle)
    (h : parseRaw a = parseRaw b) : resolved a = resolved b := by
  simp only [resolved, h, hc, ho]

theorem run_congr {a b : Input} (hc : a.cfg = b.cfg) (ho : a.oracle = b.oracle) (hs : a.suppress = b.suppress)
    (h : parseRaw a = parseRaw b) : run a = run b := by
  simp only [run, resolved_congr hc ho h, checkAll_files hc hs, hc]

theorem resolved_of_parse_fail {a : Input} {f : Fail} (h : (parseRaw a).fail? = some f) :
    (resolved a).fail? = some f := by
  unfold resolved
  cases hv : parseRaw a with
  | ok r => rw [hv] at h; cases h
  | err e => rw [hv] at h; exact h
  | panic p => rw [hv] at h; exact h

theorem run_of_parse_fail {a : Input} {f : Fail} (h : (parseRaw a).fail? = some f) :
    (run a).fail? = some f := by
  have := resolved_of_parse_fail h
  unfold run
  cases hv : resolved a with
  | ok r => rw [hv] at this; cases this
  | err e => rw [hv] at this; exact this
  | panic p => rw [hv] at this; exact this

end Pipeline
/-! ### Which failure: the order-independent set of candidates -/


namespace Res

theorem eq_of_fail? {r r' : Res α} {f : Fail} (h : r.fail? = some f) (h' : r'.fail? = some f) : r = r' := by
  cases r with
  | ok _ => cases h
  | err e =>
    cases r' with
    | ok _ => cases h'
    | err e' => cases h; cases h'; rfl
    | panic _ => cases h; cases h'
  | panic q =>
    cases r' with
    | ok _ => cases h'
    | err _ => cases h; cases h'
    | panic _ => cases h; cases h'; rfl

theorem fail?_of_isOk_false {r : Res α} (h : r.isOk = false) : ∃ f, r.fail? = some f := by
  cases r with
  | ok _ => cases h
  | err e => exact ⟨_, rfl⟩
  | panic p => exact ⟨_, rfl⟩

theorem isOk_false_of_fail? {r : Res α} {f : Fail} (h : r.fail? = some f) : r.isOk = false := by
  cases r with
  | ok _ => cases h
  | _ => rfl

end Res

namespace Decode
open Res

/-- candidate failures of the loop over the entries of an object (the non-`inRange` object case of `Cand`) -/
def CandL (fuel : Nat) (top : Str) (l : List (Str × J)) (f : Fail) : Prop :=
  (∃ p, p ∈ l ∧ Key.new p.1 = none ∧ f = .err "InvalidKey") ∨
  (∃ p, p ∈ l ∧ ∃ k', Key.new p.1 = some k' ∧ Cand fuel top false k' p.2 f) ∨
  (¬ (l.filterMap (fun p => Key.new p.1)).Nodup ∧ f = .err "DuplicateKey")

theorem cand_obj {fuel : Nat} {top key : Str} {l : List (Str × J)} {f : Fail} :
    Cand (fuel + 1) top false key (.obj l) f ↔ CandL fuel top l f := by
  simp only [Cand, Bool.false_eq_true, if_false, CandL]

theorem cand_obj_inRange {fuel : Nat} {top key : Str} {l : List (Str × J)} {f : Fail} :
    Cand (fuel + 1) top true key (.obj l) f ↔ f = .err "RangeSubkeys" := by
  simp only [Cand, if_true]

/-- **soundness of the candidates, loop level** -/
theorem localeKeys_cand (fuel : Nat) (top : Str)
    (ih : ∀ top inRange key j f, (value fuel top inRange key j).fail? = some f → Cand fuel top inRange key j f) :
    ∀ (l : List (Str × J)) (acc : List (Str × PV)) (f : Fail),
      (value.localeKeys fuel top l acc).fail? = some f →
      (∃ p, p ∈ l ∧ Key.new p.1 = none ∧ f = .err "InvalidKey") ∨
      (∃ p, p ∈ l ∧ ∃ k', Key.new p.1 = some k' ∧ Cand fuel top false k' p.2 f) ∨
      (f = .err "DuplicateKey" ∧
        ((∃ k', k' ∈ l.filterMap (fun p => Key.new p.1) ∧ k' ∈ acc.map Prod.fst) ∨
         ¬ (l.filterMap (fun p => Key.new p.1)).Nodup)) := by
  intro l
  induction l with
  | nil => intro acc f h; rw [value.localeKeys] at h; cases h
  | cons p rest ihl =>
    intro acc f h
    obtain ⟨k, x⟩ := p
    rw [value.localeKeys] at h
    cases hk : Key.new k with
    | none =>
      simp only [hk, Res.fail?, Option.some.injEq] at h
      exact .inl ⟨(k, x), by simp, hk, h.symm⟩
    | some key' =>
      simp only [hk] at h
      have hkeys : ((k, x) :: rest).filterMap (fun p => Key.new p.1) = key' :: rest.filterMap (fun p => Key.new p.1) := by
        simp only [List.filterMap_cons, hk]
      cases hv : value fuel top false key' x with
      | err e =>
        rw [hv] at h
        exact .inr (.inl ⟨(k, x), by simp, key', hk, ih _ _ _ _ _ (by rw [hv]; exact h)⟩)
      | panic q =>
        rw [hv] at h
        exact .inr (.inl ⟨(k, x), by simp, key', hk, ih _ _ _ _ _ (by rw [hv]; exact h)⟩)
      | ok pv =>
        rw [hv] at h
        simp only at h
        split at h
        · rename_i hc
          simp only [Res.fail?, Option.some.injEq] at h
          refine .inr (.inr ⟨h.symm, .inl ⟨key', ?_, AMap.contains_iff.mp hc⟩⟩)
          rw [hkeys]; simp
        · rcases ihl _ f h with ⟨p, hp, h1, h2⟩ | ⟨p, hp, h1⟩ | ⟨hf, hd⟩
          · exact .inl ⟨p, by simp [hp], h1, h2⟩
          · exact .inr (.inl ⟨p, by simp [hp], h1⟩)
          · refine .inr (.inr ⟨hf, ?_⟩)
            rw [hkeys]
            rcases hd with ⟨k'', hk1, hk2⟩ | hd
            · rcases AMap.keys_insert'.mp hk2 with e | e
              · subst e
                exact .inr (fun hn => (List.nodup_cons.mp hn).1 hk1)
              · exact .inl ⟨k'', by simp [hk1], e⟩
            · exact .inr (fun hn => hd (List.nodup_cons.mp hn).2)

/-- **soundness of the candidates**: whatever failure `Decode.value` reports is a candidate -/
theorem value_cand : ∀ (fuel : Nat) (top : Str) (inRange : Bool) (key : Str) (j : J) (f : Fail),
    (value fuel top inRange key j).fail? = some f → Cand fuel top inRange key j f := by
  intro fuel
  induction fuel with
  | zero =>
    intro top inRange key j f h
    rw [value] at h
    simp only [Res.fail?, Option.some.injEq] at h
    simp only [Cand]; exact h.symm
  | succ fuel ih =>
    intro top inRange key j f h
    cases j with
    | obj l =>
      cases inRange with
      | true =>
        simp only [value, if_true, Res.fail?, Option.some.injEq] at h
        exact cand_obj_inRange.mpr h.symm
      | false =>
        simp only [value, Bool.false_eq_true, if_false] at h
        apply cand_obj.mpr
        have hl : (value.localeKeys fuel top l []).fail? = some f := by
          cases hv : value.localeKeys fuel top l [] with
          | ok r => rw [hv] at h; cases h
          | err e => rw [hv] at h; exact h
          | panic q => rw [hv] at h; exact h
        rcases localeKeys_cand fuel top ih l [] f hl with h1 | h1 | ⟨hf, hd⟩
        · exact .inl h1
        · exact .inr (.inl h1)
        · refine .inr (.inr ⟨?_, hf⟩)
          rcases hd with ⟨_, _, hm⟩ | hd
          · simp at hm
          · exact hd
    | _ => exact h

theorem erel_exists_congr {Q Q' : Str × J → Prop} (hQ : ∀ k x x', JPerm x x' → (Q (k, x) ↔ Q' (k, x')))
    {m l' : List (Str × J)} (h : ERel m l') : (∃ p, p ∈ m ∧ Q p) ↔ (∃ p, p ∈ l' ∧ Q' p) := by
  induction h with
  | nil => simp
  | @cons k x x' l l' hx _ ih =>
    constructor
    · rintro ⟨p, hp, hq⟩
      rcases List.mem_cons.mp hp with e | hp'
      · subst e; exact ⟨(k, x'), by simp, (hQ k x x' hx).mp hq⟩
      · obtain ⟨p', hp'', hq'⟩ := ih.mp ⟨p, hp', hq⟩
        exact ⟨p', by simp [hp''], hq'⟩
    · rintro ⟨p, hp, hq⟩
      rcases List.mem_cons.mp hp with e | hp'
      · subst e; exact ⟨(k, x), by simp, (hQ k x x' hx).mpr hq⟩
      · obtain ⟨p', hp'', hq'⟩ := ih.mpr ⟨p, hp', hq⟩
        exact ⟨p', by simp [hp''], hq'⟩

theorem erel_keys_eq {m l' : List (Str × J)} (h : ERel m l') :
    m.filterMap (fun p => Key.new p.1) = l'.filterMap (fun p => Key.new p.1) := by
  induction h with
  | nil => rfl
  | cons k _ _ ih => simp only [List.filterMap_cons, ih]

theorem candL_perm (fuel : Nat) (top : Str) (f : Fail)
    (ih : ∀ key j j', JPerm j j' → (Cand fuel top false key j f ↔ Cand fuel top false key j' f))
    {l l' : List (Str × J)} (he : EPerm JPerm l l') : CandL fuel top l f ↔ CandL fuel top l' f := by
  obtain ⟨m, hp, hr⟩ := he.decompose
  have h1 : CandL fuel top l f ↔ CandL fuel top m f := by
    unfold CandL
    have hn := (hp.filterMap (fun p : Str × J => Key.new p.1)).nodup_iff
    simp only [hp.mem_iff, hn]
  have h2 : CandL fuel top m f ↔ CandL fuel top l' f := by
    unfold CandL
    rw [erel_keys_eq hr,
      erel_exists_congr (Q := fun p => Key.new p.1 = none ∧ f = .err "InvalidKey")
        (Q' := fun p => Key.new p.1 = none ∧ f = .err "InvalidKey") (fun _ _ _ _ => Iff.rfl) hr,
      erel_exists_congr (Q := fun p => ∃ k', Key.new p.1 = some k' ∧ Cand fuel top false k' p.2 f)
        (Q' := fun p => ∃ k', Key.new p.1 = some k' ∧ Cand fuel top false k' p.2 f)
        (fun k x x' hx => ⟨fun ⟨k', a, b⟩ => ⟨k', a, (ih k' x x' hx).mp b⟩,
                           fun ⟨k', a, b⟩ => ⟨k', a, (ih k' x x' hx).mpr b⟩⟩) hr]
  exact h1.trans h2

/-- **the candidate failures do not depend on the order of object entries** -/
theorem cand_perm : ∀ (fuel : Nat) (top : Str) (inRange : Bool) (key : Str) (j j' : J) (f : Fail),
    JPerm j j' → (Cand fuel top inRange key j f ↔ Cand fuel top inRange key j' f) := by
  intro fuel
  induction fuel with
  | zero => intro top inRange key j j' f _; simp only [Cand]
  | succ fuel ih =>
    intro top inRange key j j' f h
    cases h with
    | arr hl =>
      show (value (fuel + 1) top inRange key (.arr _)).fail? = some f ↔
        (value (fuel + 1) top inRange key (.arr _)).fail? = some f
      rw [value_arr_perm fuel top inRange key hl]
    | obj he =>
      cases inRange with
      | true => exact cand_obj_inRange.trans cand_obj_inRange.symm
      | false =>
        exact cand_obj.trans ((candL_perm fuel top f (fun key j j' h => ih top false key j j' f h) he).trans
          cand_obj.symm)
    | _ => exact Iff.rfl

/-- **a single candidate ⇒ the outcome, failure included, is order-independent** -/
theorem value_perm_unique (fuel : Nat) (top : Str) (inRange : Bool) (key : Str) {j j' : J} (h : JPerm j j')
    (hu : ∀ f f', Cand fuel top inRange key j f → Cand fuel top inRange key j f' → f = f') :
    value fuel top inRange key j = value fuel top inRange key j' := by
  rcases value_perm fuel top inRange key j j' h with e | ⟨h1, h2⟩
  · exact e
  · obtain ⟨f, hf⟩ := fail?_of_isOk_false h1
    obtain ⟨f', hf'⟩ := fail?_of_isOk_false h2
    have c1 := value_cand _ _ _ _ _ _ hf
    have c2 := (cand_perm _ _ _ _ _ _ _ h).mpr (value_cand _ _ _ _ _ _ hf')
    have := hu _ _ c1 c2
    subst this
    exact eq_of_fail? hf hf'

/-! #### whole files -/

theorem value_obj_ok {fuel : Nat} {top key : Str} {inRange : Bool} {l : List (Str × J)} {v : PV}
    (h : value fuel top inRange key (.obj l) = .ok v) : ∃ loc, v = .subkeys (some loc) := by
  cases fuel with
  | zero => rw [value] at h; cases h
  | succ fuel =>
    simp only [value] at h
    split at h
    · cases h
    · split at h
      · cases h; exact ⟨_, rfl⟩
      · cases h
      · cases h

theorem locale_cand {name : Str} {j : J} {f : Fail} (h : (locale name j).fail? = some f) :
    LocaleCand name j f := by
  cases j with
  | obj l =>
    show Cand _ name false name (.obj l) f
    apply value_cand
    simp only [locale] at h
    cases hv : value (J.size (J.obj l) + 1) name false name (J.obj l) with
    | ok v =>
      obtain ⟨loc, rfl⟩ := value_obj_ok hv
      rw [hv] at h; cases h
    | err e => rw [hv] at h; exact h
    | panic q => rw [hv] at h; exact h
  | _ =>
    simp only [locale, Res.fail?, Option.some.injEq] at h
    exact h.symm

theorem localeCand_perm {name : Str} {j j' : J} (f : Fail) (h : JPerm j j') :
    LocaleCand name j f ↔ LocaleCand name j' f := by
  cases h with
  | obj he =>
    show Cand _ name false name _ f ↔ Cand _ name false name _ f
    rw [size_perm (JPerm.obj he)]
    exact cand_perm _ _ _ _ _ _ _ (JPerm.obj he)
  | _ => exact Iff.rfl

theorem locale_perm_unique (name : Str) {j j' : J} (h : JPerm j j')
    (hu : ∀ f f', LocaleCand name j f → LocaleCand name j f' → f = f') :
    locale name j = locale name j' := by
  rcases locale_perm name h with e | ⟨h1, h2⟩
  · exact e
  · obtain ⟨f, hf⟩ := fail?_of_isOk_false h1
    obtain ⟨f', hf'⟩ := fail?_of_isOk_false h2
    have c1 := locale_cand hf
    have c2 := (localeCand_perm _ h).mpr (locale_cand hf')
    have := hu _ _ c1 c2
    subst this
    exact eq_of_fail? hf hf'

end Decode

namespace Pipeline

theorem decodeNs_eq {a b : Input} (h : LookupRel (fun l j j' => Decode.locale l j = Decode.locale l j') a b)
    (ns : Option Str) : ∀ ls, decodeNs a ns ls = decodeNs b ns ls := by
  intro ls
  induction ls with
  | nil => rfl
  | cons l ls ih =>
    simp only [decodeNs]
    rcases h ns l with ⟨h1, h2⟩ | ⟨j, j', h1, h2, hj⟩
    · rw [h1, h2]
    · rw [h1, h2]; simp only [hj, ih]

theorem decodeAll_eq {a b : Input} (hc : a.cfg = b.cfg)
    (h : LookupRel (fun l j j' => Decode.locale l j = Decode.locale l j') a b) :
    ∀ nss, decodeAll a nss = decodeAll b nss := by
  intro nss
  induction nss with
  | nil => rfl
  | cons ns rest ih => simp only [decodeAll, ← hc, decodeNs_eq h, ih]

theorem parseRaw_eq_of {a b : Input} (hc : a.cfg = b.cfg)
    (h : LookupRel (fun l j j' => Decode.locale l j = Decode.locale l j') a b) : parseRaw a = parseRaw b := by
  rw [parseRaw_eq, parseRaw_eq, ← hc, decodeAll_eq hc h]

end Pipeline
end I18nVerif
