import I18nVerif.Model.Ranges
import I18nVerif.Model.Foreign
import I18nVerif.Model.Decode
import I18nVerif.Spec.Eval
import I18nVerif.Spec.RangeSpec
/-! Helper lemmas for C04 (ranges). -/
namespace I18nVerif.Ranges
open I18nVerif Str RangeSpec

/-! ### The order on exact decimals -/

theorem dec_not_lt (a b : Dec) : (!Dec.lt a b) = Dec.le b a := by
  simp only [Dec.lt, Dec.le]
  rw [Bool.eq_iff_iff]
  simp only [Bool.not_eq_true', decide_eq_false_iff_not, decide_eq_true_eq]
  omega

theorem dec_lt_eq_not_le (a b : Dec) : Dec.lt a b = !Dec.le b a := by
  rw [← dec_not_lt, Bool.not_not]

theorem dec_eq_comm (a b : Dec) : Dec.eq a b = Dec.eq b a := by
  simp only [Dec.eq]
  rw [Bool.eq_iff_iff]
  simp only [beq_iff_eq]
  exact Eq.comm

theorem dec_eq_iff_le_le (a b : Dec) : Dec.eq a b = (Dec.le a b && Dec.le b a) := by
  simp only [Dec.eq, Dec.le]
  rw [Bool.eq_iff_iff]
  simp only [beq_iff_eq, Bool.and_eq_true, decide_eq_true_eq]
  omega

theorem dec_le_refl (a : Dec) : Dec.le a a = true := by simp [Dec.le]

theorem dec_le_total (a b : Dec) : Dec.le a b = true ∨ Dec.le b a = true := by
  simp only [Dec.le, decide_eq_true_eq]
  omega

theorem pow10_pos (e : Nat) : (0 : Int) < (10 : Int) ^ e := Int.pow_pos (by decide)

/-- transitivity, by cancelling the positive factor `10 ^ b.e` -/
theorem dec_le_trans {a b c : Dec} (h1 : Dec.le a b = true) (h2 : Dec.le b c = true) : Dec.le a c = true := by
  simp only [Dec.le, decide_eq_true_eq] at *
  have ka := pow10_pos a.e
  have kb := pow10_pos b.e
  have kc := pow10_pos c.e
  generalize (10 : Int) ^ a.e = A at *
  generalize (10 : Int) ^ b.e = B at *
  generalize (10 : Int) ^ c.e = C at *
  -- a.m*B ≤ b.m*A, b.m*C ≤ c.m*B ⊢ a.m*C ≤ c.m*A
  have e1 : a.m * B * C ≤ b.m * A * C := Int.mul_le_mul_of_nonneg_right h1 (Int.le_of_lt kc)
  have e2 : b.m * C * A ≤ c.m * B * A := Int.mul_le_mul_of_nonneg_right h2 (Int.le_of_lt ka)
  have e3 : a.m * C * B ≤ c.m * A * B := by
    have x1 : a.m * B * C = a.m * C * B := by rw [Int.mul_assoc, Int.mul_comm B C, ← Int.mul_assoc]
    have x2 : b.m * A * C = b.m * C * A := by rw [Int.mul_assoc, Int.mul_comm A C, ← Int.mul_assoc]
    have x3 : c.m * B * A = c.m * A * B := by rw [Int.mul_assoc, Int.mul_comm B A, ← Int.mul_assoc]
    omega
  exact Int.le_of_mul_le_mul_right e3 kb

/-- on integers (`e = 0`) the comparisons are those of `Int` -/
theorem dec_le_ofInt (a b : Int) : Dec.le (Dec.ofInt a) (Dec.ofInt b) = decide (a ≤ b) := by
  simp [Dec.le, Dec.ofInt]
theorem dec_lt_ofInt (a b : Int) : Dec.lt (Dec.ofInt a) (Dec.ofInt b) = decide (a < b) := by
  simp [Dec.lt, Dec.ofInt]
theorem dec_eq_ofInt (a b : Int) : Dec.eq (Dec.ofInt a) (Dec.ofInt b) = decide (a = b) := by
  rw [Bool.eq_iff_iff]; simp [Dec.eq, Dec.ofInt]

/-! ### `doMatch` is membership -/

mutual
theorem doMatch_eq_contains : ∀ (r : Range) (n : Dec), doMatch r n = (specOf r).contains n
  | .exact v, n => by simp [doMatch, specOf, CountSpec.contains]
  | .bounds lo hi, n => by
    cases lo <;> cases hi <;> simp [doMatch, specOf, CountSpec.contains, dec_not_lt]
  | .multi l, n => by
    simp only [doMatch, specOf, CountSpec.contains]
    exact doMatchAny_eq_containsAny l n
  | .fallback, n => by simp [doMatch, specOf, CountSpec.contains]
theorem doMatchAny_eq_containsAny : ∀ (l : List Range) (n : Dec),
    doMatch.doMatchAny l n = CountSpec.contains.containsAny (specOf.specOfL l) n
  | [], n => by simp [doMatch.doMatchAny, specOf.specOfL, CountSpec.contains.containsAny]
  | r :: rs, n => by
    simp only [doMatch.doMatchAny, specOf.specOfL, CountSpec.contains.containsAny]
    rw [doMatch_eq_contains r n, doMatchAny_eq_containsAny rs n]
end

theorem doMatchAny_eq_any (l : List Range) (n : Dec) : doMatch.doMatchAny l n = l.any (fun r => doMatch r n) := by
  induction l with
  | nil => rfl
  | cons r rs ih => simp [doMatch.doMatchAny, ih]

theorem containsAny_eq_any (l : List CountSpec) (n : Dec) :
    CountSpec.contains.containsAny l n = l.any (fun s => s.contains n) := by
  induction l with
  | nil => rfl
  | cons r rs ih => simp [CountSpec.contains.containsAny, ih]

theorem specOfL_eq_map (l : List Range) : specOf.specOfL l = l.map specOf := by
  induction l with
  | nil => rfl
  | cons r rs ih => simp [specOf.specOfL, ih]

/-! ### `find_value` and the run-time chain pick the first matching branch -/
open Foreign Eval

theorem findValue_nil (orc : Oracle) (locale : Str) (args : List (Str × PV)) (c : Dec) :
    findValue orc locale args c [] = .err "CountArgNoMatch" := by
  simp [findValue]

theorem findValue_cons (orc : Oracle) (locale : Str) (args : List (Str × PV)) (c : Dec)
    (r : Range) (v : PV) (rest : List (Range × PV)) :
    findValue orc locale args c ((r, v) :: rest)
      = if doMatch r c then populate orc locale args v else findValue orc locale args c rest := by
  simp [findValue]

theorem evalBranches_nil (ρ : Env) (c : Dec) : evalBranches ρ c [] = [] := by simp [evalBranches]

theorem evalBranches_cons (ρ : Env) (c : Dec) (r : Range) (v : PV) (rest : List (Range × PV)) :
    evalBranches ρ c ((r, v) :: rest) = if doMatch r c then eval ρ v else evalBranches ρ c rest := by
  simp [evalBranches]

/-- skipping a prefix of branches that do not match -/
theorem findValue_skip (orc : Oracle) (locale : Str) (args : List (Str × PV)) (c : Dec)
    (pre rest : List (Range × PV)) (h : ∀ x ∈ pre, doMatch x.1 c = false) :
    findValue orc locale args c (pre ++ rest) = findValue orc locale args c rest := by
  induction pre with
  | nil => rfl
  | cons x xs ih =>
    obtain ⟨r, v⟩ := x
    have hr : doMatch r c = false := h (r, v) (by simp)
    simp only [List.cons_append, findValue_cons, hr]
    exact ih (fun y hy => h y (by simp [hy]))

theorem evalBranches_skip (ρ : Env) (c : Dec)
    (pre rest : List (Range × PV)) (h : ∀ x ∈ pre, doMatch x.1 c = false) :
    evalBranches ρ c (pre ++ rest) = evalBranches ρ c rest := by
  induction pre with
  | nil => rfl
  | cons x xs ih =>
    obtain ⟨r, v⟩ := x
    have hr : doMatch r c = false := h (r, v) (by simp)
    simp only [List.cons_append, evalBranches_cons, hr]
    exact ih (fun y hy => h y (by simp [hy]))

/-- every list of branches either has a first matching branch or none at all -/
theorem first_match_or_none (c : Dec) (bs : List (Range × PV)) :
    (∀ x ∈ bs, doMatch x.1 c = false) ∨
    ∃ r v pre post, bs = pre ++ (r, v) :: post ∧ (∀ x ∈ pre, doMatch x.1 c = false) ∧ doMatch r c = true := by
  induction bs with
  | nil => left; simp
  | cons x xs ih =>
    obtain ⟨r, v⟩ := x
    by_cases hr : doMatch r c = true
    · right; exact ⟨r, v, [], xs, rfl, by simp, hr⟩
    · have hr' : doMatch r c = false := by simpa using hr
      rcases ih with h | ⟨r', v', pre, post, h1, h2, h3⟩
      · left
        intro y hy
        rcases List.mem_cons.mp hy with rfl | hy
        · exact hr'
        · exact h y hy
      · right
        refine ⟨r', v', (r, v) :: pre, post, by simp [h1], ?_, h3⟩
        intro y hy
        rcases List.mem_cons.mp hy with rfl | hy
        · exact hr'
        · exact h2 y hy

/-! ### Characters of accepted numerals, trimming -/

theorem isDigit_iff (c : Char) : isDigit c = true ↔ 48 ≤ c.toNat ∧ c.toNat ≤ 57 := by
  simp [isDigit, Char.le_def, UInt32.le_iff_toNat_le]

theorem isDigit_not_ws (c : Char) (h : isDigit c = true) : isWs c = false := by
  rw [isDigit_iff] at h
  simp [isWs]
  omega

theorem dropWhile_eq_self {p : Char → Bool} : ∀ (s : Str), (∀ c ∈ s, p c = false) → s.dropWhile p = s
  | [], _ => rfl
  | c :: cs, h => by simp [List.dropWhile, h c (by simp)]

theorem trim_eq_self (s : Str) (h : ∀ c ∈ s, isWs c = false) : trim s = s := by
  simp only [trim, trimStart, trimEnd]
  rw [dropWhile_eq_self s h, dropWhile_eq_self s.reverse (by simpa using h), List.reverse_reverse]

/-- characters of a string `parseDigits` accepts -/
theorem parseDigits_some {s : Str} {n : Nat} (h : parseDigits s = some n) :
    s ≠ [] ∧ ∀ c ∈ s, isDigit c = true := by
  simp only [parseDigits] at h
  split at h
  · simp at h
  · rename_i hc
    simp at hc
    exact ⟨hc.1, hc.2⟩

/-- a character of an accepted integer numeral: a digit or a sign -/
def numChar (c : Char) : Bool := isDigit c || c == '-' || c == '+'



theorem parseInt_some {t : RangeTy} {s : Str} {v : Int} (h : parseInt t s = some v) :
    s ≠ [] ∧ (∀ c ∈ s, numChar c = true) ∧ t.inRange v = true := by
  unfold parseInt at h
  split at h
  rename_i x neg digits heq
  simp only at h
  by_cases hs : (neg && !decide (t.min < 0)) = true
  · simp [hs] at h
  · cases hpd : parseDigits digits with
    | none => simp [hs, hpd] at h
    | some n =>
      have ⟨hne, hall⟩ := parseDigits_some hpd
      simp only [hs, hpd] at h
      by_cases hr : t.inRange (if neg = true then -(n : Int) else n) = true
      · simp only [hr, if_true] at h
        simp only [Bool.false_eq_true, if_false, Option.some.injEq] at h
        subst h
        refine ⟨?_, ?_, hr⟩
        · split at heq <;> simp_all
        · split at heq
          · simp only [Prod.mk.injEq] at heq
            obtain ⟨_, rfl⟩ := heq
            intro c hc
            rcases List.mem_cons.mp hc with rfl | hc
            · simp [numChar]
            · simp [numChar, hall c hc]
          · simp only [Prod.mk.injEq] at heq
            obtain ⟨_, rfl⟩ := heq
            intro c hc
            rcases List.mem_cons.mp hc with rfl | hc
            · simp [numChar]
            · simp [numChar, hall c hc]
          · simp only [Prod.mk.injEq] at heq
            obtain ⟨_, rfl⟩ := heq
            intro c hc
            simp [numChar, hall c hc]
      · simp [hr] at h

/-! ### `split_once("..")` and `Range::new` on numerals -/

/-- if the first char of `pat` does not occur in `t`, the first match of `pat` in `t ++ pat ++ r` is right after `t` -/
theorem splitOnce_append (p : Char) (ps t r : Str) (h : p ∉ t) :
    splitOnce (p :: ps) (t ++ ((p :: ps) ++ r)) = some (t, r) := by
  induction t with
  | nil =>
    simp [splitOnce]
  | cons c cs ih =>
    have hc : c ≠ p := by intro e; apply h; simp [e]
    have hcs : p ∉ cs := by intro e; apply h; simp [e]
    simp only [List.cons_append, splitOnce]
    have : ¬ (p :: ps).isPrefixOf (c :: (cs ++ (p :: (ps ++ r)))) = true := by
      simp [List.isPrefixOf]; intro e; exact absurd e.symm hc
    rw [if_neg this]
    have ih' := ih hcs
    simp only [List.cons_append] at ih'
    rw [ih']

theorem splitOnce_none (p : Char) (ps t : Str) (h : p ∉ t) :
    splitOnce (p :: ps) t = none := by
  induction t with
  | nil => simp [splitOnce]
  | cons c cs ih =>
    have hc : c ≠ p := by intro e; apply h; simp [e]
    have hcs : p ∉ cs := by intro e; apply h; simp [e]
    simp only [splitOnce]
    have : ¬ (p :: ps).isPrefixOf (c :: cs) = true := by
      simp [List.isPrefixOf]; intro e; exact absurd e.symm hc
    rw [if_neg this, ih hcs]

theorem numChar_facts {c : Char} (h : numChar c = true) : c ≠ '.' ∧ c ≠ '=' ∧ isWs c = false ∧ c ≠ '|' ∧ c ≠ '_' := by
  simp only [numChar, Bool.or_eq_true, beq_iff_eq] at h
  rcases h with (h | rfl) | rfl
  · refine ⟨?_, ?_, isDigit_not_ws c h, ?_, ?_⟩ <;> (rintro rfl; simp [isDigit] at h)
  · decide
  · decide

theorem numStr_trim {s : Str} (h : ∀ c ∈ s, numChar c = true) : trim s = s :=
  trim_eq_self s (fun c hc => (numChar_facts (h c hc)).2.2.1)

theorem numStr_no_dot {s : Str} (h : ∀ c ∈ s, numChar c = true) : '.' ∉ s :=
  fun hm => (numChar_facts (h _ hm)).1 rfl

/-- `newSimple` on a string whose first `..` separates two accepted numerals, exclusive end -/
theorem newSimple_excl (t : RangeTy) (s p q : Str) (x y : Dec)
    (hs : splitOnce "..".toList s = some (p, q))
    (hp : trim p ≠ []) (hx : parseNum t (trim p) = some x)
    (hq : trim q ≠ []) (hq' : stripPrefix ['='] (trim q) = none) (hy : parseNum t (trim q) = some y) :
    newSimple t s =
      match rangeEndBound t y with
      | none => .err "InvalidBoundEnd"
      | some b =>
        if (match b with
            | .excl e => Dec.le e x
            | .incl e => Dec.lt e x
            | .unb => false) then .err "ImpossibleRange"
        else .ok (.bounds (some x) b) := by
  have hp' : (trim p).isEmpty = false := by cases h : trim p <;> simp_all
  have hq'' : (trim q).isEmpty = false := by cases h : trim q <;> simp_all
  simp only [newSimple, hs, hp', hx, hq'', hq', hy]
  cases rangeEndBound t y with
  | none => simp
  | some b => cases b <;> simp

theorem parseNum_int {t : RangeTy} (ht : t.isFloat = false) (s : Str) :
    parseNum t s = (parseInt t s).map Dec.ofInt := by simp [parseNum, ht]

theorem rangeEndBound_int {t : RangeTy} (ht : t.isFloat = false) (v : Dec) :
    rangeEndBound t v = if t.min ≤ v.m - 1 then some (.incl (Dec.ofInt (v.m - 1))) else none := by
  simp only [rangeEndBound, ht, Dec.ofInt]
  by_cases h : v.m - 1 < t.min
  · have : ¬ t.min ≤ v.m - 1 := by omega
    simp [h, this]
  · have : t.min ≤ v.m - 1 := by omega
    simp [h, this]

theorem stripPrefix_ne {c d : Char} {s : Str} (h : c ≠ d) : stripPrefix [d] (c :: s) = none := by
  have : ¬ d = c := fun e => h e.symm
  simp [stripPrefix, List.isPrefixOf, this]

theorem newSimple_int_excl (t : RangeTy) (ht : t.isFloat = false) (a b : Str) (x y : Int)
    (ha : parseInt t a = some x) (hb : parseInt t b = some y) :
    newSimple t (a ++ ("..".toList ++ b)) =
      if y = t.min then .err "InvalidBoundEnd"
      else if y ≤ x then .err "ImpossibleRange"
      else .ok (.bounds (some (Dec.ofInt x)) (.incl (Dec.ofInt (y - 1)))) := by
  obtain ⟨ha1, ha2, _⟩ := parseInt_some ha
  obtain ⟨hb1, hb2, hb3⟩ := parseInt_some hb
  have hs : splitOnce "..".toList (a ++ ("..".toList ++ b)) = some (a, b) :=
    splitOnce_append '.' ['.'] a b (numStr_no_dot ha2)
  have hta := numStr_trim ha2
  have htb := numStr_trim hb2
  have hq' : stripPrefix ['='] (trim b) = none := by
    rw [htb]
    cases b with
    | nil => exact absurd rfl hb1
    | cons c cs => exact stripPrefix_ne (numChar_facts (hb2 c (by simp))).2.1
  rw [newSimple_excl t _ a b (Dec.ofInt x) (Dec.ofInt y) hs (by rwa [hta]) (by rw [hta, parseNum_int ht, ha]; rfl)
    (by rwa [htb]) hq' (by rw [htb, parseNum_int ht, hb]; rfl)]
  rw [rangeEndBound_int ht]
  simp only [RangeTy.inRange, Bool.and_eq_true, decide_eq_true_eq] at hb3
  simp only [Dec.ofInt]
  by_cases h1 : y = t.min
  · subst h1
    have : ¬ t.min ≤ t.min - 1 := by omega
    simp [this]
  · have : t.min ≤ y - 1 := by omega
    simp only [this, if_true, h1, if_false]
    by_cases h2 : y ≤ x
    · have : y - 1 < x := by omega
      simp [Dec.lt, h2, this]
    · have : ¬ y - 1 < x := by omega
      simp [Dec.lt, h2, this]

theorem stripPrefix_some_ne {d : Char} {s e : Str} (h : stripPrefix [d] s = some e) : s.isEmpty = false := by
  cases s with
  | nil => simp [stripPrefix, List.isPrefixOf] at h
  | cons c cs => rfl

/-- `p..=q` with both numerals accepted -/
theorem newSimple_incl (t : RangeTy) (s p q e : Str) (x y : Dec)
    (hs : splitOnce "..".toList s = some (p, q))
    (hp : trim p ≠ []) (hx : parseNum t (trim p) = some x)
    (hq : stripPrefix ['='] (trim q) = some e) (hy : parseNum t (trimStart e) = some y) :
    newSimple t s = if Dec.lt y x then .err "ImpossibleRange" else .ok (.bounds (some x) (.incl y)) := by
  have hp' : (trim p).isEmpty = false := by cases h : trim p <;> simp_all
  simp only [newSimple, hs, hp', hx, stripPrefix_some_ne hq, hq, hy]
  simp

/-- `p..` -/
theorem newSimple_from (t : RangeTy) (s p q : Str) (x : Dec)
    (hs : splitOnce "..".toList s = some (p, q))
    (hp : trim p ≠ []) (hx : parseNum t (trim p) = some x) (hq : trim q = []) :
    newSimple t s = .ok (.bounds (some x) .unb) := by
  have hp' : (trim p).isEmpty = false := by cases h : trim p <;> simp_all
  simp only [newSimple, hs, hp', hx, hq]
  simp

/-- `..q` -/
theorem newSimple_to_excl (t : RangeTy) (s p q : Str) (y : Dec)
    (hs : splitOnce "..".toList s = some (p, q)) (hp : trim p = [])
    (hq : trim q ≠ []) (hq' : stripPrefix ['='] (trim q) = none) (hy : parseNum t (trim q) = some y) :
    newSimple t s =
      match rangeEndBound t y with
      | none => .err "InvalidBoundEnd"
      | some b => .ok (.bounds none b) := by
  have hq'' : (trim q).isEmpty = false := by cases h : trim q <;> simp_all
  simp only [newSimple, hs, hp, hq'', hq', hy]
  cases rangeEndBound t y with
  | none => simp
  | some b => cases b <;> simp

/-- `..=q` -/
theorem newSimple_to_incl (t : RangeTy) (s p q e : Str) (y : Dec)
    (hs : splitOnce "..".toList s = some (p, q)) (hp : trim p = [])
    (hq : stripPrefix ['='] (trim q) = some e) (hy : parseNum t (trimStart e) = some y) :
    newSimple t s = .ok (.bounds none (.incl y)) := by
  simp only [newSimple, hs, hp, stripPrefix_some_ne hq, hq, hy]
  simp

/-- a numeral alone -/
theorem newSimple_exact (t : RangeTy) (s : Str) (x : Dec)
    (hs : splitOnce "..".toList s = none) (hx : parseNum t s = some x) :
    newSimple t s = .ok (.exact x) := by
  simp only [newSimple, hs, hx]

theorem trimStart_eq_self (s : Str) (h : ∀ c ∈ s, isWs c = false) : trimStart s = s :=
  dropWhile_eq_self s h

theorem newSimple_int_incl (t : RangeTy) (ht : t.isFloat = false) (a b : Str) (x y : Int)
    (ha : parseInt t a = some x) (hb : parseInt t b = some y) :
    newSimple t (a ++ ("..=".toList ++ b)) =
      if y < x then .err "ImpossibleRange"
      else .ok (.bounds (some (Dec.ofInt x)) (.incl (Dec.ofInt y))) := by
  obtain ⟨ha1, ha2, _⟩ := parseInt_some ha
  obtain ⟨hb1, hb2, hb3⟩ := parseInt_some hb
  have hs : splitOnce "..".toList (a ++ ("..=".toList ++ b)) = some (a, '=' :: b) :=
    splitOnce_append '.' ['.'] a ('=' :: b) (numStr_no_dot ha2)
  have hta := numStr_trim ha2
  have htb : trim ('=' :: b) = '=' :: b := by
    apply trim_eq_self
    intro c hc
    rcases List.mem_cons.mp hc with rfl | hc
    · decide
    · exact (numChar_facts (hb2 c hc)).2.2.1
  have htb' : trimStart b = b := trimStart_eq_self b (fun c hc => (numChar_facts (hb2 c hc)).2.2.1)
  rw [newSimple_incl t _ a ('=' :: b) b (Dec.ofInt x) (Dec.ofInt y) hs (by rwa [hta])
    (by rw [hta, parseNum_int ht, ha]; rfl) (by rw [htb]; simp [stripPrefix, List.isPrefixOf])
    (by rw [htb', parseNum_int ht, hb]; rfl)]
  simp [dec_lt_ofInt]

theorem newSimple_int_from (t : RangeTy) (ht : t.isFloat = false) (a : Str) (x : Int)
    (ha : parseInt t a = some x) :
    newSimple t (a ++ "..".toList) = .ok (.bounds (some (Dec.ofInt x)) .unb) := by
  obtain ⟨ha1, ha2, _⟩ := parseInt_some ha
  have hs : splitOnce "..".toList (a ++ ("..".toList ++ [])) = some (a, []) :=
    splitOnce_append '.' ['.'] a [] (numStr_no_dot ha2)
  rw [List.append_nil] at hs
  have hta := numStr_trim ha2
  exact newSimple_from t _ a [] (Dec.ofInt x) hs (by rwa [hta]) (by rw [hta, parseNum_int ht, ha]; rfl) rfl

theorem newSimple_int_to_excl (t : RangeTy) (ht : t.isFloat = false) (b : Str) (y : Int)
    (hb : parseInt t b = some y) :
    newSimple t ("..".toList ++ b) =
      if y = t.min then .err "InvalidBoundEnd" else .ok (.bounds none (.incl (Dec.ofInt (y - 1)))) := by
  obtain ⟨hb1, hb2, hb3⟩ := parseInt_some hb
  have hs : splitOnce "..".toList ([] ++ ("..".toList ++ b)) = some ([], b) :=
    splitOnce_append '.' ['.'] [] b (by simp)
  rw [List.nil_append] at hs
  have htb := numStr_trim hb2
  have hq' : stripPrefix ['='] (trim b) = none := by
    rw [htb]
    cases b with
    | nil => exact absurd rfl hb1
    | cons c cs => exact stripPrefix_ne (numChar_facts (hb2 c (by simp))).2.1
  rw [newSimple_to_excl t _ [] b (Dec.ofInt y) hs rfl (by rwa [htb]) hq' (by rw [htb, parseNum_int ht, hb]; rfl)]
  rw [rangeEndBound_int ht]
  simp only [RangeTy.inRange, Bool.and_eq_true, decide_eq_true_eq] at hb3
  simp only [Dec.ofInt]
  by_cases h1 : y = t.min
  · subst h1
    have : ¬ t.min ≤ t.min - 1 := by omega
    simp [this]
  · have : t.min ≤ y - 1 := by omega
    simp [this, h1]

theorem newSimple_int_to_incl (t : RangeTy) (ht : t.isFloat = false) (b : Str) (y : Int)
    (hb : parseInt t b = some y) :
    newSimple t ("..=".toList ++ b) = .ok (.bounds none (.incl (Dec.ofInt y))) := by
  obtain ⟨hb1, hb2, hb3⟩ := parseInt_some hb
  have hs : splitOnce "..".toList ([] ++ ("..".toList ++ ('=' :: b))) = some ([], '=' :: b) :=
    splitOnce_append '.' ['.'] [] ('=' :: b) (by simp)
  have htb : trim ('=' :: b) = '=' :: b := by
    apply trim_eq_self
    intro c hc
    rcases List.mem_cons.mp hc with rfl | hc
    · decide
    · exact (numChar_facts (hb2 c hc)).2.2.1
  have htb' : trimStart b = b := trimStart_eq_self b (fun c hc => (numChar_facts (hb2 c hc)).2.2.1)
  exact newSimple_to_incl t _ [] ('=' :: b) b (Dec.ofInt y) hs rfl
    (by rw [htb]; simp [stripPrefix, List.isPrefixOf]) (by rw [htb', parseNum_int ht, hb]; rfl)

theorem newSimple_int_exact (t : RangeTy) (ht : t.isFloat = false) (a : Str) (x : Int)
    (ha : parseInt t a = some x) : newSimple t a = .ok (.exact (Dec.ofInt x)) := by
  obtain ⟨ha1, ha2, _⟩ := parseInt_some ha
  exact newSimple_exact t a (Dec.ofInt x) (splitOnce_none '.' ['.'] a (numStr_no_dot ha2))
    (by rw [parseNum_int ht, ha]; rfl)

/-- `Range::new` on a string without blanks, `|`, `_` that is not `..` is its non-`|` part -/
theorem new_eq_newSimple (t : RangeTy) (s : Str)
    (h : ∀ c ∈ s, isWs c = false ∧ c ≠ '|' ∧ c ≠ '_') (hdd : s ≠ "..".toList) :
    Ranges.new t s = newSimple t s := by
  have ht : trim s = s := trim_eq_self s (fun c hc => (h c hc).1)
  have h1 : (s == ['_']) = false := by
    cases hs : s == ['_']
    · rfl
    · simp only [beq_iff_eq] at hs
      exact absurd rfl (h '_' (by simp [hs])).2.2
  have h2 : (s == "..".toList) = false := by simpa using hdd
  have h3 : Str.contains '|' s = false := by
    simp only [Str.contains, List.any_eq_false, beq_iff_eq]
    intro c hc e
    exact (h c hc).2.1 e
  simp only [Ranges.new, ht, h1, h2, h3]
  simp


/-! ### flatten -/
theorem flatten_multi (l : List Range) :
    flatten (.multi l) = if l.any isFallback then .fallback else .multi l := by
  simp only [flatten]
  congr 2

theorem isFallback_iff (r : Range) : isFallback r = true ↔ r = .fallback := by
  cases r <;> simp [isFallback]

theorem doMatch_flatten (r : Range) (n : Dec) : doMatch (flatten r) n = doMatch r n := by
  cases r with
  | multi l =>
    rw [flatten_multi]
    by_cases h : l.any isFallback = true
    · rw [if_pos h]
      simp only [doMatch, doMatchAny_eq_any]
      obtain ⟨x, hx, hf⟩ := List.any_eq_true.mp h
      rw [isFallback_iff] at hf
      subst hf
      symm
      exact List.any_eq_true.mpr ⟨.fallback, hx, by simp [doMatch]⟩
    · rw [if_neg h]
  | _ => rfl

/-! ### `|` -/
theorem new_go (t : RangeTy) : ∀ (ps : List Str) (acc rs : List Range),
    ps.mapM (fun p => match newPiece t p with | .ok r => some r | _ => none) = some rs →
    Ranges.new.go t ps acc = .ok (flatten (.multi (acc.reverse ++ rs)))
  | [], acc, rs, h => by
    simp at h; subst h; simp [Ranges.new.go]
  | p :: ps, acc, rs, h => by
    simp only [List.mapM_cons] at h
    cases hp : newPiece t p with
    | ok r =>
      simp only [hp] at h
      cases hm : ps.mapM (fun p => match newPiece t p with | .ok r => some r | _ => none) with
      | none => simp [hm] at h
      | some rs' =>
        simp [hm] at h
        subst h
        simp only [Ranges.new.go, hp]
        rw [new_go t ps (r :: acc) rs' hm]
        simp
    | err e => simp [hp] at h
    | panic e => simp [hp] at h

/-! ### `check_de_inner` -/
/-- a fallback, or a `|`/list specification with a fallback among its alternatives -/
def containsFallback : Range → Bool
  | .fallback => true
  | .multi l => l.any isFallback
  | _ => false

theorem checkDe_nil : checkDe [] = (false, 0) := by simp [checkDe]

theorem checkDe_snoc (init : List Range) (last : Range) :
    checkDe (init ++ [last]) = (init.any containsFallback, (init.filter isFallback).length + (if isFallback last then 1 else 0)) := by
  simp only [checkDe, List.reverse_append, List.reverse_cons, List.reverse_nil, List.nil_append,
    List.cons_append, List.drop_succ_cons, List.drop_zero, List.any_reverse, List.filter_append, List.length_append]
  congr 2
  cases h : isFallback last <;> simp [List.filter, h]

open Decode in
theorem rangeSeq_single (t : RangeTy) (c : J) : rangeSpec.rangeSeq t [c] = rangeSpec t c := by
  simp only [rangeSpec.rangeSeq, rangeSpec.rangeList]
  cases rangeSpec t c <;> rfl

open Decode in
theorem rangeList_length (t : RangeTy) : ∀ (cs : List J) (rs : List Range),
    rangeSpec.rangeList t cs = .ok rs → rs.length = cs.length
  | [], rs, h => by simp [rangeSpec.rangeList] at h; subst h; rfl
  | c :: cs, rs, h => by
    simp only [rangeSpec.rangeList] at h
    cases hc : rangeSpec t c with
    | ok r =>
      simp only [hc] at h
      cases hl : rangeSpec.rangeList t cs with
      | ok rs' =>
        simp only [hl] at h
        injection h with h
        subst h
        simp [rangeList_length t cs rs' hl]
      | err e => simp [hl] at h
      | panic e => simp [hl] at h
    | err e => simp [hc] at h
    | panic e => simp [hc] at h

open Decode in
theorem rangeSeq_multi (t : RangeTy) (c c' : J) (cs : List J) (f : Range) (rs : List Range)
    (hf : rangeSpec t c = .ok f) (hrs : rangeSpec.rangeList t (c' :: cs) = .ok rs) :
    rangeSpec.rangeSeq t (c :: c' :: cs) = .ok (.multi (rs ++ [f])) := by
  have hl := rangeList_length t _ _ hrs
  simp only [rangeSpec.rangeSeq, hf, hrs]
  cases rs with
  | nil => simp at hl
  | cons r rs => rfl

/-! ### an accepted specification is never empty -/

/-- the emptiness check of `Range::new` -/
def possible : Option Dec → Bound → Prop
  | some x, .excl e => Dec.le e x = false
  | some x, .incl e => Dec.lt e x = false
  | _, _ => True

theorem newSimple_ok_shape (t : RangeTy) (s : Str) (r : Range) (h : newSimple t s = .ok r) :
    (∃ v, r = .exact v) ∨ ∃ lo b, r = .bounds lo b ∧ possible lo b := by
  simp only [newSimple] at h
  split at h
  · rename_i start stop _
    split at h
    · cases h
    · cases h
    · rename_i lo _
      split at h
      · cases h
      · cases h
      · rename_i b _
        split at h
        all_goals
          split at h
          · cases h
          · injection h with h
            subst h
            right
            refine ⟨_, _, rfl, ?_⟩
            first
              | (simp_all [possible]; done)
              | (cases lo <;> cases b <;> simp_all [possible])
  · split at h
    · injection h with h; exact Or.inl ⟨_, h.symm⟩
    · cases h

theorem possible_nonempty (lo : Option Dec) (b : Bound) (h : possible lo b) : ∃ n, doMatch (.bounds lo b) n = true := by
  cases lo with
  | some x =>
    refine ⟨x, ?_⟩
    cases b with
    | incl e =>
      simp only [possible] at h
      simp [doMatch, dec_not_lt, dec_le_refl, ← dec_not_lt e x, h]
    | excl e =>
      simp only [possible] at h
      simp [doMatch, dec_not_lt, dec_le_refl, dec_lt_eq_not_le x e, h]
    | unb => simp [doMatch, dec_not_lt, dec_le_refl]
  | none =>
    cases b with
    | incl e => exact ⟨e, by simp [doMatch, dec_le_refl]⟩
    | excl e =>
      refine ⟨⟨e.m - 1, e.e⟩, ?_⟩
      simp only [doMatch, Bool.true_and, Dec.lt, decide_eq_true_eq]
      have := pow10_pos e.e
      exact Int.mul_lt_mul_of_pos_right (by omega) this
    | unb => exact ⟨⟨0, 0⟩, by simp [doMatch]⟩

def NonEmpty (r : Range) : Prop := ∃ n, doMatch r n = true

theorem newSimple_nonempty (t : RangeTy) (s : Str) (r : Range) (h : newSimple t s = .ok r) : NonEmpty r := by
  rcases newSimple_ok_shape t s r h with ⟨v, rfl⟩ | ⟨lo, b, rfl, hp⟩
  · exact ⟨v, by simp [doMatch, Dec.eq]⟩
  · exact possible_nonempty lo b hp

theorem newPiece_nonempty (t : RangeTy) (s : Str) (r : Range) (h : newPiece t s = .ok r) : NonEmpty r := by
  simp only [newPiece] at h
  split at h
  · injection h with h; subst h; exact ⟨⟨0, 0⟩, rfl⟩
  · exact newSimple_nonempty t _ r h

theorem multi_nonempty (l : List Range) (x : Range) (hx : x ∈ l) (hne : NonEmpty x) : NonEmpty (flatten (.multi l)) := by
  obtain ⟨n, hn⟩ := hne
  refine ⟨n, ?_⟩
  rw [doMatch_flatten]
  simp only [doMatch, doMatchAny_eq_any]
  exact List.any_eq_true.mpr ⟨x, hx, hn⟩

theorem new_go_nonempty (t : RangeTy) : ∀ (ps : List Str) (acc : List Range) (r : Range),
    Ranges.new.go t ps acc = .ok r → (∀ a ∈ acc, NonEmpty a) → (acc ≠ [] ∨ ps ≠ []) → NonEmpty r
  | [], acc, r, h, hacc, hne => by
    simp only [Ranges.new.go] at h
    injection h with h
    subst h
    cases acc with
    | nil => simp at hne
    | cons a as => exact multi_nonempty _ a (by simp) (hacc a (by simp))
  | p :: ps, acc, r, h, hacc, _ => by
    simp only [Ranges.new.go] at h
    cases hp : newPiece t p with
    | ok x =>
      rw [hp] at h
      refine new_go_nonempty t ps (x :: acc) r h ?_ (Or.inl (by simp))
      intro a ha
      rcases List.mem_cons.mp ha with rfl | ha
      · exact newPiece_nonempty t p _ hp
      · exact hacc a ha
    | err e => rw [hp] at h; cases h
    | panic e => rw [hp] at h; cases h

theorem splitC_ne_nil (d : Char) : ∀ (s : Str), splitC d s ≠ []
  | [] => by simp [splitC]
  | c :: cs => by
    simp only [splitC]
    split
    · simp
    · split <;> simp

theorem new_nonempty (t : RangeTy) (s : Str) (r : Range) (h : Ranges.new t s = .ok r) : NonEmpty r := by
  simp only [Ranges.new] at h
  split at h
  · injection h with h; subst h; exact ⟨⟨0, 0⟩, rfl⟩
  · split at h
    · exact new_go_nonempty t _ [] r h (by simp) (Or.inr (splitC_ne_nil _ _))
    · exact newSimple_nonempty t _ r h

/-! ### the decoder's three checks -/
section
open Decode

def declAccepted (t : RangeTy) (rs : List Range) : Bool :=
  !(checkDe rs).1 && !((checkDe rs).2 > 1) && !((checkDe rs).2 == 0 && t.isFloat)

theorem value_arr_ok (fuel : Nat) (top key : Str) (l : List J) (pv : PV)
    (h : Decode.value (fuel + 1) top false key (.arr l) = .ok pv) :
    ∃ t bs, pv = .ranges "var_count".toList t bs ∧ bs ≠ [] ∧ declAccepted t (bs.map (·.1)) = true := by
  unfold Decode.value at h
  simp only [Bool.false_eq_true, if_false] at h
  split at h
  · cases h
  · rename_i first rest
    split at h
    · cases h
    · cases h
    · rename_i t bs hstart
      split at h
      · cases h
      · rename_i hne
        split at h
        · cases h
        · split at h
          · cases h
          · split at h
            · cases h
            · injection h with h
              refine ⟨t, bs, h.symm, ?_, ?_⟩
              · intro e; subst e; simp at hne
              · simp_all [declAccepted]
                rename_i _ _ himp
                by_cases hz : (checkDe (List.map (fun x => x.fst) bs)).snd = 0
                · exact Or.inr (himp hz)
                · exact Or.inl hz

end

end I18nVerif.Ranges
