import I18nVerif.Model.Ranges
import I18nVerif.Model.Foreign
import I18nVerif.Model.Decode
import I18nVerif.Spec.Eval
import I18nVerif.Spec.RangeSpec
/-! Helper lemmas for C04 (ranges). -/
namespace I18nVerif.Ranges
open I18nVerif Str RangeSpec

/-! ### The order on exact decimals -/

theorem dec_not_lt (a b : Dec) : (!Dec.lt a b) = Dec.le b a := by
  simp only [Dec.lt, Dec.le]
  rw [Bool.eq_iff_iff]
  simp only [Bool.not_eq_true', decide_eq_false_iff_not, decide_eq_true_eq]
  omega

theorem dec_lt_eq_not_le (a b : Dec) : Dec.lt a b = !Dec.le b a := by
  rw [← dec_not_lt, Bool.not_not]

theorem dec_eq_comm (a b : Dec) : Dec.eq a b = Dec.eq b a := by
  simp only [Dec.eq]
  rw [Bool.eq_iff_iff]
  simp only [beq_iff_eq]
  exact Eq.comm

theorem dec_eq_iff_le_le (a b : Dec) : Dec.eq a b = (Dec.le a b && Dec.le b a) := by
  simp only [Dec.eq, Dec.le]
  rw [Bool.eq_iff_iff]
  simp only [beq_iff_eq, Bool.and_eq_true, decide_eq_true_eq]
  omega

theorem dec_le_refl (a : Dec) : Dec.le a a = true := by simp [Dec.le]

theorem dec_le_total (a b : Dec) : Dec.le a b = true ∨ Dec.le b a = true := by
  simp only [Dec.le, decide_eq_true_eq]
  omega

theorem pow10_pos (e : Nat) : (0 : Int) < (10 : Int) ^ e := Int.pow_pos (by decide)

/-- transitivity, by cancelling the positive factor `10 ^ b.e` -/
theorem dec_le_trans {a b c : Dec} (h1 : Dec.le a b = true) (h2 : Dec.le b c = true) : Dec.le a c = true := by
  simp only [Dec.le, decide_eq_true_eq] at *
  have ka := pow10_pos a.e
  have kb := pow10_pos b.e
  have kc := pow10_pos c.e
  generalize (10 : Int) ^ a.e = A at *
  generalize (10 : Int) ^ b.e = B at *
  generalize (10 : Int) ^ c.e = C at *
  -- a.m*B ≤ b.m*A, b.m*C ≤ c.m*B ⊢ a.m*C ≤ c.m*A
  have e1 : a.m * B * C ≤ b.m * A * C := Int.mul_le_mul_of_nonneg_right h1 (Int.le_of_lt kc)
  have e2 : b.m * C * A ≤ c.m * B * A := Int.mul_le_mul_of_nonneg_right h2 (Int.le_of_lt ka)
  have e3 : a.m * C * B ≤ c.m * A * B := by
    have x1 : a.m * B * C = a.m * C * B := by rw [Int.mul_assoc, Int.mul_comm B C, ← Int.mul_assoc]
    have x2 : b.m * A * C = b.m * C * A := by rw [Int.mul_assoc, Int.mul_comm A C, ← Int.mul_assoc]
    have x3 : c.m * B * A = c.m * A * B := by rw [Int.mul_assoc, Int.mul_comm B A, ← Int.mul_assoc]
    omega
  exact Int.le_of_mul_le_mul_right e3 kb

/-- on integers (`e = 0`) the comparisons are those of `Int` -/
theorem dec_le_ofInt (a b : Int) : Dec.le (Dec.ofInt a) (Dec.ofInt b) = decide (a ≤ b) := by
  simp [Dec.le, Dec.ofInt]
theorem dec_lt_ofInt (a b : Int) : Dec.lt (Dec.ofInt a) (Dec.ofInt b) = decide (a < b) := by
  simp [Dec.lt, Dec.ofInt]
theorem dec_eq_ofInt (a b : Int) : Dec.eq (Dec.ofInt a) (Dec.ofInt b) = decide (a = b) := by
  rw [Bool.eq_iff_iff]; simp [Dec.eq, Dec.ofInt]

/-! ### `doMatch` is membership -/

mutual
theorem doMatch_eq_contains : ∀ (r : Range) (n : Dec), doMatch r n = (specOf r).contains n
  | .exact v, n => by simp [doMatch, specOf, CountSpec.contains]
  | .bounds lo hi, n => by
    cases lo <;> cases hi <;> simp [doMatch, specOf, CountSpec.contains, dec_not_lt]
  | .multi l, n => by
    simp only [doMatch, specOf, CountSpec.contains]
    exact doMatchAny_eq_containsAny l n
  | .fallback, n => by simp [doMatch, specOf, CountSpec.contains]
theorem doMatchAny_eq_containsAny : ∀ (l : List Range) (n : Dec),
    doMatch.doMatchAny l n = CountSpec.contains.containsAny (specOf.specOfL l) n
  | [], n => by simp [doMatch.doMatchAny, specOf.specOfL, CountSpec.contains.containsAny]
  | r :: rs, n => by
    simp only [doMatch.doMatchAny, specOf.specOfL, CountSpec.contains.containsAny]
    rw [doMatch_eq_contains r n, doMatchAny_eq_containsAny rs n]
end

theorem doMatchAny_eq_any (l : List Range) (n : Dec) : doMatch.doMatchAny l n = l.any (fun r => doMatch r n) := by
  induction l with
  | nil => rfl
  | cons r rs ih => simp [doMatch.doMatchAny, ih]

theorem containsAny_eq_any (l : List CountSpec) (n : Dec) :
    CountSpec.contains.containsAny l n = l.any (fun s => s.contains n) := by
  induction l with
  | nil => rfl
  | cons r rs ih => simp [CountSpec.contains.containsAny, ih]

theorem specOfL_eq_map (l : List Range) : specOf.specOfL l = l.map specOf := by
  induction l with
  | nil => rfl
  | cons r rs ih => simp [specOf.specOfL, ih]

/-! ### `find_value` and the run-time chain pick the first matching branch -/
open Foreign Eval

theorem findValue_nil (orc : Oracle) (locale : Str) (args : List (Str × PV)) (c : Dec) :
    findValue orc locale args c [] = .err "CountArgNoMatch" := by
  simp [findValue]

theorem findValue_cons (orc : Oracle) (locale : Str) (args : List (Str × PV)) (c : Dec)
    (r : Range) (v : PV) (rest : List (Range × PV)) :
    findValue orc locale args c ((r, v) :: rest)
      = if doMatch r c then populate orc locale args v else findValue orc locale args c rest := by
  simp [findValue]

theorem evalBranches_nil (ρ : Env) (c : Dec) : evalBranches ρ c [] = [] := by simp [evalBranches]

theorem evalBranches_cons (ρ : Env) (c : Dec) (r : Range) (v : PV) (rest : List (Range × PV)) :
    evalBranches ρ c ((r, v) :: rest) = if doMatch r c then eval ρ v else evalBranches ρ c rest := by
  simp [evalBranches]

/-- skipping a prefix of branches that do not match -/
theorem findValue_skip (orc : Oracle) (locale : Str) (args : List (Str × PV)) (c : Dec)
    (pre rest : List (Range × PV)) (h : ∀ x ∈ pre, doMatch x.1 c = false) :
    findValue orc locale args c (pre ++ rest) = findValue orc locale args c rest := by
  induction pre with
  | nil => rfl
  | cons x xs ih =>
    obtain ⟨r, v⟩ := x
    have hr : doMatch r c = false := h (r, v) (by simp)
    simp only [List.cons_append, findValue_cons, hr]
    exact ih (fun y hy => h y (by simp [hy]))

theorem evalBranches_skip (ρ : Env) (c : Dec)
    (pre rest : List (Range × PV)) (h : ∀ x ∈ pre, doMatch x.1 c = false) :
    evalBranches ρ c (pre ++ rest) = evalBranches ρ c rest := by
  induction pre with
  | nil => rfl
  | cons x xs ih =>
    obtain ⟨r, v⟩ := x
    have hr : doMatch r c = false := h (r, v) (by simp)
    simp only [List.cons_append, evalBranches_cons, hr]
    exact ih (fun y hy => h y (by simp [hy]))

/-- every list of branches either has a first matching branch or none at all -/
theorem first_match_or_none (c : Dec) (bs : List (Range × PV)) :
    (∀ x ∈ bs, doMatch x.1 c = false) ∨
    ∃ r v pre post, bs = pre ++ (r, v) :: post ∧ (∀ x ∈ pre, doMatch x.1 c = false) ∧ doMatch r c = true := by
  induction bs with
  | nil => left; simp
  | cons x xs ih =>
    obtain ⟨r, v⟩ := x
    by_cases hr : doMatch r c = true
    · right; exact ⟨r, v, [], xs, rfl, by simp, hr⟩
    · have hr' : doMatch r c = false := by simpa using hr
      rcases ih with h | ⟨r', v', pre, post, h1, h2, h3⟩
      · left
        intro y hy
        rcases List.mem_cons.mp hy with rfl | hy
        · exact hr'
        · exact h y hy
      · right
        refine ⟨r', v', (r, v) :: pre, post, by simp [h1], ?_, h3⟩
        intro y hy
        rcases List.mem_cons.mp hy with rfl | hy
        · exact hr'
        · exact h2 y hy

end I18nVerif.Ranges
