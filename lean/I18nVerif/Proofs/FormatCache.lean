import I18nVerif.Model.FormatCache
/-! Lemmas about the formatter cache state machine (C18). -/
namespace I18nVerif.FormatCache

variable {κ ι : Type} [DecidableEq κ]

/-- cache invariant: every entry holds the formatter made for its key, and no key occurs twice -/
def Inv (make : κ → Option ι) (st : State κ ι) : Prop :=
  (∀ e ∈ st, make e.1 = some e.2) ∧ (st.map (·.1)).Nodup

theorem lookup_some_mem {k : κ} {st : State κ ι} {v : ι} (h : lookup k st = some v) : (k, v) ∈ st := by
  induction st with
  | nil => simp [lookup] at h
  | cons e rest ih =>
    obtain ⟨k', v'⟩ := e
    simp only [lookup] at h
    split at h
    · rename_i hk; simp at h; subst hk; subst h; simp
    · simp [ih h]

theorem lookup_none_not_mem {k : κ} {st : State κ ι} (h : lookup k st = none) : k ∉ st.map (·.1) := by
  induction st with
  | nil => simp
  | cons e rest ih =>
    obtain ⟨k', v'⟩ := e
    simp only [lookup] at h
    split at h
    · simp at h
    · rename_i hk
      simp only [List.map_cons, List.mem_cons, not_or]
      exact ⟨fun e => hk e.symm, ih h⟩

theorem lookup_mem_some {k : κ} {st : State κ ι} (h : k ∈ st.map (·.1)) : ∃ v, lookup k st = some v := by
  cases hl : lookup k st with
  | some v => exact ⟨v, rfl⟩
  | none => exact absurd h (lookup_none_not_mem hl)

omit [DecidableEq κ] in
theorem inv_nil (make : κ → Option ι) : Inv make ([] : State κ ι) := by simp [Inv]

/-- one step from a state satisfying the invariant: the outcome is `make k`, whatever the state -/
theorem step_spec (make : κ → Option ι) (st : State κ ι) (k : κ) (h : Inv make st) :
    (step make st k).2 = make k ∧ Inv make (step make st k).1 ∧
    (∀ k', k' ∈ st.map (·.1) → k' ∈ (step make st k).1.map (·.1)) ∧
    ((make k).isSome → k ∈ (step make st k).1.map (·.1)) := by
  unfold step
  cases hl : lookup k st with
  | some v =>
    have hm := lookup_some_mem hl
    refine ⟨(h.1 _ hm).symm, h, fun _ h' => h', fun _ => ?_⟩
    exact List.mem_map.mpr ⟨(k, v), hm, rfl⟩
  | none =>
    cases hmk : make k with
    | none => exact ⟨rfl, h, fun _ h' => h', fun hs => by simp at hs⟩
    | some v =>
      refine ⟨rfl, ⟨?_, ?_⟩, ?_, ?_⟩
      · intro e he
        simp only [List.mem_cons] at he
        rcases he with rfl | he
        · exact hmk
        · exact h.1 e he
      · simp only [List.map_cons, List.nodup_cons]
        exact ⟨lookup_none_not_mem hl, h.2⟩
      · intro k' hk'; simp [List.mem_cons]; right; simpa using hk'
      · intro _; simp

theorem run_spec (make : κ → Option ι) (ks : List κ) : ∀ (st : State κ ι), Inv make st →
    (run make st ks).2 = ks.map make ∧ Inv make (run make st ks).1 ∧
    (∀ k, (k ∈ st.map (·.1) ∨ (k ∈ ks ∧ (make k).isSome)) → k ∈ (run make st ks).1.map (·.1)) := by
  induction ks with
  | nil =>
    intro st h
    refine ⟨rfl, h, ?_⟩
    intro k hk
    rcases hk with hk | hk
    · exact hk
    · simp at hk
  | cons k ks ih =>
    intro st h
    obtain ⟨h1, h2, h3, h4⟩ := step_spec make st k h
    obtain ⟨i1, i2, i3⟩ := ih (step make st k).1 h2
    simp only [run, List.map_cons]
    refine ⟨by rw [h1, i1], i2, ?_⟩
    intro k' hk'
    apply i3
    rcases hk' with hk' | ⟨hk', hs⟩
    · exact Or.inl (h3 k' hk')
    · simp only [List.mem_cons] at hk'
      rcases hk' with rfl | hk'
      · exact Or.inl (h4 hs)
      · exact Or.inr ⟨hk', hs⟩

end I18nVerif.FormatCache
