import I18nVerif.Model.Langid
/-! Helper lemmas for C12 (language negotiation). -/
namespace I18nVerif.Langid

/-- `l` matches request `req` exactly -/
def exact (l : Loc) (req : LangId) : Bool := langIdMatches l.lid req false false
/-- `l`, read as a range (missing subtags are wildcards), covers `req` — "`fr` for `fr-FR`" -/
def covers (l : Loc) (req : LangId) : Bool := langIdMatches l.lid req true false

theorem exact_iff (l : Loc) (req : LangId) : exact l req = true ↔ l.lid = req := by
  obtain ⟨id, ⟨a, b, c, d⟩⟩ := l
  obtain ⟨a', b', c', d'⟩ := req
  simp [exact, langIdMatches, langMatches, subtagMatches, subtagsMatch, and_assoc]

theorem exact_covers {l : Loc} {req : LangId} (h : exact l req = true) : covers l req = true := by
  rw [exact_iff] at h
  subst h
  simp [covers, langIdMatches, langMatches, subtagMatches, subtagsMatch]

theorem covers_spec_le {l : Loc} {req : LangId} (h : covers l req = true) :
    specificity l.lid ≤ specificity req := by
  obtain ⟨id, ⟨a, b, c, d⟩⟩ := l
  obtain ⟨a', b', c', d'⟩ := req
  simp only [covers, langIdMatches, langMatches, subtagMatches, subtagsMatch, Bool.and_eq_true,
    Bool.or_eq_true, Bool.true_and, Bool.false_and, beq_iff_eq,
    Option.isNone_iff_eq_none, List.isEmpty_iff, Bool.false_eq_true, or_false] at h
  obtain ⟨⟨⟨_, hb⟩, hc⟩, hd⟩ := h
  simp only [specificity]
  have h1 : (if b.isSome then 1 else 0) ≤ (if b'.isSome then 1 else 0) := by
    rcases hb with hb | hb <;> subst hb <;> simp <;> split <;> omega
  have h2 : (if c.isSome then 1 else 0) ≤ (if c'.isSome then 1 else 0) := by
    rcases hc with hc | hc <;> subst hc <;> simp <;> split <;> omega
  have h3 : d.length ≤ d'.length := by
    rcases hd with hd | hd <;> subst hd <;> simp
  omega

theorem exact_spec_eq {l : Loc} {req : LangId} (h : exact l req = true) :
    specificity l.lid = specificity req := by
  rw [exact_iff] at h; rw [h]

/-! ### stable sort -/

theorem mem_insertDesc {x y : Loc} {l : List Loc} : y ∈ insertDesc x l ↔ y = x ∨ y ∈ l := by
  induction l with
  | nil => simp [insertDesc]
  | cons z zs ih =>
    simp only [insertDesc]
    split
    · simp
    · simp [ih]; constructor
      · rintro (h | h | h) <;> simp [h]
      · rintro (h | h | h) <;> simp [h]

theorem mem_sortDesc {y : Loc} {l : List Loc} : y ∈ sortDesc l ↔ y ∈ l := by
  induction l with
  | nil => simp [sortDesc]
  | cons x xs ih => simp [sortDesc, mem_insertDesc, ih]

theorem length_insertDesc (x : Loc) (l : List Loc) : (insertDesc x l).length = l.length + 1 := by
  induction l with
  | nil => simp [insertDesc]
  | cons z zs ih => simp only [insertDesc]; split <;> simp [ih]

theorem length_sortDesc (l : List Loc) : (sortDesc l).length = l.length := by
  induction l with
  | nil => simp [sortDesc]
  | cons x xs ih => simp [sortDesc, length_insertDesc, ih]

/-- `hd` is "the first element of maximal specificity" of `l` -/
def IsFirstMax (hd : Loc) (l : List Loc) : Prop :=
  ∃ pre post, l = pre ++ hd :: post ∧
    (∀ y ∈ pre, specificity y.lid < specificity hd.lid) ∧
    (∀ y ∈ post, specificity y.lid ≤ specificity hd.lid)

theorem head_insertDesc (x : Loc) (l : List Loc) :
    (insertDesc x l).head? = some x ∨
      (∃ y, l.head? = some y ∧ (insertDesc x l).head? = some y ∧
        specificity x.lid < specificity y.lid) := by
  cases l with
  | nil => simp [insertDesc]
  | cons z zs =>
    simp only [insertDesc]
    split
    · simp
    · right; exact ⟨z, by simp, by simp, by omega⟩

/-- the head of the stable descending sort is the first element of maximal specificity -/
theorem sortDesc_head (l : List Loc) (hne : l ≠ []) :
    ∃ hd, (sortDesc l).head? = some hd ∧ IsFirstMax hd l := by
  induction l with
  | nil => contradiction
  | cons x xs ih =>
    simp only [sortDesc]
    by_cases hxs : xs = []
    · subst hxs
      exact ⟨x, by simp [sortDesc, insertDesc], [], [], by simp, by simp, by simp⟩
    · obtain ⟨hd, hhd, pre, post, hl, hpre, hpost⟩ := ih hxs
      rcases head_insertDesc x (sortDesc xs) with h | ⟨y, hy1, hy2, hlt⟩
      · -- x is the head: x is ≥ the old head
        refine ⟨x, h, [], xs, by simp, by simp, ?_⟩
        -- need: all of xs ≤ x.  The old head hd satisfies spec hd ≤ spec x
        have hle : specificity hd.lid ≤ specificity x.lid := by
          cases hs : sortDesc xs with
          | nil => rw [hs] at hhd; simp at hhd
          | cons z zs =>
            rw [hs] at hhd h
            simp at hhd; subst hhd
            simp only [insertDesc] at h
            split at h
            · assumption
            · simp at h; subst h; omega
        intro y hy
        rw [hl] at hy
        simp at hy
        rcases hy with hy | hy | hy
        · have := hpre y hy; omega
        · subst hy; exact hle
        · have := hpost y hy; omega
      · rw [hhd] at hy1; simp at hy1; subst hy1
        refine ⟨hd, hy2, x :: pre, post, by simp [hl], ?_, hpost⟩
        intro z hz
        simp at hz
        rcases hz with hz | hz
        · subst hz; exact hlt
        · exact hpre z hz

/-! ### passes -/

theorem mem_pass_fst {req : LangId} {b : Bool} {avail : List Loc} {l : Loc} :
    l ∈ (pass req b avail).1 ↔ l ∈ avail ∧ langIdMatches l.lid req b false = true := by
  simp [pass]

theorem mem_pass_snd {req : LangId} {b : Bool} {avail : List Loc} {l : Loc} :
    l ∈ (pass req b avail).2 ↔ l ∈ avail ∧ langIdMatches l.lid req b false = false := by
  simp [pass]

theorem mem_step_fst {req : LangId} {avail : List Loc} {l : Loc} :
    l ∈ (step req avail).1 ↔ l ∈ avail ∧ covers l req = true := by
  simp only [step, mem_sortDesc, List.mem_append, mem_pass_fst, mem_pass_snd]
  constructor
  · rintro (⟨h1, h2⟩ | ⟨⟨h1, _⟩, h2⟩)
    · exact ⟨h1, exact_covers h2⟩
    · exact ⟨h1, h2⟩
  · rintro ⟨h1, h2⟩
    by_cases he : langIdMatches l.lid req false false = true
    · left; exact ⟨h1, he⟩
    · right; exact ⟨⟨h1, by simpa using he⟩, h2⟩

theorem mem_step_snd {req : LangId} {avail : List Loc} {l : Loc} :
    l ∈ (step req avail).2 ↔ l ∈ avail ∧ covers l req = false := by
  simp only [step, mem_pass_snd]
  constructor
  · rintro ⟨⟨h1, _⟩, h2⟩; exact ⟨h1, h2⟩
  · rintro ⟨h1, h2⟩
    refine ⟨⟨h1, ?_⟩, h2⟩
    cases he : langIdMatches l.lid req false false
    · rfl
    · have := exact_covers (l := l) (req := req) he
      rw [h2] at this; contradiction

theorem step_nomatch {req : LangId} {avail : List Loc}
    (h : ∀ l ∈ avail, covers l req = false) : step req avail = ([], avail) := by
  have hf : ∀ l ∈ avail, langIdMatches l.lid req false false = false := by
    intro l hl
    cases he : langIdMatches l.lid req false false
    · rfl
    · have := exact_covers (l := l) (req := req) he
      rw [h l hl] at this; contradiction
  have e1 : avail.filter (fun l => langIdMatches l.lid req false false) = [] := by
    rw [List.filter_eq_nil_iff]; intro l hl; simp [hf l hl]
  have e2 : avail.filter (fun l => !langIdMatches l.lid req false false) = avail := by
    rw [List.filter_eq_self]; intro l hl; simp [hf l hl]
  have e3 : avail.filter (fun l => langIdMatches l.lid req true false) = [] := by
    rw [List.filter_eq_nil_iff]; intro l hl; have := h l hl; simp [covers] at this; simp [this]
  have e4 : avail.filter (fun l => !langIdMatches l.lid req true false) = avail := by
    rw [List.filter_eq_self]; intro l hl; have := h l hl; simp [covers] at this; simp [this]
  simp [step, pass, e1, e2, e3, e4, sortDesc]

theorem mem_filterLoop {reqs : List LangId} {avail : List Loc} {l : Loc}
    (h : l ∈ filterLoop reqs avail) : l ∈ avail := by
  induction reqs generalizing avail with
  | nil => simp [filterLoop] at h
  | cons r rs ih =>
    simp only [filterLoop, List.mem_append] at h
    rcases h with h | h
    · exact (mem_step_fst.mp h).1
    · exact (mem_step_snd.mp (ih h)).1

end I18nVerif.Langid
