import I18nVerif.Proofs.TablesGlue
import I18nVerif.Proofs.Merge
import I18nVerif.Spec.BkiPath
/-!
C11 end-to-end for **every** locale position: `mergeLocale` of a freshly parsed locale into
well-formed builder keys (`BKI.WF`: distinct keys at every level) builds a duplicate-free table that
agrees with every index it stores — in the locale's own key map and in the locale it appends to
every nested `Subkeys` node — and later merges / `propagate` leave that position alone.
-/
namespace I18nVerif.AMap

theorem mem_of_mem_insert' {k : Str} {v : α} : ∀ (m : List (Str × α)) (x : Str × α),
    x ∈ insert' k v m → x = (k, v) ∨ x ∈ m
  | [], x, h => by simp [insert', insert] at h; exact Or.inl h
  | (k1, v1) :: m, x, h => by
    have ih := mem_of_mem_insert' (k := k) (v := v) m x
    simp only [insert', insert] at ih h
    by_cases h1 : k1 = k
    · simp only [h1, beq_self_eq_true, if_true, List.mem_cons] at h
      rcases h with h | h
      · exact Or.inl h
      · exact Or.inr (by simp [h])
    · have h1' : (k1 == k) = false := by simpa using h1
      by_cases h2 : strLt k k1 = true
      · simp only [h1', h2, if_true, Bool.false_eq_true, if_false, List.mem_cons] at h
        rcases h with h | h | h
        · exact Or.inl h
        · exact Or.inr (by simp [h])
        · exact Or.inr (by simp [h])
      · simp only [h1', h2, Bool.false_eq_true, if_false, List.mem_cons] at h
        rcases h with h | h
        · exact Or.inr (by simp [h])
        · rcases ih h with h | h
          · exact Or.inl h
          · exact Or.inr (by simp [h])

end I18nVerif.AMap

namespace I18nVerif.Check
open I18nVerif Reduce Spec.Diagnostics

theorem FreshK_mem : ∀ (ks : List (Str × PV)), FreshK ks = true → ∀ kv ∈ ks, Fresh kv.2 = true
  | [], _, kv, hm => by simp at hm
  | (k, v) :: rest, h, kv, hm => by
    simp only [FreshK, Bool.and_eq_true] at h
    rcases List.mem_cons.mp hm with rfl | hm
    · exact h.1
    · exact FreshK_mem rest h.2 kv hm

theorem FreshK_of_mem : ∀ (ks : List (Str × PV)), (∀ kv ∈ ks, Fresh kv.2 = true) → FreshK ks = true
  | [], _ => rfl
  | (k, v) :: rest, h => by
    simp only [FreshK, Bool.and_eq_true]
    exact ⟨h (k, v) (by simp), FreshK_of_mem rest (fun kv hm => h kv (by simp [hm]))⟩

theorem FreshK_dummy (ks : List (Str × PV)) :
    FreshK (ks.map (fun (x : Str × PV) => (x.fst, PV.dflt))) = true := by
  apply FreshK_of_mem
  intro kv hm
  simp only [List.mem_map] at hm
  obtain ⟨a, _, rfl⟩ := hm
  rfl

theorem shapeOf_other_eq {cur v : PV} (h : shapeOf cur = .other v) : v = cur := by
  cases cur with
  | subkeys l => cases l <;> simp [shapeOf] at h
  | _ => simp [shapeOf] at h <;> exact h.symm

theorem KeysValid.of_fresh {ks : List (Str × PV)} (h : FreshK ks = true) (t : List Str) : KeysValid t ks :=
  fun kv hm => Valid.of_fresh (FreshK_mem ks h kv hm) t

/-! ### what `mergeLocale` one level down has to satisfy -/

def RecTab (recMerge : MergeRec) : Prop :=
  ∀ kp loc bki st loc' bki' st' n, recMerge kp loc bki st = .ok (loc', bki', st') →
    FreshK loc.keys = true → BKI.WF bki → lensBKI n bki = true →
    st.strings <+: st'.strings ∧ (st.strings.Nodup → st'.strings.Nodup)
      ∧ KeysValid st'.strings loc'.keys ∧ TreeValid n st'.strings bki'

theorem getElem?_concat_length {α} (l : List α) (x : α) : (l ++ [x])[l.length]? = some x := by
  simp

theorem mergeValue_tab (recMerge : MergeRec) (hrec : RecTab recMerge) (top : Str) (dto : DefaultTo) (kp : KeyPath)
    (cur : PV) (lv : LV) (st : St) (v' : PV) (lv' : LV) (st' : St) (n : Nat)
    (h : mergeValue recMerge top dto kp cur lv st = .ok (v', lv', st'))
    (hf : Fresh cur = true) (hwf : LV.WF lv) (hl : lensLV n lv = true) :
    st.strings <+: st'.strings ∧ (st.strings.Nodup → st'.strings.Nodup)
      ∧ Valid st'.strings (strLits v') ∧ TreeValidLV n st'.strings lv' := by
  unfold mergeValue at h
  cases lv with
  | subkeys locales bkeys =>
    simp only [LV.WF] at hwf
    obtain ⟨_, hnd, hwfl⟩ := hwf
    simp only [lensLV, Bool.and_eq_true, beq_iff_eq] at hl
    obtain ⟨hlen, hlb⟩ := hl
    simp only at h
    split at h <;> try (simp at h; done)
    · split at h <;> try (simp at h; done)
      split at h <;> try (simp at h; done)
      rename_i dummy' bkeys' st1 hr
      simp at h
      obtain ⟨rfl, rfl, rfl⟩ := h
      obtain ⟨r1, r2, r3, r4⟩ := hrec _ _ _ _ _ _ _ n hr (by simp only [Loc.keys]; exact FreshK_dummy _) ⟨hnd, hwfl⟩ hlb
      refine ⟨r1, r2, by simp only [strLits]; exact Valid.nil _, ?_⟩
      simp only [TreeValidLV]
      refine ⟨?_, r4⟩
      intro l hl'
      rw [← hlen, getElem?_concat_length] at hl'
      simp at hl'; subst hl'; exact r3
    · rename_i loc hs
      split at h <;> try (simp at h; done)
      rename_i loc' bkeys' st1 hr
      simp at h
      obtain ⟨rfl, rfl, rfl⟩ := h
      have hcur := shapeOf_subSome hs
      subst hcur
      obtain ⟨r1, r2, r3, r4⟩ := hrec _ _ _ _ _ _ _ n hr (Fresh_subkeys hf) ⟨hnd, hwfl⟩ hlb
      refine ⟨r1, r2, by simp only [strLits]; exact Valid.nil _, ?_⟩
      simp only [TreeValidLV]
      refine ⟨?_, r4⟩
      intro l hl'
      rw [← hlen, getElem?_concat_length] at hl'
      simp at hl'; subst hl'; exact r3
  | value iol d =>
    simp only at h
    split at h <;> try (simp at h; done)
    · simp at h
      obtain ⟨rfl, rfl, rfl⟩ := h
      exact ⟨List.prefix_refl _, id, by simp only [strLits]; exact Valid.nil _, by simp [TreeValidLV]⟩
    · rename_i l hs
      have hcur := shapeOf_lit hs
      subst hcur
      have ok := indexStrings_ok 1 (.lit l) st.strings
      have hv := ok.valid (Valid.of_fresh hf _)
      split at h
      · simp at h
        obtain ⟨rfl, rfl, rfl⟩ := h
        exact ⟨ok.pre, ok.nodup, hv, by simp [TreeValidLV]⟩
      · split at h <;>
        · simp at h
          obtain ⟨rfl, rfl, rfl⟩ := h
          exact ⟨ok.pre, ok.nodup, hv, by simp [TreeValidLV]⟩
    · rename_i v hs
      have hcur := shapeOf_other_eq hs
      subst hcur
      have ok := indexStrings_ok 1000000 v st.strings
      have hv := ok.valid (Valid.of_fresh hf _)
      split at h <;> try (simp at h; done)
      simp at h
      obtain ⟨rfl, rfl, rfl⟩ := h
      exact ⟨ok.pre, ok.nodup, hv, by simp [TreeValidLV]⟩

theorem mergeKeys_tab (recMerge : MergeRec) (hrec : RecTab recMerge) (top : Str) (dto : DefaultTo) (path : KeyPath) :
    ∀ (bki : BKI) (ks : List (Str × PV)) (accB : BKI) (st : St) ks' accB' st' (n : Nat),
      mergeKeys recMerge top dto path bki ks accB st = .ok (ks', accB', st') →
      (bki.map Prod.fst).Nodup → WFL bki → lensBKI n bki = true →
      (∀ k ∈ bki.map Prod.fst, ∀ v, AMap.get? k ks = some v → Fresh v = true) →
      st.strings <+: st'.strings ∧ (st.strings.Nodup → st'.strings.Nodup)
        ∧ (KeysValid st.strings ks → KeysValid st'.strings ks')
        ∧ (TreeValid n st.strings accB → TreeValid n st'.strings accB') := by
  intro bki
  induction bki with
  | nil =>
    intro ks accB st ks' accB' st' n h _ _ _ _
    simp only [mergeKeys, Res.ok.injEq, Prod.mk.injEq] at h
    obtain ⟨rfl, rfl, rfl⟩ := h
    exact ⟨List.prefix_refl _, id, id, id⟩
  | cons e rest ih =>
    obtain ⟨k, lv⟩ := e
    intro ks accB st ks' accB' st' n h hnd hwf hl hfr
    simp only [List.map_cons, List.nodup_cons] at hnd
    simp only [WFL] at hwf
    simp only [lensBKI, Bool.and_eq_true] at hl
    have hfr' : ∀ (v1 : PV), ∀ k' ∈ rest.map Prod.fst, ∀ v, AMap.get? k' (AMap.insert' k v1 ks) = some v → Fresh v = true := by
      intro v1 k' hk' v hg
      have hne : k' ≠ k := fun e => hnd.1 (e ▸ hk')
      rw [AMap.get?_insert_ne hne] at hg
      exact hfr k' (by simp [hk']) v hg
    have tail : ∀ (cur : PV) (st1 : St) (v1 : PV) (lv1 : LV) (st2 : St), st1.strings = st.strings →
        Fresh cur = true →
        mergeValue recMerge top dto (pushKey path k) cur lv st1 = .ok (v1, lv1, st2) →
        mergeKeys recMerge top dto path rest (AMap.insert' k v1 ks) (accB ++ [(k, lv1)]) st2 = .ok (ks', accB', st') →
        st.strings <+: st'.strings ∧ (st.strings.Nodup → st'.strings.Nodup)
          ∧ (KeysValid st.strings ks → KeysValid st'.strings ks')
          ∧ (TreeValid n st.strings accB → TreeValid n st'.strings accB') := by
      intro cur st1 v1 lv1 st2 hst hcf hmv hmk
      obtain ⟨m1, m2, m3, m4⟩ := mergeValue_tab recMerge hrec top dto _ cur lv st1 v1 lv1 st2 n hmv hcf hwf.1 hl.1
      rw [hst] at m1 m2
      obtain ⟨q1, q2, q3, q4⟩ := ih _ _ _ _ _ _ n hmk hnd.2 hwf.2 hl.2 (hfr' v1)
      refine ⟨m1.trans q1, fun hn => q2 (m2 hn), fun hk => q3 ?_, fun ht => q4 ?_⟩
      · intro kv hm
        rcases AMap.mem_of_mem_insert' _ _ hm with rfl | hm
        · exact m3
        · exact (hk kv hm).mono m1
      · exact (TreeValid.mono m1 _ ht).concat m4
    cases hg : AMap.get? k ks with
    | none =>
      simp only [mergeKeys, hg, Reduce.reduce] at h
      split at h
      · simp at h
      · simp at h
      · rename_i v1 lv1 st2 hmv
        refine tail _ _ _ _ _ ?_ rfl hmv h
        cases dto <;> rfl
    | some v =>
      simp only [mergeKeys, hg] at h
      split at h
      · simp at h
      · simp at h
      · rename_i cur hred
        split at h
        · simp at h
        · simp at h
        · rename_i v1 lv1 st2 hmv
          exact tail _ _ _ _ _ rfl (reduce_fresh v cur hred (hfr k (by simp) v hg)) hmv h

theorem mergeLocale_tab (suppress : Bool) (top : Str) (dto : DefaultTo) :
    ∀ fuel, RecTab (mergeLocale suppress top dto fuel) := by
  intro fuel
  induction fuel with
  | zero =>
    intro kp loc bki st loc' bki' st' n h
    simp [mergeLocale] at h
  | succ fuel ih =>
    intro kp loc bki st loc' bki' st' n h hf hwf hl
    simp only [mergeLocale] at h
    split at h
    · simp at h
    · simp at h
    · rename_i keys' b' st1 hmk
      simp only [Res.ok.injEq, Prod.mk.injEq] at h
      obtain ⟨rfl, rfl, rfl⟩ := h
      obtain ⟨q1, q2, q3, q4⟩ := mergeKeys_tab _ ih top dto kp bki loc.keys [] st _ _ _ n hmk hwf.1 hwf.2 hl
        (fun k _ v hg => FreshK_mem _ hf (k, v) (get?_mem hg))
      exact ⟨q1, q2, q3 (KeysValid.of_fresh hf _), q4 (by simp [TreeValid])⟩

/-- the invariant of the loop of `check_locales_inner` -/
def AccOK (acc : List Loc) (bki : BKI) : Prop :=
  ∀ i L, acc[i]? = some L → L.strings.Nodup ∧ KeysValid L.strings L.keys ∧ TreeValid i L.strings bki

theorem go_tab (suppress : Bool) (fuel : Nat) (inherits : List (Str × Str)) (dl : Loc) (path : KeyPath) :
    ∀ (others acc : List Loc) (bki : BKI) (ws : List Warning) locales bki' ws',
      checkLocalesInner.go suppress fuel inherits dl path others acc bki ws = .ok (locales, bki', ws') →
      BKI.WF bki → lensBKI acc.length bki = true → (∀ l ∈ others, FreshK l.keys = true) →
      AccOK acc bki → AccOK locales bki' := by
  intro others
  induction others with
  | nil =>
    intro acc bki ws locales bki' ws' h _ _ _ ha
    simp only [checkLocalesInner.go, Res.ok.injEq, Prod.mk.injEq] at h
    obtain ⟨rfl, rfl, -⟩ := h
    exact ha
  | cons l rest ih =>
    intro acc bki ws locales bki' ws' h hwf hl hf ha
    simp only [checkLocalesInner.go] at h
    split at h
    · simp at h
    · simp at h
    · rename_i l' bki1 st hml
      obtain ⟨hk1, hw1, _⟩ := mergeLocale_spec suppress _ _ fuel path l bki _ l' bki1 st hwf hml
      have hwf1 : BKI.WF bki1 := ⟨by rw [hk1]; exact hwf.1, hw1⟩
      obtain ⟨_, m2⟩ := mergeLocale_shape _ _ _ _ _ _ _ _ _ _ _ hml
      obtain ⟨t1, t2, t3, t4⟩ := mergeLocale_tab suppress _ _ fuel path l bki _ l' bki1 st acc.length hml
        (hf l (by simp)) hwf hl
      refine ih _ _ _ _ _ _ h hwf1 (by simpa using m2 _ hl) (fun x hx => hf x (by simp [hx])) ?_
      intro i L hi
      by_cases hlt : i < acc.length
      · rw [getElem?_concat_lt _ _ hlt] at hi
        obtain ⟨a1, a2, a3⟩ := ha i L hi
        exact ⟨a1, a2, mergeLocale_keep _ _ _ _ _ _ _ _ _ _ _ hml _ hl i hlt _ a3⟩
      · have hle : i < (acc ++ [Loc.mk l'.name l'.top l'.keys st.strings st.strings.length]).length := by
          cases hh : (acc ++ [Loc.mk l'.name l'.top l'.keys st.strings st.strings.length])[i]? with
          | none => rw [hh] at hi; cases hi
          | some _ => exact (List.getElem?_eq_some_iff.mp hh).1
        have hieq : i = acc.length := by simp at hle; omega
        subst hieq
        rw [getElem?_concat_length] at hi
        simp only [Option.some.injEq] at hi
        subst hi
        exact ⟨t2 List.nodup_nil, t3, t4⟩

/-- **Every locale, end to end** (hypotheses as `NDLoc`: the default locale's keys are distinct at
    every level down to the fuel; all locales freshly parsed). -/
theorem checkLocalesInner_tables (suppress : Bool) (fuel : Nat) (inherits : List (Str × Str)) (ns : Option Str)
    (dl : Loc) (others : List Loc) (ws : List Warning) (locales : List Loc) (bki : BKI) (ws' : List Warning)
    (h : checkLocalesInner suppress fuel inherits ns (dl :: others) ws = .ok (locales, bki, ws'))
    (hnd : NDLoc fuel dl) (hf : ∀ l ∈ dl :: others, FreshK l.keys = true) :
    AccOK locales bki := by
  simp only [checkLocalesInner] at h
  split at h <;> try (simp at h; done)
  rename_i dl' bki0 strs hmk
  split at h <;> try (simp at h; done)
  rename_i locales1 bki1 ws1 hgo
  simp at h
  obtain ⟨rfl, rfl, _⟩ := h
  obtain ⟨_, k2⟩ := makeBuilderKeys_shape _ _ _ _ _ _ _ _ hmk
  obtain ⟨_, t2, t3, t4⟩ := makeBuilderKeys_tables _ _ _ _ _ _ _ _ hmk (hf dl (by simp))
  obtain ⟨_, hwf0, _⟩ := makeBuilderKeys_spec dl.top fuel _ _ _ _ _ _ hmk hnd
  have g := go_tab _ _ _ _ _ _ _ _ _ _ _ _ hgo hwf0 (by simpa using k2) (fun l hl => hf l (by simp [hl])) (by
    intro i L hi
    cases i with
    | zero =>
      simp at hi; subst hi
      exact ⟨t2 List.nodup_nil, t3, t4⟩
    | succ i => simp at hi)
  intro i L hi
  obtain ⟨g1, g2, g3⟩ := g i L hi
  exact ⟨g1, g2, propagate_keep _ _ _ _ _ g3⟩

/-! ### `DistinctLoc` (executable, structural) implies `NDLoc n` for every `n` -/

theorem DistinctPV_of_itemOk {x : PV} (h : itemOk x = true) : DistinctPV x = true := by
  cases x with
  | subkeys l => simp [itemOk] at h
  | fk f => simp [itemOk] at h
  | _ => simp [DistinctPV]

theorem DistinctPV_wrapBloc : ∀ {acc : List PV}, Good acc → DistinctPV (wrapBloc acc) = true
  | [], _ => by simp [wrapBloc, PV.empty, DistinctPV]
  | [one], g => by
    have := g.items
    simp only [List.all_cons, List.all_nil, Bool.and_true] at this
    simpa [wrapBloc] using DistinctPV_of_itemOk this
  | a :: b :: rest, _ => by simp [wrapBloc, DistinctPV]

mutual
theorem reduce_distinct : ∀ (v v' : PV), reduce v = .ok v' → DistinctPV v = true → DistinctPV v' = true
  | .lit l, v', h, hd => by simp [reduce] at h; subst h; rfl
  | .var k f, v', h, hd => by simp [reduce] at h; subst h; rfl
  | .dflt, v', h, hd => by simp [reduce] at h; subst h; rfl
  | .fk (.set inner), v', h, hd => by
    simp only [reduce] at h
    simp only [DistinctPV] at hd
    exact reduce_distinct inner v' h hd
  | .fk (.notSet _ _), v', h, hd => by simp [reduce] at h
  | .ranges ck t bs, v', h, hd => by
    simp only [reduce] at h
    split at h <;> try (simp at h; done)
    simp at h; subst h; simp [DistinctPV]
  | .comp k inner, v', h, hd => by
    simp only [reduce] at h
    split at h <;> try (simp at h; done)
    simp at h; subst h; simp [DistinctPV]
  | .subkeys (some (.mk n t keys s c)), v', h, hd => by
    simp only [reduce] at h
    split at h <;> try (simp at h; done)
    rename_i ks hk
    simp at h; subst h
    simp only [DistinctPV, Bool.and_eq_true, decide_eq_true_eq] at hd ⊢
    obtain ⟨r1, r2⟩ := reduceKeys_distinct keys ks hk hd.2
    exact ⟨by rw [r1]; exact hd.1, r2⟩
  | .subkeys none, v', h, hd => by simp [reduce] at h
  | .bloc items, v', h, hd => by
    simp only [reduce] at h
    split at h <;> try (simp at h; done)
    rename_i acc hacc
    simp at h; subst h
    exact DistinctPV_wrapBloc (reduceIntoL_good items [] acc hacc Good.nil)
  | .plurals r ck other forms, v', h, hd => by
    simp only [reduce] at h
    split at h <;> try (simp at h; done)
    simp at h; subst h; simp [DistinctPV]
theorem reduceKeys_distinct : ∀ (ks ks' : List (Str × PV)), reduceKeys ks = .ok ks' → DistinctK ks = true →
    ks'.map Prod.fst = ks.map Prod.fst ∧ DistinctK ks' = true
  | [], ks', h, hd => by simp [reduceKeys] at h; subst h; exact ⟨rfl, rfl⟩
  | (g, v) :: rest, ks', h, hd => by
    simp only [reduceKeys] at h
    split at h <;> try (simp at h; done)
    rename_i v' rest' hv hr
    simp at h; subst h
    simp only [DistinctK, Bool.and_eq_true] at hd ⊢
    obtain ⟨r1, r2⟩ := reduceKeys_distinct rest rest' hr hd.2
    exact ⟨by simp [r1], reduce_distinct v v' hv hd.1, r2⟩
end

theorem DistinctK_mem : ∀ (ks : List (Str × PV)), DistinctK ks = true → ∀ kv ∈ ks, DistinctPV kv.2 = true
  | [], _, kv, hm => by simp at hm
  | (k, v) :: rest, h, kv, hm => by
    simp only [DistinctK, Bool.and_eq_true] at h
    rcases List.mem_cons.mp hm with rfl | hm
    · exact h.1
    · exact DistinctK_mem rest h.2 kv hm

theorem NDLoc_of_distinct : ∀ (n : Nat) (l : Loc), DistinctLoc l = true → NDLoc n l
  | 0, _, _ => by simp [NDLoc]
  | n + 1, l, h => by
    simp only [DistinctLoc, Bool.and_eq_true, decide_eq_true_eq] at h
    refine ⟨h.1, ?_⟩
    intro k v sub hm hr
    have hv := DistinctK_mem _ h.2 (k, v) hm
    have hs := reduce_distinct v _ hr hv
    apply NDLoc_of_distinct n sub
    cases sub
    simp only [DistinctPV, Bool.and_eq_true, decide_eq_true_eq] at hs
    simp only [DistinctLoc, Bool.and_eq_true, decide_eq_true_eq]
    exact hs

/-! ### reading the tree invariants at a key path -/

/-- what the three tree invariants say about one builder key -/
def NodeOK (i : Nat) (T : List Str) (n : Nat) (counts : List Nat) (lv : LV) : Prop :=
  TreeValidLV i T lv ∧ lensLV n lv = true ∧ countsEqLV counts lv = true

theorem NodeOK_mem {i T n counts} : ∀ {b : BKI}, TreeValid i T b → lensBKI n b = true → countsEq counts b = true →
    ∀ e ∈ b, NodeOK i T n counts e.2
  | [], _, _, _, e, hm => by simp at hm
  | (k, lv) :: rest, h1, h2, h3, e, hm => by
    simp only [TreeValid] at h1
    simp only [lensBKI, Bool.and_eq_true] at h2
    simp only [countsEq, Bool.and_eq_true] at h3
    rcases List.mem_cons.mp hm with rfl | hm
    · exact ⟨h1.1, h2.1, h3.1⟩
    · exact NodeOK_mem h1.2 h2.2 h3.2 e hm

theorem lvAt_ok {i T n counts} : ∀ (p : List Str) (b : BKI) (lv : LV), lvAt b p = some lv →
    TreeValid i T b → lensBKI n b = true → countsEq counts b = true → NodeOK i T n counts lv
  | [], b, lv, h, _, _, _ => by simp [lvAt] at h
  | k :: rest, b, lv, h, h1, h2, h3 => by
    simp only [lvAt] at h
    cases hg : AMap.get? k b with
    | none => simp [hg] at h
    | some lv0 =>
      simp only [hg] at h
      have ok := NodeOK_mem h1 h2 h3 (k, lv0) (get?_mem hg)
      cases rest with
      | nil => simp at h; subst h; exact ok
      | cons k2 rest2 =>
        simp only at h
        cases lv0 with
        | value iol d => simp at h
        | subkeys ls ks =>
          simp only at h
          obtain ⟨o1, o2, o3⟩ := ok
          simp only [TreeValidLV] at o1
          simp only [lensLV, Bool.and_eq_true] at o2
          simp only [countsEqLV, Bool.and_eq_true] at o3
          exact lvAt_ok (k2 :: rest2) ks lv h o1.2 o2.2 o3.2

theorem KeysValid.get {T : List Str} {ks : List (Str × PV)} (h : KeysValid T ks) {k : Str} {v : PV}
    (hg : AMap.get? k ks = some v) : Valid T (strLits v) :=
  h (k, v) (get?_mem hg)

end I18nVerif.Check
