import I18nVerif.Model.LocaleEnum
import I18nVerif.Spec.LocaleEnum
/-! Helper lemmas for C13. -/
namespace I18nVerif.LocaleEnum
open I18nVerif Str

/-! ### the generated `match` is "index of the first equal arm" -/

theorem matchArms_eq_findIdx (t : Str) (arms : List Str) (k : Nat) :
    matchArms t arms k = (arms.findIdx? (fun n => t == n)).map (· + k) := by
  induction arms generalizing k with
  | nil => simp [matchArms]
  | cons n arms ih =>
    simp only [matchArms, List.findIdx?_cons]
    split
    · simp
    · rw [ih]
      cases List.findIdx? (fun n => t == n) arms <;> simp
      omega

theorem fromStr_eq_some_iff {names : List Str} (hnd : names.Nodup) (s : Str) (i : Nat) :
    fromStr names s = some i ↔ ∃ h : i < names.length, trim s = names[i] := by
  unfold fromStr
  rw [matchArms_eq_findIdx]
  simp only [Nat.add_zero, Option.map_id']
  rw [List.findIdx?_eq_some_iff_getElem]
  constructor
  · rintro ⟨h, he, _⟩
    exact ⟨h, by simpa using he⟩
  · rintro ⟨h, he⟩
    refine ⟨h, by simpa using he, ?_⟩
    intro j hji hj
    have hj' : trim s = names[j] := by simpa using hj
    have : names[j] = names[i] := by rw [← hj', he]
    have := (List.getElem_inj hnd).mp this
    omega

theorem fromStr_eq_none_iff (names : List Str) (s : Str) :
    fromStr names s = none ↔ trim s ∉ names := by
  unfold fromStr
  rw [matchArms_eq_findIdx]
  simp only [Option.map_eq_none_iff, List.findIdx?_eq_none_iff]
  constructor
  · intro h hm
    have := h _ hm
    simp at this
  · intro h x hx
    simp only [beq_eq_false_iff_ne, ne_eq]
    intro e; exact h (e ▸ hx)

/-- whatever the configuration (even with duplicates): an answer `some i` names an existing variant
    whose name is the trimmed input -/
theorem fromStr_some_sound {names : List Str} {s : Str} {i : Nat} (h : fromStr names s = some i) :
    ∃ h : i < names.length, trim s = names[i] := by
  unfold fromStr at h
  rw [matchArms_eq_findIdx] at h
  simp only [Nat.add_zero, Option.map_id'] at h
  obtain ⟨hi, he, _⟩ := List.findIdx?_eq_some_iff_getElem.mp h
  exact ⟨hi, by simpa using he⟩

theorem filterMap_range_getElem? (l : List Str) : (List.range l.length).filterMap (fun i => l[i]?) = l := by
  induction l with
  | nil => rfl
  | cons a as ih =>
    rw [List.length_cons, List.range_succ_eq_map]
    simp only [List.filterMap_cons, List.getElem?_cons_zero, List.filterMap_map]
    congr 1

/-! ### `defaultFirst` -/

theorem swap_perm {d x : Str} : ∀ (rest : List Str) (j : Nat), rest[j]? = some d →
    (d :: rest.set j x).Perm (x :: rest)
  | [], j, h => by simp at h
  | y :: r, 0, h => by
    simp at h; subst h
    simpa using List.Perm.swap x y r
  | y :: r, j + 1, h => by
    have ih := swap_perm (d := d) (x := x) r j (by simpa using h)
    simp only [List.set_cons_succ]
    exact ((List.Perm.swap y d _).trans ((ih.cons y).trans (List.Perm.swap x y r)))

theorem idxOf?_some_getElem? {d : Str} {l : List Str} {i : Nat} (h : l.idxOf? d = some i) : l[i]? = some d := by
  unfold List.idxOf? at h
  obtain ⟨hi, he, _⟩ := List.findIdx?_eq_some_iff_getElem.mp h
  simp at he
  simp [hi, he]

theorem defaultFirst_perm_mem {d : Str} {ls : List Str} (h : d ∈ ls) :
    (Config.defaultFirst d ls).Perm ls := by
  unfold Config.defaultFirst
  cases hi : ls.idxOf? d with
  | none => exact absurd h (List.idxOf?_eq_none_iff.mp hi)
  | some i =>
    cases ls with
    | nil => simp at h
    | cons first rest =>
      simp only
      split
      · exact List.Perm.refl _
      · rename_i hne
        cases i with
        | zero => simp at hne
        | succ j =>
          have := idxOf?_some_getElem? hi
          simp only [List.getElem?_cons_succ] at this
          simp only [List.set_cons_succ, List.set_cons_zero]
          exact swap_perm rest j this

theorem defaultFirst_perm_not_mem {d : Str} {ls : List Str} (h : d ∉ ls) :
    (Config.defaultFirst d ls).Perm (d :: ls) := by
  unfold Config.defaultFirst
  rw [List.idxOf?_eq_none_iff.mpr h]
  cases ls with
  | nil => exact List.Perm.refl _
  | cons first rest =>
    simp only
    refine List.Perm.cons d ?_
    exact (List.perm_append_comm (l₁ := rest) (l₂ := [first]))

theorem defaultFirst_head (d : Str) (ls : List Str) : (Config.defaultFirst d ls).head? = some d := by
  unfold Config.defaultFirst
  cases hi : ls.idxOf? d with
  | none => cases ls <;> simp
  | some i =>
    cases ls with
    | nil => simp [List.idxOf?] at hi
    | cons first rest =>
      simp only
      split
      · rename_i h0
        have : i = 0 := by simpa using h0
        subst this
        have := idxOf?_some_getElem? hi
        simpa using this
      · cases i <;> simp

/-! ### `duplicates` -/

theorem duplicates_false_iff (l : List Str) : Config.duplicates l = false ↔ l.Nodup := by
  induction l with
  | nil => simp [Config.duplicates]
  | cons x xs ih =>
    simp only [Config.duplicates, Bool.or_eq_false_iff, List.nodup_cons, ih]
    simp

/-! ### `Key.new` yields trimmed, non-empty names -/

theorem dropWhile_id_of_all_false {p : Char → Bool} : ∀ {s : Str}, (∀ c ∈ s, p c = false) → s.dropWhile p = s
  | [], _ => rfl
  | c :: cs, h => by simp [List.dropWhile, h c (by simp)]

theorem trim_id_of_no_ws {s : Str} (h : ∀ c ∈ s, isWs c = false) : trim s = s := by
  unfold trim trimEnd trimStart
  rw [dropWhile_id_of_all_false h, dropWhile_id_of_all_false (by simpa using h)]
  simp

/-- ASCII identifier characters are not `White_Space` -/
theorem isIdCont_not_ws (c : Char) (h : Key.isIdCont c = true) : isWs c = false := by
  simp only [Key.isIdCont, Char.isAlphanum, Char.isAlpha, Char.isUpper, Char.isLower, Char.isDigit,
    Bool.or_eq_true, Bool.and_eq_true, decide_eq_true_eq, beq_iff_eq] at h
  simp only [isWs, Char.toNat]
  have e : c = '_' → c.val.toNat = 95 := by intro e; subst e; rfl
  simp only [UInt32.le_iff_toNat_le] at h
  have : (65 ≤ c.val.toNat ∧ c.val.toNat ≤ 90 ∨ 97 ≤ c.val.toNat ∧ c.val.toNat ≤ 122) ∨ (48 ≤ c.val.toNat ∧ c.val.toNat ≤ 57) ∨ c.val.toNat = 95 := by
    rcases h with (h | h) | h
    · left; simpa using h
    · right; left; simpa using h
    · right; right; exact e h
  simp only [Bool.or_eq_false_iff, Bool.and_eq_false_iff, decide_eq_false_iff_not, beq_eq_false_iff_ne]
  omega

theorem isIdStart_isIdCont (c : Char) (h : Key.isIdStart c = true) : Key.isIdCont c = true := by
  simp only [Key.isIdStart, Key.isIdCont, Char.isAlphanum, Bool.or_eq_true] at h ⊢
  rcases h with h | h
  · left; left; exact h
  · right; exact h

theorem keyNew_chars {s k : Str} (h : Key.new s = some k) :
    k = trim s ∧ k ≠ [] ∧ ∀ c ∈ k, isWs c = false := by
  unfold Key.new at h
  simp only at h
  split at h
  · rename_i hv
    simp only [Option.some.injEq] at h
    subst h
    refine ⟨rfl, ?_, ?_⟩
    · intro e; rw [e] at hv; simp [Key.validIdent] at hv
    · intro c hc
      have hcont : Key.isIdCont (if c == '-' then '_' else c) = true := by
        cases ht : trim s with
        | nil => rw [ht] at hc; simp at hc
        | cons a as =>
          rw [ht] at hv hc
          simp only [Key.validIdent, List.map_cons, Bool.and_eq_true, List.all_eq_true, List.mem_map,
            forall_exists_index, and_imp, forall_apply_eq_imp_iff₂] at hv
          rcases List.mem_cons.mp hc with e | e
          · subst e; exact isIdStart_isIdCont _ hv.1.1
          · exact hv.1.2 c e
      by_cases hd : c = '-'
      · subst hd; decide
      · have : (c == '-') = false := by simpa using hd
        rw [this] at hcont
        exact isIdCont_not_ws c hcont
  · simp at h

theorem keyNew_trimmed {s k : Str} (h : Key.new s = some k) : trim k = k ∧ k ≠ [] :=
  let ⟨_, h2, h3⟩ := keyNew_chars h
  ⟨trim_id_of_no_ws h3, h2⟩

/-! ### every key that `ConfigFile::new` reads went through `Key::new` -/

/-- what `Key::new` guarantees about a name -/
def KeyOk (k : Str) : Prop := trim k = k ∧ k ≠ []

theorem asKey_ok {v : Config.TV} {k : Str} (h : Config.asKey v = .ok k) : KeyOk k := by
  unfold Config.asKey at h
  split at h
  · split at h
    · rename_i hk
      simp only [Res.ok.injEq] at h
      subst h
      exact keyNew_trimmed hk
    · simp at h
  · simp at h

theorem asKeys_go_ok : ∀ (l : List Config.TV) (ks : List Str), Config.asKeys.go l = .ok ks → ∀ n ∈ ks, KeyOk n
  | [], ks, h => by simp [Config.asKeys.go] at h; subst h; simp
  | x :: xs, ks, h => by
    unfold Config.asKeys.go at h
    cases h1 : Config.asKey x <;> cases h2 : Config.asKeys.go xs <;> simp [h1, h2] at h
    subst h
    intro n hn
    rcases List.mem_cons.mp hn with e | e
    · exact e ▸ asKey_ok h1
    · exact asKeys_go_ok xs _ h2 n e

theorem asKeys_ok {v : Config.TV} {ks : List Str} (h : Config.asKeys v = .ok ks) : ∀ n ∈ ks, KeyOk n := by
  unfold Config.asKeys at h
  split at h
  · exact asKeys_go_ok _ _ h
  · simp at h

def RawOk (r : Config.Raw) : Prop :=
  (∀ d, r.default = some d → KeyOk d) ∧ (∀ ls, r.locales = some ls → ∀ n ∈ ls, KeyOk n)

theorem fields_ok (l : List (Str × Config.TV)) (r : Config.Raw) :
    ∀ r', RawOk r → Config.fields l r = .ok r' → RawOk r' := by
  fun_induction Config.fields l r <;> intro r' hr h
  all_goals first
    | (simp only [Res.ok.injEq] at h; subst h; exact hr)
    | (simp at h; done)
    | skip
  all_goals first
    | (rename_i ih; exact ih r' hr h)
    | (rename_i x hx ih
       exact ih r' ⟨fun d hd => by simp only [Option.some.injEq] at hd; subst hd; exact asKey_ok hx, hr.2⟩ h)
    | (rename_i x hx ih
       exact ih r' ⟨hr.1, fun ls hls => by simp only [Option.some.injEq] at hls; subst hls; exact asKeys_ok hx⟩ h)

end I18nVerif.LocaleEnum
