import I18nVerif.Spec.Tables
import I18nVerif.Spec.Reduce
import I18nVerif.Proofs.Index
import I18nVerif.Proofs.Reduce
/-!
C11 through `makeBuilderKeys`: the string table built for the default locale agrees with every
index stored in its values, including the values moved into nested `Subkeys` nodes.
-/
namespace I18nVerif.Check
open I18nVerif Reduce

/-! ### fresh values -/

mutual
theorem fresh_strLits : ∀ (v : PV), Fresh v = true → ∀ p ∈ strLits v, p.2 = none
  | .lit (.str s i), h, p, hp => by
    simp only [Fresh, Option.isNone_iff_eq_none] at h
    simp only [strLits, List.mem_singleton] at hp
    subst hp; exact h
  | .lit (.signed _), _, p, hp => by simp [strLits] at hp
  | .lit (.unsigned _), _, p, hp => by simp [strLits] at hp
  | .lit (.float _), _, p, hp => by simp [strLits] at hp
  | .lit (.bool _), _, p, hp => by simp [strLits] at hp
  | .var _ _, _, p, hp => by simp [strLits] at hp
  | .dflt, _, p, hp => by simp [strLits] at hp
  | .fk _, _, p, hp => by simp [strLits] at hp
  | .subkeys _, _, p, hp => by simp [strLits] at hp
  | .comp k inner, h, p, hp => by
    simp only [Fresh] at h
    simp only [strLits] at hp
    exact fresh_strLits inner h p hp
  | .bloc items, h, p, hp => by
    simp only [Fresh] at h
    simp only [strLits] at hp
    exact freshL_strLits items h p hp
  | .ranges _ _ bs, h, p, hp => by
    simp only [Fresh] at h
    simp only [strLits] at hp
    exact freshB_strLits bs h p hp
  | .plurals _ _ other forms, h, p, hp => by
    simp only [Fresh, Bool.and_eq_true] at h
    simp only [strLits, List.mem_append] at hp
    rcases hp with hp | hp
    · exact freshF_strLits forms h.2 p hp
    · exact fresh_strLits other h.1 p hp
theorem freshL_strLits : ∀ (l : List PV), FreshL l = true → ∀ p ∈ strLitsL l, p.2 = none
  | [], _, p, hp => by simp [strLitsL] at hp
  | x :: xs, h, p, hp => by
    simp only [FreshL, Bool.and_eq_true] at h
    simp only [strLitsL, List.mem_append] at hp
    rcases hp with hp | hp
    · exact fresh_strLits x h.1 p hp
    · exact freshL_strLits xs h.2 p hp
theorem freshB_strLits : ∀ (l : List (Range × PV)), FreshB l = true → ∀ p ∈ strLitsB l, p.2 = none
  | [], _, p, hp => by simp [strLitsB] at hp
  | (_, x) :: xs, h, p, hp => by
    simp only [FreshB, Bool.and_eq_true] at h
    simp only [strLitsB, List.mem_append] at hp
    rcases hp with hp | hp
    · exact fresh_strLits x h.1 p hp
    · exact freshB_strLits xs h.2 p hp
theorem freshF_strLits : ∀ (l : List (Form × PV)), FreshF l = true → ∀ p ∈ strLitsF l, p.2 = none
  | [], _, p, hp => by simp [strLitsF] at hp
  | (_, x) :: xs, h, p, hp => by
    simp only [FreshF, Bool.and_eq_true] at h
    simp only [strLitsF, List.mem_append] at hp
    rcases hp with hp | hp
    · exact fresh_strLits x h.1 p hp
    · exact freshF_strLits xs h.2 p hp
end

/-- a fresh value agrees with every table (it reads nothing yet) -/
theorem Valid.of_fresh {v : PV} (h : Fresh v = true) (tbl : List Str) : Valid tbl (strLits v) := by
  intro s i hm
  have := fresh_strLits v h _ hm
  simp at this

/-! ### `reduce` keeps values fresh -/

theorem FreshL_append : ∀ (a b : List PV), FreshL (a ++ b) = (FreshL a && FreshL b)
  | [], b => by simp [FreshL]
  | x :: xs, b => by simp [FreshL, FreshL_append xs b, Bool.and_assoc]

theorem FreshL_concat (a : List PV) (x : PV) : FreshL (a ++ [x]) = (FreshL a && Fresh x) := by
  rw [FreshL_append]; simp [FreshL]

theorem Fresh_join {a : Lit} (b : Lit) (h : Fresh (.lit a) = true) : Fresh (.lit (a.join b)) = true := by
  cases a <;> simp_all [Lit.join, Fresh]

theorem FreshL_pushLit {acc : List PV} {l : Lit} (ha : FreshL acc = true) (hl : Fresh (.lit l) = true) :
    FreshL (pushLit l acc) = true := by
  unfold pushLit
  split
  · rename_i last h
    have h' := Reduce.eq_dropLast_append_of_getLast? h
    generalize acc.dropLast = dl at h'
    subst h'
    rw [FreshL_concat, Bool.and_eq_true] at ha
    rw [FreshL_concat, ha.1, Fresh_join l ha.2]; rfl
  · rw [FreshL_concat, ha, hl]; rfl

theorem Fresh_wrapBloc : ∀ {acc : List PV}, FreshL acc = true → Fresh (wrapBloc acc) = true
  | [], _ => by simp [wrapBloc, PV.empty, Fresh]
  | [one], h => by simpa [wrapBloc, FreshL] using h
  | a :: b :: rest, h => by simpa [wrapBloc, Fresh] using h

mutual
theorem reduce_fresh : ∀ (v v' : PV), reduce v = .ok v' → Fresh v = true → Fresh v' = true
  | .lit l, v', h, hf => by simp [reduce] at h; subst h; exact hf
  | .var k f, v', h, hf => by simp [reduce] at h; subst h; rfl
  | .dflt, v', h, hf => by simp [reduce] at h; subst h; rfl
  | .fk (.set inner), v', h, hf => by
    simp only [reduce] at h
    simp only [Fresh] at hf
    exact reduce_fresh inner v' h hf
  | .fk (.notSet _ _), v', h, hf => by simp [reduce] at h
  | .ranges ck t bs, v', h, hf => by
    simp only [reduce] at h
    split at h <;> try (simp at h; done)
    rename_i bs' hb
    simp at h; subst h
    simp only [Fresh] at hf ⊢
    exact reduceBranches_fresh bs bs' hb hf
  | .comp k inner, v', h, hf => by
    simp only [reduce] at h
    split at h <;> try (simp at h; done)
    rename_i i hi
    simp at h; subst h
    simp only [Fresh] at hf ⊢
    exact reduce_fresh inner i hi hf
  | .subkeys (some (.mk n t keys s c)), v', h, hf => by
    simp only [reduce] at h
    split at h <;> try (simp at h; done)
    rename_i ks hk
    simp at h; subst h
    simp only [Fresh] at hf ⊢
    exact reduceKeys_fresh keys ks hk hf
  | .subkeys none, v', h, hf => by simp [reduce] at h
  | .bloc items, v', h, hf => by
    simp only [reduce] at h
    split at h <;> try (simp at h; done)
    rename_i acc hacc
    simp at h; subst h
    simp only [Fresh] at hf
    exact Fresh_wrapBloc (reduceIntoL_fresh items [] acc hacc hf rfl)
  | .plurals r ck other forms, v', h, hf => by
    simp only [reduce] at h
    split at h <;> try (simp at h; done)
    rename_i fs o hfs ho
    simp at h; subst h
    simp only [Fresh, Bool.and_eq_true] at hf ⊢
    exact ⟨reduce_fresh other o ho hf.1, reduceForms_fresh forms fs hfs hf.2⟩

theorem reduceInto_fresh : ∀ (v : PV) (acc acc' : List PV),
    reduceInto v acc = .ok acc' → Fresh v = true → FreshL acc = true → FreshL acc' = true
  | .dflt, acc, acc', h, hf, ha => by simp [reduceInto] at h; subst h; exact ha
  | .subkeys _, acc, acc', h, hf, ha => by simp [reduceInto] at h; subst h; exact ha
  | .ranges ck t bs, acc, acc', h, hf, ha => by
    simp only [reduceInto] at h
    split at h <;> try (simp at h; done)
    rename_i bs' hb
    simp at h; subst h
    simp only [Fresh] at hf
    rw [FreshL_concat, ha]
    simp only [Fresh, Bool.true_and]
    exact reduceBranches_fresh bs bs' hb hf
  | .plurals r ck other forms, acc, acc', h, hf, ha => by
    simp only [reduceInto] at h
    split at h <;> try (simp at h; done)
    rename_i fs o hfs ho
    simp at h; subst h
    simp only [Fresh, Bool.and_eq_true] at hf
    rw [FreshL_concat, ha]
    simp only [Fresh, Bool.true_and, Bool.and_eq_true]
    exact ⟨reduce_fresh other o ho hf.1, reduceForms_fresh forms fs hfs hf.2⟩
  | .fk (.set inner), acc, acc', h, hf, ha => by
    simp only [reduceInto] at h
    simp only [Fresh] at hf
    exact reduceInto_fresh inner acc acc' h hf ha
  | .fk (.notSet _ _), acc, acc', h, hf, ha => by simp [reduceInto] at h
  | .lit l, acc, acc', h, hf, ha => by
    simp only [reduceInto] at h
    split at h
    · simp at h; subst h; exact ha
    · simp at h; subst h
      exact FreshL_pushLit ha hf
  | .var k f, acc, acc', h, hf, ha => by
    simp [reduceInto] at h; subst h
    rw [FreshL_concat, ha]; rfl
  | .comp k inner, acc, acc', h, hf, ha => by
    simp only [reduceInto] at h
    split at h <;> try (simp at h; done)
    rename_i i hi
    simp at h; subst h
    simp only [Fresh] at hf
    rw [FreshL_concat, ha]
    simp only [Fresh, Bool.true_and]
    exact reduce_fresh inner i hi hf
  | .bloc items, acc, acc', h, hf, ha => by
    simp only [reduceInto] at h
    simp only [Fresh] at hf
    exact reduceIntoL_fresh items acc acc' h hf ha

theorem reduceIntoL_fresh : ∀ (xs acc acc' : List PV),
    reduceIntoL xs acc = .ok acc' → FreshL xs = true → FreshL acc = true → FreshL acc' = true
  | [], acc, acc', h, hf, ha => by simp [reduceIntoL] at h; subst h; exact ha
  | x :: xs, acc, acc', h, hf, ha => by
    simp only [reduceIntoL] at h
    split at h <;> try (simp at h; done)
    rename_i a hx
    simp only [FreshL, Bool.and_eq_true] at hf
    exact reduceIntoL_fresh xs a acc' h hf.2 (reduceInto_fresh x acc a hx hf.1 ha)

theorem reduceBranches_fresh : ∀ (bs bs' : List (Range × PV)),
    reduceBranches bs = .ok bs' → FreshB bs = true → FreshB bs' = true
  | [], bs', h, hf => by simp [reduceBranches] at h; subst h; rfl
  | (r, v) :: rest, bs', h, hf => by
    simp only [reduceBranches] at h
    split at h <;> try (simp at h; done)
    rename_i v' rest' hv hr
    simp at h; subst h
    simp only [FreshB, Bool.and_eq_true] at hf ⊢
    exact ⟨reduce_fresh v v' hv hf.1, reduceBranches_fresh rest rest' hr hf.2⟩

theorem reduceForms_fresh : ∀ (fs fs' : List (Form × PV)),
    reduceForms fs = .ok fs' → FreshF fs = true → FreshF fs' = true
  | [], fs', h, hf => by simp [reduceForms] at h; subst h; rfl
  | (g, v) :: rest, fs', h, hf => by
    simp only [reduceForms] at h
    split at h <;> try (simp at h; done)
    rename_i v' rest' hv hr
    simp at h; subst h
    simp only [FreshF, Bool.and_eq_true] at hf ⊢
    exact ⟨reduce_fresh v v' hv hf.1, reduceForms_fresh rest rest' hr hf.2⟩

theorem reduceKeys_fresh : ∀ (ks ks' : List (Str × PV)),
    reduceKeys ks = .ok ks' → FreshK ks = true → FreshK ks' = true
  | [], ks', h, hf => by simp [reduceKeys] at h; subst h; rfl
  | (g, v) :: rest, ks', h, hf => by
    simp only [reduceKeys] at h
    split at h <;> try (simp at h; done)
    rename_i v' rest' hv hr
    simp at h; subst h
    simp only [FreshK, Bool.and_eq_true] at hf ⊢
    exact ⟨reduce_fresh v v' hv hf.1, reduceKeys_fresh rest rest' hr hf.2⟩
end

/-! ### tables of whole locales -/

theorem KeysValid.mono {t t' : List Str} {ks} (h : KeysValid t ks) (hp : t <+: t') : KeysValid t' ks :=
  fun kv hm => (h kv hm).mono hp

theorem KeysValid.nil (t : List Str) : KeysValid t [] := fun _ h => by simp at h

theorem KeysValid.concat {t : List Str} {ks} {k : Str} {v : PV} (h : KeysValid t ks) (hv : Valid t (strLits v)) :
    KeysValid t (ks ++ [(k, v)]) := by
  intro kv hm
  rcases List.mem_append.mp hm with hm | hm
  · exact h kv hm
  · simp at hm; subst hm; exact hv

mutual
theorem TreeValidLV.mono {i : Nat} {t t' : List Str} (hp : t <+: t') : ∀ (lv : LV), TreeValidLV i t lv → TreeValidLV i t' lv
  | .value _ _, _ => by simp [TreeValidLV]
  | .subkeys locales keys, h => by
    simp only [TreeValidLV] at h ⊢
    exact ⟨fun l hl => (h.1 l hl).mono hp, TreeValid.mono hp keys h.2⟩
theorem TreeValid.mono {i : Nat} {t t' : List Str} (hp : t <+: t') : ∀ (b : List (Str × LV)), TreeValid i t b → TreeValid i t' b
  | [], _ => by simp [TreeValid]
  | (k, lv) :: rest, h => by
    simp only [TreeValid] at h ⊢
    exact ⟨TreeValidLV.mono hp lv h.1, TreeValid.mono hp rest h.2⟩
end

theorem TreeValid.concat {i : Nat} {t : List Str} {k : Str} {lv : LV} : ∀ {b : BKI}, TreeValid i t b → TreeValidLV i t lv →
    TreeValid i t (b ++ [(k, lv)])
  | [], _, hl => by simp [TreeValid, hl]
  | (k', lv') :: rest, h, hl => by
    simp only [List.cons_append, TreeValid] at h ⊢
    exact ⟨h.1, TreeValid.concat h.2 hl⟩

theorem shapeOf'_subkeys {v : PV} {sub : Loc} (h : makeKeys.shapeOf' v = Sum.inl (some sub)) :
    v = .subkeys (some sub) := by
  cases v <;> simp [makeKeys.shapeOf'] at h
  subst h; rfl

theorem Fresh_subkeys {sub : Loc} (h : Fresh (.subkeys (some sub)) = true) : FreshK sub.keys = true := by
  cases sub
  simpa [Fresh, Loc.keys] using h

theorem makeKeys_tables (recMake : MakeRec) (dflt : Str) (path : KeyPath)
    (hrec : ∀ p sub strs sub' bki strs', recMake p sub strs = .ok (sub', bki, strs') → FreshK sub.keys = true →
      strs <+: strs' ∧ (strs.Nodup → strs'.Nodup) ∧ KeysValid strs' sub'.keys ∧ TreeValid 0 strs' bki) :
    ∀ (ks accK : List (Str × PV)) (accB : BKI) (strs : List Str) accK' accB' strs',
      makeKeys recMake dflt path ks accK accB strs = .ok (accK', accB', strs') → FreshK ks = true →
      strs <+: strs' ∧ (strs.Nodup → strs'.Nodup) ∧
        (KeysValid strs accK → KeysValid strs' accK') ∧ (TreeValid 0 strs accB → TreeValid 0 strs' accB')
  | [], accK, accB, strs, accK', accB', strs', h, hf => by
    simp only [makeKeys] at h
    simp at h
    obtain ⟨rfl, rfl, rfl⟩ := h
    exact ⟨List.prefix_refl _, id, id, id⟩
  | (k, v) :: rest, accK, accB, strs, accK', accB', strs', h, hf => by
    simp only [FreshK, Bool.and_eq_true] at hf
    simp only [makeKeys] at h
    split at h <;> try (simp at h; done)
    rename_i v1 hred
    have hf1 := reduce_fresh v v1 hred hf.1
    split at h <;> try (simp at h; done)
    · rename_i sub hshape
      split at h <;> try (simp at h; done)
      rename_i sub' bki strs1 hr
      have hv1 := shapeOf'_subkeys hshape
      subst hv1
      obtain ⟨p1, p2, p3, p4⟩ := hrec _ _ _ _ _ _ hr (Fresh_subkeys hf1)
      obtain ⟨q1, q2, q3, q4⟩ := makeKeys_tables recMake dflt path hrec rest _ _ _ _ _ _ h hf.2
      refine ⟨p1.trans q1, fun hn => q2 (p2 hn), fun hk => q3 ?_, fun ht => q4 ?_⟩
      · exact (hk.mono p1).concat (by simp only [strLits]; exact Valid.nil _)
      · refine (TreeValid.mono p1 _ ht).concat ?_
        simp only [TreeValidLV]
        refine ⟨?_, p4⟩
        intro l hl
        simp at hl; subst hl; exact p3
    · split at h <;> try (simp at h; done)
      have ok := indexStrings_ok 1000000 v1 strs
      obtain ⟨q1, q2, q3, q4⟩ := makeKeys_tables recMake dflt path hrec rest _ _ _ _ _ _ h hf.2
      refine ⟨ok.pre.trans q1, fun hn => q2 (ok.nodup hn), fun hk => q3 ?_, fun ht => q4 ?_⟩
      · exact (hk.mono ok.pre).concat (ok.valid (Valid.of_fresh hf1 _))
      · exact (TreeValid.mono ok.pre _ ht).concat (by simp [TreeValidLV])

theorem makeBuilderKeys_tables (dflt : Str) : ∀ (fuel : Nat) (path : KeyPath) (loc : Loc) (strs : List Str) l bki strs',
    makeBuilderKeys dflt fuel path loc strs = .ok (l, bki, strs') → FreshK loc.keys = true →
    strs <+: strs' ∧ (strs.Nodup → strs'.Nodup) ∧ KeysValid strs' l.keys ∧ TreeValid 0 strs' bki
  | 0, path, loc, strs, l, bki, strs', h, _ => by simp [makeBuilderKeys] at h
  | fuel + 1, path, loc, strs, l, bki, strs', h, hf => by
    simp only [makeBuilderKeys] at h
    split at h <;> try (simp at h; done)
    rename_i keys' bki0 strs0 hk
    simp at h
    obtain ⟨rfl, rfl, rfl⟩ := h
    obtain ⟨q1, q2, q3, q4⟩ := makeKeys_tables (makeBuilderKeys dflt fuel) dflt path
      (fun p sub s sub' b s' hh hfr => makeBuilderKeys_tables dflt fuel p sub s sub' b s' hh hfr)
      loc.keys [] [] strs _ _ _ hk hf
    exact ⟨q1, q2, q3 (KeysValid.nil _), q4 (by simp [TreeValid])⟩

end I18nVerif.Check
