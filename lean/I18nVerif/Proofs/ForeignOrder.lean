import I18nVerif.Proofs.Foreign
import I18nVerif.Proofs.PipeWorld
/-!
Order independence of `Foreign.resolveAll` (C06, second part).

Method.  `ncPV`/`ncNode`/… below are a *reference semantics*: resolution of a value in the
**original** world, with no cycle guard and no memoisation ("what the value means").  `Ev r x` says
that `r fuel = ok x` for all large enough fuel, so `Ev (ncPV … v) x` is a fuel-free, deterministic
relation "v resolves to x".  The invariant `Memo S m` of `resolveAll` says that the current world `m`
is the original world in which the leaves at the keys in `S` have been replaced by their reference
resolution.  `memo_sound`: in such a world the model's `resolvePV` (cycle guard, fuel, memoised
targets) can only return the reference resolution.  `memo_step`/`memo_all`: `resolveAt`/`resolveAll`
keep the invariant.  Two successful runs over the same set of paths therefore store the same leaf
at every key.

World algebra used: `locGet_locSet_sim` / `getValueAt_set_sim` (replacing a leaf by a leaf, or a
group by itself, changes no other lookup as far as foreign keys can see: every other lookup is equal,
or a group of subkeys before and after).

Fallback walk (`findDefining`, F11/F20): a node takes its target from the first locale of the walk that
defines it.  The walk only distinguishes absent / explicit `null` / anything else / error, and
memoisation changes none of these (`Memo.undef`, `Memo.defined`), so the walk in the memoised world
stops in the same locale as in the original one (`Memo.walk`); `ncNode` makes the walk in the original
world.
-/
set_option autoImplicit false
namespace I18nVerif.Foreign
open I18nVerif I18nVerif.Subst I18nVerif.PipeInv World

/-- a lookup result that a foreign key cannot use: not a leaf -/
def Useless (r : Res (Option PV)) : Prop := ∀ x, r = .ok (some x) → isGroup x = true
/-- both lookups return a group of subkeys -/
def BothGroups (a b : Res (Option PV)) : Prop := ∃ o o', a = .ok (some (.subkeys o)) ∧ b = .ok (some (.subkeys o'))
/-- two lookup results that are the same as far as foreign keys (and their fallback walk) are concerned:
    equal, or two groups of subkeys -/
def Sim (a b : Res (Option PV)) : Prop := a = b ∨ BothGroups a b

theorem Sim.rfl' (a : Res (Option PV)) : Sim a a := .inl rfl

theorem useless_group {o : Option Loc} : Useless (.ok (some (.subkeys o))) := by
  intro x h; simp only [Res.ok.injEq, Option.some.injEq] at h; subst h; rfl
theorem useless_none : Useless (.ok none) := by intro x h; simp at h
theorem BothGroups.useless {a b : Res (Option PV)} (h : BothGroups a b) : Useless a ∧ Useless b := by
  obtain ⟨o, o', rfl, rfl⟩ := h; exact ⟨useless_group, useless_group⟩
theorem BothGroups.symm {a b : Res (Option PV)} (h : BothGroups a b) : BothGroups b a := by
  obtain ⟨o, o', ha, hb⟩ := h; exact ⟨o', o, hb, ha⟩
theorem BothGroups.trans {a b c : Res (Option PV)} (h : BothGroups a b) (h' : BothGroups b c) : BothGroups a c := by
  obtain ⟨o, _, ha, _⟩ := h; obtain ⟨_, o', _, hc⟩ := h'; exact ⟨o, o', ha, hc⟩
theorem Sim.trans {a b c : Res (Option PV)} (h : Sim a b) (h' : Sim b c) : Sim a c := by
  rcases h with rfl | h
  · exact h'
  · rcases h' with rfl | h'
    · exact .inr h
    · exact .inr (h.trans h')
theorem Sim.symm {a b : Res (Option PV)} (h : Sim a b) : Sim b a := by
  rcases h with rfl | h
  · exact .inl rfl
  · exact .inr h.symm

theorem locGet_locSet_sim : ∀ (path : List Str) (keys : List (Str × PV)) (vOld v' : PV),
    locGet keys path = .ok (some vOld) → (isGroup vOld = true → v' = vOld) →
    (isGroup vOld = false → isGroup v' = false) →
    ∀ q, (q = path ∧ locGet (locSet keys path v') q = .ok (some v')) ∨
         (q ≠ path ∧ Sim (locGet (locSet keys path v') q) (locGet keys q))
  | [], keys, vOld, v', h, _, _ => by simp [locGet_nil] at h
  | [k], keys, vOld, v', h, hg, hl => by
    rw [locGet_one] at h
    simp only [Res.ok.injEq] at h
    intro q
    rw [locSet_one']
    match q with
    | [] => exact .inr ⟨by simp, .inl (by simp [locGet_nil])⟩
    | [k2] =>
      rw [locGet_one, locGet_one, get?_mapv]
      by_cases hk : k2 = k
      · subst hk
        left; simp [h, setG]
      · right
        refine ⟨by simpa using hk, .inl ?_⟩
        have : (k2 == k) = false := by simpa using hk
        cases hg2 : AMap.get? k2 keys <;> simp [setG, this]
    | k2 :: k3 :: rest =>
      right
      refine ⟨by simp, ?_⟩
      rw [locGet_cons2, locGet_cons2, get?_mapv]
      by_cases hk : k2 = k
      · subst hk
        rw [h]
        simp only [Option.map_some, setG, beq_self_eq_true, if_true]
        by_cases hgv : isGroup vOld = true
        · rw [hg hgv]; exact .inl rfl
        · have hgv : isGroup vOld = false := by simpa using hgv
          have hv' := hl hgv
          left
          cases vOld <;> cases v' <;> simp_all [isGroup]
      · have : (k2 == k) = false := by simpa using hk
        left
        cases hg2 : AMap.get? k2 keys <;> simp [setG, this]
  | k :: k' :: rest, keys, vOld, v', h, hg, hl => by
    intro q
    rw [locSet_cons2']
    rw [locGet_cons2] at h
    cases hgk : AMap.get? k keys with
    | none => rw [hgk] at h; simp at h
    | some x =>
      rw [hgk] at h
      match x, h with
      | .subkeys (some (.mk n t ks s c)), h =>
        simp only [Loc.keys] at h
        have ih := locGet_locSet_sim (k' :: rest) ks vOld v' h hg hl
        match q with
        | [] => exact .inr ⟨by simp, .inl (by simp [locGet_nil])⟩
        | [k2] =>
          right
          refine ⟨by simp, ?_⟩
          rw [locGet_one, locGet_one, get?_mapv]
          by_cases hk : k2 = k
          · subst hk
            rw [hgk]
            simp only [Option.map_some, descG, beq_self_eq_true, if_true, descend]
            exact .inr ⟨_, _, rfl, rfl⟩
          · have : (k2 == k) = false := by simpa using hk
            left
            cases hg2 : AMap.get? k2 keys <;> simp [descG, this]
        | k2 :: k3 :: rest2 =>
          rw [locGet_cons2, locGet_cons2, get?_mapv]
          by_cases hk : k2 = k
          · subst hk
            rw [hgk]
            simp only [Option.map_some, descG, beq_self_eq_true, if_true, descend, Loc.keys]
            rcases ih (k3 :: rest2) with ⟨he, hr⟩ | ⟨hne, hr⟩
            · left; exact ⟨by rw [he], hr⟩
            · right; exact ⟨by intro e; apply hne; simpa using e, hr⟩
          · right
            refine ⟨by intro e; apply hk; simp at e; exact e.1, .inl ?_⟩
            have : (k2 == k) = false := by simpa using hk
            cases hg2 : AMap.get? k2 keys <;> simp [descG, this]
      | .subkeys none, h => simp at h
      | .dflt, h => simp at h
      | .fk _, h => simp at h
      | .ranges _ _ _, h => simp at h
      | .lit _, h => simp at h
      | .var _ _, h => simp at h
      | .comp _ _, h => simp at h
      | .bloc _, h => simp at h
      | .plurals _ _ _ _, h => simp at h


theorem getValueAt_both {w : World} (hw : WorldWF w) (loc : Str) (p : KeyPath) (v' : PV) {ns : NS} {l : Loc}
    (hns : ns ∈ w.nss) (hl : l ∈ ns.locales) (q : List Str) :
    w.getValueAt l.name ⟨ns.key, q⟩ = locGet l.keys q ∧
    (w.setValueAt loc p v').getValueAt l.name ⟨ns.key, q⟩ =
      locGet (if ns.key = p.ns ∧ l.name = loc then locSet l.keys p.path v' else l.keys) q := by
  refine ⟨getValueAt_mem hw hns hl q, ?_⟩
  obtain ⟨ns', hns', l', hl', hk, hn, hkeys⟩ := setValueAt_mem loc p v' hns hl
  have := getValueAt_mem (setValueAt_wf hw loc p v') hns' hl' q
  rw [hk, hn, hkeys] at this
  exact this

theorem getValueAt_set_sim {w : World} (hw : WorldWF w) (loc : Str) (p : KeyPath) (vOld v' : PV)
    (hget : w.getValueAt loc p = .ok (some vOld)) (hg : isGroup vOld = true → v' = vOld)
    (hl : isGroup vOld = false → isGroup v' = false) (top : Str) (T : KeyPath) :
    ((top, T) = (loc, p) ∧ (w.setValueAt loc p v').getValueAt top T = .ok (some v')) ∨
    ((top, T) ≠ (loc, p) ∧ Sim ((w.setValueAt loc p v').getValueAt top T) (w.getValueAt top T)) := by
  have key : ∀ ns ∈ w.nss, ∀ l ∈ ns.locales, ns.key = T.ns → l.name = top →
      ((top, T) = (loc, p) ∧ (w.setValueAt loc p v').getValueAt top T = .ok (some v')) ∨
      ((top, T) ≠ (loc, p) ∧ Sim ((w.setValueAt loc p v').getValueAt top T) (w.getValueAt top T)) := by
    intro ns hns l hlm hk hn
    subst hn
    obtain ⟨h1, h2⟩ := getValueAt_both hw loc p v' hns hlm T.path
    have hT : (⟨ns.key, T.path⟩ : KeyPath) = T := by rw [hk]
    rw [hT] at h1 h2
    by_cases hc : ns.key = p.ns ∧ l.name = loc
    · rw [if_pos hc] at h2
      obtain ⟨h3, _⟩ := getValueAt_both hw loc p v' hns hlm p.path
      have hp : (⟨ns.key, p.path⟩ : KeyPath) = p := by rw [hc.1]
      rw [hp, hc.2, hget] at h3
      rcases locGet_locSet_sim p.path l.keys vOld v' h3.symm hg hl T.path with ⟨he, hr⟩ | ⟨hne, hr⟩
      · left
        refine ⟨?_, by rw [h2]; exact hr⟩
        have : T = p := by
          obtain ⟨tn, tp⟩ := T; obtain ⟨pn, pp⟩ := p
          simp only at he hk hc; simp only [KeyPath.mk.injEq]; exact ⟨by rw [← hk, hc.1], he⟩
        rw [this, hc.2]
      · right
        refine ⟨?_, by rw [h1, h2]; exact hr⟩
        intro e
        simp only [Prod.mk.injEq] at e
        exact hne (by rw [e.2])
    · rw [if_neg hc] at h2
      right
      refine ⟨?_, .inl (by rw [h1, h2])⟩
      intro e
      simp only [Prod.mk.injEq] at e
      exact hc ⟨by rw [hk, e.2], e.1⟩
  rcases getValueAt_cases hw top T with h0 | ⟨ns, hns, l, hlm, hk, hn, _⟩
  · rcases getValueAt_cases (setValueAt_wf hw loc p v') top T with h0' | ⟨ns', hns', l', hl', hk', hn', _⟩
    · right
      refine ⟨?_, .inl (by rw [h0, h0'])⟩
      intro e
      simp only [Prod.mk.injEq] at e
      rw [e.1, e.2, hget] at h0
      simp at h0
    · obtain ⟨ns, hns, l, hlm, hk2, hn2, _⟩ := setValueAt_mem_inv hns' hl'
      exact key ns hns l hlm (by rw [← hk2, hk']) (by rw [← hn2, hn'])
  · exact key ns hns l hlm hk hn

theorem isGroup_true' {v : PV} (h : isGroup v = true) : ∃ o, v = .subkeys o := by
  cases v <;> simp_all [isGroup]
/-! ### reference semantics: resolution in the *original* world, no cycle guard, no memo -/

/-- the tail of a node resolution: populate the resolved target with the resolved arguments -/
def popNode (orc : Oracle) (top : Str) (a : Res PV) (b : Res (List (Str × PV))) : Res PV :=
  match a with
  | .err e => .err e
  | .panic p => .panic p
  | .ok value' =>
    match b with
    | .err e => .err e
    | .panic p => .panic p
    | .ok args' => mapOk (fun v => PV.fk (.set v)) (populate orc top args' value')

section nc
variable (orc : Oracle) (w : World) (dflt : Fallbacks)
mutual
def ncPV : Nat → Str → PV → Res PV
  | 0, _, _ => .panic "fuel"
  | f + 1, top, pv =>
    match pv with
    | .var k fm => .ok (.var k fm)
    | .lit l => .ok (.lit l)
    | .dflt => .ok .dflt
    | .subkeys l => .ok (.subkeys l)
    | .fk (.set i) => .ok (.fk (.set i))
    | .comp k i => mapOk (PV.comp k) (ncPV f top i)
    | .bloc l => mapOk PV.bloc (ncL f top l)
    | .ranges ck t bs => mapOk (PV.ranges ck t) (ncB f top bs)
    | .plurals r ck o fs => seq2 (fun fs o => PV.plurals r ck o fs) (ncF f top fs) (ncPV f top o)
    | .fk (.notSet target args) => ncNode f top target args
/-- the target's value is the one found by the fallback walk of `top` (in the original world), resolved in the
    locale `src` it was found in; the arguments are resolved and the target populated in `top` -/
def ncNode : Nat → Str → KeyPath → List (Str × PV) → Res PV
  | 0, _, _, _ => .panic "fuel"
  | f + 1, top, target, args =>
    match nodeWalk w dflt top target with
    | .err e => .err e
    | .panic p => .panic p
    | .ok (src, value) => popNode orc top (ncPV f src value) (ncArgs f top args)
def ncL : Nat → Str → List PV → Res (List PV)
  | 0, _, _ => .panic "fuel"
  | _ + 1, _, [] => .ok []
  | f + 1, top, x :: xs => seq2 (fun a b => a :: b) (ncPV f top x) (ncL f top xs)
def ncB : Nat → Str → List (Range × PV) → Res (List (Range × PV))
  | 0, _, _ => .panic "fuel"
  | _ + 1, _, [] => .ok []
  | f + 1, top, (r, x) :: xs => seq2 (fun a b => (r, a) :: b) (ncPV f top x) (ncB f top xs)
def ncF : Nat → Str → List (Form × PV) → Res (List (Form × PV))
  | 0, _, _ => .panic "fuel"
  | _ + 1, _, [] => .ok []
  | f + 1, top, (r, x) :: xs => seq2 (fun a b => (r, a) :: b) (ncPV f top x) (ncF f top xs)
def ncArgs : Nat → Str → List (Str × PV) → Res (List (Str × PV))
  | 0, _, _ => .panic "fuel"
  | _ + 1, _, [] => .ok []
  | f + 1, top, (r, x) :: xs => seq2 (fun a b => (r, a) :: b) (ncPV f top x) (ncArgs f top xs)
end
end nc

/-- "for all large enough fuel the answer is `ok x`" -/
def Ev {α : Type} (r : Nat → Res α) (x : α) : Prop := ∃ f₀, ∀ f, f₀ ≤ f → r f = .ok x

theorem Ev.det {α : Type} {r : Nat → Res α} {x y : α} (h1 : Ev r x) (h2 : Ev r y) : x = y := by
  obtain ⟨a, ha⟩ := h1; obtain ⟨b, hb⟩ := h2
  have e1 := ha (max a b) (Nat.le_max_left _ _)
  have e2 := hb (max a b) (Nat.le_max_right _ _)
  rw [e1] at e2; exact Res.ok.inj e2

theorem Ev.const {α : Type} {r : Nat → Res α} {x : α} (h : ∀ f, r (f + 1) = .ok x) : Ev r x :=
  ⟨1, fun f hf => by obtain ⟨n, rfl⟩ : ∃ n, f = n + 1 := ⟨f - 1, by omega⟩; exact h n⟩

theorem Ev.stepId {α : Type} {r r' : Nat → Res α} {x : α} (h : ∀ f, r' (f + 1) = r f) (h1 : Ev r x) : Ev r' x := by
  obtain ⟨a, ha⟩ := h1
  exact ⟨a + 1, fun f hf => by
    obtain ⟨n, rfl⟩ : ∃ n, f = n + 1 := ⟨f - 1, by omega⟩
    rw [h, ha n (by omega)]⟩

theorem Ev.step1 {α β : Type} {r : Nat → Res α} {r' : Nat → Res β} {g : α → β} {x : α}
    (h : ∀ f, r' (f + 1) = mapOk g (r f)) (h1 : Ev r x) : Ev r' (g x) := by
  obtain ⟨a, ha⟩ := h1
  exact ⟨a + 1, fun f hf => by
    obtain ⟨n, rfl⟩ : ∃ n, f = n + 1 := ⟨f - 1, by omega⟩
    rw [h, ha n (by omega)]; rfl⟩

theorem Ev.step2 {α β γ : Type} {r1 : Nat → Res α} {r2 : Nat → Res β} {r' : Nat → Res γ} {g : α → β → γ}
    {x : α} {y : β} (h : ∀ f, r' (f + 1) = seq2 g (r1 f) (r2 f)) (h1 : Ev r1 x) (h2 : Ev r2 y) :
    Ev r' (g x y) := by
  obtain ⟨a, ha⟩ := h1; obtain ⟨b, hb⟩ := h2
  exact ⟨max a b + 1, fun f hf => by
    obtain ⟨n, rfl⟩ : ∃ n, f = n + 1 := ⟨f - 1, by omega⟩
    rw [h, ha n (by omega), hb n (by omega)]; rfl⟩

theorem Ev.stepNode {orc : Oracle} {top : Str} {r1 : Nat → Res PV} {r2 : Nat → Res (List (Str × PV))}
    {r' : Nat → Res PV} {value' v : PV} {args' : List (Str × PV)}
    (h : ∀ f, r' (f + 1) = popNode orc top (r1 f) (r2 f)) (h1 : Ev r1 value') (h2 : Ev r2 args')
    (hp : populate orc top args' value' = .ok v) : Ev r' (.fk (.set v)) := by
  obtain ⟨a, ha⟩ := h1; obtain ⟨b, hb⟩ := h2
  exact ⟨max a b + 1, fun f hf => by
    obtain ⟨n, rfl⟩ : ∃ n, f = n + 1 := ⟨f - 1, by omega⟩
    rw [h, ha n (by omega), hb n (by omega)]
    simp only [popNode, hp]; rfl⟩

section ncfacts
variable (orc : Oracle) (w : World) (dflt : Fallbacks)

theorem ncPV_comp (f : Nat) (top k : Str) (i : PV) :
    ncPV orc w dflt (f + 1) top (.comp k i) = mapOk (PV.comp k) (ncPV orc w dflt f top i) := by simp only [ncPV]
theorem ncPV_bloc (f : Nat) (top : Str) (l : List PV) :
    ncPV orc w dflt (f + 1) top (.bloc l) = mapOk PV.bloc (ncL orc w dflt f top l) := by simp only [ncPV]
theorem ncPV_ranges (f : Nat) (top ck : Str) (t : RangeTy) (bs : List (Range × PV)) :
    ncPV orc w dflt (f + 1) top (.ranges ck t bs) = mapOk (PV.ranges ck t) (ncB orc w dflt f top bs) := by
  simp only [ncPV]
theorem ncPV_plurals (f : Nat) (top : Str) (r : RuleTy) (ck : Str) (o : PV) (fs : List (Form × PV)) :
    ncPV orc w dflt (f + 1) top (.plurals r ck o fs) =
      seq2 (fun fs o => PV.plurals r ck o fs) (ncF orc w dflt f top fs) (ncPV orc w dflt f top o) := by
  simp only [ncPV]
theorem ncPV_notSet (f : Nat) (top : Str) (target : KeyPath) (args : List (Str × PV)) :
    ncPV orc w dflt (f + 1) top (.fk (.notSet target args)) = ncNode orc w dflt f top target args := by
  simp only [ncPV]
theorem ncL_cons (f : Nat) (top : Str) (x : PV) (xs : List PV) :
    ncL orc w dflt (f + 1) top (x :: xs) =
      seq2 (fun a b => a :: b) (ncPV orc w dflt f top x) (ncL orc w dflt f top xs) := by simp only [ncL]
theorem ncB_cons (f : Nat) (top : Str) (r : Range) (x : PV) (xs : List (Range × PV)) :
    ncB orc w dflt (f + 1) top ((r, x) :: xs) =
      seq2 (fun a b => (r, a) :: b) (ncPV orc w dflt f top x) (ncB orc w dflt f top xs) := by simp only [ncB]
theorem ncF_cons (f : Nat) (top : Str) (r : Form) (x : PV) (xs : List (Form × PV)) :
    ncF orc w dflt (f + 1) top ((r, x) :: xs) =
      seq2 (fun a b => (r, a) :: b) (ncPV orc w dflt f top x) (ncF orc w dflt f top xs) := by simp only [ncF]
theorem ncArgs_cons (f : Nat) (top : Str) (r : Str) (x : PV) (xs : List (Str × PV)) :
    ncArgs orc w dflt (f + 1) top ((r, x) :: xs) =
      seq2 (fun a b => (r, a) :: b) (ncPV orc w dflt f top x) (ncArgs orc w dflt f top xs) := by
  simp only [ncArgs]

theorem ncNode_succ (f : Nat) (top : Str) (target : KeyPath) (args : List (Str × PV)) :
    ncNode orc w dflt (f + 1) top target args =
      match nodeWalk w dflt top target with
      | .err e => .err e
      | .panic p => .panic p
      | .ok (src, value) => popNode orc top (ncPV orc w dflt f src value) (ncArgs orc w dflt f top args) := by
  simp only [ncNode]
/-- the fallback walk of `top` finds `value` in locale `src` -/
theorem ncNode_walk (f : Nat) (top : Str) (target : KeyPath) (args : List (Str × PV)) (src : Str) (value : PV)
    (h : nodeWalk w dflt top target = .ok (src, value)) :
    ncNode orc w dflt (f + 1) top target args =
      popNode orc top (ncPV orc w dflt f src value) (ncArgs orc w dflt f top args) := by
  rw [ncNode_succ, show nodeWalk w dflt top target = _ from h]
/-- the locale of the reference defines the target -/
theorem ncNode_value (f : Nat) (top : Str) (target : KeyPath) (args : List (Str × PV)) (value : PV)
    (h : w.getValueAt top target = .ok (some value)) (hnd : value ≠ .dflt) :
    ncNode orc w dflt (f + 1) top target args =
      popNode orc top (ncPV orc w dflt f top value) (ncArgs orc w dflt f top args) :=
  ncNode_walk orc w dflt f top target args top value (nodeWalk_here w dflt top target h hnd)
theorem ncNode_ok_inv (f : Nat) (top : Str) (target : KeyPath) (args : List (Str × PV)) (r : PV)
    (h : ncNode orc w dflt (f + 1) top target args = .ok r) :
    ∃ src value, nodeWalk w dflt top target = .ok (src, value) ∧
      popNode orc top (ncPV orc w dflt f src value) (ncArgs orc w dflt f top args) = .ok r := by
  rw [ncNode_succ] at h
  split at h
  · simp at h
  · simp at h
  · rename_i src value hfd
    exact ⟨src, value, hfd, h⟩
end ncfacts
mutual
/-- nothing left to do for resolution: no `NotSet` node at a place `resolvePV` visits -/
def Settled : PV → Bool
  | .fk (.notSet _ _) => false
  | .fk (.set _) => true
  | .comp _ i => Settled i
  | .bloc l => SettledL l
  | .ranges _ _ bs => SettledB bs
  | .plurals _ _ o fs => Settled o && SettledF fs
  | .subkeys _ => true
  | .dflt => true
  | .lit _ => true
  | .var _ _ => true
def SettledL : List PV → Bool
  | [] => true
  | x :: xs => Settled x && SettledL xs
def SettledB : List (Range × PV) → Bool
  | [] => true
  | (_, x) :: xs => Settled x && SettledB xs
def SettledF : List (Form × PV) → Bool
  | [] => true
  | (_, x) :: xs => Settled x && SettledF xs
end

section ncfacts2
variable (orc : Oracle) (w : World) (dflt : Fallbacks)

theorem popNode_ok {orc : Oracle} {top : Str} {a : Res PV} {b : Res (List (Str × PV))} {r : PV}
    (h : popNode orc top a b = .ok r) : ∃ value' args' v, a = .ok value' ∧ b = .ok args' ∧
      populate orc top args' value' = .ok v ∧ r = .fk (.set v) := by
  cases a with
  | err e => simp [popNode] at h
  | panic p => simp [popNode] at h
  | ok value' =>
    cases b with
    | err e => simp [popNode] at h
    | panic p => simp [popNode] at h
    | ok args' =>
      simp only [popNode] at h
      obtain ⟨v, hv, rfl⟩ := mapOk_ok h
      exact ⟨value', args', v, rfl, rfl, hv, rfl⟩

/-- a node always resolves to a `Set` -/
theorem ncNode_shape : ∀ (f : Nat) (top : Str) (target : KeyPath) (args : List (Str × PV)) (r : PV),
    ncNode orc w dflt f top target args = .ok r → ∃ v, r = .fk (.set v)
  | 0, _, _, _, _, h => by simp [ncNode] at h
  | f + 1, top, target, args, r, h => by
    obtain ⟨src, value, _, hp⟩ := ncNode_ok_inv orc w dflt f top target args r h
    obtain ⟨_, _, v, _, _, _, rfl⟩ := popNode_ok hp
    exact ⟨v, rfl⟩

/-- the reference resolution leaves nothing to resolve -/
theorem nc_settled : ∀ f : Nat,
    (∀ top v x, ncPV orc w dflt f top v = .ok x → Settled x = true) ∧
    (∀ top l x, ncL orc w dflt f top l = .ok x → SettledL x = true) ∧
    (∀ top l x, ncB orc w dflt f top l = .ok x → SettledB x = true) ∧
    (∀ top l x, ncF orc w dflt f top l = .ok x → SettledF x = true) := by
  intro f
  induction f with
  | zero => refine ⟨?_, ?_, ?_, ?_⟩ <;> intros <;> simp_all [ncPV, ncL, ncB, ncF]
  | succ f ih =>
    obtain ⟨ihPV, ihL, ihB, ihF⟩ := ih
    refine ⟨?_, ?_, ?_, ?_⟩
    · intro top v x h
      cases v with
      | dflt => simp only [ncPV, Res.ok.injEq] at h; subst h; rfl
      | lit l => simp only [ncPV, Res.ok.injEq] at h; subst h; rfl
      | var k fm => simp only [ncPV, Res.ok.injEq] at h; subst h; rfl
      | subkeys l => simp only [ncPV, Res.ok.injEq] at h; subst h; rfl
      | fk fk =>
        cases fk with
        | set i => simp only [ncPV, Res.ok.injEq] at h; subst h; rfl
        | notSet target args =>
          rw [ncPV_notSet] at h
          obtain ⟨v, rfl⟩ := ncNode_shape orc w dflt f top target args x h
          rfl
      | comp k i =>
        rw [ncPV_comp] at h
        obtain ⟨a, ha, rfl⟩ := mapOk_ok h
        simp only [Settled]; exact ihPV _ _ _ ha
      | bloc l =>
        rw [ncPV_bloc] at h
        obtain ⟨a, ha, rfl⟩ := mapOk_ok h
        simp only [Settled]; exact ihL _ _ _ ha
      | ranges ck t bs =>
        rw [ncPV_ranges] at h
        obtain ⟨a, ha, rfl⟩ := mapOk_ok h
        simp only [Settled]; exact ihB _ _ _ ha
      | plurals r ck o fs =>
        rw [ncPV_plurals] at h
        obtain ⟨a, b, ha, hb, rfl⟩ := seq2_ok h
        simp only [Settled, Bool.and_eq_true]; exact ⟨ihPV _ _ _ hb, ihF _ _ _ ha⟩
    · intro top l x h
      cases l with
      | nil => simp only [ncL, Res.ok.injEq] at h; subst h; rfl
      | cons y ys =>
        rw [ncL_cons] at h
        obtain ⟨a, b, ha, hb, rfl⟩ := seq2_ok h
        simp only [SettledL, Bool.and_eq_true]; exact ⟨ihPV _ _ _ ha, ihL _ _ _ hb⟩
    · intro top l x h
      cases l with
      | nil => simp only [ncB, Res.ok.injEq] at h; subst h; rfl
      | cons y ys =>
        obtain ⟨r, y⟩ := y
        rw [ncB_cons] at h
        obtain ⟨a, b, ha, hb, rfl⟩ := seq2_ok h
        simp only [SettledB, Bool.and_eq_true]; exact ⟨ihPV _ _ _ ha, ihB _ _ _ hb⟩
    · intro top l x h
      cases l with
      | nil => simp only [ncF, Res.ok.injEq] at h; subst h; rfl
      | cons y ys =>
        obtain ⟨r, y⟩ := y
        rw [ncF_cons] at h
        obtain ⟨a, b, ha, hb, rfl⟩ := seq2_ok h
        simp only [SettledF, Bool.and_eq_true]; exact ⟨ihPV _ _ _ ha, ihF _ _ _ hb⟩

theorem Ev.settled {top : Str} {v x : PV} (h : Ev (fun f => ncPV orc w dflt f top v) x) : Settled x = true := by
  obtain ⟨a, ha⟩ := h
  exact (nc_settled orc w dflt a).1 top v x (ha a (Nat.le_refl _))

mutual
/-- resolving a settled value again changes nothing -/
theorem nc_idem (top : Str) : ∀ v : PV, Settled v = true → Ev (fun f => ncPV orc w dflt f top v) v
  | .dflt, _ => Ev.const (fun f => by simp only [ncPV])
  | .lit _, _ => Ev.const (fun f => by simp only [ncPV])
  | .var _ _, _ => Ev.const (fun f => by simp only [ncPV])
  | .subkeys _, _ => Ev.const (fun f => by simp only [ncPV])
  | .fk (.set _), _ => Ev.const (fun f => by simp only [ncPV])
  | .fk (.notSet _ _), h => by simp [Settled] at h
  | .comp k i, h => by
    simp only [Settled] at h
    exact Ev.step1 (fun f => ncPV_comp orc w dflt f top k i) (nc_idem top i h)
  | .bloc l, h => by
    simp only [Settled] at h
    exact Ev.step1 (fun f => ncPV_bloc orc w dflt f top l) (ncL_idem top l h)
  | .ranges ck t bs, h => by
    simp only [Settled] at h
    exact Ev.step1 (fun f => ncPV_ranges orc w dflt f top ck t bs) (ncB_idem top bs h)
  | .plurals r ck o fs, h => by
    simp only [Settled, Bool.and_eq_true] at h
    exact Ev.step2 (g := fun fs o => PV.plurals r ck o fs) (fun f => ncPV_plurals orc w dflt f top r ck o fs)
      (ncF_idem top fs h.2) (nc_idem top o h.1)
theorem ncL_idem (top : Str) : ∀ l : List PV, SettledL l = true → Ev (fun f => ncL orc w dflt f top l) l
  | [], _ => Ev.const (fun f => by simp only [ncL])
  | x :: xs, h => by
    simp only [SettledL, Bool.and_eq_true] at h
    exact Ev.step2 (g := fun a b => a :: b) (fun f => ncL_cons orc w dflt f top x xs) (nc_idem top x h.1) (ncL_idem top xs h.2)
theorem ncB_idem (top : Str) : ∀ l : List (Range × PV), SettledB l = true → Ev (fun f => ncB orc w dflt f top l) l
  | [], _ => Ev.const (fun f => by simp only [ncB])
  | (r, x) :: xs, h => by
    simp only [SettledB, Bool.and_eq_true] at h
    exact Ev.step2 (g := fun a b => (r, a) :: b) (fun f => ncB_cons orc w dflt f top r x xs) (nc_idem top x h.1) (ncB_idem top xs h.2)
theorem ncF_idem (top : Str) : ∀ l : List (Form × PV), SettledF l = true → Ev (fun f => ncF orc w dflt f top l) l
  | [], _ => Ev.const (fun f => by simp only [ncF])
  | (r, x) :: xs, h => by
    simp only [SettledF, Bool.and_eq_true] at h
    exact Ev.step2 (g := fun a b => (r, a) :: b) (fun f => ncF_cons orc w dflt f top r x xs) (nc_idem top x h.1) (ncF_idem top xs h.2)
end

/-- `null` resolves to `null` and nothing else does -/
theorem ncPV_dflt_iff (f : Nat) (top : Str) (v : PV) (h : ncPV orc w dflt f top v = .ok .dflt) : v = .dflt := by
  cases f with
  | zero => simp [ncPV] at h
  | succ f =>
    cases v with
    | dflt => rfl
    | lit l => simp [ncPV] at h
    | var k fm => simp [ncPV] at h
    | subkeys l => simp [ncPV] at h
    | fk fk =>
      cases fk with
      | set i => simp [ncPV] at h
      | notSet target args =>
        rw [ncPV_notSet] at h
        obtain ⟨v, hv⟩ := ncNode_shape orc w dflt f top target args _ h
        cases hv
    | comp k i => rw [ncPV_comp] at h; obtain ⟨a, _, ha⟩ := mapOk_ok h; cases ha
    | bloc l => rw [ncPV_bloc] at h; obtain ⟨a, _, ha⟩ := mapOk_ok h; cases ha
    | ranges ck t bs => rw [ncPV_ranges] at h; obtain ⟨a, _, ha⟩ := mapOk_ok h; cases ha
    | plurals r ck o fs => rw [ncPV_plurals] at h; obtain ⟨a, b, _, _, ha⟩ := seq2_ok h; cases ha
end ncfacts2

/-! ### the invariant of `resolveAll`: the current world is the original one, partly memoised -/

section memo
variable (orc : Oracle) (w : World) (dflt : Fallbacks)

/-- `m` is `w` in which the leaves at the keys in `S` have been replaced by their (reference) resolution.
    Where `w` holds no leaf, `m` holds none either, and the two lookups are equal or both groups of subkeys
    (so that the fallback walk of a foreign key sees the same thing: absent stays absent, an error the same error). -/
def Memo (S : KeyId → Prop) (m : World) : Prop :=
  ∀ (top : Str) (T : KeyPath),
    (Sim (w.getValueAt top T) (m.getValueAt top T) ∧ Useless (w.getValueAt top T) ∧ Useless (m.getValueAt top T)) ∨
    ∃ v₀ y, w.getValueAt top T = .ok (some v₀) ∧ m.getValueAt top T = .ok (some y) ∧
      isGroup v₀ = false ∧ isGroup y = false ∧
      ((¬ S (top, T) ∧ y = v₀) ∨ (S (top, T) ∧ Ev (fun f => ncPV orc w dflt f top v₀) y))

theorem Memo.lookup {S : KeyId → Prop} {m : World} (hM : Memo orc w dflt S m) {top : Str} {T : KeyPath} {y : PV}
    (hy : m.getValueAt top T = .ok (some y)) (hleaf : isGroup y = false) :
    ∃ v₀, w.getValueAt top T = .ok (some v₀) ∧ isGroup v₀ = false ∧ (v₀ = .dflt → y = .dflt) ∧
      ∀ z, Ev (fun f => ncPV orc w dflt f top y) z → Ev (fun f => ncPV orc w dflt f top v₀) z := by
  rcases hM top T with ⟨_, _, hu⟩ | ⟨v₀, y', hw, hm, hl0, _, hc⟩
  · have := hu y hy; rw [hleaf] at this; cases this
  · rw [hy] at hm
    simp only [Res.ok.injEq, Option.some.injEq] at hm
    subst hm
    refine ⟨v₀, hw, hl0, ?_, ?_⟩
    · rcases hc with ⟨_, rfl⟩ | ⟨_, hev⟩
      · exact id
      · intro e; subst e
        exact Ev.det hev (Ev.const (fun f => by simp only [ncPV]))
    · rcases hc with ⟨_, rfl⟩ | ⟨_, hev⟩
      · exact fun z hz => hz
      · intro z hz
        have hs := Ev.settled orc w dflt hev
        have := Ev.det hz (nc_idem orc w dflt top y hs)
        subst this; exact hev

theorem resolvePV_group {m : World} {fuel : Nat} {V : List KeyId} {phys : KeyId} {top : Str} {v x : PV}
    (h : resolvePV orc m dflt fuel V phys top v = .ok x) (hg : isGroup v = true) : x = v := by
  obtain ⟨o, rfl⟩ := isGroup_true' hg
  cases fuel with
  | zero => simp [resolvePV] at h
  | succ n => simp only [resolvePV, Res.ok.injEq] at h; exact h.symm

/-- explicit `null`s are the same in both worlds, and so are absent keys -/
theorem Memo.undef {S : KeyId → Prop} {m : World} (hM : Memo orc w dflt S m) {cur : Str} {T : KeyPath}
    (hu : Undef m cur T) : Undef w cur T := by
  rcases hM cur T with ⟨hs, _, _⟩ | ⟨v₀, y, hw, hm, _, _, hc⟩
  · rcases hs with he | ⟨o, o', _, hg⟩
    · unfold Undef; rw [he]; exact hu
    · rcases hu with h | h <;> rw [h] at hg <;> simp at hg
  · rcases hu with h | h
    · rw [h] at hm; simp at hm
    · rw [h] at hm
      simp only [Res.ok.injEq, Option.some.injEq] at hm
      subst hm
      rcases hc with ⟨_, rfl⟩ | ⟨_, hev⟩
      · exact .inr hw
      · obtain ⟨a, ha⟩ := hev
        have := ncPV_dflt_iff orc w dflt a cur v₀ (ha a (Nat.le_refl _))
        subst this
        exact .inr hw

/-- a key defined in the memoised world is defined in the original one -/
theorem Memo.defined {S : KeyId → Prop} {m : World} (hM : Memo orc w dflt S m) {cur : Str} {T : KeyPath} {y : PV}
    (hy : m.getValueAt cur T = .ok (some y)) (hnd : y ≠ .dflt) :
    ∃ v₀, w.getValueAt cur T = .ok (some v₀) ∧ v₀ ≠ .dflt := by
  rcases hM cur T with ⟨hs, _, _⟩ | ⟨v₀, y', hw, hm, _, _, hc⟩
  · rcases hs with he | ⟨o, o', hg, _⟩
    · exact ⟨y, by rw [he]; exact hy, hnd⟩
    · exact ⟨_, hg, by simp⟩
  · rw [hy] at hm
    simp only [Res.ok.injEq, Option.some.injEq] at hm
    subst hm
    refine ⟨v₀, hw, ?_⟩
    rcases hc with ⟨_, rfl⟩ | ⟨_, hev⟩
    · exact hnd
    · intro e; subst e
      exact hnd (Ev.det hev (Ev.const (fun f => by simp only [ncPV])))

/-- **the fallback walk is the same in the memoised world**: it stops in the same locale -/
theorem Memo.walk {S : KeyId → Prop} {m : World} (hM : Memo orc w dflt S m) (T : KeyPath) (src : Str) (y : PV) :
    ∀ (fuel : Nat) (vis : List Str) (cur : Str), findDefining m dflt fuel vis cur T = .ok (src, y) →
      ∃ v₀, findDefining w dflt fuel vis cur T = .ok (src, v₀)
  | 0, vis, cur, h => by simp [findDefining] at h
  | fuel + 1, vis, cur, h => by
    rcases getValueAt_trichotomy m cur T with ⟨e, hg⟩ | ⟨p, hg⟩ | hu | ⟨v, hg, hv⟩
    · rw [findDefining_get_err m dflt fuel vis cur T hg] at h; simp at h
    · rw [findDefining_get_panic m dflt fuel vis cur T hg] at h; simp at h
    · cases hd : cur == dflt.default with
      | true =>
        rcases hu with hg | hg
        · rw [findDefining_default_none m dflt fuel vis cur T hg hd] at h; simp at h
        · rw [findDefining_default_null m dflt fuel vis cur T hg hd] at h; simp at h
      | false =>
        rw [findDefining_step m dflt fuel vis cur T hu hd] at h
        rw [findDefining_step w dflt fuel vis cur T (hM.undef orc w dflt hu) hd]
        exact Memo.walk hM T src y fuel _ _ h
    · rw [findDefining_here m dflt fuel vis cur T hg hv] at h
      simp only [Res.ok.injEq, Prod.mk.injEq] at h
      obtain ⟨rfl, rfl⟩ := h
      obtain ⟨v₀, hw0, hnd0⟩ := hM.defined orc w dflt hg hv
      exact ⟨v₀, findDefining_here w dflt fuel vis cur T hw0 hnd0⟩

theorem memo_sound {S : KeyId → Prop} {m : World} (hM : Memo orc w dflt S m) : ∀ fuel : Nat,
    (∀ V phys top v x, resolvePV orc m dflt fuel V phys top v = .ok x →
      Ev (fun f => ncPV orc w dflt f top v) x) ∧
    (∀ V phys top target args r, resolveNode orc m dflt fuel V phys top target args = .ok r →
      Ev (fun f => ncNode orc w dflt f top target args) r) ∧
    (∀ V phys top l x, resolveL orc m dflt fuel V phys top l = .ok x → Ev (fun f => ncL orc w dflt f top l) x) ∧
    (∀ V phys top l x, resolveB orc m dflt fuel V phys top l = .ok x → Ev (fun f => ncB orc w dflt f top l) x) ∧
    (∀ V phys top l x, resolveF orc m dflt fuel V phys top l = .ok x → Ev (fun f => ncF orc w dflt f top l) x) ∧
    (∀ V phys top l x, resolveArgs orc m dflt fuel V phys top l = .ok x →
      Ev (fun f => ncArgs orc w dflt f top l) x) := by
  intro fuel
  induction fuel with
  | zero =>
    refine ⟨?_, ?_, ?_, ?_, ?_, ?_⟩ <;> intros <;>
      simp_all [resolvePV, resolveNode, resolveL, resolveB, resolveF, resolveArgs]
  | succ fuel ih =>
    obtain ⟨ihPV, ihNode, ihL, ihB, ihF, ihA⟩ := ih
    refine ⟨?_, ?_, ?_, ?_, ?_, ?_⟩
    · intro V phys top v x h
      cases v with
      | dflt => simp only [resolvePV, Res.ok.injEq] at h; subst h; exact Ev.const (fun f => by simp only [ncPV])
      | lit l => simp only [resolvePV, Res.ok.injEq] at h; subst h; exact Ev.const (fun f => by simp only [ncPV])
      | var k fm => simp only [resolvePV, Res.ok.injEq] at h; subst h; exact Ev.const (fun f => by simp only [ncPV])
      | subkeys l => simp only [resolvePV, Res.ok.injEq] at h; subst h; exact Ev.const (fun f => by simp only [ncPV])
      | fk fk =>
        cases fk with
        | set i => simp only [resolvePV, Res.ok.injEq] at h; subst h; exact Ev.const (fun f => by simp only [ncPV])
        | notSet target args =>
          rw [resolvePV_notSet] at h
          exact Ev.stepId (fun f => ncPV_notSet orc w dflt f top target args) (ihNode _ _ _ _ _ _ h)
      | comp k i =>
        rw [resolvePV_comp] at h
        obtain ⟨a, ha, rfl⟩ := mapOk_ok h
        exact Ev.step1 (fun f => ncPV_comp orc w dflt f top k i) (ihPV _ _ _ _ _ ha)
      | bloc l =>
        rw [resolvePV_bloc] at h
        obtain ⟨a, ha, rfl⟩ := mapOk_ok h
        exact Ev.step1 (fun f => ncPV_bloc orc w dflt f top l) (ihL _ _ _ _ _ ha)
      | ranges ck t bs =>
        rw [resolvePV_ranges] at h
        obtain ⟨a, ha, rfl⟩ := mapOk_ok h
        exact Ev.step1 (fun f => ncPV_ranges orc w dflt f top ck t bs) (ihB _ _ _ _ _ ha)
      | plurals r ck o fs =>
        rw [resolvePV_plurals] at h
        obtain ⟨a, b, ha, hb, rfl⟩ := seq2_ok h
        exact Ev.step2 (g := fun fs o => PV.plurals r ck o fs) (fun f => ncPV_plurals orc w dflt f top r ck o fs)
          (ihF _ _ _ _ _ ha) (ihPV _ _ _ _ _ hb)
    · intro V phys top target args r h
      obtain ⟨src, value, value', args', v, hfd, _, hv, ha, hp, rfl⟩ :=
        resolveNode_ok_inv_walk orc m dflt fuel V phys top target args h
      obtain ⟨hg, _⟩ := findDefining_ok_stored m dflt _ _ _ _ _ _ hfd
      have hleaf : isGroup value = false := by
        cases hgr : isGroup value with
        | false => rfl
        | true =>
          have := resolvePV_group orc dflt hv hgr
          subst this
          obtain ⟨o, rfl⟩ := isGroup_true' hgr
          simp [populate] at hp
      obtain ⟨v₀, hw0, _, _, htr⟩ := Memo.lookup orc w dflt hM hg hleaf
      obtain ⟨v₁, hfw⟩ := hM.walk orc w dflt target src value _ _ _ hfd
      have h1 := (findDefining_ok_stored w dflt _ _ _ _ _ _ hfw).1
      rw [hw0] at h1
      simp only [Res.ok.injEq, Option.some.injEq] at h1
      subst h1
      exact Ev.stepNode (fun f => ncNode_walk orc w dflt f top target args src v₀ hfw)
        (htr _ (ihPV _ _ _ _ _ hv)) (ihA _ _ _ _ _ ha) hp
    · intro V phys top l x h
      cases l with
      | nil => simp only [resolveL, Res.ok.injEq] at h; subst h; exact Ev.const (fun f => by simp only [ncL])
      | cons y ys =>
        rw [resolveL_cons] at h
        obtain ⟨a, b, ha, hb, rfl⟩ := seq2_ok h
        exact Ev.step2 (g := fun a b => a :: b) (fun f => ncL_cons orc w dflt f top y ys) (ihPV _ _ _ _ _ ha) (ihL _ _ _ _ _ hb)
    · intro V phys top l x h
      cases l with
      | nil => simp only [resolveB, Res.ok.injEq] at h; subst h; exact Ev.const (fun f => by simp only [ncB])
      | cons y ys =>
        obtain ⟨r, y⟩ := y
        rw [resolveB_cons] at h
        obtain ⟨a, b, ha, hb, rfl⟩ := seq2_ok h
        exact Ev.step2 (g := fun a b => (r, a) :: b) (fun f => ncB_cons orc w dflt f top r y ys) (ihPV _ _ _ _ _ ha) (ihB _ _ _ _ _ hb)
    · intro V phys top l x h
      cases l with
      | nil => simp only [resolveF, Res.ok.injEq] at h; subst h; exact Ev.const (fun f => by simp only [ncF])
      | cons y ys =>
        obtain ⟨r, y⟩ := y
        rw [resolveF_cons] at h
        obtain ⟨a, b, ha, hb, rfl⟩ := seq2_ok h
        exact Ev.step2 (g := fun a b => (r, a) :: b) (fun f => ncF_cons orc w dflt f top r y ys) (ihPV _ _ _ _ _ ha) (ihF _ _ _ _ _ hb)
    · intro V phys top l x h
      cases l with
      | nil => simp only [resolveArgs, Res.ok.injEq] at h; subst h; exact Ev.const (fun f => by simp only [ncArgs])
      | cons y ys =>
        obtain ⟨r, y⟩ := y
        rw [resolveArgs_cons] at h
        obtain ⟨a, b, ha, hb, rfl⟩ := seq2_ok h
        exact Ev.step2 (g := fun a b => (r, a) :: b) (fun f => ncArgs_cons orc w dflt f top r y ys) (ihPV _ _ _ _ _ ha) (ihA _ _ _ _ _ hb)
end memo
/-! ### one step of `resolveAll` keeps the invariant -/
section steps
variable (orc : Oracle) (w : World) (dflt : Fallbacks)

theorem ncPV_leaf (f : Nat) (top : Str) (v x : PV) (h : ncPV orc w dflt f top v = .ok x)
    (hl : isGroup v = false) : isGroup x = false := by
  cases f with
  | zero => simp [ncPV] at h
  | succ f =>
    cases v with
    | dflt => simp only [ncPV, Res.ok.injEq] at h; subst h; rfl
    | lit l => simp only [ncPV, Res.ok.injEq] at h; subst h; rfl
    | var k fm => simp only [ncPV, Res.ok.injEq] at h; subst h; rfl
    | subkeys l => simp [isGroup] at hl
    | fk fk =>
      cases fk with
      | set i => simp only [ncPV, Res.ok.injEq] at h; subst h; rfl
      | notSet target args =>
        rw [ncPV_notSet] at h
        obtain ⟨v, rfl⟩ := ncNode_shape orc w dflt f top target args x h
        rfl
    | comp k i => rw [ncPV_comp] at h; obtain ⟨a, _, rfl⟩ := mapOk_ok h; rfl
    | bloc l => rw [ncPV_bloc] at h; obtain ⟨a, _, rfl⟩ := mapOk_ok h; rfl
    | ranges ck t bs => rw [ncPV_ranges] at h; obtain ⟨a, _, rfl⟩ := mapOk_ok h; rfl
    | plurals r ck o fs => rw [ncPV_plurals] at h; obtain ⟨a, b, _, _, rfl⟩ := seq2_ok h; rfl

theorem Memo.congr {S S' : KeyId → Prop} {m : World} (hM : Memo orc w dflt S m) (h : ∀ K, S K ↔ S' K) :
    Memo orc w dflt S' m := by
  intro top T
  rcases hM top T with ha | ⟨v₀, y, h1, h2, h3, h4, hc⟩
  · exact .inl ha
  · refine .inr ⟨v₀, y, h1, h2, h3, h4, ?_⟩
    rcases hc with ⟨hn, he⟩ | ⟨hs, he⟩
    · exact .inl ⟨fun hs' => hn ((h _).mpr hs'), he⟩
    · exact .inr ⟨(h _).mp hs, he⟩

theorem Memo.init : Memo orc w dflt (fun _ => False) w := by
  intro top T
  cases hg : w.getValueAt top T with
  | err e => exact .inl ⟨.inl rfl, fun x hx => by simp at hx, fun x hx => by simp at hx⟩
  | panic p => exact .inl ⟨.inl rfl, fun x hx => by simp at hx, fun x hx => by simp at hx⟩
  | ok o =>
    cases o with
    | none => exact .inl ⟨.inl rfl, useless_none, useless_none⟩
    | some v =>
      cases hgr : isGroup v with
      | true =>
        obtain ⟨o, rfl⟩ := isGroup_true' hgr
        exact .inl ⟨.inl rfl, useless_group, useless_group⟩
      | false => exact .inr ⟨v, v, rfl, rfl, hgr, hgr, .inl ⟨fun h => h, rfl⟩⟩

theorem memo_step {S : KeyId → Prop} {m m' : World} {fuel : Nat} {loc : Str} {p : KeyPath} {found : Bool}
    (hwf : WorldWF m) (hM : Memo orc w dflt S m)
    (h : resolveAt orc dflt fuel loc p m = .ok (m', found)) :
    WorldWF m' ∧ Memo orc w dflt (fun K => S K ∨ K = (loc, p)) m' := by
  unfold resolveAt at h
  cases hg : m.getValueAt loc p with
  | err e => rw [hg] at h; simp at h
  | panic s => rw [hg] at h; simp at h
  | ok o =>
    rw [hg] at h
    cases o with
    | none =>
      simp only [Res.ok.injEq, Prod.mk.injEq] at h
      obtain ⟨rfl, _⟩ := h
      refine ⟨hwf, ?_⟩
      intro top T
      rcases hM top T with ha | ⟨v₀, y, h1, h2, h3, h4, hc⟩
      · exact .inl ha
      · refine .inr ⟨v₀, y, h1, h2, h3, h4, ?_⟩
        rcases hc with ⟨hn, he⟩ | ⟨hs, he⟩
        · refine .inl ⟨?_, he⟩
          rintro (hs | he')
          · exact hn hs
          · simp only [Prod.mk.injEq] at he'
            rw [he'.1, he'.2, hg] at h2
            simp at h2
        · exact .inr ⟨.inl hs, he⟩
    | some v =>
      simp only at h
      cases hr : resolvePV orc m dflt fuel [] (loc, p) loc v with
      | err e => rw [hr] at h; simp at h
      | panic s => rw [hr] at h; simp at h
      | ok x =>
        rw [hr] at h
        simp only [Res.ok.injEq, Prod.mk.injEq] at h
        obtain ⟨rfl, _⟩ := h
        refine ⟨setValueAt_wf hwf loc p x, ?_⟩
        have hev := (memo_sound orc w dflt hM fuel).1 [] (loc, p) loc v x hr
        have hgx : isGroup v = true → x = v := fun hgv => resolvePV_group orc dflt hr hgv
        have hlx : isGroup v = false → isGroup x = false := by
          intro hl
          obtain ⟨a, ha⟩ := hev
          exact ncPV_leaf orc w dflt a loc v x (ha a (Nat.le_refl _)) hl
        intro top T
        rcases getValueAt_set_sim hwf loc p v x hg hgx hlx top T with ⟨he, hnew⟩ | ⟨hne, hsim⟩
        · simp only [Prod.mk.injEq] at he
          obtain ⟨rfl, rfl⟩ := he
          rcases hM top T with ⟨hs, hu1, hu2⟩ | ⟨v₀, y, h1, h2, h3, h4, hc⟩
          · have hgv := hu2 v hg
            rw [hnew, hgx hgv, ← hg]
            exact .inl ⟨hs, hu1, hu2⟩
          · rw [hg] at h2
            simp only [Res.ok.injEq, Option.some.injEq] at h2
            subst h2
            obtain ⟨v₀', hw0, _, _, htr⟩ := Memo.lookup orc w dflt hM hg h4
            rw [h1] at hw0
            simp only [Res.ok.injEq, Option.some.injEq] at hw0
            subst hw0
            exact .inr ⟨v₀, x, h1, hnew, h3, hlx h4, .inr ⟨.inr rfl, htr _ hev⟩⟩
        · rcases hM top T with ⟨hs, hu1, hu2⟩ | ⟨v₀, y, h1, h2, h3, h4, hc⟩
          · refine .inl ⟨hs.trans hsim.symm, hu1, ?_⟩
            rcases hsim with he | hb
            · rw [he]; exact hu2
            · exact hb.useless.1
          · rcases hsim with he | hb
            · refine .inr ⟨v₀, y, h1, by rw [he]; exact h2, h3, h4, ?_⟩
              rcases hc with ⟨hn, hey⟩ | ⟨hs, hey⟩
              · exact .inl ⟨by rintro (hs | he'); exact hn hs; exact hne he', hey⟩
              · exact .inr ⟨.inl hs, hey⟩
            · have := hb.useless.2 y h2
              rw [h4] at this; cases this

/-- the keys `resolveAll` processes for a list of registered paths -/
def Proc (ps : List (Str × KeyPath)) (K : KeyId) : Prop :=
  ∃ x ∈ ps, K = (x.1, x.2) ∨ ∃ p', mergedPath x.2 = some p' ∧ K = (x.1, p')

theorem memo_all {fuel : Nat} : ∀ (ps : List (Str × KeyPath)) (S : KeyId → Prop) (m m' : World),
    WorldWF m → Memo orc w dflt S m → resolveAll orc dflt fuel ps m = .ok m' →
    Memo orc w dflt (fun K => S K ∨ Proc ps K) m'
  | [], S, m, m', _, hM, h => by
    simp only [resolveAll, Res.ok.injEq] at h
    subst h
    exact Memo.congr orc w dflt hM (fun K => ⟨.inl, fun h => h.elim id (fun ⟨x, hx, _⟩ => by simp at hx)⟩)
  | (loc, p) :: rest, S, m, m', hwf, hM, h => by
    simp only [resolveAll] at h
    cases h1 : resolveAt orc dflt fuel loc p m with
    | err e => rw [h1] at h; simp at h
    | panic s => rw [h1] at h; simp at h
    | ok r1 =>
      obtain ⟨w1, f1⟩ := r1
      rw [h1] at h
      simp only at h
      obtain ⟨hwf1, hM1⟩ := memo_step orc w dflt hwf hM h1
      -- the second lookup
      have key : ∀ (w2 : World) (S2 : KeyId → Prop), WorldWF w2 → Memo orc w dflt S2 w2 →
          (∀ K, S2 K ↔ (S K ∨ K = (loc, p) ∨ ∃ p', mergedPath p = some p' ∧ K = (loc, p'))) →
          resolveAll orc dflt fuel rest w2 = .ok m' →
          Memo orc w dflt (fun K => S K ∨ Proc ((loc, p) :: rest) K) m' := by
        intro w2 S2 hwf2 hM2 hS2 hrest
        have := memo_all rest S2 w2 m' hwf2 hM2 hrest
        refine Memo.congr orc w dflt this (fun K => ?_)
        constructor
        · rintro (hs | ⟨x, hx, hK⟩)
          · rcases (hS2 K).mp hs with h | h | h
            · exact .inl h
            · exact .inr ⟨(loc, p), by simp, .inl h⟩
            · exact .inr ⟨(loc, p), by simp, .inr h⟩
          · exact .inr ⟨x, List.mem_cons_of_mem _ hx, hK⟩
        · rintro (hs | ⟨x, hx, hK⟩)
          · exact .inl ((hS2 K).mpr (.inl hs))
          · rcases List.mem_cons.mp hx with rfl | hx
            · rcases hK with h | h
              · exact .inl ((hS2 K).mpr (.inr (.inl h)))
              · exact .inl ((hS2 K).mpr (.inr (.inr h)))
            · exact .inr ⟨x, hx, hK⟩
      cases hmp : mergedPath p with
      | none =>
        rw [hmp] at h
        simp only at h
        split at h
        · exact key w1 _ hwf1 hM1 (fun K => by simp [hmp]) h
        · simp at h
      | some p' =>
        rw [hmp] at h
        simp only at h
        cases h2 : resolveAt orc dflt fuel loc p' w1 with
        | err e => rw [h2] at h; simp at h
        | panic s => rw [h2] at h; simp at h
        | ok r2 =>
          obtain ⟨w2, f2⟩ := r2
          rw [h2] at h
          simp only at h
          obtain ⟨hwf2, hM2⟩ := memo_step orc w dflt hwf1 hM1 h2
          split at h
          · refine key w2 _ hwf2 hM2 (fun K => ?_) h
            simp only [hmp, Option.some.injEq]
            constructor
            · rintro ((hs | h) | h)
              · exact .inl hs
              · exact .inr (.inl h)
              · exact .inr (.inr ⟨p', rfl, h⟩)
            · rintro (hs | h | ⟨q, rfl, h⟩)
              · exact .inl (.inl hs)
              · exact .inl (.inr h)
              · exact .inr h
          · simp at h
end steps

end I18nVerif.Foreign
