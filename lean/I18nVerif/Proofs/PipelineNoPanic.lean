import I18nVerif.Proofs.PipeParse
import I18nVerif.Proofs.PipeMerge
import I18nVerif.Proofs.PipeResolve
import I18nVerif.Proofs.PipeCheck
/-!
Assembly of the whole-pipeline no-panic theorem (C09): the stage lemmas of
`PipeParse` (parseRaw), `PipeMerge` (mergePluralsAll), `PipeResolve` (Foreign.resolveAll) and
`PipeCheck` (checkAll) are chained through the invariants of `Spec/PipelineInv.lean`.
-/
namespace I18nVerif.PipeInv
open I18nVerif World Foreign Subst Reduce

/-! ### value predicates -/
mutual
theorem fkFree_eq : ∀ v : PV, FKFree v = !containsFK v
  | .fk _ => rfl
  | .comp _ i => by simp only [FKFree, containsFK]; exact fkFree_eq i
  | .bloc l => by simp only [FKFree, containsFK]; exact fkFreeL_eq l
  | .ranges _ _ bs => by simp only [FKFree, containsFK]; exact fkFreeB_eq bs
  | .plurals _ _ o fs => by simp only [FKFree, containsFK, fkFree_eq o, fkFreeF_eq fs, Bool.not_or]
  | .subkeys _ => rfl
  | .dflt => rfl
  | .lit _ => rfl
  | .var _ _ => rfl
theorem fkFreeL_eq : ∀ l : List PV, FKFreeL l = !containsFKL l
  | [] => rfl
  | x :: xs => by simp only [FKFreeL, containsFKL, fkFree_eq x, fkFreeL_eq xs, Bool.not_or]
theorem fkFreeB_eq : ∀ l : List (Range × PV), FKFreeB l = !containsFKB l
  | [] => rfl
  | (_, x) :: xs => by simp only [FKFreeB, containsFKB, fkFree_eq x, fkFreeB_eq xs, Bool.not_or]
theorem fkFreeF_eq : ∀ l : List (Form × PV), FKFreeF l = !containsFKF l
  | [] => rfl
  | (_, x) :: xs => by simp only [FKFreeF, containsFKF, fkFree_eq x, fkFreeF_eq xs, Bool.not_or]
end

theorem fkFree_or_hasFK (n : Nat) (v : PV) : FKFree v = true ∨ hasFK n v = true := by
  rw [fkFree_eq, hasFK]
  cases containsFK v <;> simp

mutual
theorem raw_flat : ∀ v : PV, Raw v = true → Flat v = true
  | .subkeys _, h => by simp [Raw] at h
  | .fk (.set _), h => by simp [Raw] at h
  | .fk (.notSet _ args), h => by simp only [Raw] at h; simp only [Flat]; exact rawK_flat args h
  | .comp _ i, h => by simp only [Raw] at h; simp only [Flat]; exact raw_flat i h
  | .bloc l, h => by simp only [Raw] at h; simp only [Flat]; exact rawL_flat l h
  | .ranges _ _ bs, h => by simp only [Raw] at h; simp only [Flat]; exact rawB_flat bs h
  | .plurals _ _ o fs, h => by
    simp only [Raw, Bool.and_eq_true] at h; simp only [Flat, Bool.and_eq_true]
    exact ⟨raw_flat o h.1, rawF_flat fs h.2⟩
  | .dflt, _ => rfl
  | .lit _, _ => rfl
  | .var _ _, _ => rfl
theorem rawL_flat : ∀ l : List PV, RawL l = true → FlatL l = true
  | [], _ => rfl
  | x :: xs, h => by
    simp only [RawL, Bool.and_eq_true] at h; simp only [FlatL, Bool.and_eq_true]
    exact ⟨raw_flat x h.1, rawL_flat xs h.2⟩
theorem rawB_flat : ∀ l : List (Range × PV), RawB l = true → FlatB l = true
  | [], _ => rfl
  | (_, x) :: xs, h => by
    simp only [RawB, Bool.and_eq_true] at h; simp only [FlatB, Bool.and_eq_true]
    exact ⟨raw_flat x h.1, rawB_flat xs h.2⟩
theorem rawF_flat : ∀ l : List (Form × PV), RawF l = true → FlatF l = true
  | [], _ => rfl
  | (_, x) :: xs, h => by
    simp only [RawF, Bool.and_eq_true] at h; simp only [FlatF, Bool.and_eq_true]
    exact ⟨raw_flat x h.1, rawF_flat xs h.2⟩
theorem rawK_flat : ∀ l : List (Str × PV), RawK l = true → FlatK l = true
  | [], _ => rfl
  | (_, x) :: xs, h => by
    simp only [RawK, Bool.and_eq_true] at h; simp only [FlatK, Bool.and_eq_true]
    exact ⟨raw_flat x h.1, rawK_flat xs h.2⟩
end

mutual
theorem raw_setClosed : ∀ v : PV, Raw v = true → SetClosed v = true
  | .subkeys _, h => by simp [Raw] at h
  | .fk (.set _), h => by simp [Raw] at h
  | .fk (.notSet _ args), h => by simp only [Raw] at h; simp only [SetClosed]; exact rawK_setClosed args h
  | .comp _ i, h => by simp only [Raw] at h; simp only [SetClosed]; exact raw_setClosed i h
  | .bloc l, h => by simp only [Raw] at h; simp only [SetClosed]; exact rawL_setClosed l h
  | .ranges _ _ bs, h => by simp only [Raw] at h; simp only [SetClosed]; exact rawB_setClosed bs h
  | .plurals _ _ o fs, h => by
    simp only [Raw, Bool.and_eq_true] at h; simp only [SetClosed, Bool.and_eq_true]
    exact ⟨raw_setClosed o h.1, rawF_setClosed fs h.2⟩
  | .dflt, _ => rfl
  | .lit _, _ => rfl
  | .var _ _, _ => rfl
theorem rawL_setClosed : ∀ l : List PV, RawL l = true → SetClosedL l = true
  | [], _ => rfl
  | x :: xs, h => by
    simp only [RawL, Bool.and_eq_true] at h; simp only [SetClosedL, Bool.and_eq_true]
    exact ⟨raw_setClosed x h.1, rawL_setClosed xs h.2⟩
theorem rawB_setClosed : ∀ l : List (Range × PV), RawB l = true → SetClosedB l = true
  | [], _ => rfl
  | (_, x) :: xs, h => by
    simp only [RawB, Bool.and_eq_true] at h; simp only [SetClosedB, Bool.and_eq_true]
    exact ⟨raw_setClosed x h.1, rawB_setClosed xs h.2⟩
theorem rawF_setClosed : ∀ l : List (Form × PV), RawF l = true → SetClosedF l = true
  | [], _ => rfl
  | (_, x) :: xs, h => by
    simp only [RawF, Bool.and_eq_true] at h; simp only [SetClosedF, Bool.and_eq_true]
    exact ⟨raw_setClosed x h.1, rawF_setClosed xs h.2⟩
theorem rawK_setClosed : ∀ l : List (Str × PV), RawK l = true → SetClosedK l = true
  | [], _ => rfl
  | (_, x) :: xs, h => by
    simp only [RawK, Bool.and_eq_true] at h; simp only [SetClosedK, Bool.and_eq_true]
    exact ⟨raw_setClosed x h.1, rawK_setClosed xs h.2⟩
end

mutual
/-- a parser output in which `hasFK` sees no foreign key has none -/
theorem raw_fkFree_noNotSet : ∀ v : PV, Raw v = true → FKFree v = true → NoNotSet v = true
  | .subkeys _, h, _ => by simp [Raw] at h
  | .fk _, _, h => by simp [FKFree] at h
  | .comp _ i, h, h' => by
    simp only [Raw] at h; simp only [FKFree] at h'; simp only [NoNotSet]; exact raw_fkFree_noNotSet i h h'
  | .bloc l, h, h' => by
    simp only [Raw] at h; simp only [FKFree] at h'; simp only [NoNotSet]; exact rawL_fkFree_noNotSet l h h'
  | .ranges _ _ bs, h, h' => by
    simp only [Raw] at h; simp only [FKFree] at h'; simp only [NoNotSet]; exact rawB_fkFree_noNotSet bs h h'
  | .plurals _ _ o fs, h, h' => by
    simp only [Raw, Bool.and_eq_true] at h; simp only [FKFree, Bool.and_eq_true] at h'
    simp only [NoNotSet, Bool.and_eq_true]
    exact ⟨raw_fkFree_noNotSet o h.1 h'.1, rawF_fkFree_noNotSet fs h.2 h'.2⟩
  | .dflt, _, _ => rfl
  | .lit _, _, _ => rfl
  | .var _ _, _, _ => rfl
theorem rawL_fkFree_noNotSet : ∀ l : List PV, RawL l = true → FKFreeL l = true → NoNotSetL l = true
  | [], _, _ => rfl
  | x :: xs, h, h' => by
    simp only [RawL, Bool.and_eq_true] at h; simp only [FKFreeL, Bool.and_eq_true] at h'
    simp only [NoNotSetL, Bool.and_eq_true]
    exact ⟨raw_fkFree_noNotSet x h.1 h'.1, rawL_fkFree_noNotSet xs h.2 h'.2⟩
theorem rawB_fkFree_noNotSet : ∀ l : List (Range × PV), RawB l = true → FKFreeB l = true → NoNotSetB l = true
  | [], _, _ => rfl
  | (_, x) :: xs, h, h' => by
    simp only [RawB, Bool.and_eq_true] at h; simp only [FKFreeB, Bool.and_eq_true] at h'
    simp only [NoNotSetB, Bool.and_eq_true]
    exact ⟨raw_fkFree_noNotSet x h.1 h'.1, rawB_fkFree_noNotSet xs h.2 h'.2⟩
theorem rawF_fkFree_noNotSet : ∀ l : List (Form × PV), RawF l = true → FKFreeF l = true → NoNotSetF l = true
  | [], _, _ => rfl
  | (_, x) :: xs, h, h' => by
    simp only [RawF, Bool.and_eq_true] at h; simp only [FKFreeF, Bool.and_eq_true] at h'
    simp only [NoNotSetF, Bool.and_eq_true]
    exact ⟨raw_fkFree_noNotSet x h.1 h'.1, rawF_fkFree_noNotSet xs h.2 h'.2⟩
end

mutual
/-- a flat value without unresolved foreign key is `Clean` (the input `reduce` wants) -/
theorem flat_noNotSet_clean : ∀ v : PV, Flat v = true → NoNotSet v = true → Clean v = true
  | .subkeys _, h, _ => by simp [Flat] at h
  | .fk (.set i), h, h' => by
    simp only [Flat] at h; simp only [NoNotSet] at h'; simp only [Clean]; exact flat_noNotSet_clean i h h'
  | .fk (.notSet _ _), _, h' => by simp [NoNotSet] at h'
  | .comp _ i, h, h' => by
    simp only [Flat] at h; simp only [NoNotSet] at h'; simp only [Clean]; exact flat_noNotSet_clean i h h'
  | .bloc l, h, h' => by
    simp only [Flat] at h; simp only [NoNotSet] at h'; simp only [Clean]; exact flatL_noNotSet_clean l h h'
  | .ranges _ _ bs, h, h' => by
    simp only [Flat] at h; simp only [NoNotSet] at h'; simp only [Clean]; exact flatB_noNotSet_clean bs h h'
  | .plurals _ _ o fs, h, h' => by
    simp only [Flat, Bool.and_eq_true] at h; simp only [NoNotSet, Bool.and_eq_true] at h'
    simp only [Clean, Bool.and_eq_true]
    exact ⟨flat_noNotSet_clean o h.1 h'.1, flatF_noNotSet_clean fs h.2 h'.2⟩
  | .dflt, _, _ => rfl
  | .lit _, _, _ => rfl
  | .var _ _, _, _ => rfl
theorem flatL_noNotSet_clean : ∀ l : List PV, FlatL l = true → NoNotSetL l = true → CleanL l = true
  | [], _, _ => rfl
  | x :: xs, h, h' => by
    simp only [FlatL, Bool.and_eq_true] at h; simp only [NoNotSetL, Bool.and_eq_true] at h'
    simp only [CleanL, Bool.and_eq_true]
    exact ⟨flat_noNotSet_clean x h.1 h'.1, flatL_noNotSet_clean xs h.2 h'.2⟩
theorem flatB_noNotSet_clean : ∀ l : List (Range × PV), FlatB l = true → NoNotSetB l = true → CleanB l = true
  | [], _, _ => rfl
  | (_, x) :: xs, h, h' => by
    simp only [FlatB, Bool.and_eq_true] at h; simp only [NoNotSetB, Bool.and_eq_true] at h'
    simp only [CleanB, Bool.and_eq_true]
    exact ⟨flat_noNotSet_clean x h.1 h'.1, flatB_noNotSet_clean xs h.2 h'.2⟩
theorem flatF_noNotSet_clean : ∀ l : List (Form × PV), FlatF l = true → NoNotSetF l = true → CleanF l = true
  | [], _, _ => rfl
  | (_, x) :: xs, h, h' => by
    simp only [FlatF, Bool.and_eq_true] at h; simp only [NoNotSetF, Bool.and_eq_true] at h'
    simp only [CleanF, Bool.and_eq_true]
    exact ⟨flat_noNotSet_clean x h.1 h'.1, flatF_noNotSet_clean xs h.2 h'.2⟩
end

mutual
/-- a key tree whose leaves are flat and resolved is `Clean` as a whole -/
theorem treeV_clean {P : List Str → PV → Prop} (hP : ∀ q x, P q x → Flat x = true ∧ NoNotSet x = true) :
    ∀ (v : PV) (here : List Str), TreeV P here v → Clean v = true
  | .subkeys (some (.mk _ _ ks _ _)), here, h => by
    simp only [TreeV] at h; simp only [Clean]; exact treeK_clean hP ks here h
  | .subkeys none, _, h => by simp [TreeV] at h
  | .dflt, _, _ => rfl
  | .fk f, here, h => by simp only [TreeV] at h; exact flat_noNotSet_clean _ (hP _ _ h).1 (hP _ _ h).2
  | .ranges ck t bs, here, h => by simp only [TreeV] at h; exact flat_noNotSet_clean _ (hP _ _ h).1 (hP _ _ h).2
  | .lit _, _, _ => rfl
  | .var _ _, _, _ => rfl
  | .comp k i, here, h => by simp only [TreeV] at h; exact flat_noNotSet_clean _ (hP _ _ h).1 (hP _ _ h).2
  | .bloc l, here, h => by simp only [TreeV] at h; exact flat_noNotSet_clean _ (hP _ _ h).1 (hP _ _ h).2
  | .plurals r ck o fs, here, h => by simp only [TreeV] at h; exact flat_noNotSet_clean _ (hP _ _ h).1 (hP _ _ h).2
theorem treeK_clean {P : List Str → PV → Prop} (hP : ∀ q x, P q x → Flat x = true ∧ NoNotSet x = true) :
    ∀ (keys : List (Str × PV)) (pre : List Str), TreeK P pre keys → CleanK keys = true
  | [], _, _ => rfl
  | (k, v) :: rest, pre, h => by
    simp only [TreeK] at h; simp only [CleanK, Bool.and_eq_true]
    exact ⟨treeV_clean hP v _ h.1, treeK_clean hP rest pre h.2⟩
end

/-! ### the world after `parseRaw` and after `mergePluralsAll` -/
theorem pairwise_map_some {l : List Str} (h : l.Pairwise (· ≠ ·)) : (l.map some).Pairwise (· ≠ ·) := by
  rw [List.pairwise_map]
  exact h.imp (fun hab e => hab (Option.some.inj e))

theorem parsed_wf {inp : Pipeline.Input} (hcfg : CfgWF inp.cfg) {w : World} {paths : List (Str × KeyPath)}
    (h : ParsedOK inp w paths) : WorldWF w := by
  constructor
  · intro hn ns hns
    have hk := h.nsKeys
    rw [h.namespaced] at hn
    cases hnsp : inp.cfg.namespaces with
    | none => rw [hnsp] at hn; simp at hn
    | some l =>
      rw [hnsp] at hk
      have : ns.key ∈ w.nss.map NS.key := List.mem_map_of_mem hns
      rw [hk] at this
      simp only [List.mem_map] at this
      obtain ⟨a, _, ha⟩ := this
      rw [← ha]; rfl
  · intro hn
    have hk := h.nsKeys
    rw [h.namespaced] at hn
    cases hnsp : inp.cfg.namespaces with
    | some l => rw [hnsp] at hn; simp at hn
    | none =>
      rw [hnsp] at hk
      simp only at hk
      match hw : w.nss, hk with
      | [ns], hk =>
        simp only [List.map, List.cons.injEq, and_true] at hk
        obtain ⟨k, ls⟩ := ns
        simp only at hk
        subst hk
        exact ⟨ls, rfl⟩
      | [], hk => simp at hk
      | _ :: _ :: _, hk => simp at hk
  · rw [h.nsKeys]
    cases hnsp : inp.cfg.namespaces with
    | none => simp
    | some l => exact pairwise_map_some (hcfg.nsDistinct l hnsp)
  · intro ns hns
    rw [h.names ns hns]; exact hcfg.localesDistinct
  · intro ns hns e
    have := h.names ns hns
    rw [e] at this
    exact hcfg.locales this.symm

/-- the relation `mergePluralsAll_ok` gives between the namespaces before and after -/
abbrev MergedRel (orc : Oracle) (nss nss' : List NS) : Prop :=
  Forall₂ (fun ns ns' => ns'.key = ns.key ∧
    Forall₂ (fun l l' => ∃ w, Plurals.mergePlurals orc l.name 1000000 ⟨ns.key, []⟩ l = .ok (l', w))
      ns.locales ns'.locales) nss nss'

theorem forall₂_map_eq {α β γ : Type} {R : α → β → Prop} {f : α → γ} {g : β → γ} {l₁ : List α} {l₂ : List β}
    (h : Forall₂ R l₁ l₂) (hfg : ∀ a ∈ l₁, ∀ b, R a b → g b = f a) : l₂.map g = l₁.map f := by
  induction h with
  | nil => rfl
  | cons hr _ ih =>
    simp only [List.map, List.cons.injEq]
    exact ⟨hfg _ List.mem_cons_self _ hr, ih (fun a ha b hab => hfg a (List.mem_cons_of_mem _ ha) b hab)⟩

structure MergedOK (orc : Oracle) (w : World) (paths : List (Str × KeyPath)) (nss' : List NS) : Prop where
  inv : InvG { w with nss := nss' } (Cov paths)
  findable : ∀ x ∈ paths, Findable { w with nss := nss' } x

theorem merged_ok {inp : Pipeline.Input} (hcfg : CfgWF inp.cfg) {w : World} {paths : List (Str × KeyPath)}
    (hp : ParsedOK inp w paths) {orc : Oracle} {nss' : List NS} (hm : MergedRel orc w.nss nss') :
    MergedOK orc w paths nss' := by
  have hwf0 := parsed_wf hcfg hp
  -- per locale facts
  have hloc : ∀ ns ∈ w.nss, ∀ ns' : NS, ns'.key = ns.key → ∀ l ∈ ns.locales, ∀ l' ws,
      Plurals.mergePlurals orc l.name 1000000 ⟨ns.key, []⟩ l = .ok (l', ws) →
      l'.name = l.name ∧ SortedTree l'.keys ∧ TreeK (MidLeaf (Cov paths) l'.name ns'.key) [] l'.keys := by
    intro ns hns ns' hk l hl l' ws hmp
    have hs := hp.sorted ns hns l hl
    have hr := hp.raw ns hns l hl
    obtain ⟨hname, hdepth, hs', hr'⟩ := mergePlurals_ok orc l.name 1000000 _ l l' ws [] hmp hs hr
    refine ⟨hname, hs', ?_⟩
    have hreg := hp.registered ns hns l hl hdepth
    have hc0 : TreeK (fun q v => FKFree v = true ∨ (l.name, (⟨ns.key, q⟩ : KeyPath)) ∈ paths) [] l.keys :=
      treeK_mono _ _ (fun k ext x hx => (fkFree_or_hasFK 1000000 x).imp id hx) hreg
    have hc1 := mergePlurals_cov orc l.name (fun q => (l.name, (⟨ns.key, q⟩ : KeyPath)) ∈ paths) 1000000 _ l l' ws []
      hmp hs hc0
    refine treeK_mono _ _ (fun k ext x hx => ?_) (treeK_and _ _ hr' hc1)
    obtain ⟨hraw, hcov⟩ := hx
    refine ⟨raw_flat x hraw, raw_setClosed x hraw, ?_⟩
    rcases hcov with hf | hc | ⟨q, hc, hq⟩
    · exact .inl (raw_fkFree_noNotSet x hraw hf)
    · exact .inr ⟨⟨ns.key, _⟩, by rw [hname]; exact hc, hk.symm, .inl rfl⟩
    · exact .inr ⟨⟨ns.key, q⟩, by rw [hname]; exact hc, hk.symm, .inr hq⟩
  have hkeys : nss'.map NS.key = w.nss.map NS.key :=
    forall₂_map_eq hm (fun ns _ ns' h => h.1)
  have hnames : ∀ ns ∈ w.nss, ∀ ns' : NS, ns'.key = ns.key →
      Forall₂ (fun l l' => ∃ ws, Plurals.mergePlurals orc l.name 1000000 ⟨ns.key, []⟩ l = .ok (l', ws))
        ns.locales ns'.locales → ns'.locales.map Loc.name = ns.locales.map Loc.name := by
    intro ns hns ns' hk hf
    exact forall₂_map_eq hf (fun l hl l' ⟨ws, hmp⟩ => (hloc ns hns ns' hk l hl l' ws hmp).1)
  have hwf : WorldWF { w with nss := nss' } := by
    constructor
    · intro hn ns' hns'
      obtain ⟨ns, hns, hk, _⟩ := hm.mem_right ns' hns'
      rw [hk]; exact hwf0.nsSome hn ns hns
    · intro hn
      obtain ⟨locs, hnss⟩ := hwf0.nsNone hn
      simp only
      rw [hnss] at hm
      cases hm with
      | @cons a b _ _ h t =>
        cases t
        obtain ⟨hk, _⟩ := h
        refine ⟨b.locales, ?_⟩
        cases b with
        | mk k ls => simp only at hk; subst hk; rfl
    · simp only [hkeys]; exact hwf0.nsDistinct
    · intro ns' hns'
      obtain ⟨ns, hns, hk, hf⟩ := hm.mem_right ns' hns'
      rw [hnames ns hns ns' hk hf]; exact hwf0.locDistinct ns hns
    · intro ns' hns' e
      obtain ⟨ns, hns, hk, hf⟩ := hm.mem_right ns' hns'
      have := hnames ns hns ns' hk hf
      rw [e] at this
      simp at this
      exact hwf0.nonempty ns hns this
  refine ⟨⟨hwf, ?_, ?_⟩, ?_⟩
  · intro ns' hns' l' hl'
    obtain ⟨ns, hns, hk, hf⟩ := hm.mem_right ns' hns'
    obtain ⟨l, hl, ws, hmp⟩ := hf.mem_right l' hl'
    exact (hloc ns hns ns' hk l hl l' ws hmp).2.1
  · intro ns' hns' l' hl'
    obtain ⟨ns, hns, hk, hf⟩ := hm.mem_right ns' hns'
    obtain ⟨l, hl, ws, hmp⟩ := hf.mem_right l' hl'
    exact (hloc ns hns ns' hk l hl l' ws hmp).2.2
  · intro x hx
    obtain ⟨ns, hns, l, hl, hname, hnsk, v, hv, hg⟩ := hp.sound x hx
    obtain ⟨ns', hns', hk, hf⟩ := hm.mem_left ns hns
    obtain ⟨l', hl', ws, hmp⟩ := hf.mem_left l hl
    have hname' := (hloc ns hns ns' hk l hl l' ws hmp).1
    have hfind := mergePlurals_find orc l.name 1000000 _ l l' ws hmp (hp.sorted ns hns l hl) x.2.path v hv hg
    have hget : ∀ q, ({ w with nss := nss' } : World).getValueAt x.1 ⟨x.2.ns, q⟩ = locGet l'.keys q := by
      intro q
      have := getValueAt_mem hwf (ns := ns') (l := l') hns' hl' q
      rw [hname', hname, hk, ← hnsk] at this
      exact this
    rcases hfind with ⟨v', hv'⟩ | ⟨q', v', hq', hv'⟩
    · left
      refine ⟨v', ?_⟩
      have := hget x.2.path
      rw [hv'] at this
      exact this
    · right
      refine ⟨{ x.2 with path := q' }, v', ?_, ?_⟩
      · rw [mergedPath_eq, hq']; rfl
      · have := hget q'
        rw [hv'] at this
        exact this

/-! ### the chain -/
theorem resolved_panic (inp : Pipeline.Input) (hcfg : CfgWF inp.cfg) (s : String)
    (h : Pipeline.resolved inp = .panic s) : Benign s := by
  unfold Pipeline.resolved at h
  cases hp : Pipeline.parseRaw inp with
  | err e => rw [hp] at h; simp at h
  | panic p => exact absurd hp (parseRaw_no_panic inp p)
  | ok r =>
    obtain ⟨w, paths⟩ := r
    rw [hp] at h
    simp only at h
    have hpo := parseRaw_ok inp w paths hp
    cases hm : Pipeline.mergePluralsAll inp.oracle w.nss [] with
    | err e => rw [hm] at h; simp at h
    | panic p =>
      rw [hm] at h
      simp only [Res.panic.injEq] at h
      subst h
      exact .inl (mergePluralsAll_panic _ _ _ _ hm)
    | ok r =>
      obtain ⟨nss, ws⟩ := r
      rw [hm] at h
      simp only at h
      have hmo := merged_ok hcfg hpo (mergePluralsAll_ok _ _ _ _ _ hm)
      obtain ⟨hpan, _⟩ := resolveAll_stage inp.oracle ⟨inp.cfg.default, inp.cfg.inherits⟩ 1000000 paths _ hmo.inv hmo.findable
      cases hr : Foreign.resolveAll inp.oracle ⟨inp.cfg.default, inp.cfg.inherits⟩ 1000000 paths { w with nss := nss } with
      | err e => rw [hr] at h; simp at h
      | panic p =>
        rw [hr] at h
        simp only [Res.panic.injEq] at h
        subst h
        exact hpan _ hr
      | ok w'' => rw [hr] at h; simp at h

theorem resolved_ok (inp : Pipeline.Input) (hcfg : CfgWF inp.cfg) (w : World) (ws : List Warning)
    (h : Pipeline.resolved inp = .ok (w, ws)) : InvG w (fun _ _ _ => False) := by
  unfold Pipeline.resolved at h
  cases hp : Pipeline.parseRaw inp with
  | err e => rw [hp] at h; simp at h
  | panic p => rw [hp] at h; simp at h
  | ok r =>
    obtain ⟨w0, paths⟩ := r
    rw [hp] at h
    simp only at h
    have hpo := parseRaw_ok inp w0 paths hp
    cases hm : Pipeline.mergePluralsAll inp.oracle w0.nss [] with
    | err e => rw [hm] at h; simp at h
    | panic p => rw [hm] at h; simp at h
    | ok r =>
      obtain ⟨nss, ws1⟩ := r
      rw [hm] at h
      simp only at h
      have hmo := merged_ok hcfg hpo (mergePluralsAll_ok _ _ _ _ _ hm)
      obtain ⟨_, hok⟩ := resolveAll_stage inp.oracle ⟨inp.cfg.default, inp.cfg.inherits⟩ 1000000 paths _ hmo.inv hmo.findable
      cases hr : Foreign.resolveAll inp.oracle ⟨inp.cfg.default, inp.cfg.inherits⟩ 1000000 paths { w0 with nss := nss } with
      | err e => rw [hr] at h; simp at h
      | panic p => rw [hr] at h; simp at h
      | ok w'' =>
        rw [hr] at h
        simp only [Res.ok.injEq, Prod.mk.injEq] at h
        obtain ⟨rfl, _⟩ := h
        exact hok _ hr

/-- the state before `check_locales`: what `checkAll` needs -/
theorem invG_check {w : World} (h : InvG w (fun _ _ _ => False)) :
    ∀ ns ∈ w.nss, ns.locales ≠ [] ∧ ∀ l ∈ ns.locales, CleanK l.keys = true ∧ SortedTree l.keys ∧
      ∃ (P : List Str → PV → Prop) (pre : List Str), (∀ p v, P p v → Flat v = true) ∧ TreeK P pre l.keys := by
  intro ns hns
  refine ⟨h.wf.nonempty ns hns, fun l hl => ?_⟩
  have ht := h.tree ns hns l hl
  refine ⟨treeK_clean (fun q x hx => ⟨hx.1, hx.2.2.elim id False.elim⟩) _ _ ht, h.sorted ns hns l hl,
    _, [], fun p v hx => hx.1, ht⟩

theorem run_panic (inp : Pipeline.Input) (hcfg : CfgWF inp.cfg) (s : String)
    (h : Pipeline.run inp = .panic s) : Benign s := by
  unfold Pipeline.run at h
  cases hr : Pipeline.resolved inp with
  | err e => rw [hr] at h; simp at h
  | panic p =>
    rw [hr] at h
    simp only [Res.panic.injEq] at h
    subst h
    exact resolved_panic inp hcfg _ hr
  | ok r =>
    obtain ⟨w, ws⟩ := r
    rw [hr] at h
    simp only at h
    have hI := resolved_ok inp hcfg w ws hr
    cases hc : Pipeline.checkAll inp w.nss ws with
    | err e => rw [hc] at h; simp at h
    | panic p =>
      rw [hc] at h
      simp only [Res.panic.injEq] at h
      subst h
      exact .inl (checkAll_no_panic_of_flat inp w.nss ws _ (invG_check hI) hc)
    | ok r => rw [hc] at h; simp at h

end I18nVerif.PipeInv
