import I18nVerif.Spec.PipelineInv
import I18nVerif.Proofs.Reduce
import I18nVerif.Proofs.Keys
import I18nVerif.Proofs.Merge
import I18nVerif.Proofs.CheckGlue
/-!
The `check_locales` stage of the whole-pipeline no-panic theorem: `Pipeline.checkAll` reaches none of
its panic sites (other than the fuel of the model) on a world whose locale lists are non-empty, whose
values are `Clean` and whose key maps are sorted at every depth — *including the groups of subkeys
hidden below resolved foreign keys* (`SortedRK`; without that the statement is false, see the
counter-example at the end of the file).
-/
namespace I18nVerif.PipeInv
open I18nVerif I18nVerif.Check I18nVerif.Reduce

/-! ### sortedness that also looks below resolved foreign keys (what `reduce` unwraps) -/

mutual
/-- every key map of the tree is sorted, also those that `reduce` brings to the surface by unwrapping
    a resolved foreign key -/
def SortedRV : PV → Prop
  | .subkeys (some (.mk _ _ keys _ _)) => Sorted keys ∧ SortedRK keys
  | .fk (.set i) => SortedRV i
  | _ => True
def SortedRK : List (Str × PV) → Prop
  | [] => True
  | (_, v) :: rest => SortedRV v ∧ SortedRK rest
end

/-- a locale's key map: sorted at every depth, resolved foreign keys included -/
def SortedRTree (keys : List (Str × PV)) : Prop := Sorted keys ∧ SortedRK keys

theorem flat_sortedRV : ∀ (v : PV), Flat v = true → SortedRV v
  | .fk (.set i), h => by
    simp only [Flat] at h
    simp only [SortedRV]
    exact flat_sortedRV i h
  | .fk (.notSet _ _), _ => by simp [SortedRV]
  | .subkeys _, h => by simp [Flat] at h
  | .dflt, _ => by simp [SortedRV]
  | .lit _, _ => by simp [SortedRV]
  | .var _ _, _ => by simp [SortedRV]
  | .comp _ _, _ => by simp [SortedRV]
  | .bloc _, _ => by simp [SortedRV]
  | .ranges _ _ _, _ => by simp [SortedRV]
  | .plurals _ _ _ _, _ => by simp [SortedRV]

mutual
/-- bridge: on a tree whose leaves are `Flat` (the state after `resolve_foreign_keys`) the plain
    sortedness of the spec is the sortedness needed here -/
theorem sortedRV_of_flat (P : List Str → PV → Prop) (hP : ∀ p v, P p v → Flat v = true) :
    ∀ (here : List Str) (v : PV), TreeV P here v → SortedV v → SortedRV v
  | here, .subkeys (some (.mk _ _ keys _ _)), ht, hs => by
    simp only [TreeV] at ht
    simp only [SortedV] at hs
    simp only [SortedRV]
    exact ⟨hs.1, sortedRK_of_flat P hP here keys ht hs.2⟩
  | here, .subkeys none, ht, _ => by simp [TreeV] at ht
  | here, .fk f, ht, _ => by simp only [TreeV] at ht; exact flat_sortedRV _ (hP _ _ ht)
  | here, .dflt, _, _ => by simp [SortedRV]
  | here, .lit _, _, _ => by simp [SortedRV]
  | here, .var _ _, _, _ => by simp [SortedRV]
  | here, .comp _ _, _, _ => by simp [SortedRV]
  | here, .bloc _, _, _ => by simp [SortedRV]
  | here, .ranges _ _ _, _, _ => by simp [SortedRV]
  | here, .plurals _ _ _ _, _, _ => by simp [SortedRV]
theorem sortedRK_of_flat (P : List Str → PV → Prop) (hP : ∀ p v, P p v → Flat v = true) :
    ∀ (pre : List Str) (keys : List (Str × PV)), TreeK P pre keys → SortedK keys → SortedRK keys
  | pre, [], _, _ => by simp [SortedRK]
  | pre, (k, v) :: rest, ht, hs => by
    simp only [TreeK] at ht
    simp only [SortedK] at hs
    simp only [SortedRK]
    exact ⟨sortedRV_of_flat P hP _ v ht.1 hs.1, sortedRK_of_flat P hP pre rest ht.2 hs.2⟩
end

/-! ### `reduce`: keeps key names, sortedness; its results are `Clean` again and have no foreign key -/

theorem sortedRV_of_reduced {v : PV} (h : Reduced v = true) (hn : ∀ l, v ≠ .subkeys l) : SortedRV v := by
  cases v with
  | fk f => simp [Reduced] at h
  | subkeys l => exact absurd rfl (hn l)
  | _ => simp [SortedRV]

theorem sortedRV_wrapBloc : ∀ {acc : List PV}, Good acc → SortedRV (wrapBloc acc)
  | [], _ => by simp [wrapBloc, PV.empty, SortedRV]
  | [one], g => by
    have h1 := g.items
    have h2 := g.red
    simp only [List.all_cons, List.all_nil, Bool.and_true] at h1
    simp only [ReducedL, Bool.and_true] at h2
    simp only [wrapBloc]
    apply sortedRV_of_reduced h2
    intro l hl
    subst hl
    simp [itemOk] at h1
  | a :: b :: rest, _ => by simp [wrapBloc, SortedRV]

mutual
theorem reduce_sortedR : ∀ (v v' : PV), reduce v = .ok v' → SortedRV v → SortedRV v'
  | .lit l, v', h, _ => by simp [reduce] at h; subst h; simp [SortedRV]
  | .var k f, v', h, _ => by simp [reduce] at h; subst h; simp [SortedRV]
  | .dflt, v', h, _ => by simp [reduce] at h; subst h; simp [SortedRV]
  | .fk (.set inner), v', h, hs => by
    simp only [reduce] at h
    simp only [SortedRV] at hs
    exact reduce_sortedR inner v' h hs
  | .fk (.notSet _ _), v', h, _ => by simp [reduce] at h
  | .ranges ck t bs, v', h, _ => by
    simp only [reduce] at h
    split at h <;> try (simp at h; done)
    simp at h; subst h
    simp [SortedRV]
  | .comp k inner, v', h, _ => by
    simp only [reduce] at h
    split at h <;> try (simp at h; done)
    simp at h; subst h
    simp [SortedRV]
  | .subkeys (some (.mk n t keys s c)), v', h, hs => by
    simp only [reduce] at h
    split at h <;> try (simp at h; done)
    rename_i ks hk
    simp at h; subst h
    simp only [SortedRV] at hs ⊢
    obtain ⟨r1, r2⟩ := reduceKeys_sortedR keys ks hk hs.2
    refine ⟨?_, r1⟩
    have hs1 := hs.1
    unfold Sorted at hs1 ⊢
    rw [← List.pairwise_map (f := Prod.fst) (R := fun a b => AMap.strLt a b = true)] at hs1 ⊢
    rw [r2]; exact hs1
  | .subkeys none, v', h, _ => by simp [reduce] at h
  | .bloc items, v', h, _ => by
    simp only [reduce] at h
    split at h <;> try (simp at h; done)
    rename_i acc hacc
    simp at h; subst h
    exact sortedRV_wrapBloc (reduceIntoL_good items [] acc hacc Good.nil)
  | .plurals r ck other forms, v', h, _ => by
    simp only [reduce] at h
    split at h <;> try (simp at h; done)
    simp at h; subst h
    simp [SortedRV]
theorem reduceKeys_sortedR : ∀ (ks ks' : List (Str × PV)), reduceKeys ks = .ok ks' → SortedRK ks →
    SortedRK ks' ∧ ks'.map Prod.fst = ks.map Prod.fst
  | [], ks', h, _ => by simp [reduceKeys] at h; subst h; simp [SortedRK]
  | (k, v) :: rest, ks', h, hs => by
    simp only [reduceKeys] at h
    split at h <;> try (simp at h; done)
    rename_i v' rest' hv hr
    simp at h; subst h
    simp only [SortedRK] at hs ⊢
    obtain ⟨r1, r2⟩ := reduceKeys_sortedR rest rest' hr hs.2
    exact ⟨⟨reduce_sortedR v v' hv hs.1, r1⟩, by simp [r2]⟩
end

mutual
theorem clean_of_reduced : ∀ (v : PV), Reduced v = true → Clean v = true
  | .lit _, _ => rfl
  | .var _ _, _ => rfl
  | .dflt, _ => rfl
  | .fk _, h => by simp [Reduced] at h
  | .ranges _ _ bs, h => by
    simp only [Reduced] at h
    simp only [Clean]
    exact cleanB_of_reduced bs h
  | .comp _ inner, h => by
    simp only [Reduced] at h
    simp only [Clean]
    exact clean_of_reduced inner h
  | .bloc items, h => by
    simp only [Reduced, Bool.and_eq_true] at h
    simp only [Clean]
    exact cleanL_of_reduced items h.2
  | .subkeys none, h => by simp [Reduced] at h
  | .subkeys (some (.mk _ _ keys _ _)), h => by
    simp only [Reduced] at h
    simp only [Clean]
    exact cleanK_of_reduced keys h
  | .plurals _ _ other forms, h => by
    simp only [Reduced, Bool.and_eq_true] at h
    simp only [Clean, Bool.and_eq_true]
    exact ⟨clean_of_reduced other h.1, cleanF_of_reduced forms h.2⟩
theorem cleanL_of_reduced : ∀ (xs : List PV), ReducedL xs = true → CleanL xs = true
  | [], _ => rfl
  | x :: xs, h => by
    simp only [ReducedL, Bool.and_eq_true] at h
    simp only [CleanL, Bool.and_eq_true]
    exact ⟨clean_of_reduced x h.1, cleanL_of_reduced xs h.2⟩
theorem cleanB_of_reduced : ∀ (xs : List (Range × PV)), ReducedB xs = true → CleanB xs = true
  | [], _ => rfl
  | (_, x) :: xs, h => by
    simp only [ReducedB, Bool.and_eq_true] at h
    simp only [CleanB, Bool.and_eq_true]
    exact ⟨clean_of_reduced x h.1, cleanB_of_reduced xs h.2⟩
theorem cleanF_of_reduced : ∀ (xs : List (Form × PV)), ReducedF xs = true → CleanF xs = true
  | [], _ => rfl
  | (_, x) :: xs, h => by
    simp only [ReducedF, Bool.and_eq_true] at h
    simp only [CleanF, Bool.and_eq_true]
    exact ⟨clean_of_reduced x h.1, cleanF_of_reduced xs h.2⟩
theorem cleanK_of_reduced : ∀ (xs : List (Str × PV)), ReducedK xs = true → CleanK xs = true
  | [], _ => rfl
  | (_, x) :: xs, h => by
    simp only [ReducedK, Bool.and_eq_true] at h
    simp only [CleanK, Bool.and_eq_true]
    exact ⟨clean_of_reduced x h.1, cleanK_of_reduced xs h.2⟩
end

mutual
theorem resolved_of_reduced : ∀ (v : PV), Reduced v = true → Occ.resolved v = true
  | .lit _, _ => rfl
  | .var _ _, _ => rfl
  | .dflt, _ => rfl
  | .fk _, h => by simp [Reduced] at h
  | .ranges _ _ bs, h => by
    simp only [Reduced] at h
    simp only [Occ.resolved]
    exact resolvedB_of_reduced bs h
  | .comp _ inner, h => by
    simp only [Reduced] at h
    simp only [Occ.resolved]
    exact resolved_of_reduced inner h
  | .bloc items, h => by
    simp only [Reduced, Bool.and_eq_true] at h
    simp only [Occ.resolved]
    exact resolvedL_of_reduced items h.2
  | .subkeys _, _ => rfl
  | .plurals _ _ other forms, h => by
    simp only [Reduced, Bool.and_eq_true] at h
    simp only [Occ.resolved, Bool.and_eq_true]
    exact ⟨resolvedF_of_reduced forms h.2, resolved_of_reduced other h.1⟩
theorem resolvedL_of_reduced : ∀ (xs : List PV), ReducedL xs = true → Occ.resolvedL xs = true
  | [], _ => rfl
  | x :: xs, h => by
    simp only [ReducedL, Bool.and_eq_true] at h
    simp only [Occ.resolvedL, Bool.and_eq_true]
    exact ⟨resolved_of_reduced x h.1, resolvedL_of_reduced xs h.2⟩
theorem resolvedB_of_reduced : ∀ (xs : List (Range × PV)), ReducedB xs = true → Occ.resolvedB xs = true
  | [], _ => rfl
  | (_, x) :: xs, h => by
    simp only [ReducedB, Bool.and_eq_true] at h
    simp only [Occ.resolvedB, Bool.and_eq_true]
    exact ⟨resolved_of_reduced x h.1, resolvedB_of_reduced xs h.2⟩
theorem resolvedF_of_reduced : ∀ (xs : List (Form × PV)), ReducedF xs = true → Occ.resolvedF xs = true
  | [], _ => rfl
  | (_, x) :: xs, h => by
    simp only [ReducedF, Bool.and_eq_true] at h
    simp only [Occ.resolvedF, Bool.and_eq_true]
    exact ⟨resolved_of_reduced x h.1, resolvedF_of_reduced xs h.2⟩
end

/-! ### `index_strings` keeps "no unresolved foreign key"; `get_keys_inner` then panics only for fuel -/

section
variable (f : PV → List Str → PV × List Str) (hf : ∀ v acc, Occ.resolved v = true → Occ.resolved (f v acc).1 = true)
include hf

theorem indexL_resolved : ∀ (items : List PV) (acc : List Str), Occ.resolvedL items = true →
    Occ.resolvedL (indexL f items acc).1 = true
  | [], acc, _ => by simp [indexL, Occ.resolvedL]
  | x :: xs, acc, h => by
    simp only [Occ.resolvedL, Bool.and_eq_true] at h
    simp only [indexL, Occ.resolvedL, Bool.and_eq_true]
    exact ⟨hf x acc h.1, indexL_resolved xs _ h.2⟩

theorem indexP_resolvedB : ∀ (items : List (Range × PV)) (acc : List Str), Occ.resolvedB items = true →
    Occ.resolvedB (indexP f items acc).1 = true
  | [], acc, _ => by simp [indexP, Occ.resolvedB]
  | (k, x) :: xs, acc, h => by
    simp only [Occ.resolvedB, Bool.and_eq_true] at h
    simp only [indexP, Occ.resolvedB, Bool.and_eq_true]
    exact ⟨hf x acc h.1, indexP_resolvedB xs _ h.2⟩

theorem indexP_resolvedF : ∀ (items : List (Form × PV)) (acc : List Str), Occ.resolvedF items = true →
    Occ.resolvedF (indexP f items acc).1 = true
  | [], acc, _ => by simp [indexP, Occ.resolvedF]
  | (k, x) :: xs, acc, h => by
    simp only [Occ.resolvedF, Bool.and_eq_true] at h
    simp only [indexP, Occ.resolvedF, Bool.and_eq_true]
    exact ⟨hf x acc h.1, indexP_resolvedF xs _ h.2⟩
end

theorem indexStrings_resolved : ∀ (fuel : Nat) (v : PV) (acc : List Str), Occ.resolved v = true →
    Occ.resolved (indexStrings fuel v acc).1 = true
  | 0, v, acc, h => by simpa [indexStrings] using h
  | fuel + 1, v, acc, h => by
    rw [indexStrings_succ]
    have ih := indexStrings_resolved fuel
    cases v with
    | lit l => cases l <;> simp [Occ.resolved]
    | comp k inner =>
      simp only [Occ.resolved] at h ⊢
      exact ih inner acc h
    | bloc items =>
      simp only [Occ.resolved] at h ⊢
      exact indexL_resolved _ ih items acc h
    | ranges ck t bs =>
      simp only [Occ.resolved] at h ⊢
      exact indexP_resolvedB _ ih bs acc h
    | plurals r ck other forms =>
      simp only [Occ.resolved, Bool.and_eq_true] at h ⊢
      exact ⟨indexP_resolvedF _ ih forms acc h.1, ih other _ h.2⟩
    | _ => exact h

theorem pushCount_noPanic (K : IKeys) (ty : CountTy) (ck : Str) (p : String) : pushCount K ty ck ≠ .panic p :=
  Keys.step_noPanic K (.count ck ty) p

theorem goL_np (fuel : Nat)
    (ih : ∀ v k top s, Occ.resolved v = true → getKeysInner fuel v k top = .panic s → s = "fuel") :
    ∀ xs k s, Occ.resolvedL xs = true → getKeysInner.goL fuel xs k = .panic s → s = "fuel" := by
  intro xs
  induction xs with
  | nil => intro k s _ h; simp [getKeysInner.goL] at h
  | cons x xs ihx =>
    intro k s hr h
    simp only [Occ.resolvedL, Bool.and_eq_true] at hr
    rw [getKeysInner.goL] at h
    cases hx : getKeysInner fuel x k false with
    | ok k1 => rw [hx] at h; exact ihx k1 s hr.2 h
    | err e => rw [hx] at h; simp at h
    | panic p =>
      rw [hx] at h
      simp at h; subst h
      exact ih _ _ _ _ hr.1 hx

/-- for every fuel: on a value without unresolved foreign key the only panic of `get_keys_inner` is the fuel -/
theorem gki_np : ∀ fuel v k top s, Occ.resolved v = true → getKeysInner fuel v k top = .panic s → s = "fuel" := by
  intro fuel
  induction fuel with
  | zero => intro v k top s _ h; rw [getKeysInner] at h; simp at h; exact h.symm
  | succ fuel ih =>
    intro v k top s hr h
    have ihL := goL_np fuel ih
    cases v with
    | dflt => simp [getKeysInner] at h
    | lit l => simp [getKeysInner] at h; split at h <;> simp at h
    | subkeys l => simp [getKeysInner] at h
    | var key f => simp [getKeysInner] at h
    | comp key inner =>
      simp only [Occ.resolved] at hr
      rw [getKeysInner] at h
      exact ih _ _ _ _ hr h
    | bloc items =>
      simp only [Occ.resolved] at hr
      rw [getKeysInner] at h
      exact ihL _ _ _ hr h
    | fk f =>
      cases f with
      | notSet p a => simp [Occ.resolved] at hr
      | set inner =>
        simp only [Occ.resolved] at hr
        rw [getKeysInner] at h
        exact ih _ _ _ _ hr h
    | ranges ck t bs =>
      simp only [Occ.resolved, Keys.resolvedB_eq] at hr
      rw [getKeysInner] at h
      cases hx : getKeysInner.goL fuel (bs.map (·.2)) k with
      | ok k1 =>
        rw [hx] at h
        simp only at h
        cases hc : pushCount k1.keysMut (.range t) ck with
        | ok K => rw [hc] at h; simp at h
        | err e => rw [hc] at h; simp at h
        | panic p => exact absurd hc (pushCount_noPanic _ _ _ _)
      | err e => rw [hx] at h; simp at h
      | panic p =>
        rw [hx] at h
        simp at h; subst h
        exact ihL _ _ _ hr hx
    | plurals rule ck other forms =>
      simp only [Occ.resolved, Keys.resolvedF_eq, Bool.and_eq_true] at hr
      rw [getKeysInner] at h
      cases hc : pushCount k.keysMut .plural ck with
      | err e => rw [hc] at h; simp at h
      | panic p => exact absurd hc (pushCount_noPanic _ _ _ _)
      | ok K =>
        rw [hc] at h
        simp only at h
        cases hx : getKeysInner.goL fuel (forms.map (·.2)) (.interpol K) with
        | ok k1 =>
          rw [hx] at h
          exact ih _ _ _ _ hr.2 h
        | err e => rw [hx] at h; simp at h
        | panic p =>
          rw [hx] at h
          simp at h; subst h
          exact ihL _ _ _ hr.1 hx

/-! ### the invariant of builder-keys trees -/

mutual
/-- a `Subkeys` node holds at least one locale and its keys are pairwise distinct, at every depth -/
def LvOK : LV → Prop
  | .value _ _ => True
  | .subkeys locales keys => locales ≠ [] ∧ (keys.map Prod.fst).Pairwise (· ≠ ·) ∧ BkiAll keys
def BkiAll : List (Str × LV) → Prop
  | [] => True
  | (_, lv) :: rest => LvOK lv ∧ BkiAll rest
end

/-- builder keys: pairwise distinct key names and `LvOK` nodes -/
def BkiOK (b : BKI) : Prop := (b.map Prod.fst).Pairwise (· ≠ ·) ∧ BkiAll b

theorem BkiAll_append : ∀ (a b : List (Str × LV)), BkiAll (a ++ b) ↔ BkiAll a ∧ BkiAll b
  | [], b => by simp [BkiAll]
  | (k, lv) :: a, b => by simp only [List.cons_append, BkiAll, BkiAll_append a b, and_assoc]

theorem BkiAll_concat (a : List (Str × LV)) (k : Str) (lv : LV) : BkiAll (a ++ [(k, lv)]) ↔ BkiAll a ∧ LvOK lv := by
  rw [BkiAll_append]; simp [BkiAll]

theorem distinct_of_sorted {α : Type} {m : List (Str × α)} (h : Sorted m) : (m.map Prod.fst).Pairwise (· ≠ ·) := by
  unfold Sorted at h
  rw [List.pairwise_map]
  refine h.imp ?_
  intro a b hab e
  rw [e, Keys.strLt_irrefl] at hab
  exact absurd hab (by simp)

theorem cleanK_mem : ∀ {ks : List (Str × PV)}, CleanK ks = true → ∀ {k v}, (k, v) ∈ ks → Clean v = true
  | [], _, k, v, hm => by simp at hm
  | (k0, v0) :: rest, h, k, v, hm => by
    simp only [CleanK, Bool.and_eq_true] at h
    rcases List.mem_cons.mp hm with e | hm
    · cases e; exact h.1
    · exact cleanK_mem h.2 hm

theorem cleanK_dummy (f : Str × PV → Str × PV) (hf : ∀ x, (f x).2 = PV.dflt) :
    ∀ (ks : List (Str × PV)), CleanK (ks.map f) = true
  | [] => rfl
  | x :: rest => by
    have h := hf x
    rw [List.map_cons]
    cases hx : f x with
    | mk a b =>
      rw [hx] at h
      simp only at h
      subst h
      simp only [CleanK, Clean, cleanK_dummy f hf rest, Bool.and_self]

theorem shapeOf'_inl {v : PV} {l : Option Loc} (h : makeKeys.shapeOf' v = .inl l) : v = .subkeys l := by
  cases v <;> simp [makeKeys.shapeOf'] at h
  subst h; rfl

/-! ### the default locale: `makeKeys` / `makeBuilderKeys` -/

/-- what the recursion parameter of `makeKeys` must satisfy -/
def RecMakeNP (recMake : MakeRec) : Prop :=
  ∀ kp loc strs, CleanK loc.keys = true → SortedRTree loc.keys →
    (∀ s, recMake kp loc strs = .panic s → s = "fuel") ∧
    (∀ l' b s', recMake kp loc strs = .ok (l', b, s') → BkiOK b)

theorem makeKeys_np (recMake : MakeRec) (hrec : RecMakeNP recMake) (dflt : Str) (path : KeyPath) :
    ∀ (l accK : List (Str × PV)) (accB : BKI) (strs : List Str),
      CleanK l = true → SortedRK l → BkiAll accB →
      (∀ s, makeKeys recMake dflt path l accK accB strs = .panic s → s = "fuel") ∧
      (∀ ks b s', makeKeys recMake dflt path l accK accB strs = .ok (ks, b, s') → BkiAll b)
  | [], accK, accB, strs, _, _, hb => by
    refine ⟨?_, ?_⟩
    · intro s h; simp [makeKeys] at h
    · intro ks b s' h
      simp only [makeKeys, Res.ok.injEq, Prod.mk.injEq] at h
      obtain ⟨_, rfl, _⟩ := h
      exact hb
  | (k, v) :: rest, accK, accB, strs, hc, hs, hb => by
    simp only [CleanK, Bool.and_eq_true] at hc
    simp only [SortedRK] at hs
    obtain ⟨v2, hv2⟩ := reduce_ok_of_clean v hc.1
    have hred := reduce_reduced v v2 hv2
    have hsr := reduce_sortedR v v2 hv2 hs.1
    have ih := makeKeys_np recMake hrec dflt path rest
    simp only [makeKeys, hv2]
    split
    · -- a group of subkeys
      rename_i sub hsh
      have e := shapeOf'_inl hsh
      subst e
      obtain ⟨n, t, keys, ss, c⟩ := sub
      simp only [Reduced] at hred
      simp only [SortedRV] at hsr
      obtain ⟨r1, r2⟩ := hrec (pushKey path k) (.mk n t keys ss c) strs (cleanK_of_reduced keys hred) hsr
      cases hr : recMake (pushKey path k) (.mk n t keys ss c) strs with
      | err e => simp
      | panic p =>
        simp only [Res.panic.injEq]
        refine ⟨fun s hs => ?_, fun _ _ _ h => by simp at h⟩
        subst hs; exact r1 _ hr
      | ok x =>
        obtain ⟨sub', bki, strs'⟩ := x
        simp only
        have hbk := r2 _ _ _ hr
        exact ih _ _ _ hc.2 hs.2 ((BkiAll_concat _ _ _).2 ⟨hb, by simp only [LvOK]; exact ⟨by simp, hbk.1, hbk.2⟩⟩)
    · rename_i hsh
      have e := shapeOf'_inl hsh
      subst e
      simp [Reduced] at hred
    · simp
    · -- a leaf
      have hres := indexStrings_resolved 1000000 v2 strs (resolved_of_reduced v2 hred)
      cases hg : getKeysInner 1000000 (indexStrings 1000000 v2 strs).1 (.lit .string) true with
      | err e => simp
      | panic p =>
        simp only [Res.panic.injEq]
        refine ⟨fun s hs => ?_, fun _ _ _ h => by simp at h⟩
        subst hs; exact gki_np _ _ _ _ _ hres hg
      | ok iol =>
        simp only
        exact ih _ _ _ hc.2 hs.2 ((BkiAll_concat _ _ _).2 ⟨hb, by simp [LvOK]⟩)

theorem makeBuilderKeys_np (dflt : Str) : ∀ (fuel : Nat), RecMakeNP (makeBuilderKeys dflt fuel)
  | 0 => by
    intro kp loc strs _ _
    exact ⟨fun s h => by simp [makeBuilderKeys] at h; exact h.symm, fun _ _ _ h => by simp [makeBuilderKeys] at h⟩
  | fuel + 1 => by
    intro kp loc strs hc hs
    obtain ⟨m1, m2⟩ := makeKeys_np (makeBuilderKeys dflt fuel) (makeBuilderKeys_np dflt fuel) dflt kp
      loc.keys [] [] strs hc hs.2 (by simp [BkiAll])
    refine ⟨?_, ?_⟩
    · intro s h
      simp only [makeBuilderKeys] at h
      split at h <;> try (simp at h; done)
      rename_i p hp
      simp at h; subst h
      exact m1 _ hp
    · intro l' b s' h
      have hk := (makeBuilderKeys_keys dflt (fuel + 1) kp loc strs l' b s' h).1
      simp only [makeBuilderKeys] at h
      split at h <;> try (simp at h; done)
      rename_i keys' b0 s0 hmk
      simp at h
      obtain ⟨_, rfl, _⟩ := h
      exact ⟨by rw [hk]; exact distinct_of_sorted hs.1, m2 _ _ _ hmk⟩

/-! ### the other locales: `mergeValue` / `mergeKeys` / `mergeLocale` -/

/-- what the recursion parameter of `mergeKeys` must satisfy -/
def RecMergeNP (recMerge : MergeRec) : Prop :=
  ∀ kp loc bkeys st, CleanK loc.keys = true → BkiOK bkeys →
    (∀ s, recMerge kp loc bkeys st = .panic s → s = "fuel") ∧
    (∀ l' b' st', recMerge kp loc bkeys st = .ok (l', b', st') → BkiOK b')

theorem shapeOf_other_eq {cur v : PV} (h : shapeOf cur = .other v) : v = cur := by
  cases cur with
  | subkeys l => cases l <;> simp [shapeOf] at h
  | _ => simp [shapeOf] at h <;> exact h.symm

theorem shapeOf_subNone {cur : PV} (h : shapeOf cur = .subNone) : cur = .subkeys none := by
  cases cur with
  | subkeys l => cases l <;> simp [shapeOf] at h; rfl
  | _ => simp [shapeOf] at h

theorem mergeValue_np (recMerge : MergeRec) (hrec : RecMergeNP recMerge) (top : Str) (dto : DefaultTo) (kp : KeyPath)
    (cur : PV) (lv : LV) (st : St) (hred : Reduced cur = true) (hlv : LvOK lv) :
    (∀ s, mergeValue recMerge top dto kp cur lv st = .panic s → s = "fuel") ∧
    (∀ v' lv' st', mergeValue recMerge top dto kp cur lv st = .ok (v', lv', st') → LvOK lv') := by
  unfold mergeValue
  cases lv with
  | subkeys locales bkeys =>
    simp only [LvOK] at hlv
    obtain ⟨hl, hd, ha⟩ := hlv
    simp only
    split
    · -- the key is absent / explicit default: the dummy locale
      cases locales with
      | nil => exact absurd rfl hl
      | cons dl ls =>
        simp only [List.head?_cons]
        split
        · simp
        · rename_i p hp
          simp only [Res.panic.injEq]
          refine ⟨fun s hs => ?_, fun _ _ _ h => by simp at h⟩
          subst hs
          refine (hrec _ _ _ _ ?_ ⟨hd, ha⟩).1 _ hp
          exact cleanK_dummy _ (fun ⟨_, _⟩ => rfl) _
        · rename_i d' b' st1 hp
          have hb : BkiOK b' := by
            refine (hrec _ _ _ _ ?_ ⟨hd, ha⟩).2 _ _ _ hp
            exact cleanK_dummy _ (fun ⟨_, _⟩ => rfl) _
          refine ⟨fun s h => by simp at h, fun v' lv' st' h => ?_⟩
          simp at h
          obtain ⟨_, rfl, _⟩ := h
          simp only [LvOK]
          exact ⟨by simp, hb.1, hb.2⟩
    · rename_i loc hsh
      have e := shapeOf_subSome hsh
      subst e
      obtain ⟨n, t, keys, ss, c⟩ := loc
      simp only [Reduced] at hred
      obtain ⟨r1, r2⟩ := hrec kp (.mk n t keys ss c) bkeys st (cleanK_of_reduced keys hred) ⟨hd, ha⟩
      split
      · simp
      · rename_i p hp
        simp only [Res.panic.injEq]
        refine ⟨fun s hs => ?_, fun _ _ _ h => by simp at h⟩
        subst hs; exact r1 _ hp
      · rename_i d' b' st1 hp
        have hb := r2 _ _ _ hp
        refine ⟨fun s h => by simp at h, fun v' lv' st' h => ?_⟩
        simp at h
        obtain ⟨_, rfl, _⟩ := h
        simp only [LvOK]
        exact ⟨by simp, hb.1, hb.2⟩
    · rename_i hsh
      have e := shapeOf_subNone hsh
      subst e
      simp [Reduced] at hred
    · simp
  | value iol d =>
    simp only
    split
    · refine ⟨fun s h => by simp at h, fun v' lv' st' h => ?_⟩
      simp at h
      obtain ⟨_, rfl, _⟩ := h
      simp [LvOK]
    · split
      · refine ⟨fun s h => by simp at h, fun v' lv' st' h => ?_⟩
        simp at h
        obtain ⟨_, rfl, _⟩ := h
        simp [LvOK]
      · split <;>
        · refine ⟨fun s h => by simp at h, fun v' lv' st' h => ?_⟩
          simp at h
          obtain ⟨_, rfl, _⟩ := h
          simp [LvOK]
    · rename_i v hsh
      have e := shapeOf_other_eq hsh
      subst e
      have hres := indexStrings_resolved 1000000 v st.strings (resolved_of_reduced v hred)
      split
      · simp
      · rename_i p hp
        simp only [Res.panic.injEq]
        refine ⟨fun s hs => ?_, fun _ _ _ h => by simp at h⟩
        subst hs; exact gki_np _ _ _ _ _ hres hp
      · refine ⟨fun s h => by simp at h, fun v' lv' st' h => ?_⟩
        simp at h
        obtain ⟨_, rfl, _⟩ := h
        simp [LvOK]
    · simp

theorem mergeKeys_np (recMerge : MergeRec) (hrec : RecMergeNP recMerge) (top : Str) (dto : DefaultTo) (path : KeyPath) :
    ∀ (bki : BKI) (ks : List (Str × PV)) (accB : BKI) (st : St),
      (bki.map Prod.fst).Pairwise (· ≠ ·) → BkiAll bki →
      (∀ k ∈ bki.map Prod.fst, ∀ v, AMap.get? k ks = some v → Clean v = true) → BkiAll accB →
      (∀ s, mergeKeys recMerge top dto path bki ks accB st = .panic s → s = "fuel") ∧
      (∀ ks' b' st', mergeKeys recMerge top dto path bki ks accB st = .ok (ks', b', st') → BkiAll b')
  | [], ks, accB, st, _, _, _, hb => by
    refine ⟨?_, ?_⟩
    · intro s h; simp [mergeKeys] at h
    · intro ks' b' st' h
      simp only [mergeKeys, Res.ok.injEq, Prod.mk.injEq] at h
      obtain ⟨_, rfl, _⟩ := h
      exact hb
  | (k, lv) :: rest, ks, accB, st, hd, ha, hget, hb => by
    simp only [List.map_cons, List.pairwise_cons] at hd
    simp only [BkiAll] at ha
    have ih := mergeKeys_np recMerge hrec top dto path rest
    -- the value stored back under `k` is never read again: the remaining builder keys differ from `k`
    have hget' : ∀ v', ∀ k' ∈ rest.map Prod.fst, ∀ v, AMap.get? k' (AMap.insert' k v' ks) = some v → Clean v = true := by
      intro v' k' hk' v h
      rw [Keys.get?_insert'] at h
      have hne : k ≠ k' := hd.1 k' hk'
      simp only [beq_iff_eq, hne, if_false] at h
      exact hget k' (List.mem_cons_of_mem _ hk') v h
    -- the rest of the loop body, for whatever value is merged
    have body : ∀ (cur : PV) (st0 : St), Reduced cur = true →
        (∀ s, (match mergeValue recMerge top dto (pushKey path k) cur lv st0 with
          | .err e => .err e
          | .panic p => .panic p
          | .ok (v', lv', st') =>
            mergeKeys recMerge top dto path rest (AMap.insert' k v' ks) (accB ++ [(k, lv')]) st' :
              Res (List (Str × PV) × BKI × St)) = .panic s → s = "fuel") ∧
        (∀ ks' b' st', (match mergeValue recMerge top dto (pushKey path k) cur lv st0 with
          | .err e => .err e
          | .panic p => .panic p
          | .ok (v', lv', st') =>
            mergeKeys recMerge top dto path rest (AMap.insert' k v' ks) (accB ++ [(k, lv')]) st' :
              Res (List (Str × PV) × BKI × St)) = .ok (ks', b', st') →
          BkiAll b') := by
      intro cur st0 hred
      obtain ⟨m1, m2⟩ := mergeValue_np recMerge hrec top dto (pushKey path k) cur lv st0 hred ha.1
      cases hm : mergeValue recMerge top dto (pushKey path k) cur lv st0 with
      | err e => simp
      | panic p =>
        simp only [Res.panic.injEq]
        refine ⟨fun s hs => ?_, fun _ _ _ h => by simp at h⟩
        subst hs; exact m1 _ hm
      | ok x =>
        obtain ⟨v', lv', st'⟩ := x
        simp only
        exact ih _ _ _ hd.2 ha.2 (hget' v') ((BkiAll_concat _ _ _).2 ⟨hb, m2 _ _ _ hm⟩)
    cases hg : AMap.get? k ks with
    | some v =>
      obtain ⟨v2, hv2⟩ := reduce_ok_of_clean v (hget k (List.mem_cons_self) v hg)
      have hred := reduce_reduced v v2 hv2
      simp only [mergeKeys, hg, hv2]
      exact body v2 st hred
    | none =>
      simp only [mergeKeys, hg, reduce]
      exact body .dflt _ rfl

theorem mergeLocale_np (suppress : Bool) (top : Str) (dto : DefaultTo) :
    ∀ (fuel : Nat), RecMergeNP (mergeLocale suppress top dto fuel)
  | 0 => by
    intro kp loc bkeys st _ _
    exact ⟨fun s h => by simp [mergeLocale] at h; exact h.symm, fun _ _ _ h => by simp [mergeLocale] at h⟩
  | fuel + 1 => by
    intro kp loc bkeys st hc hb
    obtain ⟨m1, m2⟩ := mergeKeys_np (mergeLocale suppress top dto fuel) (mergeLocale_np suppress top dto fuel) top dto kp
      bkeys loc.keys [] st hb.1 hb.2 (fun k _ v hg => cleanK_mem hc (Check.get?_mem hg)) (by simp [BkiAll])
    refine ⟨?_, ?_⟩
    · intro s h
      simp only [mergeLocale] at h
      split at h <;> try (simp at h; done)
      rename_i p hp
      simp at h; subst h
      exact m1 _ hp
    · intro l' b' st' h
      have hk := (mergeLocale_keys suppress top dto (fuel + 1) kp loc bkeys st l' b' st' h).1
      simp only [mergeLocale] at h
      split at h <;> try (simp at h; done)
      rename_i keys' b0 s0 hmk
      simp at h
      obtain ⟨_, rfl, _⟩ := h
      exact ⟨by rw [hk]; exact hb.1, m2 _ _ _ hmk⟩

/-! ### `checkLocalesInner` and `checkAll` -/

theorem go_np (suppress : Bool) (fuel : Nat) (inherits : List (Str × Str)) (dl : Loc) (path : KeyPath) :
    ∀ (others acc : List Loc) (bki : BKI) (ws : List Warning) (s : String),
      (∀ l ∈ others, CleanK l.keys = true) → BkiOK bki →
      checkLocalesInner.go suppress fuel inherits dl path others acc bki ws = .panic s → s = "fuel"
  | [], acc, bki, ws, s, _, _, h => by simp [checkLocalesInner.go] at h
  | l :: rest, acc, bki, ws, s, hc, hb, h => by
    simp only [checkLocalesInner.go] at h
    split at h <;> try (simp at h; done)
    · rename_i p hp
      simp at h; subst h
      exact (mergeLocale_np _ _ _ fuel _ _ _ _ (hc l List.mem_cons_self) hb).1 _ hp
    · rename_i l1 bki1 st1 hm
      have hb1 := (mergeLocale_np _ _ _ fuel _ _ _ _ (hc l List.mem_cons_self) hb).2 _ _ _ hm
      exact go_np suppress fuel inherits dl path rest _ _ _ s (fun x hx => hc x (List.mem_cons_of_mem _ hx)) hb1 h

/-- `check_locales_inner`, for every fuel: no panic site other than the fuel is reached -/
theorem checkLocalesInner_np (suppress : Bool) (fuel : Nat) (inherits : List (Str × Str)) (ns : Option Str)
    (locales : List Loc) (ws : List Warning) (s : String) (hne : locales ≠ [])
    (hl : ∀ l ∈ locales, CleanK l.keys = true ∧ SortedRTree l.keys)
    (h : checkLocalesInner suppress fuel inherits ns locales ws = .panic s) : s = "fuel" := by
  cases locales with
  | nil => exact absurd rfl hne
  | cons dl others =>
    simp only [checkLocalesInner] at h
    obtain ⟨c1, c2⟩ := hl dl List.mem_cons_self
    split at h <;> try (simp at h; done)
    · rename_i p hp
      simp at h; subst h
      exact (makeBuilderKeys_np _ fuel _ _ _ c1 c2).1 _ hp
    · rename_i dl' bki strs hmk
      have hb := (makeBuilderKeys_np _ fuel _ _ _ c1 c2).2 _ _ _ hmk
      split at h <;> try (simp at h; done)
      rename_i p hp
      simp at h; subst h
      exact go_np _ _ _ _ _ _ _ _ _ _ (fun x hx => (hl x (List.mem_cons_of_mem _ hx)).1) hb hp

/-- on a world whose every locale list is non-empty, whose values are `Clean` (no unresolved foreign key, no
    emptied subkeys) and whose key maps are sorted (hence duplicate-free) at every depth, the groups below
    resolved foreign keys included, `check_locales` reaches none of its panic sites: the only `panic`
    outcome is the fuel of the model -/
theorem checkAll_no_panic_partial (inp : Pipeline.Input) :
    ∀ (nss : List NS) (ws : List Warning) (s : String),
      (∀ ns ∈ nss, ns.locales ≠ [] ∧ ∀ l ∈ ns.locales, CleanK l.keys = true ∧ SortedRTree l.keys) →
      Pipeline.checkAll inp nss ws = .panic s → s = "fuel"
  | [], ws, s, _, h => by simp [Pipeline.checkAll] at h
  | ns :: rest, ws, s, hh, h => by
    simp only [Pipeline.checkAll] at h
    obtain ⟨h1, h2⟩ := hh ns List.mem_cons_self
    split at h <;> try (simp at h; done)
    · rename_i p hp
      simp at h; subst h
      exact checkLocalesInner_np _ _ _ _ _ _ _ h1 h2 hp
    · rename_i locs bki ws' hok
      split at h <;> try (simp at h; done)
      rename_i p hp
      simp at h; subst h
      exact checkAll_no_panic_partial inp rest ws' _ (fun x hx => hh x (List.mem_cons_of_mem _ hx)) hp

/-- the same in the vocabulary of the pipeline invariants: values `Clean`, key maps sorted (`SortedTree`), and
    every leaf `Flat` (no group of subkeys below a foreign key: the state after `resolve_foreign_keys`) -/
theorem checkAll_no_panic_of_flat (inp : Pipeline.Input) (nss : List NS) (ws : List Warning) (s : String)
    (hh : ∀ ns ∈ nss, ns.locales ≠ [] ∧ ∀ l ∈ ns.locales, CleanK l.keys = true ∧ SortedTree l.keys ∧
      ∃ (P : List Str → PV → Prop) (pre : List Str), (∀ p v, P p v → Flat v = true) ∧ TreeK P pre l.keys)
    (h : Pipeline.checkAll inp nss ws = .panic s) : s = "fuel" := by
  refine checkAll_no_panic_partial inp nss ws s ?_ h
  intro ns hns
  obtain ⟨h1, h2⟩ := hh ns hns
  refine ⟨h1, fun l hl => ?_⟩
  obtain ⟨c, st, P, pre, hP, ht⟩ := h2 l hl
  exact ⟨c, st.1, sortedRK_of_flat P hP pre l.keys ht st.2⟩

/-! ### why `SortedTree` alone is not enough: a counter-example to the statement without `SortedRK`

The default locale stores under `a` a *resolved foreign key* whose value is a group with the key `x`
twice (`SortedV` does not look below a foreign key, `Clean` does not look at key names).  `reduce`
unwraps it, the builder keys below `a` get two nodes `x`; merging the second locale empties its group
`x` at the first node (`subkeys none` is stored back) and reads it again at the second node:
`reduce` panics with "reduce: empty subkeys". -/

def cexGrp (ks : List (Str × PV)) : PV := .subkeys (some (.mk ['e'] ['e'] ks [] 0))
def cexDl : Loc := .mk ['e','n'] ['e','n'] [(['a'], .fk (.set (cexGrp [(['x'], cexGrp []), (['x'], cexGrp [])])))] [] 0
def cexFr : Loc := .mk ['f','r'] ['f','r'] [(['a'], cexGrp [(['x'], cexGrp [])])] [] 0
def cexInp : Pipeline.Input := ⟨⟨['e','n'], [['e','n'], ['f','r']], none, [], []⟩, [], ⟨fun _ _ => none, fun _ _ _ => none⟩, false⟩

theorem cex_hyps : ∀ ns ∈ [(⟨none, [cexDl, cexFr]⟩ : NS)],
    ns.locales ≠ [] ∧ ∀ l ∈ ns.locales, CleanK l.keys = true ∧ SortedTree l.keys := by
  intro ns hns
  simp only [List.mem_singleton] at hns
  subst hns
  refine ⟨by simp, ?_⟩
  intro l hl
  simp only [List.mem_cons, List.not_mem_nil, or_false] at hl
  rcases hl with rfl | rfl
  · refine ⟨rfl, ?_, ?_⟩
    · simp [Sorted, cexDl, Loc.keys]
    · simp [SortedK, SortedV, cexDl, Loc.keys]
  · refine ⟨rfl, ?_, ?_⟩
    · simp [Sorted, cexFr, Loc.keys]
    · simp [SortedK, SortedV, Sorted, cexFr, Loc.keys, cexGrp]

theorem cex_panics : Pipeline.checkAll cexInp [⟨none, [cexDl, cexFr]⟩] [] = .panic "reduce: empty subkeys" := by rfl

/-- the statement with `SortedTree` instead of `SortedRTree` is false -/
theorem checkAll_no_panic_false :
    ¬ (∀ (inp : Pipeline.Input) (nss : List NS) (ws : List Warning) (s : String),
      (∀ ns ∈ nss, ns.locales ≠ [] ∧ ∀ l ∈ ns.locales, CleanK l.keys = true ∧ SortedTree l.keys) →
      Pipeline.checkAll inp nss ws = .panic s → s = "fuel") := by
  intro h
  have := h cexInp _ [] _ cex_hyps cex_panics
  simp at this

/-- the hypotheses of `checkAll_no_panic_partial` are satisfiable by a world with nested groups and a
    resolved foreign key -/
example : ∀ ns ∈ [(⟨none, [cexFr, .mk ['f'] ['f'] [(['a'], cexGrp [(['x'], .fk (.set (.var ['v'] .none)))])] [] 0]⟩ : NS)],
    ns.locales ≠ [] ∧ ∀ l ∈ ns.locales, CleanK l.keys = true ∧ SortedRTree l.keys := by
  intro ns hns
  simp only [List.mem_singleton] at hns
  subst hns
  refine ⟨by simp, ?_⟩
  intro l hl
  simp only [List.mem_cons, List.not_mem_nil, or_false] at hl
  rcases hl with rfl | rfl
  · refine ⟨rfl, ?_, ?_⟩
    · simp [Sorted, cexFr, Loc.keys]
    · simp [SortedRK, SortedRV, Sorted, cexFr, Loc.keys, cexGrp]
  · refine ⟨rfl, ?_, ?_⟩
    · simp [Sorted, Loc.keys]
    · simp [SortedRK, SortedRV, Sorted, Loc.keys, cexGrp]

end I18nVerif.PipeInv
