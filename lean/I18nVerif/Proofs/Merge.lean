import I18nVerif.Proofs.Defaults
import I18nVerif.Spec.Diagnostics
/-!
Helper lemmas for C07 / C03 about `makeKeys`, `makeBuilderKeys`, `mergeValue`, `mergeKeys`,
`mergeLocale`, `checkLocalesInner`.
-/
namespace I18nVerif.AMap

/-- inserting a key on which `p` is false does not change the `p`-part of the list -/
theorem filter_insert' (p : Str → Bool) (k : Str) (v : α) (m : List (Str × α)) (hp : p k = false) :
    (insert' k v m).filter (fun e => p e.1) = m.filter (fun e => p e.1) := by
  induction m with
  | nil => simp [insert', insert, hp]
  | cons e m ih =>
    obtain ⟨k1, v1⟩ := e
    simp only [insert', insert] at ih ⊢
    by_cases h1 : k1 = k
    · subst h1; simp [hp]
    · by_cases h2 : strLt k k1 = true
      · simp [h1, h2, hp]
      · simp [h1, h2, List.filter_cons, ih]

theorem contains_iff {k : Str} {m : List (Str × α)} : contains k m = true ↔ k ∈ m.map Prod.fst := by
  simp [contains, get?_isSome_iff]

end I18nVerif.AMap

namespace I18nVerif.Check
open I18nVerif Spec.Diagnostics

theorem pushKey_eq_child (p : KeyPath) (k : Str) : pushKey p k = child p k := rfl

/-! ### `makeKeys` / `makeBuilderKeys`: the builder keys are the keys of the default locale -/

theorem makeKeys_keys (recMake : MakeRec) (dflt : Str) (path : KeyPath) :
    ∀ (l accK : List (Str × PV)) (accB : BKI) (strs : List Str) ks b s,
      makeKeys recMake dflt path l accK accB strs = .ok (ks, b, s) →
      b.map Prod.fst = accB.map Prod.fst ++ l.map Prod.fst
        ∧ ks.map Prod.fst = accK.map Prod.fst ++ l.map Prod.fst := by
  intro l
  induction l with
  | nil =>
    intro accK accB strs ks b s h
    simp only [makeKeys, Res.ok.injEq, Prod.mk.injEq] at h
    obtain ⟨rfl, rfl, rfl⟩ := h
    simp
  | cons e l ih =>
    obtain ⟨k, v⟩ := e
    intro accK accB strs ks b s h
    simp only [makeKeys] at h
    split at h
    · simp at h
    · simp at h
    · split at h
      · split at h
        · simp at h
        · simp at h
        · have := ih _ _ _ _ _ _ h
          simpa using this
      · simp at h
      · simp at h
      · split at h
        · simp at h
        · simp at h
        · have := ih _ _ _ _ _ _ h
          simpa using this

theorem makeBuilderKeys_keys (dflt : Str) (fuel : Nat) (path : KeyPath) (loc : Loc) (strs : List Str)
    (loc' : Loc) (bki : BKI) (strs' : List Str)
    (h : makeBuilderKeys dflt fuel path loc strs = .ok (loc', bki, strs')) :
    bki.map Prod.fst = loc.keys.map Prod.fst ∧ loc'.keys.map Prod.fst = loc.keys.map Prod.fst
      ∧ loc'.name = loc.name := by
  cases fuel with
  | zero => simp [makeBuilderKeys] at h
  | succ fuel =>
    simp only [makeBuilderKeys] at h
    split at h
    · rename_i keys' b s hk
      simp only [Res.ok.injEq, Prod.mk.injEq] at h
      obtain ⟨rfl, rfl, rfl⟩ := h
      have := makeKeys_keys _ _ _ _ _ _ _ _ _ _ hk
      simpa [Loc.keys, Loc.name] using this
    · simp at h
    · simp at h

/-! ### `SubKeyMissmatch` -/

theorem mergeValue_subkeys_mismatch (recMerge : MergeRec) (top : Str) (dto : DefaultTo) (kp : KeyPath)
    (cur : PV) (locales : List Loc) (bkeys : BKI) (st : St)
    (h1 : cur ≠ .dflt) (h2 : ∀ l, cur ≠ .subkeys l) :
    mergeValue recMerge top dto kp cur (.subkeys locales bkeys) st = .err "SubKeyMissmatch" := by
  cases cur with
  | dflt => exact absurd rfl h1
  | subkeys l => exact absurd rfl (h2 l)
  | _ => simp [mergeValue, shapeOf]

theorem mergeValue_value_mismatch (recMerge : MergeRec) (top : Str) (dto : DefaultTo) (kp : KeyPath)
    (l : Option Loc) (iol : IOL) (d : Defaults) (st : St) :
    mergeValue recMerge top dto kp (.subkeys l) (.value iol d) st = .err "SubKeyMissmatch" := by
  cases l <;> simp [mergeValue, shapeOf]

/-! ### spec lemmas -/

theorem shapeOf_dflt {cur : PV} (h : shapeOf cur = .dflt) : cur = .dflt := by
  cases cur with
  | dflt => rfl
  | subkeys o => cases o <;> simp [shapeOf] at h
  | _ => simp [shapeOf] at h

theorem shapeOf_subSome {cur : PV} {l : Loc} (h : shapeOf cur = .subSome l) : cur = .subkeys (some l) := by
  cases cur with
  | subkeys o =>
    cases o with
    | none => simp [shapeOf] at h
    | some l' => simp only [shapeOf, Shape.subSome.injEq] at h; rw [h]
  | _ => simp [shapeOf] at h

theorem shapeOf_lit {cur : PV} {l : Lit} (h : shapeOf cur = .lit l) : cur = .lit l := by
  cases cur with
  | lit l' => simp only [shapeOf, Shape.lit.injEq] at h; rw [h]
  | subkeys o => cases o <;> simp [shapeOf] at h
  | _ => simp [shapeOf] at h


theorem belowW_dflt (top : Str) (implicit suppress : Bool) (kp : KeyPath) (lv : LV) :
    belowW top implicit suppress kp .dflt lv = [] := by
  cases lv <;> simp [belowW]

theorem belowW_value (top : Str) (implicit suppress : Bool) (kp : KeyPath) (cur : PV) (iol : IOL) (d : Defaults) :
    belowW top implicit suppress kp cur (.value iol d) = [] := by
  simp [belowW]

theorem keysW_insert_notin (top : Str) (implicit suppress : Bool) (path : KeyPath) (k : Str) (v : PV)
    (ks : List (Str × PV)) (rest : List (Str × LV)) (hk : k ∉ rest.map Prod.fst) :
    keysW top implicit suppress path (AMap.insert' k v ks) rest = keysW top implicit suppress path ks rest := by
  induction rest with
  | nil => simp [keysW]
  | cons e rest ih =>
    obtain ⟨k1, lv⟩ := e
    simp only [List.map_cons, List.mem_cons, not_or] at hk
    simp only [keysW]
    rw [AMap.get?_insert_ne (Ne.symm hk.1), ih hk.2]

theorem get?_dummy (k : Str) (ks : List (Str × PV)) (hk : k ∈ ks.map Prod.fst) :
    AMap.get? k (ks.map (fun (x : Str × PV) => (x.fst, PV.dflt))) = some .dflt := by
  induction ks with
  | nil => simp at hk
  | cons e ks ih =>
    obtain ⟨k1, v1⟩ := e
    by_cases h : k1 = k
    · simp [AMap.get?, h]
    · simp only [List.map_cons, List.mem_cons] at hk
      rcases hk with hk | hk
      · exact absurd hk.symm h
      · simp only [List.map_cons, AMap.get?]
        have : (k1 == k) = false := by simpa using h
        simp only [this, Bool.false_eq_true, if_false]
        exact ih hk

theorem map_fst_dummy (ks : List (Str × PV)) :
    (ks.map (fun (x : Str × PV) => (x.fst, PV.dflt))).map Prod.fst = ks.map Prod.fst := by
  induction ks with
  | nil => rfl
  | cons e ks ih => obtain ⟨k1, v1⟩ := e; simp [ih]

theorem keysW_dummy (top : Str) (implicit suppress : Bool) (path : KeyPath) (ks : List (Str × PV))
    (bkeys : List (Str × LV)) (h : ∀ k ∈ bkeys.map Prod.fst, k ∈ ks.map Prod.fst) :
    keysW top implicit suppress path
      (ks.map (fun (x : Str × PV) => (x.fst, PV.dflt))) bkeys = [] := by
  induction bkeys with
  | nil => simp [keysW]
  | cons e rest ih =>
    obtain ⟨k, lv⟩ := e
    simp only [keysW]
    rw [get?_dummy k ks (h k (by simp))]
    simp only [Reduce.reduce, belowW_dflt, List.nil_append]
    exact ih (fun k' hk' => h k' (by simp only [List.map_cons, List.mem_cons]; right; exact hk'))

theorem surplusW_same (top : Str) (suppress : Bool) (path : KeyPath) (ks : List Str) :
    surplusW top suppress path ks ks = [] := by
  unfold surplusW
  split
  · rfl
  · simp only [List.map_eq_nil_iff, List.filter_eq_nil_iff]
    intro a ha
    simp [ha]

theorem localeW_dummy (top : Str) (implicit suppress : Bool) (path : KeyPath) (ks : List (Str × PV))
    (bkeys : List (Str × LV)) (h : ks.map Prod.fst = bkeys.map Prod.fst) :
    localeW top implicit suppress path
      (ks.map (fun (x : Str × PV) => (x.fst, PV.dflt))) bkeys = [] := by
  unfold localeW
  rw [keysW_dummy _ _ _ _ _ _ (by rw [h]; exact fun _ hk => hk), map_fst_dummy, h, surplusW_same]
  rfl

theorem WFL_append (a b : List (Str × LV)) : WFL (a ++ b) ↔ WFL a ∧ WFL b := by
  induction a with
  | nil => simp [WFL]
  | cons e a ih => obtain ⟨k, lv⟩ := e; simp [WFL, ih, and_assoc]

/-! ### what `mergeLocale` one level down has to satisfy -/

def RecOK (top : Str) (implicit suppress : Bool) (recMerge : MergeRec) : Prop :=
  ∀ kp loc bki st loc' bki' st', BKI.WF bki → recMerge kp loc bki st = .ok (loc', bki', st') →
    bki'.map Prod.fst = bki.map Prod.fst ∧ WFL bki'
      ∧ st'.warnings = st.warnings ++ localeW top implicit suppress kp loc.keys bki

theorem mergeValue_spec (top : Str) (dto : DefaultTo) (suppress : Bool) (recMerge : MergeRec)
    (hrec : RecOK top (isImplicit dto) suppress recMerge)
    (kp : KeyPath) (cur : PV) (lv : LV) (st : St) (v' : PV) (lv' : LV) (st' : St)
    (hwf : LV.WF lv) (h : mergeValue recMerge top dto kp cur lv st = .ok (v', lv', st')) :
    LV.WF lv' ∧ st'.warnings = st.warnings ++ belowW top (isImplicit dto) suppress kp cur lv := by
  cases lv with
  | value iol d =>
    rw [belowW_value, List.append_nil]
    simp only [mergeValue] at h
    split at h
    · simp only [Res.ok.injEq, Prod.mk.injEq] at h
      obtain ⟨-, rfl, rfl⟩ := h
      simp [LV.WF]
    · split at h
      · simp only [Res.ok.injEq, Prod.mk.injEq] at h
        obtain ⟨-, rfl, rfl⟩ := h
        simp [LV.WF]
      · split at h
        · simp only [Res.ok.injEq, Prod.mk.injEq] at h
          obtain ⟨-, rfl, rfl⟩ := h
          simp [LV.WF]
        · simp only [Res.ok.injEq, Prod.mk.injEq] at h
          obtain ⟨-, rfl, rfl⟩ := h
          simp [LV.WF]
    · split at h
      · simp at h
      · simp at h
      · simp only [Res.ok.injEq, Prod.mk.injEq] at h
        obtain ⟨-, rfl, rfl⟩ := h
        simp [LV.WF]
    · simp at h
  | subkeys locales bkeys =>
    simp only [LV.WF] at hwf
    obtain ⟨⟨dl, hdl, hdk⟩, hnd, hwfl⟩ := hwf
    have hhead : ∀ x, (locales ++ [x]).head? = some dl := by
      intro x
      cases locales with
      | nil => simp at hdl
      | cons a as => simpa using hdl
    simp only [mergeValue] at h
    split at h
    · -- `Default` against a group: the dummy locale
      rename_i hs
      rw [hdl] at h
      simp only at h
      split at h
      · simp at h
      · simp at h
      · rename_i dummy' bkeys' st1 hr
        simp only [Res.ok.injEq, Prod.mk.injEq] at h
        obtain ⟨-, rfl, rfl⟩ := h
        obtain ⟨hk, hw, hws⟩ := hrec _ _ _ _ _ _ _ ⟨hnd, hwfl⟩ hr
        have hcur : cur = .dflt := shapeOf_dflt hs
        subst hcur
        refine ⟨?_, ?_⟩
        · simp only [LV.WF]
          exact ⟨⟨dl, hhead _, by rw [hk]; exact hdk⟩, by rw [hk]; exact hnd, hw⟩
        · rw [hws, belowW_dflt]
          exact congrArg (st.warnings ++ ·) (localeW_dummy top (isImplicit dto) suppress kp dl.keys bkeys hdk)
    · rename_i loc hs
      split at h
      · simp at h
      · simp at h
      · rename_i loc' bkeys' st1 hr
        simp only [Res.ok.injEq, Prod.mk.injEq] at h
        obtain ⟨-, rfl, rfl⟩ := h
        obtain ⟨hk, hw, hws⟩ := hrec _ _ _ _ _ _ _ ⟨hnd, hwfl⟩ hr
        have hcur : cur = .subkeys (some loc) := shapeOf_subSome hs
        subst hcur
        refine ⟨?_, ?_⟩
        · simp only [LV.WF]
          exact ⟨⟨dl, hhead _, by rw [hk]; exact hdk⟩, by rw [hk]; exact hnd, hw⟩
        · rw [hws]
          simp [belowW, localeW]
    · simp at h
    · simp at h

theorem mergeKeys_spec (top : Str) (dto : DefaultTo) (suppress : Bool) (recMerge : MergeRec)
    (hrec : RecOK top (isImplicit dto) suppress recMerge) (path : KeyPath) :
    ∀ (bki : BKI) (ks : List (Str × PV)) (accB : BKI) (st : St) ks' b' st',
      (bki.map Prod.fst).Nodup → WFL bki →
      mergeKeys recMerge top dto path bki ks accB st = .ok (ks', b', st') →
      b'.map Prod.fst = accB.map Prod.fst ++ bki.map Prod.fst
        ∧ (WFL accB → WFL b')
        ∧ st'.warnings = st.warnings ++ keysW top (isImplicit dto) suppress path ks bki
        ∧ (∀ p : Str → Bool, (∀ k ∈ bki.map Prod.fst, p k = false) →
            ks'.filter (fun e => p e.1) = ks.filter (fun e => p e.1)) := by
  intro bki
  induction bki with
  | nil =>
    intro ks accB st ks' b' st' _ _ h
    simp only [mergeKeys, Res.ok.injEq, Prod.mk.injEq] at h
    obtain ⟨rfl, rfl, rfl⟩ := h
    simp [keysW]
  | cons e rest ih =>
    obtain ⟨k, lv⟩ := e
    intro ks accB st ks' b' st' hnd hwf h
    simp only [List.map_cons, List.nodup_cons] at hnd
    simp only [WFL] at hwf
    -- common tail: after `mergeValue` succeeded
    have tail : ∀ (cur : PV) (st1 : St) (v1 : PV) (lv1 : LV) (st2 : St),
        mergeValue recMerge top dto (pushKey path k) cur lv st1 = .ok (v1, lv1, st2) →
        mergeKeys recMerge top dto path rest (AMap.insert' k v1 ks) (accB ++ [(k, lv1)]) st2 = .ok (ks', b', st') →
        b'.map Prod.fst = accB.map Prod.fst ++ k :: rest.map Prod.fst
          ∧ (WFL accB → WFL b')
          ∧ st'.warnings = st1.warnings ++ belowW top (isImplicit dto) suppress (child path k) cur lv
              ++ keysW top (isImplicit dto) suppress path ks rest
          ∧ (∀ p : Str → Bool, (∀ k' ∈ k :: rest.map Prod.fst, p k' = false) →
              ks'.filter (fun e => p e.1) = ks.filter (fun e => p e.1)) := by
      intro cur st1 v1 lv1 st2 hmv hmk
      obtain ⟨hwf1, hw1⟩ := mergeValue_spec top dto suppress recMerge hrec _ _ _ _ _ _ _ hwf.1 hmv
      obtain ⟨hk2, hwf2, hw2, hf2⟩ := ih _ _ _ _ _ _ hnd.2 hwf.2 hmk
      refine ⟨by simpa using hk2, ?_, ?_, ?_⟩
      · intro ha
        exact hwf2 ((WFL_append _ _).mpr ⟨ha, by simp [WFL, hwf1]⟩)
      · rw [hw2, hw1, keysW_insert_notin _ _ _ _ _ _ _ _ hnd.1, pushKey_eq_child]
      · intro p hp
        rw [hf2 p (fun k' hk' => hp k' (by simp only [List.mem_cons]; right; exact hk'))]
        exact AMap.filter_insert' p k v1 ks (hp k (by simp))
    cases hg : AMap.get? k ks with
    | none =>
      simp only [mergeKeys, hg, Reduce.reduce] at h
      split at h
      · simp at h
      · simp at h
      · rename_i v1 lv1 st2 hmv
        obtain ⟨h1, h2, h3, h4⟩ := tail _ _ _ _ _ hmv h
        refine ⟨by simpa using h1, h2, ?_, by simpa using h4⟩
        rw [h3, belowW_dflt]
        simp only [keysW, hg]
        cases dto <;> simp [isImplicit, pushKey_eq_child]
    | some v =>
      simp only [mergeKeys, hg] at h
      split at h
      · simp at h
      · simp at h
      · rename_i cur hred
        split at h
        · simp at h
        · simp at h
        · rename_i v1 lv1 st2 hmv
          obtain ⟨h1, h2, h3, h4⟩ := tail _ _ _ _ _ hmv h
          refine ⟨by simpa using h1, h2, ?_, by simpa using h4⟩
          rw [h3]
          simp only [keysW, hg, hred, List.append_assoc]

theorem surplus_list_eq (top : Str) (kp : KeyPath) (bki : BKI) (l : List (Str × PV)) :
    (l.filter (fun x => !AMap.contains x.fst bki)).map (fun x => Warning.surplus top (pushKey kp x.fst))
      = ((l.map Prod.fst).filter (fun k => !(bki.map Prod.fst).contains k)).map
          (fun k => Warning.surplus top (child kp k)) := by
  induction l with
  | nil => rfl
  | cons e l ih =>
    simp only [List.filter_cons, List.map_cons]
    cases hc : AMap.contains e.1 bki with
    | true =>
      have hm : (bki.map Prod.fst).contains e.1 = true := by
        simpa using AMap.contains_iff.mp hc
      simp only [hm, Bool.not_true, Bool.false_eq_true, if_false]
      exact ih
    | false =>
      have hm : (bki.map Prod.fst).contains e.1 = false := by
        cases h : (bki.map Prod.fst).contains e.1 with
        | false => rfl
        | true =>
          have : e.1 ∈ bki.map Prod.fst := by simpa using h
          rw [AMap.contains_iff.mpr this] at hc; cases hc
      simp only [hm, Bool.not_false, if_true, List.map_cons]
      rw [ih]; rfl

/-- `mergeLocale` for every fuel: key set and representation invariants preserved, warnings exact -/
theorem mergeLocale_spec (suppress : Bool) (top : Str) (dto : DefaultTo) :
    ∀ fuel, RecOK top (isImplicit dto) suppress (mergeLocale suppress top dto fuel) := by
  intro fuel
  induction fuel with
  | zero =>
    intro kp loc bki st loc' bki' st' _ h
    simp [mergeLocale] at h
  | succ fuel ih =>
    intro kp loc bki st loc' bki' st' hwf h
    simp only [mergeLocale] at h
    split at h
    · simp at h
    · simp at h
    · rename_i keys' b' st1 hmk
      simp only [Res.ok.injEq, Prod.mk.injEq] at h
      obtain ⟨-, rfl, rfl⟩ := h
      obtain ⟨h1, h2, h3, h4⟩ := mergeKeys_spec top dto suppress _ ih kp bki loc.keys [] st _ _ _ hwf.1 hwf.2 hmk
      refine ⟨by simpa using h1, h2 (by simp [WFL]), ?_⟩
      simp only [h3, localeW, List.append_assoc, List.append_cancel_left_eq]
      have h4' := h4 (fun k => !AMap.contains k bki) (by
        intro k hk
        simp [AMap.contains_iff.mpr hk])
      unfold surplusW
      cases suppress with
      | true => simp
      | false =>
        simp only [Bool.false_eq_true, if_false]
        rw [← surplus_list_eq, ← h4']

/-! ### flat key sets -/

theorem WFL_flat (bki : BKI) (hf : isFlat bki) : WFL bki := by
  induction bki with
  | nil => simp [WFL]
  | cons e rest ih =>
    obtain ⟨k, lv⟩ := e
    obtain ⟨iol, d, he⟩ := hf (k, lv) (by simp)
    simp only at he
    subst he
    simp only [WFL, LV.WF, true_and]
    exact ih (fun e he => hf e (by simp [he]))

theorem keysW_flat (top : Str) (implicit suppress : Bool) (path : KeyPath) (ks : List (Str × PV))
    (bki : BKI) (hf : isFlat bki) :
    keysW top implicit suppress path ks bki
      = missingFlat top implicit path (ks.map Prod.fst) (bki.map Prod.fst) := by
  induction bki with
  | nil => simp [keysW, missingFlat]
  | cons e rest ih =>
    obtain ⟨k, lv⟩ := e
    obtain ⟨iol, d, he⟩ := hf (k, lv) (by simp)
    simp only at he
    subst he
    have ih' := ih (fun e he => hf e (by simp [he]))
    simp only [keysW, ih']
    unfold missingFlat
    cases hg : AMap.get? k ks with
    | none =>
      have hm : k ∉ ks.map Prod.fst := AMap.get?_eq_none_iff.mp hg
      cases implicit <;> simp [hm]
    | some v =>
      have hm : k ∈ ks.map Prod.fst := AMap.mem_of_get?_eq_some hg
      cases implicit <;> simp [hm, belowW] <;> split <;> rfl

/-! ### key set of the builder keys is never changed by a merge (no hypotheses at all) -/

theorem mergeKeys_keys (recMerge : MergeRec) (top : Str) (dto : DefaultTo) (path : KeyPath) :
    ∀ (bki : BKI) (ks : List (Str × PV)) (accB : BKI) (st : St) ks' b' st',
      mergeKeys recMerge top dto path bki ks accB st = .ok (ks', b', st') →
      b'.map Prod.fst = accB.map Prod.fst ++ bki.map Prod.fst := by
  intro bki
  induction bki with
  | nil =>
    intro ks accB st ks' b' st' h
    simp only [mergeKeys, Res.ok.injEq, Prod.mk.injEq] at h
    obtain ⟨rfl, rfl, rfl⟩ := h
    simp
  | cons e rest ih =>
    obtain ⟨k, lv⟩ := e
    intro ks accB st ks' b' st' h
    simp only [mergeKeys] at h
    split at h
    · simp at h
    · simp at h
    · split at h
      · simp at h
      · simp at h
      · have := ih _ _ _ _ _ _ h
        simpa using this

theorem mergeLocale_keys (suppress : Bool) (top : Str) (dto : DefaultTo) (fuel : Nat) (path : KeyPath)
    (loc : Loc) (bki : BKI) (st : St) (loc' : Loc) (bki' : BKI) (st' : St)
    (h : mergeLocale suppress top dto fuel path loc bki st = .ok (loc', bki', st')) :
    bki'.map Prod.fst = bki.map Prod.fst ∧ loc'.name = loc.name := by
  cases fuel with
  | zero => simp [mergeLocale] at h
  | succ fuel =>
    simp only [mergeLocale] at h
    split at h
    · simp at h
    · simp at h
    · rename_i keys' b' st1 hmk
      simp only [Res.ok.injEq, Prod.mk.injEq] at h
      obtain ⟨rfl, rfl, rfl⟩ := h
      have := mergeKeys_keys _ _ _ _ _ _ _ _ _ _ _ hmk
      exact ⟨by simpa using this, rfl⟩

/-! ### C03: which leaves get a `top ↦ default_to` entry -/
open Spec.Fallback

/-- leaf below a builder key -/
def leafLV : LV → List Str → Option (IOL × Defaults)
  | .value iol d, [] => some (iol, d)
  | .value _ _, _ :: _ => none
  | .subkeys _ keys, p => leafAt keys p

/-- the (reduced) value does not define the path below it -/
def undefPV : PV → List Str → Bool
  | .dflt, _ => true
  | .subkeys (some l), p => undefinedAtPath l.keys p
  | _, _ => false

theorem leafAt_cons (bki : BKI) (k : Str) (rest : List Str) :
    leafAt bki (k :: rest) = match AMap.get? k bki with
      | some lv => leafLV lv rest
      | none => none := by
  simp only [leafAt]
  cases AMap.get? k bki with
  | none => rfl
  | some lv =>
    cases lv with
    | value iol d => cases rest <;> rfl
    | subkeys l keys => rfl

theorem undefinedAtPath_cons (keys : List (Str × PV)) (k : Str) (rest : List Str) :
    undefinedAtPath keys (k :: rest) = match AMap.get? k keys with
      | none => true
      | some v => match Reduce.reduce v with
        | .ok cur => undefPV cur rest
        | _ => false := by
  simp only [undefinedAtPath]
  cases AMap.get? k keys with
  | none => rfl
  | some v =>
    simp only
    cases Reduce.reduce v with
    | ok cur =>
      cases cur with
      | subkeys l => cases l <;> rfl
      | _ => rfl
    | err e => rfl
    | panic e => rfl

theorem shapeOf_other {cur v : PV} (h : shapeOf cur = .other v) : undefPV cur [] = false := by
  cases cur with
  | dflt => simp [shapeOf] at h
  | subkeys o => cases o <;> simp [shapeOf] at h
  | _ => rfl

/-- how the leaves below `lv` change: `top ↦ key` is added exactly where `undef` says so -/
def LeafRel (top key : Str) (undef : List Str → Bool) (lv lv' : LV) : Prop :=
  ∀ p iol d, leafLV lv p = some (iol, d) →
    ∃ iol' d', leafLV lv' p = some (iol', d') ∧ d'.dflt = d.dflt
      ∧ d'.mapping = if undef p then AMap.insert' top key d.mapping else d.mapping

def RecLeaf (top key : Str) (recMerge : MergeRec) : Prop :=
  ∀ kp loc bki st loc' bki' st', BKI.WF bki → recMerge kp loc bki st = .ok (loc', bki', st') →
    ∀ p iol d, leafAt bki p = some (iol, d) →
      ∃ iol' d', leafAt bki' p = some (iol', d') ∧ d'.dflt = d.dflt
        ∧ d'.mapping = if undefinedAtPath loc.keys p then AMap.insert' top key d.mapping else d.mapping

theorem undefinedAtPath_dummy (ks : List (Str × PV)) (bkeys : BKI) (h : ks.map Prod.fst = bkeys.map Prod.fst)
    (p : List Str) (r : IOL × Defaults) (hl : leafAt bkeys p = some r) :
    undefinedAtPath (ks.map (fun (x : Str × PV) => (x.fst, PV.dflt))) p = true := by
  cases p with
  | nil => simp [leafAt] at hl
  | cons k rest =>
    rw [leafAt_cons] at hl
    cases hg : AMap.get? k bkeys with
    | none => simp [hg] at hl
    | some lv =>
      have hk : k ∈ ks.map Prod.fst := by rw [h]; exact AMap.mem_of_get?_eq_some hg
      rw [undefinedAtPath_cons, get?_dummy k ks hk]
      simp [Reduce.reduce, undefPV]

theorem mergeValue_leaf (top : Str) (dto : DefaultTo) (recMerge : MergeRec)
    (hrec : RecLeaf top dto.key recMerge)
    (kp : KeyPath) (cur : PV) (lv : LV) (st : St) (v' : PV) (lv' : LV) (st' : St)
    (hwf : LV.WF lv) (h : mergeValue recMerge top dto kp cur lv st = .ok (v', lv', st')) :
    LeafRel top dto.key (undefPV cur) lv lv' := by
  intro p iol0 d0 hleaf
  cases lv with
  | value iol d =>
    cases p with
    | cons _ _ => simp [leafLV] at hleaf
    | nil =>
      simp only [leafLV, Option.some.injEq, Prod.mk.injEq] at hleaf
      obtain ⟨rfl, rfl⟩ := hleaf
      simp only [mergeValue] at h
      split at h
      · rename_i hs
        have hcur : cur = .dflt := shapeOf_dflt hs
        subst hcur
        simp only [Res.ok.injEq, Prod.mk.injEq] at h
        obtain ⟨-, rfl, -⟩ := h
        exact ⟨_, _, rfl, rfl, by simp [undefPV]⟩
      · rename_i l hs
        have hcur : cur = .lit l := shapeOf_lit hs
        subst hcur
        split at h
        · simp only [Res.ok.injEq, Prod.mk.injEq] at h
          obtain ⟨-, rfl, -⟩ := h
          exact ⟨_, _, rfl, rfl, by simp [undefPV]⟩
        · split at h
          · simp only [Res.ok.injEq, Prod.mk.injEq] at h
            obtain ⟨-, rfl, -⟩ := h
            exact ⟨_, _, rfl, rfl, by simp [undefPV]⟩
          · simp only [Res.ok.injEq, Prod.mk.injEq] at h
            obtain ⟨-, rfl, -⟩ := h
            exact ⟨_, _, rfl, rfl, by simp [undefPV]⟩
      · rename_i v hs
        have hcur : undefPV cur [] = false := shapeOf_other hs
        split at h
        · simp at h
        · simp at h
        · simp only [Res.ok.injEq, Prod.mk.injEq] at h
          obtain ⟨-, rfl, -⟩ := h
          exact ⟨_, _, rfl, rfl, by simp [hcur]⟩
      · simp at h
  | subkeys locales bkeys =>
    simp only [leafLV] at hleaf
    simp only [LV.WF] at hwf
    obtain ⟨⟨dl, hdl, hdk⟩, hnd, hwfl⟩ := hwf
    simp only [mergeValue] at h
    split at h
    · rename_i hs
      rw [hdl] at h
      simp only at h
      split at h
      · simp at h
      · simp at h
      · rename_i dummy' bkeys' st1 hr
        simp only [Res.ok.injEq, Prod.mk.injEq] at h
        obtain ⟨-, rfl, -⟩ := h
        have hcur : cur = .dflt := shapeOf_dflt hs
        subst hcur
        obtain ⟨iol', d', h1, h2, h3⟩ := hrec _ _ _ _ _ _ _ ⟨hnd, hwfl⟩ hr p iol0 d0 hleaf
        have hu := undefinedAtPath_dummy dl.keys bkeys hdk p _ hleaf
        refine ⟨iol', d', by simpa [leafLV] using h1, h2, ?_⟩
        rw [h3]
        have : (Loc.mk dl.name top (dl.keys.map (fun (x : Str × PV) => (x.fst, PV.dflt))) [] 0).keys
            = dl.keys.map (fun (x : Str × PV) => (x.fst, PV.dflt)) := rfl
        rw [this, hu]
        simp [undefPV]
    · rename_i loc hs
      split at h
      · simp at h
      · simp at h
      · rename_i loc' bkeys' st1 hr
        simp only [Res.ok.injEq, Prod.mk.injEq] at h
        obtain ⟨-, rfl, -⟩ := h
        have hcur : cur = .subkeys (some loc) := shapeOf_subSome hs
        subst hcur
        obtain ⟨iol', d', h1, h2, h3⟩ := hrec _ _ _ _ _ _ _ ⟨hnd, hwfl⟩ hr p iol0 d0 hleaf
        exact ⟨iol', d', by simpa [leafLV] using h1, h2, by rw [h3]; rfl⟩
    · simp at h
    · simp at h

theorem mergeKeys_leaf (top : Str) (dto : DefaultTo) (recMerge : MergeRec)
    (hrec : RecLeaf top dto.key recMerge) (path : KeyPath) :
    ∀ (bki : BKI) (ks : List (Str × PV)) (accB : BKI) (st : St) ks' b' st',
      WFL bki → mergeKeys recMerge top dto path bki ks accB st = .ok (ks', b', st') →
      ∃ new, b' = accB ++ new ∧ ∀ k lv, AMap.get? k bki = some lv →
        ∃ lv', AMap.get? k new = some lv'
          ∧ LeafRel top dto.key (fun rest => undefinedAtPath ks (k :: rest)) lv lv' := by
  intro bki
  induction bki with
  | nil =>
    intro ks accB st ks' b' st' _ h
    simp only [mergeKeys, Res.ok.injEq, Prod.mk.injEq] at h
    obtain ⟨rfl, rfl, rfl⟩ := h
    exact ⟨[], by simp, by simp [AMap.get?]⟩
  | cons e rest ih =>
    obtain ⟨k0, lv0⟩ := e
    intro ks accB st ks' b' st' hwf h
    simp only [WFL] at hwf
    have tail : ∀ (cur : PV) (st1 : St) (v1 : PV) (lv1 : LV) (st2 : St),
        (∀ r, undefinedAtPath ks (k0 :: r) = undefPV cur r) →
        mergeValue recMerge top dto (pushKey path k0) cur lv0 st1 = .ok (v1, lv1, st2) →
        mergeKeys recMerge top dto path rest (AMap.insert' k0 v1 ks) (accB ++ [(k0, lv1)]) st2 = .ok (ks', b', st') →
        ∃ new, b' = accB ++ new ∧ ∀ k lv, AMap.get? k ((k0, lv0) :: rest) = some lv →
          ∃ lv', AMap.get? k new = some lv'
            ∧ LeafRel top dto.key (fun rest => undefinedAtPath ks (k :: rest)) lv lv' := by
      intro cur st1 v1 lv1 st2 hu hmv hmk
      have hl := mergeValue_leaf top dto recMerge hrec _ _ _ _ _ _ _ hwf.1 hmv
      obtain ⟨new', hb, hall⟩ := ih _ _ _ _ _ _ hwf.2 hmk
      refine ⟨(k0, lv1) :: new', by simp [hb], ?_⟩
      intro k lv hg
      rw [AMap.get?_cons] at hg
      by_cases hk : k0 = k
      · subst hk
        simp only [if_true, Option.some.injEq] at hg
        subst hg
        refine ⟨lv1, by simp [AMap.get?], ?_⟩
        have : (fun rest => undefinedAtPath ks (k0 :: rest)) = undefPV cur := funext hu
        rw [this]; exact hl
      · simp only [hk, if_false] at hg
        obtain ⟨lv', hg', hrel⟩ := hall k lv hg
        refine ⟨lv', by simp [AMap.get?, hk, hg'], ?_⟩
        have : (fun r => undefinedAtPath (AMap.insert' k0 v1 ks) (k :: r))
            = (fun r => undefinedAtPath ks (k :: r)) := by
          funext r
          rw [undefinedAtPath_cons, undefinedAtPath_cons, AMap.get?_insert_ne (Ne.symm hk)]
        rw [← this]; exact hrel
    cases hg : AMap.get? k0 ks with
    | none =>
      simp only [mergeKeys, hg, Reduce.reduce] at h
      split at h
      · simp at h
      · simp at h
      · rename_i v1 lv1 st2 hmv
        exact tail _ _ _ _ _ (by intro r; rw [undefinedAtPath_cons, hg]; simp [undefPV]) hmv h
    | some v =>
      simp only [mergeKeys, hg] at h
      split at h
      · simp at h
      · simp at h
      · rename_i cur hred
        split at h
        · simp at h
        · simp at h
        · rename_i v1 lv1 st2 hmv
          exact tail _ _ _ _ _ (by intro r; rw [undefinedAtPath_cons, hg]; simp [hred]) hmv h

theorem mergeLocale_leaf (suppress : Bool) (top : Str) (dto : DefaultTo) :
    ∀ fuel, RecLeaf top dto.key (mergeLocale suppress top dto fuel) := by
  intro fuel
  induction fuel with
  | zero =>
    intro kp loc bki st loc' bki' st' _ h
    simp [mergeLocale] at h
  | succ fuel ih =>
    intro kp loc bki st loc' bki' st' hwf h p iol d hleaf
    simp only [mergeLocale] at h
    split at h
    · simp at h
    · simp at h
    · rename_i keys' b' st1 hmk
      simp only [Res.ok.injEq, Prod.mk.injEq] at h
      obtain ⟨-, rfl, -⟩ := h
      obtain ⟨new, hb, hall⟩ := mergeKeys_leaf top dto _ ih kp bki loc.keys [] st _ _ _ hwf.2 hmk
      simp only [List.nil_append] at hb
      subst hb
      cases p with
      | nil => simp [leafAt] at hleaf
      | cons k rest =>
        rw [leafAt_cons] at hleaf
        cases hg : AMap.get? k bki with
        | none => simp [hg] at hleaf
        | some lv =>
          simp only [hg] at hleaf
          obtain ⟨lv', hg', hrel⟩ := hall k lv hg
          obtain ⟨iol', d', h1, h2, h3⟩ := hrel rest iol d hleaf
          exact ⟨iol', d', by rw [leafAt_cons, hg']; exact h1, h2, h3⟩

/-! ### `makeBuilderKeys` establishes the representation invariants; every leaf starts with an empty mapping -/

theorem get?_mem {k : Str} {v : α} {m : List (Str × α)} (h : AMap.get? k m = some v) : (k, v) ∈ m := by
  induction m with
  | nil => simp [AMap.get?] at h
  | cons e m ih =>
    obtain ⟨k1, v1⟩ := e
    rw [AMap.get?_cons] at h
    by_cases hk : k1 = k
    · simp only [hk, if_true, Option.some.injEq] at h
      subst hk; subst h; simp
    · simp only [hk, if_false] at h
      simp [ih h]

def FreshLV (dflt : Str) (lv : LV) : Prop := ∀ p iol d, leafLV lv p = some (iol, d) → d = ⟨dflt, []⟩

def RecMakeOK (dflt : Str) (P : Loc → Prop) (recMake : MakeRec) : Prop :=
  ∀ path sub strs sub' bki strs', recMake path sub strs = .ok (sub', bki, strs') → P sub →
    sub'.keys.map Prod.fst = bki.map Prod.fst ∧ BKI.WF bki
      ∧ ∀ p iol d, leafAt bki p = some (iol, d) → d = ⟨dflt, []⟩

theorem leafAt_fresh_of_all (dflt : Str) (bki : BKI) (h : ∀ e ∈ bki, FreshLV dflt e.2) :
    ∀ p iol d, leafAt bki p = some (iol, d) → d = ⟨dflt, []⟩ := by
  intro p iol d hl
  cases p with
  | nil => simp [leafAt] at hl
  | cons k rest =>
    rw [leafAt_cons] at hl
    cases hg : AMap.get? k bki with
    | none => simp [hg] at hl
    | some lv =>
      simp only [hg] at hl
      exact h (k, lv) (get?_mem hg) rest iol d hl

theorem makeKeys_spec (recMake : MakeRec) (dflt : Str) (P : Loc → Prop) (hrec : RecMakeOK dflt P recMake)
    (path : KeyPath) :
    ∀ (l accK : List (Str × PV)) (accB : BKI) (strs : List Str) ks b s,
      makeKeys recMake dflt path l accK accB strs = .ok (ks, b, s) →
      (∀ k v sub, (k, v) ∈ l → Reduce.reduce v = .ok (.subkeys (some sub)) → P sub) →
      ∃ newB, b = accB ++ newB ∧ WFL newB ∧ ∀ e ∈ newB, FreshLV dflt e.2 := by
  intro l
  induction l with
  | nil =>
    intro accK accB strs ks b s h _
    simp only [makeKeys, Res.ok.injEq, Prod.mk.injEq] at h
    obtain ⟨rfl, rfl, rfl⟩ := h
    exact ⟨[], by simp, by simp [WFL], by simp⟩
  | cons e l ih =>
    obtain ⟨k, v⟩ := e
    intro accK accB strs ks b s h hP
    have hP' : ∀ k v sub, (k, v) ∈ l → Reduce.reduce v = .ok (.subkeys (some sub)) → P sub :=
      fun k' v' sub hm hr => hP k' v' sub (by simp [hm]) hr
    simp only [makeKeys] at h
    split at h
    · simp at h
    · simp at h
    · rename_i v1 hred
      split at h
      · rename_i sub hsh
        have hv1 : v1 = .subkeys (some sub) := by
          cases v1 <;> simp [makeKeys.shapeOf'] at hsh
          subst hsh; rfl
        subst hv1
        split at h
        · simp at h
        · simp at h
        · rename_i sub' bki strs' hrm
          obtain ⟨hk, hwf, hfresh⟩ := hrec _ _ _ _ _ _ hrm (hP k v sub (by simp) hred)
          obtain ⟨newB, hb, hw, hf⟩ := ih _ _ _ _ _ _ h hP'
          refine ⟨(k, .subkeys [sub'] bki) :: newB, by simp [hb], ?_, ?_⟩
          · simp only [WFL, LV.WF]
            exact ⟨⟨⟨sub', rfl, hk⟩, hwf.1, hwf.2⟩, hw⟩
          · intro e he
            simp only [List.mem_cons] at he
            rcases he with rfl | he
            · intro p iol d hl
              exact hfresh p iol d hl
            · exact hf e he
      · simp at h
      · simp at h
      · split at h
        · simp at h
        · simp at h
        · rename_i iol hgk
          obtain ⟨newB, hb, hw, hf⟩ := ih _ _ _ _ _ _ h hP'
          refine ⟨(k, .value iol ⟨dflt, []⟩) :: newB, by simp [hb], ?_, ?_⟩
          · simp only [WFL, LV.WF, true_and]; exact hw
          · intro e he
            simp only [List.mem_cons] at he
            rcases he with rfl | he
            · intro p iol d hl
              cases p with
              | nil => simp only [leafLV, Option.some.injEq, Prod.mk.injEq] at hl; exact hl.2.symm
              | cons _ _ => simp [leafLV] at hl
            · exact hf e he

theorem makeBuilderKeys_spec (dflt : Str) :
    ∀ fuel, RecMakeOK dflt (NDLoc fuel) (makeBuilderKeys dflt fuel) := by
  intro fuel
  induction fuel with
  | zero =>
    intro path sub strs sub' bki strs' h _
    simp [makeBuilderKeys] at h
  | succ fuel ih =>
    intro path loc strs loc' bki strs' h hnd
    have hkeys := makeBuilderKeys_keys dflt (fuel + 1) path loc strs loc' bki strs' h
    simp only [makeBuilderKeys] at h
    split at h
    · rename_i keys' b s hk
      simp only [Res.ok.injEq, Prod.mk.injEq] at h
      obtain ⟨rfl, rfl, rfl⟩ := h
      simp only [NDLoc] at hnd
      obtain ⟨newB, hb, hw, hf⟩ := makeKeys_spec _ dflt (NDLoc fuel) ih path _ _ _ _ _ _ _ hk hnd.2
      simp only [List.nil_append] at hb
      subst hb
      refine ⟨by rw [hkeys.2.1, hkeys.1], ⟨by rw [hkeys.1]; exact hnd.1, hw⟩, leafAt_fresh_of_all dflt _ hf⟩
    · simp at h
    · simp at h

/-! ### every diagnostic of a merge is about the merged locale -/

mutual
theorem belowW_locale (top : Str) (implicit suppress : Bool) :
    ∀ (lv : LV) (kp : KeyPath) (cur : PV) (w : Warning),
      w ∈ belowW top implicit suppress kp cur lv → warnLocale w = top
  | .value _ _, kp, cur, w, h => by simp [belowW] at h
  | .subkeys _ bkeys, kp, cur, w, h => by
    cases cur with
    | subkeys o =>
      cases o with
      | none => simp [belowW] at h
      | some l =>
        simp only [belowW, List.mem_append] at h
        rcases h with h | h
        · exact keysW_locale top implicit suppress bkeys kp l.keys w h
        · unfold surplusW at h
          split at h
          · simp at h
          · simp only [List.mem_map] at h
            obtain ⟨k, _, rfl⟩ := h
            rfl
    | _ => simp [belowW] at h
theorem keysW_locale (top : Str) (implicit suppress : Bool) :
    ∀ (bki : List (Str × LV)) (path : KeyPath) (ks : List (Str × PV)) (w : Warning),
      w ∈ keysW top implicit suppress path ks bki → warnLocale w = top
  | [], path, ks, w, h => by simp [keysW] at h
  | (k, lv) :: rest, path, ks, w, h => by
    simp only [keysW, List.mem_append] at h
    rcases h with h | h
    · split at h
      · split at h
        · simp only [List.mem_singleton] at h; subst h; rfl
        · simp at h
      · split at h
        · exact belowW_locale top implicit suppress lv _ _ w h
        · simp at h
    · exact keysW_locale top implicit suppress rest path ks w h
end

theorem localeW_locale (top : Str) (implicit suppress : Bool) (path : KeyPath) (ks : List (Str × PV))
    (bki : BKI) (w : Warning) (h : w ∈ localeW top implicit suppress path ks bki) : warnLocale w = top := by
  simp only [localeW, List.mem_append] at h
  rcases h with h | h
  · exact keysW_locale top implicit suppress bki path ks w h
  · unfold surplusW at h
    split at h
    · simp at h
    · simp only [List.mem_map] at h
      obtain ⟨k, _, rfl⟩ := h
      rfl

/-! ### `propagate_string_count` does not touch keys or leaves -/

theorem get?_map_snd (f : Str → β → γ) (k : Str) (m : List (Str × β)) :
    AMap.get? k (m.map (fun e => (e.1, f e.1 e.2))) = (AMap.get? k m).map (f k) := by
  induction m with
  | nil => rfl
  | cons e m ih =>
    obtain ⟨k1, v1⟩ := e
    simp only [List.map_cons, AMap.get?_cons]
    by_cases h : k1 = k
    · subst h; simp
    · simp [h, ih]

/-- `propagate` one level, as a map over the values -/
def propLV (fuel : Nat) (counts : List Nat) : LV → LV
  | .subkeys locales keys =>
    .subkeys ((locales.zip counts).map (fun (l, c) => Loc.mk l.name l.top l.keys l.strings c)
      ++ locales.drop counts.length) (propagate fuel counts keys)
  | v => v

theorem propagate_succ (fuel : Nat) (counts : List Nat) (b : BKI) :
    propagate (fuel + 1) counts b = b.map (fun e => (e.1, propLV fuel counts e.2)) := by
  simp only [propagate]
  apply List.map_congr_left
  intro e _
  obtain ⟨k, lv⟩ := e
  cases lv <;> rfl

theorem propagate_keys (fuel : Nat) (counts : List Nat) (b : BKI) :
    (propagate fuel counts b).map Prod.fst = b.map Prod.fst := by
  cases fuel with
  | zero => rfl
  | succ fuel => rw [propagate_succ]; simp [Function.comp_def]

theorem propagate_leafAt (counts : List Nat) :
    ∀ (fuel : Nat) (b : BKI) (p : List Str), leafAt (propagate fuel counts b) p = leafAt b p := by
  intro fuel
  induction fuel with
  | zero => intro b p; rfl
  | succ fuel ih =>
    intro b p
    cases p with
    | nil => simp [leafAt]
    | cons k rest =>
      rw [propagate_succ, leafAt_cons, leafAt_cons,
        get?_map_snd (fun _ lv => propLV fuel counts lv) k b]
      cases AMap.get? k b with
      | none => rfl
      | some lv =>
        cases lv with
        | value iol d => rfl
        | subkeys l keys => simp only [Option.map_some, propLV, leafLV]; exact ih keys rest

/-! ### the loop of `check_locales_inner` over the non-default locales -/

/-- `DefaultTo` chosen for a locale -/
def dtoOf (suppress : Bool) (inherits : List (Str × Str)) (dflt top : Str) : DefaultTo :=
  match AMap.get? top inherits with
  | some d => .explicit d
  | none => if suppress then .explicit dflt else .implicit dflt

theorem dtoOf_key (suppress : Bool) (inherits : List (Str × Str)) (dflt top : Str) :
    (dtoOf suppress inherits dflt top).key = (AMap.get? top inherits).getD dflt := by
  unfold dtoOf
  cases AMap.get? top inherits with
  | some d => rfl
  | none => cases suppress <;> rfl

/-- locales (by name) among `others` that do not define the key path -/
def undefIn (others : List Loc) (p : List Str) (x : Str) : Bool :=
  others.any (fun l => l.name == x && undefinedAtPath l.keys p)

theorem go_spec (suppress : Bool) (fuel : Nat) (inherits : List (Str × Str)) (dl : Loc) (path : KeyPath) :
    ∀ (others acc : List Loc) (bki : BKI) (ws : List Warning) locales bki' ws',
      BKI.WF bki →
      checkLocalesInner.go suppress fuel inherits dl path others acc bki ws = .ok (locales, bki', ws') →
      BKI.WF bki' ∧ bki'.map Prod.fst = bki.map Prod.fst
      ∧ (∃ added, ws' = ws ++ added ∧ ∀ w ∈ added, warnLocale w ∈ others.map Loc.name)
      ∧ (∀ p iol d, leafAt bki p = some (iol, d) →
          ∃ iol' d', leafAt bki' p = some (iol', d') ∧ d'.dflt = d.dflt
            ∧ ∀ x, AMap.get? x d'.mapping
                = if undefIn others p x then some ((AMap.get? x inherits).getD dl.top)
                  else AMap.get? x d.mapping) := by
  intro others
  induction others with
  | nil =>
    intro acc bki ws locales bki' ws' hwf h
    simp only [checkLocalesInner.go, Res.ok.injEq, Prod.mk.injEq] at h
    obtain ⟨-, rfl, rfl⟩ := h
    refine ⟨hwf, rfl, ⟨[], by simp, by simp⟩, ?_⟩
    intro p iol d hl
    exact ⟨iol, d, hl, rfl, by simp [undefIn]⟩
  | cons l rest ih =>
    intro acc bki ws locales bki' ws' hwf h
    simp only [checkLocalesInner.go] at h
    split at h
    · simp at h
    · simp at h
    · rename_i l' bki1 st hml
      have hml' : mergeLocale suppress l.name (dtoOf suppress inherits dl.top l.name) fuel path l bki
          { strings := [], warnings := ws } = .ok (l', bki1, st) := hml
      obtain ⟨hk1, hw1, hws1⟩ := mergeLocale_spec suppress l.name _ fuel path l bki _ l' bki1 st hwf hml'
      have hwf1 : BKI.WF bki1 := ⟨by rw [hk1]; exact hwf.1, hw1⟩
      have hleaf1 := mergeLocale_leaf suppress l.name (dtoOf suppress inherits dl.top l.name) fuel
        path l bki _ l' bki1 st hwf hml'
      obtain ⟨hwf2, hk2, ⟨added, hadd, haddl⟩, hleaf2⟩ := ih _ _ _ _ _ _ hwf1 h
      refine ⟨hwf2, by rw [hk2, hk1], ?_, ?_⟩
      · refine ⟨localeW l.name (isImplicit (dtoOf suppress inherits dl.top l.name)) suppress path l.keys bki
            ++ added, ?_, ?_⟩
        · rw [hadd, hws1]; simp
        · intro w hw
          simp only [List.mem_append] at hw
          simp only [List.map_cons, List.mem_cons]
          rcases hw with hw | hw
          · left; exact localeW_locale _ _ _ _ _ _ w hw
          · right; exact haddl w hw
      · intro p iol d hl
        obtain ⟨iol1, d1, hl1, hd1, hm1⟩ := hleaf1 p iol d hl
        obtain ⟨iol2, d2, hl2, hd2, hm2⟩ := hleaf2 p iol1 d1 hl1
        refine ⟨iol2, d2, hl2, by rw [hd2, hd1], ?_⟩
        intro x
        rw [hm2 x]
        have hcons : undefIn (l :: rest) p x = ((l.name == x && undefinedAtPath l.keys p) || undefIn rest p x) := by
          simp [undefIn, List.any_cons]
        rw [hcons]
        rcases Bool.eq_false_or_eq_true (undefIn rest p x) with hr | hr
        · simp [hr]
        · simp only [hr, Bool.false_eq_true, if_false, Bool.or_false]
          rw [hm1, dtoOf_key]
          rcases Bool.eq_false_or_eq_true (undefinedAtPath l.keys p) with hu | hu
          · simp only [hu, if_true, Bool.and_true, beq_iff_eq]
            rw [AMap.get?_insert]
            by_cases hx : x = l.name
            · subst hx; simp
            · simp [hx, Ne.symm hx]
          · simp [hu]

/-! ### a merge keeps the key tree, and the diagnostics only depend on the key tree -/

def RecSk (recMerge : MergeRec) : Prop :=
  ∀ kp loc bki st loc' bki' st', recMerge kp loc bki st = .ok (loc', bki', st') → SkL bki bki'

theorem mergeValue_sk (recMerge : MergeRec) (hrec : RecSk recMerge) (top : Str) (dto : DefaultTo)
    (kp : KeyPath) (cur : PV) (lv : LV) (st : St) (v' : PV) (lv' : LV) (st' : St)
    (h : mergeValue recMerge top dto kp cur lv st = .ok (v', lv', st')) : LV.Sk lv lv' := by
  cases lv with
  | value iol d =>
    simp only [mergeValue] at h
    split at h
    · simp only [Res.ok.injEq, Prod.mk.injEq] at h
      obtain ⟨-, rfl, -⟩ := h
      simp [LV.Sk]
    · split at h
      · simp only [Res.ok.injEq, Prod.mk.injEq] at h
        obtain ⟨-, rfl, -⟩ := h
        simp [LV.Sk]
      · split at h
        · simp only [Res.ok.injEq, Prod.mk.injEq] at h
          obtain ⟨-, rfl, -⟩ := h
          simp [LV.Sk]
        · simp only [Res.ok.injEq, Prod.mk.injEq] at h
          obtain ⟨-, rfl, -⟩ := h
          simp [LV.Sk]
    · split at h
      · simp at h
      · simp at h
      · simp only [Res.ok.injEq, Prod.mk.injEq] at h
        obtain ⟨-, rfl, -⟩ := h
        simp [LV.Sk]
    · simp at h
  | subkeys locales bkeys =>
    simp only [mergeValue] at h
    split at h
    · split at h
      · simp at h
      · split at h
        · simp at h
        · simp at h
        · rename_i hr
          simp only [Res.ok.injEq, Prod.mk.injEq] at h
          obtain ⟨-, rfl, -⟩ := h
          simp only [LV.Sk]
          exact hrec _ _ _ _ _ _ _ hr
    · split at h
      · simp at h
      · simp at h
      · rename_i hr
        simp only [Res.ok.injEq, Prod.mk.injEq] at h
        obtain ⟨-, rfl, -⟩ := h
        simp only [LV.Sk]
        exact hrec _ _ _ _ _ _ _ hr
    · simp at h
    · simp at h

theorem mergeKeys_sk (recMerge : MergeRec) (hrec : RecSk recMerge) (top : Str) (dto : DefaultTo) (path : KeyPath) :
    ∀ (bki : BKI) (ks : List (Str × PV)) (accB : BKI) (st : St) ks' b' st',
      mergeKeys recMerge top dto path bki ks accB st = .ok (ks', b', st') →
      ∃ new, b' = accB ++ new ∧ SkL bki new := by
  intro bki
  induction bki with
  | nil =>
    intro ks accB st ks' b' st' h
    simp only [mergeKeys, Res.ok.injEq, Prod.mk.injEq] at h
    obtain ⟨rfl, rfl, rfl⟩ := h
    exact ⟨[], by simp, by simp [SkL]⟩
  | cons e rest ih =>
    obtain ⟨k, lv⟩ := e
    intro ks accB st ks' b' st' h
    simp only [mergeKeys] at h
    split at h
    · simp at h
    · simp at h
    · split at h
      · simp at h
      · simp at h
      · rename_i v1 lv1 st2 hmv
        obtain ⟨new', hb, hsk⟩ := ih _ _ _ _ _ _ h
        refine ⟨(k, lv1) :: new', by simp [hb], ?_⟩
        simp only [SkL, true_and]
        exact ⟨mergeValue_sk recMerge hrec top dto _ _ _ _ _ _ _ hmv, hsk⟩

theorem mergeLocale_sk (suppress : Bool) (top : Str) (dto : DefaultTo) :
    ∀ fuel, RecSk (mergeLocale suppress top dto fuel) := by
  intro fuel
  induction fuel with
  | zero => intro kp loc bki st loc' bki' st' h; simp [mergeLocale] at h
  | succ fuel ih =>
    intro kp loc bki st loc' bki' st' h
    simp only [mergeLocale] at h
    split at h
    · simp at h
    · simp at h
    · rename_i keys' b' st1 hmk
      simp only [Res.ok.injEq, Prod.mk.injEq] at h
      obtain ⟨-, rfl, -⟩ := h
      obtain ⟨new, hb, hsk⟩ := mergeKeys_sk _ ih top dto kp bki loc.keys [] st _ _ _ hmk
      simp only [List.nil_append] at hb
      subst hb; exact hsk

theorem SkL_keys : ∀ (a b : List (Str × LV)), SkL a b → a.map Prod.fst = b.map Prod.fst
  | [], [], _ => rfl
  | (k, lv) :: r, (k', lv') :: r', h => by
    simp only [SkL] at h
    simp only [List.map_cons, h.1, SkL_keys r r' h.2.2]
  | [], _ :: _, h => by simp [SkL] at h
  | _ :: _, [], h => by simp [SkL] at h

mutual
theorem belowW_sk (top : Str) (implicit suppress : Bool) :
    ∀ (lv lv' : LV) (kp : KeyPath) (cur : PV), LV.Sk lv lv' →
      belowW top implicit suppress kp cur lv = belowW top implicit suppress kp cur lv'
  | .value _ _, .value _ _, kp, cur, _ => by simp [belowW]
  | .subkeys _ ks, .subkeys _ ks', kp, cur, h => by
    simp only [LV.Sk] at h
    cases cur with
    | subkeys o =>
      cases o with
      | none => simp [belowW]
      | some l =>
        simp only [belowW]
        rw [keysW_sk top implicit suppress ks ks' kp l.keys h, SkL_keys ks ks' h]
    | _ => simp [belowW]
  | .value _ _, .subkeys _ _, _, _, h => by simp [LV.Sk] at h
  | .subkeys _ _, .value _ _, _, _, h => by simp [LV.Sk] at h
theorem keysW_sk (top : Str) (implicit suppress : Bool) :
    ∀ (bki bki' : List (Str × LV)) (path : KeyPath) (ks : List (Str × PV)), SkL bki bki' →
      keysW top implicit suppress path ks bki = keysW top implicit suppress path ks bki'
  | [], [], _, _, _ => rfl
  | (k, lv) :: r, (k', lv') :: r', path, ks, h => by
    simp only [SkL] at h
    obtain ⟨rfl, h1, h2⟩ := h
    simp only [keysW]
    rw [keysW_sk top implicit suppress r r' path ks h2]
    congr 1
    cases AMap.get? k ks with
    | none => rfl
    | some v =>
      simp only
      cases Reduce.reduce v with
      | ok cur => exact belowW_sk top implicit suppress lv lv' _ cur h1
      | err e => rfl
      | panic e => rfl
  | [], _ :: _, _, _, h => by simp [SkL] at h
  | _ :: _, [], _, _, h => by simp [SkL] at h
end

theorem localeW_sk (top : Str) (implicit suppress : Bool) (path : KeyPath) (ks : List (Str × PV))
    (bki bki' : BKI) (h : SkL bki bki') :
    localeW top implicit suppress path ks bki = localeW top implicit suppress path ks bki' := by
  simp only [localeW, keysW_sk top implicit suppress bki bki' path ks h, SkL_keys bki bki' h]

theorem isImplicit_dtoOf (suppress : Bool) (inherits : List (Str × Str)) (dflt top : Str) :
    isImplicit (dtoOf suppress inherits dflt top) = (!suppress && (AMap.get? top inherits).isNone) := by
  unfold dtoOf
  cases AMap.get? top inherits with
  | some d => cases suppress <;> rfl
  | none => cases suppress <;> rfl

theorem go_warnings (suppress : Bool) (fuel : Nat) (inherits : List (Str × Str)) (dl : Loc) (path : KeyPath) :
    ∀ (others acc : List Loc) (bki : BKI) (ws : List Warning) locales bki' ws',
      BKI.WF bki →
      checkLocalesInner.go suppress fuel inherits dl path others acc bki ws = .ok (locales, bki', ws') →
      ws' = ws ++ checkW suppress inherits path others bki := by
  intro others
  induction others with
  | nil =>
    intro acc bki ws locales bki' ws' _ h
    simp only [checkLocalesInner.go, Res.ok.injEq, Prod.mk.injEq] at h
    obtain ⟨-, -, rfl⟩ := h
    simp [checkW]
  | cons l rest ih =>
    intro acc bki ws locales bki' ws' hwf h
    simp only [checkLocalesInner.go] at h
    split at h
    · simp at h
    · simp at h
    · rename_i l' bki1 st hml
      have hml' : mergeLocale suppress l.name (dtoOf suppress inherits dl.top l.name) fuel path l bki
          { strings := [], warnings := ws } = .ok (l', bki1, st) := hml
      obtain ⟨hk1, hw1, hws1⟩ := mergeLocale_spec suppress l.name _ fuel path l bki _ l' bki1 st hwf hml'
      have hwf1 : BKI.WF bki1 := ⟨by rw [hk1]; exact hwf.1, hw1⟩
      have hsk := mergeLocale_sk suppress l.name _ fuel path l bki _ l' bki1 st hml'
      have := ih _ _ _ _ _ _ hwf1 h
      rw [this, hws1, isImplicit_dtoOf]
      have hc : checkW suppress inherits path rest bki1 = checkW suppress inherits path rest bki := by
        unfold checkW
        generalize rest = r
        induction r with
        | nil => rfl
        | cons a r ihr =>
          simp only [List.flatMap_cons, ihr]
          rw [localeW_sk _ _ _ _ _ _ _ hsk]
      rw [hc]
      simp only [checkW, List.flatMap_cons, List.append_assoc]

theorem checkLocalesInner_spec (suppress : Bool) (fuel : Nat) (inherits : List (Str × Str)) (ns : Option Str)
    (dl : Loc) (others : List Loc) (ws : List Warning) (locales : List Loc) (bkiF : BKI) (ws' : List Warning)
    (hnd : NDLoc fuel dl)
    (h : checkLocalesInner suppress fuel inherits ns (dl :: others) ws = .ok (locales, bkiF, ws')) :
    ∃ dl' bki0 strs, makeBuilderKeys dl.top fuel ⟨ns, []⟩ dl [] = .ok (dl', bki0, strs)
      ∧ bkiF.map Prod.fst = dl.keys.map Prod.fst
      ∧ ws' = ws ++ checkW suppress inherits ⟨ns, []⟩ others bki0
      ∧ (∃ added, ws' = ws ++ added ∧ ∀ w ∈ added, warnLocale w ∈ others.map Loc.name)
      ∧ (∀ p iol d, leafAt bki0 p = some (iol, d) →
          ∃ iol' d', leafAt bkiF p = some (iol', d') ∧ d'.dflt = dl.top
            ∧ MappingOf inherits dl.top (undefIn others p) d'.mapping) := by
  simp only [checkLocalesInner] at h
  split at h
  · simp at h
  · simp at h
  · rename_i dl' bki0 strs hmk
    split at h
    · simp at h
    · simp at h
    · rename_i locs bki1 ws1 hgo
      simp only [Res.ok.injEq, Prod.mk.injEq] at h
      obtain ⟨rfl, rfl, rfl⟩ := h
      obtain ⟨hk0, hwf0, hfresh⟩ := makeBuilderKeys_spec dl.top fuel _ _ _ _ _ _ hmk hnd
      have hkeys := makeBuilderKeys_keys dl.top fuel _ _ _ _ _ _ hmk
      obtain ⟨_, hk1, hadd, hleaf⟩ := go_spec suppress fuel inherits dl ⟨ns, []⟩ others _ bki0 ws _ _ _ hwf0 hgo
      refine ⟨dl', bki0, strs, hmk, by rw [propagate_keys, hk1, hkeys.1],
        go_warnings suppress fuel inherits dl ⟨ns, []⟩ others _ bki0 ws _ _ _ hwf0 hgo, hadd, ?_⟩
      intro p iol d hl
      obtain ⟨iol', d', hl', hd', hm'⟩ := hleaf p iol d hl
      have hd := hfresh p iol d hl
      subst hd
      refine ⟨iol', d', by rw [propagate_leafAt]; exact hl', hd', ?_⟩
      intro x
      rw [hm' x]
      simp [AMap.get?]

/-! ### one diagnostic per (locale, key path) -/

theorem child_inj (path : KeyPath) (k k' : Str) (h : child path k = child path k') : k = k' := by
  have h1 : (child path k).path = (child path k').path := by rw [h]
  simpa [child] using h1

theorem warnings_nodup_flat (top : Str) (implicit suppress : Bool) (path : KeyPath) (locKeys bkiKeys : List Str)
    (h1 : bkiKeys.Nodup) (h2 : locKeys.Nodup) :
    (missingFlat top implicit path locKeys bkiKeys ++ surplusW top suppress path locKeys bkiKeys).Nodup := by
  rw [List.nodup_append]
  refine ⟨?_, ?_, ?_⟩
  · unfold missingFlat
    split
    · apply List.Pairwise.map (R := (· ≠ ·))
      · intro a b hab he
        injection he with _ hp
        exact hab (child_inj path a b hp)
      · exact h1.filter _
    · exact List.nodup_nil
  · unfold surplusW
    split
    · exact List.nodup_nil
    · apply List.Pairwise.map (R := (· ≠ ·))
      · intro a b hab he
        injection he with _ hp
        exact hab (child_inj path a b hp)
      · exact h2.filter _
  · intro a ha b hb hab
    subst hab
    unfold missingFlat at ha
    unfold surplusW at hb
    split at ha <;> split at hb <;> simp at ha hb
    obtain ⟨k, _, rfl⟩ := ha
    obtain ⟨k', _, hk'⟩ := hb
    cases hk'

/-! ### a successful merge has no group/value mismatch -/

/-- the (reduced) value of the locale fits the builder key -/
def Fits (cur : PV) : LV → Prop
  | .subkeys _ _ => cur = .dflt ∨ ∃ l, cur = .subkeys (some l)
  | .value _ _ => ∀ o, cur ≠ .subkeys o

theorem mergeValue_ok_fits (recMerge : MergeRec) (top : Str) (dto : DefaultTo) (kp : KeyPath) (cur : PV)
    (lv : LV) (st : St) (r : PV × LV × St) (h : mergeValue recMerge top dto kp cur lv st = .ok r) :
    Fits cur lv := by
  cases lv with
  | value iol d =>
    intro o ho
    subst ho
    rw [mergeValue_value_mismatch] at h
    simp at h
  | subkeys locales bkeys =>
    cases cur with
    | dflt => left; rfl
    | subkeys o =>
      cases o with
      | some l => right; exact ⟨l, rfl⟩
      | none => simp [mergeValue, shapeOf] at h
    | _ => simp [mergeValue, shapeOf] at h

theorem mergeKeys_ok_fits (recMerge : MergeRec) (top : Str) (dto : DefaultTo) (path : KeyPath) :
    ∀ (bki : BKI) (ks : List (Str × PV)) (accB : BKI) (st : St) r,
      mergeKeys recMerge top dto path bki ks accB st = .ok r →
      ∀ k lv v cur, AMap.get? k bki = some lv → AMap.get? k ks = some v → Reduce.reduce v = .ok cur →
        Fits cur lv := by
  intro bki
  induction bki with
  | nil => intro ks accB st r _ k lv v cur hg; simp [AMap.get?] at hg
  | cons e rest ih =>
    obtain ⟨k0, lv0⟩ := e
    intro ks accB st r h k lv v cur hg hv hr
    rw [AMap.get?_cons] at hg
    by_cases hk : k0 = k
    · subst hk
      simp only [if_true, Option.some.injEq] at hg
      subst hg
      simp only [mergeKeys, hv, hr] at h
      split at h
      · simp at h
      · simp at h
      · rename_i hmv
        exact mergeValue_ok_fits _ _ _ _ _ _ _ _ hmv
    · simp only [hk, if_false] at hg
      simp only [mergeKeys] at h
      split at h
      · simp at h
      · simp at h
      · split at h
        · simp at h
        · simp at h
        · exact ih _ _ _ _ h k lv v cur hg (by rw [AMap.get?_insert_ne (Ne.symm hk)]; exact hv) hr

end I18nVerif.Check
