import I18nVerif.Model.Resolve
import I18nVerif.Spec.Resolve
/-! Helper lemmas for C15 (initial locale resolution). -/
namespace I18nVerif.Resolve
open I18nVerif.Langid

theorem isWs_eq_isSpace (c : Char) : isWs c = Spec.isSpace c := by
  rw [Bool.eq_iff_iff]
  simp only [isWs, Spec.isSpace, Bool.or_eq_true, Bool.and_eq_true, decide_eq_true_eq, beq_iff_eq,
    List.contains_eq_mem, List.mem_cons, List.not_mem_nil, or_false]
  omega

theorem trim_eq_strip (s : Str) : trim s = Spec.strip s := by
  have : isWs = Spec.isSpace := funext isWs_eq_isSpace
  simp [trim, trimBy, Spec.strip, this]

theorem lookup_eq_find (l : List (Str × Loc)) (k : Str) :
    l.lookup k = (l.find? (fun nl => nl.1 == k)).map (·.2) := by
  induction l with
  | nil => rfl
  | cons a as ih =>
    obtain ⟨n, v⟩ := a
    by_cases h : k = n
    · subst h; simp [List.lookup, List.find?]
    · have h' : ¬ n = k := fun e => h e.symm
      have e1 : (k == n) = false := by simpa using h
      have e2 : (n == k) = false := by simpa using h'
      simp [List.lookup, List.find?, e1, e2, ih]

/-- decoding the jar's value is "the locale named by the value" of the specification -/
theorem useCookie_eq_spec (cfg : Cfg) (jar : Option Str) :
    useCookie cfg jar = Spec.cookieLocale (cfg.names.zip cfg.avail) true jar := by
  cases jar with
  | none => rfl
  | some v => simp [useCookie, fromStr, Spec.cookieLocale, lookup_eq_find, trim_eq_strip]

theorem langCookie_eq_spec (cfg : Cfg) (fc ec : Bool) (jar : Option Str) :
    langCookie cfg fc ec jar = Spec.cookieLocale (cfg.names.zip cfg.avail) (fc && ec) jar := by
  unfold langCookie
  cases h : (fc && ec)
  · cases jar <;> simp [Spec.cookieLocale]
  · simp [useCookie_eq_spec]

theorem subLangCookie_eq_spec (cfg : Cfg) (fc hasName : Bool) (jar : Option Str) :
    subLangCookie cfg fc hasName jar = Spec.cookieLocale (cfg.names.zip cfg.avail) (hasName && fc) jar := by
  unfold subLangCookie
  cases h : (hasName && fc)
  · cases jar <;> simp [Spec.cookieLocale]
  · simp [useCookie_eq_spec]

/-- a value that is not a configured name decodes to nothing -/
theorem cookieLocale_invalid (named : List (Str × Loc)) (inUse : Bool) (v : Str)
    (h : ∀ nl ∈ named, nl.1 ≠ Spec.strip v) : Spec.cookieLocale named inUse (some v) = none := by
  cases inUse
  · rfl
  · simp only [Spec.cookieLocale, Option.map_eq_none_iff, List.find?_eq_none]
    intro nl hnl
    simpa using h nl hnl

/-- a decoded cookie is one of the configured locales -/
theorem cookieLocale_mem {named : List (Str × Loc)} {inUse : Bool} {jar : Option Str} {l : Loc}
    (h : Spec.cookieLocale named inUse jar = some l) : l ∈ named.map (·.2) := by
  cases inUse <;> cases jar <;> simp [Spec.cookieLocale] at h
  obtain ⟨a, ha⟩ := h
  have := List.mem_of_find?_eq_some ha
  exact List.mem_map.mpr ⟨_, this, rfl⟩

/-- the best match of the negotiation: head of `filter_matches` -/
def bestMatch (cfg : Cfg) (parse : Str → Option LangId) (accepted : List Str) : Option Loc :=
  (filterMatches (lossyLangids parse accepted) cfg.avail).head?

theorem findLocale_eq (cfg : Cfg) (parse : Str → Option LangId) (accepted : List Str) :
    findLocale cfg parse accepted = Spec.rootLocale none (bestMatch cfg parse accepted) cfg.dflt := by
  unfold findLocale findMatch bestMatch
  cases filterMatches (lossyLangids parse accepted) cfg.avail <;> rfl

end I18nVerif.Resolve
