import I18nVerif.Proofs.Manifest
/-! helper lemmas for `Theorems/C19SectionRest.lean`: how `lines` and `findSection` behave under concatenation -/
namespace I18nVerif.Manifest

theorem lines_eq_nil (x : List Char) : lines x = [] ↔ x = [] := by
  constructor
  · intro h
    have := lines_flatten x
    rw [h] at this
    simpa using this.symm
  · rintro rfl; rfl

theorem lines_cons_nl (cs : List Char) : lines ('\n' :: cs) = ['\n'] :: lines cs := by
  rw [lines]; simp

theorem lines_cons_not_nl (c : Char) (cs : List Char) (hc : c ≠ '\n') :
    lines (c :: cs) = match lines cs with
      | [] => [[c]]
      | l :: ls => (c :: l) :: ls := by
  rw [lines, if_neg hc]
  cases lines cs <;> rfl

theorem lines_append_nl (q b : List Char) : lines (q ++ '\n' :: b) = lines (q ++ ['\n']) ++ lines b := by
  induction q with
  | nil => simp [lines_cons_nl, lines]
  | cons c q ih =>
    by_cases hc : c = '\n'
    · subst hc
      simp only [List.cons_append, lines_cons_nl, ih]
    · simp only [List.cons_append, lines_cons_not_nl _ _ hc, ih]
      cases hq : lines (q ++ ['\n']) with
      | nil => simp [lines_eq_nil] at hq
      | cons l ls => simp

theorem findSection_append (ls₁ ls₂ : List (List Char)) (pre : List Char)
    (h : ∀ l ∈ ls₁, startsSection l = false) :
    findSection (ls₁ ++ ls₂) pre = findSection ls₂ (pre ++ ls₁.flatten) := by
  induction ls₁ generalizing pre with
  | nil => simp
  | cons l ls ih =>
    have hl : startsSection l = false := h l (by simp)
    simp only [List.cons_append, findSection, hl, Bool.false_eq_true, if_false, List.flatten_cons]
    rw [ih _ (fun x hx => h x (by simp [hx]))]
    simp [List.append_assoc]

theorem findSection_pre (ls : List (List Char)) (pre : List Char) :
    findSection ls pre = (findSection ls []).map (fun br => (pre ++ br.1, br.2)) := by
  induction ls generalizing pre with
  | nil => simp [findSection]
  | cons l ls ih =>
    simp only [findSection]
    split
    · simp
    · rw [ih (pre ++ l), ih ([] ++ l)]
      cases findSection ls [] with
      | none => simp
      | some br => simp [List.append_assoc]

/-- the lines before any line are given back by `lines` of their concatenation, whatever follows -/
theorem lines_prefix_append (m : List Char) : ∀ (ls₁ : List (List Char)) (l : List Char) (ls₂ : List (List Char)),
    lines m = ls₁ ++ l :: ls₂ → ∀ y, lines (ls₁.flatten ++ y) = ls₁ ++ lines y := by
  induction m with
  | nil => intro ls₁ l ls₂ h; simp [lines] at h
  | cons c cs ih =>
    intro ls₁ l ls₂ h y
    by_cases hc : c = '\n'
    · subst hc
      rw [lines_cons_nl] at h
      cases ls₁ with
      | nil => simp
      | cons x xs =>
        simp only [List.cons_append, List.cons.injEq] at h
        obtain ⟨hx, hrest⟩ := h
        subst hx
        simp only [List.flatten_cons, List.cons_append, List.nil_append, lines_cons_nl, ih xs l ls₂ hrest y]
    · rw [lines_cons_not_nl _ _ hc] at h
      cases hl : lines cs with
      | nil =>
        rw [hl] at h
        cases ls₁ with
        | nil => simp
        | cons x xs =>
          simp only [List.cons_append, List.cons.injEq] at h
          have := h.2
          simp at this
      | cons l0 ls0 =>
        rw [hl] at h
        cases ls₁ with
        | nil => simp
        | cons x xs =>
          simp only [List.cons_append, List.cons.injEq] at h
          obtain ⟨hx, hrest⟩ := h
          subst hx
          have hl' : lines cs = (l0 :: xs) ++ l :: ls₂ := by simp [hl, hrest]
          have := ih (l0 :: xs) l ls₂ hl' y
          simp only [List.flatten_cons, List.append_assoc] at this
          simp only [List.flatten_cons, List.cons_append, List.append_assoc, lines_cons_not_nl _ _ hc, this]

/-- a line terminator inside a line is its last character -/
theorem lines_nl_last (m : List Char) : ∀ l ∈ lines m, ∀ a b, l = a ++ '\n' :: b → b = [] := by
  induction m with
  | nil => intro l hl; simp [lines] at hl
  | cons c cs ih =>
    intro l hl a b e
    by_cases hc : c = '\n'
    · subst hc
      rw [lines_cons_nl] at hl
      cases hl with
      | head =>
        cases a with
        | nil => simpa using e.symm
        | cons a0 as => simp at e
      | tail _ hl => exact ih l hl a b e
    · rw [lines_cons_not_nl _ _ hc] at hl
      cases hcs : lines cs with
      | nil =>
        rw [hcs] at hl
        simp only [List.mem_singleton] at hl
        subst hl
        cases a with
        | nil => simp at e; exact absurd e.1 hc
        | cons a0 as => simp at e
      | cons l0 ls0 =>
        rw [hcs] at hl
        cases hl with
        | head =>
          cases a with
          | nil => simp at e; exact absurd e.1 hc
          | cons a0 as =>
            simp only [List.cons_append, List.cons.injEq] at e
            exact ih l0 (by simp [hcs]) as b e.2
        | tail _ hl => exact ih l (by rw [hcs]; exact List.mem_cons_of_mem _ hl) a b e

/-- a non-empty text without line terminator stays in the first line -/
theorem lines_first (u v : List Char) (hu : u ≠ []) (hnl : '\n' ∉ u) :
    ∃ x rest, lines (u ++ v) = (u ++ x) :: rest ∧ x ++ rest.flatten = v := by
  induction u with
  | nil => exact absurd rfl hu
  | cons c u ih =>
    have hc : c ≠ '\n' := by intro e; apply hnl; simp [e]
    have hnl' : '\n' ∉ u := by intro e; apply hnl; simp [e]
    by_cases hu' : u = []
    · subst hu'
      simp only [List.cons_append, List.nil_append, lines_cons_not_nl _ _ hc]
      cases hv : lines v with
      | nil =>
        have : v = [] := (lines_eq_nil v).1 hv
        exact ⟨[], [], by simp, by simp [this]⟩
      | cons l0 ls0 =>
        refine ⟨l0, ls0, rfl, ?_⟩
        have := lines_flatten v
        rw [hv] at this
        simpa using this
    · obtain ⟨x, rest, e, hx⟩ := ih hu' hnl'
      refine ⟨x, rest, ?_, hx⟩
      simp only [List.cons_append, lines_cons_not_nl _ _ hc, e]

theorem dropWhile_ws_append (ws y : List Char) (c : Char) (h : ∀ d ∈ ws, isWs d = true) (hc : isWs c = false) :
    (ws ++ c :: y).dropWhile isWs = c :: y := by
  induction ws with
  | nil => simp [hc]
  | cons d ws ih =>
    have hd : isWs d = true := h d (by simp)
    simp only [List.cons_append, List.dropWhile_cons, hd, if_true]
    exact ih (fun x hx => h x (by simp [hx]))

theorem takeWhile_ws_append (ws y : List Char) (c : Char) (h : ∀ d ∈ ws, isWs d = true) (hc : isWs c = false) :
    (ws ++ c :: y).takeWhile isWs = ws := by
  induction ws with
  | nil => simp [hc]
  | cons d ws ih =>
    have hd : isWs d = true := h d (by simp)
    simp only [List.cons_append, List.takeWhile_cons, hd, if_true, List.cons.injEq, true_and]
    exact ih (fun x hx => h x (by simp [hx]))

theorem header_cons : ∃ tl, header = '[' :: tl := by
  have h := header_head
  cases hh : header with
  | nil => rw [hh] at h; simp at h
  | cons a tl => rw [hh] at h; simp at h; exact ⟨tl, by rw [h]⟩

theorem header_nl_not_mem : '\n' ∉ header := by
  have := header_no_nl
  unfold countNl at this
  exact List.count_eq_zero.1 this

theorem header_ne_nil : header ≠ [] := by
  intro h
  have := header_length
  rw [h] at this
  simp at this

theorem isWs_bracket : isWs '[' = false := by decide

theorem isWs_nl : isWs '\n' = true := by decide

end I18nVerif.Manifest
